/-
C11 helper lemmas, part 2: `selectorRanges` (`Pred.ranges`) never fails on a well-typed plain predicate,
keeps every bound a valid value of its column, and bounds every row on which the predicate is TRUE.
-/
import ImmuModel.Sql.Proofs.QueryOrder
namespace ImmuModel.Sql.QueryRangeAux
open ImmuModel ImmuModel.Sql ImmuModel.Sql.QueryOrderAux

-- ---------------------------------------------------------------- range maps

/-- a property of every entry of the map (membership based: stronger than `get` based) -/
def MAll (P : Nat → Range → Prop) (m : RangeMap) : Prop := ∀ c r, (c, r) ∈ m → P c r

theorem MAll_nil (P : Nat → Range → Prop) : MAll P [] := by
  intro c r h; cases h

theorem get_mem : ∀ {m : RangeMap} {c : Nat} {r : Range}, RangeMap.get m c = some r → (c, r) ∈ m
  | [], _, _, h => by simp [RangeMap.get] at h
  | (k, x) :: rest, c, r, h => by
    simp only [RangeMap.get] at h
    by_cases e : k = c
    · simp only [e, if_true, Option.some.injEq] at h
      subst h; subst e
      exact List.mem_cons_self
    · simp only [e, if_false] at h
      exact List.mem_cons_of_mem _ (get_mem h)

theorem mem_set : ∀ {m : RangeMap} {c : Nat} {r : Range} {x : Nat × Range},
    x ∈ RangeMap.set m c r → x = (c, r) ∨ x ∈ m
  | [], c, r, x, h => by
    simp only [RangeMap.set, List.mem_singleton] at h
    exact Or.inl h
  | (k, y) :: rest, c, r, x, h => by
    simp only [RangeMap.set] at h
    by_cases e : k = c
    · simp only [e, if_true, List.mem_cons] at h
      rcases h with h | h
      · exact Or.inl h
      · exact Or.inr (List.mem_cons_of_mem _ h)
    · simp only [e, if_false, List.mem_cons] at h
      rcases h with h | h
      · exact Or.inr (by rw [h]; exact List.mem_cons_self)
      · rcases mem_set h with h | h
        · exact Or.inl h
        · exact Or.inr (List.mem_cons_of_mem _ h)

theorem MAll_set {P : Nat → Range → Prop} {m : RangeMap} {c : Nat} {r : Range}
    (hm : MAll P m) (hr : P c r) : MAll P (RangeMap.set m c r) := by
  intro c' r' h
  rcases mem_set h with h | h
  · cases h; exact hr
  · exact hm c' r' h

theorem MAll_get {P : Nat → Range → Prop} {m : RangeMap} {c : Nat} {r : Range}
    (hm : MAll P m) (h : RangeMap.get m c = some r) : P c r := hm c r (get_mem h)

/-- both bounds of the range are admissible values of the column -/
def RV (col : Col) (r : Range) : Prop :=
  (∀ lo, r.lo = some lo → okVal col lo) ∧ (∀ hi, r.hi = some hi → okVal col hi)

def RValid (cols : List Col) (c : Nat) (r : Range) : Prop := ∃ col, cols[c]? = some col ∧ RV col r

def RHolds (row : Row) (c : Nat) (r : Range) : Prop := ∃ v, row[c]? = some v ∧ r.holds v

theorem bounds_of_MAll {m : RangeMap} {row : Row} (h : MAll (RHolds row) m) : m.bounds row := by
  intro c r hg
  exact MAll_get h hg

/-- `Range.holds` in key-byte terms -/
def KH (col : Col) (r : Range) (x : Val) : Prop :=
  (∀ lo, r.lo = some lo → lexLt (K col x) (K col lo) = false) ∧
  (∀ hi, r.hi = some hi → lexLt (K col hi) (K col x) = false)

theorem holds_iff {col : Col} {r : Range} {x : Val} (hr : RV col r) (hx : okVal col x) :
    r.holds x ↔ KH col r x := by
  unfold Range.holds KH
  constructor
  · rintro ⟨h1, h2⟩
    exact ⟨fun lo h => (sqlLe_iff (hr.1 lo h) hx).mp (h1 lo h),
      fun hi h => (sqlLe_iff hx (hr.2 hi h)).mp (h2 hi h)⟩
  · rintro ⟨h1, h2⟩
    exact ⟨fun lo h => (sqlLe_iff (hr.1 lo h) hx).mpr (h1 lo h),
      fun hi h => (sqlLe_iff hx (hr.2 hi h)).mpr (h2 hi h)⟩

-- ---------------------------------------------------------------- max / min, refine, extend

theorem maxVal_ok {col : Col} {a b : Val} (ha : okVal col a) (hb : okVal col b) :
    ∃ z, maxVal a b = .ok z ∧ (z = a ∨ z = b) ∧
      lexLt (K col z) (K col a) = false ∧ lexLt (K col z) (K col b) = false := by
  simp only [maxVal, cmpVals_key ha hb]
  by_cases h : bytesCompare (K col a) (K col b) < 0
  · refine ⟨b, by simp [h], Or.inr rfl, ?_, lexLt_irrefl _⟩
    exact lexLt_asymm (bytesCompare_neg.mp h)
  · refine ⟨a, by simp [h], Or.inl rfl, lexLt_irrefl _, ?_⟩
    cases h' : lexLt (K col a) (K col b) with
    | false => rfl
    | true => exact absurd (bytesCompare_neg.mpr h') h

theorem minVal_ok {col : Col} {a b : Val} (ha : okVal col a) (hb : okVal col b) :
    ∃ z, minVal a b = .ok z ∧ (z = a ∨ z = b) ∧
      lexLt (K col a) (K col z) = false ∧ lexLt (K col b) (K col z) = false := by
  simp only [minVal, cmpVals_key ha hb]
  by_cases h : bytesCompare (K col a) (K col b) > 0
  · refine ⟨b, by simp [h], Or.inr rfl, ?_, lexLt_irrefl _⟩
    exact lexLt_asymm (bytesCompare_pos.mp h)
  · refine ⟨a, by simp [h], Or.inl rfl, lexLt_irrefl _, ?_⟩
    cases h' : lexLt (K col b) (K col a) with
    | false => rfl
    | true => exact absurd (bytesCompare_pos.mpr h') h

theorem optCombine_ok {col : Col} {f : Val → Val → Except EvalErr Val}
    (hf : ∀ a b, okVal col a → okVal col b → ∃ z, f a b = .ok z ∧ (z = a ∨ z = b))
    {x y : Option Val} (hx : ∀ a, x = some a → okVal col a) (hy : ∀ b, y = some b → okVal col b) :
    ∃ z, optCombine f x y = .ok z ∧ (∀ c, z = some c → x = some c ∨ y = some c) := by
  cases x with
  | none => exact ⟨y, rfl, fun c h => Or.inr h⟩
  | some a =>
    cases y with
    | none => exact ⟨some a, rfl, fun c h => Or.inl h⟩
    | some b =>
      obtain ⟨z, hz, hc⟩ := hf a b (hx a rfl) (hy b rfl)
      refine ⟨some z, by simp [optCombine, hz], ?_⟩
      intro c h
      cases h
      rcases hc with hc | hc
      · exact Or.inl (by rw [hc])
      · exact Or.inr (by rw [hc])

theorem refine_ok {col : Col} {r n : Range} (hr : RV col r) (hn : RV col n) :
    ∃ x, r.refine n = .ok x ∧ RV col x ∧ (∀ v, r.holds v → n.holds v → x.holds v) := by
  obtain ⟨lo, hlo, clo⟩ := optCombine_ok (col := col) (f := maxVal)
    (fun a b ha hb => by obtain ⟨z, h1, h2, _⟩ := maxVal_ok ha hb; exact ⟨z, h1, h2⟩) hr.1 hn.1
  obtain ⟨hi, hhi, chi⟩ := optCombine_ok (col := col) (f := minVal)
    (fun a b ha hb => by obtain ⟨z, h1, h2, _⟩ := minVal_ok ha hb; exact ⟨z, h1, h2⟩) hr.2 hn.2
  refine ⟨{ lo := lo, hi := hi }, by simp [Range.refine, hlo, hhi], ⟨?_, ?_⟩, ?_⟩
  · intro c h
    rcases clo c h with h | h
    · exact hr.1 c h
    · exact hn.1 c h
  · intro c h
    rcases chi c h with h | h
    · exact hr.2 c h
    · exact hn.2 c h
  · intro v h1 h2
    constructor
    · intro c h
      rcases clo c h with h | h
      · exact h1.1 c h
      · exact h2.1 c h
    · intro c h
      rcases chi c h with h | h
      · exact h1.2 c h
      · exact h2.2 c h

theorem extend_ok {col : Col} {l r : Range} (hl : RV col l) (hr : RV col r) :
    ∃ x, l.extend r = .ok x ∧ RV col x ∧
      (∀ v, okVal col v → (l.holds v ∨ r.holds v) → x.holds v) := by
  -- lower bound: the smaller of the two, if both exist
  have hlo : ∃ lo, optExtend minVal l.lo r.lo = .ok lo ∧ (∀ c, lo = some c → okVal col c) ∧
      (∀ c, lo = some c → ∃ a b, l.lo = some a ∧ r.lo = some b ∧
        lexLt (K col a) (K col c) = false ∧ lexLt (K col b) (K col c) = false) := by
    cases ha : l.lo with
    | none => exact ⟨none, by simp [optExtend], (fun c h => by cases h), (fun c h => by cases h)⟩
    | some a =>
      cases hb : r.lo with
      | none => exact ⟨none, by simp [optExtend], (fun c h => by cases h), (fun c h => by cases h)⟩
      | some b =>
        obtain ⟨z, hz, hc, h1, h2⟩ := minVal_ok (hl.1 a ha) (hr.1 b hb)
        refine ⟨some z, by simp [optExtend, hz], ?_, ?_⟩
        · intro c h; cases h
          rcases hc with hc | hc
          · rw [hc]; exact hl.1 a ha
          · rw [hc]; exact hr.1 b hb
        · intro c h; cases h
          exact ⟨a, b, rfl, rfl, h1, h2⟩
  have hhi : ∃ hi, optExtend maxVal l.hi r.hi = .ok hi ∧ (∀ c, hi = some c → okVal col c) ∧
      (∀ c, hi = some c → ∃ a b, l.hi = some a ∧ r.hi = some b ∧
        lexLt (K col c) (K col a) = false ∧ lexLt (K col c) (K col b) = false) := by
    cases ha : l.hi with
    | none => exact ⟨none, by simp [optExtend], (fun c h => by cases h), (fun c h => by cases h)⟩
    | some a =>
      cases hb : r.hi with
      | none => exact ⟨none, by simp [optExtend], (fun c h => by cases h), (fun c h => by cases h)⟩
      | some b =>
        obtain ⟨z, hz, hc, h1, h2⟩ := maxVal_ok (hl.2 a ha) (hr.2 b hb)
        refine ⟨some z, by simp [optExtend, hz], ?_, ?_⟩
        · intro c h; cases h
          rcases hc with hc | hc
          · rw [hc]; exact hl.2 a ha
          · rw [hc]; exact hr.2 b hb
        · intro c h; cases h
          exact ⟨a, b, rfl, rfl, h1, h2⟩
  obtain ⟨lo, elo, vlo, blo⟩ := hlo
  obtain ⟨hi, ehi, vhi, bhi⟩ := hhi
  have hx : RV col { lo := lo, hi := hi } := ⟨vlo, vhi⟩
  refine ⟨{ lo := lo, hi := hi }, by simp [Range.extend, elo, ehi], hx, ?_⟩
  intro v hv hor
  rw [holds_iff hx hv]
  constructor
  · intro c h
    obtain ⟨a, b, ea, eb, h1, h2⟩ := blo c h
    rcases hor with hh | hh
    · have := ((holds_iff hl hv).mp hh).1 a ea
      exact nlt_trans h1 this
    · have := ((holds_iff hr hv).mp hh).1 b eb
      exact nlt_trans h2 this
  · intro c h
    obtain ⟨a, b, ea, eb, h1, h2⟩ := bhi c h
    rcases hor with hh | hh
    · have := ((holds_iff hl hv).mp hh).2 a ea
      exact nlt_trans this h1
    · have := ((holds_iff hr hv).mp hh).2 b eb
      exact nlt_trans this h2

-- ---------------------------------------------------------------- updateRangeFor

/-- the new range of `updateRangeFor` -/
def newRange (v : Val) : CmpOp → Option Range
  | .eq => some { lo := some v, hi := some v }
  | .lt | .le => some { hi := some v }
  | .gt | .ge => some { lo := some v }
  | .ne => none

theorem updateRangeFor_eq (c : Nat) (v : Val) (op : CmpOp) (m : RangeMap) :
    updateRangeFor c v op m =
      match newRange v op with
      | none => .ok m
      | some n =>
        match m.get c with
        | none => .ok (m.set c n)
        | some cur =>
          match cur.refine n with
          | .error e => .error e
          | .ok r => .ok (m.set c r) := by
  cases op <;> rfl

theorem newRange_RV {col : Col} {v : Val} (hv : okVal col v) {op : CmpOp} {n : Range}
    (h : newRange v op = some n) : RV col n := by
  cases op <;> simp only [newRange, Option.some.injEq, reduceCtorEq] at h <;> subst h <;>
    constructor <;> intro x hx <;> simp at hx <;> (try subst hx) <;> exact hv

theorem newRange_holds {col : Col} {v x : Val} (hv : okVal col v) (hx : okVal col x) {op : CmpOp}
    {n : Range} (h : newRange v op = some n)
    (hop : op.holds (bytesCompare (K col x) (K col v)) = true) : n.holds x := by
  rw [holds_iff (newRange_RV hv h) hx]
  cases op <;> simp only [newRange, Option.some.injEq, reduceCtorEq] at h <;> subst h <;>
    simp only [CmpOp.holds, beq_iff_eq, decide_eq_true_eq] at hop <;>
    constructor <;> intro y hy <;> simp at hy <;> (try subst hy)
  · rw [bytesCompare_eq_zero.mp hop]; exact lexLt_irrefl _
  · rw [bytesCompare_eq_zero.mp hop]; exact lexLt_irrefl _
  · exact bytesCompare_le_zero.mp (by omega)
  · exact bytesCompare_le_zero.mp hop
  · exact lexLt_asymm (bytesCompare_pos.mp hop)
  · exact bytesCompare_nonneg.mp hop

theorem update_spec {cols : List Col} {c : Nat} {col : Col} {v : Val} (op : CmpOp) {m : RangeMap}
    (hc : cols[c]? = some col) (hv : okVal col v) (hm : MAll (RValid cols) m) :
    ∃ m', updateRangeFor c v op m = .ok m' ∧ MAll (RValid cols) m' ∧
      ∀ (row : Row) (x : Val), row[c]? = some x → okVal col x →
        op.holds (bytesCompare (K col x) (K col v)) = true →
        MAll (RHolds row) m → MAll (RHolds row) m' := by
  rw [updateRangeFor_eq]
  cases hn : newRange v op with
  | none => exact ⟨m, rfl, hm, fun _ _ _ _ _ h => h⟩
  | some n =>
    have hnv := newRange_RV hv hn
    cases hg : m.get c with
    | none =>
      refine ⟨m.set c n, rfl, MAll_set hm ⟨col, hc, hnv⟩, ?_⟩
      intro row x hx hxo hop hb
      exact MAll_set hb ⟨x, hx, newRange_holds hv hxo hn hop⟩
    | some cur =>
      obtain ⟨col', hc', hcur⟩ := MAll_get hm hg
      rw [hc] at hc'
      cases hc'
      obtain ⟨r, hr, hrv, hrh⟩ := refine_ok hcur hnv
      refine ⟨m.set c r, by simp [hr], MAll_set hm ⟨col, hc, hrv⟩, ?_⟩
      intro row x hx hxo hop hb
      obtain ⟨x', hx', hcx⟩ := MAll_get hb hg
      rw [hx] at hx'
      cases hx'
      exact MAll_set hb ⟨x, hx, hrh x hcx (newRange_holds hv hxo hn hop)⟩

end ImmuModel.Sql.QueryRangeAux
