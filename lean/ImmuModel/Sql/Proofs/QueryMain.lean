/-
C11 helper lemmas, final assembly: the statements of Props/C11.lean in terms of the parts
(QueryOrder: order transport, QueryRange/QuerySel: `selectorRanges`, QueryWindow: `keyReaderSpecFrom`,
QueryScan: index view, WHERE/OFFSET/LIMIT).
-/
import ImmuModel.Sql.QuerySpec
import ImmuModel.Sql.Proofs.KeyMain
import ImmuModel.Sql.Proofs.QueryScan
namespace ImmuModel.Sql.QueryMainAux
open ImmuModel ImmuModel.Sql ImmuModel.Sql.QueryOrderAux ImmuModel.Sql.QueryRangeAux
open ImmuModel.Sql.QuerySelAux ImmuModel.Sql.QueryWindowAux ImmuModel.Sql.QueryScanAux

theorem wf_rowOK {t : Table} (ht : t.wf = true) {row : Row} (h : row ∈ t.rows) :
    rowOK t.cols row = true := by
  simp only [Table.wf, Bool.and_eq_true] at ht
  exact List.all_eq_true.mp ht.1 row h

theorem range_sound (cols : List Col) (p : Pred) (row : Row) (m : RangeMap)
    (hp : p.wt cols = true) (hpl : p.plain = true) (hrow : rowOK cols row = true)
    (hr : p.ranges [] = .ok m) (he : p.eval row = .ok (some true)) :
    m.bounds row := by
  obtain ⟨m', h1, _, h3⟩ := ranges_spec cols p [] hp hpl (MAll_nil _)
  rw [hr] at h1
  cases h1
  exact bounds_of_MAll (h3 row hrow he (MAll_nil _))

theorem window_sound (t : Table) (idx : List Nat) (p : Pred) (row : Row) (m : RangeMap)
    (lo hi k : Bytes)
    (ht : t.wf = true) (hmem : row ∈ t.rows)
    (hp : p.wt t.cols = true) (hpl : p.plain = true)
    (hr : p.ranges [] = .ok m) (hb : keyBounds t.cols m idx [] [] false false = .ok (lo, hi))
    (hk : indexKey t idx row = .ok k) (he : p.eval row = .ok (some true)) :
    inWindow lo hi k = true := by
  have hrow := wf_rowOK ht hmem
  obtain ⟨m', h1, h2, h3⟩ := ranges_spec t.cols p [] hp hpl (MAll_nil _)
  rw [hr] at h1
  cases h1
  have hbd := h3 row hrow he (MAll_nil _)
  obtain ⟨ic, iv, pc, pv, a, b, e1, e2, e3, e4, e5, e6, e7⟩ := indexKey_ok hk
  rw [encTuple_eq (pick_valid hrow idx ic iv e1 e2)] at e5
  rw [encTuple_eq (pick_valid hrow t.pk pc pv e3 e4)] at e6
  cases e5
  cases e6
  subst e7
  have hT : KeyLike (keysCat pc pv) := by
    have := keyLike_keysCat pc pv [] keyLike_nil
    simpa using this
  have hlo : Ilo [] false [] := by
    intro S S' _ h; simpa using h
  have hhi : Ihi [] false [] := by
    intro S S' _ h; simpa using h
  obtain ⟨r1, r2⟩ := kb_sound hrow h2 hbd idx ic iv e1 e2 [] [] false false [] (keysCat pc pv) lo hi
    hT hlo hhi hb
  simp only [List.nil_append] at r1 r2
  simp [inWindow, r1, r2]

theorem plan_independent (t : Table) (q : Query)
    (ht : t.wf = true)
    (hp : q.where_.wt t.cols = true) (hpl : q.where_.plain = true)
    (hne : noEvalErr q.where_ t.rows) (rows : List Row)
    (hfull : runFull t q = .ok rows) :
    runIndex t q = .ok rows := by
  obtain ⟨m, h1, h2, _⟩ := ranges_spec t.cols q.where_ [] hp hpl (MAll_nil _)
  obtain ⟨lo, hi, hkb⟩ := keyBounds_total h2 q.idx [] [] false false
  rw [runFull_eq] at hfull
  rw [runIndex_eq, h1]
  simp only [hkb]
  cases hv : indexView t q.idx with
  | error e => simp [hv] at hfull
  | ok view =>
    simp only [hv] at hfull ⊢
    obtain ⟨_, _, hmem⟩ := indexView_spec hv
    -- rows outside the window are rejected by the predicate
    have hrej : ∀ kr ∈ view, (fun kr : Bytes × Row => inWindow lo hi kr.1) kr = false →
        keeps q.where_ kr.2 = .ok false := by
      intro kr hkr hw
      obtain ⟨hm, hk⟩ := hmem kr hkr
      obtain ⟨b, hb⟩ := hne kr.2 hm
      cases b with
      | false => exact hb
      | true =>
        have := window_sound t q.idx q.where_ kr.2 m lo hi kr.1 ht hm hp hpl h1 hkb hk
          (keeps_true_iff.mp hb)
        simp only at hw
        rw [this] at hw
        cases hw
    rw [← hfull]
    cases hd : q.desc with
    | false =>
      simp only [Bool.false_eq_true, if_false]
      exact takeWhere_filter _ _ view hrej _ _ _
    | true =>
      simp only [if_true]
      rw [← List.filter_reverse]
      exact takeWhere_filter _ _ view.reverse
        (fun kr hkr => hrej kr (List.mem_reverse.mp hkr)) _ _ _

theorem runFull_all_perm (t : Table) (p : Pred) (i : List Nat) (d : Bool) (r : List Row)
    (h : runFull t { idx := i, desc := d, limit := 0, offset := 0, where_ := p } = .ok r) :
    r.Perm (rowsWhere p t.rows) := by
  rw [runFull_eq] at h
  simp only at h
  cases hv : indexView t i with
  | error e => simp [hv] at h
  | ok view =>
    simp only [hv] at h
    obtain ⟨hperm, _, _⟩ := indexView_spec hv
    rw [takeWhere_all p _ _ r h]
    unfold rowsWhere
    apply List.Perm.filter
    cases d with
    | false => simpa using hperm
    | true =>
      simp only [if_true, List.map_reverse]
      exact (List.reverse_perm _).trans hperm

theorem order_by_sorted (t : Table) (q : Query) (rows : List Row)
    (h : runIndex t q = .ok rows) :
    rows.Pairwise (fun a b => ∃ ka kb, indexKey t q.idx a = .ok ka ∧ indexKey t q.idx b = .ok kb ∧
      (if q.desc then lexLt ka kb = false else lexLt kb ka = false)) := by
  rw [runIndex_eq] at h
  cases h1 : q.where_.ranges [] with
  | error e => simp [h1] at h
  | ok m =>
    simp only [h1] at h
    cases h2 : keyBounds t.cols m q.idx [] [] false false with
    | error e => simp [h2] at h
    | ok lh =>
      obtain ⟨lo, hi⟩ := lh
      simp only [h2] at h
      cases hv : indexView t q.idx with
      | error e => simp [hv] at h
      | ok view =>
        simp only [hv] at h
        obtain ⟨_, hsorted, hmem⟩ := indexView_spec hv
        refine List.Pairwise.sublist (takeWhere_sublist _ _ _ _ _ _ h) ?_
        rw [List.pairwise_map]
        have hin : (view.filter (fun kr => inWindow lo hi kr.1)).Pairwise KeyLe :=
          hsorted.sublist List.filter_sublist
        have hmem' : ∀ kr ∈ view.filter (fun kr => inWindow lo hi kr.1),
            indexKey t q.idx kr.2 = .ok kr.1 :=
          fun kr hkr => (hmem kr (List.mem_filter.mp hkr).1).2
        cases hd : q.desc with
        | false =>
          simp only [Bool.false_eq_true, if_false]
          refine List.Pairwise.imp_of_mem ?_ hin
          intro a b ha hb hab
          exact ⟨a.1, b.1, hmem' a ha, hmem' b hb, hab⟩
        | true =>
          simp only [if_true]
          rw [List.pairwise_reverse]
          refine List.Pairwise.imp_of_mem ?_ hin
          intro a b ha hb hab
          exact ⟨b.1, a.1, hmem' b hb, hmem' a ha, hab⟩

-- ---------------------------------------------------------------- partition

theorem filter_false {α : Type} (f : α → Bool) : ∀ (l : List α), (∀ x ∈ l, f x = false) → l.filter f = []
  | [], _ => rfl
  | x :: xs, h => by
    rw [List.filter_cons, h x List.mem_cons_self]
    simp only [Bool.false_eq_true, if_false]
    exact filter_false f xs (fun y hy => h y (List.mem_cons_of_mem _ hy))

theorem filter_split {α : Type} (f g k : α → Bool) : ∀ (l : List α),
    (∀ x ∈ l, k x = (f x || g x) ∧ (f x && g x) = false) →
    (l.filter f ++ l.filter g).Perm (l.filter k)
  | [], _ => List.Perm.refl _
  | x :: xs, h => by
    have ih := filter_split f g k xs (fun y hy => h y (List.mem_cons_of_mem _ hy))
    obtain ⟨h1, h2⟩ := h x List.mem_cons_self
    simp only [List.filter_cons, h1]
    cases hf : f x with
    | true =>
      have hg : g x = false := by simpa [hf] using h2
      simp only [hg, Bool.or_false, if_true, Bool.false_eq_true, if_false, List.cons_append]
      exact ih.cons x
    | false =>
      cases hg : g x with
      | false =>
        simp only [Bool.or_false, Bool.false_eq_true, if_false]
        exact ih
      | true =>
        simp only [Bool.false_eq_true, if_false, Bool.or_true, if_true]
        exact List.perm_middle.trans (ih.cons x)

theorem partition (q P : Pred) (rows : List Row)
    (hq : twoValued q rows) (hP : twoValued P rows) :
    (rowsWhere (.and q P) rows ++ rowsWhere (.and q (.not P)) rows ++ rowsWhere (.and q (.isNullE P)) rows).Perm
      (rowsWhere q rows) := by
  have h3 : rowsWhere (.and q (.isNullE P)) rows = [] := by
    unfold rowsWhere
    apply filter_false
    intro r hr
    obtain ⟨bq, hbq⟩ := hq r hr
    obtain ⟨bP, hbP⟩ := hP r hr
    have : (Pred.and q (.isNullE P)).eval r = .ok (some (bq && false)) := by
      cases bq <;> simp [Pred.eval, hbq, hbP]
    rw [keeps_of_eval this]
    simp
  rw [h3, List.append_nil]
  unfold rowsWhere
  apply filter_split
  intro r hr
  obtain ⟨bq, hbq⟩ := hq r hr
  obtain ⟨bP, hbP⟩ := hP r hr
  have e1 : (Pred.and q P).eval r = .ok (some (bq && bP)) := by
    cases bq <;> cases bP <;> simp [Pred.eval, hbq, hbP]
  have e2 : (Pred.and q (.not P)).eval r = .ok (some (bq && !bP)) := by
    cases bq <;> cases bP <;> simp [Pred.eval, hbq, hbP]
  rw [keeps_of_eval e1, keeps_of_eval e2, keeps_of_eval hbq]
  cases bq <;> cases bP <;> simp

-- ---------------------------------------------------------------- LIMIT / OFFSET

theorem limit_offset (t : Table) (q : Query) (all : List Row)
    (h0 : runFull t { q with limit := 0, offset := 0 } = .ok all) :
    runFull t q = .ok (limitTake q.limit (all.drop q.offset)) := by
  rw [runFull_eq] at h0 ⊢
  simp only at h0
  cases hv : indexView t q.idx with
  | error e => simp [hv] at h0
  | ok view =>
    simp only [hv] at h0 ⊢
    rw [takeWhere_slice _ _ _ _ h0 q.offset q.limit 0]
    simp [limitTake]

end ImmuModel.Sql.QueryMainAux
