/-
Proofs about the model of concurrent SQL sessions (`ImmuModel/Sql/Sessions.lean`) used by C13:
* `Linked`: every transient unique tuple `(index, values)` of an open transaction is the index value of a
  row of its write-set — invariant of every session of every schedule (`run_linked`);
* `commit_makes_unique_live`: a successful COMMIT of a transaction whose write-set names each key once
  makes each of its unique tuples LIVE FIRST under its prefix in the committed store, provided there was no
  entry (not even a deleted one, finding R2) under the prefix before;
* no-trace lemmas for `step`.
No Mathlib.
-/
import ImmuModel.Sql.Proofs.SessionsMain
namespace ImmuModel.Sql.Mv.SerAux
open ImmuModel ImmuModel.Sql ImmuModel.Sql.Mv ImmuModel.Sql.SessionsAux

-- ---------------------------------------------------------------- wuniq is linked to the write-set

/-- every unique tuple written by the open transaction is the index value of a row of its write-set -/
def Linked (sc : Schema) (se : Sess) : Prop :=
  ∀ p ∈ se.wuniq, ∃ key row cs, (key, some row) ∈ se.wrows ∧ sc.idx[p.1]? = some (true, cs) ∧
    idxEnc sc cs row = .ok p.2

theorem linked_empty (sc : Schema) : Linked sc {} := by intro p hp; cases hp

theorem linked_begin (sc : Schema) (st : Store) : Linked sc (beginSess sc st) := by
  unfold beginSess
  split <;> (intro p hp; cases hp)

theorem linked_of_eq {sc : Schema} {se se' : Sess} (h : Linked sc se) (hw : se'.wrows = se.wrows)
    (hu : se'.wuniq = se.wuniq) : Linked sc se' := by
  intro p hp
  rw [hu] at hp
  rw [hw]
  exact h p hp

theorem linked_probe {sc : Schema} {se : Sess} (h : Linked sc se) (p : Probe) : Linked sc (se.probe p) := h

theorem acquireP_wrows (se : Sess) (st : Store) : (se.acquireP st).1.wrows = se.wrows := by
  unfold Sess.acquireP; split <;> rfl
theorem acquireP_wuniq (se : Sess) (st : Store) : (se.acquireP st).1.wuniq = se.wuniq := by
  unfold Sess.acquireP; split <;> rfl
theorem acquireU_wrows (se : Sess) (i : Nat) (st : Store) : (se.acquireU i st).1.wrows = se.wrows := by
  unfold Sess.acquireU; split <;> rfl
theorem acquireU_wuniq (se : Sess) (i : Nat) (st : Store) : (se.acquireU i st).1.wuniq = se.wuniq := by
  unfold Sess.acquireU; split <;> rfl

theorem fetchRow_wrows (sc : Schema) (st : Store) (se : Sess) (key : Bytes) (reuse : Bool) :
    (fetchRow sc st se key reuse).1.wrows = se.wrows := by
  unfold fetchRow; split
  · exact acquireP_wrows se st
  · rfl
theorem fetchRow_wuniq (sc : Schema) (st : Store) (se : Sess) (key : Bytes) (reuse : Bool) :
    (fetchRow sc st se key reuse).1.wuniq = se.wuniq := by
  unfold fetchRow; split
  · exact acquireP_wuniq se st
  · rfl

theorem readRow_wrows (st : Store) (se : Sess) (key : Bytes) : (readRow st se key).1.wrows = se.wrows :=
  acquireP_wrows se st
theorem readRow_wuniq (st : Store) (se : Sess) (key : Bytes) : (readRow st se key).1.wuniq = se.wuniq :=
  acquireP_wuniq se st

/-- `chkIdx` leaves the write-set alone and adds only index values of `row` to `wuniq` -/
theorem chkIdx_spec (sc : Schema) (st : Store) (row : Row) (cur : Option PEntry) :
    ∀ (l : List (Bool × List Nat)) (i : Nat) (se se' : Sess), (∀ k, l[k]? = sc.idx[i + k]?) →
      chkIdx sc st row cur i l se = .ok se' →
      se'.wrows = se.wrows ∧
      ∀ p ∈ se'.wuniq, p ∈ se.wuniq ∨ ∃ cs, sc.idx[p.1]? = some (true, cs) ∧ idxEnc sc cs row = .ok p.2 := by
  intro l
  induction l with
  | nil =>
    intro i se se' _ he
    simp only [chkIdx] at he
    cases he
    exact ⟨rfl, fun p hp => Or.inl hp⟩
  | cons a rest ih =>
    intro i se se' hl he
    obtain ⟨u, cs⟩ := a
    have hrest : ∀ k, rest[k]? = sc.idx[i + 1 + k]? := by
      intro k
      have := hl (k + 1)
      rw [List.getElem?_cons_succ] at this
      rw [this]
      congr 1
      omega
    have hhead : sc.idx[i]? = some (u, cs) := by
      have := hl 0
      simpa using this.symm
    simp only [chkIdx] at he
    split at he
    · cases he
    · exact ih _ _ _ hrest he
    · split at he
      · cases he
      · rename_i v hv
        split at he
        · exact ih _ _ _ hrest he
        · rename_i hu
          split at he
          · cases he
          · split at he
            · cases he
            · obtain ⟨h1, h2⟩ := ih _ _ _ hrest he
              have hu' : u = true := by cases u <;> simp_all
              refine ⟨h1.trans (acquireU_wrows se i st), ?_⟩
              intro p hp
              rcases h2 p hp with hq | hq
              · simp only [Sess.addU, Sess.probe, List.mem_append, List.mem_singleton] at hq
                rcases hq with hq | hq
                · rw [acquireU_wuniq] at hq; exact Or.inl hq
                · subst hq
                  subst hu'
                  exact Or.inr ⟨cs, hhead, hv⟩
              · exact Or.inr hq

theorem doUpsertM_linked {sc : Schema} {st : Store} {se se' : Sess} {row : Row} {key : Bytes} {reuse : Bool}
    (h : Linked sc se) (he : doUpsertM sc st se row key reuse = .ok se') : Linked sc se' := by
  unfold doUpsertM at he
  split at he
  · cases he
  · split at he
    · cases he
    · rename_i se1 hc
      cases he
      obtain ⟨h1, h2⟩ := chkIdx_spec sc st row _ sc.idx 0 _ se1 (fun k => by simp) hc
      intro p hp
      have hp' : p ∈ se1.wuniq := hp
      rcases h2 p hp' with hq | ⟨cs, hq1, hq2⟩
      · rw [fetchRow_wuniq] at hq
        obtain ⟨k, r, cs, hm, hx⟩ := h p hq
        refine ⟨k, r, cs, ?_, hx⟩
        simp only [Sess.addRow, List.mem_append]
        left
        rw [h1, fetchRow_wrows]
        exact hm
      · refine ⟨key, row, cs, ?_, hq1, hq2⟩
        simp [Sess.addRow]

theorem linked_addRow {sc : Schema} {se : Sess} (h : Linked sc se) (key : Bytes) (w : Option Row) :
    Linked sc (se.addRow key w) := by
  intro p hp
  obtain ⟨k, r, cs, hm, hx⟩ := h p hp
  exact ⟨k, r, cs, by simp only [Sess.addRow, List.mem_append]; exact Or.inl hm, hx⟩

theorem insOne_linked {sc : Schema} {st : Store} {k : InsKind} {cols : List Nat} {se se' : Sess}
    {vals : List Val} (h : Linked sc se) (he : insOne sc st k cols se vals = .ok se') : Linked sc se' := by
  unfold insOne at he
  split at he
  · cases he
  · split at he
    · cases he
    · rename_i row cm must key _ _
      have h2 : ∀ p, Linked sc ((({ se with curMax := cm } : Sess).acquireP st).1.probe p) :=
        fun p => linked_of_eq h (acquireP_wrows _ st) (acquireP_wuniq _ st)
      simp only at he
      split at he
      · cases he
      · split at he
        · split at he
          · cases he; exact h2 _
          · cases he
        · exact doUpsertM_linked (h2 _) he

theorem foldlM_linked {sc : Schema} {st : Store} {k : InsKind} {cols : List Nat} :
    ∀ (rows : List (List Val)) (se se' : Sess), Linked sc se →
      rows.foldlM (insOne sc st k cols) se = .ok se' → Linked sc se' := by
  intro rows
  induction rows with
  | nil => intro se se' h he; simp only [List.foldlM, pure, Except.pure] at he; cases he; exact h
  | cons r rest ih =>
    intro se se' h he
    simp only [List.foldlM, bind, Except.bind] at he
    split at he
    · cases he
    · rename_i se1 h1
      exact ih _ _ (insOne_linked h h1) he

theorem readRow_linked {sc : Schema} {se : Sess} (h : Linked sc se) (st : Store) (key : Bytes) :
    Linked sc (readRow st se key).1 := linked_of_eq h (readRow_wrows st se key) (readRow_wuniq st se key)

theorem execStmt_linked {sc : Schema} {st : Store} {se se' : Sess} {s : Stmt}
    (h : Linked sc se) (he : execStmt sc st se s = .ok se') : Linked sc se' := by
  cases s with
  | ins k cols rows => exact foldlM_linked rows _ _ h he
  | upd sets w =>
    simp only [execStmt] at he
    split at he
    · cases he
    · unfold updOne at he
      split at he
      · cases he
      · split at he
        · cases he
        · split at he
          · cases he; exact readRow_linked h _ _
          · split at he
            · cases he
            · exact doUpsertM_linked (linked_probe (readRow_linked h _ _) _) he
  | del w =>
    simp only [execStmt] at he
    split at he
    · cases he
    · unfold delOne at he
      split at he
      · cases he
      · split at he
        · cases he; exact readRow_linked h _ _
        · cases he; exact linked_addRow (readRow_linked h _ _) _ _

def AllLinked (sc : Schema) (w : World) : Prop := ∀ i, Linked sc (w.get i)

theorem allLinked_set {sc : Schema} {w : World} (h : AllLinked sc w) (i : Nat) {se : Sess} (hs : Linked sc se) :
    AllLinked sc (w.set i se) := by
  intro j
  rw [get_set]
  split
  · exact hs
  · exact h j

theorem step_linked (sc : Schema) (w : World) (e : Ev) (h : AllLinked sc w) : AllLinked sc (step sc w e).1 := by
  cases e with
  | begin i => exact allLinked_set h i (linked_begin _ _)
  | stmt i s =>
    simp only [step]
    split
    · exact h
    · split
      · rename_i se' hs
        exact allLinked_set h i (execStmt_linked (h i) hs)
      · exact allLinked_set h i (linked_empty sc)
  | commit i =>
    simp only [step]
    split
    · exact h
    · split
      · exact allLinked_set (w := w) h i (linked_empty sc)
      · exact allLinked_set h i (linked_empty sc)
  | rollback i => exact allLinked_set h i (linked_empty sc)

theorem run_linked (sc : Schema) : ∀ (evs : List Ev) (w : World), AllLinked sc w → AllLinked sc (run sc w evs).1 := by
  intro evs
  induction evs with
  | nil => intro w h; exact h
  | cons e es ih =>
    intro w h
    simp only [run]
    exact ih _ (step_linked sc w e h)

theorem allLinked_init (sc : Schema) : AllLinked sc {} := by
  intro i
  have : ({} : World).get i = {} := by simp [World.get]
  rw [this]
  exact linked_empty sc

-- ---------------------------------------------------------------- what COMMIT does to a unique prefix

/-- the entry lies under the prefix `idx, v` -/
def Under (idx : Nat) (v : Bytes) (e : UEntry) : Prop := e.idx = idx ∧ e.vals = v

theorem setUniq_mem_false (n i : Nat) (vals pk : Bytes) :
    ∀ (us : List UEntry) (e' : UEntry), e' ∈ setUniq n i vals pk false us →
      e' ∈ us ∨ (e'.idx = i ∧ e'.vals = vals ∧ e'.pk = pk ∧ e'.deleted = false) := by
  intro us
  induction us with
  | nil =>
    intro e' h
    simp only [setUniq, Bool.false_eq_true, if_false, List.mem_singleton] at h
    subst h
    exact Or.inr ⟨rfl, rfl, rfl, rfl⟩
  | cons e es ih =>
    intro e' h
    simp only [setUniq] at h
    split at h
    · rename_i hc
      simp only [Bool.and_eq_true, beq_iff_eq] at hc
      simp only [List.mem_cons] at h
      rcases h with h | h
      · subst h
        exact Or.inr ⟨hc.1.1, hc.1.2, hc.2, rfl⟩
      · exact Or.inl (List.mem_cons_of_mem _ h)
    · simp only [List.mem_cons] at h
      rcases h with h | h
      · subst h; exact Or.inl List.mem_cons_self
      · rcases ih e' h with h | h
        · exact Or.inl (List.mem_cons_of_mem _ h)
        · exact Or.inr h

theorem setUniq_mem_true (n i : Nat) (vals pk : Bytes) :
    ∀ (us : List UEntry) (e' : UEntry), e' ∈ setUniq n i vals pk true us →
      e' ∈ us ∨ (∃ e ∈ us, e.idx = i ∧ e.vals = vals ∧ e.pk = pk ∧ e'.idx = i ∧ e'.vals = vals ∧ e'.pk = pk) := by
  intro us
  induction us with
  | nil =>
    intro e' h
    simp [setUniq] at h
  | cons e es ih =>
    intro e' h
    simp only [setUniq] at h
    split at h
    · rename_i hc
      simp only [Bool.and_eq_true, beq_iff_eq] at hc
      simp only [List.mem_cons] at h
      rcases h with h | h
      · subst h
        exact Or.inr ⟨e, List.mem_cons_self, hc.1.1, hc.1.2, hc.2, hc.1.1, hc.1.2, hc.2⟩
      · exact Or.inl (List.mem_cons_of_mem _ h)
    · simp only [List.mem_cons] at h
      rcases h with h | h
      · subst h; exact Or.inl List.mem_cons_self
      · rcases ih e' h with h | ⟨e0, h0, hx⟩
        · exact Or.inl (List.mem_cons_of_mem _ h)
        · exact Or.inr ⟨e0, List.mem_cons_of_mem _ h0, hx⟩

/-- `setUniq` never removes an entry and never changes index, values or primary key of one -/
theorem setUniq_keeps (n i : Nat) (vals pk : Bytes) (del : Bool) :
    ∀ (us : List UEntry) (e : UEntry), e ∈ us →
      ∃ e' ∈ setUniq n i vals pk del us, e'.idx = e.idx ∧ e'.vals = e.vals ∧ e'.pk = e.pk := by
  intro us
  induction us with
  | nil => intro e h; cases h
  | cons a es ih =>
    intro e h
    simp only [setUniq]
    simp only [List.mem_cons] at h
    split
    · rcases h with h | h
      · subst h
        exact ⟨_, List.mem_cons_self, rfl, rfl, rfl⟩
      · exact ⟨e, List.mem_cons_of_mem _ h, rfl, rfl, rfl⟩
    · rcases h with h | h
      · subst h
        exact ⟨e, List.mem_cons_self, rfl, rfl, rfl⟩
      · obtain ⟨e', h1, h2⟩ := ih e h
        exact ⟨e', List.mem_cons_of_mem _ h1, h2⟩

theorem setUniq_adds (n i : Nat) (vals pk : Bytes) :
    ∀ (us : List UEntry), ∃ e' ∈ setUniq n i vals pk false us, e'.idx = i ∧ e'.vals = vals ∧ e'.pk = pk := by
  intro us
  induction us with
  | nil => exact ⟨_, by simp only [setUniq, Bool.false_eq_true, if_false]; exact List.mem_singleton.2 rfl, rfl, rfl, rfl⟩
  | cons a es ih =>
    simp only [setUniq]
    split
    · rename_i hc
      simp only [Bool.and_eq_true, beq_iff_eq] at hc
      exact ⟨_, List.mem_cons_self, hc.1.1, hc.1.2, hc.2⟩
    · obtain ⟨e', h1, h2⟩ := ih
      exact ⟨e', List.mem_cons_of_mem _ h1, h2⟩

/-- one position of `reindex` on a UNIQUE index, given the encoded old / new index values -/
def delU (n i : Nat) (key : Bytes) (ov nv : Option Bytes) (us : List UEntry) : List UEntry :=
  match ov with
  | some v => if nv == some v then us else setUniq n i v key true us
  | none => us

def stepU (n i : Nat) (key : Bytes) (ov nv : Option Bytes) (us : List UEntry) : List UEntry :=
  match nv with
  | some v => setUniq n i v key false (delU n i key ov nv us)
  | none => delU n i key ov nv us

def Enc (sc : Schema) (cs : List Nat) : Option Row → Option Bytes → Prop
  | none, none => True
  | some r, some v => idxEnc sc cs r = .ok v
  | _, _ => False

theorem reindex_false_cons (sc : Schema) (n : Nat) (key : Bytes) (old new : Option Row) (i : Nat)
    (cs : List Nat) (rest : List (Bool × List Nat)) (us : List UEntry) :
    reindex sc n key old new i ((false, cs) :: rest) us = reindex sc n key old new (i + 1) rest us := by
  simp [reindex]

theorem reindex_true_cons {sc : Schema} {n : Nat} {key : Bytes} {old new : Option Row} {i : Nat}
    {cs : List Nat} {rest : List (Bool × List Nat)} {us us' : List UEntry}
    (h : reindex sc n key old new i ((true, cs) :: rest) us = .ok us') :
    ∃ ov nv, Enc sc cs old ov ∧ Enc sc cs new nv ∧
      reindex sc n key old new (i + 1) rest (stepU n i key ov nv us) = .ok us' := by
  simp only [reindex, Bool.not_true, Bool.false_eq_true, if_false, bind, Except.bind, pure, Except.pure] at h
  cases old with
  | none =>
    cases new with
    | none => exact ⟨none, none, trivial, trivial, h⟩
    | some r =>
      cases hr : idxEnc sc cs r with
      | error e => simp [hr] at h
      | ok v =>
        simp only [hr] at h
        exact ⟨none, some v, trivial, hr, h⟩
  | some o =>
    cases ho : idxEnc sc cs o with
    | error e => simp [ho] at h
    | ok ov =>
      simp only [ho] at h
      cases new with
      | none => exact ⟨some ov, none, ho, trivial, h⟩
      | some r =>
        cases hr : idxEnc sc cs r with
        | error e => simp [hr] at h
        | ok v =>
          simp only [hr] at h
          exact ⟨some ov, some v, ho, hr, h⟩

theorem stepU_keeps (n i : Nat) (key : Bytes) (ov nv : Option Bytes) (us : List UEntry) (e : UEntry)
    (h : e ∈ us) : ∃ e' ∈ stepU n i key ov nv us, e'.idx = e.idx ∧ e'.vals = e.vals ∧ e'.pk = e.pk := by
  have h1 : ∃ e1 ∈ delU n i key ov nv us, e1.idx = e.idx ∧ e1.vals = e.vals ∧ e1.pk = e.pk := by
    cases ov with
    | none => exact ⟨e, h, rfl, rfl, rfl⟩
    | some v =>
      simp only [delU]
      split
      · exact ⟨e, h, rfl, rfl, rfl⟩
      · exact setUniq_keeps n i v key true us e h
  obtain ⟨e1, hm1, hx1⟩ := h1
  unfold stepU
  cases nv with
  | none => exact ⟨e1, hm1, hx1⟩
  | some v =>
    obtain ⟨e2, hm2, hx2⟩ := setUniq_keeps n i v key false _ e1 hm1
    exact ⟨e2, hm2, hx2.1.trans hx1.1, hx2.2.1.trans hx1.2.1, hx2.2.2.trans hx1.2.2⟩

theorem stepU_adds (n i : Nat) (key : Bytes) (ov : Option Bytes) (v : Bytes) (us : List UEntry) :
    ∃ e' ∈ stepU n i key ov (some v) us, e'.idx = i ∧ e'.vals = v ∧ e'.pk = key := by
  unfold stepU
  exact setUniq_adds n i v key _

/-- invariant of `reindex` at position `i'` for the row under `key`: the entries under the prefix are live, belong to
keys that are not written later (`later`), and an entry of `key` itself was made at an earlier position -/
def InvAt (idx : Nat) (v : Bytes) (later : List Bytes) (key : Bytes) (i' : Nat) (us : List UEntry) : Prop :=
  ∀ e ∈ us, Under idx v e → e.deleted = false ∧ e.pk ∉ later ∧ (e.pk = key → idx < i')

def InvDone (idx : Nat) (v : Bytes) (later : List Bytes) (us : List UEntry) : Prop :=
  ∀ e ∈ us, Under idx v e → e.deleted = false ∧ e.pk ∉ later

theorem invAt_succ {idx : Nat} {v : Bytes} {later : List Bytes} {key : Bytes} {i' : Nat} {us : List UEntry}
    (h : InvAt idx v later key i' us) : InvAt idx v later key (i' + 1) us := by
  intro e he hu
  obtain ⟨h1, h2, h3⟩ := h e he hu
  exact ⟨h1, h2, fun hk => Nat.lt_succ_of_lt (h3 hk)⟩

theorem stepU_inv {idx : Nat} {v : Bytes} {later : List Bytes} {key : Bytes} {i' n : Nat} {us : List UEntry}
    (ov nv : Option Bytes) (hk : key ∉ later) (h : InvAt idx v later key i' us) :
    InvAt idx v later key (i' + 1) (stepU n i' key ov nv us) := by
  have h1 : InvAt idx v later key i' (delU n i' key ov nv us) := by
    cases ov with
    | none => exact h
    | some x =>
      simp only [delU]
      split
      · exact h
      · intro e he hu
        rcases setUniq_mem_true n i' x key us e he with hm | ⟨e0, hm0, h0i, h0v, h0k, hei, hev, _⟩
        · exact h e hm hu
        · exfalso
          have hu0 : Under idx v e0 := ⟨h0i.trans (hei.symm.trans hu.1), h0v.trans (hev.symm.trans hu.2)⟩
          have := (h e0 hm0 hu0).2.2 h0k
          have hidx : idx = i' := hu.1.symm.trans hei
          omega
  unfold stepU
  cases nv with
  | none => exact invAt_succ h1
  | some x =>
    intro e he hu
    rcases setUniq_mem_false n i' x key _ e he with hm | ⟨hei, _, hek, hed⟩
    · exact invAt_succ h1 e hm hu
    · refine ⟨hed, ?_, ?_⟩
      · rw [hek]; exact hk
      · intro _
        have hidx : idx = i' := hu.1.symm.trans hei
        omega

theorem reindex_inv {sc : Schema} {n : Nat} {key : Bytes} {old new : Option Row} {idx : Nat} {v : Bytes}
    {later : List Bytes} (hk : key ∉ later) :
    ∀ (l : List (Bool × List Nat)) (i' : Nat) (us us' : List UEntry), InvAt idx v later key i' us →
      reindex sc n key old new i' l us = .ok us' → InvDone idx v later us' := by
  intro l
  induction l with
  | nil =>
    intro i' us us' h he
    simp only [reindex] at he
    cases he
    intro e hm hu
    exact ⟨(h e hm hu).1, (h e hm hu).2.1⟩
  | cons a rest ih =>
    intro i' us us' h he
    obtain ⟨u, cs⟩ := a
    cases u with
    | false =>
      rw [reindex_false_cons] at he
      exact ih _ _ _ (invAt_succ h) he
    | true =>
      obtain ⟨ov, nv, _, _, he'⟩ := reindex_true_cons he
      exact ih _ _ _ (stepU_inv ov nv hk h) he'

theorem reindex_keeps {sc : Schema} {n : Nat} {key : Bytes} {old new : Option Row} {idx : Nat} {v : Bytes} :
    ∀ (l : List (Bool × List Nat)) (i' : Nat) (us us' : List UEntry), (∃ e ∈ us, Under idx v e) →
      reindex sc n key old new i' l us = .ok us' → ∃ e ∈ us', Under idx v e := by
  intro l
  induction l with
  | nil =>
    intro i' us us' h he
    simp only [reindex] at he
    cases he
    exact h
  | cons a rest ih =>
    intro i' us us' h he
    obtain ⟨u, cs⟩ := a
    cases u with
    | false =>
      rw [reindex_false_cons] at he
      exact ih _ _ _ h he
    | true =>
      obtain ⟨ov, nv, _, _, he'⟩ := reindex_true_cons he
      obtain ⟨e, hm, hu⟩ := h
      obtain ⟨e', hm', hx⟩ := stepU_keeps n i' key ov nv us e hm
      exact ih _ _ _ ⟨e', hm', hx.1.trans hu.1, hx.2.1.trans hu.2⟩ he'

theorem reindex_adds {sc : Schema} {n : Nat} {key : Bytes} {old : Option Row} {row : Row} {cs : List Nat}
    {v : Bytes} (hv : idxEnc sc cs row = .ok v) :
    ∀ (l : List (Bool × List Nat)) (i' k : Nat) (us us' : List UEntry), l[k]? = some (true, cs) →
      reindex sc n key old (some row) i' l us = .ok us' → ∃ e ∈ us', Under (i' + k) v e := by
  intro l
  induction l with
  | nil => intro i' k us us' hl _; simp at hl
  | cons a rest ih =>
    intro i' k us us' hl he
    cases k with
    | zero =>
      simp only [List.getElem?_cons_zero, Option.some.injEq] at hl
      subst hl
      obtain ⟨ov, nv, _, hn, he'⟩ := reindex_true_cons he
      cases nv with
      | none => exact absurd hn (by simp [Enc])
      | some x =>
        have hx : x = v := by
          have : idxEnc sc cs row = .ok x := hn
          rw [hv] at this
          exact (Except.ok.inj this).symm
        subst hx
        obtain ⟨e', hm', h1, h2, _⟩ := stepU_adds n i' key ov x us
        exact reindex_keeps rest _ _ _ ⟨e', hm', by simpa using h1, h2⟩ he'
    | succ k =>
      rw [List.getElem?_cons_succ] at hl
      obtain ⟨u, cs'⟩ := a
      have hidx : i' + (k + 1) = i' + 1 + k := by omega
      rw [hidx]
      cases u with
      | false =>
        rw [reindex_false_cons] at he
        exact ih _ _ _ _ hl he
      | true =>
        obtain ⟨ov, nv, _, _, he'⟩ := reindex_true_cons he
        exact ih _ _ _ _ hl he'

theorem applyWrites_cons {sc : Schema} {n : Nat} {key : Bytes} {w : Option Row}
    {rest : List (Bytes × Option Row)} {st st' : Store}
    (h : applyWrites sc n ((key, w) :: rest) st = .ok st') :
    ∃ us, reindex sc n key ((st.getLive key).map (·.row)) w 0 sc.idx st.uniq = .ok us ∧
      applyWrites sc n rest { st with prim := setPrim n key w st.prim, uniq := us } = .ok st' := by
  simp only [applyWrites, bind, Except.bind] at h
  split at h
  · cases h
  · rename_i us hus
    exact ⟨us, hus, h⟩

theorem applyWrites_inv {sc : Schema} {n : Nat} {idx : Nat} {v : Bytes} :
    ∀ (wr : List (Bytes × Option Row)) (st st' : Store), (wr.map (·.1)).Nodup →
      InvDone idx v (wr.map (·.1)) st.uniq → applyWrites sc n wr st = .ok st' → InvDone idx v [] st'.uniq := by
  intro wr
  induction wr with
  | nil =>
    intro st st' _ h he
    simp only [applyWrites] at he
    cases he
    exact h
  | cons a rest ih =>
    intro st st' hnd h he
    obtain ⟨key, w⟩ := a
    obtain ⟨us, hus, he'⟩ := applyWrites_cons he
    simp only [List.map_cons, List.nodup_cons] at hnd
    have h0 : InvAt idx v (rest.map (·.1)) key 0 st.uniq := by
      intro e hm hu
      obtain ⟨h1, h2⟩ := h e hm hu
      simp only [List.map_cons, List.mem_cons, not_or] at h2
      exact ⟨h1, h2.2, fun hk => absurd hk h2.1⟩
    have h1 := reindex_inv hnd.1 _ _ _ _ h0 hus
    exact ih _ _ hnd.2 h1 he'

theorem applyWrites_keeps {sc : Schema} {n : Nat} {idx : Nat} {v : Bytes} :
    ∀ (wr : List (Bytes × Option Row)) (st st' : Store), (∃ e ∈ st.uniq, Under idx v e) →
      applyWrites sc n wr st = .ok st' → ∃ e ∈ st'.uniq, Under idx v e := by
  intro wr
  induction wr with
  | nil =>
    intro st st' h he
    simp only [applyWrites] at he
    cases he
    exact h
  | cons a rest ih =>
    intro st st' h he
    obtain ⟨key, w⟩ := a
    obtain ⟨us, hus, he'⟩ := applyWrites_cons he
    exact ih _ _ (reindex_keeps _ _ _ _ h hus) he'

theorem applyWrites_adds {sc : Schema} {n : Nat} {idx : Nat} {v : Bytes} {key : Bytes} {row : Row} {cs : List Nat}
    (hi : sc.idx[idx]? = some (true, cs)) (hv : idxEnc sc cs row = .ok v) :
    ∀ (wr : List (Bytes × Option Row)) (st st' : Store), (key, some row) ∈ wr →
      applyWrites sc n wr st = .ok st' → ∃ e ∈ st'.uniq, Under idx v e := by
  intro wr
  induction wr with
  | nil => intro st st' hm _; cases hm
  | cons a rest ih =>
    intro st st' hm he
    obtain ⟨key', w⟩ := a
    obtain ⟨us, hus, he'⟩ := applyWrites_cons he
    simp only [List.mem_cons] at hm
    rcases hm with hm | hm
    · cases hm
      have := reindex_adds hv sc.idx 0 idx _ _ hi hus
      simp only [Nat.zero_add] at this
      exact applyWrites_keeps rest _ _ this he'
    · exact ih _ _ hm he'

theorem minEntry_mem : ∀ (es : List UEntry) (m : UEntry), minEntry m es = m ∨ minEntry m es ∈ es := by
  intro es
  induction es with
  | nil => intro m; exact Or.inl rfl
  | cons e rest ih =>
    intro m
    simp only [minEntry]
    rcases ih (if lexLt e.pk m.pk then e else m) with h | h
    · rw [h]
      split
      · exact Or.inr List.mem_cons_self
      · exact Or.inl rfl
    · exact Or.inr (List.mem_cons_of_mem _ h)

theorem pgetLive_some_of (st : Store) (idx : Nat) (v : Bytes)
    (hex : ∃ e ∈ st.uniq, Under idx v e) (hall : ∀ e ∈ st.uniq, Under idx v e → e.deleted = false) :
    ∃ e, st.pgetLive idx v = some e := by
  unfold Store.pgetLive Store.firstU
  obtain ⟨e0, hm0, hu0⟩ := hex
  have hmem0 : e0 ∈ st.uniq.filter (fun e => e.idx == idx && e.vals == v) := by
    rw [List.mem_filter]
    exact ⟨hm0, by simp [hu0.1, hu0.2]⟩
  cases hf : st.uniq.filter (fun e => e.idx == idx && e.vals == v) with
  | nil => rw [hf] at hmem0; cases hmem0
  | cons a as =>
    simp only
    have hmin : minEntry a as ∈ st.uniq.filter (fun e => e.idx == idx && e.vals == v) := by
      rw [hf]
      rcases minEntry_mem as a with h | h
      · rw [h]; exact List.mem_cons_self
      · exact List.mem_cons_of_mem _ h
    rw [List.mem_filter] at hmin
    have hu : Under idx v (minEntry a as) := by
      have := hmin.2
      simp only [Bool.and_eq_true, beq_iff_eq] at this
      exact this
    rw [hall _ hmin.1 hu]
    exact ⟨_, rfl⟩

theorem firstU_none (st : Store) (idx : Nat) (v : Bytes) (h : st.firstU idx v = none) :
    ∀ e ∈ st.uniq, ¬ Under idx v e := by
  intro e hm hu
  unfold Store.firstU at h
  have hmem : e ∈ st.uniq.filter (fun e => e.idx == idx && e.vals == v) := by
    rw [List.mem_filter]
    exact ⟨hm, by simp [hu.1, hu.2]⟩
  split at h
  · rename_i hf; rw [hf] at hmem; cases hmem
  · cases h

theorem commit_ok_apply {sc : Schema} {st st' : Store} {se : Sess} (hw : se.wrows ≠ [])
    (hc : commit sc st se = .ok st') :
    validate st se = true ∧
    ∃ st'', applyWrites sc (st.last + 1) se.wrows st = .ok st'' ∧ st' = { st'' with last := st.last + 1 } := by
  unfold commit at hc
  have h1 : se.wrows.isEmpty = false := by
    cases h : se.wrows with
    | nil => exact absurd h hw
    | cons a b => rfl
  simp only [h1, Bool.false_eq_true, if_false] at hc
  split at hc
  · cases hc
  · rename_i hv
    split at hc
    · rename_i st'' ha
      cases hc
      exact ⟨by simpa using hv, st'', ha, rfl⟩
    · cases hc

/-- **A successful COMMIT makes the transaction's unique tuples live first under their prefixes** — for a write-set
that names each key once, and a prefix that held no entry at all before (no deleted entry that would hide the new
one from `GetWithPrefix`, finding R2). -/
theorem commit_makes_unique_live {sc : Schema} {st st' : Store} {se : Sess} {idx : Nat} {v : Bytes}
    (hl : Linked sc se) (hu : (idx, v) ∈ se.wuniq) (hnd : (se.wrows.map (·.1)).Nodup)
    (hfresh : st.firstU idx v = none) (hc : commit sc st se = .ok st') :
    ∃ e, st'.pgetLive idx v = some e := by
  obtain ⟨key, row, cs, hm, hi, hv⟩ := hl (idx, v) hu
  have hw : se.wrows ≠ [] := by intro h; rw [h] at hm; cases hm
  obtain ⟨_, st'', ha, hst⟩ := commit_ok_apply hw hc
  have hnone := firstU_none st idx v hfresh
  have hinv : InvDone idx v [] st''.uniq :=
    applyWrites_inv se.wrows st st'' hnd (fun e hm hu => absurd hu (hnone e hm)) ha
  have hex := applyWrites_adds hi hv se.wrows st st'' hm ha
  subst hst
  exact pgetLive_some_of _ idx v hex (fun e hm hu => (hinv e hm hu).1)

-- ---------------------------------------------------------------- steps that leave no trace

theorem step_commit_err_st (sc : Schema) (w : World) (i : Nat) (e : MvErr)
    (h : (step sc w (.commit i)).2 = .err e) : (step sc w (.commit i)).1.st = w.st := by
  by_cases ha : (w.get i).active = true
  · cases hc : commit sc w.st (w.get i) with
    | ok st' => simp [step, ha, hc] at h
    | error e' => simp [step, ha, hc, World.set]
  · simp [step, ha]

theorem step_commit_others (sc : Schema) (w : World) (i j : Nat) (hij : i ≠ j) :
    (step sc w (.commit i)).1.get j = w.get j := by
  simp only [step]
  split
  · rfl
  · split
    · show (w.set i {}).get j = w.get j
      rw [get_set]; simp [hij]
    · rw [get_set]; simp [hij]

theorem step_noncommit_st (sc : Schema) (w : World) (e : Ev)
    (h : ∀ i, e ≠ .commit i) : (step sc w e).1.st = w.st := by
  cases e with
  | begin i => rfl
  | stmt i s =>
    simp only [step]
    split
    · rfl
    · split <;> rfl
  | commit i => exact absurd rfl (h i)
  | rollback i => rfl

theorem step_commit_ok {sc : Schema} {w : World} {i n : Nat}
    (h : (step sc w (.commit i)).2 = .ok n) :
    (w.get i).active = true ∧ ∃ st', commit sc w.st (w.get i) = .ok st' ∧ (step sc w (.commit i)).1.st = st' := by
  by_cases ha : (w.get i).active = true
  · cases hc : commit sc w.st (w.get i) with
    | ok st' => exact ⟨ha, st', rfl, by simp [step, ha, hc]⟩
    | error e' => simp [step, ha, hc] at h
  · simp [step, ha] at h

-- ---------------------------------------------------------------- the routing of seeded change c13-c (for the necessity witness)

/-- `checkPreconditions` with the second loop routed by `hasPrefix(e.expectedKey, txSnap.prefix)`: an expectation
"nothing under this prefix" has `expectedKey = nil`, which has no index prefix — it is skipped on every snapshot; an
expectation with an expected key is validated on the index of that key, which is the index of the prefix -/
def validateByExpectedKey (st : Store) (se : Sess) : Bool :=
  se.probes.all (fun p => match p with
    | .pget _ _ none _ => true
    | p => probeOK st p)

/-- `commit` with that validation -/
def commitByExpectedKey (sc : Schema) (st : Store) (se : Sess) : Except MvErr Store :=
  if se.wrows.isEmpty then .ok st
  else if !validateByExpectedKey st se then .error .readConflict
  else
    match applyWrites sc (st.last + 1) se.wrows st with
    | .ok st' => .ok { st' with last := st.last + 1 }
    | .error e => .error (.dml e)

end ImmuModel.Sql.Mv.SerAux
