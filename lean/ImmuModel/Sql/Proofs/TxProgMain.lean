/-
Helper lemmas for the C13 theorems (ImmuModel/Props/C13.lean).
-/
import ImmuModel.Sql.DmlSpec
namespace ImmuModel.Sql.TxProgMainAux
open ImmuModel ImmuModel.Sql

-- ---------------------------------------------------------------- run unfolding

theorem run_nil (sc : Schema) (s : Sess) : run sc s [] = (s, []) := rfl

theorem run_cons (sc : Schema) (s : Sess) (o : Op) (os : List Op) :
    run sc s (o :: os) =
      ((run sc (step sc s o).1 os).1, (step sc s o).2 :: (run sc (step sc s o).1 os).2) := rfl

theorem spec_run_nil (sc : Schema) (s : Spec.Sess) : Spec.run sc s [] = (s, []) := rfl

theorem spec_run_cons (sc : Schema) (s : Spec.Sess) (o : Op) (os : List Op) :
    Spec.run sc s (o :: os) =
      ((Spec.run sc (Spec.step sc s o).1 os).1,
        (Spec.step sc s o).2 :: (Spec.run sc (Spec.step sc s o).1 os).2) := rfl

-- ---------------------------------------------------------------- single step: committed

/-- a non-COMMIT step leaves the committed state unchanged -/
theorem step_committed (sc : Schema) (s : Sess) (o : Op) (ho : o.isCommit = false) :
    (step sc s o).1.committed = s.committed := by
  cases o with
  | commit => simp [Op.isCommit] at ho
  | begin =>
    unfold step
    cases s.tx with
    | some t => rfl
    | none =>
      simp only
      cases beginTx sc s.committed <;> rfl
  | stmt st =>
    unfold step
    cases s.tx with
    | none => rfl
    | some t =>
      simp only
      cases exec sc t.db st <;> rfl
  | savepoint n =>
    unfold step
    cases s.tx <;> rfl
  | rollbackTo n =>
    unfold step
    cases s.tx with
    | none => rfl
    | some t =>
      simp only
      cases spsFind n t.sps <;> rfl
  | release n =>
    unfold step
    cases s.tx with
    | none => rfl
    | some t =>
      simp only
      cases spsFind n t.sps <;> rfl
  | rollback =>
    unfold step
    cases s.tx <;> rfl

theorem run_committed (sc : Schema) (ops : List Op) :
    ∀ (s : Sess), (∀ o, o ∈ ops → o.isCommit = false) → (run sc s ops).1.committed = s.committed := by
  induction ops with
  | nil => intro s _; rfl
  | cons o os ih =>
    intro s h
    rw [run_cons]
    simp only
    rw [ih _ (fun o' ho' => h o' (List.mem_cons_of_mem _ ho'))]
    exact step_committed sc s o (h o List.mem_cons_self)

-- ---------------------------------------------------------------- failing step leaves no trace

theorem step_fail_tx (sc : Schema) (s : Sess) (o : Op)
    (hf : (step sc s o).2.toOption = none) :
    (step sc s o).1.tx = none ∨ (step sc s o).1.tx = s.tx := by
  cases o with
  | commit =>
    unfold step
    cases h : s.tx with
    | none => right; simp [h]
    | some t => left; rfl
  | begin =>
    unfold step
    cases h : s.tx with
    | some t => right; simp [h]
    | none =>
      simp only
      cases hb : beginTx sc s.committed with
      | error e => right; simp [h]
      | ok db =>
        exfalso
        unfold step at hf
        simp [h, hb, Except.toOption] at hf
  | stmt st =>
    unfold step
    cases h : s.tx with
    | none => right; simp [h]
    | some t =>
      simp only
      cases he : exec sc t.db st with
      | error e => left; rfl
      | ok db =>
        exfalso
        unfold step at hf
        simp [h, he, Except.toOption] at hf
  | savepoint n =>
    unfold step
    cases h : s.tx with
    | none => right; simp [h]
    | some t =>
      exfalso
      unfold step at hf
      simp [h, Except.toOption] at hf
  | rollbackTo n =>
    unfold step
    cases h : s.tx with
    | none => right; simp [h]
    | some t =>
      simp only
      cases hs : spsFind n t.sps with
      | none => left; rfl
      | some c =>
        exfalso
        unfold step at hf
        simp [h, hs, Except.toOption] at hf
  | release n =>
    unfold step
    cases h : s.tx with
    | none => right; simp [h]
    | some t =>
      simp only
      cases hs : spsFind n t.sps with
      | none => left; rfl
      | some c =>
        exfalso
        unfold step at hf
        simp [h, hs, Except.toOption] at hf
  | rollback =>
    unfold step
    cases h : s.tx with
    | none => right; simp [h]
    | some t => left; rfl

theorem step_rollback_tx (sc : Schema) (s : Sess) : (step sc s .rollback).1.tx = none := by
  unfold step
  cases h : s.tx with
  | none => simp [h]
  | some t => rfl

-- ---------------------------------------------------------------- commit / stmt

theorem step_commit_some (sc : Schema) (s : Sess) (t : OpenTx) (ht : s.tx = some t) :
    step sc s .commit = ({ committed := t.db, tx := none }, .ok t.db.updated) := by
  unfold step
  simp [ht]

theorem step_stmt_ok (sc : Schema) (s : Sess) (t : OpenTx) (st : Stmt) (db' : DB)
    (ht : s.tx = some t) (he : exec sc t.db st = .ok db') :
    step sc s (.stmt st) = ({ s with tx := some { t with db := db' } }, .ok db'.updated) := by
  unfold step
  simp [ht, he]

-- ---------------------------------------------------------------- refinement (simulation)

/-- simulation relation: same committed state; transactions both closed, or both open on the same
pending state (the savepoint stores are unrelated: they are never read without ROLLBACK TO / RELEASE) -/
def Rel (s : Sess) (s' : Spec.Sess) : Prop :=
  s.committed = s'.committed ∧
  ((s.tx = none ∧ s'.tx = none) ∨ (∃ t t', s.tx = some t ∧ s'.tx = some t' ∧ t.db = t'.db))

def noSpRead (o : Op) : Bool :=
  match o with
  | .rollbackTo _ | .release _ => false
  | _ => true

theorem step_sim (sc : Schema) (s : Sess) (s' : Spec.Sess) (o : Op)
    (hr : Rel s s') (ho : noSpRead o = true) :
    Rel (step sc s o).1 (Spec.step sc s' o).1 ∧ (step sc s o).2 = (Spec.step sc s' o).2 := by
  obtain ⟨hc, htx⟩ := hr
  rcases htx with ⟨h1, h2⟩ | ⟨t, t', h1, h2, hdb⟩
  · -- no open transaction
    have hrel : Rel s s' := ⟨hc, Or.inl ⟨h1, h2⟩⟩
    cases o with
    | rollbackTo n => simp [noSpRead] at ho
    | release n => simp [noSpRead] at ho
    | begin =>
      unfold step Spec.step
      rw [h1, h2, ← hc]
      cases hb : beginTx sc s.committed with
      | error e => exact ⟨hrel, rfl⟩
      | ok db => exact ⟨⟨rfl, Or.inr ⟨_, _, rfl, rfl, rfl⟩⟩, rfl⟩
    | stmt st =>
      unfold step Spec.step
      rw [h1, h2]
      exact ⟨hrel, rfl⟩
    | savepoint n =>
      unfold step Spec.step
      rw [h1, h2]
      exact ⟨hrel, rfl⟩
    | commit =>
      unfold step Spec.step
      rw [h1, h2]
      exact ⟨hrel, rfl⟩
    | rollback =>
      unfold step Spec.step
      rw [h1, h2]
      exact ⟨hrel, rfl⟩
  · -- open transaction on both sides
    have hrel : Rel s s' := ⟨hc, Or.inr ⟨t, t', h1, h2, hdb⟩⟩
    cases o with
    | rollbackTo n => simp [noSpRead] at ho
    | release n => simp [noSpRead] at ho
    | begin =>
      unfold step Spec.step
      rw [h1, h2]
      exact ⟨hrel, rfl⟩
    | stmt st =>
      unfold step Spec.step
      rw [h1, h2]
      simp only
      rw [← hdb]
      cases he : exec sc t.db st with
      | error e => exact ⟨⟨hc, Or.inl ⟨rfl, rfl⟩⟩, rfl⟩
      | ok db => exact ⟨⟨hc, Or.inr ⟨_, _, rfl, rfl, rfl⟩⟩, rfl⟩
    | savepoint n =>
      unfold step Spec.step
      rw [h1, h2]
      simp only
      rw [← hdb]
      exact ⟨⟨hc, Or.inr ⟨_, _, rfl, rfl, rfl⟩⟩, rfl⟩
    | commit =>
      unfold step Spec.step
      rw [h1, h2]
      simp only
      rw [← hdb]
      exact ⟨⟨rfl, Or.inl ⟨rfl, rfl⟩⟩, rfl⟩
    | rollback =>
      unfold step Spec.step
      rw [h1, h2]
      exact ⟨⟨hc, Or.inl ⟨rfl, rfl⟩⟩, rfl⟩

theorem run_sim (sc : Schema) (ops : List Op) :
    ∀ (s : Sess) (s' : Spec.Sess), Rel s s' → (∀ o, o ∈ ops → noSpRead o = true) →
      Rel (run sc s ops).1 (Spec.run sc s' ops).1 ∧ (run sc s ops).2 = (Spec.run sc s' ops).2 := by
  induction ops with
  | nil => intro s s' hr _; exact ⟨hr, rfl⟩
  | cons o os ih =>
    intro s s' hr h
    have h1 := step_sim sc s s' o hr (h o List.mem_cons_self)
    have h2 := ih _ _ h1.1 (fun o' ho' => h o' (List.mem_cons_of_mem _ ho'))
    rw [run_cons, spec_run_cons]
    exact ⟨h2.1, by simp only [h1.2, h2.2]⟩

theorem rel_init (db : DB) : Rel { committed := db } { committed := db } :=
  ⟨rfl, Or.inl ⟨rfl, rfl⟩⟩

end ImmuModel.Sql.TxProgMainAux
