/-
C11 helper lemmas, part 1: the engine's `Compare` restricted to the valid, plain values of one column
is the byte order of the keys (transport through C15's `keyForm_order`), hence a total preorder.
-/
import ImmuModel.Sql.QuerySpec
import ImmuModel.Sql.Proofs.KeyMain
namespace ImmuModel.Sql.QueryOrderAux
open ImmuModel ImmuModel.Sql

-- ---------------------------------------------------------------- byte order

theorem bytesCompare_le_zero {a b : Bytes} : bytesCompare a b ≤ 0 ↔ lexLt b a = false := by
  unfold bytesCompare
  by_cases h : lexLt a b = true
  · simp [h, lexLt_asymm h]
  · by_cases h2 : lexLt b a = true <;> simp [h, h2]

theorem bytesCompare_nonneg {a b : Bytes} : 0 ≤ bytesCompare a b ↔ lexLt a b = false := by
  unfold bytesCompare
  by_cases h : lexLt a b = true
  · simp [h]
  · by_cases h2 : lexLt b a = true <;> simp [h, h2]

theorem bytesCompare_neg {a b : Bytes} : bytesCompare a b < 0 ↔ lexLt a b = true := by
  unfold bytesCompare
  by_cases h : lexLt a b = true
  · simp [h]
  · by_cases h2 : lexLt b a = true <;> simp [h, h2]

theorem bytesCompare_pos {a b : Bytes} : 0 < bytesCompare a b ↔ lexLt b a = true := by
  unfold bytesCompare
  by_cases h : lexLt a b = true
  · simp [h, lexLt_asymm h]
  · by_cases h2 : lexLt b a = true <;> simp [h, h2]

/-- `a ≤ b → b ≤ c → a ≤ c` for the byte order, written with `lexLt … = false`. -/
theorem nlt_trans {a b c : Bytes} (h1 : lexLt b a = false) (h2 : lexLt c b = false) :
    lexLt c a = false := by
  cases h : lexLt c a with
  | false => rfl
  | true =>
    cases h3 : lexLt a b with
    | true =>
      have := lexLt_trans h h3
      rw [h2] at this
      cases this
    | false =>
      have e := lexLt_connex h3 h1
      subst e
      rw [h2] at h
      cases h

theorem lt_nlt_trans {a b c : Bytes} (h1 : lexLt a b = true) (h2 : lexLt c b = false) :
    lexLt c a = false :=
  nlt_trans (lexLt_asymm h1) h2

-- ---------------------------------------------------------------- admissible values of a column

/-- a value admissible for the column: valid key, no NaN / −0.0 -/
def okVal (col : Col) (v : Val) : Prop := validKey col.ty col.maxLen v = true ∧ plainVal v = true

/-- key bytes of a value of the column -/
abbrev K (col : Col) (v : Val) : Bytes := keyForm col.maxLen.toNat v

theorem isZeroF_plain {a : Nat} (h : isZeroF a = true) (hp : (isZeroF a && a != 0) = false) : a = 0 := by
  rw [h] at hp
  simpa using hp

theorem orderSafe_of_plain {a b : Val} (ha : plainVal a = true) (hb : plainVal b = true) :
    orderSafe a b = true := by
  cases a <;> cases b <;> try rfl
  rename_i x y
  simp only [plainVal, Bool.and_eq_true, Bool.not_eq_true'] at ha hb
  simp only [orderSafe, Bool.and_eq_true, Bool.not_eq_true', ha.1, hb.1, true_and]
  cases hx : isZeroF x with
  | false => simp
  | true =>
    cases hy : isZeroF y with
    | false => simp
    | true =>
      have ex := isZeroF_plain hx ha.2
      have ey := isZeroF_plain hy hb.2
      subst ex; subst ey
      simp

theorem cmp_key {col : Col} {a b : Val} (ha : okVal col a) (hb : okVal col b) :
    sqlCompare a b = .ok (bytesCompare (K col a) (K col b)) :=
  keyForm_order ha.1 hb.1 (orderSafe_of_plain ha.2 hb.2)

theorem cmpVals_key {col : Col} {a b : Val} (ha : okVal col a) (hb : okVal col b) :
    cmpVals a b = .ok (bytesCompare (K col a) (K col b)) := by
  simp only [cmpVals, cmp_key ha hb]

theorem sqlLe_iff {col : Col} {a b : Val} (ha : okVal col a) (hb : okVal col b) :
    sqlLe a b ↔ lexLt (K col b) (K col a) = false := by
  unfold sqlLe
  rw [cmp_key ha hb]
  constructor
  · rintro ⟨k, hk, hle⟩
    cases hk
    exact bytesCompare_le_zero.mp hle
  · intro h
    exact ⟨_, rfl, bytesCompare_le_zero.mpr h⟩

theorem okVal_null {col : Col} {v : Val} (h : okVal col v) : okVal col .null := by
  obtain ⟨h0, h1⟩ := validKey_guards h.1
  refine ⟨?_, rfl⟩
  cases hc : col.ty <;> simp [validKey, h0, h1]

theorem K_decisive {col : Col} {a b : Val} (ha : okVal col a) (hb : okVal col b) :
    Decisive (K col a) (K col b) := keyForm_decisive ha.1 hb.1

theorem encodeKey_K {col : Col} {v : Val} (h : okVal col v) :
    encodeKey v col.ty col.maxLen = .ok (K col v, keyN v) := encodeKey_eq h.1

theorem encBound_K {col : Col} {v : Val} (h : okVal col v) : encBound col v = .ok (K col v) := by
  simp only [encBound, encodeKey_K h]

/-- every key starts with a tag byte below `0xFF` -/
theorem K_head (col : Col) (v : Val) : ∃ t r, K col v = t :: r ∧ t < 0xFF := by
  cases v <;> simp only [K, keyForm] <;> first
    | exact ⟨_, _, rfl, by decide⟩

-- ---------------------------------------------------------------- rows

theorem validTuple_get : ∀ {cols : List Col} {row : List Val}, validTuple cols row = true →
    ∀ {c : Nat} {col : Col} {v : Val}, cols[c]? = some col → row[c]? = some v →
      validKey col.ty col.maxLen v = true
  | [], [], _, c, _, _, h, _ => by simp at h
  | [], _ :: _, h, _, _, _, _, _ => by simp [validTuple] at h
  | _ :: _, [], h, _, _, _, _, _ => by simp [validTuple] at h
  | x :: cols, y :: row, h, c, col, v, h1, h2 => by
    simp only [validTuple, Bool.and_eq_true] at h
    cases c with
    | zero =>
      simp only [List.getElem?_cons_zero, Option.some.injEq] at h1 h2
      subst h1; subst h2
      exact h.1
    | succ c =>
      simp only [List.getElem?_cons_succ] at h1 h2
      exact validTuple_get h.2 h1 h2

theorem validTuple_length : ∀ {cols : List Col} {row : List Val}, validTuple cols row = true →
    cols.length = row.length
  | [], [], _ => rfl
  | [], _ :: _, h => by simp [validTuple] at h
  | _ :: _, [], h => by simp [validTuple] at h
  | _ :: cols, _ :: row, h => by
    simp only [validTuple, Bool.and_eq_true] at h
    simp [validTuple_length h.2]

theorem rowOK_get {cols : List Col} {row : Row} (h : rowOK cols row = true) {c : Nat} {col : Col}
    {v : Val} (h1 : cols[c]? = some col) (h2 : row[c]? = some v) : okVal col v := by
  simp only [rowOK, Bool.and_eq_true] at h
  refine ⟨validTuple_get h.1 h1 h2, ?_⟩
  exact (List.all_eq_true.mp h.2) v (List.mem_of_getElem? h2)

end ImmuModel.Sql.QueryOrderAux
