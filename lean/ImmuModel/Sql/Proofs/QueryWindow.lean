/-
C11 helper lemmas, part 4: `keyReaderSpecFrom` (`keyBounds`) never fails on a valid range map and the
index key of every row bounded by the map lies inside the window.
-/
import ImmuModel.Sql.Proofs.QuerySel
namespace ImmuModel.Sql.QueryWindowAux
open ImmuModel ImmuModel.Sql ImmuModel.Sql.QueryOrderAux ImmuModel.Sql.QueryRangeAux

-- ---------------------------------------------------------------- mapM over Except

theorem mapM_cons_ok {α β ε : Type} {f : α → Except ε β} {a : α} {l : List α} {ys : List β} :
    (a :: l).mapM f = .ok ys ↔ ∃ y ys', f a = .ok y ∧ l.mapM f = .ok ys' ∧ ys = y :: ys' := by
  rw [List.mapM_cons]
  cases h1 : f a with
  | error e => simp [bind, Except.bind]
  | ok y =>
    cases h2 : l.mapM f with
    | error e => simp [bind, Except.bind]
    | ok ys' =>
      simp only [bind, Except.bind, pure, Except.pure, Except.ok.injEq]
      constructor
      · intro h; exact ⟨y, ys', rfl, rfl, h.symm⟩
      · rintro ⟨y', ys'', h3, h4, h5⟩
        cases h3; cases h4; exact h5.symm

theorem mapM_nil_ok {α β ε : Type} {f : α → Except ε β} {ys : List β} :
    ([] : List α).mapM f = .ok ys ↔ ys = [] := by
  rw [List.mapM_nil]
  simp only [pure, Except.pure, Except.ok.injEq]
  exact eq_comm

theorem pickCols_cons {cols : List Col} {c : Nat} {cs : List Nat} {ic : List Col}
    (h : pickCols cols (c :: cs) = .ok ic) :
    ∃ col ic', cols[c]? = some col ∧ pickCols cols cs = .ok ic' ∧ ic = col :: ic' := by
  unfold pickCols at h
  obtain ⟨col, ic', h1, h2, h3⟩ := mapM_cons_ok.mp h
  refine ⟨col, ic', ?_, h2, h3⟩
  cases hc : cols[c]? with
  | none => simp [hc] at h1
  | some x => simp only [hc, Except.ok.injEq] at h1; rw [h1]

theorem pick_cons {row : Row} {c : Nat} {cs : List Nat} {iv : List Val}
    (h : pick row (c :: cs) = .ok iv) :
    ∃ v iv', row[c]? = some v ∧ pick row cs = .ok iv' ∧ iv = v :: iv' := by
  unfold pick at h
  obtain ⟨v, iv', h1, h2, h3⟩ := mapM_cons_ok.mp h
  exact ⟨v, iv', QuerySelAux.getCol_ok h1, h2, h3⟩

theorem pickCols_nil {cols : List Col} {ic : List Col} (h : pickCols cols [] = .ok ic) : ic = [] :=
  mapM_nil_ok.mp h

theorem pick_nil {row : Row} {iv : List Val} (h : pick row [] = .ok iv) : iv = [] :=
  mapM_nil_ok.mp h

theorem pick_valid {cols : List Col} {row : Row} (hrow : rowOK cols row = true) :
    ∀ (cs : List Nat) (ic : List Col) (iv : List Val),
      pickCols cols cs = .ok ic → pick row cs = .ok iv → validTuple ic iv = true
  | [], ic, iv, h1, h2 => by
    rw [pickCols_nil h1, pick_nil h2]; rfl
  | c :: cs, ic, iv, h1, h2 => by
    obtain ⟨col, ic', a1, a2, a3⟩ := pickCols_cons h1
    obtain ⟨v, iv', b1, b2, b3⟩ := pick_cons h2
    subst a3; subst b3
    simp only [validTuple, Bool.and_eq_true]
    exact ⟨(rowOK_get hrow a1 b1).1, pick_valid hrow cs ic' iv' a2 b2⟩

/-- concatenation of the column keys -/
def keysCat (ic : List Col) (iv : List Val) : Bytes :=
  (List.zipWith (fun c v => keyForm c.maxLen.toNat v) ic iv).flatten

theorem keysCat_cons (col : Col) (ic : List Col) (v : Val) (iv : List Val) :
    keysCat (col :: ic) (v :: iv) = K col v ++ keysCat ic iv := by
  simp [keysCat, K]

theorem encTuple_eq {ic : List Col} {iv : List Val} (h : validTuple ic iv = true) :
    encTuple ic iv = .ok (keysCat ic iv) := by
  simp only [encTuple, encodeTuple_eq h, keysCat]

-- ---------------------------------------------------------------- key-like strings

/-- what may follow a key prefix inside an index key: nothing, or a key (its tag byte is below 0xFF) -/
def KeyLike (s : Bytes) : Prop := lexLt [0xFF] s = false

theorem keyLike_nil : KeyLike [] := rfl

theorem keyLike_K (col : Col) (v : Val) (s : Bytes) : KeyLike (K col v ++ s) := by
  obtain ⟨t, r, h, ht⟩ := K_head col v
  rw [h]
  exact lexLt_cons_gt ht [] (r ++ s)

theorem keyLike_keysCat : ∀ (ic : List Col) (iv : List Val) (s : Bytes), KeyLike s →
    KeyLike (keysCat ic iv ++ s)
  | [], _, s, h => by simpa [keysCat] using h
  | _ :: _, [], s, h => by simpa [keysCat] using h
  | col :: ic, v :: iv, s, _ => by
    rw [keysCat_cons, List.append_assoc]
    exact keyLike_K col v _

-- ---------------------------------------------------------------- keyBounds, one column

/-- `hiStep` / `loStep` of `keyBounds` -/
def bstep (col : Col) (ov : Option Val) (acc : Bytes) (ready : Bool) : Except EvalErr (Bytes × Bool) :=
  if ready then .ok (acc, true)
  else match ov with
    | none => .ok (acc, true)
    | some v => match encBound col v with
      | .ok e => .ok (acc ++ e, false)
      | .error e => .error e

theorem keyBounds_cons {cols : List Col} {m : RangeMap} {c : Nat} {r : Range} {col : Col}
    (hg : RangeMap.get m c = some r) (hc : cols[c]? = some col)
    (rest : List Nat) (lo hi : Bytes) (lr hr : Bool) :
    keyBounds cols m (c :: rest) lo hi lr hr =
      match bstep col r.hi hi hr with
      | .error e => .error e
      | .ok (hi', hr') =>
        match bstep col r.lo lo lr with
        | .error e => .error e
        | .ok (lo', lr') => keyBounds cols m rest lo' hi' lr' hr' := by
  rw [keyBounds]
  simp only [hg, hc]
  rfl

/-- result of a step on a valid bound -/
def nxt (col : Col) (ov : Option Val) (acc : Bytes) (ready : Bool) : Bytes × Bool :=
  if ready then (acc, true) else
    match ov with
    | none => (acc, true)
    | some b => (acc ++ K col b, false)

theorem bstep_ok {col : Col} {ov : Option Val} (h : ∀ b, ov = some b → okVal col b)
    (acc : Bytes) (ready : Bool) :
    bstep col ov acc ready = .ok (nxt col ov acc ready) := by
  cases ready with
  | true => rfl
  | false =>
    cases ov with
    | none => rfl
    | some b => simp [bstep, nxt, encBound_K (h b rfl)]

theorem keyBounds_cons' {cols : List Col} {m : RangeMap} {c : Nat} {r : Range} {col : Col}
    (hg : RangeMap.get m c = some r) (hc : cols[c]? = some col) (hrv : RV col r)
    (rest : List Nat) (lo hi : Bytes) (lr hr : Bool) :
    keyBounds cols m (c :: rest) lo hi lr hr =
      keyBounds cols m rest (nxt col r.lo lo lr).1 (nxt col r.hi hi hr).1
        (nxt col r.lo lo lr).2 (nxt col r.hi hi hr).2 := by
  rw [keyBounds_cons hg hc, bstep_ok hrv.2, bstep_ok hrv.1]

/-- `keyReaderSpecFrom` does not fail on a valid range map -/
theorem keyBounds_total {cols : List Col} {m : RangeMap} (hm : MAll (RValid cols) m) :
    ∀ (cs : List Nat) (lo hi : Bytes) (lr hr : Bool),
      ∃ LO HI, keyBounds cols m cs lo hi lr hr = .ok (LO, HI)
  | [], lo, hi, _, _ => ⟨lo, hi ++ [0xFF], rfl⟩
  | c :: cs, lo, hi, lr, hr => by
    cases hg : RangeMap.get m c with
    | none => exact ⟨lo, hi ++ [0xFF], by simp [keyBounds, hg]⟩
    | some r =>
      obtain ⟨col, hc, hrv⟩ := MAll_get hm hg
      rw [keyBounds_cons' hg hc hrv]
      exact keyBounds_total hm cs _ _ _ _

-- ---------------------------------------------------------------- the window invariant

/-- invariant of the lower key `lo` built so far against the key prefix `P` consumed so far -/
def Ilo (lo : Bytes) (lr : Bool) (P : Bytes) : Prop :=
  ∀ S S' : Bytes, (lr = true → S' = []) → lexLt S S' = false → lexLt (P ++ S) (lo ++ S') = false

/-- invariant of the upper key `hi` -/
def Ihi (hi : Bytes) (hr : Bool) (P : Bytes) : Prop :=
  ∀ S S' : Bytes, (hr = true → S' = [0xFF]) → lexLt S' S = false → lexLt (hi ++ S') (P ++ S) = false

theorem Ilo_step {col : Col} {r : Range} {x : Val} (hrv : RV col r) (hx : okVal col x)
    (hh : KH col r x) {lo P : Bytes} {lr : Bool} (h : Ilo lo lr P) :
    Ilo (nxt col r.lo lo lr).1
      (nxt col r.lo lo lr).2 (P ++ K col x) := by
  cases lr with
  | true =>
    intro S S' h1 _
    rw [h1 rfl, List.append_assoc]
    exact h _ [] (fun _ => rfl) (lexLt_nil_right _)
  | false =>
    cases hlo : r.lo with
    | none =>
      intro S S' h1 _
      rw [h1 rfl, List.append_assoc]
      exact h _ [] (fun hf => by cases hf) (lexLt_nil_right _)
    | some b =>
      intro S S' _ h2
      simp only [nxt, Bool.false_eq_true, if_false]
      rw [List.append_assoc, List.append_assoc]
      refine h _ _ (fun hf => by cases hf) ?_
      rw [K_decisive hx (hrv.1 b hlo) S S', hh.1 b hlo, h2]
      simp

theorem Ihi_step {col : Col} {r : Range} {x : Val} (hrv : RV col r) (hx : okVal col x)
    (hh : KH col r x) {hi P : Bytes} {hr : Bool} (h : Ihi hi hr P) :
    Ihi (nxt col r.hi hi hr).1
      (nxt col r.hi hi hr).2 (P ++ K col x) := by
  cases hr with
  | true =>
    intro S S' h1 _
    rw [h1 rfl, List.append_assoc]
    exact h _ [0xFF] (fun _ => rfl) (keyLike_K col x S)
  | false =>
    cases hhi : r.hi with
    | none =>
      intro S S' h1 _
      rw [h1 rfl, List.append_assoc]
      exact h _ [0xFF] (fun hf => by cases hf) (keyLike_K col x S)
    | some b =>
      intro S S' _ h2
      simp only [nxt, Bool.false_eq_true, if_false]
      rw [List.append_assoc, List.append_assoc]
      refine h _ _ (fun hf => by cases hf) ?_
      rw [K_decisive (hrv.2 b hhi) hx S' S, hh.2 b hhi, h2]
      simp

/-- **window soundness**, generalised to the loop state of `keyBounds` -/
theorem kb_sound {cols : List Col} {m : RangeMap} {row : Row}
    (hrow : rowOK cols row = true) (hv : MAll (RValid cols) m) (hb : MAll (RHolds row) m) :
    ∀ (cs : List Nat) (ic : List Col) (iv : List Val),
      pickCols cols cs = .ok ic → pick row cs = .ok iv →
      ∀ (lo hi : Bytes) (lr hr : Bool) (P T LO HI : Bytes), KeyLike T → Ilo lo lr P → Ihi hi hr P →
        keyBounds cols m cs lo hi lr hr = .ok (LO, HI) →
        lexLt (P ++ (keysCat ic iv ++ T)) LO = false ∧ lexLt HI (P ++ (keysCat ic iv ++ T)) = false
  | [], ic, iv, h1, h2, lo, hi, lr, hr, P, T, LO, HI, hT, hlo, hhi, hk => by
    rw [pickCols_nil h1, pick_nil h2]
    simp only [keyBounds, Except.ok.injEq, Prod.mk.injEq] at hk
    obtain ⟨e1, e2⟩ := hk
    subst e1; subst e2
    have e : keysCat [] [] = [] := rfl
    rw [e, List.nil_append]
    constructor
    · have := hlo T [] (fun _ => rfl) (lexLt_nil_right _)
      simpa using this
    · exact hhi T [0xFF] (fun _ => rfl) hT
  | c :: cs, ic, iv, h1, h2, lo, hi, lr, hr, P, T, LO, HI, hT, hlo, hhi, hk => by
    obtain ⟨col, ic', a1, a2, a3⟩ := pickCols_cons h1
    obtain ⟨x, iv', b1, b2, b3⟩ := pick_cons h2
    subst a3; subst b3
    have hx : okVal col x := rowOK_get hrow a1 b1
    rw [keysCat_cons]
    cases hg : RangeMap.get m c with
    | none =>
      simp only [keyBounds, hg, Except.ok.injEq, Prod.mk.injEq] at hk
      obtain ⟨e1, e2⟩ := hk
      subst e1; subst e2
      constructor
      · have := hlo (K col x ++ keysCat ic' iv' ++ T) [] (fun _ => rfl) (lexLt_nil_right _)
        simpa using this
      · refine hhi _ [0xFF] (fun _ => rfl) ?_
        rw [List.append_assoc]
        exact keyLike_K col x _
    | some r =>
      obtain ⟨col', hc', hrv⟩ := MAll_get hv hg
      rw [a1] at hc'
      cases hc'
      obtain ⟨x', hx', hxh⟩ := MAll_get hb hg
      rw [b1] at hx'
      cases hx'
      have hkh := (holds_iff hrv hx).mp hxh
      rw [keyBounds_cons' hg a1 hrv] at hk
      have := kb_sound hrow hv hb cs ic' iv' a2 b2 _ _ _ _ (P ++ K col x) T LO HI hT
        (Ilo_step hrv hx hkh hlo) (Ihi_step hrv hx hkh hhi) hk
      simpa [List.append_assoc] using this

end ImmuModel.Sql.QueryWindowAux
