/-
C15 helper lemmas: the byte-level manipulations of the key encoder (`^= 0x80`, `^b`, sign-bit
test) expressed as arithmetic on the 64-bit number carried by the 8 big-endian bytes.
-/
import ImmuModel.Sql.KeyEnc
namespace ImmuModel.Sql
open ImmuModel ImmuModel.GoInt

set_option maxRecDepth 100000 in
theorem nat_xor128 : ∀ n, n < 256 → n ^^^ 128 = (n + 128) % 256 := by decide

set_option maxRecDepth 100000 in
theorem nat_and128 : ∀ n, n < 256 → (n &&& 128 ≠ 0 ↔ 128 ≤ n) := by decide

theorem u8_xor80 (q : Nat) (h : q < 256) :
    UInt8.ofNat q ^^^ 0x80 = UInt8.ofNat ((q + 128) % 256) := by
  apply UInt8.toNat_inj.mp
  simp [UInt8.toNat_xor, UInt8.toNat_ofNat', Nat.mod_eq_of_lt h]
  exact nat_xor128 q h

theorem u8_not (q : Nat) (h : q < 256) : ~~~ (UInt8.ofNat q) = UInt8.ofNat (255 - q) := by
  apply UInt8.toNat_inj.mp
  have h2 : 255 - q < 256 := by omega
  simp [UInt8.toNat_not, UInt8.toNat_ofNat', Nat.mod_eq_of_lt h, Nat.mod_eq_of_lt h2, UInt8.size]

theorem u8_and80 (q : Nat) (h : q < 256) :
    ((UInt8.ofNat q &&& 0x80) != 0) = true ↔ 128 ≤ q := by
  rw [bne_iff_ne, ne_eq, ← UInt8.toNat_inj]
  simp only [UInt8.toNat_and, UInt8.toNat_ofNat', Nat.mod_eq_of_lt h]
  exact nat_and128 q h

theorem be64_bytes (n : Nat) : be64 n =
    [UInt8.ofNat (n / 72057594037927936 % 256), UInt8.ofNat (n / 281474976710656 % 256),
      UInt8.ofNat (n / 1099511627776 % 256), UInt8.ofNat (n / 4294967296 % 256),
      UInt8.ofNat (n / 16777216 % 256), UInt8.ofNat (n / 65536 % 256),
      UInt8.ofNat (n / 256 % 256), UInt8.ofNat (n % 256)] := by
  simp [be64, beN]

theorem u8_ofNat_mod (n : Nat) : UInt8.ofNat (n % 256) = UInt8.ofNat n := by
  apply UInt8.toNat_inj.mp
  simp [UInt8.toNat_ofNat']

/-- `encv[1] ^= 0x80` adds 2^63 modulo 2^64 to the big-endian number. -/
theorem flipSign_be64 (n : Nat) (h : n < two64) :
    flipSign (be64 n) = be64 ((n + two63) % two64) := by
  unfold two64 at h
  rw [be64_bytes, be64_bytes]
  simp only [flipSign, two63, two64]
  rw [u8_xor80 _ (Nat.mod_lt _ (by decide))]
  have e0 : (n / 72057594037927936 % 256 + 128) % 256 = (n + 9223372036854775808) % 18446744073709551616 / 72057594037927936 % 256 := by omega
  have e1 : n / 281474976710656 % 256 = (n + 9223372036854775808) % 18446744073709551616 / 281474976710656 % 256 := by omega
  have e2 : n / 1099511627776 % 256 = (n + 9223372036854775808) % 18446744073709551616 / 1099511627776 % 256 := by omega
  have e3 : n / 4294967296 % 256 = (n + 9223372036854775808) % 18446744073709551616 / 4294967296 % 256 := by omega
  have e4 : n / 16777216 % 256 = (n + 9223372036854775808) % 18446744073709551616 / 16777216 % 256 := by omega
  have e5 : n / 65536 % 256 = (n + 9223372036854775808) % 18446744073709551616 / 65536 % 256 := by omega
  have e6 : n / 256 % 256 = (n + 9223372036854775808) % 18446744073709551616 / 256 % 256 := by omega
  have e7 : n % 256 = (n + 9223372036854775808) % 18446744073709551616 % 256 := by omega
  rw [e0, e1, e2, e3, e4, e5, e6, e7]

/-- Complementing all 8 bytes maps `n` to `2^64 - 1 - n`. -/
theorem complAll_be64 (n : Nat) (h : n < two64) :
    complAll (be64 n) = be64 (two64 - 1 - n) := by
  unfold two64 at h
  rw [be64_bytes, be64_bytes]
  simp only [complAll, List.map, two64]
  rw [u8_not _ (Nat.mod_lt _ (by decide)), u8_not _ (Nat.mod_lt _ (by decide)),
    u8_not _ (Nat.mod_lt _ (by decide)), u8_not _ (Nat.mod_lt _ (by decide)),
    u8_not _ (Nat.mod_lt _ (by decide)), u8_not _ (Nat.mod_lt _ (by decide)),
    u8_not _ (Nat.mod_lt _ (by decide)), u8_not _ (Nat.mod_lt _ (by decide))]
  have e0 : 255 - n / 72057594037927936 % 256 = (18446744073709551616 - 1 - n) / 72057594037927936 % 256 := by omega
  have e1 : 255 - n / 281474976710656 % 256 = (18446744073709551616 - 1 - n) / 281474976710656 % 256 := by omega
  have e2 : 255 - n / 1099511627776 % 256 = (18446744073709551616 - 1 - n) / 1099511627776 % 256 := by omega
  have e3 : 255 - n / 4294967296 % 256 = (18446744073709551616 - 1 - n) / 4294967296 % 256 := by omega
  have e4 : 255 - n / 16777216 % 256 = (18446744073709551616 - 1 - n) / 16777216 % 256 := by omega
  have e5 : 255 - n / 65536 % 256 = (18446744073709551616 - 1 - n) / 65536 % 256 := by omega
  have e6 : 255 - n / 256 % 256 = (18446744073709551616 - 1 - n) / 256 % 256 := by omega
  have e7 : 255 - n % 256 = (18446744073709551616 - 1 - n) % 256 := by omega
  rw [e0, e1, e2, e3, e4, e5, e6, e7]

/-- `encv[1] & 0x80 != 0` tests whether the number is at least 2^63. -/
theorem hasSignBit_be64 (n : Nat) (h : n < two64) :
    hasSignBit (be64 n) = true ↔ two63 ≤ n := by
  unfold two64 at h
  rw [be64_bytes]
  simp only [hasSignBit]
  rw [u8_and80 _ (Nat.mod_lt _ (by decide))]
  unfold two63
  omega

theorem beVal_be64 (n : Nat) (h : n < two64) : beVal (be64 n) = n := by
  have := beVal_beN 8 n
  unfold two64 at h
  simp only [be64]
  rw [this]
  exact Nat.mod_eq_of_lt (by simpa using h)

theorem two64_eq : 256 ^ 8 = two64 := by decide

end ImmuModel.Sql
