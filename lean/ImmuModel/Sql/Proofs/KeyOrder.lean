/-
C15 helper lemmas: per-type order and round-trip facts of the key encoding.
-/
import ImmuModel.Sql.Proofs.Bits
namespace ImmuModel.Sql
open ImmuModel ImmuModel.GoInt

-- ---------------------------------------------------------------- padding

theorem padTo_length {n : Nat} {s : Bytes} (h : s.length ≤ n) : (padTo n s).length = n := by
  simp [padTo]; omega

theorem padTo_nil (n : Nat) : padTo n [] = List.replicate n 0 := by simp [padTo]

theorem padTo_cons (n : Nat) (x : UInt8) (xs : Bytes) :
    padTo (n + 1) (x :: xs) = x :: padTo n xs := by
  simp [padTo]

/-- Zero padding to a fixed width followed by the big-endian length orders like the strings
(the length suffix breaks the tie between a string and its extension by NUL bytes). -/
theorem lexLt_pad : ∀ (a b : Bytes) (n k : Nat), a.length ≤ n → b.length ≤ n → k + n < 256 ^ 4 →
    lexLt (padTo n a ++ beN 4 (k + a.length)) (padTo n b ++ beN 4 (k + b.length)) = lexLt a b
  | [], [], n, k, _, _, _ => by simp
  | [], y :: ys, n, k, _, hb, hk => by
    have hlen : (padTo n (y :: ys)).length = n := padTo_length hb
    have hl : (List.replicate n (0 : UInt8)).length = (padTo n (y :: ys)).length := by simp [hlen]
    have h2 : lexLt (beN 4 (k + ([] : Bytes).length)) (beN 4 (k + (y :: ys).length)) = true := by
      apply (lexLt_beN 4 _ _ _ _).mpr
      · simp
      · simp; omega
      · simp at hb ⊢; omega
    rw [padTo_nil, lexLt_append_of_length_eq hl, h2]
    rcases zeros_or_lexLt (padTo n (y :: ys)) with h | h
    · rw [hlen] at h
      rw [h]; simp
    · rw [hlen] at h
      rw [h]; simp
  | x :: xs, [], n, k, ha, _, hk => by
    have hlen : (padTo n (x :: xs)).length = n := padTo_length ha
    have hl : (padTo n (x :: xs)).length = (List.replicate n (0 : UInt8)).length := by simp [hlen]
    have h1 := not_lexLt_zeros (padTo n (x :: xs))
    rw [hlen] at h1
    have h2 : lexLt (beN 4 (k + (x :: xs).length)) (beN 4 (k + ([] : Bytes).length)) = false := by
      cases h : lexLt (beN 4 (k + (x :: xs).length)) (beN 4 (k + ([] : Bytes).length)) with
      | false => rfl
      | true =>
        have := (lexLt_beN 4 _ _ (by simp at ha ⊢; omega) (by simp; omega)).mp h
        simp at this
        omega
    rw [padTo_nil, lexLt_append_of_length_eq hl, h1, h2]
    simp
  | x :: xs, y :: ys, n, k, ha, hb, hk => by
    cases n with
    | zero => simp at ha
    | succ n =>
      rw [padTo_cons, padTo_cons]
      simp only [List.cons_append, lexLt_cons_cons]
      have ih := lexLt_pad xs ys n (k + 1) (by simpa using ha) (by simpa using hb) (by omega)
      have e1 : k + (x :: xs).length = k + 1 + xs.length := by simp; omega
      have e2 : k + (y :: ys).length = k + 1 + ys.length := by simp; omega
      rw [e1, e2, ih]

theorem bytesCompare_pad (a b : Bytes) (n : Nat) (ha : a.length ≤ n) (hb : b.length ≤ n)
    (hn : n < 256 ^ 4) :
    bytesCompare (padTo n a ++ beN 4 a.length) (padTo n b ++ beN 4 b.length) = bytesCompare a b := by
  unfold bytesCompare
  have h1 := lexLt_pad a b n 0 ha hb (by omega)
  have h2 := lexLt_pad b a n 0 hb ha (by omega)
  simp only [Nat.zero_add] at h1 h2
  rw [h1, h2]

theorem take_pad (s rest : Bytes) (n : Nat) :
    ((padTo n s ++ rest).take s.length) = s := by
  simp [padTo, List.append_assoc]

theorem drop_pad {s : Bytes} {n : Nat} (h : s.length ≤ n) (rest : Bytes) :
    ((padTo n s ++ rest).drop n) = rest := by
  have := padTo_length h
  rw [List.drop_append_of_le_length (by omega)]
  simp [List.drop_eq_nil_of_le, this]

-- ---------------------------------------------------------------- integers / timestamps

/-- The unsigned number carried by the key bytes of an `int64`: `i + 2^63`. -/
def biased (i : Int) : Nat := (i + (two63 : Int)).toNat

theorem biased_lt {i : Int} (h : InI64 i) : biased i < two64 := by
  unfold InI64 two63 at h; unfold biased two63 two64; omega

theorem flipSign_be64_u64 {i : Int} (h : InI64 i) :
    flipSign (be64 (u64 i)) = be64 (biased i) := by
  rw [flipSign_be64 _ (u64_lt i)]
  apply congrArg be64
  unfold InI64 two63 at h
  unfold u64 biased two63 two64
  omega

theorem flipSign_be64_biased {i : Int} (h : InI64 i) :
    flipSign (be64 (biased i)) = be64 (u64 i) := by
  rw [flipSign_be64 _ (biased_lt h)]
  apply congrArg be64
  unfold InI64 two63 at h
  unfold u64 biased two63 two64
  omega

theorem bytesCompare_biased {i j : Int} (hi : InI64 i) (hj : InI64 j) :
    bytesCompare (be64 (biased i)) (be64 (biased j)) = intCompare i j := by
  have bi := biased_lt hi
  have bj := biased_lt hj
  rw [← two64_eq] at bi bj
  simp only [be64]
  rw [bytesCompare_beN 8 _ _ bi bj]
  unfold InI64 two63 at hi hj
  unfold intCompare biased two63
  by_cases c1 : i = j
  · subst c1; simp
  · by_cases c2 : i > j
    · have : ¬ ((i + 9223372036854775808).toNat < (j + 9223372036854775808).toNat) := by omega
      have : (j + 9223372036854775808).toNat < (i + 9223372036854775808).toNat := by omega
      simp [*]
    · have : ((i + 9223372036854775808).toNat < (j + 9223372036854775808).toNat) := by omega
      simp [*]

theorem decode_int {i : Int} (h : InI64 i) (rest : Bytes) :
    i64 (beVal (flipSign ((be64 (biased i) ++ rest).take 8))) = i := by
  have : (be64 (biased i) ++ rest).take 8 = be64 (biased i) := by
    rw [List.take_append_of_le_length (by simp)]
    simp [List.take_of_length_le]
  rw [this, flipSign_be64_biased h, beVal_be64 _ (u64_lt i), i64_u64 h]

theorem tsCompare_nano {s1 s2 : Int} {n1 n2 : Nat} (h1 : n1 < 1000000000) (h2 : n2 < 1000000000) :
    intCompare (s1 * 1000000000 + (n1 : Int)) (s2 * 1000000000 + (n2 : Int)) = tsCompare s1 n1 s2 n2 := by
  unfold intCompare tsCompare
  by_cases c1 : s1 < s2
  · have a : ¬ (s1 * 1000000000 + (n1 : Int) = s2 * 1000000000 + (n2 : Int)) := by omega
    have b : ¬ (s1 * 1000000000 + (n1 : Int) > s2 * 1000000000 + (n2 : Int)) := by omega
    simp [a, b, c1]
  · by_cases c2 : s1 > s2
    · have a : ¬ (s1 * 1000000000 + (n1 : Int) = s2 * 1000000000 + (n2 : Int)) := by omega
      have b : (s1 * 1000000000 + (n1 : Int) > s2 * 1000000000 + (n2 : Int)) := by omega
      have d : ¬ (s1 = s2) := by omega
      simp [a, b, c1, c2, d]
    · have e : s1 = s2 := by omega
      subst e
      by_cases d1 : n1 < n2
      · have a : ¬ (s1 * 1000000000 + (n1 : Int) = s1 * 1000000000 + (n2 : Int)) := by omega
        have b : ¬ (s1 * 1000000000 + (n1 : Int) > s1 * 1000000000 + (n2 : Int)) := by omega
        simp [a, b, d1]
      · by_cases d2 : n1 > n2
        · have a : ¬ (s1 * 1000000000 + (n1 : Int) = s1 * 1000000000 + (n2 : Int)) := by omega
          have b : (s1 * 1000000000 + (n1 : Int) > s1 * 1000000000 + (n2 : Int)) := by omega
          simp [a, b, d1, d2]
        · have e : n1 = n2 := by omega
          subst e
          simp

theorem timeUnix_nano {sec : Int} {nsec : Nat} (h : nsec < 1000000000) :
    timeUnix 0 (sec * 1000000000 + (nsec : Int)) = (sec, nsec) := by
  rw [timeUnix_eq]
  congr 1 <;> omega

-- ---------------------------------------------------------------- floats

/-- The unsigned number carried by the key bytes of a float with bit pattern `bits`. -/
def fenc (bits : Nat) : Nat := if two63 ≤ bits then two64 - 1 - bits else bits + two63

theorem fenc_lt {bits : Nat} (h : bits < two64) : fenc bits < two64 := by
  unfold two64 at h; unfold fenc two63 two64; split <;> omega

theorem mangleFloat_be64 {bits : Nat} (h : bits < two64) :
    mangleFloat (be64 bits) = be64 (fenc bits) := by
  unfold mangleFloat fenc
  by_cases c : two63 ≤ bits
  · rw [if_pos ((hasSignBit_be64 bits h).mpr c), if_pos c, complAll_be64 _ h]
  · have : ¬ hasSignBit (be64 bits) = true := fun hh => c ((hasSignBit_be64 bits h).mp hh)
    rw [if_neg this, if_neg c, flipSign_be64 _ h]
    apply congrArg be64
    unfold two64 at h; unfold two63 at c; unfold two63 two64; omega

theorem unmangleFloat_be64 {bits : Nat} (h : bits < two64) :
    unmangleFloat (be64 (fenc bits)) = be64 bits := by
  unfold unmangleFloat
  have hf := fenc_lt h
  by_cases c : two63 ≤ bits
  · have e : fenc bits = two64 - 1 - bits := by unfold fenc; rw [if_pos c]
    have : ¬ hasSignBit (be64 (fenc bits)) = true := by
      intro hh
      have := (hasSignBit_be64 _ hf).mp hh
      rw [e] at this; unfold two63 at c this; unfold two64 at this; omega
    rw [if_neg this, complAll_be64 _ hf]
    apply congrArg be64
    rw [e]; unfold two64 at h ⊢; omega
  · have e : fenc bits = bits + two63 := by unfold fenc; rw [if_neg c]
    have : hasSignBit (be64 (fenc bits)) = true := by
      apply (hasSignBit_be64 _ hf).mpr
      rw [e]; omega
    rw [if_pos this, flipSign_be64 _ hf]
    apply congrArg be64
    rw [e]; unfold two63 at c ⊢; unfold two64; omega

theorem decode_float {bits : Nat} (h : bits < two64) (rest : Bytes) :
    beVal (unmangleFloat ((be64 (fenc bits) ++ rest).take 8)) = bits := by
  have : (be64 (fenc bits) ++ rest).take 8 = be64 (fenc bits) := by
    rw [List.take_append_of_le_length (by simp)]
    simp [List.take_of_length_le]
  rw [this, unmangleFloat_be64 h, beVal_be64 _ h]

/-- The key bytes of floats realise the IEEE total order on *all* bit patterns. -/
theorem fenc_lt_iff {a b : Nat} (ha : a < two64) (hb : b < two64) :
    fenc a < fenc b ↔ floatTotalKey a < floatTotalKey b := by
  unfold two64 at ha hb
  unfold fenc floatTotalKey two63 two64
  split <;> split <;> split <;> split <;> omega

theorem fenc_inj {a b : Nat} (ha : a < two64) (hb : b < two64) (h : fenc a = fenc b) : a = b := by
  unfold two64 at ha hb
  unfold fenc two63 two64 at h
  split at h <;> split at h <;> omega

theorem bytesCompare_fenc {a b : Nat} (ha : a < two64) (hb : b < two64)
    (hs : (!isNaN a && !isNaN b && !(isZeroF a && isZeroF b && a != b)) = true) :
    bytesCompare (be64 (fenc a)) (be64 (fenc b)) = floatCompare a b := by
  have fa := fenc_lt ha
  have fb := fenc_lt hb
  rw [← two64_eq] at fa fb
  simp only [be64]
  rw [bytesCompare_beN 8 _ _ fa fb]
  simp only [Bool.and_eq_true, Bool.not_eq_true', Bool.and_eq_false_iff, bne_iff_ne, ne_eq] at hs
  obtain ⟨⟨na, nb⟩, hz⟩ := hs
  unfold floatCompare
  simp only [na, nb, Bool.or_self, Bool.false_eq_true, if_false]
  unfold isNaN at na nb
  unfold isZeroF at hz
  simp only [decide_eq_false_iff_not, beq_iff_eq, Bool.not_eq_true', beq_eq_false_iff_ne, ne_eq,
    Decidable.not_not, decide_eq_true_eq] at na nb hz
  unfold two64 at ha hb
  unfold two63 at na nb hz
  unfold fenc floatKey two63 two64
  by_cases ca : 9223372036854775808 ≤ a <;> by_cases cb : 9223372036854775808 ≤ b
  all_goals
    simp only [ca, cb, if_true, if_false, Nat.not_le.mp, show ∀ x : Nat, (x < 9223372036854775808) = ¬ (9223372036854775808 ≤ x) from fun x => by simp]
  all_goals
    have hz' : (¬a % 9223372036854775808 = 0 ∨ ¬b % 9223372036854775808 = 0) ∨ a = b := by
      rcases hz with h | h
      · exact Or.inl h
      · exact Or.inr (by simpa using h)
    clear hz
    simp only [not_true_eq_false, not_false_eq_true, if_true, if_false]
    repeat' split
    all_goals omega

end ImmuModel.Sql
