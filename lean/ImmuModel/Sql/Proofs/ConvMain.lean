/-
C12 — proofs about `Sql/Conv.lean`: the value a converter returns is a fixed point of store-and-load, hence the
key the statement probes is the key of the committed index entry.
-/
import ImmuModel.Sql.Conv
import ImmuModel.Sql.Proofs.ValueRT
namespace ImmuModel.Sql.Conv.MainAux
open ImmuModel ImmuModel.GoInt ImmuModel.Sql ImmuModel.Sql.Conv

/-- Store-and-load of a valid non-NULL value gives the value at the stored precision. -/
theorem storedOf_eq {ty : SqlType} {maxLen : Int} {v : Val}
    (hv : validValue ty maxLen v = true) (hnn : v ≠ .null) :
    storedOf v ty maxLen = .ok (truncMicros v) := by
  obtain ⟨e, he, hd⟩ := decode_encode_value (nullable := false) hv (fun h => absurd h hnn)
    (fun h => by cases h) []
  simp only [List.append_nil] at hd
  simp [storedOf, he, hd]

theorem truncMicros_strToTs (sec : Int) (nsec : Nat) :
    truncMicros (strToTs sec nsec) = strToTs sec nsec := by
  simp only [strToTs, truncMicro, truncMicros]
  congr 1
  omega

theorem validValue_strToTs {sec : Int} {nsec : Nat} (hn : nsec < 1000000000)
    (hr : InI64 (sec * 1000000 + ((nsec / 1000 : Nat) : Int))) (maxLen : Int) :
    validValue .timestamp maxLen (strToTs sec nsec) = true := by
  have e : (nsec - nsec % 1000) / 1000 = nsec / 1000 := by omega
  have l : nsec - nsec % 1000 < 1000000000 := by omega
  simp only [strToTs, truncMicro, validValue, e, Bool.and_eq_true, decide_eq_true_eq]
  exact ⟨l, hr⟩

theorem indexerKey_eq_probeKey {ty : SqlType} {maxLen keyLen : Int} {v : Val}
    (hv : validValue ty maxLen v = true) (hnn : v ≠ .null) (hp : truncMicros v = v) :
    indexerKey v ty maxLen keyLen = probeKey v ty keyLen := by
  simp [indexerKey, storedOf_eq hv hnn, hp, probeKey]

end ImmuModel.Sql.Conv.MainAux
