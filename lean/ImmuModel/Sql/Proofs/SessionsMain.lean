/-
Proofs about the model of concurrent SQL sessions (`ImmuModel/Sql/Sessions.lean`):
* `Probed`: every transient entry a transaction wrote into a UNIQUE index is covered by a recorded
  "nothing under this prefix" read (`expectedGetWithPrefix{expectedTx = 0}`) — invariant of every session
  of every schedule (`run_probed`);
* `commit_stale_probe`: such a read is invalidated by any live first entry under the prefix.
No Mathlib.
-/
import ImmuModel.Sql.Sessions
namespace ImmuModel.Sql.SessionsAux
open ImmuModel ImmuModel.Sql ImmuModel.Sql.Mv

/-- every unique tuple written by the open transaction has its not-found probe in the read-set -/
def Probed (se : Sess) : Prop := ∀ p ∈ se.wuniq, Probe.pget p.1 p.2 none 0 ∈ se.probes

theorem probed_empty : Probed {} := by intro p hp; cases hp

theorem probed_begin (sc : Schema) (st : Store) : Probed (beginSess sc st) := by
  unfold beginSess
  split <;> (intro p hp; cases hp)

theorem probed_probe {se : Sess} (h : Probed se) (p : Probe) : Probed (se.probe p) := by
  intro q hq
  simp only [Sess.probe]
  exact List.mem_append_left _ (h q hq)

theorem probed_acquireP {se : Sess} (h : Probed se) (st : Store) : Probed (se.acquireP st).1 := by
  unfold Sess.acquireP
  split <;> exact h

theorem probed_acquireU {se : Sess} (h : Probed se) (i : Nat) (st : Store) :
    Probed (se.acquireU i st).1 := by
  unfold Sess.acquireU
  split <;> exact h

theorem probed_addRow {se : Sess} (h : Probed se) (key : Bytes) (w : Option Row) :
    Probed (se.addRow key w) := h

theorem probed_curMax {se : Sess} (h : Probed se) (cm : Int) : Probed { se with curMax := cm } := h

theorem probed_probe_addU {se : Sess} (h : Probed se) (i : Nat) (v : Bytes) :
    Probed ((se.probe (.pget i v none 0)).addU i v) := by
  intro q hq
  simp only [Sess.addU, Sess.probe, List.mem_append, List.mem_singleton] at hq ⊢
  rcases hq with hq | hq
  · exact Or.inl (h q hq)
  · subst hq; exact Or.inr rfl

theorem chkIdx_probed (sc : Schema) (st : Store) (row : Row) (cur : Option PEntry) :
    ∀ (idx : List (Bool × List Nat)) (i : Nat) (se se' : Sess), Probed se →
      chkIdx sc st row cur i idx se = .ok se' → Probed se' := by
  intro idx
  induction idx with
  | nil =>
    intro i se se' h he
    simp only [chkIdx] at he
    cases he
    exact h
  | cons a rest ih =>
    intro i se se' h he
    obtain ⟨u, cs⟩ := a
    simp only [chkIdx] at he
    split at he
    · cases he
    · exact ih _ _ _ h he
    · split at he
      · cases he
      · split at he
        · exact ih _ _ _ h he
        · split at he
          · cases he
          · split at he
            · cases he
            · exact ih _ _ _ (probed_probe_addU (probed_acquireU h _ _) _ _) he

theorem fetchRow_probed {se : Sess} (h : Probed se) (sc : Schema) (st : Store) (key : Bytes) (reuse : Bool) :
    Probed (fetchRow sc st se key reuse).1 := by
  unfold fetchRow
  split
  · exact probed_probe (probed_acquireP h _) _
  · exact h

theorem doUpsertM_probed {sc : Schema} {st : Store} {se se' : Sess} {row : Row} {key : Bytes} {reuse : Bool}
    (h : Probed se) (he : doUpsertM sc st se row key reuse = .ok se') : Probed se' := by
  unfold doUpsertM at he
  split at he
  · cases he
  · split at he
    · cases he
    · rename_i se1 hc
      cases he
      exact probed_addRow (chkIdx_probed _ _ _ _ _ _ _ _ (fetchRow_probed h _ _ _ _) hc) _ _

theorem insOne_probed {sc : Schema} {st : Store} {k : InsKind} {cols : List Nat} {se se' : Sess}
    {vals : List Val} (h : Probed se) (he : insOne sc st k cols se vals = .ok se') : Probed se' := by
  unfold insOne at he
  split at he
  · cases he
  · split at he
    · cases he
    · rename_i row cm must key _ _
      have h2 : ∀ p, Probed ((({ se with curMax := cm } : Sess).acquireP st).1.probe p) :=
        fun p => probed_probe (probed_acquireP (probed_curMax h _) _) p
      simp only at he
      split at he
      · cases he
      · split at he
        · split at he
          · cases he; exact h2 _
          · cases he
        · exact doUpsertM_probed (h2 _) he

theorem foldlM_probed {sc : Schema} {st : Store} {k : InsKind} {cols : List Nat} :
    ∀ (rows : List (List Val)) (se se' : Sess), Probed se →
      rows.foldlM (insOne sc st k cols) se = .ok se' → Probed se' := by
  intro rows
  induction rows with
  | nil => intro se se' h he; simp only [List.foldlM, pure, Except.pure] at he; cases he; exact h
  | cons r rest ih =>
    intro se se' h he
    simp only [List.foldlM, bind, Except.bind] at he
    split at he
    · cases he
    · rename_i se1 h1
      exact ih _ _ (insOne_probed h h1) he

theorem readRow_probed {se : Sess} (h : Probed se) (st : Store) (key : Bytes) :
    Probed (readRow st se key).1 := probed_probe (probed_acquireP h _) _

theorem execStmt_probed {sc : Schema} {st : Store} {se se' : Sess} {s : Stmt}
    (h : Probed se) (he : execStmt sc st se s = .ok se') : Probed se' := by
  cases s with
  | ins k cols rows => exact foldlM_probed rows _ _ h he
  | upd sets w =>
    simp only [execStmt] at he
    split at he
    · cases he
    · unfold updOne at he
      split at he
      · cases he
      · split at he
        · cases he
        · split at he
          · cases he; exact readRow_probed h _ _
          · split at he
            · cases he
            · exact doUpsertM_probed (probed_probe (readRow_probed h _ _) _) he
  | del w =>
    simp only [execStmt] at he
    split at he
    · cases he
    · unfold delOne at he
      split at he
      · cases he
      · split at he
        · cases he; exact readRow_probed h _ _
        · cases he; exact probed_addRow (readRow_probed h _ _) _ _

-- ---------------------------------------------------------------- the world of sessions

theorem getD_set_pad (l : List Sess) (i j : Nat) (se : Sess) :
    ((l ++ List.replicate (i + 1 - l.length) ({} : Sess)).set i se).getD j {} =
      if i = j then se else l.getD j {} := by
  by_cases hij : i = j
  · subst hij
    have hlen : i < (l ++ List.replicate (i + 1 - l.length) ({} : Sess)).length := by
      simp only [List.length_append, List.length_replicate]; omega
    have hlen' : i < l.length + (i + 1 - l.length) := by omega
    simp [List.getD_eq_getElem?_getD, hlen']
  · simp only [hij, if_false, List.getD_eq_getElem?_getD]
    rw [List.getElem?_set_ne hij]
    by_cases hj : j < l.length
    · rw [List.getElem?_append_left hj]
    · have hj' : l.length ≤ j := Nat.le_of_not_lt hj
      rw [List.getElem?_append_right hj', List.getElem?_eq_none_iff.2 hj']
      by_cases hr : j - l.length < i + 1 - l.length
      · simp [hr]
      · simp [hr]

theorem get_set (w : World) (i j : Nat) (se : Sess) :
    (w.set i se).get j = if i = j then se else w.get j := by
  simp only [World.get, World.set]
  exact getD_set_pad w.sess i j se

def AllProbed (w : World) : Prop := ∀ i, Probed (w.get i)

theorem allProbed_set {w : World} (h : AllProbed w) (i : Nat) {se : Sess} (hs : Probed se) :
    AllProbed (w.set i se) := by
  intro j
  rw [get_set]
  split
  · exact hs
  · exact h j

theorem allProbed_st {w : World} (h : AllProbed w) (st : Store) : AllProbed { w with st := st } := h

theorem step_probed (sc : Schema) (w : World) (e : Ev) (h : AllProbed w) : AllProbed (step sc w e).1 := by
  cases e with
  | begin i => exact allProbed_set h i (probed_begin _ _)
  | stmt i s =>
    simp only [step]
    split
    · exact h
    · split
      · rename_i se' hs
        exact allProbed_set h i (execStmt_probed (h i) hs)
      · exact allProbed_set h i probed_empty
  | commit i =>
    simp only [step]
    split
    · exact h
    · split
      · exact allProbed_st (allProbed_set h i probed_empty) _
      · exact allProbed_set h i probed_empty
  | rollback i => exact allProbed_set h i probed_empty

theorem run_probed (sc : Schema) : ∀ (evs : List Ev) (w : World), AllProbed w → AllProbed (run sc w evs).1 := by
  intro evs
  induction evs with
  | nil => intro w h; exact h
  | cons e es ih =>
    intro w h
    simp only [run]
    exact ih _ (step_probed sc w e h)

theorem allProbed_init : AllProbed {} := by
  intro i
  have : ({} : World).get i = {} := by simp [World.get]
  rw [this]
  exact probed_empty

-- ---------------------------------------------------------------- validation

theorem commit_stale_probe (sc : Schema) (st : Store) (se : Sess) (i : Nat) (v : Bytes) (e : UEntry)
    (hw : se.wrows ≠ []) (hp : Probe.pget i v none 0 ∈ se.probes) (hl : st.pgetLive i v = some e) :
    commit sc st se = .error .readConflict := by
  unfold commit
  have h1 : se.wrows.isEmpty = false := by
    cases h : se.wrows with
    | nil => exact absurd h hw
    | cons a b => rfl
  have h2 : validate st se = false := by
    unfold validate
    rw [List.all_eq_false]
    exact ⟨_, hp, by simp [probeOK, hl]⟩
  simp [h1, h2]

end ImmuModel.Sql.SessionsAux
