/-
C12 helper lemmas: `insRow` / `exec` preserve `Inv0`, INSERT enforces NOT NULL, transaction programs,
the uniqueness read.
-/
import ImmuModel.Sql.Proofs.DmlUpsert
import ImmuModel.Sql.Proofs.PlanMain
namespace ImmuModel.Sql.DmlMainAux
open ImmuModel ImmuModel.Sql ImmuModel.Sql.DmlListAux ImmuModel.Sql.DmlUpsertAux

theorem throw_bind {ε α β : Type} (e : ε) (f : α → Except ε β) :
    ((throw e : Except ε α) >>= f) = .error e := rfl

theorem liftE_ok {α : Type} {x : Except EvalErr α} {a : α} (h : liftE x = .ok a) : x = .ok a := by
  cases x with
  | ok b => simpa [liftE] using h
  | error e => cases e <;> simp [liftE] at h

/-- a successful `encodedKey` loop: no NULL among the key values, and the bytes are the plain tuple
encoding (`pkEnc`) -/
theorem encKeyCols_ok : ∀ (pc : List Col) (pv : List Val) (k : Bytes),
    encKeyCols pc pv = .ok k → pv.any (· == Val.null) = false ∧ encodeTuple pc pv = .ok k
  | [], [], k, h => by
    simp only [encKeyCols, Except.ok.injEq] at h
    subst h
    exact ⟨rfl, rfl⟩
  | [], _ :: _, k, h => by simp [encKeyCols] at h
  | _ :: _, [], k, h => by simp [encKeyCols] at h
  | c :: cs, v :: vs, k, h => by
    unfold encKeyCols at h
    split at h
    · cases h
    next hv =>
    split at h
    · cases h
    · cases h
    next e n he =>
    split at h
    · cases h
    next r hr =>
    simp only [Except.ok.injEq] at h
    subst h
    obtain ⟨ih1, ih2⟩ := encKeyCols_ok cs vs r hr
    refine ⟨?_, ?_⟩
    · simp only [List.any_cons, ih1, Bool.or_false]
      exact Bool.eq_false_iff.2 hv
    · simp only [encodeTuple, he, ih2]

theorem encodedKey_ok {s : Schema} {row : Row} {k : Bytes} (h : encodedKey s row = .ok k) :
    ∃ pv, pick row s.pk = .ok pv ∧ pv.any (· == Val.null) = false ∧ pkEnc s row = .ok k := by
  unfold encodedKey at h
  obtain ⟨pc, hpc, h⟩ := bind_ok h
  obtain ⟨pv, hpv, h⟩ := bind_ok h
  obtain ⟨hany, henc⟩ := encKeyCols_ok pc pv k h
  refine ⟨pv, liftE_ok hpv, hany, ?_⟩
  unfold pkEnc
  rw [hpc, hpv]
  simp only [bind, Except.bind, encTuple, henc, liftE]

/-- UPDATE / DELETE … WHERE p read only rows of the table that satisfy p, each at most once -/
theorem selectRows_sound {s : Schema} {rows hit : List Row} {p : Pred}
    (h : selectRows s rows (some p) = .ok hit) :
    (∃ l : List Row, l.Perm rows ∧ hit.Sublist l) ∧ ∀ r ∈ hit, keeps p r = .ok true :=
  PlanAux.planRows_sound (liftE_ok h)

/-- fields of the state that the integrity invariants speak about -/
def sameData (a b : DB) : Prop :=
  b.rows = a.rows ∧ b.tombs = a.tombs ∧ b.maxEver = a.maxEver ∧ b.known = a.known ∧ b.updated = a.updated

theorem sameData_refl (a : DB) : sameData a a := ⟨rfl, rfl, rfl, rfl, rfl⟩

def pushV (v : Val) : Except DmlErr (Row × DB × Bool) → Except DmlErr (Row × DB × Bool)
  | .error e => .error e
  | .ok (r, d, m) => .ok (v :: r, d, m)

theorem pushV_ok {v : Val} {x : Except DmlErr (Row × DB × Bool)} {row : Row} {d : DB} {m : Bool}
    (h : pushV v x = .ok (row, d, m)) : ∃ r, x = .ok (r, d, m) ∧ row = v :: r := by
  cases x with
  | error e => cases h
  | ok p =>
    obtain ⟨r, d1, m1⟩ := p
    simp only [pushV, Except.ok.injEq, Prod.mk.injEq] at h
    obtain ⟨rfl, rfl, rfl⟩ := h
    exact ⟨r, rfl, rfl⟩

theorem build_cons (k : InsKind) (spec : Nat → Option Val) (c : Nat) (cs : ColSpec)
    (rest : List ColSpec) (db : DB) (must : Bool) :
    insRow.build k spec c (cs :: rest) db must =
      match spec c with
      | none =>
        if cs.notNull && !cs.autoInc then .error .notNull
        else if k != .upsert && cs.autoInc then
          pushV (.int (db.curMax + 1)) (insRow.build k spec (c + 1) rest
            { db with curMax := db.curMax + 1, lastPK := some (db.curMax + 1),
                      firstPK := match db.firstPK with | none => some (db.curMax + 1) | some f => some f } must)
        else pushV .null (insRow.build k spec (c + 1) rest db must)
      | some .null =>
        if cs.notNull || cs.autoInc then .error .notNull
        else pushV .null (insRow.build k spec (c + 1) rest db must)
      | some v =>
        if cs.autoInc then
          match v with
          | .int i => pushV v (insRow.build k spec (c + 1) rest
              { db with lastPK := some i,
                        firstPK := match db.firstPK with | none => some i | some f => some f }
              (decide (i ≤ db.curMax)))
          | _ => .error .invalidValue
        else pushV v (insRow.build k spec (c + 1) rest db must) := by
  rfl

theorem build_cons_ok {k : InsKind} {spec : Nat → Option Val} {c : Nat} {cs : ColSpec}
    {rest : List ColSpec} {db : DB} {must : Bool} {row : Row} {d : DB} {m : Bool}
    (h : insRow.build k spec c (cs :: rest) db must = .ok (row, d, m)) :
    ∃ v r db1 must1, row = v :: r ∧ insRow.build k spec (c + 1) rest db1 must1 = .ok (r, d, m) ∧
      sameData db db1 ∧ (cs.notNull = true → v = .null → k = .upsert ∧ cs.autoInc = true) := by
  rw [build_cons] at h
  split at h
  · -- unspecified
    split at h
    · cases h
    · next hnn =>
      split at h
      · obtain ⟨r, hr, rfl⟩ := pushV_ok h
        exact ⟨_, r, _, _, rfl, hr, ⟨rfl, rfl, rfl, rfl, rfl⟩, fun _ hv => by cases hv⟩
      · next hk =>
        obtain ⟨r, hr, rfl⟩ := pushV_ok h
        refine ⟨_, r, _, _, rfl, hr, sameData_refl _, fun hn _ => ?_⟩
        cases k <;> cases hai : cs.autoInc <;> simp_all
  · split at h
    · cases h
    · next hnn =>
      obtain ⟨r, hr, rfl⟩ := pushV_ok h
      refine ⟨_, r, _, _, rfl, hr, sameData_refl _, fun hn _ => ?_⟩
      simp_all
  · next v hnull _ =>
    split at h
    · split at h
      · obtain ⟨r, hr, rfl⟩ := pushV_ok h
        exact ⟨_, r, _, _, rfl, hr, ⟨rfl, rfl, rfl, rfl, rfl⟩, fun _ hv => by cases hv⟩
      · cases h
    · obtain ⟨r, hr, rfl⟩ := pushV_ok h
      refine ⟨_, r, _, _, rfl, hr, sameData_refl _, fun _ hv => ?_⟩
      exact absurd hv hnull

theorem sameData_trans {a b c : DB} (h1 : sameData a b) (h2 : sameData b c) : sameData a c := by
  obtain ⟨a1, a2, a3, a4, a5⟩ := h1
  obtain ⟨b1, b2, b3, b4, b5⟩ := h2
  exact ⟨b1.trans a1, b2.trans a2, b3.trans a3, b4.trans a4, b5.trans a5⟩

theorem build_spec (k : InsKind) (spec : Nat → Option Val) :
    ∀ (cs : List ColSpec) (c : Nat) (db : DB) (must : Bool) (row : Row) (d : DB) (m : Bool),
    insRow.build k spec c cs db must = .ok (row, d, m) →
    sameData db d ∧
    ∀ (j : Nat) (cspec : ColSpec), cs[j]? = some cspec → cspec.notNull = true →
      row[j]? = some Val.null → k = .upsert ∧ cspec.autoInc = true
  | [], c, db, must, row, d, m, h => by
    simp only [insRow.build, Except.ok.injEq, Prod.mk.injEq] at h
    obtain ⟨rfl, rfl, rfl⟩ := h
    exact ⟨sameData_refl _, by intro j cspec hj; simp at hj⟩
  | cs :: rest, c, db, must, row, d, m, h => by
    obtain ⟨v, r, db1, must1, rfl, hrec, hsd, hv⟩ := build_cons_ok h
    obtain ⟨hsd2, hn⟩ := build_spec k spec rest _ _ _ _ _ _ hrec
    refine ⟨sameData_trans hsd hsd2, ?_⟩
    intro j cspec hj hnn hnull
    cases j with
    | zero =>
      simp only [List.getElem?_cons_zero, Option.some.injEq] at hj hnull
      subst hj
      exact hv hnn hnull
    | succ j =>
      simp only [List.getElem?_cons_succ] at hj hnull
      exact hn j cspec hj hnn hnull

/-- the decisions of a successful `insRow` -/
theorem insRow_ok {s : Schema} {k : InsKind} {cols : List Nat} {vals : List Val} {db db' : DB}
    (h : insRow s k cols vals db = .ok db') :
    ∃ row db1 must spec pv, insRow.build k spec 0 s.cols db false = .ok (row, db1, must) ∧
      pick row s.pk = .ok pv ∧ pv.any (· == .null) = false ∧
      (db' = db1 ∨ doUpsert s db1 row (k == .upsert) = .ok db') := by
  unfold insRow at h
  simp only [throw_bind] at h
  split at h
  · cases h
  obtain ⟨⟨row, db1, must⟩, hb, h⟩ := bind_ok h
  simp only at h
  obtain ⟨u, _, h⟩ := bind_ok h
  obtain ⟨key, hkey, h⟩ := bind_ok h
  obtain ⟨pv, hpv, hany, _⟩ := encodedKey_ok hkey
  split at h
  · cases h
  refine ⟨row, db1, must, _, pv, hb, hpv, hany, ?_⟩
  split at h
  · split at h
    · simp only [pure, Except.pure, Except.ok.injEq] at h
      exact Or.inl h.symm
    · cases h
  · exact Or.inr h

theorem inv0_congr {s : Schema} {a b : DB} (h : sameData a b) (hi : Inv0 s a) : Inv0 s b := by
  obtain ⟨hr, _, hm, hk, _⟩ := h
  obtain ⟨h1, h2, h3, h4, h5⟩ := hi
  refine ⟨?_, ?_, ?_, ?_, ?_⟩
  · intro r hr'; rw [hr] at hr'; exact h1 r hr'
  · intro ks hks; rw [hr] at hks; exact h2 ks hks
  · intro r hr'; rw [hr] at hr'; exact h3 r hr'
  · intro r hr' i hi; rw [hr] at hr'; rw [hm]; exact h4 r hr' i hi
  · intro r hr' x hx; rw [hr] at hr'; rw [hk]; exact h5 r hr' x hx

theorem insRow_inv0 {s : Schema} {k : InsKind} {cols : List Nat} {vals : List Val} {db db' : DB}
    (hi : Inv0 s db) (h : insRow s k cols vals db = .ok db') : Inv0 s db' := by
  obtain ⟨row, db1, must, spec, pv, hb, _, _, hres⟩ := insRow_ok h
  have h1 : Inv0 s db1 := inv0_congr (build_spec k spec _ _ _ _ _ _ _ hb).1 hi
  rcases hres with rfl | hres
  · exact h1
  · exact doUpsert_inv0 h1 hres

/-- removing rows keeps `Inv0` -/
theorem inv0_sublist {s : Schema} {a b : DB} (hsub : b.rows.Sublist a.rows)
    (hm : b.maxEver = a.maxEver) (hk : b.known = a.known) (hi : Inv0 s a) : Inv0 s b := by
  obtain ⟨h1, h2, h3, h4, h5⟩ := hi
  refine ⟨?_, ?_, ?_, ?_, ?_⟩
  · intro r hr; exact h1 r (hsub.subset hr)
  · intro ks' hks'
    obtain ⟨ks, hks⟩ := keys_exist h1
    exact (mapM_sublist hsub hks hks').nodup (h2 ks hks)
  · intro r hr; exact h3 r (hsub.subset hr)
  · intro r hr i hi; rw [hm]; exact h4 r (hsub.subset hr) i hi
  · intro r hr x hx; rw [hk]; exact h5 r (hsub.subset hr) x hx

theorem exec_inv0 {s : Schema} {db db' : DB} {st : Stmt}
    (hi : Inv0 s db) (he : exec s db st = .ok db') : Inv0 s db' := by
  cases st with
  | ins k cols rows =>
    simp only [exec] at he
    exact foldlM_inv (Inv0 s) (fun d vals d' hd hstep => insRow_inv0 hd hstep) hi he
  | upd sets w =>
    simp only [exec, throw_bind] at he
    split at he
    · cases he
    obtain ⟨hit, _, he⟩ := bind_ok he
    refine foldlM_inv (Inv0 s) ?_ hi he
    intro d old d' hd hstep
    obtain ⟨new, _, hstep⟩ := bind_ok hstep
    obtain ⟨u, _, hstep⟩ := bind_ok hstep
    obtain ⟨key, _, hstep⟩ := bind_ok hstep
    split at hstep
    · cases hstep
    exact doUpsert_inv0 hd hstep
  | del w =>
    simp only [exec] at he
    obtain ⟨hit, _, he⟩ := bind_ok he
    refine foldlM_inv (Inv0 s) ?_ hi he
    intro d old d' hd hstep
    obtain ⟨key, _, hstep⟩ := bind_ok hstep
    obtain ⟨dead, _, hstep⟩ := bind_ok hstep
    obtain ⟨rows', hrows, hstep⟩ := bind_ok hstep
    simp only [pure, Except.pure, Except.ok.injEq] at hstep
    subst hstep
    exact inv0_sublist (filterM_sublist hrows) rfl rfl hd

-- ---------------------------------------------------------------- NOT NULL on the INSERT path

theorem notNull_congr {s : Schema} {a b : DB} (h : b.rows = a.rows) (hn : notNullOK s a) :
    notNullOK s b := by
  intro r hr; rw [h] at hr; exact hn r hr

theorem pick_mem {row : Row} {cs : List Nat} {pv : List Val} (h : pick row cs = .ok pv)
    {j : Nat} (hj : j ∈ cs) {v : Val} (hv : row[j]? = some v) : v ∈ pv := by
  obtain ⟨y, hy, hg⟩ := mapM_ok_forall h j hj
  simp only [getCol, hv, Except.ok.injEq] at hg
  exact hg ▸ hy

/-- the schema condition under which the INSERT family enforces NOT NULL: an UPSERT writes NULL into
an unspecified auto-increment column, which is caught (`ErrPKCanNotBeNull`) only if the column is
part of the primary key (as `CREATE TABLE` demands) -/
def AutoInPk (s : Schema) (k : InsKind) : Prop :=
  k ≠ .upsert ∨ ∀ (c : Nat) (cs : ColSpec), s.cols[c]? = some cs → cs.autoInc = true →
    cs.notNull = true → c ∈ s.pk

theorem insRow_notNull {s : Schema} {k : InsKind} {cols : List Nat} {vals : List Val} {db db' : DB}
    (ha : AutoInPk s k) (hn : notNullOK s db) (h : insRow s k cols vals db = .ok db') :
    notNullOK s db' := by
  obtain ⟨row, db1, must, spec, pv, hb, hpv, hany, hres⟩ := insRow_ok h
  obtain ⟨hsd, hrow⟩ := build_spec k spec _ _ _ _ _ _ _ hb
  have h1 : notNullOK s db1 := notNull_congr hsd.1 hn
  rcases hres with rfl | hres
  · exact h1
  · intro r hr c cs hc hnn hnull
    rcases (doUpsert_spec hres).mem r hr with hold | rfl
    · exact h1 r hold c cs hc hnn hnull
    · obtain ⟨hk, hai⟩ := hrow c cs hc hnn hnull
      rcases ha with hne | hpk
      · exact hne hk
      · have hmem := pick_mem hpv (hpk c cs hc hai hnn) hnull
        have : pv.any (· == Val.null) = true := List.any_eq_true.2 ⟨_, hmem, by simp⟩
        rw [hany] at this; cases this

theorem exec_ins_notNull {s : Schema} {k : InsKind} {cols : List Nat} {rows : List (List Val)}
    {db db' : DB} (ha : AutoInPk s k) (hn : notNullOK s db)
    (he : exec s db (.ins k cols rows) = .ok db') : notNullOK s db' := by
  simp only [exec] at he
  exact foldlM_inv (notNullOK s) (fun d vals d' hd hstep => insRow_notNull ha hd hstep) hn he

-- ---------------------------------------------------------------- transaction programs

/-- the part of `Inv0` that does not mention the per-transaction bookkeeping -/
structure InvC (s : Schema) (db : DB) : Prop where
  keys : keysOK s db
  pk : pkUnique s db
  len : lengthsOK s db
  auto : autoOK s db

theorem inv0_toC {s : Schema} {db : DB} (h : Inv0 s db) : InvC s db := ⟨h.keys, h.pk, h.len, h.auto⟩

theorem beginTx_inv0 {s : Schema} {db db0 : DB} (h : InvC s db) (hb : beginTx s db = .ok db0) :
    Inv0 s db0 := by
  unfold beginTx at hb
  obtain ⟨ks, hks, hb⟩ := bind_ok hb
  simp only [pure, Except.pure, Except.ok.injEq] at hb
  subst hb
  refine ⟨h.keys, h.pk, h.len, h.auto, ?_⟩
  intro r hr x hx
  obtain ⟨y, hy, hry⟩ := mapM_ok_forall hks r hr
  rw [hx] at hry; cases hry; exact hy

/-- invariant of a session -/
structure SessInv (sc : Schema) (s : Sess) : Prop where
  committed : InvC sc s.committed
  tx : ∀ t, s.tx = some t → Inv0 sc t.db

theorem sessInv_init (sc : Schema) : SessInv sc {} := by
  refine ⟨⟨?_, ?_, ?_, ?_⟩, ?_⟩
  · intro r hr; cases hr
  · intro ks hks
    have : ks = [] := by
      have h : List.mapM (pkEnc sc) ([] : List Row) = .ok [] := mapM_nil _
      rw [h] at hks; cases hks; rfl
    subst this; exact List.nodup_nil
  · intro r hr; cases hr
  · intro r hr; cases hr
  · intro t ht; cases ht

theorem step_sessInv {sc : Schema} {s : Sess} (o : Op) (h : SessInv sc s) :
    SessInv sc (step sc s o).1 := by
  obtain ⟨hc, ht⟩ := h
  cases o with
  | begin =>
    simp only [step]
    cases htx : s.tx with
    | some t => exact ⟨hc, ht⟩
    | none =>
      simp only
      cases hb : beginTx sc s.committed with
      | error e => exact ⟨hc, ht⟩
      | ok db =>
        refine ⟨hc, ?_⟩
        intro t ht'
        simp only [Option.some.injEq] at ht'
        subst ht'
        exact beginTx_inv0 hc hb
  | stmt st =>
    simp only [step]
    cases htx : s.tx with
    | none => exact ⟨hc, ht⟩
    | some t =>
      simp only
      cases he : exec sc t.db st with
      | error e => exact ⟨hc, by intro t' ht'; cases ht'⟩
      | ok db =>
        refine ⟨hc, ?_⟩
        intro t' ht'
        simp only [Option.some.injEq] at ht'
        subst ht'
        exact exec_inv0 (ht t htx) he
  | savepoint n =>
    simp only [step]
    cases htx : s.tx with
    | none => exact ⟨hc, ht⟩
    | some t =>
      refine ⟨hc, ?_⟩
      intro t' ht'
      simp only [Option.some.injEq] at ht'
      subst ht'
      exact ht t htx
  | rollbackTo n =>
    simp only [step]
    cases htx : s.tx with
    | none => exact ⟨hc, ht⟩
    | some t =>
      simp only
      cases hf : spsFind n t.sps with
      | none => exact ⟨hc, by intro t' ht'; cases ht'⟩
      | some c =>
        refine ⟨hc, ?_⟩
        intro t' ht'
        simp only [Option.some.injEq] at ht'
        subst ht'
        have h0 := ht t htx
        exact ⟨h0.keys, h0.pk, h0.len, h0.auto, h0.known⟩
  | release n =>
    simp only [step]
    cases htx : s.tx with
    | none => exact ⟨hc, ht⟩
    | some t =>
      simp only
      cases hf : spsFind n t.sps with
      | none => exact ⟨hc, by intro t' ht'; cases ht'⟩
      | some c =>
        refine ⟨hc, ?_⟩
        intro t' ht'
        simp only [Option.some.injEq] at ht'
        subst ht'
        exact ht t htx
  | commit =>
    simp only [step]
    cases htx : s.tx with
    | none => exact ⟨hc, ht⟩
    | some t => exact ⟨inv0_toC (ht t htx), by intro t' ht'; cases ht'⟩
  | rollback =>
    simp only [step]
    cases htx : s.tx with
    | none => exact ⟨hc, ht⟩
    | some t => exact ⟨hc, by intro t' ht'; cases ht'⟩

theorem run_sessInv {sc : Schema} : ∀ (ops : List Op) {s : Sess}, SessInv sc s →
    SessInv sc (run sc s ops).1
  | [], _, h => h
  | o :: os, s, h => by
    simp only [run]
    exact run_sessInv os (step_sessInv o h)

theorem inv0_empty (s : Schema) : Inv0 s {} := by
  obtain ⟨h1, h2, h3, h4⟩ := (sessInv_init s).committed
  exact ⟨h1, h2, h3, h4, fun r hr => by cases hr⟩

theorem reachable_inv0 (sc : Schema) (ops : List Op) (db0 : DB)
    (h : beginTx sc (run sc {} ops).1.committed = .ok db0) : Inv0 sc db0 :=
  beginTx_inv0 (run_sessInv ops (sessInv_init sc)).committed h

theorem stmt_fail (sc : Schema) (s : Sess) (t : OpenTx) (st : Stmt) (e : DmlErr)
    (ht : s.tx = some t) (he : exec sc t.db st = .error e) :
    (step sc s (.stmt st)).1.committed = s.committed ∧ (step sc s (.stmt st)).1.tx = none ∧
    (step sc s (.stmt st)).2 = .error e := by
  simp only [step, ht, he, and_self]

-- ---------------------------------------------------------------- the uniqueness read

/-- the per-row function of `uniqueHit` -/
def hitF (s : Schema) (cs : List Nat) (vals self : Bytes) (r : Row) : Except DmlErr (Option Bytes) := do
  let v ← idxEnc s cs r
  let k ← pkEnc s r
  pure (if v = vals ∧ k ≠ self then some k else none)

theorem filterMapM_nil' {ε α β : Type} (f : α → Except ε (Option β)) :
    List.filterMapM f [] = .ok [] := by
  simp [pure, Except.pure]

/-- rows under another index value do not take part in the uniqueness decision -/
theorem live_filter (s : Schema) (cs : List Nat) (vals self : Bytes) : ∀ (rows : List Row),
    (∀ r, r ∈ rows → ∃ v k, idxEnc s cs r = .ok v ∧ pkEnc s r = .ok k) →
    rows.filterMapM (hitF s cs vals self) =
      (rows.filter (fun r => idxEnc s cs r == .ok vals)).filterMapM (hitF s cs vals self)
  | [], _ => rfl
  | r :: rows, h => by
    obtain ⟨v, k, hv, hk⟩ := h r List.mem_cons_self
    have ih := live_filter s cs vals self rows (fun r' hr' => h r' (List.mem_cons_of_mem _ hr'))
    by_cases hvv : v = vals
    · have hkeep : (idxEnc s cs r == Except.ok vals) = true := by simp [hv, hvv]
      rw [List.filter_cons_of_pos (p := fun r => idxEnc s cs r == Except.ok vals) hkeep, List.filterMapM_cons, List.filterMapM_cons, ih]
    · have hdrop : ¬ (idxEnc s cs r == Except.ok vals) = true := by simp [hv, hvv]
      have hF : hitF s cs vals self r = .ok none := by
        simp [hitF, hv, hk, hvv, bind, Except.bind, pure, Except.pure]
      rw [List.filter_cons_of_neg (p := fun r => idxEnc s cs r == Except.ok vals) hdrop, List.filterMapM_cons, hF, ← ih]
      rfl

theorem uniqueHit_congr (s : Schema) (db1 db2 : DB) (i : Nat) (cs : List Nat) (vals self : Bytes)
    (hsame : db1.rows.filter (fun r => idxEnc s cs r == .ok vals) =
      db2.rows.filter (fun r => idxEnc s cs r == .ok vals))
    (htomb : db1.tombs.filter (fun t => t.idx = i ∧ t.vals = vals) =
      db2.tombs.filter (fun t => t.idx = i ∧ t.vals = vals))
    (hok1 : ∀ r, r ∈ db1.rows → ∃ v k, idxEnc s cs r = .ok v ∧ pkEnc s r = .ok k)
    (hok2 : ∀ r, r ∈ db2.rows → ∃ v k, idxEnc s cs r = .ok v ∧ pkEnc s r = .ok k) :
    uniqueHit s db1 i cs vals self = uniqueHit s db2 i cs vals self := by
  have e1 := live_filter s cs vals self db1.rows hok1
  have e2 := live_filter s cs vals self db2.rows hok2
  unfold uniqueHit
  unfold hitF at e1 e2
  rw [e1, e2, hsame, htomb]

end ImmuModel.Sql.DmlMainAux
