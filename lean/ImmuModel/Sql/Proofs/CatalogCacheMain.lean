/-
C13 — proofs about the catalog cache protocol (`Sql/CatalogCache.lean`): the coherence invariant `Inv` holds
initially and is preserved by every step of the code configuration, for any number of sessions.
-/
import ImmuModel.Sql.CatalogCache
namespace ImmuModel.Sql.CatCache.MainAux
open ImmuModel.Sql.CatCache

theorem mem_eraseTx {sid : Nat} {p : Nat × Tx} {l : List (Nat × Tx)} (h : p ∈ eraseTx sid l) : p ∈ l :=
  (List.mem_filter.mp h).1

theorem mem_setTx {sid : Nat} {t : Tx} {p : Nat × Tx} {l : List (Nat × Tx)} (h : p ∈ setTx sid t l) :
    p = (sid, t) ∨ p ∈ l := by
  unfold setTx at h
  rcases List.mem_cons.mp h with h | h
  · exact Or.inl h
  · exact Or.inr (mem_eraseTx h)

theorem findTx_mem {sid : Nat} {t : Tx} {l : List (Nat × Tx)} (h : findTx sid l = some t) :
    ∃ p, p ∈ l ∧ p.2 = t := by
  unfold findTx at h
  cases hf : l.find? (fun p => p.1 == sid) with
  | none => rw [hf] at h; cases h
  | some p =>
    rw [hf] at h
    have : p.2 = t := by simpa using h
    exact ⟨p, List.mem_of_find?_eq_some hf, this⟩

theorem txok_congr {e e' : Eng} {t : Tx} (hv : e'.ver = e.ver) (hc : e'.committed = e.committed)
    (h : TxOK e t) : TxOK e' t := by
  unfold TxOK at *
  rw [hv, hc]
  exact h

theorem inv_init : Inv {} := by
  refine ⟨?_, ?_⟩
  · intro c h; cases h
  · intro p h; cases h

/-- dropping transactions keeps the invariant -/
theorem inv_erase {e : Eng} (sid : Nat) (h : Inv e) : Inv { e with txs := eraseTx sid e.txs } := by
  refine ⟨h.1, ?_⟩
  intro p hp
  exact txok_congr rfl rfl (h.2 p (mem_eraseTx hp))

theorem inv_tryPopulate {e : Eng} {cat openVer : Nat} (h : Inv e)
    (hc : openVer = e.ver → cat = e.committed) : Inv (tryPopulate codeCfg e cat openVer) := by
  unfold tryPopulate
  split
  · exact h
  · split
    · exact h
    · rename_i hne
      have hv : e.ver = openVer := by
        simp [codeCfg] at hne
        exact hne
      refine ⟨?_, ?_⟩
      · intro c hcache
        simp at hcache
        rw [← hcache]
        exact hc hv.symm
      · intro p hp
        exact txok_congr rfl rfl (h.2 p hp)

theorem step_inv (e : Eng) (op : Op) (h : Inv e) : Inv (step codeCfg e op).1 := by
  cases op with
  | newTx sid ro =>
    cases hf : findTx sid e.txs with
    | some t => simpa [step, hf] using h
    | none =>
      simp only [step, hf]
      cases hcache : e.cache with
      | some c =>
        have hcc : c = e.committed := h.1 c hcache
        simp only [openTx, hcache, populateRO, Bool.not_true, Bool.and_false, Bool.false_eq_true, if_false]
        refine ⟨?_, ?_⟩
        · intro c1 hc1
          simp at hc1
          rw [← hc1]
          exact hcc
        · intro p hp
          rcases mem_setTx hp with rfl | hp
          · exact ⟨Nat.le_refl _, fun _ _ => hcc⟩
          · exact txok_congr rfl rfl (h.2 p hp)
      | none =>
        simp only [openTx, hcache, populateRO]
        cases ro with
        | false =>
          simp only [Bool.false_and, Bool.false_eq_true, if_false]
          refine ⟨?_, ?_⟩
          · intro c1 hc1
            exact h.1 c1 hc1
          · intro p hp
            rcases mem_setTx hp with rfl | hp
            · exact ⟨Nat.le_refl _, fun _ _ => rfl⟩
            · exact txok_congr rfl rfl (h.2 p hp)
        | true =>
          simp only [Bool.not_false, Bool.and_self, if_true]
          refine ⟨?_, ?_⟩
          · intro c hc
            simp at hc
            exact hc.symm
          · intro p hp
            rcases mem_setTx hp with rfl | hp
            · exact ⟨Nat.le_refl _, fun _ _ => rfl⟩
            · exact txok_congr rfl rfl (h.2 p hp)
  | ddl sid =>
    cases hf : findTx sid e.txs with
    | none => simpa [step, hf] using h
    | some t =>
      simp only [step, hf]
      obtain ⟨p0, hp0, rfl⟩ := findTx_mem hf
      split
      · exact h
      · refine ⟨h.1, ?_⟩
        intro p hp
        rcases mem_setTx hp with rfl | hp
        · exact ⟨(h.2 p0 hp0).1, fun hm => by simp at hm⟩
        · exact txok_congr rfl rfl (h.2 p hp)
  | dml sid =>
    cases hf : findTx sid e.txs with
    | none => simpa [step, hf] using h
    | some t =>
      simp only [step, hf]
      obtain ⟨p0, hp0, rfl⟩ := findTx_mem hf
      split
      · exact h
      · refine ⟨h.1, ?_⟩
        intro p hp
        rcases mem_setTx hp with rfl | hp
        · exact ⟨(h.2 p0 hp0).1, (h.2 p0 hp0).2⟩
        · exact txok_congr rfl rfl (h.2 p hp)
  | commit sid =>
    cases hf : findTx sid e.txs with
    | none => simpa [step, hf] using h
    | some t =>
      simp only [step, hf]
      obtain ⟨p0, hp0, rfl⟩ := findTx_mem hf
      split
      · exact h
      · split
        · exact inv_erase sid h
        · split
          · -- DDL commit: generation + 1, cache cleared, version + 1
            simp only [codeCfg, if_true, invalidate, Bool.true_or]
            refine ⟨?_, ?_⟩
            · intro c hc; cases hc
            · intro p hp
              have hk := h.2 p (mem_eraseTx hp)
              refine ⟨Nat.le_succ_of_le hk.1, ?_⟩
              intro _ hv
              have := hk.1
              simp at hv
              omega
          · rename_i hm
            have hk := h.2 p0 hp0
            have hm' : p0.2.mutated = false := by
              cases hmm : p0.2.mutated with
              | false => rfl
              | true => exact absurd hmm hm
            exact inv_tryPopulate (inv_erase sid h) (fun hv => hk.2 hm' hv)
  | cancel sid =>
    cases hf : findTx sid e.txs with
    | none => simpa [step, hf] using h
    | some t => simpa [step, hf] using inv_erase sid h
  | reopen =>
    simp only [step]
    refine ⟨?_, ?_⟩
    · intro c hc; cases hc
    · intro p hp; cases hp

theorem run_inv (ops : List Op) (e : Eng) (h : Inv e) : Inv (run codeCfg e ops).1 := by
  induction ops generalizing e with
  | nil => exact h
  | cons o os ih =>
    unfold run
    exact ih _ (step_inv e o h)

/-- with a coherent cache a new transaction sees the committed generation -/
theorem fresh_of_inv (e : Eng) (h : Inv e) : e.fresh = e.committed := by
  unfold Eng.fresh openTx
  cases hc : e.cache with
  | none => rfl
  | some c => exact h.1 c hc

/-- the committed generation never decreases, whatever the configuration -/
theorem step_committed_mono (cfg : Cfg) (e : Eng) (op : Op) : e.committed ≤ (step cfg e op).1.committed := by
  cases op with
  | newTx sid ro =>
    cases hf : findTx sid e.txs with
    | some t => simp [step, hf]
    | none =>
      cases hc : e.cache <;> cases ro <;> simp [step, hf, openTx, populateRO, hc]
  | ddl sid =>
    cases hf : findTx sid e.txs with
    | none => simp [step, hf]
    | some t => simp only [step, hf]; split <;> exact Nat.le_refl _
  | dml sid =>
    cases hf : findTx sid e.txs with
    | none => simp [step, hf]
    | some t => simp only [step, hf]; split <;> exact Nat.le_refl _
  | commit sid =>
    cases hf : findTx sid e.txs with
    | none => simp [step, hf]
    | some t =>
      simp only [step, hf]
      split
      · exact Nat.le_refl _
      · split
        · exact Nat.le_refl _
        · split
          · split
            · unfold invalidate; split <;> simp
            · simp
          · unfold tryPopulate; split
            · exact Nat.le_refl _
            · split <;> exact Nat.le_refl _
  | cancel sid =>
    cases hf : findTx sid e.txs with
    | none => simp [step, hf]
    | some t => simp [step, hf]
  | reopen => simp [step]

theorem run_committed_mono (cfg : Cfg) (ops : List Op) (e : Eng) : e.committed ≤ (run cfg e ops).1.committed := by
  induction ops generalizing e with
  | nil => exact Nat.le_refl _
  | cons o os ih =>
    unfold run
    exact Nat.le_trans (step_committed_mono cfg e o) (ih _)

end ImmuModel.Sql.CatCache.MainAux
