/-
C12 — which schema a transaction checks its statements against (added after seeded change c12-b).

`Sql/Dml.lean` executes a statement under ONE `Schema`; `Sql/CatalogCache.lean` (C13) says which catalog
GENERATION a transaction obtains from `Engine.NewTx` (engine-wide cache / clone / load).  This file joins the two:
the schema of the table at every committed catalog generation is a history `Hist`, and the statements of a
transaction run under the schema of the generation its catalog has (`SQLTx.catalog` is fixed at `NewTx`:
`UpsertIntoStmt.execAt` resolves `tx.catalog.GetTableByName`, and the UNIQUE / NOT NULL / CHECK tests are
loops over THAT table object's `indexes`, `cols`, `checkConstraints`).  A constraint the persisted catalog
declares is therefore enforced by a transaction only if the transaction's generation is the committed one.
Core Lean only.
-/
import ImmuModel.Sql.CatalogCache
import ImmuModel.Sql.Dml
namespace ImmuModel.Sql.CatDml
open ImmuModel ImmuModel.Sql

/-- the table's schema at every committed catalog generation (generation = number of DDL transactions committed) -/
abbrev Hist := Nat → Schema

/-- the schema the statements of a transaction are checked against -/
def txSchema (h : Hist) (t : CatCache.Tx) : Schema := h t.cat

/-- a statement executed inside the open transaction of session `sid` (none: no such transaction) -/
def execIn (h : Hist) (e : CatCache.Eng) (sid : Nat) (db : DB) (st : Stmt) : Option (Except DmlErr DB) :=
  (CatCache.findTx sid e.txs).map (fun t => exec (txSchema h t) db st)

/-- one row written through `doUpsert` inside the open transaction of session `sid` -/
def upsertIn (h : Hist) (e : CatCache.Eng) (sid : Nat) (db : DB) (row : Row) (reuse : Bool) :
    Option (Except DmlErr DB) :=
  (CatCache.findTx sid e.txs).map (fun t => doUpsert (txSchema h t) db row reuse)

end ImmuModel.Sql.CatDml
