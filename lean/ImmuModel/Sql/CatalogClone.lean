/-
C13 — the catalog of a read-write transaction is a CLONE of the engine's cached catalog
(`embedded/sql/engine.go NewTx`: `catalog = cached.Clone()`; `catalog.go Catalog.Clone`, `cloneTable`).

`Sql/CatalogCache.lean` identifies a catalog with a generation number and takes for granted that what a transaction's DDL
does to ITS catalog stays private until COMMIT.  That is a fact about `cloneTable`, not about the cache protocol: Go maps and
slices are references, DDL statements mutate them in place (`delete(t.checkConstraints, name)`, `delete(t.colsByName, …)`,
`t.indexes = newIndexes`, `append`, …), so a per-table container that the clone SHARES with its source is changed in the
cached catalog — and in every clone taken of it — the moment an open transaction executes DDL, whether it commits or not.

Model.  A heap of containers (`Heap`: reference = index, content = list of entry ids); a table = one reference per
container-typed field (map / slice) of `Table`, in declaration order; `cloneTable flags` gives the clone a freshly allocated
copy of the container of field i when `flags[i]` (the literal `&Table{ f: make(…) }` + the loop that fills it) and the source's
reference otherwise (`f: t.f`).  A DDL statement of the transaction (`Mut`) replaces the content of one container reachable
from ITS catalog.  `view` = what a session working with a catalog observes (the contents).
The flags of the code as it is are extracted from the source tree (`Gen.C13.tableContainerRebuilt`, extract/c13.go).
The Column / Index OBJECTS of a clone are new ones (`nc := *c … &nc`, `ni := &Index{…}`: literal facts compared in
`Props/C13.lean clone_facts_match_code`); their scalar fields are copied by value and are not part of this model.
Core Lean only.
-/
namespace ImmuModel.Sql.CatClone

structure Heap where
  cells : List (List Nat) := []
  deriving Repr, DecidableEq

/-- content of a container; a reference that was never allocated reads as the empty container (nil map) -/
def Heap.get (h : Heap) (r : Nat) : List Nat := (h.cells[r]?).getD []

/-- `make(…)` + fill: a new container holding `v` -/
def Heap.alloc (h : Heap) (v : List Nat) : Heap × Nat := ({ cells := h.cells ++ [v] }, h.cells.length)

/-- in-place mutation of the container behind a reference -/
def Heap.set (h : Heap) (r : Nat) (v : List Nat) : Heap := { cells := h.cells.set r v }

/-- one reference per container-typed field of `Table` -/
abbrev Table := List Nat

/-- `cloneTable`: field by field, rebuilt (`true`) or shared with the source (`false`; also when no fact exists for the field) -/
def cloneTable : List Bool → Heap → Table → Heap × Table
  | b :: bs, h, r :: rs =>
    if b then
      let p := h.alloc (h.get r)
      let q := cloneTable bs p.1 rs
      (q.1, p.2 :: q.2)
    else
      let q := cloneTable bs h rs
      (q.1, r :: q.2)
  | _, h, rs => (h, rs)

/-- `Catalog.Clone`: every table through `cloneTable` -/
def cloneCatalog (bs : List Bool) : Heap → List Table → Heap × List Table
  | h, [] => (h, [])
  | h, t :: ts =>
    let p := cloneTable bs h t
    let q := cloneCatalog bs p.1 ts
    (q.1, p.2 :: q.2)

def viewT (h : Heap) (t : Table) : List (List Nat) := t.map h.get

/-- what a session that works with catalog `c` observes -/
def view (h : Heap) (c : List Table) : List (List (List Nat)) := c.map (viewT h)

/-- a DDL statement of a transaction: new content `v` for container `fld` of table `tbl` OF THE TRANSACTION'S CATALOG -/
structure Mut where
  tbl : Nat
  fld : Nat
  v : List Nat
  deriving Repr, DecidableEq

def applyMut (cat : List Table) (h : Heap) (m : Mut) : Heap :=
  match cat[m.tbl]? with
  | none => h
  | some t =>
    match t[m.fld]? with
    | none => h
    | some r => h.set r m.v

def applyMuts (cat : List Table) (h : Heap) (ms : List Mut) : Heap := ms.foldl (applyMut cat) h

/-- every reference of the catalog is allocated -/
def WF (h : Heap) (c : List Table) : Prop := ∀ t, t ∈ c → ∀ r, r ∈ t → r < h.cells.length

instance (h : Heap) (c : List Table) : Decidable (WF h c) := by
  unfold WF
  exact inferInstance

/-- the flags of the code: one per container-typed field of `Table` (facts of the extractor) -/
def flagsOf (facts : List (String × Bool)) : List Bool := facts.map (·.2)

end ImmuModel.Sql.CatClone
