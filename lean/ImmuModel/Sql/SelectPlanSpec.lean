/-
Specification vocabulary for the planner theorems of C11 (no code mirrored here): what it means for a
list of rows to be ordered by an ORDER BY list, and the flag-forgetting map on results of the flagged
range walk.
-/
import ImmuModel.Sql.SelectPlan
import ImmuModel.Sql.QuerySpec
namespace ImmuModel.Sql
open ImmuModel

/-- `a` may precede `b` in an output ordered by the ORDER BY list `o` -/
def ordLe (o : List OrdCol) (a b : Row) : Prop := ∃ c, ordCmp o a b = .ok c ∧ c ≤ 0

/-- a result mapped through `f` (errors are kept) -/
def exceptMap {α β : Type} (f : α → β) : Except EvalErr α → Except EvalErr β
  | .ok x => .ok (f x)
  | .error e => .error e

/-- the same query without LIMIT / OFFSET -/
def PQuery.unlimited (q : PQuery) : PQuery := { q with limit := 0, offset := 0 }

end ImmuModel.Sql
