/-
C13 — transaction programs over the DML model of C12, as `embedded/sql/sql_tx.go` and
`Engine.execPreparedStmts` run them, and a reference interpreter (`Spec`) with textbook semantics.

Code side (`step`):
* one store transaction per SQL transaction: all statements write into the pending `DB`; COMMIT
  publishes it, ROLLBACK / a failing statement / a closed session drop it (`currTx.Cancel()`);
* `SQLTx.Savepoint(name)` stores the COUNTERS only (`updatedRows`, `lastInsertedPKs`,
  `firstInsertedPKs`) in a map keyed by name (a second SAVEPOINT with the same name overwrites);
* `SQLTx.RollbackToSavepoint(name)` restores those counters and DELETES THE NAMED SAVEPOINT; the
  writes made since stay in the store transaction (finding K1); savepoints created later survive;
* `ReleaseSavepoint(name)` deletes the entry; an unknown name is an error; every error of a statement
  cancels the whole transaction (`execPreparedStmts`).

Spec side (`Spec.step`): savepoint = copy of the pending state; ROLLBACK TO restores it, destroys the
savepoints created after it and keeps the named one; RELEASE destroys the named one and the later
ones.  Core Lean only.
-/
import ImmuModel.Sql.Dml
namespace ImmuModel.Sql
open ImmuModel

inductive Op
  | begin
  | stmt (s : Stmt)
  | savepoint (n : String)
  | rollbackTo (n : String)
  | release (n : String)
  | commit
  | rollback
  deriving Repr

/-- what `SQLTx.Savepoint` remembers -/
structure SavedCounters where
  updated : Nat
  lastPK : Option Int
  firstPK : Option Int
  deriving Repr

structure OpenTx where
  db : DB
  sps : List (String × SavedCounters)     -- the Go map, as an association list (latest binding first)
  deriving Repr

structure Sess where
  committed : DB := {}
  tx : Option OpenTx := none
  deriving Repr

/-- observable result of one operation: updatedRows of the open (or just committed) transaction -/
abbrev Outcome := Except DmlErr Nat

def spsErase (n : String) : List (String × SavedCounters) → List (String × SavedCounters)
  | [] => []
  | (k, v) :: rest => if k = n then spsErase n rest else (k, v) :: spsErase n rest

def spsFind (n : String) : List (String × SavedCounters) → Option SavedCounters
  | [] => none
  | (k, v) :: rest => if k = n then some v else spsFind n rest

/-- the committed view a new transaction starts from: per-transaction fields are reset by `beginTx` -/
def step (sc : Schema) (s : Sess) : Op → Sess × Outcome
  | .begin =>
    match s.tx with
    | some _ => (s, .error .outOfModel)           -- nested BEGIN is not generated
    | none =>
      match beginTx sc s.committed with
      | .error e => (s, .error e)
      | .ok db => ({ s with tx := some { db := db, sps := [] } }, .ok 0)
  | .stmt st =>
    match s.tx with
    | none => (s, .error .noTx)
    | some t =>
      match exec sc t.db st with
      | .error e => ({ s with tx := none }, .error e)       -- the statement error cancels the tx
      | .ok db => ({ s with tx := some { t with db := db } }, .ok db.updated)
  | .savepoint n =>
    match s.tx with
    | none => (s, .error .noTx)
    | some t =>
      let c : SavedCounters := { updated := t.db.updated, lastPK := t.db.lastPK, firstPK := t.db.firstPK }
      ({ s with tx := some { t with sps := (n, c) :: spsErase n t.sps } }, .ok t.db.updated)
  | .rollbackTo n =>
    match s.tx with
    | none => (s, .error .noTx)
    | some t =>
      match spsFind n t.sps with
      | none => ({ s with tx := none }, .error .noSavepoint)
      | some c =>
        let db := { t.db with updated := c.updated, lastPK := c.lastPK, firstPK := c.firstPK }
        ({ s with tx := some { db := db, sps := spsErase n t.sps } }, .ok c.updated)
  | .release n =>
    match s.tx with
    | none => (s, .error .noTx)
    | some t =>
      match spsFind n t.sps with
      | none => ({ s with tx := none }, .error .noSavepoint)
      | some _ => ({ s with tx := some { t with sps := spsErase n t.sps } }, .ok t.db.updated)
  | .commit =>
    match s.tx with
    | none => (s, .error .noTx)
    | some t => ({ committed := t.db, tx := none }, .ok t.db.updated)
  | .rollback =>
    match s.tx with
    | none => (s, .error .noTx)
    | some _ => ({ s with tx := none }, .ok 0)

def run (sc : Schema) (s : Sess) : List Op → Sess × List Outcome
  | [] => (s, [])
  | o :: os =>
    let (s1, r) := step sc s o
    let (s2, rs) := run sc s1 os
    (s2, r :: rs)

/-- rows an observer outside any transaction sees -/
def Sess.visible (s : Sess) : List Row := s.committed.rows

/-- rows the session itself sees inside its transaction -/
def Sess.ownView (s : Sess) : List Row :=
  match s.tx with
  | some t => t.db.rows
  | none => s.committed.rows

-- ---------------------------------------------------------------- reference interpreter

namespace Spec

structure OpenTx where
  db : DB
  sps : List (String × DB)          -- stack, most recent first; savepoint = copy of the pending state

structure Sess where
  committed : DB := {}
  tx : Option OpenTx := none

/-- drop the savepoints created after the most recent one called `n`; `none` if there is none -/
def cutTo (n : String) : List (String × DB) → Option (List (String × DB))
  | [] => none
  | (k, v) :: rest => if k = n then some ((k, v) :: rest) else cutTo n rest

def step (sc : Schema) (s : Sess) : Op → Sess × Outcome
  | .begin =>
    match s.tx with
    | some _ => (s, .error .outOfModel)
    | none =>
      match beginTx sc s.committed with
      | .error e => (s, .error e)
      | .ok db => ({ s with tx := some { db := db, sps := [] } }, .ok 0)
  | .stmt st =>
    match s.tx with
    | none => (s, .error .noTx)
    | some t =>
      match exec sc t.db st with
      | .error e => ({ s with tx := none }, .error e)
      | .ok db => ({ s with tx := some { t with db := db } }, .ok db.updated)
  | .savepoint n =>
    match s.tx with
    | none => (s, .error .noTx)
    | some t => ({ s with tx := some { t with sps := (n, t.db) :: t.sps } }, .ok t.db.updated)
  | .rollbackTo n =>
    match s.tx with
    | none => (s, .error .noTx)
    | some t =>
      match cutTo n t.sps with
      | none => ({ s with tx := none }, .error .noSavepoint)
      | some ((_, saved) :: rest) => ({ s with tx := some { db := saved, sps := (n, saved) :: rest } }, .ok saved.updated)
      | some [] => ({ s with tx := none }, .error .noSavepoint)
  | .release n =>
    match s.tx with
    | none => (s, .error .noTx)
    | some t =>
      match cutTo n t.sps with
      | none => ({ s with tx := none }, .error .noSavepoint)
      | some (_ :: rest) => ({ s with tx := some { t with sps := rest } }, .ok t.db.updated)
      | some [] => ({ s with tx := none }, .error .noSavepoint)
  | .commit =>
    match s.tx with
    | none => (s, .error .noTx)
    | some t => ({ committed := t.db, tx := none }, .ok t.db.updated)
  | .rollback =>
    match s.tx with
    | none => (s, .error .noTx)
    | some _ => ({ s with tx := none }, .ok 0)

def run (sc : Schema) (s : Sess) : List Op → Sess × List Outcome
  | [] => (s, [])
  | o :: os =>
    let (s1, r) := step sc s o
    let (s2, rs) := run sc s1 os
    (s2, r :: rs)

end Spec

/-- programs without ROLLBACK TO SAVEPOINT -/
def Op.isRollbackTo : Op → Bool
  | .rollbackTo _ => true
  | _ => false

end ImmuModel.Sql
