/-
Specification vocabulary for the C12 / C13 theorems (nothing of the code is mirrored here).
-/
import ImmuModel.Sql.TxProg
namespace ImmuModel.Sql
open ImmuModel

/-- `tx.get` finds the key of every live row (holds after `beginTx`, kept by `exec`) -/
def knownOK (s : Schema) (db : DB) : Prop :=
  ∀ row, row ∈ db.rows → ∀ k, pkEnc s row = .ok k → k ∈ db.known

/-- every live row has an encodable primary key without NULL -/
def keysOK (s : Schema) (db : DB) : Prop :=
  ∀ row, row ∈ db.rows → ∃ k, pkEnc s row = .ok k

/-- the part of the integrity invariant the code DOES maintain -/
structure Inv0 (s : Schema) (db : DB) : Prop where
  keys : keysOK s db
  pk : pkUnique s db
  len : lengthsOK s db
  auto : autoOK s db
  known : knownOK s db

/-- the full integrity invariant of the property statement -/
structure Inv (s : Schema) (db : DB) : Prop extends Inv0 s db where
  unique : uniqueOK s db
  notNull : notNullOK s db

/-- the statement is an INSERT-family statement (the path on which NOT NULL is enforced) -/
def Stmt.isIns : Stmt → Bool
  | .ins .. => true
  | _ => false

def Op.isSavepointOp : Op → Bool
  | .savepoint _ | .rollbackTo _ | .release _ => true
  | _ => false

def Op.isCommit : Op → Bool
  | .commit => true
  | _ => false

end ImmuModel.Sql
