/-
C15 — model of the SQL index-key codec of `embedded/sql/catalog.go`:
`EncodeRawValueAsKey` / `DecodeValueFromKey`, and of the `Compare` methods of the typed values
(`embedded/sql/stmt.go`) the key order has to agree with.

Modelled domain: the raw value's dynamic Go type matches the column type (or is NULL), so that
`mayApplyImplicitConversion` is the identity; anything else is `Err.outOfModel` (never sent by
the harness, no theorem is about it).  JSON columns are not key-encodable (`ErrInvalidValue`).

Representation of Go values
* `string`, `[]byte`, `uuid.UUID`  — byte lists (a UUID has 16 bytes: `ValidKey`)
* `int64`                          — `Int` in `[-2^63, 2^63)`
* `float64`                        — its IEEE-754 bit pattern `math.Float64bits` as `Nat < 2^64`
* `time.Time`                      — the instant `(sec, nsec)`, `nsec < 10^9` (`t.Unix()`, `t.Nanosecond()`)
Core Lean only (used by the executable driver).
-/
import ImmuModel.Base.Bytes
import ImmuModel.Base.Lex
import ImmuModel.Base.GoInt
import ImmuModel.Gen.Consts
import ImmuModel.Gen.C15
namespace ImmuModel.Sql
open ImmuModel ImmuModel.GoInt

inductive SqlType
  | varchar | integer | boolean | blob | uuid | timestamp | float64 | json
  deriving DecidableEq, Repr

inductive Val
  | null
  | str (s : Bytes)
  | int (i : Int)
  | bool (b : Bool)
  | blob (b : Bytes)
  | uuid (u : Bytes)
  | ts (sec : Int) (nsec : Nat)
  | float (bits : Nat)
  deriving DecidableEq, Repr

/-- Error classes (`errors.Is` targets in `embedded/sql`). -/
inductive Err
  | invalidValue        -- ErrInvalidValue
  | maxKeyLenExceeded   -- ErrMaxKeyLengthExceeded
  | maxLenExceeded      -- ErrMaxLengthExceeded
  | corrupted           -- ErrCorruptedData
  | notComparable       -- ErrNotComparableValues
  | outOfModel          -- outside the modelled domain (see header)
  deriving DecidableEq, Repr

def tagNull : UInt8 := UInt8.ofNat Gen.sqlKeyValPrefixNull
def tagNotNull : UInt8 := UInt8.ofNat Gen.sqlKeyValPrefixNotNull
def encLenLen : Nat := Gen.sqlEncLenLen

/-- `make([]byte, n)` then `copy(_, s)`: `s` followed by zero padding up to `n` bytes. -/
def padTo (n : Nat) (s : Bytes) : Bytes := s ++ List.replicate (n - s.length) 0

/-- `encv[1] ^= 0x80` on the 8 value bytes. -/
def flipSign : Bytes → Bytes
  | [] => []
  | b :: r => (b ^^^ 0x80) :: r

/-- `for i … { encv[i] = ^encv[i] }`. -/
def complAll (bs : Bytes) : Bytes := bs.map (fun b => ~~~ b)

/-- `encv[1] & 0x80 != 0`. -/
def hasSignBit : Bytes → Bool
  | [] => false
  | b :: _ => (b &&& 0x80) != 0

/-- `timeVal.UnixNano()`: `sec*1e9 + nsec` in int64 arithmetic (wraps outside 1678–2262). -/
def unixNano (sec : Int) (nsec : Nat) : Int := wrap64 (sec * 1000000000 + (nsec : Int))

/-- Float64 branch of the key encoder on the 8 big-endian bytes of the bit pattern. -/
def mangleFloat (raw : Bytes) : Bytes :=
  if hasSignBit raw then complAll raw else flipSign raw

/-- Float64 branch of the key decoder. -/
def unmangleFloat (raw : Bytes) : Bytes :=
  if hasSignBit raw then flipSign raw else complAll raw

/-- `EncodeRawValueAsKey(val, colType, maxLen)`: encoded key and the second result `n`. -/
def encodeKey (v : Val) (ty : SqlType) (maxLen : Int) (maxKeyLen : Nat := Gen.sqlMaxKeyLen) :
    Except Err (Bytes × Nat) :=
  if maxLen ≤ 0 then .error .invalidValue
  else if maxLen > (maxKeyLen : Int) then .error .maxKeyLenExceeded
  else
    let n := maxLen.toNat
    match ty, v with
    | _, .null => .ok ([tagNull], 0)
    | .varchar, .str s =>
      if s.length > n then .error .maxLenExceeded
      else .ok (tagNotNull :: (padTo n s ++ beN encLenLen s.length), s.length)
    | .integer, .int i =>
      if maxLen ≠ 8 then .error .corrupted
      else .ok (tagNotNull :: flipSign (be64 (u64 i)), 8)
    | .boolean, .bool b =>
      if maxLen ≠ 1 then .error .corrupted
      else .ok ([tagNotNull, if b then 1 else 0], 1)
    | .blob, .blob s =>
      if s.length > n then .error .maxLenExceeded
      else .ok (tagNotNull :: (padTo n s ++ beN encLenLen s.length), s.length)
    | .uuid, .uuid u => .ok (tagNotNull :: u, 16)
    | .timestamp, .ts sec nsec =>
      if maxLen ≠ 8 then .error .corrupted
      else .ok (tagNotNull :: flipSign (be64 (u64 (unixNano sec nsec))), 8)
    | .float64, .float bits => .ok (tagNotNull :: mangleFloat (be64 bits), 8)
    | _, _ => .error .outOfModel

/-- `DecodeValueFromKey(buf, colType, maxLen)`: decoded value and number of bytes consumed.
All slice expressions of the Go function are guarded by the preceding length tests, so
`take`/`drop` coincide with the Go slices on every path that reaches them
(for `maxLen < 2^62`; beyond that `1+maxLen+EncLenLen` overflows `int`: `outOfModel`). -/
def decodeKey (buf : Bytes) (ty : SqlType) (maxLen : Int) : Except Err (Val × Nat) :=
  if maxLen ≤ 0 then .error .invalidValue
  else if maxLen ≥ 4611686018427387904 then .error .outOfModel
  else
    match buf with
    | [] => .error .corrupted
    | tag :: rest =>
      if tag = tagNull then .ok (.null, 1)
      else if tag ≠ tagNotNull then .error .corrupted
      else
        let n := maxLen.toNat
        match ty with
        | .varchar =>
          let need := 1 + n + encLenLen
          if buf.length < need then .error .corrupted
          else
            let strLen := beVal ((rest.drop n).take encLenLen)
            if strLen > n then .error .corrupted
            else .ok (.str (rest.take strLen), need)
        | .integer =>
          if maxLen ≠ 8 then .error .corrupted
          else if buf.length < 9 then .error .corrupted
          else .ok (.int (i64 (beVal (flipSign (rest.take 8)))), 9)
        | .boolean =>
          if maxLen ≠ 1 then .error .corrupted
          else match rest with
            | [] => .error .corrupted
            | b :: _ => .ok (.bool (b != 0), 2)
        | .blob =>
          let need := 1 + n + encLenLen
          if buf.length < need then .error .corrupted
          else
            let blobLen := beVal ((rest.drop n).take encLenLen)
            if blobLen > n then .error .corrupted
            else .ok (.blob (rest.take blobLen), need)
        | .uuid =>
          if maxLen ≠ 16 then .error .corrupted
          else if buf.length < 17 then .error .corrupted
          else .ok (.uuid (rest.take 16), 17)
        | .timestamp =>
          if maxLen ≠ 8 then .error .corrupted
          else if buf.length < 9 then .error .corrupted
          else
            let nanos := i64 (beVal (flipSign (rest.take 8)))
            let t := timeUnix 0 nanos
            .ok (.ts t.1 t.2, 9)
        | .float64 =>
          if maxLen ≠ 8 then .error .corrupted
          else if buf.length < 9 then .error .corrupted
          else .ok (.float (beVal (unmangleFloat (rest.take 8))), 9)
        | .json => .error .invalidValue

-- ---------------------------------------------------------------- SQL comparison

/-- IEEE-754 binary64 NaN: exponent all ones, mantissa non-zero. -/
def isNaN (bits : Nat) : Bool := bits % two63 > 0x7FF0000000000000

/-- Signed-magnitude reading of a non-NaN bit pattern; `<`/`==` on float64 values that are not
NaN is integer comparison of this key (both zeros have key 0). -/
def floatKey (bits : Nat) : Int :=
  if bits < two63 then (bits : Int) else -(((bits - two63 : Nat) : Int))

/-- `(*Float64).Compare`: `==` → 0, `>` → 1, otherwise −1 (so any NaN operand gives −1). -/
def floatCompare (a b : Nat) : Int :=
  if isNaN a || isNaN b then -1
  else if floatKey a = floatKey b then 0
  else if floatKey a > floatKey b then 1 else -1

def intCompare (a b : Int) : Int := if a = b then 0 else if a > b then 1 else -1

/-- `time.Time.Before/After` on instants. -/
def tsCompare (s1 : Int) (n1 : Nat) (s2 : Int) (n2 : Nat) : Int :=
  if s1 < s2 ∨ (s1 = s2 ∧ n1 < n2) then -1
  else if s1 > s2 ∨ (s1 = s2 ∧ n1 > n2) then 1 else 0

def boolCompare (a b : Bool) : Int := if a = b then 0 else if a then 1 else -1

/-- `a.Compare(b)` for two values of the same column (same type, or NULL). -/
def sqlCompare : Val → Val → Except Err Int
  | .null, .null => .ok 0
  | .null, _ => .ok (-1)
  | _, .null => .ok 1
  | .str a, .str b => .ok (bytesCompare a b)
  | .int a, .int b => .ok (intCompare a b)
  | .bool a, .bool b => .ok (boolCompare a b)
  | .blob a, .blob b => .ok (bytesCompare a b)
  | .uuid a, .uuid b => .ok (bytesCompare a b)
  | .ts s1 n1, .ts s2 n2 => .ok (tsCompare s1 n1 s2 n2)
  | .float a, .float b => .ok (floatCompare a b)
  | _, _ => .error .outOfModel

-- ---------------------------------------------------------------- composite keys

structure Col where
  ty : SqlType
  maxLen : Int
  deriving DecidableEq, Repr

/-- Concatenation of the per-column encodings (`MapKey(prefix, mapping, encValues...)` without
the common prefix). -/
def encodeTuple : List Col → List Val → Except Err Bytes
  | [], [] => .ok []
  | c :: cs, v :: vs =>
    match encodeKey v c.ty c.maxLen with
    | .error e => .error e
    | .ok (e, _) =>
      match encodeTuple cs vs with
      | .error e' => .error e'
      | .ok r => .ok (e ++ r)
  | _, _ => .error .outOfModel

/-- SQL order of rows by a column list: first column whose values differ decides. -/
def tupleCompare : List Val → List Val → Except Err Int
  | [], [] => .ok 0
  | a :: as, b :: bs =>
    match sqlCompare a b with
    | .error e => .error e
    | .ok c => if c = 0 then tupleCompare as bs else .ok c
  | _, _ => .error .outOfModel

/-- Decoding a composite key column by column (`row_reader.go`: `DecodeValueFromKey(mkey[off:], …)`). -/
def decodeTuple : List Col → Bytes → Except Err (List Val)
  | [], _ => .ok []
  | c :: cs, buf =>
    match decodeKey buf c.ty c.maxLen with
    | .error e => .error e
    | .ok (v, n) =>
      match decodeTuple cs (buf.drop n) with
      | .error e => .error e
      | .ok vs => .ok (v :: vs)

-- ---------------------------------------------------------------- specification predicates

/-- `v` is a value the key encoder accepts for a column `(ty, maxLen)` and the key decoder can
read back: the declared length holds, an `int64` is in range, a UUID has 16 bytes, a float is a
64-bit pattern, a timestamp is an instant whose `UnixNano()` does not overflow `int64`
(1677-09-21 … 2262-04-11), and `maxLen` is the width the decoder insists on. -/
def validKey (ty : SqlType) (maxLen : Int) (v : Val) : Bool :=
  decide (0 < maxLen) && decide (maxLen ≤ (Gen.sqlMaxKeyLen : Int)) &&
  match ty, v with
  | _, .null => true
  | .varchar, .str s => decide (s.length ≤ maxLen.toNat)
  | .integer, .int i => decide (maxLen = 8) && decide (InI64 i)
  | .boolean, .bool _ => decide (maxLen = 1)
  | .blob, .blob s => decide (s.length ≤ maxLen.toNat)
  | .uuid, .uuid u => decide (maxLen = 16) && decide (u.length = 16)
  | .timestamp, .ts sec nsec =>
    decide (maxLen = 8) && decide (nsec < 1000000000) && decide (InI64 (sec * 1000000000 + (nsec : Int)))
  | .float64, .float bits => decide (maxLen = 8) && decide (bits < two64)
  | _, _ => false

/-- +0.0 or −0.0. -/
def isZeroF (bits : Nat) : Bool := bits % two63 == 0

/-- The pairs for which SQL comparison and key order are claimed to agree: everything except
float pairs involving a NaN, and the pair {+0.0, −0.0} (they compare equal but are different
keys: `negzero_encodes_differently`). -/
def orderSafe : Val → Val → Bool
  | .float a, .float b => !isNaN a && !isNaN b && !(isZeroF a && isZeroF b && a != b)
  | _, _ => true

/-- Width of every non-NULL key of the column. -/
def keyWidth (ty : SqlType) (maxLen : Int) : Nat :=
  match ty with
  | .varchar | .blob => 1 + maxLen.toNat + encLenLen
  | .integer | .timestamp | .float64 => 9
  | .boolean => 2
  | .uuid => 17
  | .json => 0

/-- Total order realised by the float key bytes: sign-magnitude with −0.0 just below +0.0 and
NaNs at both ends (IEEE-754 `totalOrder`). -/
def floatTotalKey (bits : Nat) : Int :=
  if bits < two63 then (bits : Int) else -(((bits - two63 : Nat) : Int)) - 1

/-- Column-wise validity of a row of index values. -/
def validTuple : List Col → List Val → Bool
  | [], [] => true
  | c :: cs, v :: vs => validKey c.ty c.maxLen v && validTuple cs vs
  | _, _ => false

def orderSafeTuple : List Val → List Val → Bool
  | a :: as, b :: bs => orderSafe a b && orderSafeTuple as bs
  | _, _ => true

end ImmuModel.Sql
