/-
C12 — model of the DML statements of `embedded/sql` on one table with a primary key, secondary
(UNIQUE) indexes, NOT NULL columns, declared lengths, an optional CHECK and an AUTO_INCREMENT key:
`UpsertIntoStmt.execAt` (INSERT / UPSERT / INSERT … ON CONFLICT DO NOTHING), `UpdateStmt.execAt`,
`DeleteFromStmt.execAt`, `SQLTx.doUpsert`, `encodedKey`, `encodeRowValue`, `checkConstraints`.

The model mirrors the decisions the code TAKES, in the order it takes them:
* a column left out: NOT NULL (and not auto-increment) → `ErrNotNullableColumnCannotBeNull`; the
  auto-increment key of an INSERT is `table.maxPK+1` (`curMax`), which is loaded once per transaction
  from the largest key that has an entry in the primary index — deleted ones included (`loadMaxPK`
  reads without filters: `maxEver`) — and is NOT raised by an explicit key written in the same tx;
  an explicit auto-increment value `≤ maxPK` must exist (`pkMustExist`) else `ErrInvalidValue`;
* NULL given for a NOT NULL / auto-increment column → error; UPDATE … SET col = NULL performs NO such
  check (`UpdateStmt.execAt` only calls `requiresType`): the model has none either;
* CHECK (`checkConstraints`), then `encodedKey`: ONE loop over the key columns in index order, and
  the first column that is missing/NULL (`ErrPKCanNotBeNull`) or does not encode
  (`ErrMaxLengthExceeded`) decides — a too long value in an earlier key column wins over a NULL in
  a later one and vice versa (`encodedKey` below); then the existence test `tx.get(mappedPKey)`:
  `OngoingTx.Get` applies the
  `IgnoreDeleted` filter to the SNAPSHOT's entry before the tx's own pending entry is substituted, so a
  key deleted earlier in the same tx is still found; a key written in this tx is found: `known`;
* INSERT on an existing key → `ErrKeyAlreadyExists`, ON CONFLICT DO NOTHING → the row is skipped;
* `doUpsert`: row value encoding (`ErrMaxLengthExceeded` for VARCHAR[n]/BLOB[n]); for every UNIQUE
  index whose values changed: `getWithPrefix(prefix of the index values)` returns the FIRST entry with
  that prefix (smallest primary key), deleted entries INCLUDED, and only then the `IgnoreDeleted`
  filter turns a deleted one into "not found": a deleted entry with a smaller key hides every live
  one.  `tombs` are those deleted entries (left by DELETE, or by an UPDATE/UPSERT that changed the
  index values; the store's injective indexer marks the old mapped key deleted).
* NULLs are equal in a UNIQUE index (one key for NULL); −0.0 and +0.0 are different keys (C15 F5).

Order of the errors of one VALUES row, as in `UpsertIntoStmt.execAt`: (1) the column loop (NOT NULL /
auto-increment rules — the Go loop ranges over the MAP `table.colsByID`, so the relative order of two
errors raised inside it is not determined by the code; within the modelled fragment the only error class
it can raise is `ErrNotNullableColumnCannotBeNull`, a non-numeric auto-increment value being outside
the fragment; the model walks the columns in table order), (2) CHECK, (3) `encodedKey` column by
column, (4) `pkMustExist` → `ErrInvalidValue`, (5) existing key → `ErrKeyAlreadyExists` / skip,
(6) `doUpsert`: `encodeRowValue` over ALL columns in table order (`ErrMaxLengthExceeded` of a non-key
column comes only here, after (4) and (5)), then the indexes in catalog order (UNIQUE lookup).
UPDATE: `validate` (`ErrPKCanNotBeUpdated`) precedes the first row read; per row CHECK, `encodedKey`,
`tx.get` (`ErrKeyNotFound`), `doUpsert`.

NOT modelled (kept out of the correspondence, see DESIGN "C12 — as built"): the transient index
entries of an open transaction (statements writing several rows of a table with secondary indexes),
DEFAULT values, JSON, implicit INTEGER→FLOAT conversion.  Core Lean only.
-/
import ImmuModel.Sql.Plan
namespace ImmuModel.Sql
open ImmuModel

structure ColSpec where
  col : Col
  notNull : Bool
  autoInc : Bool
  deriving Repr

structure Schema where
  cols : List ColSpec
  pk : List Nat
  idx : List (Bool × List Nat)     -- (unique, columns)
  check : Option Pred
  deriving Repr

def Schema.kcols (s : Schema) : List Col := s.cols.map (·.col)

inductive DmlErr
  | notNull | pkNull | pkUpdate | maxLen | check | dupKey | invalidValue | keyNotFound
  | eval (e : EvalErr)
  | noTx | noSavepoint
  | outOfModel
  deriving DecidableEq, Repr

/-- a deleted entry of a unique index: index number, encoded index values, encoded primary key -/
structure Tomb where
  idx : Nat
  vals : Bytes
  pk : Bytes
  deriving DecidableEq, Repr

structure DB where
  rows : List Row := []
  tombs : List Tomb := []
  maxEver : Int := 0            -- largest auto-increment key that ever got a primary-index entry
  -- per-transaction part
  curMax : Int := 0             -- `table.maxPK` of the transaction's catalog
  known : List Bytes := []      -- encoded keys `tx.get` finds: live at BEGIN, or written since
  updated : Nat := 0            -- `SQLTx.updatedRows`
  lastPK : Option Int := none   -- `SQLTx.lastInsertedPKs[table]`
  firstPK : Option Int := none
  deriving Repr

inductive InsKind
  | insert | upsert | ocn
  deriving DecidableEq, Repr

structure SetItem where
  col : Nat
  incr : Bool      -- `col = col + v`
  v : Val
  deriving Repr

inductive Stmt
  | ins (k : InsKind) (cols : List Nat) (rows : List (List Val))
  | upd (sets : List SetItem) (w : Option Pred)
  | del (w : Option Pred)
  deriving Repr

def liftE {α} : Except EvalErr α → Except DmlErr α
  | .ok a => .ok a
  | .error .maxLen => .error .maxLen
  | .error e => .error (.eval e)

def pkEnc (s : Schema) (row : Row) : Except DmlErr Bytes := do
  let pc ← liftE (pickCols s.kcols s.pk)
  let pv ← liftE (pick row s.pk)
  liftE (encTuple pc pv)

def idxEnc (s : Schema) (cs : List Nat) (row : Row) : Except DmlErr Bytes := do
  let ic ← liftE (pickCols s.kcols cs)
  let iv ← liftE (pick row cs)
  liftE (encTuple ic iv)

/-- the loop of `encodedKey(index, valuesByColID)`: per key column, in index order, first
`!specified || rval.IsNull()` → `ErrPKCanNotBeNull`, then `EncodeValueAsKey` (→ `ErrMaxLengthExceeded`);
the first column with a problem decides. -/
def encKeyCols : List Col → List Val → Except DmlErr Bytes
  | [], [] => .ok []
  | c :: cs, v :: vs =>
    if v == Val.null then .error .pkNull
    else
      match encodeKey v c.ty c.maxLen with
      | .error .maxLenExceeded => .error .maxLen
      | .error _ => .error (.eval .keyEnc)
      | .ok (e, _) =>
        match encKeyCols cs vs with
        | .error e' => .error e'
        | .ok r => .ok (e ++ r)
  | _, _ => .error (.eval .keyEnc)

/-- `encodedKey(table.primaryIndex, valuesByColID)`; on success it is `pkEnc` of a row without NULL
in the key (`DmlMainAux.encodedKey_ok`). -/
def encodedKey (s : Schema) (row : Row) : Except DmlErr Bytes := do
  let pc ← liftE (pickCols s.kcols s.pk)
  let pv ← liftE (pick row s.pk)
  encKeyCols pc pv

/-- `NewTx`: the transaction's catalog loads `maxPK`; the snapshot fixes which keys `Get` finds. -/
def beginTx (s : Schema) (db : DB) : Except DmlErr DB := do
  let ks ← db.rows.mapM (pkEnc s)
  pure { db with curMax := db.maxEver, known := ks, updated := 0, lastPK := none, firstPK := none }

/-- declared length of VARCHAR[n] / BLOB[n] (`EncodeValue`) -/
def fitsLen (c : Col) : Val → Bool
  | .str b => c.maxLen ≤ 0 || decide ((b.length : Int) ≤ c.maxLen)
  | .blob b => c.maxLen ≤ 0 || decide ((b.length : Int) ≤ c.maxLen)
  | _ => true

def typeOK (c : Col) : Val → Bool
  | .null => true
  | .str _ => c.ty == .varchar
  | .int _ => c.ty == .integer
  | .bool _ => c.ty == .boolean
  | .blob _ => c.ty == .blob
  | .uuid _ => c.ty == .uuid
  | .ts _ _ => c.ty == .timestamp
  | .float _ => c.ty == .float64

/-- `encodeRowValue`: every non-NULL value must encode for its column -/
def rowValueOK (s : Schema) (row : Row) : Except DmlErr Unit :=
  let rec go : List ColSpec → List Val → Except DmlErr Unit
    | [], _ => .ok ()
    | _ :: _, [] => .error .outOfModel
    | c :: cs, v :: vs =>
      if !typeOK c.col v then .error .outOfModel
      else if !fitsLen c.col v then .error .maxLen
      else go cs vs
  go s.cols row

def checkOK (s : Schema) (row : Row) : Except DmlErr Unit :=
  match s.check with
  | none => .ok ()
  | some p =>
    match p.eval row with
    | .ok (some true) => .ok ()
    | _ => .error .check

def sameVals (a b : List Val) : Bool :=
  match a, b with
  | [], [] => true
  | x :: xs, y :: ys => (match sqlCompare x y with | .ok 0 => true | _ => false) && sameVals xs ys
  | _, _ => false

/-- `getWithPrefix` on a unique index: is the FIRST entry (smallest key) with these index values a
live one?  `self` is the key of the row being written (its own entry is never in the way: either the
values did not change and the index is skipped, or its old entry has other values). -/
def uniqueHit (s : Schema) (db : DB) (i : Nat) (cs : List Nat) (vals : Bytes) (self : Bytes) :
    Except DmlErr Bool := do
  let live ← db.rows.filterMapM (fun r => do
    let v ← idxEnc s cs r
    let k ← pkEnc s r
    pure (if v = vals ∧ k ≠ self then some k else none))
  let dead := (db.tombs.filter (fun t => t.idx = i ∧ t.vals = vals)).map (·.pk)
  match live with
  | [] => pure false
  | l :: ls =>
    let minLive := ls.foldl (fun m k => if lexLt k m then k else m) l
    pure (dead.all (fun d => !lexLt d minLive))

/-- entries of the unique indexes that stop being live when `old` is replaced by `new` (or deleted) -/
def newTombs (s : Schema) (old : Row) (new : Option Row) : Except DmlErr (List Tomb) := do
  let k ← pkEnc s old
  let rec go : Nat → List (Bool × List Nat) → Except DmlErr (List Tomb)
    | _, [] => .ok []
    | i, (u, cs) :: rest => do
      let more ← go (i + 1) rest
      if !u then pure more
      else
        let ov ← idxEnc s cs old
        match new with
        | none => pure ({ idx := i, vals := ov, pk := k } :: more)
        | some n =>
          let nv ← idxEnc s cs n
          pure (if ov = nv then more else { idx := i, vals := ov, pk := k } :: more)
  go 0 s.idx

/-- entries that become live (again) with `row`: their tombstones disappear -/
def reviveTombs (s : Schema) (row : Row) (tombs : List Tomb) : Except DmlErr (List Tomb) := do
  let k ← pkEnc s row
  let rec go : Nat → List (Bool × List Nat) → List Tomb → Except DmlErr (List Tomb)
    | _, [], ts => .ok ts
    | i, (_, cs) :: rest, ts => do
      let v ← idxEnc s cs row
      go (i + 1) rest (ts.filter (fun t => !(t.idx = i ∧ t.vals = v ∧ t.pk = k)))
  go 0 s.idx tombs

def findRow (s : Schema) (rows : List Row) (k : Bytes) : Except DmlErr (Option Row) := do
  let ks ← rows.mapM (fun r => do let x ← pkEnc s r; pure (x, r))
  pure ((ks.find? (fun p => p.1 = k)).map (·.2))

def autoKeyOf (s : Schema) (row : Row) : Option Int :=
  match s.pk with
  | [c] => match s.cols[c]?, row[c]? with
    | some cs, some (.int i) => if cs.autoInc then some i else none
    | _, _ => none
  | _ => none

/-- `doUpsert(pkEncVals, valuesByColID, table, reuseIndex)` -/
def doUpsert (s : Schema) (db : DB) (row : Row) (reuse : Bool) : Except DmlErr DB := do
  let k ← pkEnc s row
  let cur ← findRow s db.rows k          -- `fetchPKRow` (the row reader honours in-tx deletes)
  rowValueOK s row
  -- unique indexes, in catalog order; skipped when the values did not change (`reusableIndexEntries`)
  let rec chk : Nat → List (Bool × List Nat) → Except DmlErr Unit
    | _, [] => .ok ()
    | i, (u, cs) :: rest => do
      let same ← (match (if reuse && s.idx.length > 0 then cur else none) with
        | none => pure false
        | some old => do
          let ov ← liftE (pick old cs)
          let nv ← liftE (pick row cs)
          pure (sameVals ov nv))
      if u && !same then
        let v ← idxEnc s cs row
        if (← uniqueHit s db i cs v k) then throw .dupKey
      else
        -- the index key must still be encodable
        let _ ← idxEnc s cs row
      chk (i + 1) rest
  chk 0 s.idx
  let dead ← (match cur with
    | none => pure []
    | some old => newTombs s old (some row))
  let rows' ← (match cur with
    | none => pure (db.rows ++ [row])
    | some _ => db.rows.mapM (fun r => do let x ← pkEnc s r; pure (if x = k then row else r)))
  let tombs' ← reviveTombs s row (db.tombs ++ dead)
  let mx := match autoKeyOf s row with
    | some i => if i > db.maxEver then i else db.maxEver
    | none => db.maxEver
  pure { db with rows := rows', tombs := tombs', maxEver := mx,
                 known := if db.known.contains k then db.known else db.known ++ [k],
                 updated := db.updated + 1 }

/-- one VALUES row of `UpsertIntoStmt.execAt` -/
def insRow (s : Schema) (k : InsKind) (cols : List Nat) (vals : List Val) (db : DB) : Except DmlErr DB := do
  if vals.length ≠ cols.length then throw .outOfModel
  let spec : Nat → Option Val := fun c =>
    match cols.idxOf? c with
    | some i => vals[i]?
    | none => none
  -- the loop over the columns
  let rec build : Nat → List ColSpec → DB → Bool → Except DmlErr (Row × DB × Bool)
    | _, [], db, must => .ok ([], db, must)
    | c, cs :: rest, db, must =>
      match spec c with
      | none =>
        if cs.notNull && !cs.autoInc then .error .notNull
        else if k != .upsert && cs.autoInc then
          let n := db.curMax + 1
          let db' := { db with curMax := n, lastPK := some n,
                               firstPK := match db.firstPK with | none => some n | some f => some f }
          match build (c + 1) rest db' must with
          | .error e => .error e
          | .ok (r, d, m) => .ok (.int n :: r, d, m)
        else
          match build (c + 1) rest db must with
          | .error e => .error e
          | .ok (r, d, m) => .ok (.null :: r, d, m)
      | some .null =>
        if cs.notNull || cs.autoInc then .error .notNull
        else
          match build (c + 1) rest db must with
          | .error e => .error e
          | .ok (r, d, m) => .ok (.null :: r, d, m)
      | some v =>
        if cs.autoInc then
          match v with
          | .int i =>
            let db' := { db with lastPK := some i,
                                 firstPK := match db.firstPK with | none => some i | some f => some f }
            match build (c + 1) rest db' (decide (i ≤ db.curMax)) with
            | .error e => .error e
            | .ok (r, d, m) => .ok (v :: r, d, m)
          | _ => .error .invalidValue
        else
          match build (c + 1) rest db must with
          | .error e => .error e
          | .ok (r, d, m) => .ok (v :: r, d, m)
  let (row, db1, must) ← build 0 s.cols db false
  checkOK s row
  -- encodedKey: key columns in order, NULL / too long, whichever comes first
  let key ← encodedKey s row
  let exists_ := db1.known.contains key
  if !exists_ && must then throw .invalidValue
  if k != .upsert && exists_ then
    if k == .ocn then pure db1 else throw .dupKey
  else
    doUpsert s db1 row (k == .upsert)

def applySets (sets : List SetItem) (row : Row) : Except DmlErr Row :=
  sets.foldlM (fun r st =>
    if st.incr then
      match r[st.col]?, st.v with
      | some (.int a), .int b => pure (r.set st.col (.int (GoInt.wrap64 (a + b))))
      | some _, _ => throw .invalidValue
      | none, _ => throw .outOfModel
    else if st.col < r.length then pure (r.set st.col st.v) else throw .outOfModel) row

/-- rows in primary-key order (the scan order of UPDATE / DELETE without WHERE) -/
def pkOrdered (s : Schema) (rows : List Row) : Except DmlErr (List Row) := do
  let ks ← rows.mapM (fun r => do let k ← pkEnc s r; pure (k, r))
  pure ((sortByKey ks).map (·.2))

/-- the rows an UPDATE / DELETE reads, in reading order: the plan of the statement's `SelectStmt`
(`Plan.lean`: primary index unless a secondary index has an equality-covered leading column; the scan
window is made of key bytes, the WHERE is re-evaluated on the rows of the window) -/
def selectRows (s : Schema) (rows : List Row) : Option Pred → Except DmlErr (List Row)
  | none => pkOrdered s rows
  | some p => liftE (planRows s.kcols s.pk (s.idx.map (·.2)) rows p)

def exec (s : Schema) (db : DB) : Stmt → Except DmlErr DB
  | .ins k cols rows => rows.foldlM (fun d vals => insRow s k cols vals d) db
  | .upd sets w => do
    -- `validate` runs after Resolve, before the first row is read (before any WHERE evaluation)
    if sets.any (fun st => s.pk.contains st.col) then throw .pkUpdate
    let hit ← selectRows s db.rows w
    hit.foldlM (fun d old => do
      let new ← applySets sets old
      checkOK s new
      let key ← encodedKey s new
      if !d.known.contains key then throw .keyNotFound
      doUpsert s d new true) db
  | .del w => do
    let hit ← selectRows s db.rows w
    hit.foldlM (fun d old => do
      let key ← pkEnc s old
      let dead ← newTombs s old none
      let rows' ← d.rows.filterM (fun r => do let x ← pkEnc s r; pure (x != key))
      pure { d with rows := rows', tombs := d.tombs ++ dead, updated := d.updated + 1 }) db

-- ---------------------------------------------------------------- invariants (specification)

/-- no two live rows share the primary key -/
def pkUnique (s : Schema) (db : DB) : Prop :=
  ∀ ks, db.rows.mapM (pkEnc s) = .ok ks → ks.Nodup

/-- every unique index is duplicate free among the live rows (by index key bytes) -/
def uniqueOK (s : Schema) (db : DB) : Prop :=
  ∀ u cs, (u, cs) ∈ s.idx → u = true → ∀ vs, db.rows.mapM (idxEnc s cs) = .ok vs → vs.Nodup

def notNullOK (s : Schema) (db : DB) : Prop :=
  ∀ row, row ∈ db.rows → ∀ (c : Nat) (cs : ColSpec), s.cols[c]? = some cs → cs.notNull = true →
    row[c]? ≠ some Val.null

def lengthsOK (s : Schema) (db : DB) : Prop :=
  ∀ row, row ∈ db.rows → rowValueOK s row = .ok ()

def autoOK (s : Schema) (db : DB) : Prop :=
  ∀ row, row ∈ db.rows → ∀ i, autoKeyOf s row = some i → i ≤ db.maxEver

end ImmuModel.Sql
