/-
Specification vocabulary for the C11 theorems (no code mirrored here): what it means for a value to
lie in a derived range, for a predicate to evaluate without error on a table, etc.
-/
import ImmuModel.Sql.Query
namespace ImmuModel.Sql
open ImmuModel

/-- `a ≤ b` under the engine's `Compare` -/
def sqlLe (a b : Val) : Prop := ∃ k, sqlCompare a b = .ok k ∧ k ≤ 0

/-- `v` lies within the closed bounds of `r` -/
def Range.holds (r : Range) (v : Val) : Prop :=
  (∀ lo, r.lo = some lo → sqlLe lo v) ∧ (∀ hi, r.hi = some hi → sqlLe v hi)

/-- every entry of the range map bounds the corresponding column of the row -/
def RangeMap.bounds (m : RangeMap) (row : Row) : Prop :=
  ∀ c r, RangeMap.get m c = some r → ∃ v, row[c]? = some v ∧ r.holds v

/-- the WHERE predicate evaluates to TRUE or FALSE/NULL on every row, never to an error -/
def noEvalErr (p : Pred) (rows : List Row) : Prop :=
  ∀ row, row ∈ rows → ∃ b, keeps p row = .ok b

/-- the predicate is two-valued on every row (what comparisons are in this engine) -/
def twoValued (p : Pred) (rows : List Row) : Prop :=
  ∀ row, row ∈ rows → ∃ b, p.eval row = .ok (some b)

/-- rows kept by the WHERE predicate, in the given order (errors count as "not kept") -/
def rowsWhere (p : Pred) (rows : List Row) : List Row :=
  rows.filter (fun r => match keeps p r with | .ok true => true | _ => false)

/-- LIMIT n (0 = none) -/
def limitTake (n : Nat) (l : List Row) : List Row := if n = 0 then l else l.take n

/-- the index columns are columns of the table -/
def idxOK (t : Table) (idx : List Nat) : Bool := idx.all (· < t.cols.length)

end ImmuModel.Sql
