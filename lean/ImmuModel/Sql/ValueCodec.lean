/-
C15 — model of the SQL row-value codec of `embedded/sql/catalog.go`:
`EncodeRawValue(val, colType, maxLen, nullable)` and `decodeValue(b, colType, nullable)`
(`EncodeValue/DecodeValue` are the `nullable = false` instances, `EncodeNullableValue/
DecodeNullableValue` — used by the file sorter — the `nullable = true` ones).
Same modelled domain and value representation as `Sql/KeyEnc.lean`; JSON values are outside the
model.  Core Lean only.
-/
import ImmuModel.Sql.KeyEnc
namespace ImmuModel.Sql
open ImmuModel ImmuModel.GoInt

/-- `TimeToInt64(t) = t.Unix()*1e6 + int64(t.Nanosecond())/1e3` (int64 arithmetic). -/
def timeToInt64 (sec : Int) (nsec : Nat) : Int :=
  wrap64 (sec * 1000000 + ((nsec / 1000 : Nat) : Int))

/-- `TimeFromInt64(t) = time.Unix(t/1e6, (t%1e6)*1e3).UTC()` (Go `/`, `%` truncate toward zero). -/
def timeFromInt64 (t : Int) : Int × Nat :=
  timeUnix (Int.tdiv t 1000000) (Int.tmod t 1000000 * 1000)

/-- `EncodeRawValue`. `len(v)` is written with `uint32(len)`, i.e. modulo 2^32 (`beN`). -/
def encodeValue (v : Val) (ty : SqlType) (maxLen : Int) (nullable : Bool) : Except Err Bytes :=
  match ty, v with
  | _, .null => if !nullable then .error .invalidValue else .ok (beN encLenLen 0)
  | .varchar, .str s =>
    if maxLen > 0 ∧ (s.length : Int) > maxLen then .error .maxLenExceeded
    else .ok (beN encLenLen s.length ++ s)
  | .integer, .int i => .ok (beN encLenLen 8 ++ be64 (u64 i))
  | .boolean, .bool b => .ok (beN encLenLen 1 ++ [if b then 1 else 0])
  | .blob, .blob s =>
    if maxLen > 0 ∧ (s.length : Int) > maxLen then .error .maxLenExceeded
    else .ok (beN encLenLen s.length ++ s)
  | .uuid, .uuid u => .ok (beN encLenLen 16 ++ u)
  | .timestamp, .ts sec nsec => .ok (beN encLenLen 8 ++ be64 (u64 (timeToInt64 sec nsec)))
  | .float64, .float bits => .ok (beN encLenLen 8 ++ be64 bits)
  | _, _ => .error .outOfModel

/-- `decodeValue`: value and number of bytes consumed. `DecodeValueLength` guarantees
`len(b) ≥ 4 + vlen`, which guards every later slice/index expression. -/
def decodeValue (b : Bytes) (ty : SqlType) (nullable : Bool) : Except Err (Val × Nat) :=
  if b.length < encLenLen then .error .corrupted
  else
    let vlen := beVal (b.take encLenLen)
    let body := b.drop encLenLen
    if b.length < encLenLen + vlen then .error .corrupted
    else if vlen = 0 ∧ nullable then .ok (.null, encLenLen)
    else
      match ty with
      | .varchar => .ok (.str (body.take vlen), encLenLen + vlen)
      | .integer =>
        if vlen ≠ 8 then .error .corrupted
        else .ok (.int (i64 (beVal (body.take 8))), encLenLen + vlen)
      | .boolean =>
        if vlen ≠ 1 then .error .corrupted
        else match body with
          | [] => .error .corrupted   -- unreachable: len(b) ≥ 4 + 1
          | x :: _ => .ok (.bool (x == 1), encLenLen + 1)
      | .blob => .ok (.blob (body.take vlen), encLenLen + vlen)
      | .uuid =>
        if vlen ≠ 16 then .error .corrupted
        else .ok (.uuid (body.take 16), encLenLen + vlen)
      | .timestamp =>
        if vlen ≠ 8 then .error .corrupted
        else
          let t := timeFromInt64 (i64 (beVal (body.take 8)))
          .ok (.ts t.1 t.2, encLenLen + vlen)
      | .float64 =>
        if vlen ≠ 8 then .error .corrupted
        else .ok (.float (beVal (body.take 8)), encLenLen + vlen)
      | .json => .error .outOfModel

/-- Values the row codec reproduces exactly: declared length respected (when `maxLen > 0`),
lengths below 2^32, `int64` range, 16-byte UUID, 64-bit float pattern, timestamps whose
microsecond count fits `int64` (they are reproduced truncated to microseconds: `truncMicros`). -/
def validValue (ty : SqlType) (maxLen : Int) (v : Val) : Bool :=
  match ty, v with
  | _, .null => true
  | .varchar, .str s => decide (s.length < 4294967296) && decide (maxLen ≤ 0 ∨ (s.length : Int) ≤ maxLen)
  | .integer, .int i => decide (InI64 i)
  | .boolean, .bool _ => true
  | .blob, .blob s => decide (s.length < 4294967296) && decide (maxLen ≤ 0 ∨ (s.length : Int) ≤ maxLen)
  | .uuid, .uuid u => decide (u.length = 16)
  | .timestamp, .ts sec nsec =>
    decide (nsec < 1000000000) && decide (InI64 (sec * 1000000 + ((nsec / 1000 : Nat) : Int)))
  | .float64, .float bits => decide (bits < two64)
  | _, _ => false

/-- What the row codec gives back: timestamps are stored in microseconds. -/
def truncMicros : Val → Val
  | .ts sec nsec => .ts sec (nsec / 1000 * 1000)
  | v => v

/-- With `nullable = true` the encoding `00 00 00 00` is shared by NULL and by the empty
string/blob; these are the values that are *not* reproduced (`nullable_empty_…` in Props). -/
def nullAmbiguous : Val → Bool
  | .str s => s.isEmpty
  | .blob s => s.isEmpty
  | _ => false

end ImmuModel.Sql
