/-
C12 — concurrent SQL sessions: how the constraint checks of `embedded/sql` become constraints of the
COMMITTED state.  Every check is a READ of the transaction's snapshot, recorded in the MVCC read-set
of `embedded/store` and re-validated at COMMIT (`OngoingTx.checkPreconditions`):

* existence of the primary key — `tx.get(mappedPKey)` = `OngoingTx.GetWithFilters(IgnoreExpired,
  IgnoreDeleted)`: not found (or deleted) → `expectedGet{key}` (expectedTx = 0), found →
  `expectedGet{key, expectedTx}`;
* UNIQUE index — `tx.getWithPrefix(smkey)` = `GetWithPrefixAndFilters(prefix = index values)`: the
  FIRST entry under the prefix (smallest primary key), filtered afterwards; a deleted first entry reads
  as "not found" (R2).  Found → `ErrKeyAlreadyExists`, the statement fails and the transaction is
  cancelled, so the read-set of a transaction that reaches COMMIT holds only
  `expectedGetWithPrefix{prefix}` with expectedTx = 0 ("nothing there");
* the row readers of UPDATE / DELETE `WHERE pk = k` and of `fetchPKRow` (UPSERT / UPDATE): a point range
  of the primary index, every raw entry read is recorded (key, tx);
* `loadMaxPK` (AUTO_INCREMENT tables, at `NewTx`): the first entry of the descending scan.

Snapshots are per index and acquired at FIRST USE (`OngoingTx.snap`, default
`SnapshotMustIncludeTxID` = last precommitted tx): the primary index at BEGIN for auto-increment tables,
else at the first statement; a unique index at the first uniqueness lookup on it.

`probeOK` is `checkPreconditions`' loop body: `expectedGets` (not found ⇒ expectedTx must be 0; found ⇒
same tx), `expectedGetsWithPrefix` (not found ⇒ expectedTx must be 0; found ⇒ same key AND same tx — an
entry where NONE was expected is a conflict), readers (same raw entries).  The early
`return nil` for a snapshot with `Ts() > LastPrecommittedTxID()` is not modelled: with the default
snapshot options it fires only when nothing was committed since the first snapshot, where every probe
re-evaluates to what it was (`validate_unchanged`); the general case is C05's `checkSnaps`.

COMMIT applies the write-set with the next transaction id; the entries of the secondary indexes are
what the store's injective indexer derives from the row entries (new entry live, the entry of the
previous values of the same row deleted).

NOT modelled (`outOfModel`, never sent by the harness): a second write to a key or to a unique tuple
inside one transaction (transient entries, finding R1), statements that are not addressed by primary
key.  Core Lean only.
-/
import ImmuModel.Sql.Dml
namespace ImmuModel.Sql.Mv
open ImmuModel ImmuModel.Sql

/-- entry of the primary index (the row travels with it) -/
structure PEntry where
  key : Bytes
  row : Row
  ver : Nat            -- id of the transaction that wrote the entry
  deleted : Bool
  deriving Repr

/-- entry of a UNIQUE secondary index: index values ++ primary key -/
structure UEntry where
  idx : Nat
  vals : Bytes
  pk : Bytes
  ver : Nat
  deleted : Bool
  deriving Repr

/-- committed state = what a snapshot taken now contains -/
structure Store where
  prim : List PEntry := []
  uniq : List UEntry := []
  last : Nat := 0        -- id of the last committed transaction
  deriving Repr

def Store.raw (st : Store) (key : Bytes) : Option PEntry :=
  st.prim.find? (fun e => e.key == key)

/-- `Get` with `IgnoreDeleted` -/
def Store.getLive (st : Store) (key : Bytes) : Option PEntry :=
  match st.raw key with
  | some e => if e.deleted then none else some e
  | none => none

def minEntry : UEntry → List UEntry → UEntry
  | m, [] => m
  | m, e :: es => minEntry (if lexLt e.pk m.pk then e else m) es

/-- first entry under the prefix `idx, vals` (smallest primary key), deleted ones included -/
def Store.firstU (st : Store) (i : Nat) (vals : Bytes) : Option UEntry :=
  match st.uniq.filter (fun e => e.idx == i && e.vals == vals) with
  | [] => none
  | e :: es => some (minEntry e es)

/-- `GetWithPrefixAndFilters(prefix, nil, IgnoreExpired, IgnoreDeleted)`: the filter is applied to the
first entry only -/
def Store.pgetLive (st : Store) (i : Nat) (vals : Bytes) : Option UEntry :=
  match st.firstU i vals with
  | some e => if e.deleted then none else some e
  | none => none

def maxEntry : PEntry → List PEntry → PEntry
  | m, [] => m
  | m, e :: es => maxEntry (if lexLt m.key e.key then e else m) es

/-- first entry of the descending scan of the primary index (no filters: deleted ones included) -/
def Store.top (st : Store) : Option PEntry :=
  match st.prim with
  | [] => none
  | e :: es => some (maxEntry e es)

inductive Probe
  | get (key : Bytes) (tx : Nat)
  | pget (idx : Nat) (vals : Bytes) (expKey : Option Bytes) (tx : Nat)
  | row (key : Bytes) (r : Option Nat)
  | top (r : Option (Bytes × Nat))
  deriving Repr

/-- body of the loops of `checkPreconditions` against the up-to-date snapshot -/
def probeOK (st : Store) : Probe → Bool
  | .get key tx =>
    match st.getLive key with
    | none => tx == 0                         -- `if e.expectedTx > 0 { return ErrTxReadConflict }; continue`
    | some e => tx == e.ver                   -- `if e.expectedTx != valRef.Tx()`
  | .pget i vals expKey tx =>
    match st.pgetLive i vals with
    | none => tx == 0
    | some e => expKey == some e.pk && tx == e.ver   -- `!bytes.Equal(e.expectedKey, key) || e.expectedTx != valRef.Tx()`
  | .row key r => (st.raw key).map (·.ver) == r
  | .top r => st.top.map (fun e => (e.key, e.ver)) == r

inductive MvErr
  | dml (e : DmlErr)
  | readConflict
  | closed
  deriving Repr

structure Sess where
  active : Bool := false
  snapP : Option Store := none            -- snapshot of the primary index
  snapU : List (Nat × Store) := []        -- snapshots of the unique indexes, by index number
  probes : List Probe := []
  wrows : List (Bytes × Option Row) := []  -- write-set: key ↦ new row | deleted
  wuniq : List (Nat × Bytes) := []         -- transient entries of unique indexes written by the tx
  curMax : Int := 0
  updated : Nat := 0
  deriving Repr

def hasAuto (sc : Schema) : Bool :=
  match sc.pk with
  | [c] => match sc.cols[c]? with
    | some cs => cs.autoInc
    | none => false
  | _ => false

/-- largest auto-increment key that has a primary-index entry (deleted ones included) -/
def Store.maxEver (sc : Schema) (st : Store) : Int :=
  st.prim.foldl (fun m e => match autoKeyOf sc e.row with
    | some i => if i > m then i else m
    | none => m) 0

/-- `Engine.NewTx`: an auto-increment table loads `maxPK` through a reader of the primary index -/
def beginSess (sc : Schema) (st : Store) : Sess :=
  if hasAuto sc then
    { active := true, snapP := some st, curMax := st.maxEver sc,
      probes := [.top (st.top.map (fun e => (e.key, e.ver)))] }
  else { active := true }

def Sess.acquireP (se : Sess) (st : Store) : Sess × Store :=
  match se.snapP with
  | some s => (se, s)
  | none => ({ se with snapP := some st }, st)

def Sess.acquireU (se : Sess) (i : Nat) (st : Store) : Sess × Store :=
  match se.snapU.find? (fun p => p.1 == i) with
  | some p => (se, p.2)
  | none => ({ se with snapU := se.snapU ++ [(i, st)] }, st)

def Sess.probe (se : Sess) (p : Probe) : Sess := { se with probes := se.probes ++ [p] }

def lift {α} : Except DmlErr α → Except MvErr α
  | .ok a => .ok a
  | .error e => .error (.dml e)

/-- the column loop of `UpsertIntoStmt.execAt` (same branches as `Dml.insRow`) -/
def buildRow (k : InsKind) (spec : Nat → Option Val) :
    Nat → List ColSpec → Int → Bool → Except DmlErr (Row × Int × Bool)
  | _, [], cm, must => .ok ([], cm, must)
  | c, cs :: rest, cm, must =>
    match spec c with
    | none =>
      if cs.notNull && !cs.autoInc then .error .notNull
      else if k != .upsert && cs.autoInc then
        match buildRow k spec (c + 1) rest (cm + 1) must with
        | .error e => .error e
        | .ok (r, d, m) => .ok (.int (cm + 1) :: r, d, m)
      else
        match buildRow k spec (c + 1) rest cm must with
        | .error e => .error e
        | .ok (r, d, m) => .ok (.null :: r, d, m)
    | some .null =>
      if cs.notNull || cs.autoInc then .error .notNull
      else
        match buildRow k spec (c + 1) rest cm must with
        | .error e => .error e
        | .ok (r, d, m) => .ok (.null :: r, d, m)
    | some v =>
      if cs.autoInc then
        match v with
        | .int i =>
          match buildRow k spec (c + 1) rest cm (decide (i ≤ cm)) with
          | .error e => .error e
          | .ok (r, d, m) => .ok (v :: r, d, m)
        | _ => .error .invalidValue
      else
        match buildRow k spec (c + 1) rest cm must with
        | .error e => .error e
        | .ok (r, d, m) => .ok (v :: r, d, m)

def Sess.addU (se : Sess) (i : Nat) (v : Bytes) : Sess := { se with wuniq := se.wuniq ++ [(i, v)] }

def Sess.addRow (se : Sess) (key : Bytes) (w : Option Row) : Sess :=
  { se with wrows := se.wrows ++ [(key, w)], updated := se.updated + 1 }

/-- `deprecateIndexEntries`: did the values of the index stay the same (`reusableIndexEntries`)? -/
def sameOf (cur : Option PEntry) (row : Row) (cs : List Nat) : Except MvErr Bool :=
  match cur with
  | none => .ok false
  | some old =>
    match liftE (pick old.row cs), liftE (pick row cs) with
    | .ok ov, .ok nv => .ok (sameVals ov nv)
    | .error e, _ => .error (.dml e)
    | _, .error e => .error (.dml e)

/-- the loop over the secondary indexes in `doUpsert`: skipped when the values did not change, else
(UNIQUE) the uniqueness lookup on the index's snapshot, recorded in the read-set, and the transient
entry -/
def chkIdx (sc : Schema) (st : Store) (row : Row) (cur : Option PEntry) :
    Nat → List (Bool × List Nat) → Sess → Except MvErr Sess
  | _, [], se => .ok se
  | i, (u, cs) :: rest, se =>
    match sameOf cur row cs with
    | .error e => .error e
    | .ok true => chkIdx sc st row cur (i + 1) rest se
    | .ok false =>
      match idxEnc sc cs row with
      | .error e => .error (.dml e)
      | .ok v =>
        if !u then chkIdx sc st row cur (i + 1) rest se
        else if se.wuniq.any (fun p => p.1 == i && p.2 == v) then .error (.dml .outOfModel)
        else
          match (se.acquireU i st).2.pgetLive i v with
          | some _ => .error (.dml .dupKey)
          | none => chkIdx sc st row cur (i + 1) rest (((se.acquireU i st).1.probe (.pget i v none 0)).addU i v)

/-- `fetchPKRow` (only when `reuseIndex` and the table has secondary indexes) -/
def fetchRow (sc : Schema) (st : Store) (se : Sess) (key : Bytes) (reuse : Bool) : Sess × Option PEntry :=
  if reuse && sc.idx.length > 0 then
    ((se.acquireP st).1.probe (.row key (((se.acquireP st).2.raw key).map (·.ver))), (se.acquireP st).2.getLive key)
  else (se, none)

/-- `doUpsert`: `fetchPKRow`, the row value, the secondary indexes, the row entry -/
def doUpsertM (sc : Schema) (st : Store) (se : Sess) (row : Row) (key : Bytes) (reuse : Bool) :
    Except MvErr Sess :=
  match rowValueOK sc row with
  | .error e => .error (.dml e)
  | .ok _ =>
    match chkIdx sc st row (fetchRow sc st se key reuse).2 0 sc.idx (fetchRow sc st se key reuse).1 with
    | .error e => .error e
    | .ok se' => .ok (se'.addRow key (some row))

/-- the row an INSERT / UPSERT builds and its encoded key -/
def insRowKey (sc : Schema) (k : InsKind) (cols : List Nat) (vals : List Val) (curMax : Int) :
    Except DmlErr (Row × Int × Bool × Bytes) := do
  if vals.length ≠ cols.length then throw .outOfModel
  let spec : Nat → Option Val := fun c =>
    match cols.idxOf? c with
    | some i => vals[i]?
    | none => none
  let (row, cm, must) ← buildRow k spec 0 sc.cols curMax false
  checkOK sc row
  let key ← encodedKey sc row
  pure (row, cm, must, key)

def verOf : Option PEntry → Nat
  | some e => e.ver
  | none => 0

/-- one VALUES row of INSERT / UPSERT / INSERT … ON CONFLICT DO NOTHING -/
def insOne (sc : Schema) (st : Store) (k : InsKind) (cols : List Nat) (se : Sess) (vals : List Val) :
    Except MvErr Sess :=
  match insRowKey sc k cols vals se.curMax with
  | .error e => .error (.dml e)
  | .ok (row, cm, must, key) =>
    if se.wrows.any (fun p => p.1 == key) then .error (.dml .outOfModel)
    else
      let se1 := ({ se with curMax := cm }.acquireP st).1
      let cur := ({ se with curMax := cm }.acquireP st).2.getLive key
      let se2 := se1.probe (.get key (verOf cur))       -- `tx.get(mappedPKey)`
      if cur.isNone && must then .error (.dml .invalidValue)
      else if k != .upsert && cur.isSome then
        (if k == .ocn then .ok se2 else .error (.dml .dupKey))
      else doUpsertM sc st se2 row key (k == .upsert)

/-- `WHERE pk₁ = v₁ AND pk₂ = v₂ …` in the order of the key columns -/
def pkOfPred (sc : Schema) (p : Pred) : Option (List Val) :=
  let rec atoms : Pred → Option (List (Nat × Val))
    | .cmp c .eq false v => some [(c, v)]
    | .and p q => match atoms p, atoms q with
      | some a, some b => some (a ++ b)
      | _, _ => none
    | _ => none
  match atoms p with
  | some as => if as.map (·.1) == sc.pk then some (as.map (·.2)) else none
  | none => none

def keyOfPred (sc : Schema) (w : Option Pred) : Except MvErr Bytes :=
  match w with
  | none => .error (.dml .outOfModel)
  | some p =>
    match pkOfPred sc p with
    | none => .error (.dml .outOfModel)
    | some vs =>
      if vs.any (· == .null) then .error (.dml .outOfModel)
      else do
        let pc ← lift (liftE (pickCols sc.kcols sc.pk))
        lift (liftE (encTuple pc vs))

/-- the row reader of UPDATE / DELETE over the point range of the key -/
def readRow (st : Store) (se : Sess) (key : Bytes) : Sess × Option PEntry :=
  ((se.acquireP st).1.probe (.row key (((se.acquireP st).2.raw key).map (·.ver))), (se.acquireP st).2.getLive key)

/-- the new row of an UPDATE and its key (`checkConstraints`, `encodedKey`) -/
def updRowKey (sc : Schema) (sets : List SetItem) (old : Row) : Except DmlErr (Row × Bytes) := do
  let new ← applySets sets old
  checkOK sc new
  let key ← encodedKey sc new
  pure (new, key)

def updOne (sc : Schema) (st : Store) (se : Sess) (sets : List SetItem) (key : Bytes) : Except MvErr Sess :=
  if se.wrows.any (fun p => p.1 == key) then .error (.dml .outOfModel)
  else if sets.any (fun s => sc.pk.contains s.col) then .error (.dml .pkUpdate)
  else
    match (readRow st se key).2 with
    | none => .ok (readRow st se key).1
    | some old =>
      match updRowKey sc sets old.row with
      | .error e => .error (.dml e)
      | .ok (new, key') =>
        -- `tx.get(mkey)`: the key must exist
        doUpsertM sc st ((readRow st se key).1.probe (.get key' old.ver)) new key' true

def delOne (st : Store) (se : Sess) (key : Bytes) : Except MvErr Sess :=
  if se.wrows.any (fun p => p.1 == key) then .error (.dml .outOfModel)
  else
    match (readRow st se key).2 with
    | none => .ok (readRow st se key).1
    | some _ => .ok ((readRow st se key).1.addRow key none)

def execStmt (sc : Schema) (st : Store) (se : Sess) : Stmt → Except MvErr Sess
  | .ins k cols rows => rows.foldlM (insOne sc st k cols) se
  | .upd sets w =>
    match keyOfPred sc w with
    | .error e => .error e
    | .ok key => updOne sc st se sets key
  | .del w =>
    match keyOfPred sc w with
    | .error e => .error e
    | .ok key => delOne st se key

-- ---------------------------------------------------------------- COMMIT

def validate (st : Store) (se : Sess) : Bool := se.probes.all (probeOK st)

def setPrim (n : Nat) (key : Bytes) (w : Option Row) : List PEntry → List PEntry
  | [] => match w with
    | some r => [{ key := key, row := r, ver := n, deleted := false }]
    | none => []
  | e :: es =>
    if e.key == key then
      (match w with
       | some r => { key := key, row := r, ver := n, deleted := false }
       | none => { e with ver := n, deleted := true }) :: es
    else e :: setPrim n key w es

def setUniq (n : Nat) (i : Nat) (vals pk : Bytes) (del : Bool) : List UEntry → List UEntry
  | [] => if del then [] else [{ idx := i, vals := vals, pk := pk, ver := n, deleted := false }]
  | e :: es =>
    if e.idx == i && e.vals == vals && e.pk == pk then { e with ver := n, deleted := del } :: es
    else e :: setUniq n i vals pk del es

/-- what the indexer of unique index `i` does when the row under `key` changes from `old` to `new` -/
def reindex (sc : Schema) (n : Nat) (key : Bytes) (old new : Option Row) :
    Nat → List (Bool × List Nat) → List UEntry → Except DmlErr (List UEntry)
  | _, [], us => .ok us
  | i, (u, cs) :: rest, us => do
    if !u then reindex sc n key old new (i + 1) rest us
    else
      let ov ← (match old with | some r => do let v ← idxEnc sc cs r; pure (some v) | none => pure none)
      let nv ← (match new with | some r => do let v ← idxEnc sc cs r; pure (some v) | none => pure none)
      let us := match ov with
        | some v => if nv == some v then us else setUniq n i v key true us
        | none => us
      let us := match nv with
        | some v => setUniq n i v key false us
        | none => us
      reindex sc n key old new (i + 1) rest us

def applyWrites (sc : Schema) (n : Nat) : List (Bytes × Option Row) → Store → Except DmlErr Store
  | [], st => .ok st
  | (key, w) :: rest, st => do
    let old := (st.getLive key).map (·.row)
    let us ← reindex sc n key old w 0 sc.idx st.uniq
    applyWrites sc n rest { st with prim := setPrim n key w st.prim, uniq := us }

/-- COMMIT: a transaction without entries commits nothing and is not validated -/
def commit (sc : Schema) (st : Store) (se : Sess) : Except MvErr Store :=
  if se.wrows.isEmpty then .ok st
  else if !validate st se then .error .readConflict
  else
    match applyWrites sc (st.last + 1) se.wrows st with
    | .ok st' => .ok { st' with last := st.last + 1 }
    | .error e => .error (.dml e)

-- ---------------------------------------------------------------- the system of sessions

structure World where
  st : Store := {}
  sess : List Sess := []
  deriving Repr

def World.get (w : World) (i : Nat) : Sess := w.sess.getD i {}

def World.set (w : World) (i : Nat) (se : Sess) : World :=
  { w with sess := (w.sess ++ List.replicate (i + 1 - w.sess.length) ({} : Sess)).set i se }

inductive Ev
  | begin (i : Nat)
  | stmt (i : Nat) (s : Stmt)
  | commit (i : Nat)
  | rollback (i : Nat)
  deriving Repr

inductive Out
  | ok (n : Nat)
  | err (e : MvErr)
  deriving Repr

/-- one scheduled step of one session; a failing statement cancels the session's transaction -/
def step (sc : Schema) (w : World) : Ev → World × Out
  | .begin i => (w.set i (beginSess sc w.st), .ok 0)
  | .stmt i s =>
    let se := w.get i
    if !se.active then (w, .err .closed)
    else
      match execStmt sc w.st se s with
      | .ok se' => (w.set i se', .ok (se'.updated - se.updated))
      | .error e => (w.set i {}, .err e)
  | .commit i =>
    let se := w.get i
    if !se.active then (w, .err .closed)
    else
      match commit sc w.st se with
      | .ok st' => ({ (w.set i {}) with st := st' }, .ok se.updated)
      | .error e => (w.set i {}, .err e)
  | .rollback i => (w.set i {}, .ok 0)

def run (sc : Schema) (w : World) : List Ev → World × List Out
  | [] => (w, [])
  | e :: es =>
    let (w1, o) := step sc w e
    let (w2, os) := run sc w1 es
    (w2, o :: os)

/-- live rows in primary-key order: what a fresh reader sees -/
def Store.rows (st : Store) : List Row :=
  (sortByKey ((st.prim.filter (fun e => !e.deleted)).map (fun e => (e.key, e.row)))).map (·.2)

end ImmuModel.Sql.Mv
