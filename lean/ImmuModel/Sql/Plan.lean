/-
Which rows an UPDATE / DELETE reads, and in which order: the plan of the `SelectStmt` that
`UpdateStmt.execAt` / `DeleteFromStmt.execAt` resolve (`genScanSpecs`, no ORDER BY / GROUP BY / hint).

* `selectorRanges` with the `inclusive` flags of `typedValueSemiRange` (`Query.lean` models the values
  only — the scan never consults the flags; the choice of the index does, through `unitary`):
  `Pred.rangesI` is `Pred.ranges` with the flags carried along (`updateRangeFor`: `=` both closed,
  `<=`/`>=` closed, `<`/`>` open; `refineWith` / `extendWith` (`maxSemiRange`/`minSemiRange`):
  `maxSemiRange`: `inclusive = a.inclusive && b.inclusive`, `minSemiRange`: `inclusive = a.inclusive || b.inclusive` — as the code;
  a bound taken over from the refining range keeps its flag).
  `Proofs/PlanMain.lean`: erasing the flags gives `Pred.ranges` (`rangesI_erase`).
* `genScanSpecs`: no preferred index, no sort columns ⇒ the primary index; then the INLJ fall-back
  `selectINLJIndex`: the secondary index (catalog order, strict `>`: the first of the best wins) with the
  largest number of LEADING columns whose range is `unitary()` (both bounds present, inclusive,
  `Compare = 0` — the error of `Compare` is dropped and its result is then 0), if that number is > 0.
* the rows: `Query.runIndex` over the chosen index (`keyReaderSpecFrom` window on the mapped keys, rows
  in index order, the WHERE re-evaluated on every row of the window).  The window is made of KEY BYTES:
  `WHERE id = -0.0` on a FLOAT key reads only the entry whose key is the encoding of −0.0, although
  `+0.0 = -0.0` is true for `Compare` (C15 F5 / R13); the model follows the code.

Core Lean only (used by the driver).
-/
import ImmuModel.Sql.Query
namespace ImmuModel.Sql
open ImmuModel

/-- `typedValueSemiRange` -/
structure Semi where
  val : Val
  incl : Bool
  deriving Repr

/-- `typedValueRange` -/
structure IRange where
  lo : Option Semi := none
  hi : Option Semi := none
  deriving Repr

abbrev IMap := List (Nat × IRange)

def IMap.get (m : IMap) (c : Nat) : Option IRange :=
  match m with
  | [] => none
  | (k, r) :: rest => if k = c then some r else IMap.get rest c

def IMap.set (m : IMap) (c : Nat) (r : IRange) : IMap :=
  match m with
  | [] => [(c, r)]
  | (k, x) :: rest => if k = c then (k, r) :: rest else (k, x) :: IMap.set rest c r

/-- `maxSemiRange` -/
def maxSemi (a b : Semi) : Except EvalErr Semi :=
  match cmpVals a.val b.val with
  | .error e => .error e
  | .ok r => .ok { val := if r < 0 then b.val else a.val, incl := a.incl && b.incl }

/-- `minSemiRange` -/
def minSemi (a b : Semi) : Except EvalErr Semi :=
  match cmpVals a.val b.val with
  | .error e => .error e
  | .ok r => .ok { val := if r > 0 then b.val else a.val, incl := a.incl || b.incl }

def semiCombine (f : Semi → Semi → Except EvalErr Semi) : Option Semi → Option Semi → Except EvalErr (Option Semi)
  | none, y => .ok y
  | some x, none => .ok (some x)
  | some x, some y =>
    match f x y with
    | .error e => .error e
    | .ok v => .ok (some v)

/-- `typedValueRange.refineWith` -/
def IRange.refine (r n : IRange) : Except EvalErr IRange :=
  match semiCombine maxSemi r.lo n.lo with
  | .error e => .error e
  | .ok lo =>
    match semiCombine minSemi r.hi n.hi with
    | .error e => .error e
    | .ok hi => .ok { lo := lo, hi := hi }

def semiExtend (f : Semi → Semi → Except EvalErr Semi) : Option Semi → Option Semi → Except EvalErr (Option Semi)
  | some x, some y =>
    match f x y with
    | .error e => .error e
    | .ok v => .ok (some v)
  | _, _ => .ok none

/-- `typedValueRange.extendWith` -/
def IRange.extend (r n : IRange) : Except EvalErr IRange :=
  match semiExtend minSemi r.lo n.lo with
  | .error e => .error e
  | .ok lo =>
    match semiExtend maxSemi r.hi n.hi with
    | .error e => .error e
    | .ok hi => .ok { lo := lo, hi := hi }

/-- `updateRangeFor(colID, val, cmp, rangesByColID)` -/
def updateRangeForI (c : Nat) (v : Val) (op : CmpOp) (m : IMap) : Except EvalErr IMap :=
  let new : Option IRange :=
    match op with
    | .eq => some { lo := some ⟨v, true⟩, hi := some ⟨v, true⟩ }
    | .lt => some { hi := some ⟨v, false⟩ }
    | .le => some { hi := some ⟨v, true⟩ }
    | .gt => some { lo := some ⟨v, false⟩ }
    | .ge => some { lo := some ⟨v, true⟩ }
    | .ne => none
  match new with
  | none => .ok m
  | some n =>
    match m.get c with
    | none => .ok (m.set c n)
    | some cur =>
      match cur.refine n with
      | .error e => .error e
      | .ok r => .ok (m.set c r)

def mergeOrI (l r : IMap) : IMap → Except EvalErr IMap := fun m =>
  l.foldl (fun acc (c, lr) =>
    match acc with
    | .error e => .error e
    | .ok m =>
      match IMap.get r c with
      | none => .ok m
      | some rr =>
        match lr.extend rr with
        | .error e => .error e
        | .ok h => .ok (m.set c h)) (.ok m)

/-- `selectorRanges`, flags included -/
def Pred.rangesI : Pred → IMap → Except EvalErr IMap
  | .cmp c op left v, m => if left then .ok m else updateRangeForI c v op m
  | .inList c neg vs, m =>
    if neg then .ok m
    else
      match listMinMax vs with
      | none => .ok m
      | some (mn, mx) =>
        let m1 := match updateRangeForI c mn .ge m with | .ok x => x | .error _ => m
        let m2 := match updateRangeForI c mx .le m1 with | .ok x => x | .error _ => m1
        .ok m2
  | .boolCol _, m => .ok m
  | .not _, m => .ok m
  | .and p q, m =>
    match p.rangesI m with
    | .error e => .error e
    | .ok m1 => q.rangesI m1
  | .or p q, m =>
    match p.rangesI [] with
    | .error e => .error e
    | .ok l =>
      match q.rangesI [] with
      | .error e => .error e
      | .ok r => mergeOrI l r m
  | .isNullE _, m => .ok m
  | .const _, m => .ok m

/-- `typedValueRange.unitary()`: `res, _ := l.val.Compare(h.val); res == 0 && both inclusive` — a
failing `Compare` returns 0 with the error, which is dropped -/
def IRange.unitary (r : IRange) : Bool :=
  match r.lo, r.hi with
  | some l, some h =>
    (match cmpVals l.val h.val with
     | .ok c => c == 0
     | .error _ => true) && l.incl && h.incl
  | _, _ => false

/-- `Index.countEqualityCoveredCols` -/
def eqCovered (m : IMap) : List Nat → Nat
  | [] => 0
  | c :: cs =>
    match m.get c with
    | some r => if r.unitary then 1 + eqCovered m cs else 0
    | none => 0

/-- `selectINLJIndex` over the secondary indexes in catalog order; `none` = keep the primary index -/
def pickINLJ (m : IMap) : List (List Nat) → (best : Option (List Nat)) → (bestN : Nat) → Option (List Nat)
  | [], best, _ => best
  | cs :: rest, best, bestN =>
    if eqCovered m cs > bestN then pickINLJ m rest (some cs) (eqCovered m cs)
    else pickINLJ m rest best bestN

/-- the index `genScanSpecs` gives an UPDATE / DELETE … WHERE p (columns of the index; the primary key
when no secondary index has an equality-covered leading column) -/
def planIndex (pk : List Nat) (secondary : List (List Nat)) (p : Pred) : Except EvalErr (List Nat) :=
  match p.rangesI [] with
  | .error e => .error e
  | .ok m =>
    match pickINLJ m secondary none 0 with
    | some cs => .ok cs
    | none => .ok pk

/-- rows read by `UPDATE/DELETE … WHERE p`, in the order they are read -/
def planRows (cols : List Col) (pk : List Nat) (secondary : List (List Nat)) (rows : List Row) (p : Pred) :
    Except EvalErr (List Row) :=
  match planIndex pk secondary p with
  | .error e => .error e
  | .ok idx =>
    runIndex { cols := cols, pk := pk, rows := rows }
      { idx := idx, desc := false, limit := 0, offset := 0, where_ := p }

end ImmuModel.Sql
