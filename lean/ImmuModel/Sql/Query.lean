/-
C11 — fragment model of single-table SELECT evaluation in `embedded/sql`:
predicate evaluation (`CmpBoolExp/BinBoolExp/NotBoolExp/InListExp.reduce`, `conditionalRowReader.Read`),
scan-range derivation (`selectorRanges` → `updateRangeFor/refineWith/extendWith`), range → key bounds
(`keyReaderSpecFrom`), index scan (`rawRowReader` over the mapped keys of an index), OFFSET/LIMIT.

The model mirrors what the code DOES:
* comparisons are two-valued, NULL is the least value (`NullValue.Compare`, `x.Compare(NULL) = 1`);
  `IS NULL` is `CmpBoolExp{EQ, NULL}`; a boolean column that is NULL evaluates to NULL: at the top of
  WHERE the row is dropped, under NOT it is `ErrInvalidCondition`, under AND/OR `ErrInvalidValue`;
  AND/OR short-circuit;
* `CmpBoolExp.selectorRanges` derives a range only for `column op constant` (the swapped call of
  `matchingFunc` ignores its arguments: a constant on the LEFT gives no range); `<>` gives none;
  AND refines sequentially; OR keeps only the columns ranged on both sides (hull), overwriting what
  was there; `IN (…)` gives `[min,max]`; NOT / boolean column give nothing;
* the `inclusive` flags of `typedValueSemiRange` are not modelled: the scan never consults them
  (`keyReaderSpecFrom` always builds closed bounds; they only influence which index is preferred);
* `keyReaderSpecFrom`: walks the index columns while a range exists, appends the encoded bound of each
  side until that side is open, then appends `0xFF` to the upper key; `DescOrder` swaps seek/end keys;
* the index entry of a row is `encodeTuple idxCols ++ encodeTuple pkCols` (`indexEntryMapperFor`).

Modelled domain: constants have the type of their column or are NULL (`Pred.wt`), values are valid for
their column (`validKey`).  Core Lean only (used by the driver).
-/
import ImmuModel.Sql.KeyEnc
namespace ImmuModel.Sql
open ImmuModel

abbrev Row := List Val

structure Table where
  cols : List Col
  pk : List Nat
  rows : List Row
  deriving Repr

inductive CmpOp
  | eq | ne | lt | le | gt | ge
  deriving DecidableEq, Repr

/-- `cmpSatisfiesOp`. -/
def CmpOp.holds (c : Int) : CmpOp → Bool
  | .eq => c == 0
  | .ne => c != 0
  | .lt => c < 0
  | .le => c ≤ 0
  | .gt => c > 0
  | .ge => c ≥ 0

inductive Pred
  | cmp (col : Nat) (op : CmpOp) (constLeft : Bool) (v : Val)
  | inList (col : Nat) (neg : Bool) (vs : List Val)
  | boolCol (col : Nat)
  | not (p : Pred)
  | and (p q : Pred)
  | or (p q : Pred)
  | isNullE (p : Pred)          -- `(p) IS NULL`
  | const (b : Bool)
  deriving Repr

/-- `col IS NULL` / `col IS NOT NULL` as the grammar builds them. -/
def Pred.isNull (c : Nat) : Pred := .cmp c .eq false .null
def Pred.notNull (c : Nat) : Pred := .cmp c .ne false .null

/-- Evaluation errors (`errors.Is` classes). -/
inductive EvalErr
  | notComparable | invalidCondition | invalidValue | noColumn | maxLen | keyEnc
  deriving DecidableEq, Repr

def getCol (row : Row) (c : Nat) : Except EvalErr Val :=
  match row[c]? with
  | some v => .ok v
  | none => .error .noColumn

def cmpVals (a b : Val) : Except EvalErr Int :=
  match sqlCompare a b with
  | .ok c => .ok c
  | .error _ => .error .notComparable

/-- `InListExp.reduce`: first equal element decides. -/
def inListEval (v : Val) (neg : Bool) : List Val → Except EvalErr Bool
  | [] => .ok neg
  | x :: xs =>
    match cmpVals v x with
    | .error e => .error e
    | .ok c => if c = 0 then .ok (!neg) else inListEval v neg xs

/-- `reduce` of a WHERE expression on a row: `none` is the SQL NULL of type BOOLEAN. -/
def Pred.eval : Pred → Row → Except EvalErr (Option Bool)
  | .cmp c op left v, row =>
    match getCol row c with
    | .error e => .error e
    | .ok x =>
      match (if left then cmpVals v x else cmpVals x v) with
      | .error e => .error e
      | .ok r => .ok (some (op.holds r))
  | .inList c neg vs, row =>
    match getCol row c with
    | .error e => .error e
    | .ok x =>
      match inListEval x neg vs with
      | .error e => .error e
      | .ok b => .ok (some b)
  | .boolCol c, row =>
    match getCol row c with
    | .error e => .error e
    | .ok (.bool b) => .ok (some b)
    | .ok .null => .ok none
    | .ok _ => .error .invalidCondition
  | .not p, row =>
    match p.eval row with
    | .error e => .error e
    | .ok none => .error .invalidCondition
    | .ok (some b) => .ok (some (!b))
  | .and p q, row =>
    match p.eval row with
    | .error e => .error e
    | .ok none => .error .invalidValue
    | .ok (some false) => .ok (some false)
    | .ok (some true) =>
      match q.eval row with
      | .error e => .error e
      | .ok none => .error .invalidValue
      | .ok (some b) => .ok (some b)
  | .or p q, row =>
    match p.eval row with
    | .error e => .error e
    | .ok none => .error .invalidValue
    | .ok (some true) => .ok (some true)
    | .ok (some false) =>
      match q.eval row with
      | .error e => .error e
      | .ok none => .error .invalidValue
      | .ok (some b) => .ok (some b)
  | .isNullE p, row =>
    match p.eval row with
    | .error e => .error e
    | .ok none => .ok (some true)
    | .ok (some _) => .ok (some false)
  | .const b, _ => .ok (some b)

/-- `conditionalRowReader.Read`: the row is returned iff the condition is TRUE (NULL drops it). -/
def keeps (p : Pred) (row : Row) : Except EvalErr Bool :=
  match p.eval row with
  | .error e => .error e
  | .ok (some true) => .ok true
  | .ok _ => .ok false

-- ---------------------------------------------------------------- scan ranges

structure Range where
  lo : Option Val := none
  hi : Option Val := none
  deriving Repr

abbrev RangeMap := List (Nat × Range)

def RangeMap.get (m : RangeMap) (c : Nat) : Option Range :=
  match m with
  | [] => none
  | (k, r) :: rest => if k = c then some r else RangeMap.get rest c

def RangeMap.set (m : RangeMap) (c : Nat) (r : Range) : RangeMap :=
  match m with
  | [] => [(c, r)]
  | (k, x) :: rest => if k = c then (k, r) :: rest else (k, x) :: RangeMap.set rest c r

/-- `maxSemiRange` / `minSemiRange` on the values. -/
def maxVal (a b : Val) : Except EvalErr Val :=
  match cmpVals a b with
  | .error e => .error e
  | .ok r => .ok (if r < 0 then b else a)

def minVal (a b : Val) : Except EvalErr Val :=
  match cmpVals a b with
  | .error e => .error e
  | .ok r => .ok (if r > 0 then b else a)

def optCombine (f : Val → Val → Except EvalErr Val) : Option Val → Option Val → Except EvalErr (Option Val)
  | none, y => .ok y
  | some x, none => .ok (some x)
  | some x, some y =>
    match f x y with
    | .error e => .error e
    | .ok v => .ok (some v)

/-- `typedValueRange.refineWith`. -/
def Range.refine (r n : Range) : Except EvalErr Range :=
  match optCombine maxVal r.lo n.lo with
  | .error e => .error e
  | .ok lo =>
    match optCombine minVal r.hi n.hi with
    | .error e => .error e
    | .ok hi => .ok { lo := lo, hi := hi }

def optExtend (f : Val → Val → Except EvalErr Val) : Option Val → Option Val → Except EvalErr (Option Val)
  | some x, some y =>
    match f x y with
    | .error e => .error e
    | .ok v => .ok (some v)
  | _, _ => .ok none

/-- `typedValueRange.extendWith`. -/
def Range.extend (r n : Range) : Except EvalErr Range :=
  match optExtend minVal r.lo n.lo with
  | .error e => .error e
  | .ok lo =>
    match optExtend maxVal r.hi n.hi with
    | .error e => .error e
    | .ok hi => .ok { lo := lo, hi := hi }

/-- `updateRangeFor(colID, val, cmp, rangesByColID)`. -/
def updateRangeFor (c : Nat) (v : Val) (op : CmpOp) (m : RangeMap) : Except EvalErr RangeMap :=
  let new : Option Range :=
    match op with
    | .eq => some { lo := some v, hi := some v }
    | .lt | .le => some { hi := some v }
    | .gt | .ge => some { lo := some v }
    | .ne => none
  match new with
  | none => .ok m
  | some n =>
    match m.get c with
    | none => .ok (m.set c n)
    | some cur =>
      match cur.refine n with
      | .error e => .error e
      | .ok r => .ok (m.set c r)

/-- min / max of the IN list under `Compare`; `none` when a comparison fails (the hint is skipped). -/
def listMinMax : List Val → Option (Val × Val)
  | [] => none
  | v :: vs =>
    vs.foldl (fun acc x =>
      match acc with
      | none => none
      | some (mn, mx) =>
        match cmpVals x mn, cmpVals x mx with
        | .ok c1, .ok c2 => some (if c1 < 0 then x else mn, if c2 > 0 then x else mx)
        | _, _ => none) (some (v, v))

/-- OR: for every column ranged on the left that is also ranged on the right, the hull replaces the
entry of the accumulated map. -/
def mergeOr (l r : RangeMap) : RangeMap → Except EvalErr RangeMap := fun m =>
  l.foldl (fun acc (c, lr) =>
    match acc with
    | .error e => .error e
    | .ok m =>
      match RangeMap.get r c with
      | none => .ok m
      | some rr =>
        match lr.extend rr with
        | .error e => .error e
        | .ok h => .ok (m.set c h)) (.ok m)

/-- `selectorRanges`. -/
def Pred.ranges : Pred → RangeMap → Except EvalErr RangeMap
  | .cmp c op left v, m => if left then .ok m else updateRangeFor c v op m
  | .inList c neg vs, m =>
    if neg then .ok m
    else
      match listMinMax vs with
      | none => .ok m
      | some (mn, mx) =>
        -- `_ = updateRangeFor(…)`: errors of the two updates are ignored
        let m1 := match updateRangeFor c mn .ge m with | .ok x => x | .error _ => m
        let m2 := match updateRangeFor c mx .le m1 with | .ok x => x | .error _ => m1
        .ok m2
  | .boolCol _, m => .ok m
  | .not _, m => .ok m
  | .and p q, m =>
    match p.ranges m with
    | .error e => .error e
    | .ok m1 => q.ranges m1
  | .or p q, m =>
    match p.ranges [] with
    | .error e => .error e
    | .ok l =>
      match q.ranges [] with
      | .error e => .error e
      | .ok r => mergeOr l r m
  | .isNullE _, m => .ok m       -- CmpBoolExp whose left side is not a column selector
  | .const _, m => .ok m

-- ---------------------------------------------------------------- index keys and key bounds

def pick (row : Row) (cs : List Nat) : Except EvalErr (List Val) :=
  cs.mapM (getCol row)

def pickCols (cols : List Col) (cs : List Nat) : Except EvalErr (List Col) :=
  cs.mapM (fun c => match cols[c]? with | some x => .ok x | none => .error .noColumn)

def encTuple (cols : List Col) (vs : List Val) : Except EvalErr Bytes :=
  match encodeTuple cols vs with
  | .ok b => .ok b
  | .error .maxLenExceeded => .error .maxLen
  | .error _ => .error .keyEnc

/-- Mapped key of a row in the index over `idx` (without the common table/index prefix). -/
def indexKey (t : Table) (idx : List Nat) (row : Row) : Except EvalErr Bytes := do
  let ic ← pickCols t.cols idx
  let iv ← pick row idx
  let pc ← pickCols t.cols t.pk
  let pv ← pick row t.pk
  let a ← encTuple ic iv
  let b ← encTuple pc pv
  pure (a ++ b)

def encBound (c : Col) (v : Val) : Except EvalErr Bytes :=
  match encodeKey v c.ty c.maxLen with
  | .ok (e, _) => .ok e
  | .error .maxLenExceeded => .error .maxLen
  | .error _ => .error .keyEnc

/-- `keyReaderSpecFrom`: (loKey, hiKey) for the index columns `idx`, in key-byte terms. -/
def keyBounds (cols : List Col) (m : RangeMap) :
    List Nat → (lo hi : Bytes) → (loReady hiReady : Bool) → Except EvalErr (Bytes × Bytes)
  | [], lo, hi, _, _ => .ok (lo, hi ++ [0xFF])
  | c :: rest, lo, hi, loReady, hiReady =>
    match RangeMap.get m c with
    | none => .ok (lo, hi ++ [0xFF])
    | some r =>
      match cols[c]? with
      | none => .error .noColumn
      | some col =>
        let hiStep : Except EvalErr (Bytes × Bool) :=
          if hiReady then .ok (hi, true)
          else match r.hi with
            | none => .ok (hi, true)
            | some v => match encBound col v with
              | .ok e => .ok (hi ++ e, false)
              | .error e => .error e
        match hiStep with
        | .error e => .error e
        | .ok (hi', hiReady') =>
          let loStep : Except EvalErr (Bytes × Bool) :=
            if loReady then .ok (lo, true)
            else match r.lo with
              | none => .ok (lo, true)
              | some v => match encBound col v with
                | .ok e => .ok (lo ++ e, false)
                | .error e => .error e
          match loStep with
          | .error e => .error e
          | .ok (lo', loReady') => keyBounds cols m rest lo' hi' loReady' hiReady'

/-- key reader window: `SeekKey ≤ k ≤ EndKey`, both inclusive. -/
def inWindow (lo hi k : Bytes) : Bool := !lexLt k lo && !lexLt hi k

-- ---------------------------------------------------------------- scans

/-- insertion into a list sorted by key bytes (keys of distinct rows are distinct: the pk is part). -/
def insertByKey (kr : Bytes × Row) : List (Bytes × Row) → List (Bytes × Row)
  | [] => [kr]
  | x :: xs => if lexLt kr.1 x.1 then kr :: x :: xs else x :: insertByKey kr xs

def sortByKey (l : List (Bytes × Row)) : List (Bytes × Row) :=
  l.foldr insertByKey []

/-- all rows of the table keyed by their entry in the index `idx`, in index order -/
def indexView (t : Table) (idx : List Nat) : Except EvalErr (List (Bytes × Row)) := do
  let ks ← t.rows.mapM (fun r => do let k ← indexKey t idx r; pure (k, r))
  pure (sortByKey ks)

/-- WHERE + OFFSET + LIMIT over a row stream, stopping as the readers do: a row after the last one
needed is never evaluated (`limit = 0` means no limit, as the engine treats `LIMIT 0`). -/
def takeWhere (p : Pred) : List Row → (skip : Nat) → (limit : Nat) → (taken : Nat) → Except EvalErr (List Row)
  | [], _, _, _ => .ok []
  | r :: rs, skip, limit, taken =>
    if limit ≠ 0 ∧ taken ≥ limit then .ok []
    else
      match keeps p r with
      | .error e => .error e
      | .ok false => takeWhere p rs skip limit taken
      | .ok true =>
        if skip > 0 then takeWhere p rs (skip - 1) limit taken
        else
          match takeWhere p rs 0 limit (taken + 1) with
          | .error e => .error e
          | .ok out => .ok (r :: out)

structure Query where
  idx : List Nat          -- forced index (USE INDEX ON)
  desc : Bool             -- ORDER BY <leading index column> DESC
  limit : Nat             -- 0 = none
  offset : Nat
  where_ : Pred

/-- `SELECT * FROM t USE INDEX ON (idx) WHERE p [ORDER BY idx₀ DESC] [LIMIT n] [OFFSET m]`. -/
def runIndex (t : Table) (q : Query) : Except EvalErr (List Row) := do
  let m ← q.where_.ranges []
  let (lo, hi) ← keyBounds t.cols m q.idx [] [] false false
  let view ← indexView t q.idx
  let inside := view.filter (fun kr => inWindow lo hi kr.1)
  let ordered := if q.desc then inside.reverse else inside
  takeWhere q.where_ (ordered.map (·.2)) q.offset q.limit 0

/-- the same query answered by a scan of ALL entries of the index (no range), then the filter -/
def runFull (t : Table) (q : Query) : Except EvalErr (List Row) := do
  let view ← indexView t q.idx
  let ordered := if q.desc then view.reverse else view
  takeWhere q.where_ (ordered.map (·.2)) q.offset q.limit 0

-- ---------------------------------------------------------------- specification predicates

/-- constants of a predicate have the type of their column (or are NULL) and are valid keys of it;
boolean columns are BOOLEAN columns -/
def Pred.wt (cols : List Col) : Pred → Bool
  | .cmp c _ _ v => match cols[c]? with | some col => validKey col.ty col.maxLen v | none => false
  | .inList c _ vs => match cols[c]? with | some col => vs.all (validKey col.ty col.maxLen) | none => false
  | .boolCol c => match cols[c]? with | some col => col.ty == .boolean && decide (col.maxLen = 1) | none => false
  | .not p => p.wt cols
  | .and p q => p.wt cols && q.wt cols
  | .or p q => p.wt cols && q.wt cols
  | .isNullE p => p.wt cols
  | .const _ => true

/-- no NaN / signed-zero subtleties in a value (the exclusions of C15's `orderSafe`) -/
def plainVal : Val → Bool
  | .float b => !isNaN b && !(isZeroF b && b != 0)
  | _ => true

def Pred.plain : Pred → Bool
  | .cmp _ _ _ v => plainVal v
  | .inList _ _ vs => vs.all plainVal
  | .not p => p.plain
  | .and p q => p.plain && q.plain
  | .or p q => p.plain && q.plain
  | .isNullE p => p.plain
  | _ => true

/-- a row fits the table: one valid value per column -/
def rowOK (cols : List Col) (row : Row) : Bool :=
  validTuple cols row && row.all plainVal

def Table.wf (t : Table) : Bool :=
  t.rows.all (rowOK t.cols) && t.pk.all (· < t.cols.length)

end ImmuModel.Sql
