/-
C02 — the commit state machine of embedded/store/immustore.go at LOCK granularity.

One `step` = one critical section of the code (what `s.mutex` / `commitStateRWMutex` make atomic):
`precommit` (own header or supplied header) incl. `performPrecommit` and, in unsynced mode, the
`mayCommit` it ends with; `sync()`; `DiscardPrecommittedTxsSince`; `AllowCommitUpto`;
`SetExternalCommitAllowance`; `Close`; `Open`.

What is kept of the files (record granularity, not bytes; byte layout is C01/C09/C17's business):

* `log`/`logEnd`  – the tx log and `precommittedTxLogSize`.  Every write is
  `SetOffset(precommittedTxLogSize)` followed by `Append`, i.e. `writeRec log logEnd rec`: the
  bytes are overwritten IN PLACE and nothing is truncated, so the records physically behind the
  written one stay parseable exactly when the new record has the serialized size (`recSize`) of
  the record it replaces; otherwise what follows is misaligned garbage.
  `logEnd` only advances when `performPrecommit` succeeds.  Discarding does NOT move `logEnd`
  back (as in the code), so discarded records stay in the log and are found again by `Open`;
  `Open` restarts `logEnd` right after the last reloaded record, so the records of a discarded
  branch can sit behind the live tail and are overwritten one by one (seeded change c02-a).
* `clog`/`committed` – the commit log and `committedTxID`.  Every write is
  `SetOffset(committedTxID*entrySize)` followed by appends, i.e. `clog.take committed ++ …`;
  a commit that fails half-way leaves its appended entries physically behind (`Close` flushes
  them, `Open` counts them).
* `buf` – `cLogBuf` (precommitBuffer): the precommitted, not yet committed entries.
* `aht`, `ahtP`, `ahtBuf` – the binary-linking tree (C08's `AHT`: payload log + digest groups): the
  in-memory view, what is PHYSICALLY in its files, and the number of appends since the last tree
  sync.  `ResetSize` syncs and then only shrinks the in-memory sizes; the files are never truncated,
  a later sync overwrites them from the front (`overlay`), and `Open` takes the physical size: a
  rolled-back tail re-appears after a restart together with its STALE digests (C08 known finding
  "stale-tail-after-reset"); the store only cuts it down to the number of precommitted txs.

Abstraction assumed of the appendables (C17): `SetOffset` alone drops nothing that is in the file;
a record that was partly overwritten, or that no longer starts where the previous record ends,
is never parsed as a record again (in particular a stale record that becomes aligned again only
after SEVERAL records of a different total layout were written over its predecessors is treated
as lost).
-/
import ImmuModel.Store.History
import ImmuModel.Merkle.HTree
import ImmuModel.Merkle.AHTree

namespace ImmuModel.Store.Commit
open ImmuModel ImmuModel.Tx ImmuModel.Merkle ImmuModel.Store

variable {D : Type}

/-- A tx entry as stored in the tx log: key, `KVMetadata.Bytes()`, value length, value hash. -/
structure Entry (D : Type) where
  key : Bytes
  md : Bytes
  vlen : Nat
  hval : D

/-- One tx-log record. -/
structure Rec (D : Type) where
  hdr : TxHeader D
  entries : List (Entry D)
  alh : D

/-- A commit-log / cLogBuf entry: tx id, accumulated hash, offset of the record in the tx log. -/
structure Ent (D : Type) where
  txID : Nat
  alh : D
  off : Nat

/-- Run-time options that matter for the protocol. -/
structure Cfg where
  /-- values embedded in the tx log (fixed at creation: `Open` takes it from the file metadata) -/
  embedded : Bool
  synced : Bool
  maxActive : Nat
  version : Nat
  maxTxEntries : Nat
  ahtSyncThld : Nat

structure St (D : Type) where
  cfg : Cfg
  log : List (Rec D)
  logEnd : Nat
  clog : List (Ent D)
  committed : Nat
  comAlh : D
  buf : List (Ent D)
  bufCap : Nat
  preID : Nat
  preAlh : D
  /-- `inmemPrecommitWHub.doneUpto`: the highest id ever precommitted in this run (discarding does
  not recede this hub) -/
  hubPre : Nat
  useExt : Bool
  allowed : Nat
  aht : AHT D
  ahtP : AHT D
  ahtBuf : Nat
  closed : Bool

inductive Err
  | alreadyClosed | noEntries | maxTxEntries | mdUnsupported | badVersion | illegalArgs
  | ehMismatch | blRootMismatch | prevAlhMismatch
  | alreadyCommitted | maxActive | blocked | ahtError | wrongOrder | precondition | linking
  | bufferFull | notEnoughData | unexpected | illegalState | corrupted | notClosed
  deriving DecidableEq, Repr

inductive Out (D : Type)
  | ok
  | okTx (id : Nat) (alh : D)
  | okN (n : Nat)
  | err (e : Err)
  | panic

/-- Serialized size of a tx-log record as written by `performPrecommit`: header
(`id, ts, blTxID, blRoot, prevAlh, version` = 90 bytes; v0: `nentries:2`; v1: `mdLen:2, md,
nentries:4`), per entry `mdLen:2, md, kLen:2, key, vLen:4, vOff:8, hVal:32`, the trailing Alh (32);
with embedded values the record is preceded by `valuesLen:2` and the values themselves. -/
def recSize (embedded : Bool) (r : Rec D) : Nat :=
  let hdr := Gen.storeTxIDSize + Gen.storeTsSize + Gen.storeTxIDSize + 32 + 32 + Gen.storeSszSize
    + (if r.hdr.version = 0 then Gen.storeSszSize
       else Gen.storeSszSize + r.hdr.md.length + Gen.storeLszSize)
  let ents := (r.entries.map (fun e =>
    Gen.storeSszSize + e.md.length + Gen.storeSszSize + e.key.length + Gen.storeLszSize
      + Gen.storeOffsetSize + 32)).sum
  let pfx := if embedded then Gen.storeSszSize + (r.entries.map (·.vlen)).sum else 0
  pfx + hdr + ents + 32

/-- `txLog.SetOffset(pos)` followed by `txLog.Append(rec)`: the record at `pos` is overwritten in
place; the records behind it survive iff the sizes agree (nothing is ever truncated). -/
def writeRec (embedded : Bool) (log : List (Rec D)) (pos : Nat) (r : Rec D) : List (Rec D) :=
  log.take pos ++ [r] ++
    (match log[pos]? with
     | some old => if recSize embedded old = recSize embedded r then log.drop (pos + 1) else []
     | none => [])

/-- A fresh store (`Open` on an empty directory). `H []` is `sha256.Sum256(nil)`. -/
def init (hs : Hs D) (cfg : Cfg) (useExt : Bool) : St D :=
  { cfg := cfg, log := [], logEnd := 0, clog := [], committed := 0, comAlh := hs.H [],
    buf := [], bufCap := cfg.maxActive, preID := 0, preAlh := hs.H [], hubPre := 0, useExt := useExt,
    allowed := 0, aht := AHT.empty, ahtP := AHT.empty, ahtBuf := 0, closed := false }

/-! ### entries hash -/

/-- `TxEntryDigest_v1_1` / `TxEntryDigest_v1_2`. -/
def entryDigest (hs : Hs D) (version : Nat) (e : Entry D) : Except Err D :=
  if version = 0 then
    (if e.md ≠ [] then .error .mdUnsupported else .ok (entryDigestV0 hs e.key e.hval))
  else .ok (entryDigestV1 hs e.md e.key e.hval)

def entryDigests (hs : Hs D) (version : Nat) : List (Entry D) → Except Err (List D)
  | [] => .ok []
  | e :: es =>
    match entryDigest hs version e with
    | .error x => .error x
    | .ok d => match entryDigests hs version es with
      | .error x => .error x
      | .ok ds => .ok (d :: ds)

/-- `Tx.BuildHashTree`: unknown header version first, then the digests in order, then `BuildWith`. -/
def ehOf (hs : Hs D) (version : Nat) (es : List (Entry D)) : Except Err D :=
  if version ≠ 0 ∧ version ≠ 1 then .error .badVersion
  else match entryDigests hs version es with
    | .error x => .error x
    | .ok ds => .ok (HTree.build hs.mhH hs.enc ds).root

/-! ### binary-linking tree -/

/-- What the tree files hold after writing the in-memory tree `cur` over `phys` from the front. -/
def overlay (cur phys : AHT D) : AHT D :=
  ⟨cur.payloads ++ phys.payloads.drop cur.payloads.length, cur.groups ++ phys.groups.drop cur.groups.length⟩

def ahtSync (s : St D) : St D :=
  if s.ahtBuf = 0 then s else { s with ahtP := overlay s.aht s.ahtP, ahtBuf := 0 }

/-- `aht.Append(alh)`; `none` = a digest could not be read (never on reachable states). -/
def ahtAppend (hs : Hs D) (s : St D) (a : D) : Option (St D) :=
  match AHT.append hs.mh s.aht (hs.enc a) with
  | none => none
  | some t =>
    let s1 := { s with aht := t, ahtBuf := s.ahtBuf + 1 }
    some (if s1.ahtBuf = s1.cfg.ahtSyncThld then ahtSync s1 else s1)

/-- `aht.ResetSize(m)`; `none` = ErrCannotResetToLargerSize. -/
def ahtReset (s : St D) (m : Nat) : Option (St D) :=
  if s.aht.size < m then none
  else if s.aht.size = m then some s
  else
    let s1 := ahtSync s
    some { s1 with aht := ⟨s1.aht.payloads.take m, s1.aht.groups.take m⟩ }

/-- `if blTxID > 0 { blRoot, err = aht.RootAt(blTxID); if err != nil && !ErrEmptyTree {return err} }`;
`z` is the zero value `[32]byte{}`: what the local variable holds in `precommit`'s check, and what
`performPrecommit` assigns to the pooled holder's `BlRoot` field in its `else` branch (`blTxID = 0`)
— before the repair the field kept the `BlRoot` of the holder's previous tx there. -/
def blRootFor (z : D) (s : St D) (blTxID : Nat) : Except Err D :=
  if blTxID = 0 then .ok z
  else match AHT.rootAt s.aht blTxID with
    | .ok r => .ok r
    | .error .emptyTree => .ok z
    | .error _ => .error .ahtError

/-! ### committing (`mayCommit`, second half of `sync`) -/

def commitAllowedUpTo (s : St D) : Nat := if s.useExt then s.allowed else s.preID

/-- Body shared by `mayCommit` and `sync()`.  The commit log is written at
`committedTxID * entrySize` only. -/
def commitUpTo (s : St D) : St D × Option Err :=
  let upTo := commitAllowedUpTo s
  if upTo = s.committed then (s, none)
  else
    let s1 := { s with clog := s.clog.take s.committed }     -- cLog.SetOffset(committedTxID*entrySize)
    if upTo < s.committed then (s1, some .unexpected)        -- count wraps negative: loop is skipped, fuse/advanceReader fail
    else
      let n := upTo - s.committed
      if s.buf.length < n then
        -- readAhead(i) fails at i = |buf| after |buf| entries were appended
        ({ s1 with clog := s1.clog ++ s.buf }, some .notEnoughData)
      else
        let moved := s.buf.take n
        let s2 := { s1 with clog := s1.clog ++ moved }
        match moved.getLast? with
        | none => (s2, some .unexpected)
        | some last =>
          if last.txID ≠ upTo then (s2, some .unexpected)   -- "safety fuse"
          else ({ s2 with buf := s.buf.drop n, committed := upTo, comAlh := last.alh }, none)

/-! ### precommit -/

/-- What `precommit` hands over to `performPrecommit`. -/
structure TxIn (D : Type) where
  version : Nat
  md : Bytes
  entries : List (Entry D)
  eh : D

def performPrecommit (hs : Hs D) (z : D) (s : St D) (tx : TxIn D) (ts blTxID : Nat) : St D × Out D :=
  if s.cfg.synced = true ∧ s.committed + s.cfg.maxActive ≤ s.preID then (s, .err .maxActive)
  else
    -- txLog.SetOffset(precommittedTxLogSize): moves the write position only
    let id := s.preID + 1
    match blRootFor z s blTxID with
    | .error e => (s, .err e)
    | .ok blRoot =>
      if id ≤ blTxID then (s, .err .linking)
      else
        let hdr : TxHeader D :=
          { id := id, ts := ts, blTxID := blTxID, blRoot := blRoot, prevAlh := s.preAlh,
            version := tx.version, md := (if tx.version = 0 then [] else tx.md),
            nentries := tx.entries.length, eh := tx.eh }
        match alh hs hdr with
        | none => (s, .panic)                                 -- "missing tx serialization method for version"
        | some a =>
          let s := { s with log := writeRec s.cfg.embedded s.log s.logEnd ⟨hdr, tx.entries, a⟩ }   -- txLog.Append
          match ahtReset s s.preID with
          | none => (s, .err .ahtError)
          | some s =>
            match ahtAppend hs s a with
            | none => (s, .err .ahtError)
            | some s =>
              if s.bufCap ≤ s.buf.length then (s, .err .bufferFull)   -- cLogBuf.put
              else
                let s := { s with buf := s.buf ++ [⟨id, a, s.logEnd⟩], preID := id, preAlh := a,
                                  logEnd := s.logEnd + 1,
                                  hubPre := (if s.hubPre < id then id else s.hubPre) }
                if s.cfg.synced then (s, .okTx id a)
                else match commitUpTo s with
                  | (s, none) => (s, .okTx id a)
                  | (s, some e) => (s, .err e)

/-- An own commit: `precommit(otx, nil)`.  `hasPre`/`preOk`: the tx carries preconditions / they
hold on the index (the KV index is not part of this model; the harness supplies the verdict
from its own shadow map). -/
structure OwnReq (D : Type) where
  ts : Nat
  md : Bytes
  entries : List (Entry D)
  hasPre : Bool
  preOk : Bool

def precommitOwn (hs : Hs D) (z : D) (s : St D) (q : OwnReq D) : St D × Out D :=
  if q.entries.isEmpty = true ∧ q.md = [] then (s, .err .noEntries)
  else if s.cfg.maxTxEntries < q.entries.length then (s, .err .maxTxEntries)
  else match ehOf hs s.cfg.version q.entries with
    | .error e => (s, .err e)
    | .ok eh =>
      if s.closed then (s, .err .alreadyClosed)
      else if q.hasPre = true ∧ s.committed < s.preID then (s, .err .blocked)   -- WaitForIndexingUpto(precommitted) under s.mutex
      else if q.hasPre = true ∧ q.preOk = false then (s, .err .precondition)
      else performPrecommit hs z s ⟨s.cfg.version, q.md, q.entries, eh⟩ q.ts s.aht.size

/-- A replicated commit: `precommit(otx, hdr)` as called by `ReplicateTx`. -/
structure RepReq (D : Type) where
  hdr : TxHeader D
  entries : List (Entry D)
  skip : Bool

variable [DecidableEq D]

def precommitRep (hs : Hs D) (z : D) (s : St D) (q : RepReq D) : St D × Out D :=
  -- `TxHeader.ReadFrom` as called by `ReplicateTx` (the only public way to reach `precommit` with a header)
  if q.hdr.id < 1 then (s, .err .illegalArgs)
  else if q.hdr.version ≠ 0 ∧ q.hdr.version ≠ 1 then (s, .err .badVersion)
  else if q.hdr.nentries < 1 then (s, .err .illegalArgs)
  else if q.hdr.id ≤ q.hdr.blTxID then (s, .err .illegalArgs)
  else if q.entries.length ≠ q.hdr.nentries then (s, .err .illegalArgs)      -- validateAgainst
  else if q.entries.isEmpty = true ∧ q.hdr.md = [] then (s, .err .noEntries)
  else if s.cfg.maxTxEntries < q.entries.length then (s, .err .maxTxEntries)
  else match ehOf hs q.hdr.version q.entries with
    | .error e => (s, .err e)
    | .ok eh =>
      if q.skip = false ∧ eh ≠ q.hdr.eh then (s, .err .ehMismatch)
      else if q.hdr.id ≤ s.preID then (s, .err .alreadyCommitted)
      else if s.preID + s.cfg.maxActive < q.hdr.id then (s, .err .maxActive)
      else if s.closed then (s, .err .alreadyClosed)                           -- inmemPrecommitWHub.WaitFor on a closed hub
      else if s.hubPre < q.hdr.id - 1 then (s, .err .blocked)                 -- WaitFor(hdr.ID-1)
      else match blRootFor z s q.hdr.blTxID with
        | .error e => (s, .err e)
        | .ok r =>
          if r ≠ q.hdr.blRoot then (s, .err .blRootMismatch)
          -- s.mutex taken here
          else if q.hdr.id - 1 < s.preID then (s, .err .alreadyCommitted)
          else if s.preID < q.hdr.id - 1 then (s, .err .wrongOrder)
          else if s.preAlh ≠ q.hdr.prevAlh then (s, .err .prevAlhMismatch)
          else performPrecommit hs z s ⟨q.hdr.version, q.hdr.md, q.entries, eh⟩ q.hdr.ts q.hdr.blTxID

/-! ### the other critical sections -/

def wrap (r : St D × Option Err) : St D × Out D :=
  match r with
  | (s, none) => (s, .ok)
  | (s, some e) => (s, .err e)

/-- `Sync()` / the syncer's `sync()`. -/
def syncOp (s : St D) : St D × Out D :=
  if s.closed then (s, .err .alreadyClosed)
  else if s.preID = s.committed then (s, .ok)
  else wrap (commitUpTo s)

def allowUpto (s : St D) (txID : Nat) : St D × Out D :=
  if s.useExt = false then (s, .err .illegalState)
  else if txID ≤ s.allowed then (s, .ok)
  else
    let s := { s with allowed := if s.preID < txID then s.preID else txID }
    if s.cfg.synced then (s, .ok) else wrap (commitUpTo s)

def setExt (s : St D) (b : Bool) : St D × Out D :=
  ({ s with useExt := b, allowed := if b then s.committed else s.allowed }, .ok)

def discard (s : St D) (txID : Nat) : St D × Out D :=
  if s.closed then (s, .err .alreadyClosed)
  else if txID = 0 then (s, .err .illegalArgs)
  else if txID ≤ s.committed then (s, .err .illegalArgs)       -- "only precommitted transactions can be discarded"
  else if s.preID < txID then (s, .okN 0)
  else
    let n := s.preID + 1 - txID
    if s.aht.size < n then (s, .err .ahtError)
    else match ahtReset s (s.aht.size - n) with
      | none => (s, .err .ahtError)
      | some s =>
        if s.buf.length < n then (s, .err .notEnoughData)      -- recedeWriter
        else
          let s := { s with buf := s.buf.take (s.buf.length - n) }
          if txID - 1 = s.committed then
            ({ s with preID := s.committed, preAlh := s.comAlh }, .okN n)
          else match s.buf[s.preID - s.committed - 1 - n]? with
            | some e =>
              if e.txID = txID - 1 then ({ s with preID := txID - 1, preAlh := e.alh }, .okN n)
              else ({ s with preID := s.committed, preAlh := s.comAlh }, .okN 0)
            | none => ({ s with preID := s.committed, preAlh := s.comAlh }, .err .notEnoughData)

def closeStore (s : St D) : St D × Out D :=
  if s.closed then (s, .err .alreadyClosed)
  else ({ ahtSync s with closed := true }, .ok)

/-- Accumulated hashes of the live transactions 1..preID (commit log up to `committed`, then cLogBuf). -/
def liveEnts (s : St D) : List (Ent D) := s.clog.take s.committed ++ s.buf
def liveAlhs (s : St D) : List D := (liveEnts s).map (·.alh)

/-- The reload loop of `OpenWith` over the records physically following the last committed one. -/
def scan (s : St D) : List (Rec D) → St D
  | [] => s
  | r :: rest =>
    if r.hdr.id = s.preID + 1 ∧ r.hdr.prevAlh = s.preAlh then
      scan { s with buf := s.buf ++ [⟨s.preID + 1, r.alh, s.logEnd⟩],
                    bufCap := (if s.bufCap ≤ s.buf.length then 2 * s.bufCap else s.bufCap),
                    preID := s.preID + 1, preAlh := r.alh, logEnd := s.logEnd + 1 } rest
    else s

/-- `syncBinaryLinking`: append the accumulated hashes the tree is missing (a failing `Append` is
ignored by the code). -/
def ahtAppendAll (hs : Hs D) (s : St D) : List D → St D
  | [] => s
  | a :: rest =>
    match ahtAppend hs s a with
    | none => s
    | some s' => ahtAppendAll hs s' rest

/-- `aht` part of `OpenWith`: the tree comes back with its physical size; truncate a longer tree,
`syncBinaryLinking` a shorter one.  The fresh `inmemPrecommitWHub` is done up to the reloaded id. -/
def finishOpen (hs : Hs D) (s : St D) : St D :=
  let s := { s with aht := s.ahtP, ahtBuf := 0, hubPre := s.preID }
  let s := if s.preID < s.aht.size then { s with aht := ⟨s.aht.payloads.take s.preID, s.aht.groups.take s.preID⟩ } else s
  ahtAppendAll hs s ((liveAlhs s).drop s.aht.size)

/-- `Open` of a closed store, possibly with other run-time options.  With embedded values each
record is preceded in the tx log by its values; the reload loop starts reading at that prefix
instead of the next header and stops at once (measured), so nothing is reloaded. -/
def openStore (hs : Hs D) (s : St D) (cfg : Cfg) (useExt : Bool) : St D × Out D :=
  if s.closed = false then (s, .err .notClosed)
  else
    let cfg := { cfg with embedded := s.cfg.embedded }
    let n := s.clog.length
    match s.clog.getLast? with
    | none =>
      let s0 := { s with cfg := cfg, committed := 0, comAlh := hs.H [], buf := [], bufCap := cfg.maxActive,
                         preID := 0, preAlh := hs.H [], logEnd := 0, useExt := useExt, allowed := 0,
                         closed := false }
      (finishOpen hs (scan s0 (if cfg.embedded then [] else s.log)), .ok)
    | some e =>
      match s.log[e.off]? with
      | none => (s, .err .corrupted)
      | some r =>
        if r.alh ≠ e.alh then (s, .err .corrupted)
        else
          let s0 := { s with cfg := cfg, committed := n, comAlh := e.alh, buf := [], bufCap := cfg.maxActive,
                             preID := n, preAlh := e.alh, logEnd := e.off + 1, useExt := useExt, allowed := n,
                             closed := false }
          (finishOpen hs (scan s0 (if cfg.embedded then [] else s.log.drop (e.off + 1))), .ok)

/-! ### the machine -/

inductive Op (D : Type)
  | own (q : OwnReq D)
  | rep (q : RepReq D)
  | sync
  | discard (txID : Nat)
  | allow (txID : Nat)
  | setExt (b : Bool)
  | close
  | open_ (cfg : Cfg) (useExt : Bool)

def step (hs : Hs D) (z : D) (s : St D) : Op D → St D × Out D
  | .own q => precommitOwn hs z s q
  | .rep q => precommitRep hs z s q
  | .sync => syncOp s
  | .discard t => discard s t
  | .allow t => allowUpto s t
  | .setExt b => setExt s b
  | .close => closeStore s
  | .open_ cfg e => openStore hs s cfg e

def run (hs : Hs D) (z : D) (s : St D) : List (Op D) → St D
  | [] => s
  | op :: ops => run hs z (step hs z s op).1 ops

/-- What the store reports as committed: tx `k` is the record the `k`-th commit-log entry points to. -/
def committedRecs (s : St D) : List (Option (Rec D)) :=
  (s.clog.take s.committed).map (fun e => s.log[e.off]?)

/-- All live (committed, then precommitted) records. -/
def liveRecs (s : St D) : List (Option (Rec D)) :=
  (liveEnts s).map (fun e => s.log[e.off]?)

end ImmuModel.Store.Commit
