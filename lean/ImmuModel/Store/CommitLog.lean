/-
C02 — proofs about the log part of the invariant (`InvLog`) of the commit state machine:
it holds initially, every step preserves it, the committed history only grows by appending,
and the committed part is a dense `PrevAlh` chain of real records.
-/
import ImmuModel.Store.CommitInv
import ImmuModel.Store.CommitWrite

namespace ImmuModel.Store.Commit
open ImmuModel ImmuModel.Tx ImmuModel.Merkle ImmuModel.Store

variable {D : Type}

/-! ### `lastAlh`, `endOff` -/

@[simp] theorem lastAlh_nil (d : D) : lastAlh d ([] : List (Ent D)) = d := rfl

@[simp] theorem lastAlh_cons (d : D) (e : Ent D) (es : List (Ent D)) :
    lastAlh d (e :: es) = lastAlh e.alh es := by
  cases es with
  | nil => rfl
  | cons a as => simp only [lastAlh, List.getLast?_cons_cons]; rw [List.getLast?_cons]

@[simp] theorem endOff_nil (lo : Nat) : endOff lo ([] : List (Ent D)) = lo := rfl

@[simp] theorem endOff_cons (lo : Nat) (e : Ent D) (es : List (Ent D)) :
    endOff lo (e :: es) = endOff (e.off + 1) es := by
  cases es with
  | nil => rfl
  | cons a as => simp only [endOff, List.getLast?_cons_cons]; rw [List.getLast?_cons]

theorem lastAlh_append (d : D) (xs ys : List (Ent D)) :
    lastAlh d (xs ++ ys) = lastAlh (lastAlh d xs) ys := by
  induction xs generalizing d with
  | nil => simp
  | cons x xs ih => simp [ih]

theorem endOff_append (lo : Nat) (xs ys : List (Ent D)) :
    endOff lo (xs ++ ys) = endOff (endOff lo xs) ys := by
  induction xs generalizing lo with
  | nil => simp
  | cons x xs ih => simp [ih]

theorem lastAlh_of_getLast? {d : D} {es : List (Ent D)} {e : Ent D} (h : es.getLast? = some e) :
    lastAlh d es = e.alh := by
  simp [lastAlh, h]

theorem endOff_of_getLast? {lo : Nat} {es : List (Ent D)} {e : Ent D} (h : es.getLast? = some e) :
    endOff lo es = e.off + 1 := by
  simp [endOff, h]

theorem lastAlh_eq_getD (d : D) (es : List (Ent D)) :
    lastAlh d es = ((es.map (·.alh)).getLast?).getD d := by
  unfold lastAlh
  rw [List.getLast?_map]
  cases es.getLast? <;> rfl

/-! ### `Chain` -/

@[simp] theorem Chain_nil (hs : Hs D) (log : List (Rec D)) (hi i : Nat) (p : D) (lo : Nat) :
    Chain hs log hi i p lo [] := trivial

theorem Chain_cons (hs : Hs D) (log : List (Rec D)) (hi i : Nat) (p : D) (lo : Nat) (e : Ent D)
    (es : List (Ent D)) :
    Chain hs log hi i p lo (e :: es) ↔
      RecAt hs log i p e ∧ lo ≤ e.off ∧ e.off < hi ∧ Chain hs log hi (i + 1) e.alh (e.off + 1) es :=
  Iff.rfl

theorem Chain_append {hs : Hs D} {log : List (Rec D)} {hi : Nat} {i : Nat} {p : D} {lo : Nat}
    {xs ys : List (Ent D)} :
    Chain hs log hi i p lo (xs ++ ys) ↔
      Chain hs log hi i p lo xs ∧ Chain hs log hi (i + xs.length) (lastAlh p xs) (endOff lo xs) ys := by
  induction xs generalizing i p lo with
  | nil => simp
  | cons x xs ih =>
    simp only [List.cons_append, Chain_cons, ih, List.length_cons, lastAlh_cons, endOff_cons]
    have : i + 1 + xs.length = i + (xs.length + 1) := by omega
    rw [this]
    constructor
    · rintro ⟨a, b, c, d, e⟩; exact ⟨⟨a, b, c, d⟩, e⟩
    · rintro ⟨⟨a, b, c, d⟩, e⟩; exact ⟨a, b, c, d, e⟩

theorem Chain.mono {hs : Hs D} {log : List (Rec D)} {hi hi' i : Nat} {p : D} {lo lo' : Nat}
    {xs : List (Ent D)} (h : Chain hs log hi i p lo xs) (hhi : hi ≤ hi') (hlo : lo' ≤ lo) :
    Chain hs log hi' i p lo' xs := by
  induction xs generalizing i p lo lo' with
  | nil => trivial
  | cons x xs ih =>
    obtain ⟨a, b, c, d⟩ := h
    exact ⟨a, by omega, by omega, ih d (Nat.le_refl _)⟩

theorem RecAt.congr_log {hs : Hs D} {log log' : List (Rec D)} {i : Nat} {p : D} {e : Ent D}
    (h : RecAt hs log i p e) (hl : log'[e.off]? = log[e.off]?) : RecAt hs log' i p e := by
  obtain ⟨r, hr, rest⟩ := h
  exact ⟨r, by rw [hl]; exact hr, rest⟩

/-- a chain only looks at the tx log below `hi` -/
theorem Chain.congr_log {hs : Hs D} {log log' : List (Rec D)} {hi i : Nat} {p : D} {lo : Nat}
    {xs : List (Ent D)} (h : Chain hs log hi i p lo xs)
    (hl : ∀ off, off < hi → log'[off]? = log[off]?) : Chain hs log' hi i p lo xs := by
  induction xs generalizing i p lo with
  | nil => trivial
  | cons x xs ih =>
    obtain ⟨a, b, c, d⟩ := h
    exact ⟨a.congr_log (hl _ c), b, c, ih d⟩

theorem Chain.le_endOff {hs : Hs D} {log : List (Rec D)} {hi i : Nat} {p : D} {lo : Nat}
    {xs : List (Ent D)} (h : Chain hs log hi i p lo xs) : lo ≤ endOff lo xs := by
  induction xs generalizing i p lo with
  | nil => simp
  | cons x xs ih =>
    obtain ⟨_, b, _, d⟩ := h
    have := ih d
    simp only [endOff_cons]; omega

theorem Chain.endOff_le {hs : Hs D} {log : List (Rec D)} {hi i : Nat} {p : D} {lo : Nat}
    {xs : List (Ent D)} (h : Chain hs log hi i p lo xs) (hlo : lo ≤ hi) : endOff lo xs ≤ hi := by
  induction xs generalizing i p lo with
  | nil => simpa
  | cons x xs ih =>
    obtain ⟨_, _, c, d⟩ := h
    simpa using ih d (by omega)

/-- a chain fits below its own end offset -/
theorem Chain.shrink {hs : Hs D} {log : List (Rec D)} {hi i : Nat} {p : D} {lo : Nat}
    {xs : List (Ent D)} (h : Chain hs log hi i p lo xs) : Chain hs log (endOff lo xs) i p lo xs := by
  induction xs generalizing i p lo with
  | nil => trivial
  | cons x xs ih =>
    obtain ⟨a, b, _, d⟩ := h
    have := d.le_endOff
    exact ⟨a, b, by simp only [endOff_cons]; omega, by simpa using ih d⟩

theorem Chain.take {hs : Hs D} {log : List (Rec D)} {hi i : Nat} {p : D} {lo : Nat}
    {xs : List (Ent D)} (h : Chain hs log hi i p lo xs) (n : Nat) :
    Chain hs log hi i p lo (xs.take n) := by
  rw [← List.take_append_drop n xs] at h
  exact (Chain_append.1 h).1

theorem Chain.drop {hs : Hs D} {log : List (Rec D)} {hi i : Nat} {p : D} {lo : Nat}
    {xs : List (Ent D)} (h : Chain hs log hi i p lo xs) (n : Nat) :
    Chain hs log hi (i + (xs.take n).length) (lastAlh p (xs.take n)) (endOff lo (xs.take n))
      (xs.drop n) := by
  rw [← List.take_append_drop n xs] at h
  exact (Chain_append.1 h).2

/-- the `j`-th entry of a chain locates the record of tx `i + j + 1` -/
theorem Chain.getElem? {hs : Hs D} {log : List (Rec D)} {hi i : Nat} {p : D} {lo : Nat}
    {xs : List (Ent D)} (h : Chain hs log hi i p lo xs) {j : Nat} {e : Ent D}
    (hj : xs[j]? = some e) :
    RecAt hs log (i + j) (lastAlh p (xs.take j)) e ∧ lo ≤ e.off ∧ e.off < hi := by
  induction xs generalizing i p lo j with
  | nil => simp at hj
  | cons x xs ih =>
    obtain ⟨a, b, c, d⟩ := h
    cases j with
    | zero =>
      simp at hj; subst hj
      exact ⟨by simpa using a, b, c⟩
    | succ j =>
      simp at hj
      obtain ⟨a', b', c'⟩ := ih d hj
      refine ⟨?_, by omega, c'⟩
      have : i + (j + 1) = i + 1 + j := by omega
      rw [this]; simpa using a'

theorem Chain.txID {hs : Hs D} {log : List (Rec D)} {hi i : Nat} {p : D} {lo : Nat}
    {xs : List (Ent D)} (h : Chain hs log hi i p lo xs) {j : Nat} {e : Ent D}
    (hj : xs[j]? = some e) : e.txID = i + j + 1 := by
  obtain ⟨⟨r, _, _, h3, _⟩, _⟩ := h.getElem? hj
  exact h3

theorem Chain.off_lt {hs : Hs D} {log : List (Rec D)} {hi i : Nat} {p : D} {lo : Nat}
    {xs : List (Ent D)} (h : Chain hs log hi i p lo xs) {e : Ent D} (he : e ∈ xs) : e.off < hi := by
  obtain ⟨j, hj⟩ := List.getElem?_of_mem he
  exact (h.getElem? hj).2.2

theorem Chain.lookup {hs : Hs D} {log : List (Rec D)} {hi i : Nat} {p : D} {lo : Nat}
    {xs : List (Ent D)} (h : Chain hs log hi i p lo xs) {e : Ent D} (he : e ∈ xs) :
    ∃ r, log[e.off]? = some r ∧ alh hs r.hdr = some e.alh ∧ r.alh = e.alh ∧ r.hdr.id = e.txID := by
  obtain ⟨j, hj⟩ := List.getElem?_of_mem he
  obtain ⟨⟨r, h1, h2, h3, _, h5, h6⟩, _⟩ := h.getElem? hj
  exact ⟨r, h1, h5, h6, by omega⟩

/-- the records located by a chain -/
theorem Chain.recs {hs : Hs D} {log : List (Rec D)} {hi i : Nat} {p : D} {lo : Nat}
    {es : List (Ent D)} (h : Chain hs log hi i p lo es) :
    ∃ recs : List (Rec D), es.map (fun e => log[e.off]?) = recs.map some ∧
      recs.length = es.length ∧ recs.map (·.alh) = es.map (·.alh) ∧
      (∀ k (hk : k < recs.length),
        (recs[k]).hdr.id = i + k + 1 ∧ alh hs (recs[k]).hdr = some (recs[k]).alh) ∧
      (∀ (_ : 0 < recs.length), (recs[0]).hdr.prevAlh = p) ∧
      (∀ k (hk : k + 1 < recs.length), (recs[k + 1]).hdr.prevAlh = (recs[k]'(by omega)).alh) := by
  induction es generalizing i p lo with
  | nil => exact ⟨[], rfl, rfl, rfl, by simp, by simp, by simp⟩
  | cons e es ih =>
    obtain ⟨⟨r, hr, hid, _, hprev, halh, hra⟩, _, _, hrest⟩ := h
    obtain ⟨recs, h1, h2, h3, h4, h5, h6⟩ := ih hrest
    refine ⟨r :: recs, by simp [hr, h1], by simp [h2], by simp [hra, h3], ?_, ?_, ?_⟩
    · intro k hk
      cases k with
      | zero => exact ⟨by simpa using hid, by simpa [hra] using halh⟩
      | succ k =>
        have hk' : k < recs.length := by simpa using hk
        obtain ⟨a, b⟩ := h4 k hk'
        exact ⟨by simp only [List.getElem_cons_succ]; omega, by simpa using b⟩
    · intro _; simpa using hprev
    · intro k hk
      cases k with
      | zero =>
        have hk' : 0 < recs.length := by simpa using hk
        have := h5 hk'
        simp only [List.getElem_cons_succ, List.getElem_cons_zero]
        rw [this, hra]
      | succ k =>
        have hk' : k + 1 < recs.length := by simpa using hk
        simpa using h6 k hk'

/-! ### list helpers -/

theorem getElem?_take_append {α : Type} (l ex : List α) {n off : Nat} (h : off < n)
    (hn : n ≤ l.length) : (l.take n ++ ex)[off]? = l[off]? := by
  rw [List.getElem?_append_left (by simp [List.length_take]; omega), List.getElem?_take, if_pos h]

theorem getElem?_take_append_self {α : Type} (l : List α) (x : α) {n : Nat} (hn : n ≤ l.length) :
    (l.take n ++ [x])[n]? = some x := by
  have : (l.take n).length = n := by simp [List.length_take]; omega
  rw [List.getElem?_append_right (by omega)]
  simp [this]

/-! ### `Frame`: two states that differ in the binary-linking tree and the precommit hub only
(`aht`, `ahtP`, `ahtBuf`, `hubPre`) -/

structure Frame (s s' : St D) : Prop where
  cfg : s'.cfg = s.cfg
  log : s'.log = s.log
  logEnd : s'.logEnd = s.logEnd
  clog : s'.clog = s.clog
  committed : s'.committed = s.committed
  comAlh : s'.comAlh = s.comAlh
  buf : s'.buf = s.buf
  bufCap : s'.bufCap = s.bufCap
  preID : s'.preID = s.preID
  preAlh : s'.preAlh = s.preAlh
  useExt : s'.useExt = s.useExt
  allowed : s'.allowed = s.allowed
  closed : s'.closed = s.closed

theorem Frame.refl (s : St D) : Frame s s := by constructor <;> rfl

theorem Frame.trans {s s' s'' : St D} (a : Frame s s') (b : Frame s' s'') : Frame s s'' := by
  constructor
  · exact b.cfg.trans a.cfg
  · exact b.log.trans a.log
  · exact b.logEnd.trans a.logEnd
  · exact b.clog.trans a.clog
  · exact b.committed.trans a.committed
  · exact b.comAlh.trans a.comAlh
  · exact b.buf.trans a.buf
  · exact b.bufCap.trans a.bufCap
  · exact b.preID.trans a.preID
  · exact b.preAlh.trans a.preAlh
  · exact b.useExt.trans a.useExt
  · exact b.allowed.trans a.allowed
  · exact b.closed.trans a.closed

theorem Frame.aht (s : St D) (a p : AHT D) (b hp : Nat) :
    Frame s { s with aht := a, ahtP := p, ahtBuf := b, hubPre := hp } := by constructor <;> rfl

theorem ahtSync_frame (s : St D) : Frame s (ahtSync s) := by
  unfold ahtSync
  split
  · exact Frame.refl s
  · constructor <;> rfl

theorem ahtAppend_frame {hs : Hs D} {s s' : St D} {a : D} (h : ahtAppend hs s a = some s') :
    Frame s s' := by
  unfold ahtAppend at h
  split at h
  · cases h
  · simp only [Option.some.injEq] at h
    subst h
    split
    · exact (Frame.aht s _ s.ahtP _ s.hubPre).trans (ahtSync_frame _)
    · exact Frame.aht s _ s.ahtP _ s.hubPre

theorem ahtReset_frame {s s' : St D} {m : Nat} (h : ahtReset s m = some s') : Frame s s' := by
  unfold ahtReset at h
  split at h
  · cases h
  · split at h
    · cases h; exact Frame.refl s
    · simp only [Option.some.injEq] at h
      subst h
      exact (ahtSync_frame s).trans (Frame.aht _ _ _ _ _)

theorem ahtAppendAll_frame (hs : Hs D) (s : St D) (xs : List D) : Frame s (ahtAppendAll hs s xs) := by
  induction xs generalizing s with
  | nil => exact Frame.refl s
  | cons x xs ih =>
    simp only [ahtAppendAll]
    split
    · exact Frame.refl s
    · rename_i s' h
      exact (ahtAppend_frame h).trans (ih _)

theorem finishOpen_frame (hs : Hs D) (s : St D) : Frame s (finishOpen hs s) := by
  unfold finishOpen
  simp only []
  refine Frame.trans ?_ (ahtAppendAll_frame _ _ _)
  split
  · exact Frame.aht s _ s.ahtP _ _
  · exact Frame.aht s _ s.ahtP _ _

/-! ### generic preservation lemmas -/

section
variable {hs : Hs D} {s s' : St D}

theorem InvLog.take_length (h : InvLog hs s) : (s.clog.take s.committed).length = s.committed := by
  have := h.com_le
  simp [List.length_take]; omega

theorem InvLog.comChain (h : InvLog hs s) :
    Chain hs s.log s.logEnd 0 (hs.H []) 0 (s.clog.take s.committed) := h.clogChain.take _

theorem InvLog.comEnd_le (h : InvLog hs s) : endOff 0 (s.clog.take s.committed) ≤ s.logEnd :=
  h.comChain.endOff_le (Nat.zero_le _)

theorem InvLog.bufEnd_le (h : InvLog hs s) :
    endOff (endOff 0 (s.clog.take s.committed)) s.buf ≤ s.logEnd :=
  h.bufChain.endOff_le h.comEnd_le

theorem InvLog.committed_le_preID (h : InvLog hs s) : s.committed ≤ s.preID := by
  have := h.preID_eq; omega

/-- the whole live part (committed, then precommitted) is one chain -/
theorem InvLog.liveChain (h : InvLog hs s) :
    Chain hs s.log s.logEnd 0 (hs.H []) 0 (liveEnts s) := by
  unfold liveEnts
  rw [Chain_append, h.take_length, ← h.comAlh_eq, Nat.zero_add]
  exact ⟨h.comChain, h.bufChain⟩

theorem liveEnts_length (h : InvLog hs s) : (liveEnts s).length = s.preID := by
  unfold liveEnts
  rw [List.length_append, h.take_length, h.preID_eq]

theorem InvLog.preAlh_live (h : InvLog hs s) : s.preAlh = lastAlh (hs.H []) (liveEnts s) := by
  unfold liveEnts
  rw [lastAlh_append, ← h.comAlh_eq, h.preAlh_eq]

/-- the tx log may change arbitrarily at and beyond `precommittedTxLogSize` -/
theorem InvLog.relog (h : InvLog hs s)
    (hlog : ∀ off, off < s.logEnd → s'.log[off]? = s.log[off]?)
    (hlen : s.logEnd ≤ s'.log.length)
    (hwf : ∀ r ∈ s'.log, alh hs r.hdr = some r.alh)
    (h1 : s'.logEnd = s.logEnd) (h2 : s'.clog = s.clog) (h3 : s'.committed = s.committed)
    (h4 : s'.comAlh = s.comAlh) (h5 : s'.buf = s.buf) (h6 : s'.preID = s.preID)
    (h7 : s'.preAlh = s.preAlh) (h8 : s'.useExt = s.useExt) (h9 : s'.allowed = s.allowed) :
    InvLog hs s' :=
  { logEnd_le := by rw [h1]; exact hlen
    com_le := by rw [h2, h3]; exact h.com_le
    wf := hwf
    clogChain := by rw [h1, h2]; exact h.clogChain.congr_log hlog
    bufChain := by rw [h1, h2, h3, h4, h5]; exact h.bufChain.congr_log hlog
    comAlh_eq := by rw [h2, h3, h4]; exact h.comAlh_eq
    preID_eq := by rw [h3, h5, h6]; exact h.preID_eq
    preAlh_eq := by rw [h4, h5, h7]; exact h.preAlh_eq
    allowed_ge := by rw [h3, h8, h9]; exact h.allowed_ge }

theorem Frame.invLog (F : Frame s s') (h : InvLog hs s) : InvLog hs s' :=
  h.relog (fun _ _ => by rw [F.log]) (by rw [F.log]; exact h.logEnd_le) (by rw [F.log]; exact h.wf)
    F.logEnd F.clog F.committed F.comAlh F.buf F.preID F.preAlh F.useExt F.allowed

/-- `InvLog` does not look at `cfg`, `bufCap`, `closed` and the tree -/
theorem InvLog.congr (h : InvLog hs s) (h0 : s'.log = s.log)
    (h1 : s'.logEnd = s.logEnd) (h2 : s'.clog = s.clog) (h3 : s'.committed = s.committed)
    (h4 : s'.comAlh = s.comAlh) (h5 : s'.buf = s.buf) (h6 : s'.preID = s.preID)
    (h7 : s'.preAlh = s.preAlh) (h8 : s'.useExt = s.useExt) (h9 : s'.allowed = s.allowed) :
    InvLog hs s' :=
  h.relog (fun _ _ => by rw [h0]) (by rw [h0]; exact h.logEnd_le) (by rw [h0]; exact h.wf)
    h1 h2 h3 h4 h5 h6 h7 h8 h9

/-- `cLogBuf.put` of the record sitting at `precommittedTxLogSize` -/
theorem InvLog.push (h : InvLog hs s) {r : Rec D} {e : Ent D}
    (hr : s.log[s.logEnd]? = some r) (hid : r.hdr.id = s.preID + 1) (hprev : r.hdr.prevAlh = s.preAlh)
    (he1 : e.txID = s.preID + 1) (he2 : e.alh = r.alh) (he3 : e.off = s.logEnd)
    (h0 : s'.log = s.log) (h1 : s'.logEnd = s.logEnd + 1) (h2 : s'.clog = s.clog)
    (h3 : s'.committed = s.committed) (h4 : s'.comAlh = s.comAlh) (h5 : s'.buf = s.buf ++ [e])
    (h6 : s'.preID = s.preID + 1) (h7 : s'.preAlh = r.alh) (h8 : s'.useExt = s.useExt)
    (h9 : s'.allowed = s.allowed) : InvLog hs s' := by
  have hlt : s.logEnd < s.log.length := by
    rcases Nat.lt_or_ge s.logEnd s.log.length with h' | h'
    · exact h'
    · rw [List.getElem?_eq_none h'] at hr; cases hr
  have hwf : alh hs r.hdr = some r.alh := h.wf r (List.mem_of_getElem? hr)
  exact
  { logEnd_le := by rw [h0, h1]; exact hlt
    com_le := by rw [h2, h3]; exact h.com_le
    wf := by rw [h0]; exact h.wf
    clogChain := by rw [h0, h1, h2]; exact h.clogChain.mono (Nat.le_succ _) (Nat.le_refl _)
    bufChain := by
      rw [h0, h1, h2, h3, h4, h5, Chain_append]
      refine ⟨h.bufChain.mono (Nat.le_succ _) (Nat.le_refl _), ?_, ?_, ?_, trivial⟩
      · refine ⟨r, by rw [he3]; exact hr, ?_, ?_, ?_, ?_, ?_⟩
        · rw [hid, h.preID_eq]
        · rw [he1, h.preID_eq]
        · rw [hprev, h.preAlh_eq]
        · rw [he2]; exact hwf
        · exact he2.symm
      · rw [he3]; exact h.bufEnd_le
      · rw [he3]; exact Nat.lt_succ_self _
    comAlh_eq := by rw [h2, h3, h4]; exact h.comAlh_eq
    preID_eq := by rw [h3, h5, h6, h.preID_eq, List.length_append]; simp; omega
    preAlh_eq := by rw [h4, h5, h7, lastAlh_append]; simp [he2]
    allowed_ge := by rw [h3, h8, h9]; exact h.allowed_ge }

/-- `cLog.SetOffset(committedTxID*entrySize)` followed by appending entries that continue the
committed chain, without moving the commit frontier -/
theorem InvLog.reclog (h : InvLog hs s) {X : List (Ent D)}
    (hX : Chain hs s.log s.logEnd s.committed s.comAlh (endOff 0 (s.clog.take s.committed)) X)
    (h0 : s'.log = s.log) (h1 : s'.logEnd = s.logEnd) (h2 : s'.clog = s.clog.take s.committed ++ X)
    (h3 : s'.committed = s.committed)
    (h4 : s'.comAlh = s.comAlh) (h5 : s'.buf = s.buf) (h6 : s'.preID = s.preID)
    (h7 : s'.preAlh = s.preAlh) (h8 : s'.useExt = s.useExt) (h9 : s'.allowed = s.allowed) :
    InvLog hs s' := by
  have hlen := h.take_length
  have htk : s'.clog.take s'.committed = s.clog.take s.committed := by
    rw [h2, h3, List.take_left' hlen]
  exact
  { logEnd_le := by rw [h0, h1]; exact h.logEnd_le
    com_le := by rw [h2, h3, List.length_append, hlen]; omega
    wf := by rw [h0]; exact h.wf
    clogChain := by
      rw [h0, h1, h2, Chain_append, hlen, ← h.comAlh_eq, Nat.zero_add]
      exact ⟨h.comChain, hX⟩
    bufChain := by rw [htk, h0, h1, h3, h4, h5]; exact h.bufChain
    comAlh_eq := by rw [htk, h4]; exact h.comAlh_eq
    preID_eq := by rw [h3, h5, h6]; exact h.preID_eq
    preAlh_eq := by rw [h4, h5, h7]; exact h.preAlh_eq
    allowed_ge := by rw [h3, h8, h9]; exact h.allowed_ge }

/-- a successful commit of the first `n` buffered entries -/
theorem InvLog.commit (h : InvLog hs s) {n : Nat} (hn : n ≤ s.buf.length)
    (hal : s.useExt = true → s.committed + n ≤ s.allowed)
    (h0 : s'.log = s.log) (h1 : s'.logEnd = s.logEnd)
    (h2 : s'.clog = s.clog.take s.committed ++ s.buf.take n)
    (h3 : s'.committed = s.committed + n)
    (h4 : s'.comAlh = lastAlh s.comAlh (s.buf.take n)) (h5 : s'.buf = s.buf.drop n)
    (h6 : s'.preID = s.preID)
    (h7 : s'.preAlh = s.preAlh) (h8 : s'.useExt = s.useExt) (h9 : s'.allowed = s.allowed) :
    InvLog hs s' := by
  have hlen := h.take_length
  have hlen2 : (s.buf.take n).length = n := by simp [List.length_take]; omega
  have htk : s'.clog.take s'.committed = s.clog.take s.committed ++ s.buf.take n := by
    rw [h2, h3]
    apply List.take_of_length_le
    rw [List.length_append, hlen, hlen2]; omega
  have hd := h.bufChain.drop n
  rw [hlen2] at hd
  exact
  { logEnd_le := by rw [h0, h1]; exact h.logEnd_le
    com_le := by rw [h2, h3, List.length_append, hlen, hlen2]; omega
    wf := by rw [h0]; exact h.wf
    clogChain := by
      rw [h0, h1, h2, Chain_append, hlen, ← h.comAlh_eq, Nat.zero_add]
      exact ⟨h.comChain, h.bufChain.take n⟩
    bufChain := by
      rw [htk, h0, h1, h3, h4, h5, endOff_append]; exact hd
    comAlh_eq := by rw [htk, h4, lastAlh_append, ← h.comAlh_eq]
    preID_eq := by rw [h3, h5, h6, h.preID_eq, List.length_drop]; omega
    preAlh_eq := by
      rw [h4, h5, h7, h.preAlh_eq, ← lastAlh_append, List.take_append_drop]
    allowed_ge := by rw [h3, h8, h9]; exact hal }

/-- `cLogBuf.recedeWriter`: the buffer is cut back to its first `m` entries -/
theorem InvLog.truncBuf (h : InvLog hs s) (m : Nat)
    (h0 : s'.log = s.log) (h1 : s'.logEnd = s.logEnd) (h2 : s'.clog = s.clog)
    (h3 : s'.committed = s.committed) (h4 : s'.comAlh = s.comAlh) (h5 : s'.buf = s.buf.take m)
    (h6 : s'.preID = s.committed + (s.buf.take m).length)
    (h7 : s'.preAlh = lastAlh s.comAlh (s.buf.take m))
    (h8 : s'.useExt = s.useExt) (h9 : s'.allowed = s.allowed) : InvLog hs s' :=
  { logEnd_le := by rw [h0, h1]; exact h.logEnd_le
    com_le := by rw [h2, h3]; exact h.com_le
    wf := by rw [h0]; exact h.wf
    clogChain := by rw [h0, h1, h2]; exact h.clogChain
    bufChain := by rw [h0, h1, h2, h3, h4, h5]; exact h.bufChain.take m
    comAlh_eq := by rw [h2, h3, h4]; exact h.comAlh_eq
    preID_eq := by rw [h3, h5, h6]
    preAlh_eq := by rw [h4, h5, h7]
    allowed_ge := by rw [h3, h8, h9]; exact h.allowed_ge }

end

/-! ### `Ext`: the committed history is extended -/

structure Ext (s s' : St D) : Prop where
  com : s.committed ≤ s'.committed
  clog : s'.clog.take s.committed = s.clog.take s.committed
  log : ∀ off, off < s.logEnd → s'.log[off]? = s.log[off]?

theorem Ext.refl (s : St D) : Ext s s := ⟨Nat.le_refl _, rfl, fun _ _ => rfl⟩

theorem Ext.of_eq {s s' : St D} (h0 : s'.log = s.log) (h2 : s'.clog = s.clog)
    (h3 : s'.committed = s.committed) : Ext s s' :=
  ⟨by rw [h3]; exact Nat.le_refl _, by rw [h2], fun _ _ => by rw [h0]⟩

theorem Frame.ext {s s' : St D} (F : Frame s s') : Ext s s' := Ext.of_eq F.log F.clog F.committed

theorem Ext.frame {s s' s'' : St D} (e : Ext s s') (F : Frame s' s'') : Ext s s'' :=
  ⟨by rw [F.committed]; exact e.com, by rw [F.clog]; exact e.clog,
   fun off h => by rw [F.log]; exact e.log off h⟩

theorem Ext.prefix {hs : Hs D} {s s' : St D} (e : Ext s s') (h : InvLog hs s) :
    committedRecs s <+: committedRecs s' := by
  unfold committedRecs
  have h1 : (s.clog.take s.committed).map (fun e => s.log[e.off]?) =
      (s'.clog.take s.committed).map (fun e => s'.log[e.off]?) := by
    rw [e.clog]
    apply List.map_congr_left
    intro a ha
    exact (e.log _ (h.comChain.off_lt ha)).symm
  rw [h1]
  exact List.IsPrefix.map _ (List.take_prefix_take_left e.com)


theorem Ext.reclog {s s' : St D} {X : List (Ent D)}
    (hlen : (s.clog.take s.committed).length = s.committed)
    (h0 : s'.log = s.log) (h2 : s'.clog = s.clog.take s.committed ++ X)
    (h3 : s.committed ≤ s'.committed) : Ext s s' :=
  ⟨h3, by rw [h2, List.take_left' hlen], fun _ _ => by rw [h0]⟩

/-! ### `commitUpTo` -/

theorem commitUpTo_spec {hs : Hs D} {s : St D} (h : InvLog hs s) :
    InvLog hs (commitUpTo s).1 ∧ Ext s (commitUpTo s).1 := by
  have hlen := h.take_length
  have hu : s.useExt = true → commitAllowedUpTo s = s.allowed := by
    intro hx; simp [commitAllowedUpTo, hx]
  unfold commitUpTo
  generalize commitAllowedUpTo s = upTo at hu
  simp only []
  split
  · exact ⟨h, Ext.refl s⟩
  · split
    · exact ⟨h.reclog (X := []) trivial rfl rfl (by simp) rfl rfl rfl rfl rfl rfl rfl,
        Ext.reclog (X := []) hlen rfl (by simp) (Nat.le_refl _)⟩
    · split
      · exact ⟨h.reclog (X := s.buf) h.bufChain rfl rfl rfl rfl rfl rfl rfl rfl rfl rfl,
          Ext.reclog (X := s.buf) hlen rfl rfl (Nat.le_refl _)⟩
      · have hfail : ∀ s' : St D, s'.log = s.log → s'.logEnd = s.logEnd →
            s'.clog = s.clog.take s.committed ++ s.buf.take (upTo - s.committed) →
            s'.committed = s.committed → s'.comAlh = s.comAlh → s'.buf = s.buf →
            s'.preID = s.preID → s'.preAlh = s.preAlh → s'.useExt = s.useExt →
            s'.allowed = s.allowed → InvLog hs s' ∧ Ext s s' := by
          intro s' h0 h1 h2 h3 h4 h5 h6 h7 h8 h9
          exact ⟨h.reclog (h.bufChain.take _) h0 h1 h2 h3 h4 h5 h6 h7 h8 h9,
            Ext.reclog hlen h0 h2 (by rw [h3]; exact Nat.le_refl _)⟩
        split
        · exact hfail _ rfl rfl rfl rfl rfl rfl rfl rfl rfl rfl
        · split
          · exact hfail _ rfl rfl rfl rfl rfl rfl rfl rfl rfl rfl
          · rename_i last hlast _
            have hc : upTo = s.committed + (upTo - s.committed) := by omega
            refine ⟨h.commit (n := upTo - s.committed) (by omega) ?_ rfl rfl rfl hc
              (lastAlh_of_getLast? hlast).symm rfl rfl rfl rfl rfl,
              Ext.reclog hlen rfl rfl (by show s.committed ≤ upTo; omega)⟩
            intro hx
            rw [← hu hx]; omega


theorem Ext.trans {s s' s'' : St D} (a : Ext s s') (b : Ext s' s'') (hle : s.logEnd ≤ s'.logEnd) :
    Ext s s'' :=
  ⟨Nat.le_trans a.com b.com,
   by
     have := a.com
     rw [← a.clog, ← Nat.min_eq_left a.com, ← List.take_take, b.clog, List.take_take],
   fun off ho => by rw [b.log off (by omega), a.log off ho]⟩

/-! ### `performPrecommit` -/

theorem performPrecommit_spec {hs : Hs D} (z : D) {s : St D} (tx : TxIn D) (ts bl : Nat)
    (h : InvLog hs s) :
    InvLog hs (performPrecommit hs z s tx ts bl).1 ∧ Ext s (performPrecommit hs z s tx ts bl).1 := by
  -- an exit before `txLog.Append`: nothing changed
  have hT : ∀ s' : St D, s' = s → InvLog hs s' ∧ Ext s s' := by
    intro s' e; subst e; exact ⟨h, Ext.refl _⟩
  -- after `txLog.Append` (and changes to the tree)
  have hA : ∀ (s' sR : St D) (rec : Rec D), Frame s' sR → alh hs rec.hdr = some rec.alh →
      s'.log = writeRec s.cfg.embedded s.log s.logEnd rec → s'.logEnd = s.logEnd → s'.clog = s.clog →
      s'.committed = s.committed → s'.comAlh = s.comAlh → s'.buf = s.buf →
      s'.preID = s.preID → s'.preAlh = s.preAlh → s'.useExt = s.useExt →
      s'.allowed = s.allowed → (InvLog hs sR ∧ Ext s sR) ∧ sR.log[sR.logEnd]? = some rec := by
    intro s' sR rec F hw h0 h1 h2 h3 h4 h5 h6 h7 h8 h9
    have hl : ∀ off, off < s.logEnd → s'.log[off]? = s.log[off]? := by
      intro off ho; rw [h0]; exact writeRec_get_lt _ _ _ ho h.logEnd_le
    have hi : InvLog hs s' := by
      refine h.relog hl (by rw [h0]; exact Nat.le_of_lt (writeRec_length _ _ _ h.logEnd_le)) ?_
        h1 h2 h3 h4 h5 h6 h7 h8 h9
      intro r hr; rw [h0] at hr
      rcases writeRec_mem _ _ _ _ _ hr with hr | hr
      · exact h.wf r hr
      · subst hr; exact hw
    have he : Ext s s' := ⟨by rw [h3]; exact Nat.le_refl _, by rw [h2], hl⟩
    refine ⟨⟨F.invLog hi, he.frame F⟩, ?_⟩
    rw [F.log, F.logEnd, h0, h1]; exact writeRec_get_self _ _ _ h.logEnd_le
  unfold performPrecommit
  simp only []
  split
  · exact ⟨h, Ext.refl s⟩
  split
  · exact hT _ rfl
  split
  · exact hT _ rfl
  split
  · exact hT _ rfl
  rename_i blRoot _ _ a ha
  split
  · exact And.left (hA _ _ _ (Frame.refl _) ha rfl rfl rfl rfl rfl rfl rfl rfl rfl rfl)
  rename_i sR hR
  split
  · exact And.left (hA _ _ _ (ahtReset_frame hR) ha rfl rfl rfl rfl rfl rfl rfl rfl rfl rfl)
  rename_i s2 hR2
  have F := (ahtReset_frame hR).trans (ahtAppend_frame hR2)
  obtain ⟨⟨iA, eA⟩, lA⟩ := hA _ _ _ F ha rfl rfl rfl rfl rfl rfl rfl rfl rfl rfl
  have hP : ∀ s3 : St D, s3.log = s2.log → s3.logEnd = s2.logEnd + 1 → s3.clog = s2.clog →
      s3.committed = s2.committed → s3.comAlh = s2.comAlh →
      s3.buf = s2.buf ++ [⟨s.preID + 1, a, s2.logEnd⟩] → s3.preID = s.preID + 1 → s3.preAlh = a →
      s3.useExt = s2.useExt → s3.allowed = s2.allowed →
      (InvLog hs s3 ∧ Ext s s3) ∧ s.logEnd ≤ s3.logEnd := by
    intro s3 h0 h1 h2 h3 h4 h5 h6 h7 h8 h9
    refine ⟨⟨iA.push lA (by rw [F.preID]) (by rw [F.preAlh]) (by rw [F.preID]) rfl rfl
      h0 h1 h2 h3 h4 h5 (by rw [h6, F.preID]) h7 h8 h9, ?_⟩, ?_⟩
    · exact ⟨by rw [h3]; exact eA.com, by rw [h2]; exact eA.clog,
        fun off ho => by rw [h0]; exact eA.log off ho⟩
    · rw [h1, F.logEnd]; exact Nat.le_succ _
  have key : ∀ (X : St D) (r : St D × Option Err), commitUpTo X = r →
      ((InvLog hs X ∧ Ext s X) ∧ s.logEnd ≤ X.logEnd) → InvLog hs r.1 ∧ Ext s r.1 := by
    intro X r hr ⟨⟨i, e⟩, l⟩; subst hr
    have := commitUpTo_spec i
    exact ⟨this.1, e.trans this.2 l⟩
  split
  · exact ⟨iA, eA⟩
  split
  · exact And.left (hP _ rfl rfl rfl rfl rfl rfl rfl rfl rfl rfl)
  split
  · rename_i heq
    exact key _ _ heq (hP _ rfl rfl rfl rfl rfl rfl rfl rfl rfl rfl)
  · rename_i heq
    exact key _ _ heq (hP _ rfl rfl rfl rfl rfl rfl rfl rfl rfl rfl)

/-! ### the critical sections -/

theorem ite_ind {α : Type} {P : α → Prop} {c : Prop} [Decidable c] {a b : α}
    (ha : c → P a) (hb : ¬c → P b) : P (if c then a else b) := by
  split
  · exact ha ‹_›
  · exact hb ‹_›

theorem precommitOwn_spec {hs : Hs D} (z : D) {s : St D} (q : OwnReq D) (h : InvLog hs s) :
    InvLog hs (precommitOwn hs z s q).1 ∧ Ext s (precommitOwn hs z s q).1 := by
  have base : ∀ o : Out D, InvLog hs (s, o).1 ∧ Ext s (s, o).1 := fun _ => ⟨h, Ext.refl s⟩
  unfold precommitOwn
  repeat' first
    | exact base _
    | exact performPrecommit_spec _ _ _ _ h
    | refine ite_ind (P := fun r : St D × Out D => InvLog hs r.1 ∧ Ext s r.1) (fun _ => ?_) (fun _ => ?_)
    | split

theorem precommitRep_spec [DecidableEq D] {hs : Hs D} (z : D) {s : St D} (q : RepReq D)
    (h : InvLog hs s) :
    InvLog hs (precommitRep hs z s q).1 ∧ Ext s (precommitRep hs z s q).1 := by
  have base : ∀ o : Out D, InvLog hs (s, o).1 ∧ Ext s (s, o).1 := fun _ => ⟨h, Ext.refl s⟩
  unfold precommitRep
  repeat' first
    | exact base _
    | exact performPrecommit_spec _ _ _ _ h
    | refine ite_ind (P := fun r : St D × Out D => InvLog hs r.1 ∧ Ext s r.1) (fun _ => ?_) (fun _ => ?_)
    | split

theorem wrap_fst (r : St D × Option Err) : (wrap r).1 = r.1 := by
  obtain ⟨s, o⟩ := r
  cases o <;> rfl

theorem syncOp_spec {hs : Hs D} {s : St D} (h : InvLog hs s) :
    InvLog hs (syncOp s).1 ∧ Ext s (syncOp s).1 := by
  unfold syncOp
  split
  · exact ⟨h, Ext.refl s⟩
  split
  · exact ⟨h, Ext.refl s⟩
  rw [wrap_fst]; exact commitUpTo_spec h

theorem allowUpto_spec {hs : Hs D} {s : St D} (t : Nat) (h : InvLog hs s) :
    InvLog hs (allowUpto s t).1 ∧ Ext s (allowUpto s t).1 := by
  unfold allowUpto
  split
  · exact ⟨h, Ext.refl s⟩
  split
  · exact ⟨h, Ext.refl s⟩
  rename_i hx ht
  have hx : s.useExt = true := by cases hu : s.useExt <;> simp_all
  have hi : InvLog hs { s with allowed := if s.preID < t then s.preID else t } :=
    { logEnd_le := h.logEnd_le, com_le := h.com_le, wf := h.wf, clogChain := h.clogChain,
      bufChain := h.bufChain, comAlh_eq := h.comAlh_eq, preID_eq := h.preID_eq,
      preAlh_eq := h.preAlh_eq
      allowed_ge := by
        intro _
        have := h.allowed_ge hx
        have := h.committed_le_preID
        show s.committed ≤ if s.preID < t then s.preID else t
        split <;> omega }
  have he : Ext s { s with allowed := if s.preID < t then s.preID else t } := Ext.of_eq rfl rfl rfl
  simp only []
  split
  · exact ⟨hi, he⟩
  · rw [wrap_fst]
    have := commitUpTo_spec hi
    exact ⟨this.1, he.trans this.2 (Nat.le_refl _)⟩

theorem setExt_spec {hs : Hs D} {s : St D} (b : Bool) (h : InvLog hs s) :
    InvLog hs (setExt s b).1 ∧ Ext s (setExt s b).1 := by
  unfold setExt
  refine ⟨?_, Ext.of_eq rfl rfl rfl⟩
  exact
    { logEnd_le := h.logEnd_le, com_le := h.com_le, wf := h.wf, clogChain := h.clogChain,
      bufChain := h.bufChain, comAlh_eq := h.comAlh_eq, preID_eq := h.preID_eq,
      preAlh_eq := h.preAlh_eq
      allowed_ge := by
        intro hb
        have hb : b = true := hb
        subst hb
        exact Nat.le_refl _ }

theorem closeStore_frame (s : St D) :
    (closeStore s).1 = s ∨ ∃ s1, Frame s s1 ∧ (closeStore s).1 = { s1 with closed := true } := by
  unfold closeStore
  split
  · exact Or.inl rfl
  · exact Or.inr ⟨_, ahtSync_frame s, rfl⟩

theorem closeStore_spec {hs : Hs D} {s : St D} (h : InvLog hs s) :
    InvLog hs (closeStore s).1 ∧ Ext s (closeStore s).1 := by
  rcases closeStore_frame s with e | ⟨s1, F, e⟩
  · rw [e]; exact ⟨h, Ext.refl s⟩
  · rw [e]
    exact ⟨(F.invLog h).congr rfl rfl rfl rfl rfl rfl rfl rfl rfl rfl,
      F.ext.trans (Ext.of_eq rfl rfl rfl) (by rw [F.logEnd]; exact Nat.le_refl _)⟩


/-! ### `DiscardPrecommittedTxsSince` -/

theorem discard_spec {hs : Hs D} {s : St D} (t : Nat) (h : InvLog hs s) :
    InvLog hs (discard s t).1 ∧ Ext s (discard s t).1 := by
  unfold discard
  split
  · exact ⟨h, Ext.refl s⟩
  split
  · exact ⟨h, Ext.refl s⟩
  split
  · exact ⟨h, Ext.refl s⟩
  split
  · exact ⟨h, Ext.refl s⟩
  simp only []
  split
  · exact ⟨h, Ext.refl s⟩
  split
  · exact ⟨h, Ext.refl s⟩
  rename_i ht0 htc htp _ _ sR hR
  have F := ahtReset_frame hR
  have hi := F.invLog h
  split
  · exact ⟨hi, F.ext⟩
  rename_i hbn
  have hpre := hi.preID_eq
  rw [F.preID, F.committed] at hpre
  have hcom := F.committed
  -- the number of entries that stay
  have hm : (sR.buf.take (sR.buf.length - (s.preID + 1 - t))).length = t - 1 - s.committed := by
    simp [List.length_take]; omega
  have hfin : ∀ s' : St D, s'.log = sR.log → s'.logEnd = sR.logEnd → s'.clog = sR.clog →
      s'.committed = sR.committed → s'.comAlh = sR.comAlh →
      s'.buf = sR.buf.take (sR.buf.length - (s.preID + 1 - t)) →
      s'.preID = t - 1 →
      s'.preAlh = lastAlh sR.comAlh (sR.buf.take (sR.buf.length - (s.preID + 1 - t))) →
      s'.useExt = sR.useExt → s'.allowed = sR.allowed → InvLog hs s' ∧ Ext s s' := by
    intro s' h0 h1 h2 h3 h4 h5 h6 h7 h8 h9
    refine ⟨hi.truncBuf _ h0 h1 h2 h3 h4 h5 ?_ h7 h8 h9,
      F.ext.trans (Ext.of_eq h0 h2 h3) (by rw [F.logEnd]; exact Nat.le_refl _)⟩
    rw [h6, hm, hcom]; omega
  split
  · rename_i heq
    have heq : t - 1 = sR.committed := heq
    refine hfin _ rfl rfl rfl rfl rfl rfl ?_ ?_ rfl rfl
    · show sR.committed = t - 1
      omega
    · have : sR.buf.length - (s.preID + 1 - t) = 0 := by omega
      rw [this]; rfl
  rename_i hne
  have hne : ¬ t - 1 = sR.committed := hne
  have hidx : sR.preID - sR.committed - 1 - (s.preID + 1 - t) =
      (sR.buf.take (sR.buf.length - (s.preID + 1 - t))).length - 1 := by
    rw [hm, F.preID, hcom]; omega
  have hpos : 0 < (sR.buf.take (sR.buf.length - (s.preID + 1 - t))).length := by
    rw [hm]; omega
  split
  · rename_i e he
    have he : (sR.buf.take (sR.buf.length - (s.preID + 1 - t)))[sR.preID - sR.committed - 1 -
        (s.preID + 1 - t)]? = some e := he
    have hlast : (sR.buf.take (sR.buf.length - (s.preID + 1 - t))).getLast? = some e := by
      rw [List.getLast?_eq_getElem?, ← hidx]; exact he
    have htx := (hi.bufChain.take (sR.buf.length - (s.preID + 1 - t))).txID he
    split
    · exact hfin _ rfl rfl rfl rfl rfl rfl rfl (lastAlh_of_getLast? hlast).symm rfl rfl
    · rename_i hbad
      exfalso; apply hbad
      rw [htx, hidx, hcom]; omega
  · rename_i hnone
    have hnone : (sR.buf.take (sR.buf.length - (s.preID + 1 - t)))[sR.preID - sR.committed - 1 -
        (s.preID + 1 - t)]? = none := hnone
    exfalso
    rw [hidx, List.getElem?_eq_none_iff] at hnone
    omega


/-! ### `Open` -/

theorem scan_spec [DecidableEq D] {hs : Hs D} (rest : List (Rec D)) :
    ∀ (s : St D) (pre more : List (Rec D)),
    InvLog hs s → s.log = pre ++ rest ++ more → s.logEnd = pre.length →
    InvLog hs (scan s rest) ∧ (scan s rest).log = s.log ∧ (scan s rest).clog = s.clog ∧
      (scan s rest).committed = s.committed := by
  induction rest with
  | nil => intro s pre more h _ _; exact ⟨h, rfl, rfl, rfl⟩
  | cons r rest ih =>
    intro s pre more h hlog hend
    simp only [scan]
    split
    · rename_i hc
      have hr : s.log[s.logEnd]? = some r := by rw [hlog, hend]; simp
      refine ih _ (pre ++ [r]) more
        (h.push hr hc.1 hc.2 rfl rfl rfl rfl rfl rfl rfl rfl rfl rfl rfl rfl rfl) ?_ ?_
      · show s.log = pre ++ [r] ++ rest ++ more
        simp [hlog]
      · show s.logEnd + 1 = (pre ++ [r]).length
        simp [hend]
    · exact ⟨h, rfl, rfl, rfl⟩

theorem openStore_spec [DecidableEq D] {hs : Hs D} {s : St D} (cfg : Cfg) (b : Bool)
    (h : InvLog hs s) :
    InvLog hs (openStore hs s cfg b).1 ∧ Ext s (openStore hs s cfg b).1 := by
  have fin : ∀ (s0 : St D) (rest : List (Rec D)), InvLog hs s0 →
      (∃ pre more, s0.log = pre ++ rest ++ more ∧ s0.logEnd = pre.length) →
      s0.log = s.log → s0.clog = s.clog → s.committed ≤ s0.committed →
      InvLog hs (finishOpen hs (scan s0 rest)) ∧ Ext s (finishOpen hs (scan s0 rest)) := by
    intro s0 rest h0 ⟨pre, more, hl, he⟩ e1 e2 e3
    obtain ⟨i, a1, a2, a3⟩ := scan_spec rest s0 pre more h0 hl he
    have F := finishOpen_frame hs (scan s0 rest)
    refine ⟨F.invLog i, ⟨?_, ?_, ?_⟩⟩
    · rw [F.committed, a3]; exact e3
    · rw [F.clog, a2, e2]
    · intro off _; rw [F.log, a1, e1]
  unfold openStore
  split
  · exact ⟨h, Ext.refl s⟩
  simp only []
  split
  · rename_i hnone
    have hcl : s.clog = [] := List.getLast?_eq_none_iff.1 hnone
    have hc0 : s.committed = 0 := by have := h.com_le; rw [hcl] at this; simpa using this
    refine fin _ _ ?_ ?_ ?_ ?_ ?_
    rotate_left
    · show ∃ pre more, s.log = pre ++ _ ++ more ∧ 0 = pre.length
      split
      · exact ⟨[], s.log, by simp, rfl⟩
      · exact ⟨[], [], by simp, rfl⟩
    · rfl
    · rfl
    · rw [hc0]; exact Nat.zero_le _
    exact
      { logEnd_le := Nat.zero_le _
        com_le := Nat.zero_le _
        wf := h.wf
        clogChain := by show Chain hs s.log 0 0 (hs.H []) 0 s.clog; rw [hcl]; trivial
        bufChain := trivial
        comAlh_eq := by show hs.H [] = lastAlh (hs.H []) (s.clog.take 0); simp
        preID_eq := rfl
        preAlh_eq := rfl
        allowed_ge := fun _ => Nat.le_refl _ }
  · rename_i e hlast
    split
    · exact ⟨h, Ext.refl s⟩
    rename_i r hr
    split
    · exact ⟨h, Ext.refl s⟩
    have hlt : e.off < s.log.length := by
      rcases Nat.lt_or_ge e.off s.log.length with h' | h'
      · exact h'
      · rw [List.getElem?_eq_none h'] at hr; cases hr
    have hlen : (s.log.take (e.off + 1)).length = e.off + 1 := by
      simp [List.length_take]; omega
    refine fin _ _ ?_ ?_ ?_ ?_ ?_
    rotate_left
    · show ∃ pre more, s.log = pre ++ _ ++ more ∧ e.off + 1 = pre.length
      split
      · exact ⟨s.log.take (e.off + 1), s.log.drop (e.off + 1), by simp, hlen.symm⟩
      · exact ⟨s.log.take (e.off + 1), [], by simp, hlen.symm⟩
    · rfl
    · rfl
    · exact h.com_le
    exact
      { logEnd_le := hlt
        com_le := Nat.le_refl _
        wf := h.wf
        clogChain := by
          have := h.clogChain.shrink
          rw [endOff_of_getLast? hlast] at this
          exact this
        bufChain := trivial
        comAlh_eq := by
          show e.alh = lastAlh (hs.H []) (s.clog.take s.clog.length)
          rw [List.take_length, lastAlh_of_getLast? hlast]
        preID_eq := rfl
        preAlh_eq := rfl
        allowed_ge := fun _ => Nat.le_refl _ }

/-! ### exported theorems -/

theorem init_invLog (hs : Hs D) (cfg : Cfg) (e : Bool) : InvLog hs (init hs cfg e) :=
  { logEnd_le := Nat.le_refl _
    com_le := Nat.le_refl _
    wf := by intro r hr; cases hr
    clogChain := trivial
    bufChain := trivial
    comAlh_eq := rfl
    preID_eq := rfl
    preAlh_eq := rfl
    allowed_ge := fun _ => Nat.le_refl _ }

/-- every step preserves `InvLog` and extends the committed history -/
theorem step_spec [DecidableEq D] (hs : Hs D) (z : D) (s : St D) (op : Op D) (h : InvLog hs s) :
    InvLog hs (step hs z s op).1 ∧ Ext s (step hs z s op).1 := by
  cases op with
  | own q => exact precommitOwn_spec z q h
  | rep q => exact precommitRep_spec z q h
  | sync => exact syncOp_spec h
  | discard t => exact discard_spec t h
  | allow t => exact allowUpto_spec t h
  | setExt b => exact setExt_spec b h
  | close => exact closeStore_spec h
  | open_ cfg e => exact openStore_spec cfg e h

theorem step_invLog [DecidableEq D] (hs : Hs D) (z : D) (s : St D) (op : Op D)
    (h : InvLog hs s) : InvLog hs (step hs z s op).1 := (step_spec hs z s op h).1

theorem step_committed_prefix' [DecidableEq D] (hs : Hs D) (z : D) (s : St D) (op : Op D)
    (h : InvLog hs s) : committedRecs s <+: committedRecs (step hs z s op).1 :=
  (step_spec hs z s op h).2.prefix h


/-- the committed part is a list of real records: ids dense from 1, hashes computed from the
headers, PrevAlh chain starting at H [] , and the reported state is the hash of the last one -/
theorem committed_chain (hs : Hs D) (s : St D) (h : InvLog hs s) :
    ∃ recs : List (Rec D), committedRecs s = recs.map some ∧ recs.length = s.committed ∧
      (∀ k (hk : k < recs.length), (recs[k]).hdr.id = k + 1 ∧ alh hs (recs[k]).hdr = some (recs[k]).alh) ∧
      (∀ (h0 : 0 < recs.length), (recs[0]).hdr.prevAlh = hs.H []) ∧
      (∀ k (hk : k + 1 < recs.length), (recs[k + 1]).hdr.prevAlh = (recs[k]'(by omega)).alh) ∧
      s.comAlh = (match recs.getLast? with | some r => r.alh | none => hs.H []) := by
  obtain ⟨recs, h1, h2, h3, h4, h5, h6⟩ := h.comChain.recs
  refine ⟨recs, h1, by rw [h2, h.take_length], ?_, h5, h6, ?_⟩
  · intro k hk
    have := h4 k hk
    rw [Nat.zero_add] at this
    exact this
  · rw [h.comAlh_eq, lastAlh_eq_getD, ← h3, List.getLast?_map]
    cases recs.getLast? <;> rfl

/-- DiscardPrecommittedTxsSince never touches the tx log, the commit log or the commit frontier -/
theorem discard_untouched (s : St D) (t : Nat) :
    (discard s t).1.log = s.log ∧ (discard s t).1.logEnd = s.logEnd ∧ (discard s t).1.clog = s.clog ∧
    (discard s t).1.committed = s.committed ∧ (discard s t).1.comAlh = s.comAlh := by
  unfold discard
  repeat' first
    | exact ⟨rfl, rfl, rfl, rfl, rfl⟩
    | split
    | simp only []
  all_goals
    have F := ahtReset_frame (by assumption)
    exact ⟨F.log, F.logEnd, F.clog, F.committed, F.comAlh⟩


/-- `commitUpTo` is idempotent on the state -/
theorem commitUpTo_idem {hs : Hs D} {s : St D} (h : InvLog hs s) :
    ∀ s', (commitUpTo s).1 = s' → (commitUpTo s').1 = s' := by
  have hlen := h.take_length
  have e3 : ∀ X : List (Ent D), List.take s.committed (List.take s.committed s.clog ++ X) =
      List.take s.committed s.clog := fun X => List.take_left' hlen
  intro s' hs'
  unfold commitUpTo at hs'
  simp only [] at hs'
  split at hs'
  · subst hs'
    rename_i hc
    unfold commitUpTo
    rw [if_pos hc]
  · split at hs'
    · subst hs'
      rename_i hc hlt
      unfold commitUpTo
      simp only [commitAllowedUpTo] at hc hlt ⊢
      simp [hc, hlt, List.take_take]
    · rename_i hc hlt
      split at hs'
      · subst hs'
        rename_i hb
        unfold commitUpTo
        simp only [commitAllowedUpTo] at hc hlt hb ⊢
        simp only [e3]
        simp [hc, hlt, hb]
      · rename_i hb
        split at hs'
        · subst hs'
          rename_i hl
          unfold commitUpTo
          simp only [commitAllowedUpTo] at hc hlt hb hl ⊢
          simp only [e3]
          simp [hc, hlt, hb, hl]
        · rename_i last hl
          split at hs'
          · subst hs'
            rename_i hfuse
            unfold commitUpTo
            simp only [commitAllowedUpTo] at hc hlt hb hl hfuse ⊢
            simp only [e3]
            simp [hc, hlt, hb, hl, hfuse]
          · subst hs'
            unfold commitUpTo
            simp [commitAllowedUpTo]

/-- an extra Sync() changes nothing (justifies the harness calling Sync() after every step in synced mode) -/
theorem syncOp_idem (hs : Hs D) (s : St D) (h : InvLog hs s) :
    (syncOp (syncOp s).1).1 = (syncOp s).1 := by
  have key : ∀ x : St D, (x.closed = true ∨ x.preID = x.committed ∨ (commitUpTo x).1 = x) →
      (syncOp x).1 = x := by
    intro x hx
    unfold syncOp
    split
    · rfl
    split
    · rfl
    rw [wrap_fst]
    rcases hx with hx | hx | hx
    · contradiction
    · contradiction
    · exact hx
  by_cases hc : s.closed = true
  · rw [key s (Or.inl hc), key s (Or.inl hc)]
  by_cases hp : s.preID = s.committed
  · rw [key s (Or.inr (Or.inl hp)), key s (Or.inr (Or.inl hp))]
  have e : (syncOp s).1 = (commitUpTo s).1 := by
    unfold syncOp
    rw [if_neg hc, if_neg hp, wrap_fst]
  rw [e]
  exact key _ (Or.inr (Or.inr (commitUpTo_idem h _ rfl)))


end ImmuModel.Store.Commit
