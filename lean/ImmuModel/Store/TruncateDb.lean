/-
C14, database level — pkg/database/truncator.go `vlogTruncator.TruncateUptoTx`, pkg/database/sql.go `CopySQLCatalog`.

`Store/Truncate.lean` models ONE store-level `TruncateUptoTx`.  The SQL catalog and the document collections are
ordinary key/value entries (`CTL.*` keys); their CURRENT values were written by whatever DDL transactions created
them, possibly long ago — far below any later cut.  What keeps them readable is one layer up:

    sqlCatalogTxID, err := v.db.CopySQLCatalog(ctx, txID)      -- one NEW tx holding a copy of every catalog value
    if err != nil { …log…; return err }                        -- a failed copy ABORTS the truncation
    …
    err = v.db.TruncateUptoTx(ctx, txID)                        -- store truncation, runs only after a committed copy

This file models that step as a small state machine over `Store`:

* `Db` = a store + the value locations of the current catalog entries;
* `Copy` = the outcome of `CopySQLCatalog`, an INPUT (every cause is abstracted: a catalog larger than `MaxTxEntries`,
  a read conflict with a racing DDL, an expired context, …): `fail` (nothing written), `failStaged k` (the error came
  from `Commit` after `precommit` had already appended the values to a value log: garbage bytes, no tx),
  `ok k` (committed: a new tx `last+1` whose values are the catalog values; the catalog now lives THERE);
  `k` picks the value log (`appendValuesIntoAnyVLog`: any of `1 … MaxIOConcurrency`);
* `dbTruncate d c n` mirrors the truncator: copy, `return err` on failure, else `truncateUpto`;
* `dbTruncateNoAbort` is the COUNTERFACTUAL "log the error and go on" (NOT the code) used by the witness theorem;
* `Op`/`run`: database-level truncations interleaved with ordinary writes, DDL (which replaces any part of the catalog)
  and restarts.

Core Lean only (the driver links this file).
-/
import ImmuModel.Store.Truncate

namespace ImmuModel.Store.TruncateDb
open ImmuModel.Store.Truncate

/-- A database: the store and where the current value of every catalog entry (SQL engine + document engine) lies. -/
structure Db where
  store : Store
  catalog : List Ent

/-- Outcome of `CopySQLCatalog` (an input of the model). -/
inductive Copy where
  | fail                    -- error before anything reached a value log (NewTx, a read, `Set` beyond MaxTxEntries, ctx)
  | failStaged (k : Nat)    -- error at `Commit` (e.g. read conflict) after the values were appended; no tx
  | ok (k : Nat)            -- committed as tx `last + 1`
deriving Repr, DecidableEq

/-- `appendValuesIntoAnyVLog` takes one of the value logs `1 … MaxIOConcurrency`. -/
def pickVLog (s : Store) (k : Nat) : Nat := k % s.maxIO + 1

/-- The guard between the copy and the store truncation: `if err != nil { …; return err }` — the store truncation is
reached iff the copy committed.  (Used by the driver for the control-flow correspondence `c14 dbtrunc`.) -/
def truncationRuns (copyOk : Bool) : Bool := copyOk

/-- One committed transaction writing values of the given lengths. -/
def commitValues (s : Store) (k : Nat) (lens : List Nat) : Store × TxEnts :=
  let r := s.appendInto (pickVLog s k) lens
  (r.1.commitTx r.2, r.2)

/-- `CopySQLCatalog`: the database afterwards and whether it returned `nil`. -/
def copyCatalog (d : Db) : Copy → Db × Bool
  | .fail => (d, false)
  | .failStaged k =>
    ({ d with store := (d.store.appendInto (pickVLog d.store k) (d.catalog.map (·.len))).1 }, false)
  | .ok k =>
    let r := commitValues d.store k (d.catalog.map (·.len))
    ({ store := r.1, catalog := r.2 }, true)

inductive Out where
  | copyErr                 -- the error of `CopySQLCatalog`, returned before the store truncation
  | trunc (o : Outcome)     -- whatever the store truncation answered
deriving Repr, DecidableEq

/-- `vlogTruncator.TruncateUptoTx(n)`. -/
def dbTruncate (d : Db) (c : Copy) (n : Nat) : Db × Out :=
  let r := copyCatalog d c
  if truncationRuns r.2 then
    let t := truncateUpto r.1.store n
    ({ r.1 with store := t.store }, .trunc t.out)
  else (r.1, .copyErr)

/-- COUNTERFACTUAL (not the code): the error of the copy is logged and the truncation goes on. -/
def dbTruncateNoAbort (d : Db) (c : Copy) (n : Nat) : Db × Out :=
  let r := copyCatalog d c
  let t := truncateUpto r.1.store n
  ({ r.1 with store := t.store }, .trunc t.out)

/-- What runs against a database between and around truncations. -/
inductive Op where
  | write (k : Nat) (lens : List Nat)                     -- KV / DML transaction
  | ddl (k : Nat) (lens : List Nat) (keep : Ent → Bool)   -- DDL: the catalog entries it keeps + the ones it writes
  | truncate (c : Copy) (n : Nat)                         -- the vlog truncator
  | reopen                                                -- Close + OpenDB

def step (d : Db) : Op → Db
  | .write k lens => { d with store := (commitValues d.store k lens).1 }
  | .ddl k lens keep =>
    let r := commitValues d.store k lens
    { store := r.1, catalog := d.catalog.filter keep ++ r.2 }
  | .truncate c n => (dbTruncate d c n).1
  | .reopen => d

def run (d : Db) (ops : List Op) : Db := ops.foldl step d

/-- Every catalog entry can be read (= the catalog loads: `loadCatalog` resolves every value). -/
def CatalogReadable (d : Db) : Prop := ∀ e ∈ d.catalog, d.store.readable e

/-- Geometry of a value log as `multiapp` keeps it: the active chunk file exists and is not beyond the end. -/
def VLogWF (F : Nat) (l : VLog) : Prop := l.cur ∈ l.present ∧ l.cur ≤ chunkOf F l.offset

def StoreWF (s : Store) : Prop := ∀ v, VLogWF s.F (s.vlogs v)

end ImmuModel.Store.TruncateDb
