/-
C03 model, part 1: a log at RECORD (cell) granularity with a write-back cache, as seen through the
`appendable.Appendable` interface (`Append`, `SetOffset`, `Flush`+`Sync`), and its crash images.

Abstraction level (what is modelled rather than verified): one cell = one record (a tx record, a
commit-log entry, the values of one tx).  The two volatile levels of the real files ("in the write
buffer" and "written, not fsynced") are merged into `volatile`: a crash keeps an arbitrary PREFIX of
the volatile cells, optionally followed by a TORN version of the next one.  Files are never
truncated (singleapp/multiapp `SetOffset` only moves the logical end): cells that were durable
beyond a rewound logical end stay on disk as `stale` and re-appear after a crash unless they were
overwritten (finding F2/C17; crashfs mimics the same behaviour).
-/
namespace ImmuModel.Store.Crash

structure Log (α : Type) where
  /-- logical content that has been fsynced -/
  durable : List α := []
  /-- appended since the last fsync (buffered or written): lost by a crash except for a prefix -/
  volatile : List α := []
  /-- fsynced cells physically following `durable` (left behind by a rewind); `volatile` cells shadow them -/
  stale : List α := []
deriving Repr

namespace Log
variable {α : Type}

def content (l : Log α) : List α := l.durable ++ l.volatile

def len (l : Log α) : Nat := l.durable.length + l.volatile.length

def append (l : Log α) (r : α) : Log α := { l with volatile := l.volatile ++ [r] }

def appendAll (l : Log α) (rs : List α) : Log α := { l with volatile := l.volatile ++ rs }

/-- `Flush` + `Sync`: every volatile cell becomes durable and overwrites the stale cell at its position. -/
def sync (l : Log α) : Log α :=
  { durable := l.durable ++ l.volatile, volatile := [], stale := l.stale.drop l.volatile.length }

/-- `SetOffset(n)`; `none` = `ErrIllegalArguments` (offset beyond the logical end).  A rewind below the
durable length leaves the cut cells on disk (`stale`). -/
def setOffset (l : Log α) (n : Nat) : Option (Log α) :=
  if l.len < n then none
  else if l.durable.length ≤ n then some { l with volatile := l.volatile.take (n - l.durable.length) }
  else some { durable := l.durable.take n, volatile := [], stale := l.durable.drop n ++ l.stale }

/-- The cell written partially by a torn write (at most one: the write in flight). -/
def tornCell (mk : α → α) (l : Log α) (k : Nat) (torn : Bool) : List α :=
  if torn then ((l.volatile.drop k).head?.map mk).toList else []

/-- Disk content after a crash in which the first `k` volatile cells reached the disk and, if `torn`,
the next one only partially (`mk r` = the torn version of `r`). -/
def image (mk : α → α) (l : Log α) (k : Nat) (torn : Bool) : List α :=
  l.durable ++ l.volatile.take k ++ tornCell mk l k torn ++
    l.stale.drop ((l.volatile.take k).length + (tornCell mk l k torn).length)

/-- A freshly opened log over the disk content `cells` whose logical end was set to `n` cells. -/
def ofDisk (cells : List α) (n : Nat) : Log α :=
  { durable := cells.take n, volatile := [], stale := cells.drop n }

end Log
end ImmuModel.Store.Crash
