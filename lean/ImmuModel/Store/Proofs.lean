/-
Mirrors embedded/store/verification.go: VerifyLinearProof, VerifyLinearAdvanceProof,
VerifyDualProof, VerifyDualProofV2 — branch by branch, in Go's order.
-/
import ImmuModel.Tx.Header
import ImmuModel.Merkle.Verify

namespace ImmuModel.Store
open ImmuModel.Tx ImmuModel.Merkle
variable {D : Type}

structure LinearProof (D : Type) where
  sourceTxID : Nat
  targetTxID : Nat
  terms : List D

structure LinearAdvanceProof (D : Type) where
  linearProofTerms : List D
  inclusionProofs : List (List D)

structure DualProof (D : Type) where
  sourceTxHeader : Option (TxHeader D)
  targetTxHeader : Option (TxHeader D)
  inclusionProof : List D
  consistencyProof : List D
  targetBlTxAlh : D
  lastInclusionProof : List D
  linearProof : Option (LinearProof D)
  linearAdvanceProof : Option (LinearAdvanceProof D)

/-- `for i := 1; i < len(Terms); i++ { alh = advanceLinearHash(alh, SourceTxID+i, Terms[i]) }` -/
def foldLinear (hs : Hs D) : D → Nat → List D → D
  | a, _, [] => a
  | a, id, t :: ts => foldLinear hs (advance hs a id t) (id + 1) ts

def verifyLinearProof [DecidableEq D] (hs : Hs D) (proof : Option (LinearProof D))
    (sourceTxID targetTxID : Nat) (sourceAlh targetAlh : D) : Bool :=
  match proof with
  | none => false
  | some p =>
    if p.sourceTxID ≠ sourceTxID ∨ p.targetTxID ≠ targetTxID then false
    else match p.terms with
      | [] => false
      | t0 :: rest =>
        if p.sourceTxID = 0 ∨ p.sourceTxID > p.targetTxID ∨ sourceAlh ≠ t0 then false
        else if p.terms.length ≠ targetTxID - sourceTxID + 1 then false
        else targetAlh == foldLinear hs t0 (p.sourceTxID + 1) rest

/-- The loop of `VerifyLinearAdvanceProof` over txID = startTxID+1 … endTxID-1.
`terms` = LinearProofTerms[1:], `ips` = InclusionProofs. -/
def advanceLoop [DecidableEq D] (hs : Hs D) (treeRoot : D) (treeSize : Nat) :
    D → Nat → List D → List (List D) → Option D
  | a, _, [], [] => some a
  | a, txID, t :: ts, ip :: ips =>
    if verifyInclusion hs.mh ip txID treeSize (hs.leafFor a) treeRoot
    then advanceLoop hs treeRoot treeSize (advance hs a (txID + 1) t) (txID + 1) ts ips
    else none
  | _, _, _, _ => none

def verifyLinearAdvanceProof [DecidableEq D] (hs : Hs D) (proof : Option (LinearAdvanceProof D))
    (startTxID endTxID : Nat) (endAlh treeRoot : D) (treeSize : Nat) : Bool :=
  if endTxID < startTxID then false
  else if endTxID ≤ startTxID + 1 then true
  else match proof with
    | none => false
    | some p =>
      if p.linearProofTerms.length ≠ endTxID - startTxID ∨
         p.inclusionProofs.length ≠ endTxID - startTxID - 1 then false
      else match p.linearProofTerms with
        | [] => false
        | t0 :: rest =>
          match advanceLoop hs treeRoot treeSize t0 (startTxID + 1) rest p.inclusionProofs with
          | none => false
          | some a => a == endAlh

/-- `VerifyDualProof`.  A header whose version has no hash method makes Go panic inside
`Alh()`: the model returns `none` for that (callers construct headers with version 0/1 only;
`TxHeaderFromProto` performs no check, see DESIGN). -/
def verifyDualProof [DecidableEq D] (hs : Hs D) (proof : Option (DualProof D))
    (sourceTxID targetTxID : Nat) (sourceAlh targetAlh : D) : Option Bool :=
  match proof with
  | none => some false
  | some p =>
    match p.sourceTxHeader, p.targetTxHeader with
    | some sh, some th =>
      if sh.id ≠ sourceTxID ∨ th.id ≠ targetTxID then some false
      else if sh.id = 0 ∨ sh.id > th.id then some false
      else match alh hs sh with
        | none => none
        | some cS =>
          if sourceAlh ≠ cS then some false
          else match alh hs th with
            | none => none
            | some cT =>
              if targetAlh ≠ cT then some false
              else if sourceTxID < th.blTxID ∧
                  ¬ verifyInclusion hs.mh p.inclusionProof sourceTxID th.blTxID (hs.leafFor sourceAlh) th.blRoot
                then some false
              else if sh.blTxID > 0 ∧
                  ¬ verifyConsistency hs.mh p.consistencyProof sh.blTxID th.blTxID sh.blRoot th.blRoot
                then some false
              else if th.blTxID > 0 ∧
                  ¬ verifyLastInclusion hs.mh p.lastInclusionProof th.blTxID (hs.leafFor p.targetBlTxAlh) th.blRoot
                then some false
              else if sourceTxID < th.blTxID then
                some (verifyLinearProof hs p.linearProof th.blTxID targetTxID p.targetBlTxAlh targetAlh &&
                      verifyLinearAdvanceProof hs p.linearAdvanceProof sh.blTxID sourceTxID sourceAlh th.blRoot th.blTxID)
              else if sourceTxID = th.blTxID ∧ p.targetBlTxAlh ≠ sourceAlh then some false
              else
                some (verifyLinearProof hs p.linearProof sourceTxID targetTxID sourceAlh targetAlh &&
                      verifyLinearAdvanceProof hs p.linearAdvanceProof sh.blTxID th.blTxID p.targetBlTxAlh th.blRoot th.blTxID)
    | _, _ => some false

structure DualProofV2 (D : Type) where
  sourceTxHeader : Option (TxHeader D)
  targetTxHeader : Option (TxHeader D)
  inclusionProof : List D
  consistencyProof : List D

inductive V2Err | illegalArguments | sourceNewer | unexpectedLinking | inclusion | consistency
  deriving DecidableEq, Repr

/-- `VerifyDualProofV2`; `none` = panic in `Alh()` (unsupported version). -/
def verifyDualProofV2 [DecidableEq D] (hs : Hs D) (proof : Option (DualProofV2 D))
    (sourceTxID targetTxID : Nat) (sourceAlh targetAlh : D) : Option (Except V2Err Unit) :=
  match proof with
  | none => some (.error .illegalArguments)
  | some p =>
    match p.sourceTxHeader, p.targetTxHeader with
    | some sh, some th =>
      if sh.id = 0 ∨ sh.id ≠ sourceTxID ∨ th.id ≠ targetTxID then some (.error .illegalArguments)
      else if sourceTxID > targetTxID then some (.error .sourceNewer)
      else match alh hs sh with
        | none => none
        | some cS =>
          if sourceAlh ≠ cS then some (.error .illegalArguments)
          else match alh hs th with
            | none => none
            | some cT =>
              if targetAlh ≠ cT then some (.error .illegalArguments)
              else if sh.id - 1 ≠ sh.blTxID ∨ th.id - 1 ≠ th.blTxID then some (.error .unexpectedLinking)
              else if sourceTxID = targetTxID then
                (if sourceAlh ≠ targetAlh then some (.error .illegalArguments) else some (.ok ()))
              else if ¬ verifyInclusion hs.mh p.inclusionProof sourceTxID th.blTxID (hs.leafFor sourceAlh) th.blRoot
                then some (.error .inclusion)
              else
                let v := if sourceTxID = 1
                  then verifyConsistency hs.mh p.consistencyProof sourceTxID th.blTxID (hs.leafFor sourceAlh) th.blRoot
                  else verifyConsistency hs.mh p.consistencyProof sh.blTxID th.blTxID sh.blRoot th.blRoot
                if v then some (.ok ()) else some (.error .consistency)
    | _, _ => some (.error .illegalArguments)

end ImmuModel.Store
