/-
C03 model, part 2: the commit / sync protocol of `embedded/store/immustore.go` as micro-steps in the
code's order, and `recover` mirroring `OpenWith` at record granularity.

  precommit (performPrecommit)  : value log Append (before the commit lock), txLog.SetOffset(precommittedTxLogSize),
                                  txLog.Append(record)
  sync()                        : vLogs Flush+Sync -> txLog Flush+Sync -> (durablePrecommit) ->
                                  cLog.SetOffset(committed) -> cLog.Append(entries) -> cLog.Flush+Sync ->
                                  committedTxID := target, commitWHub.DoneUpto(target)   (= acknowledgement)
  autoSync                      : a full write buffer fsyncs that ONE log (singleapp.write, retryableSync+autoSync)
  OpenWith                      : trim a partial commit-log entry; the last committed tx must be readable in the
                                  tx log and its Alh equal to the commit-log copy, otherwise ERROR; re-load
                                  precommitted txs while `ID = prev+1 ∧ PrevAlh = prevAlh` and the record parses.

Modelled rather than verified: the hash is IDEAL (`Alh` of a tx = its whole history, injective by
construction; collisions are the business of C01/C08), one value cell per tx, committers are serialised
(one value write outstanding), `commitStateRWMutex` makes `performPrecommit` and `sync()` mutually
exclusive (so no precommit happens between the micro-steps of one `sync()`), MaxActiveTransactions and
the hash tree (aht) are not part of this model.
-/
import ImmuModel.Store.Crash

namespace ImmuModel.Store.Crash

/-- ideal accumulated hash: the list of (id, body) of the tx and all its predecessors -/
abbrev Alh := List (Nat × Nat)

def alh0 : Alh := []

/-- a tx record in the tx log -/
structure Rec where
  id : Nat
  prevAlh : Alh
  body : Nat
  /-- position of its values in the value log -/
  vpos : Nat := 0
  /-- false: torn / unparsable record -/
  ok : Bool := true
deriving DecidableEq, Repr

def Rec.alh (r : Rec) : Alh := (r.id, r.body) :: r.prevAlh

def Rec.torn (r : Rec) : Rec := { r with ok := false }

/-- commit-log entry.  (offset,size) of the tx is implicit in the cell position; the Alh copy of
`cLogEntrySizeV2` is explicit. `ok = false`: partial entry (log size not a multiple of the entry size). -/
structure CEnt where
  alh : Alh
  ok : Bool := true
deriving DecidableEq, Repr

def CEnt.torn (e : CEnt) : CEnt := { e with ok := false }

def ent (r : Rec) : CEnt := { alh := r.alh }

/-- where `sync()` stands -/
inductive Pc where
  | idle
  | vlogSynced
  | txSynced (target : Nat)
  | clOffset (target : Nat)
  | clAppended (target : Nat)
  | clSynced (target : Nat)
  | acked (target : Nat)          -- only used by the `earlyAck` mutant
deriving DecidableEq, Repr

structure St where
  /-- configuration: values embedded in the tx log (`EmbeddedValues`) -/
  embedded : Bool := false
  vl : Log Bool := {}
  tx : Log Rec := {}
  cl : Log CEnt := {}
  /-- committedTxID -/
  committed : Nat := 0
  /-- inmemPrecommittedTxID / inmemPrecommittedAlh -/
  pre : Nat := 0
  preAlh : Alh := alh0
  /-- external commit allowance: `none` = disabled, `some a` = commitAllowedUpToTxID -/
  allow : Option Nat := none
  /-- value written for the next tx (position in the value log) -/
  pendingVal : Option Nat := none
  pc : Pc := .idle
  -- ghost state
  /-- highest acknowledged tx id -/
  acked : Nat := 0
  /-- the records of the acknowledged txs, as they were when acknowledged -/
  ackLog : List Rec := []
  /-- every record ever appended to the tx log -/
  ever : List Rec := []
deriving Repr

inductive Which where | vl | tx | cl
deriving DecidableEq, Repr

inductive Step where
  | valAppend
  | txAppend (body : Nat)
  | syncBegin
  | syncTx
  | clSetOffset
  | clAppend
  | clSync
  | ack
  | allowUpto (n : Nat)
  | autoSync (w : Which)
deriving DecidableEq, Repr

/-- the three protocols: the code's, and the two mutants of the necessity lemmas -/
inductive Proto where
  | code
  /-- commit-log append+sync BEFORE the tx-log sync -/
  | swapped
  /-- acknowledgement BEFORE the commit-log sync -/
  | earlyAck
deriving DecidableEq, Repr

/-- commitAllowedUpTo() -/
def St.target (s : St) : Nat :=
  match s.allow with
  | none => s.pre
  | some a => a

/-- the commit-log entries `sync()` appends: ids `committed+1 .. t`, read from cLogBuf (= the tx records) -/
def St.newEntries (s : St) (t : Nat) : List CEnt :=
  ((s.tx.content.drop s.committed).take (t - s.committed)).map ent

def doAck (s : St) (t : Nat) : St :=
  { s with committed := t, pc := .idle, acked := max s.acked t,
           ackLog := s.ackLog ++ (s.tx.content.drop s.ackLog.length).take (t - s.ackLog.length) }

/-- One micro-step; `none` = not enabled in this state. -/
def step (p : Proto) (s : St) : Step → Option St
  | .valAppend =>
    match s.pendingVal with
    | some _ => none
    | none => some { s with vl := s.vl.append true, pendingVal := some s.vl.len }
  | .txAppend body =>
    match s.pc, s.pendingVal with
    | .idle, some v =>
      -- will overwrite partially written and uncommitted data: txLog.SetOffset(precommittedTxLogSize)
      match s.tx.setOffset s.pre with
      | none => none
      | some txl =>
        let r : Rec := { id := s.pre + 1, prevAlh := s.preAlh, body := body, vpos := v }
        some { s with tx := txl.append r, pre := s.pre + 1, preAlh := r.alh, pendingVal := none, ever := s.ever ++ [r] }
    | _, _ => none
  | .syncBegin =>
    match s.pc with
    | .idle => if s.pre = s.committed then none else some { s with vl := s.vl.sync, pc := .vlogSynced }
    | _ => none
  | .syncTx =>
    match p, s.pc with
    | .swapped, .clSynced t => some { s with tx := s.tx.sync, pc := .txSynced t }
    | .swapped, _ => none
    | _, .vlogSynced =>
      let t := s.target
      some { s with tx := s.tx.sync, pc := if t - s.committed = 0 then .idle else .txSynced t }
    | _, _ => none
  | .clSetOffset =>
    match p, s.pc with
    | .swapped, .vlogSynced =>
      let t := s.target
      if t - s.committed = 0 then some { s with pc := .idle } else
      (s.cl.setOffset s.committed).map fun c => { s with cl := c, pc := .clOffset t }
    | .swapped, _ => none
    | _, .txSynced t => (s.cl.setOffset s.committed).map fun c => { s with cl := c, pc := .clOffset t }
    | _, _ => none
  | .clAppend =>
    match s.pc with
    | .clOffset t => some { s with cl := s.cl.appendAll (s.newEntries t), pc := .clAppended t }
    | _ => none
  | .clSync =>
    match p, s.pc with
    | .earlyAck, .acked _ => some { s with cl := s.cl.sync, pc := .idle }
    | .earlyAck, _ => none
    | _, .clAppended t => some { s with cl := s.cl.sync, pc := .clSynced t }
    | _, _ => none
  | .ack =>
    match p, s.pc with
    | .code, .clSynced t => some (doAck s t)
    | .swapped, .txSynced t => some (doAck s t)
    | .earlyAck, .clAppended t => some { doAck s t with pc := .acked t }
    | _, _ => none
  | .allowUpto n =>
    match s.pc, s.allow with
    | .idle, some a => if n ≤ a then some s else some { s with allow := some (min n s.pre) }
    | _, _ => none
  | .autoSync .vl => some { s with vl := s.vl.sync }
  | .autoSync .tx => some { s with tx := s.tx.sync }
  | .autoSync .cl => some { s with cl := s.cl.sync }

/-! ### crash images and recovery -/

/-- which un-fsynced cells of each log reached the disk -/
structure Choice where
  kv : Nat := 0
  kt : Nat := 0
  kc : Nat := 0
  tv : Bool := false
  tt : Bool := false
  tc : Bool := false
deriving Repr

structure Image where
  /-- configuration read from the tx-log metadata -/
  embedded : Bool := false
  vl : List Bool
  tx : List Rec
  cl : List CEnt
deriving Repr

def crashImage (s : St) (c : Choice) : Image :=
  { embedded := s.embedded,
    vl := s.vl.image (fun _ => false) c.kv c.tv,
    tx := s.tx.image Rec.torn c.kt c.tt,
    cl := s.cl.image CEnt.torn c.kc c.tc }

inductive Err where
  /-- "corrupted transaction log: size is too small" -/
  | txLogTooSmall
  /-- "could not read the last transaction" -/
  | lastTxUnreadable
  /-- "digest mismatch in the last transaction" -/
  | digestMismatch
deriving DecidableEq, Repr

/-- `rem := cLogSize % cLogEntrySize; cLog.SetOffset(cLogSize - rem)`: a partial entry can only be the last cell -/
def trimPartial (cs : List CEnt) : List CEnt :=
  match cs.getLast? with
  | none => []
  | some e => if e.ok then cs else cs.dropLast

/-- re-load of precommitted txs: while the record parses and `ID = prev+1 ∧ PrevAlh = prevAlh` -/
def scan (prevId : Nat) (prevAlh : Alh) : List Rec → List Rec
  | [] => []
  | r :: rs => if r.ok = true ∧ r.id = prevId + 1 ∧ r.prevAlh = prevAlh then r :: scan (prevId + 1) r.alh rs else []

/-- Alh of the last record of a chain starting after `a` -/
def lastAlh (a : Alh) : List Rec → Alh
  | [] => a
  | r :: rs => lastAlh r.alh rs

structure Recovered where
  committed : Nat
  committedAlh : Alh
  pre : Nat
  preAlh : Alh
  /-- the logs as OpenWith leaves them (logical ends set, nothing written) -/
  vl : Log Bool
  tx : Log Rec
  cl : Log CEnt
deriving Repr

/-- validation of the last committed tx: it must be readable in the tx log and its Alh must equal the commit-log copy -/
def checkLast (cl : List CEnt) (tx : List Rec) : Except Err Alh :=
  match cl.getLast? with
  | none => .ok alh0
  | some e =>
    match tx[cl.length - 1]? with
    | none => .error Err.txLogTooSmall
    | some r =>
      if r.ok = false ∨ e.ok = false then .error Err.lastTxUnreadable
      else if r.alh ≠ e.alh then .error Err.digestMismatch
      else .ok e.alh

/-- The re-load scan starts at `committedTxLogSize` = END of the last committed record.  With embedded values every
record is preceded by `[2-byte length][values]`, so the scan parses that prefix as a header: its "ID" is 0 (`io.EOF`) or
garbage (`ID ≠ prev+1`) and the loop stops at once — precommitted txs are never re-loaded in that mode. -/
def reload (embedded : Bool) (n : Nat) (committedAlh : Alh) (cells : List Rec) : List Rec :=
  if embedded then [] else scan n committedAlh cells

def recoverWith (img : Image) (n : Nat) (committedAlh : Alh) : Recovered :=
  let accepted := reload img.embedded n committedAlh (img.tx.drop n)
  { committed := n, committedAlh := committedAlh, pre := n + accepted.length, preAlh := lastAlh committedAlh accepted,
    vl := Log.ofDisk img.vl img.vl.length, tx := Log.ofDisk img.tx (n + accepted.length), cl := Log.ofDisk img.cl n }

def recover (img : Image) : Except Err Recovered :=
  match checkLast (trimPartial img.cl) img.tx with
  | .error e => .error e
  | .ok a => .ok (recoverWith img (trimPartial img.cl).length a)

/-- the store after `OpenWith` succeeded on a crash image (ghost state carried over: clients remember what was acknowledged) -/
def ofRecovered (s : St) (r : Recovered) : St :=
  { embedded := s.embedded, vl := r.vl, tx := r.tx, cl := r.cl, committed := r.committed, pre := r.pre, preAlh := r.preAlh,
    allow := s.allow.map fun _ => r.committed, pendingVal := none, pc := .idle,
    acked := s.acked, ackLog := s.ackLog, ever := s.ever }

/-- crash + reopen -/
def restart (s : St) (c : Choice) : Except Err St :=
  (recover (crashImage s c)).map (ofRecovered s)

/-- states reachable from the empty store by micro-steps and crash/restarts, under protocol `p` -/
inductive Reach (p : Proto) (allow : Option Nat) : St → Prop where
  | init (embedded : Bool) : Reach p allow { allow := allow, embedded := embedded }
  | step {s s' : St} (st : Step) : Reach p allow s → step p s st = some s' → Reach p allow s'
  | restart {s s' : St} (c : Choice) : Reach p allow s → restart s c = .ok s' → Reach p allow s'

/-- run a list of steps (driver / witnesses) -/
def run (p : Proto) (s : St) : List Step → Option St
  | [] => some s
  | st :: rest => (step p s st).bind fun s' => run p s' rest

end ImmuModel.Store.Crash
