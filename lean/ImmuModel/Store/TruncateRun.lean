/-
C02 (maintenance) — histories of committers and maintenance operations over the value logs.

`Store/Commit.lean` models the tx log / commit log; it has no value logs.  `Store/Truncate.lean` (C14) models the
value logs and ONE `TruncateUptoTx`, statement by statement.  This file puts the latter into op sequences, so that
C02's "the values of a committed tx never change … not after … index flush or compaction … or value-log truncation,
over all maintenance operations interleaved with the committers" is a statement about every run:

* `stage v lens`   — phase 1 of `precommit`: a committer appends its values to value log `v` (`appendValuesIntoAnyVLog`,
                     only the vlog is held); it has NO tx id yet.  Which log, and how many committers are staged at once,
                     is arbitrary (every schedule, every MaxConcurrency / MaxIOConcurrency);
* `commit k`       — phase 2: the `k`-th staged committer takes the commit lock and gets the next id (any order:
                     value-log order and id order are unrelated);
* `truncate n`     — `TruncateUptoTx(n)` = `Truncate.truncateUpto` (walks over the COMMITTED txs only, as the code does);
* `indexMaint`     — `FlushIndexes` / `CompactIndexes` / index reopen: touches neither tx log nor value logs
                     (modelled: that these calls stay inside the index directory is exercised by the harness, not proved);
* `reopen`         — `Close` + `Open`: committers in flight are gone; committed txs and chunk files are what they were.

Core Lean only.
-/
import ImmuModel.Store.Truncate

namespace ImmuModel.Store.TruncateRun
open ImmuModel.Store.Truncate

structure St where
  store : Store
  staged : List TxEnts := []   -- value placements of the committers between phase 1 and phase 2

inductive Op where
  | stage (v : Nat) (lens : List Nat)
  | commit (k : Nat)
  | truncate (n : Nat)
  | indexMaint
  | reopen
deriving Repr, DecidableEq

def step (s : St) : Op → St
  | .stage v lens =>
    let r := s.store.appendInto v lens
    { store := r.1, staged := s.staged ++ [r.2] }
  | .commit k =>
    match s.staged[k]? with
    | some tx => { store := s.store.commitTx tx, staged := s.staged.eraseIdx k }
    | none => s
  | .truncate n => { s with store := (truncateUpto s.store n).store }
  | .indexMaint => s
  | .reopen => { s with staged := [] }

def run (s : St) (ops : List Op) : St := ops.foldl step s

/-- A fresh store: chunk size `F`, `io` value logs. -/
def init (F io : Nat) : St := { store := { F := F, maxIO := io } }

/-- The cut points of the truncations of an op sequence. -/
def cuts : List Op → List Nat
  | [] => []
  | .truncate n :: ops => n :: cuts ops
  | _ :: ops => cuts ops

end ImmuModel.Store.TruncateRun
