/-
C14 — value-log truncation (embedded/store/immustore.go `TruncateUptoTx`, `appendValuesInto`,
`readValueAt`, `ExportTx`; embedded/appendable/multiapp/multi_app.go `DiscardUpto`, `ReadAt`).

The model mirrors the code that exists, statement by statement:

* a committed tx is the list of its entries' value locations `(vlog, off, len)` exactly as the tx
  log records them (`vOff = vLogID<<56 | off`, `vLen`): `appendValues` mirrors
  `appendValuesIntoAnyVLog`/`appendValuesInto` — all values of one tx go to ONE value log,
  contiguous and ascending from the log's offset at that moment; an empty value is NOT appended and
  keeps offset 0 (but gets the tx's vlog id, because `encodeOffset` is applied to every slot);
* which vlog and which start offset a tx gets is ARBITRARY (`Placed`): this abstracts every
  schedule of concurrent committers and every `MaxIOConcurrency`;
* a value log is a `multiapp`: chunk files of `F` bytes, `cur` = id of the active chunk
  (`currAppID`), `offset` = logical end, `present` = chunk files existing on disk;
* `truncateUpto n` = the backward walk (ids n, n-1, …: first tx seen per vlog, offset of its FIRST
  entry, stop when `len(tombstones) == MaxIOConcurrency`), the forward walk (ids n … lastCommitted:
  minimum with the first-entry offset), then `DiscardUpto` per tombstone;
* `discardUpto off` removes the chunk files `0 … off/F - 1`, stopping at the active chunk;
* `readValue` = `readValueAt` + `multiapp.ReadAt`: `eof` iff the value is not stored (vlog 0) or a
  chunk holding one of its bytes does not exist;
* `exportLoop` = the per-entry loop of `ExportTx` with `_valBsMux` as a resource token.

Core Lean only (the driver links this file).
-/
namespace ImmuModel.Store.Truncate

/-- Value location of one tx entry as written in the tx log. `vlog = 0`: not stored in any value
log (entry of a tx replicated without values). -/
structure Ent where
  vlog : Nat
  off : Nat
  len : Nat
deriving Repr, DecidableEq, Inhabited

/-- Entries of a committed tx, in tx order. -/
abbrev TxEnts := List Ent

/-- `appendValuesInto` on a log whose current offset is `o`: an empty value is skipped (its slot
keeps offset 0), a non-empty value is appended at the current offset. `appendValuesIntoAnyVLog`
then ORs the vlog id into EVERY slot. -/
def appendValues (v : Nat) : Nat → List Nat → TxEnts
  | _, [] => []
  | o, l :: ls => if l = 0 then ⟨v, 0, 0⟩ :: appendValues v o ls
                  else ⟨v, o, l⟩ :: appendValues v (o + l) ls

/-- What the code guarantees about the entries of one tx: produced by ONE `appendValuesIntoAnyVLog`
call on SOME vlog at SOME offset. Nothing relates different txs. -/
def Placed (tx : TxEnts) : Prop := ∃ v o lens, tx = appendValues v o lens

/-- One value log (`multiapp.MultiFileAppendable`). -/
structure VLog where
  cur : Nat := 0            -- currAppID
  offset : Nat := 0         -- offset()
  present : List Nat := [0] -- ids of the chunk files on disk
deriving Repr, Inhabited

structure Store where
  F : Nat                    -- FileSize
  maxIO : Nat                -- MaxIOConcurrency
  embedded : Bool := false   -- EmbeddedValues
  txs : List TxEnts := []    -- committed txs; id = index + 1
  vlogs : Nat → VLog := fun _ => {}
  valBsLocked : Bool := false -- `_valBsMux` is held although no ExportTx is running (no exit of ExportTx leaves it so)
deriving Inhabited

def Store.last (s : Store) : Nat := s.txs.length

inductive Err where
  | illegalArguments     -- ErrIllegalArguments (tx id 0; DiscardUpto beyond the end)
  | txNotFound           -- ErrTxNotFound
  | indexOutOfRange      -- ErrTxEntryIndexOutOfRange (tx without entries)
  | unexpected           -- ErrUnexpectedError (fetchVLog, single-vlog store, id ≠ 1)
deriving Repr, DecidableEq

/-- `readTxOffsetAt(id, false, 1)`: the first entry of a committed tx. -/
def Store.firstEntry (s : Store) (id : Nat) : Except Err Ent :=
  if id = 0 then .error .illegalArguments
  else if s.last < id then .error .txNotFound
  else match s.txs[id - 1]? with
    | none => .error .txNotFound
    | some [] => .error .indexOutOfRange
    | some (e :: _) => .ok e

/-! ### tombstones: `map[byte]int64` -/

abbrev Tomb := List (Nat × Nat)

def Tomb.has (t : Tomb) (v : Nat) : Bool := t.any (fun p => p.1 == v)

/-- `back`: `if _, ok := tombstones[v]; !ok { tombstones[v] = off }`. -/
def Tomb.addIfAbsent (t : Tomb) (v off : Nat) : Tomb :=
  if t.has v then t else t ++ [(v, off)]

/-- `front`: `if val, ok := tombstones[v]; ok { if off < val { tombstones[v] = off } }`. -/
def Tomb.lower (t : Tomb) (v off : Nat) : Tomb :=
  t.map (fun p => if p.1 = v ∧ off < p.2 then (p.1, off) else p)

/-- Backward walk `for i := n; i > 0 && len(tombstones) != MaxIOConcurrency; i--`.
`ErrTxEntryIndexOutOfRange` is tolerated, any other error aborts the truncation. -/
def backWalk (s : Store) : Nat → Tomb → Except Err Tomb
  | 0, t => .ok t
  | i + 1, t =>
    if t.length = s.maxIO then .ok t
    else match s.firstEntry (i + 1) with
      | .ok e => backWalk s i (t.addIfAbsent e.vlog e.off)
      | .error .indexOutOfRange => backWalk s i t
      | .error e => .error e

/-- Forward walk `for j := n; j <= maxTxID; j++` (`k` = number of ids still to visit). -/
def frontWalk (s : Store) : Nat → Nat → Tomb → Except Err Tomb
  | _, 0, t => .ok t
  | j, k + 1, t =>
    match s.firstEntry j with
    | .ok e => frontWalk s (j + 1) k (t.lower e.vlog e.off)
    | .error .indexOutOfRange => frontWalk s (j + 1) k t
    | .error e => .error e

/-- The tombstones `TruncateUptoTx(n)` computes (or the error it returns before touching a file). -/
def tombstones (s : Store) (n : Nat) : Except Err Tomb :=
  match backWalk s n [] with
  | .error e => .error e
  | .ok t => frontWalk s n (s.last + 1 - n) t

/-! ### DiscardUpto -/

/-- `appendableID(off, fileSize)`. -/
def chunkOf (F off : Nat) : Nat := off / F

/-- The chunk ids removed by `DiscardUpto(off)`: `for i := 0; i < appID; i++ { if i == currAppID { break }; remove i }`. -/
def VLog.removedBy (l : VLog) (F off c : Nat) : Bool := c < chunkOf F off && c < l.cur

/-- `DiscardUpto`: error (nothing removed) beyond the end of the log. -/
def VLog.discardUpto (l : VLog) (F off : Nat) : Except Err VLog :=
  if l.offset < off then .error .illegalArguments
  else .ok { l with present := l.present.filter (fun c => !l.removedBy F off c) }

/-- `fetchVLog(v)`: `none` = the Go code dereferences a nil map entry (panic). -/
def Store.fetchVLog (s : Store) (v : Nat) : Option (Except Err Unit) :=
  if s.maxIO = 1 then (if v = 1 then some (.ok ()) else some (.error .unexpected))
  else if 1 ≤ v ∧ v ≤ s.maxIO then some (.ok ()) else none

def Store.setVLog (s : Store) (v : Nat) (l : VLog) : Store :=
  { s with vlogs := fun w => if w = v then l else s.vlogs w }

inductive Outcome where
  | ok
  | err (es : List Err)   -- multierr (classes, in tombstone order)
  | panic
deriving Repr, DecidableEq

structure TruncRes where
  store : Store
  out : Outcome

/-- The final loop over the tombstones: fetch the vlog, `DiscardUpto`, collect errors.
(Go iterates the map in random order; different vlogs are independent, so only the order of the
collected errors — and the part done before a panic — depends on it.) -/
def discardAll : Store → List Err → Tomb → TruncRes
  | s, es, [] => ⟨s, if es.isEmpty then .ok else .err es⟩
  | s, es, (v, off) :: t =>
    match s.fetchVLog v with
    | none => ⟨s, .panic⟩
    | some (.error e) => discardAll s (es ++ [e]) t
    | some (.ok ()) =>
      match (s.vlogs v).discardUpto s.F off with
      | .error e => discardAll s (es ++ [e]) t
      | .ok l => discardAll (s.setVLog v l) es t

/-- `TruncateUptoTx(n)`. -/
def truncateUpto (s : Store) (n : Nat) : TruncRes :=
  if s.embedded then ⟨s, .ok⟩
  else match tombstones s n with
    | .error e => ⟨s, .err [e]⟩
    | .ok t => discardAll s [] t

/-! ### reading values -/

inductive Rd where
  | ok    -- value read (or empty)
  | eof   -- io.EOF: truncated / never stored
  | err   -- any other error of readValueAt (digest mismatch, closed, …)
deriving Repr, DecidableEq

/-- Chunk ids holding the bytes `[off, off+len)`, `len > 0`. -/
def chunksOf (F : Nat) (e : Ent) : List Nat :=
  List.range' (chunkOf F e.off) (chunkOf F (e.off + e.len - 1) + 1 - chunkOf F e.off)

/-- `readValueAt` (no corruption in the model): empty ⇒ ok; vlog 0 ⇒ EOF; a missing chunk file ⇒ EOF. -/
def Store.readValue (s : Store) (e : Ent) : Rd :=
  if e.len = 0 then .ok
  else if e.vlog = 0 then .eof
  else if (chunksOf s.F e).all (fun c => (s.vlogs e.vlog).present.contains c) then .ok else .eof

def Store.readable (s : Store) (e : Ent) : Prop := s.readValue e = .ok

instance (s : Store) (e : Ent) : Decidable (s.readable e) := by unfold Store.readable; infer_instance

/-! ### ExportTx -/

inductive ExpOut where
  | values      -- every value exported
  | digests     -- every value replaced by its digest (`truncated` flag 1)
  | errPartial  -- "%w: partially truncated transaction" (ErrCorruptedData)
  | errRead     -- error of readValueAt
  | errTx       -- readTx failed (no such tx)
  | blocked     -- `_valBsMux.Lock()` never returns
deriving Repr, DecidableEq

/-- Result of the entry loop: the outcome and whether `_valBsMux` is still held on return. -/
structure ExpRes where
  out : ExpOut
  locked : Bool
deriving Repr, DecidableEq

/-- The pass in front of the entry loop of `ExportTx`, run only when the FIRST entry holds an empty value
(`tx.Entries()[0].vLen == 0`): the first non-empty value is read (without `_valBsMux`, into a buffer of its
own) to learn how the transaction is going to be exported — `some true` = by digest (`io.EOF`), `some false`
= with its values (also when every value is empty), `none` = another error of `readValueAt`.  Entries are
given as `(vLen, result of readValueAt)`. -/
def firstNonEmpty : List (Nat × Rd) → Option Bool
  | [] => some false
  | (len, r) :: rs =>
    if len = 0 then firstNonEmpty rs
    else match r with
      | .err => none
      | .eof => some true
      | .ok => some false

def exportPre : List (Nat × Rd) → Option Bool
  | [] => some false
  | (len, r) :: rs => if len = 0 then firstNonEmpty ((len, r) :: rs) else some false

/-- The loop `for i, e := range tx.Entries()` of `ExportTx`, given `(vLen, result of readValueAt)` for
each entry. Every iteration starts with `Lock()`; every exit — the two "partially truncated" returns
included — is preceded by `Unlock()`.  An EMPTY value reads fine whether or not the values of the
transaction were truncated (nothing to read): `err == nil && (e.vLen > 0 || !isValueTruncated)` sends it
with the values of an untruncated transaction and by digest with those of a truncated one, so it is
neutral for both "either all the values are sent or none" guards (before that repair a wholly truncated
transaction holding an empty value took a "partially truncated" exit and could never be exported again).
(`locked` is kept in the result so that the lock discipline is a statement about the model,
`Props.C14.export_releases_lock`, and the driver reports it to the harness, which checks the real mutex
with `TryLock`.) -/
def exportLoop : Nat → Bool → List (Nat × Rd) → ExpRes
  | _, trunc, [] => ⟨if trunc then .digests else .values, false⟩
  | i, trunc, (len, r) :: rs =>
    match r with
    | .err => ⟨.errRead, false⟩                                   -- Unlock(); return
    | .ok =>
      if 0 < len ∨ trunc = false then
        if trunc then ⟨.errPartial, false⟩                         -- Unlock(); return
        else exportLoop (i + 1) trunc rs                           -- value written; Unlock()
      else
        -- empty value of a truncated transaction: the digest branch (its guard needs `!isValueTruncated`)
        exportLoop (i + 1) true rs                                 -- digest written; Unlock()
    | .eof => if !trunc && 0 < i then ⟨.errPartial, false⟩        -- Unlock(); return
              else exportLoop (i + 1) true rs                      -- digest written; Unlock()

/-- Pre-pass and loop on the read results of a non-empty transaction. -/
def exportRun (rs : List (Nat × Rd)) : ExpRes :=
  match exportPre rs with
  | none => ⟨.errRead, false⟩                                      -- returned before the first `Lock()`
  | some t => exportLoop 0 t rs

/-- `ExportTx(id)` on a store: a tx with ≥ 1 entry needs the mutex (the pre-pass does not, but in this
model `readValueAt` answers `ok` or `io.EOF` only, so it never returns early). -/
def Store.exportTx (s : Store) (id : Nat) : Store × ExpOut :=
  if id = 0 ∨ s.last < id then (s, .errTx)
  else match s.txs[id - 1]? with
    | none => (s, .errTx)
    | some tx =>
      if tx.isEmpty then (s, .values)
      else if s.valBsLocked then (s, .blocked)
      else
        let r := exportRun (tx.map (fun e => (e.len, s.readValue e)))
        ({ s with valBsLocked := r.locked }, r.out)

/-! ### committing (used by the in-flight witness) -/

/-- A committer appends its values (phase 1, only the vlog lock is held) … -/
def Store.appendInto (s : Store) (v : Nat) (lens : List Nat) : Store × TxEnts :=
  let l := s.vlogs v
  let tot := lens.foldl (· + ·) 0
  let off' := l.offset + tot
  let cur' := if tot = 0 then l.cur else Nat.max l.cur (chunkOf s.F (off' - 1))
  (s.setVLog v { l with offset := off', cur := cur',
                        present := l.present ++ (List.range' (l.cur + 1) (cur' - l.cur)) },
   appendValues v l.offset lens)

/-- … and later (phase 2, commit lock) the tx becomes visible. -/
def Store.commitTx (s : Store) (tx : TxEnts) : Store := { s with txs := s.txs ++ [tx] }

end ImmuModel.Store.Truncate
