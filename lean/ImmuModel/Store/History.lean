/-
Histories and the relations the C01 theorems talk about.
-/
import ImmuModel.Store.Proofs
import ImmuModel.Tx.Entry

namespace ImmuModel.Store
open ImmuModel.Tx ImmuModel.Merkle
variable {D : Type}

/-- `LinExt s a t c`: the accumulated hash `c` of tx `t` is reached from the accumulated hash
`a` of tx `s` by `t - s` applications of `advanceLinearHash` (with SOME inner hashes). -/
inductive LinExt (hs : Hs D) (s : Nat) (a : D) : Nat → D → Prop
  | refl : LinExt hs s a s a
  | step {t : Nat} {b : D} (inner : D) : LinExt hs s a t b → LinExt hs s a (t + 1) (advance hs b (t + 1) inner)

/-- The leaves of the binary-linking tree: `leafFor(alh_k)`. -/
def treeLeaves (hs : Hs D) (alhs : List D) : List D := alhs.map hs.leafFor

/-- `Hist hs hdrs alhs`: `hdrs` is a well-formed history with accumulated hashes `alhs`:
ids dense from 1, every header hashable (version 0/1), `PrevAlh` chains, `BlTxID < ID`
(ANY lag), `BlRoot` is the reference Merkle root over the first `BlTxID` accumulated hashes. -/
structure Hist (hs : Hs D) (hdrs : List (TxHeader D)) (alhs : List D) : Prop where
  len : hdrs.length = alhs.length
  wf : ∀ i (h : i < hdrs.length),
    (hdrs[i]).id = i + 1 ∧
    alh hs hdrs[i] = some (alhs[i]'(by rw [← len]; exact h)) ∧
    (∀ (h0 : 0 < i), (hdrs[i]).prevAlh = alhs[i - 1]'(by rw [← len]; omega)) ∧
    (hdrs[i]).blTxID ≤ i ∧
    (0 < (hdrs[i]).blTxID → (hdrs[i]).blRoot = mth hs.mh (treeLeaves hs (alhs.take (hdrs[i]).blTxID)))

/-- An entry as covered by the v1 entry digest. -/
structure EntryV1 (D : Type) where
  md : Bytes
  key : Bytes
  hvalue : D

def EntryV1.digest (hs : Hs D) (e : EntryV1 D) : D := entryDigestV1 hs e.md e.key e.hvalue

/-- Lengths representable in the uint16 fields of the v1 digest (what `Set` enforces:
key ≤ MaxKeyLen, kv-metadata ≤ maxKVMetadataLen). -/
def EntryV1.Fits (e : EntryV1 D) : Prop := e.md.length < 65536 ∧ e.key.length < 65536

end ImmuModel.Store
