/-
C07 — synchronous replication, the acknowledgement protocol
(`pkg/database/database.go`: `mayUpdateReplicaState`, the state checks of `ExportTxByID`,
`AllowCommitUpto`; `pkg/replication/replicator.go`: one round of `fetchNextTx`).

Transactions are abstracted to their ids (the byte level is `Store/Replica.lean`); what is kept is
exactly what the protocol computes with: per store the precommitted / durably precommitted /
committed ids and the commit allowance, on the primary the map `replicaStates`.
`reports` is a ghost log of every replica state the primary has been shown (uuid, durably
precommitted id): the safety theorem is stated against it.  Core Lean only.
-/
namespace ImmuModel.SyncRepl

/-- The primary database: its store counters and `replicaStates` (uuid ↦ precommittedTxID; the
stored Alh is never read back by the code). -/
structure Prim where
  syncAcks : Nat
  pre : Nat := 0          -- (durably) precommitted
  committed : Nat := 0
  allowed : Nat := 0      -- commitAllowedUpToTxID of the primary's store
  states : List (String × Nat) := []
  deriving Repr

def lookup (u : String) : List (String × Nat) → Option Nat
  | [] => none
  | (k, v) :: t => if k = u then some v else lookup u t

def upsert (u : String) (v : Nat) : List (String × Nat) → List (String × Nat)
  | [] => [(u, v)]
  | (k, w) :: t => if k = u then (k, v) :: t else (k, w) :: upsert u v t

/-- `mayCommitUpToTxID`: `math.MaxUint64` lowered to the smallest informed precommitted id
(0 for an empty map). -/
def minPre (s : List (String × Nat)) : Nat :=
  if s.isEmpty then 0 else s.foldl (fun m x => if x.2 < m then x.2 else m) (2 ^ 64 - 1)

/-- `ImmuStore.AllowCommitUpto(txID)` on the primary's store (external allowance enabled):
never lowered, capped by what is precommitted. -/
def Prim.storeAllow (p : Prim) (txID : Nat) : Prim :=
  if txID ≤ p.allowed then p
  else { p with allowed := if p.pre < txID then p.pre else txID }

/-- `mayUpdateReplicaState(committedTxID, newReplicaState)`; the Boolean is `err == nil`
(the clean-up of the map happens before any error exit). -/
def Prim.report (p : Prim) (uuid : String) (rpre : Nat) : Prim × Bool :=
  let st := p.states.filter (fun x => x.2 > p.committed)
  let p1 := { p with states := st }
  if rpre ≤ p.committed then (p1, true)
  else
    match lookup uuid st with
    | some old =>
      if rpre < old then (p1, false)
      else if rpre = old then (p1, true)
      else
        let st2 := upsert uuid rpre st
        let p2 := { p1 with states := st2 }
        if st2.length ≥ p.syncAcks then (p2.storeAllow (minPre st2), true) else (p2, true)
    | none =>
      let st2 := upsert uuid rpre st
      let p2 := { p1 with states := st2 }
      if st2.length ≥ p.syncAcks then (p2.storeAllow (minPre st2), true) else (p2, true)

/-- What `ExportTxByID` answers to a replica that informs (committed, precommitted):
`none` = "replica … state diverged from primary's" (ids only; the Alh comparison is in the byte
model); otherwise `mayCommitUpToTxID`, computed from the commit state read BEFORE the update. -/
def Prim.mayCommitFor (p : Prim) (rcommitted rpre : Nat) : Option Nat :=
  if rcommitted > p.committed then none
  else if rpre > p.pre then none
  else if rpre = 0 then some 0
  else if rpre < p.committed then some rpre else some p.committed

/-- A replica store (the counters of `Store/Replica.lean`). `synced`: durability and commits happen
in `sync()`; otherwise every precommit is durable at once and `AllowCommitUpto` commits at once. -/
structure Repl where
  uuid : String
  synced : Bool := false
  pre : Nat := 0
  durable : Nat := 0
  committed : Nat := 0
  allowed : Nat := 0
  deriving Repr

/-- `db.AllowCommitUpto(txID, alh)` with a matching Alh, on a replica store
(`ImmuStore.AllowCommitUpto`: capped by what is precommitted; commits at once unless `Synced`). -/
def Repl.allow (r : Repl) (txID : Nat) : Repl :=
  if txID ≤ r.allowed then r
  else
    let a := if r.pre < txID then r.pre else txID
    if r.synced then { r with allowed := a } else { r with allowed := a, committed := a }

/-- `sync()` of a replica store: everything precommitted becomes durable; the allowed transactions
are committed (nothing is, if the allowance points beyond what is precommitted). -/
def Repl.sync (r : Repl) : Repl :=
  if r.pre = r.committed then r
  else if r.allowed ≤ r.pre ∧ r.committed < r.allowed then { r with durable := r.pre, committed := r.allowed }
  else { r with durable := r.pre }

structure Sys where
  prim : Prim
  repls : List Repl
  reports : List (String × Nat) := []    -- ghost: every (uuid, durable precommitted id) shown to the primary

inductive Ev
  | pPrecommit                          -- a client write is precommitted on the primary
  | pCommit                             -- the primary's store commits up to its allowance (mayCommit / sync)
  | fetch (i : Nat) (replicate : Bool)  -- one `fetchNextTx` round of replica `i` (optionally replicating the next tx)
  | rSync (i : Nat)                     -- `sync()` on replica `i`
  | rDiscard (i : Nat) (since : Nat)    -- replica `i` discards precommitted txs
  deriving Repr

def setAt {α : Type} : List α → Nat → α → List α
  | [], _, _ => []
  | _ :: t, 0, a => a :: t
  | x :: t, n + 1, a => x :: setAt t n a

def Sys.step (s : Sys) : Ev → Sys
  | .pPrecommit => { s with prim := { s.prim with pre := s.prim.pre + 1 } }
  | .pCommit => { s with prim := { s.prim with committed := if s.prim.allowed > s.prim.committed then s.prim.allowed else s.prim.committed } }
  | .rSync i =>
    match s.repls[i]? with
    | none => s
    | some r => { s with repls := setAt s.repls i r.sync }
  | .rDiscard i since =>
    match s.repls[i]? with
    | none => s
    | some r =>
      if since = 0 ∨ since ≤ r.committed ∨ since > r.pre then s
      else
        let np := since - 1
        { s with repls := setAt s.repls i { r with pre := np, durable := if r.durable > np then np else r.durable } }
  | .fetch i replicate =>
    match s.repls[i]? with
    | none => s
    | some r =>
      match s.prim.mayCommitFor r.committed r.durable with
      | none => s                                       -- diverged: nothing is updated, nothing exported
      | some may =>
        let (p1, ok) := s.prim.report r.uuid r.durable
        let s1 := { s with prim := p1, reports := (r.uuid, r.durable) :: s.reports }
        if !ok then s1
        else
          -- the exported tx (if any) is replicated, then the commit allowance is applied
          let r1 := if replicate ∧ r.pre < p1.pre then
              (if r.synced then { r with pre := r.pre + 1 } else { r with pre := r.pre + 1, durable := r.pre + 1 })
            else r
          let r2 := if may > r1.committed then r1.allow may else r1
          { s1 with repls := setAt s1.repls i r2 }

def Sys.run (s : Sys) : List Ev → Sys
  | [] => s
  | e :: t => (s.step e).run t

/-- `Acked reports n k`: at least `k` DISTINCT replicas have informed a durably precommitted id `≥ n`. -/
def Acked (reports : List (String × Nat)) (n k : Nat) : Prop :=
  ∃ us : List String, us.Nodup ∧ k ≤ us.length ∧ ∀ u ∈ us, ∃ m, n ≤ m ∧ (u, m) ∈ reports

/-- Initial system: the primary has committed `c0` transactions (allowance = committed, as set by
`SetExternalCommitAllowance(true)`), no replica state is known, every replica has a committed
prefix not longer than the primary's. -/
def Sys.Init (s : Sys) (c0 : Nat) : Prop :=
  s.prim.committed = c0 ∧ s.prim.allowed = c0 ∧ c0 ≤ s.prim.pre ∧ s.prim.states = [] ∧ s.reports = [] ∧
  ∀ r ∈ s.repls, r.committed ≤ c0 ∧ r.allowed = r.committed ∧ r.committed ≤ r.durable ∧ r.durable ≤ r.pre

end ImmuModel.SyncRepl
