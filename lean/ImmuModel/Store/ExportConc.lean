/-
C07 — several exporters on one primary (`embedded/store/immustore.go`, `ExportTx`; `pkg/database.ExportTxByID`,
`pkg/server.StreamExportTx`: one call per connected replica / export client, all on ONE store, while clients commit).

Two models, core Lean only.

1. `Ev`/`run` — the primary as the replicas see it.  The committed history only grows (`commit` appends); an exporter's
   call `ExportTx(id)` is answered from the history AT THAT MOMENT: `exportAt` = tx not found, or the writer `exportTx`
   (`Tx/Export.lean`) applied to the committed transaction.  One call = one atomic step: this is the SPECIFICATION of
   what a call may depend on (the committed transaction and nothing else — no other call in flight, no holder, no
   cache); whether the real code lives up to it under real interleavings is what the harness compares
   (`harness/cmd/vh/c07cx.go`: every answer of N concurrent exporters = the sequential answer = `exportTx` of the
   committed transaction).

2. `Sys`/`Sys.step` — the part of `ExportTx` that is NOT a function of the committed transaction alone: the entry loop
   reads every value of at most `len(s._valBs)` bytes into the STORE-WIDE scratch buffer `s._valBs` and then copies it
   into its own `bytes.Buffer`; `s._valBsMux` is taken before the read and released after the copy.  Per entry, in the
   order of the code:   Lock · readValueAt(valBuf) · buf.Write(valBuf) · Unlock.
   A thread is one `ExportTx` call reduced to its values; any number of threads, any schedule (`List Nat` = which
   thread makes its next step; a thread that cannot move — the mutex is taken — is skipped).  Values longer than the
   scratch buffer go through a private buffer (`valBuf = make([]byte, e.vLen)`), under the same mutex.
   `stepEarlyUnlock` is the SAME loop with the release moved in front of the copy (Lock · read · Unlock · copy): the
   witness that the position of the `Unlock` is what the property hangs on.
-/
import ImmuModel.Tx.Export
namespace ImmuModel.ExportConc
open ImmuModel ImmuModel.Tx

-- ------------------------------------------------------------------ 1. the primary as the exporters see it

/-- events on one primary store -/
inductive Ev
  | commit (x : Parsed)          -- a client's transaction is committed: id = length of the history + 1
  | export (g : Nat) (id : Nat)  -- exporter `g` (a replica being served, an ExportTx client) asks for tx `id`

/-- The answer of `ExportTx(id)` on the committed history `P` (tx ids from 1): `none` = `ErrTxNotFound`. -/
def exportAt (P : List Parsed) (id : Nat) : Option (Except Fault Bytes) :=
  if id = 0 then none else (P[id - 1]?).map exportTx

/-- one answered call: exporter, tx id, answer -/
abbrev Answer := Nat × Nat × Option (Except Fault Bytes)

/-- The run of an event sequence from history `P`: the final history and the answers, oldest first. -/
def run : List Parsed → List Ev → List Parsed × List Answer
  | P, [] => (P, [])
  | P, .commit x :: evs => run (P ++ [x]) evs
  | P, .export g id :: evs => ((run P evs).1, (g, id, exportAt P id) :: (run P evs).2)

-- ------------------------------------------------------------------ 2. the scratch buffer of the entry loop

/-- where one `ExportTx` call stands in its entry loop; `v` = the value of the entry being exported -/
inductive PC
  | idle                          -- between entries (before `s._valBsMux.Lock()`)
  | locked (v : Bytes)            -- the mutex is held, `valBuf` chosen
  | read (v : Bytes)              -- `readValueAt(valBuf, …)` done
  | copied (v : Bytes)            -- `buf.Write(valBuf)` done
  | unlockedEarly (v : Bytes)     -- only reachable by `stepEarlyUnlock`: released, `valBuf` not yet copied
  deriving DecidableEq, Repr

/-- one `ExportTx` call reduced to its values -/
structure Th where
  todo : List Bytes := []    -- values of the entries not yet exported
  pc : PC := .idle
  priv : Bytes := []         -- the private `valBuf` of a value longer than the scratch buffer
  out : List Bytes := []     -- values written to the call's own export buffer so far
  deriving DecidableEq, Repr

structure Sys where
  cap : Nat                  -- `len(s._valBs)` = DefaultMaxValueLen
  buf : Bytes := []          -- content of `s._valBs` (the bytes last read into it)
  owner : Option Nat := none -- holder of `s._valBsMux`
  ths : Nat → Th             -- the calls in flight

def Sys.set (s : Sys) (i : Nat) (t : Th) : Sys := { s with ths := fun j => if j = i then t else s.ths j }

/-- what `buf.Write(valBuf)` copies: `valBuf` aliases the scratch buffer unless the value is longer than it -/
def Sys.valBuf (s : Sys) (t : Th) (v : Bytes) : Bytes := if v.length > s.cap then t.priv else s.buf.take v.length

/-- the next statement of thread `i`, in the order of the code; a thread that cannot move is skipped -/
def Sys.step (s : Sys) (i : Nat) : Sys :=
  let t := s.ths i
  match t.pc with
  | .idle =>
    match t.todo, s.owner with
    | v :: rest, none => { s.set i { t with todo := rest, pc := .locked v } with owner := some i }   -- Lock()
    | _, _ => s                                                                                       -- done / waits
  | .locked v =>                                                                                       -- readValueAt
    if v.length > s.cap then s.set i { t with priv := v, pc := .read v }
    else { s.set i { t with pc := .read v } with buf := v }
  | .read v => s.set i { t with out := t.out ++ [s.valBuf t v], pc := .copied v }                      -- buf.Write(valBuf)
  | .copied _ => { s.set i { t with pc := .idle } with owner := none }                                 -- Unlock()
  | .unlockedEarly _ => s

def Sys.run (s : Sys) : List Nat → Sys
  | [] => s
  | i :: sched => (s.step i).run sched

/-- the same loop with the `Unlock()` right after `readValueAt`, BEFORE `buf.Write(valBuf)` -/
def Sys.stepEarlyUnlock (s : Sys) (i : Nat) : Sys :=
  let t := s.ths i
  match t.pc with
  | .idle =>
    match t.todo, s.owner with
    | v :: rest, none => { s.set i { t with todo := rest, pc := .locked v } with owner := some i }
    | _, _ => s
  | .locked v =>
    if v.length > s.cap then s.set i { t with priv := v, pc := .read v }
    else { s.set i { t with pc := .read v } with buf := v }
  | .read v => { s.set i { t with pc := .unlockedEarly v } with owner := none }                        -- Unlock()
  | .unlockedEarly v => s.set i { t with out := t.out ++ [s.valBuf t v], pc := .idle }                 -- buf.Write(valBuf)
  | .copied _ => s

def Sys.runEarlyUnlock (s : Sys) : List Nat → Sys
  | [] => s
  | i :: sched => (s.stepEarlyUnlock i).runEarlyUnlock sched

/-- `vals i` = the values of the transaction call `i` exports; nothing in flight, the mutex free -/
def Sys.init (cap : Nat) (vals : Nat → List Bytes) : Sys :=
  { cap := cap, ths := fun i => { todo := vals i } }

end ImmuModel.ExportConc
