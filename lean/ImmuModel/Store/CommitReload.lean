/-
C02 — what `Open` reloads.

* `scan_longest_chaining_prefix`: the reload loop of `OpenWith` (`scan`) takes exactly the LONGEST prefix of the
  records lying behind the last committed one in which every record carries the next id AND the
  accumulated hash of the record before it as `PrevAlh`; it stops at the first record failing
  either test (both tests matter: the seeded change c02-a turned the `||` of the rejection test
  into `&&`).
* `precommitted_chain`: under `InvLog` the precommitted txs (cLogBuf) are real records with the
  ids `committed+1 …`, chained by `PrevAlh` from the last committed tx, and `PrecommittedAlh` is
  the accumulated hash of the last of them.
* `Stale`: a kernel-evaluated run of the commit machine (toy hash) that reproduces the situation
  the seeded change needs: a record of a discarded branch, carrying exactly the next id, lies
  physically right behind the live tail (same-size overwrite in place), and `Open` does not
  reload it.
-/
import ImmuModel.Store.CommitLog
import ImmuModel.Store.CommitWitness

namespace ImmuModel.Store.Commit
open ImmuModel ImmuModel.Tx ImmuModel.Merkle ImmuModel.Store

variable {D : Type}

/-- accumulated hash of the record before position `k` of `recs`: `d` for `k = 0`, the stored
`Alh` of `recs[k-1]` otherwise (`prevOf_succ`). -/
def prevOf (d : D) : List (Rec D) → Nat → D
  | _, 0 => d
  | [], _ + 1 => d
  | r :: rest, k + 1 => prevOf r.alh rest k

theorem prevOf_succ (d : D) (recs : List (Rec D)) (k : Nat) (p : Rec D) (h : recs[k]? = some p) :
    prevOf d recs (k + 1) = p.alh := by
  induction recs generalizing d k with
  | nil => simp at h
  | cons r rest ih =>
    cases k with
    | zero =>
      simp only [List.getElem?_cons_zero, Option.some.injEq] at h
      subst h
      cases rest <;> rfl
    | succ k =>
      simp only [List.getElem?_cons_succ] at h
      exact ih r.alh k h

namespace ReloadAux

theorem prevOf_cons_succ (d : D) (r : Rec D) (rest : List (Rec D)) (k : Nat) :
    prevOf d (r :: rest) (k + 1) = prevOf r.alh rest k := rfl

end ReloadAux

variable [DecidableEq D]

/-- The reload loop takes the longest chaining prefix: `n` records are reloaded; each of them has
the next id and chains to its predecessor; the entries put into cLogBuf carry those ids and the
stored accumulated hashes; and the loop stopped either at the end of the log or at a record that
fails the id test or the `PrevAlh` test. -/
theorem scan_longest_chaining_prefix (s : St D) (recs : List (Rec D)) :
    ∃ n, n ≤ recs.length ∧ (scan s recs).preID = s.preID + n ∧
      (scan s recs).preAlh = prevOf s.preAlh recs n ∧
      (scan s recs).logEnd = s.logEnd + n ∧
      (∃ added : List (Ent D), (scan s recs).buf = s.buf ++ added ∧ added.length = n ∧
        ∀ k e, added[k]? = some e → ∃ r, recs[k]? = some r ∧ e.txID = s.preID + k + 1 ∧
          e.alh = r.alh ∧ e.off = s.logEnd + k) ∧
      (∀ k r, k < n → recs[k]? = some r →
        r.hdr.id = s.preID + k + 1 ∧ r.hdr.prevAlh = prevOf s.preAlh recs k) ∧
      (∀ r, recs[n]? = some r →
        ¬ (r.hdr.id = s.preID + n + 1 ∧ r.hdr.prevAlh = prevOf s.preAlh recs n)) := by
  induction recs generalizing s with
  | nil =>
    exact ⟨0, Nat.le_refl _, rfl, rfl, rfl, ⟨[], by simp [scan], rfl, by simp⟩,
      fun k r hk => absurd hk (Nat.not_lt_zero _), by simp⟩
  | cons r rest ih =>
    unfold scan
    split
    · rename_i hacc
      obtain ⟨n, hn, h1, h2, h3, ⟨added, ha1, ha2, ha3⟩, h4, h5⟩ := ih
        { s with buf := s.buf ++ [⟨s.preID + 1, r.alh, s.logEnd⟩],
                 bufCap := (if s.bufCap ≤ s.buf.length then 2 * s.bufCap else s.bufCap),
                 preID := s.preID + 1, preAlh := r.alh, logEnd := s.logEnd + 1 }
      simp only at h1 h2 h3 ha1 ha3 h4 h5
      refine ⟨n + 1, by simp only [List.length_cons]; omega, by rw [h1]; omega,
        by rw [h2, ReloadAux.prevOf_cons_succ], by rw [h3]; omega,
        ⟨⟨s.preID + 1, r.alh, s.logEnd⟩ :: added, by rw [ha1]; simp, by simp [ha2], ?_⟩, ?_, ?_⟩
      · intro k e hk
        cases k with
        | zero =>
          simp only [List.getElem?_cons_zero, Option.some.injEq] at hk
          subst hk
          exact ⟨r, rfl, rfl, rfl, rfl⟩
        | succ k =>
          simp only [List.getElem?_cons_succ] at hk
          obtain ⟨r', hr', e1, e2, e3⟩ := ha3 k e hk
          exact ⟨r', by simpa using hr', by rw [e1]; omega, e2, by rw [e3]; omega⟩
      · intro k r' hk hr'
        cases k with
        | zero =>
          simp only [List.getElem?_cons_zero, Option.some.injEq] at hr'
          subst hr'
          exact ⟨hacc.1, hacc.2⟩
        | succ k =>
          simp only [List.getElem?_cons_succ] at hr'
          obtain ⟨a, b⟩ := h4 k r' (by omega) hr'
          exact ⟨by rw [a]; omega, by rw [b, ReloadAux.prevOf_cons_succ]⟩
      · intro r' hr'
        simp only [List.getElem?_cons_succ] at hr'
        have := h5 r' hr'
        rw [ReloadAux.prevOf_cons_succ]
        intro ⟨a, b⟩
        exact this ⟨by rw [a]; omega, b⟩
    · rename_i hrej
      refine ⟨0, Nat.zero_le _, rfl, rfl, rfl, ⟨[], by simp, rfl, by simp⟩,
        fun k r hk => absurd hk (Nat.not_lt_zero _), ?_⟩
      intro r' hr'
      simp only [List.getElem?_cons_zero, Option.some.injEq] at hr'
      subst hr'
      simpa [prevOf] using hrej

omit [DecidableEq D] in
/-- the precommitted part is a list of real records continuing the committed chain -/
theorem precommitted_chain (hs : Hs D) (s : St D) (h : InvLog hs s) :
    ∃ recs : List (Rec D), s.buf.map (fun e => s.log[e.off]?) = recs.map some ∧
      s.committed + recs.length = s.preID ∧
      (∀ k (hk : k < recs.length),
        (recs[k]).hdr.id = s.committed + k + 1 ∧ alh hs (recs[k]).hdr = some (recs[k]).alh) ∧
      (∀ (_ : 0 < recs.length), (recs[0]).hdr.prevAlh = s.comAlh) ∧
      (∀ k (hk : k + 1 < recs.length), (recs[k + 1]).hdr.prevAlh = (recs[k]'(by omega)).alh) ∧
      s.preAlh = (match recs.getLast? with | some r => r.alh | none => s.comAlh) := by
  obtain ⟨recs, h1, h2, h3, h4, h5, h6⟩ := h.bufChain.recs
  refine ⟨recs, h1, by rw [h2, h.preID_eq], h4, h5, h6, ?_⟩
  rw [h.preAlh_eq, lastAlh_eq_getD, ← h3, List.getLast?_map]
  cases recs.getLast? <;> rfl

/-! ### the stale-tail situation (seeded change c02-a) in the model -/

namespace Stale
open Witness

def own (ts : Nat) : Op Digest := .own ⟨ts, [], [ent], false, true⟩

/-- external commit allowance; 1A precommitted and discarded; branch B = 1B, 2B precommitted;
close/open (only 1A, the first record, is reloaded; 1B and 2B are stale records behind it);
1A discarded again; 1C — same serialized size as 1B — precommitted (written in place over 1B)
and committed; close/open. -/
def opsS : List (Op Digest) :=
  [own 1, .discard 1, own 2, own 3, .close, .open_ cfgW true,
   .discard 1, own 4, .allow 1, .close, .open_ cfgW true]

def sS : St Digest := run toyHs zeroD (init toyHs cfgW true) opsS

set_option maxRecDepth 100000 in
/-- After the run: tx 1 (= 1C) is committed; the tx log physically holds three records
(1A, 1C, 2B); the record right behind the committed one carries exactly the next id (2) — the id
test alone would accept it — but not the accumulated hash of 1C as `PrevAlh`; nothing was
reloaded as precommitted. -/
theorem stale_tail_not_reloaded :
    sS.committed = 1 ∧ sS.log.length = 3 ∧ sS.logEnd = 2 ∧
      (sS.log[2]?).map (fun r => r.hdr.id) = some (sS.preID + 1) ∧
      (sS.log[2]?).map (fun r => decide (r.hdr.prevAlh = sS.preAlh)) = some false ∧
      sS.preID = 1 ∧ sS.buf.length = 0 := by decide

def rS : Rec Digest := (sS.log[sS.logEnd]?).getD dR

set_option maxRecDepth 100000 in
theorem stale_rec_at_logEnd : sS.log[sS.logEnd]? = some rS := getD_of_isSome _ _ (by decide)

set_option maxRecDepth 100000 in
theorem stale_rec_facts :
    rS.hdr.id = sS.preID + 1 ∧ rS.hdr.prevAlh ≠ sS.preAlh ∧ sS.preID = sS.committed ∧
      sS.committed = 1 := by decide

end Stale

end ImmuModel.Store.Commit
