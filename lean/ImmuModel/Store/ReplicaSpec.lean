/-
C07 — specification vocabulary for the replication theorems: operation sequences on a replica,
what a genuine primary history is, and when a replica record "is" a primary record.
Core Lean only.
-/
import ImmuModel.Store.Replica

namespace ImmuModel.Replica
open ImmuModel ImmuModel.Tx ImmuModel.Merkle ImmuModel.GoInt

variable {D : Type}

/-- Everything that can be done to a replica store. `deliver` carries ARBITRARY bytes. -/
inductive Op
  | deliver (b : Bytes) (skip : Bool)   -- ReplicateTx
  | sync                                -- the syncer / Sync()
  | discard (txID : Nat)                -- DiscardPrecommittedTxsSince
  | allow (txID : Nat)                  -- AllowCommitUpto
  | restart                             -- Close + Open

def RSt.apply (hs : Hs D) (st : RSt D) : Op → RSt D
  | .deliver b skip => (replicate hs st b skip).st
  | .sync => (sync st).st
  | .discard txID => (discardSince st txID).st
  | .allow txID => (allowCommitUpto st txID).st
  | .restart => restart hs st

def RSt.run (hs : Hs D) (st : RSt D) : List Op → RSt D
  | [] => st
  | op :: ops => (st.apply hs op).run hs ops

/-- A freshly created store. -/
def RSt.init (cfg : RCfg) : RSt D := { cfg := cfg }

/-- The digest-relevant content of an entry. -/
def REntry.core (e : REntry) : Bytes × Option KVMd × Bytes := (e.key, e.md, e.hval)

/-- The same entry as held after a by-digest replication: no value, `vLen = 0`. -/
def REntry.strip (e : REntry) : REntry := { e with value := [], truncated := true }

/-- Replica record `r` is primary record `p`: same header, same accumulated hash, same entries —
with their values, or (by-digest replication) without. -/
def SameTx (r p : RRec D) : Prop :=
  r.hdr = p.hdr ∧ r.alh = p.alh ∧ (r.entries = p.entries ∨ r.entries = p.entries.map REntry.strip)

/-- What `ExportTx` frames for record `r`: with the values, or (`trunc`) by digest. -/
def toParsed (r : RRec D) (trunc : Bool) : Parsed :=
  { hdr := r.hdr
    entries := r.entries.map (fun e => { key := e.key, md := e.md, payload := if trunc then e.hval else e.value })
    truncated := trunc }

def exportOf (r : RRec D) (trunc : Bool) : Except Fault Bytes := exportTx (toParsed r trunc)

/-- Entries of a transaction the primary committed under limits `cfg` (what `OngoingTx.set` and
`validateEntries` enforce), with the value hashes `precommit` computed. -/
def EntriesOK (hs : Hs D) (cfg : RCfg) (es : List REntry) : Prop :=
  es.length ≤ cfg.maxTxEntries ∧
  (es.map (·.key)).Nodup ∧
  ∀ e ∈ es, 0 < e.key.length ∧ e.key.length ≤ cfg.maxKeyLen ∧ e.key.length < 65536 ∧
    e.value.length ≤ cfg.maxValueLen ∧ e.value.length < 4294967296 ∧
    e.hval = hs.enc (hs.H e.value) ∧ e.truncated = false ∧
    (match e.md with | none => True | some md => md.wf = true ∧ (kvmdBytes md).length > 0)

/-- The binary-linking root a header with `BlTxID = bl` must carry on top of the accumulated hashes `alhs`. -/
def blRootOf (hs : Hs D) (alhs : List D) (bl : Nat) : Bytes :=
  if bl > 0 then hs.enc (mth hs.mh ((alhs.take bl).map hs.leafFor)) else zeros32

/-- `P` is a history a primary with limits `cfg` can have written: ids dense from 1, `PrevAlh`
chained from `sha256("")`, `Alh` the header hash, `BlTxID < ID` with the reference Merkle root,
`Eh` the entries hash, a serialisable header (normalised metadata). -/
structure Genuine (hs : Hs D) (cfg : RCfg) (P : List (RRec D)) : Prop where
  recs : ∀ i (h : i < P.length),
    (P[i]).hdr.id = i + 1 ∧
    (P[i]).hdr.prevAlh = hs.enc (lastAlh hs (P.take i)) ∧
    alhH hs (P[i]).hdr = .ok (P[i]).alh ∧
    (P[i]).hdr.blTxID ≤ i ∧
    (P[i]).hdr.blRoot = blRootOf hs (P.map (·.alh)) (P[i]).hdr.blTxID ∧
    (∃ eh, ehOf hs (P[i]).hdr.version (P[i]).entries = .ok eh ∧ (P[i]).hdr.eh = hs.enc eh) ∧
    (P[i]).hdr.nentries = ((P[i]).entries.length : Int) ∧
    (P[i]).hdr.wf = true ∧ (P[i]).hdr.norm = (P[i]).hdr ∧
    EntriesOK hs cfg (P[i]).entries

/-- The deliveries of `ops` are exports (either form) of records of `P`; everything else is free. -/
def DeliversOnly (P : List (RRec D)) (ops : List Op) : Prop :=
  ∀ op ∈ ops, match op with
    | .deliver b _ => ∃ k tr, ∃ (h : k < P.length), exportOf (P[k]) tr = .ok b
    | _ => True

end ImmuModel.Replica
