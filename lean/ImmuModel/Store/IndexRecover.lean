/-
C03 model, part 4: recovery of an index (embedded/tbtree `OpenWith`): the backwards walk over the index commit log.

An index persists INCREMENTAL snapshots.  `flushTree` appends the mutated nodes to the nodes log, the older versions of
updated keys to the history log and then one entry to the index commit log:
  {synced flag, [initialNLogSize, finalNLogSize), rootNodeSize, checksum of that nodes range,
   [initialHLogSize, finalHLogSize), checksum of that history range}.
Only every `SyncThld`-th insertion fsyncs the three logs (history, nodes, then the commit entry); all other flushes are
merely written.  The root of snapshot i references nodes / history written by the snapshots 1..i.

`OpenWith` (tbtree.go, "checksum validation up to latest synced entry") walks the commit log from the NEWEST entry towards
the oldest one and stops at the first entry that is valid and carries the synced flag:

    for cLogSize > 0 {
        entry := read(cLogSize - entrySize)
        mustDiscard := !entry.isValid() || nodes range unreadable / checksum differs || history range unreadable / checksum differs
        if mustDiscard { validatedCLogEntry = nil; t.committedLogSize = 0 }          -- every NEWER entry accepted so far is dropped too
        if !mustDiscard && t.committedLogSize == 0 { validatedCLogEntry = entry; t.committedLogSize = cLogSize }
        if !mustDiscard && entry.synced { break }
        cLogSize -= entrySize
    }

This file models the walk on the abstraction (synced, valid) per entry; `valid` is computed from a crash image by
`IndexStore.lean`.  Core Lean only.
-/
namespace ImmuModel.Store.IndexRecover

/-- what the walk sees of one commit-log entry: the synced flag and the outcome of the validation on the image -/
structure Ent where
  synced : Bool
  valid : Bool
deriving DecidableEq, Repr

/-- The loop of `OpenWith`.  `rev` = the entries not yet visited, newest first; `pos` = `cLogSize / cLogEntrySize` (the
1-based position of the entry at the head of `rev`); `c` = `t.committedLogSize / cLogEntrySize` (0 = `validatedCLogEntry == nil`). -/
def walkAux : List Ent → Nat → Nat → Nat
  | [], _, c => c
  | e :: rest, pos, c =>
    let c' := if e.valid then (if c = 0 then pos else c) else 0
    if e.valid && e.synced then c' else walkAux rest (pos - 1) c'

/-- number of snapshots `OpenWith` keeps (`committedLogSize / cLogEntrySize`); `es` = the commit log, oldest entry first -/
def walk (es : List Ent) : Nat := walkAux es.reverse es.length 0

/-- The loop after the seeded change `c03-d` ("discard only the invalid entry"): an invalid entry no longer resets the
newer entry accepted before it (`validatedCLogEntry` is kept). -/
def walkKeepNewestAux : List Ent → Nat → Nat → Nat
  | [], _, c => c
  | e :: rest, pos, c =>
    let c' := if e.valid then (if c = 0 then pos else c) else c
    if e.valid && e.synced then c' else walkKeepNewestAux rest (pos - 1) c'

def walkKeepNewest (es : List Ent) : Nat := walkKeepNewestAux es.reverse es.length 0

end ImmuModel.Store.IndexRecover
