/-
C02 — preservation of the binary-linking invariant `InvBl` by the commit state machine, and
the link to the histories of C01 (`inv_hist`).
-/
import ImmuModel.Store.CommitInv
import ImmuModel.Store.CommitWrite
import ImmuModel.Merkle.Proofs.Roots

namespace ImmuModel.Store.Commit
open ImmuModel ImmuModel.Tx ImmuModel.Merkle ImmuModel.Store

variable {D : Type}

/-! ### list helpers -/

theorem bl_getElem?_lt {α : Type} {l : List α} {i : Nat} {a : α} (h : l[i]? = some a) :
    i < l.length := by
  obtain ⟨h', _⟩ := List.getElem?_eq_some_iff.mp h
  exact h'

theorem bl_prefix_getElem? {α : Type} {l₁ l₂ : List α} (h : l₁ <+: l₂) {i : Nat} {a : α}
    (hi : l₁[i]? = some a) : l₂[i]? = some a := by
  obtain ⟨t, rfl⟩ := h
  rw [List.getElem?_append_left (bl_getElem?_lt hi)]; exact hi

theorem bl_prefix_take_eq {α : Type} {l₁ l₂ : List α} (h : l₁ <+: l₂) {n : Nat}
    (hn : n ≤ l₁.length) : l₂.take n = l₁.take n := by
  obtain ⟨t, rfl⟩ := h
  exact List.take_append_of_le_length hn

theorem bl_prefix_eq_take {α : Type} {l₁ l₂ : List α} (h : l₁ <+: l₂) :
    l₂.take l₁.length = l₁ := by
  obtain ⟨t, rfl⟩ := h
  simp

theorem bl_prefix_mem {α : Type} {l₁ l₂ : List α} (h : l₁ <+: l₂) {a : α} (ha : a ∈ l₁) :
    a ∈ l₂ := by
  obtain ⟨t, rfl⟩ := h
  exact List.mem_append_left _ ha

/-! ### `BlOK` -/

theorem bl_BlOK_nil (hs : Hs D) (log : List (Rec D)) : BlOK hs log [] := by
  intro i e r hi _
  simp at hi

theorem bl_BlOK_prefix {hs : Hs D} {log : List (Rec D)} {es es' : List (Ent D)}
    (hp : es' <+: es) (h : BlOK hs log es) : BlOK hs log es' := by
  intro i e r hi hr
  obtain ⟨h1, h2⟩ := h i e r (bl_prefix_getElem? hp hi) hr
  refine ⟨h1, fun h0 => ?_⟩
  rw [h2 h0]
  have hlt := bl_getElem?_lt hi
  have := bl_prefix_take_eq (hp.map (·.alh)) (n := r.hdr.blTxID) (by simp; omega)
  rw [this]

theorem bl_BlOK_congr {hs : Hs D} {log log' : List (Rec D)} {es : List (Ent D)}
    (hl : ∀ e ∈ es, log'[e.off]? = log[e.off]?) (h : BlOK hs log es) : BlOK hs log' es := by
  intro i e r hi hr
  have hm : e ∈ es := List.mem_of_getElem? hi
  rw [hl e hm] at hr
  exact h i e r hi hr

theorem bl_BlOK_snoc {hs : Hs D} {log : List (Rec D)} {es : List (Ent D)} {e : Ent D}
    (h : BlOK hs log es)
    (hn : ∀ r, log[e.off]? = some r → r.hdr.blTxID ≤ es.length ∧
      (0 < r.hdr.blTxID →
        r.hdr.blRoot = mth hs.mh (treeLeaves hs ((es.map (·.alh)).take r.hdr.blTxID)))) :
    BlOK hs log (es ++ [e]) := by
  intro i e' r hi hr
  by_cases hlt : i < es.length
  · rw [List.getElem?_append_left hlt] at hi
    obtain ⟨h1, h2⟩ := h i e' r hi hr
    refine ⟨h1, fun h0 => ?_⟩
    rw [h2 h0, List.map_append, List.take_append_of_le_length (by simp; omega)]
  · have hlen := bl_getElem?_lt hi
    simp at hlen
    have hie : i = es.length := by omega
    subst hie
    simp at hi
    subst hi
    obtain ⟨h1, h2⟩ := hn r hr
    refine ⟨h1, fun h0 => ?_⟩
    rw [h2 h0, List.map_append, List.take_append_of_le_length (by simp; omega)]

/-! ### `Chain`, `lastAlh`, `endOff` -/

theorem bl_lastAlh_cons (d : D) (e : Ent D) (rest : List (Ent D)) :
    lastAlh d (e :: rest) = lastAlh e.alh rest := by
  cases rest with
  | nil => simp [lastAlh]
  | cons x xs =>
    simp only [lastAlh, List.getLast?_cons_cons]
    cases h : (x :: xs).getLast? with
    | none => simp at h
    | some y => rfl

theorem bl_endOff_cons (lo : Nat) (e : Ent D) (rest : List (Ent D)) :
    endOff lo (e :: rest) = endOff (e.off + 1) rest := by
  cases rest with
  | nil => simp [endOff]
  | cons x xs =>
    simp only [endOff, List.getLast?_cons_cons]
    cases h : (x :: xs).getLast? with
    | none => simp at h
    | some y => rfl

theorem bl_chain_off_lt {hs : Hs D} {log : List (Rec D)} {hi : Nat} :
    ∀ {es : List (Ent D)} {i : Nat} {prev : D} {lo : Nat}, Chain hs log hi i prev lo es →
      ∀ e ∈ es, e.off < hi
  | [], _, _, _, _, e, he => by simp at he
  | x :: rest, i, prev, lo, h, e, he => by
    obtain ⟨_, _, h3, h4⟩ := h
    rcases List.mem_cons.mp he with rfl | he'
    · exact h3
    · exact bl_chain_off_lt h4 e he'

theorem bl_chain_take {hs : Hs D} {log : List (Rec D)} {hi : Nat} :
    ∀ {es : List (Ent D)} {i : Nat} {prev : D} {lo : Nat} (n : Nat),
      Chain hs log hi i prev lo es → Chain hs log hi i prev lo (es.take n)
  | [], _, _, _, n, _ => by simp [Chain]
  | x :: rest, i, prev, lo, 0, _ => by simp [Chain]
  | x :: rest, i, prev, lo, n + 1, h => by
    obtain ⟨h1, h2, h3, h4⟩ := h
    exact ⟨h1, h2, h3, bl_chain_take n h4⟩

theorem bl_chain_append {hs : Hs D} {log : List (Rec D)} {hi : Nat} {es2 : List (Ent D)} :
    ∀ {es1 : List (Ent D)} {i : Nat} {prev : D} {lo : Nat},
      Chain hs log hi i prev lo es1 →
      Chain hs log hi (i + es1.length) (lastAlh prev es1) (endOff lo es1) es2 →
      Chain hs log hi i prev lo (es1 ++ es2)
  | [], i, prev, lo, _, h2 => by
    simpa [lastAlh, endOff] using h2
  | x :: rest, i, prev, lo, h1, h2 => by
    obtain ⟨a1, a2, a3, a4⟩ := h1
    rw [bl_lastAlh_cons, bl_endOff_cons] at h2
    have e : i + (x :: rest).length = i + 1 + rest.length := by simp; omega
    rw [e] at h2
    exact ⟨a1, a2, a3, bl_chain_append a4 h2⟩

/-- The record located by the `j`-th entry of a chain. -/
theorem bl_chain_get {hs : Hs D} {log : List (Rec D)} {hi : Nat} :
    ∀ {es : List (Ent D)} {i : Nat} {prev : D} {lo : Nat}, Chain hs log hi i prev lo es →
      ∀ (j : Nat) (e : Ent D), es[j]? = some e →
        ∃ r, log[e.off]? = some r ∧ r.hdr.id = i + j + 1 ∧ alh hs r.hdr = some e.alh ∧
          (j = 0 → r.hdr.prevAlh = prev) ∧
          (∀ e', 0 < j → es[j - 1]? = some e' → r.hdr.prevAlh = e'.alh)
  | [], _, _, _, _, j, e, he => by simp at he
  | x :: rest, i, prev, lo, h, 0, e, he => by
    obtain ⟨⟨r, a1, a2, _, a4, a5, _⟩, _, _, _⟩ := h
    simp at he
    subst he
    exact ⟨r, a1, by omega, a5, fun _ => a4, fun _ h0 => absurd h0 (by omega)⟩
  | x :: rest, i, prev, lo, h, j + 1, e, he => by
    obtain ⟨_, _, _, h4⟩ := h
    simp at he
    obtain ⟨r, b1, b2, b3, b4, b5⟩ := bl_chain_get h4 j e he
    refine ⟨r, b1, by omega, b3, fun h0 => absurd h0 (by omega), fun e' _ he' => ?_⟩
    cases j with
    | zero =>
      simp at he'
      subst he'
      exact b4 rfl
    | succ k =>
      simp at he'
      exact b5 e' (by omega) (by simpa using he')

/-! ### what is used of `InvLog` -/

theorem bl_take_com_length {hs : Hs D} {s : St D} (hL : InvLog hs s) :
    (s.clog.take s.committed).length = s.committed := by
  have := hL.com_le
  simp; omega

theorem bl_live_chain {hs : Hs D} {s : St D} (hL : InvLog hs s) :
    Chain hs s.log s.logEnd 0 (hs.H []) 0 (liveEnts s) := by
  unfold liveEnts
  apply bl_chain_append (bl_chain_take s.committed hL.clogChain)
  rw [bl_take_com_length hL, ← hL.comAlh_eq, Nat.zero_add]
  exact hL.bufChain

theorem bl_live_length {hs : Hs D} {s : St D} (hL : InvLog hs s) :
    (liveEnts s).length = s.preID := by
  unfold liveEnts
  rw [List.length_append, bl_take_com_length hL, hL.preID_eq]

theorem bl_liveAlhs_length {hs : Hs D} {s : St D} (hL : InvLog hs s) :
    (liveAlhs s).length = s.preID := by
  unfold liveAlhs
  rw [List.length_map, bl_live_length hL]

theorem bl_live_off_lt {hs : Hs D} {s : St D} (hL : InvLog hs s) :
    ∀ e ∈ liveEnts s, e.off < s.logEnd := bl_chain_off_lt (bl_live_chain hL)

theorem bl_clog_off_lt {hs : Hs D} {s : St D} (hL : InvLog hs s) :
    ∀ e ∈ s.clog, e.off < s.logEnd := bl_chain_off_lt hL.clogChain

/-! ### `AhtOf`, `AhtExt`, `overlay` -/

theorem bl_ahtOf_payloads {hs : Hs D} {l : List D} {t : AHT D} (h : AhtOf hs l t) :
    t.payloads = l.map hs.enc := by
  have := (aht_appendAll_some hs.mh _ _ _ h).1
  simpa [AHT.empty] using this

theorem bl_ahtOf_size {hs : Hs D} {l : List D} {t : AHT D} (h : AhtOf hs l t) :
    t.size = l.length := by
  unfold AHT.size
  rw [bl_ahtOf_payloads h, List.length_map]

theorem bl_ahtOf_groups_length {hs : Hs D} {l : List D} {t : AHT D} (h : AhtOf hs l t) :
    t.groups.length = l.length := by
  obtain ⟨_, gs, hg, hl⟩ := aht_appendAll_some hs.mh _ _ _ h
  rw [hg]
  simp [AHT.empty, hl]

theorem bl_ahtOf_len {hs : Hs D} {l : List D} {t : AHT D} (h : AhtOf hs l t) :
    t.groups.length = t.payloads.length := by
  rw [bl_ahtOf_groups_length h, bl_ahtOf_payloads h, List.length_map]

theorem bl_treeLeaves_take (hs : Hs D) (l : List D) (n : Nat) :
    ((l.map hs.enc).take n).map hs.mh.leafH = treeLeaves hs (l.take n) := by
  unfold treeLeaves
  rw [← List.map_take, List.map_map]
  rfl

theorem bl_ahtOf_rootAt {hs : Hs D} {l : List D} {t : AHT D} {n : Nat} (h : AhtOf hs l t)
    (h1 : 1 ≤ n) (h2 : n ≤ l.length) :
    AHT.rootAt t n = .ok (mth hs.mh (treeLeaves hs (l.take n))) := by
  rw [aht_rootAt_eq_mth hs.mh _ t n h h1 (by rw [List.length_map]; exact h2),
    bl_treeLeaves_take]

theorem bl_ahtOf_take {hs : Hs D} {l : List D} {t : AHT D} {m : Nat} (h : AhtOf hs l t)
    (hm : m ≤ l.length) : AhtOf hs (l.take m) ⟨t.payloads.take m, t.groups.take m⟩ := by
  have hr : AHT.resetSize t m = some ⟨t.payloads.take m, t.groups.take m⟩ := by
    unfold AHT.resetSize
    rw [if_neg (by rw [bl_ahtOf_size h]; omega)]
  have := aht_reset_append hs.mh (l.map hs.enc) [] t _ m h
    (by rw [List.length_map]; exact hm) hr
  unfold AhtOf
  rw [List.map_take]
  rw [List.append_nil] at this
  rw [← this]
  rfl

theorem bl_ahtOf_snoc {hs : Hs D} {l : List D} {t : AHT D} (h : AhtOf hs l t) (a : D) :
    ∃ t', AHT.append hs.mh t (hs.enc a) = some t' ∧ AhtOf hs (l ++ [a]) t' := by
  obtain ⟨t', ht', _⟩ := aht_appendAll_total hs.mh ((l ++ [a]).map hs.enc)
  have h2 := ht'
  unfold AhtOf at h
  rw [List.map_append, aht_appendAll_append, h] at h2
  simp only [Option.bind_some, List.map_cons, List.map_nil, AHT.appendAll] at h2
  cases hap : AHT.append hs.mh t (hs.enc a) with
  | none => rw [hap] at h2; simp at h2
  | some t'' =>
    rw [hap] at h2
    simp at h2
    subst h2
    exact ⟨t'', rfl, ht'⟩

theorem bl_ahtExt_refl (t : AHT D) : AhtExt t t := ⟨List.prefix_refl _, List.prefix_refl _⟩

theorem bl_ahtExt_overlay (cur phys : AHT D) : AhtExt cur (overlay cur phys) :=
  ⟨List.prefix_append _ _, List.prefix_append _ _⟩

theorem bl_ahtExt_take {cur phys : AHT D} (h : AhtExt cur phys) (m : Nat) :
    AhtExt ⟨cur.payloads.take m, cur.groups.take m⟩ phys :=
  ⟨(List.take_prefix _ _).trans h.1, (List.take_prefix _ _).trans h.2⟩

theorem bl_overlay_len {cur phys : AHT D} (h1 : cur.groups.length = cur.payloads.length)
    (h2 : phys.groups.length = phys.payloads.length) :
    (overlay cur phys).groups.length = (overlay cur phys).payloads.length := by
  simp only [overlay, List.length_append, List.length_drop]
  omega

/-! ### transfer lemmas -/

theorem bl_invBl_transfer_core {hs : Hs D} {s s' : St D} (hB : InvBl hs s)
    (hlog : ∀ e, e ∈ s.clog ∨ e ∈ liveEnts s → s'.log[e.off]? = s.log[e.off]?)
    (hclog : s'.clog <+: s.clog ∨ s'.clog <+: liveEnts s)
    (hlive : liveEnts s' <+: liveEnts s)
    (haht : ∃ extra, AhtOf hs (liveAlhs s' ++ extra) s'.aht)
    (hdur : s'.ahtBuf = 0 → AhtExt s'.aht s'.ahtP)
    (hcl : s'.closed = true → s'.ahtBuf = 0)
    (hpl : s'.ahtP.groups.length = s'.ahtP.payloads.length) :
    InvBl hs s' := by
  refine ⟨?_, ?_, haht, hdur, hcl, hpl⟩
  · rcases hclog with h | h
    · exact bl_BlOK_congr (fun e he => hlog e (Or.inl (bl_prefix_mem h he)))
        (bl_BlOK_prefix h hB.clogBl)
    · exact bl_BlOK_congr (fun e he => hlog e (Or.inr (bl_prefix_mem h he)))
        (bl_BlOK_prefix h hB.liveBl)
  · exact bl_BlOK_congr (fun e he => hlog e (Or.inr (bl_prefix_mem hlive he)))
      (bl_BlOK_prefix hlive hB.liveBl)

/-- Nothing is added to the live part; the tx log may change beyond `logEnd`. -/
theorem bl_invBl_transfer {hs : Hs D} {s s' : St D} (hL : InvLog hs s) (hB : InvBl hs s)
    (hlog : ∀ i, i < s.logEnd → s'.log[i]? = s.log[i]?)
    (hclog : s'.clog = s.clog) (hcom : s'.committed = s.committed) (hbuf : s'.buf <+: s.buf)
    (haht : ∃ extra, AhtOf hs (liveAlhs s' ++ extra) s'.aht)
    (hdur : s'.ahtBuf = 0 → AhtExt s'.aht s'.ahtP)
    (hcl : s'.closed = true → s'.ahtBuf = 0)
    (hpl : s'.ahtP.groups.length = s'.ahtP.payloads.length) :
    InvBl hs s' := by
  refine bl_invBl_transfer_core hB ?_ (Or.inl (hclog ▸ List.prefix_refl _)) ?_ haht hdur hcl hpl
  · rintro e (he | he)
    · exact hlog _ (bl_clog_off_lt hL e he)
    · exact hlog _ (bl_live_off_lt hL e he)
  · unfold liveEnts
    rw [hclog, hcom]
    exact (List.prefix_append_right_inj _).mpr hbuf

/-- One record is written at `logEnd` and its entry is put into cLogBuf. -/
theorem bl_invBl_push {hs : Hs D} {s s' : St D} (hL : InvLog hs s) (hB : InvBl hs s)
    {r : Rec D} {t : Nat} {a : D}
    (hlog : ∀ i, i < s.logEnd → s'.log[i]? = s.log[i]?)
    (hnew : s'.log[s.logEnd]? = some r)
    (hclog : s'.clog = s.clog) (hcom : s'.committed = s.committed)
    (hbuf : s'.buf = s.buf ++ [⟨t, a, s.logEnd⟩])
    (hbl : r.hdr.blTxID ≤ s.preID)
    (hroot : 0 < r.hdr.blTxID →
      r.hdr.blRoot = mth hs.mh (treeLeaves hs ((liveAlhs s).take r.hdr.blTxID)))
    (haht : AhtOf hs (liveAlhs s ++ [a]) s'.aht)
    (hdur : s'.ahtBuf = 0 → AhtExt s'.aht s'.ahtP)
    (hcl : s'.closed = true → s'.ahtBuf = 0)
    (hpl : s'.ahtP.groups.length = s'.ahtP.payloads.length) :
    InvBl hs s' := by
  have hlive : liveEnts s' = liveEnts s ++ [⟨t, a, s.logEnd⟩] := by
    unfold liveEnts
    rw [hclog, hcom, hbuf, List.append_assoc]
  refine ⟨?_, ?_, ⟨[], ?_⟩, hdur, hcl, hpl⟩
  · rw [hclog]
    exact bl_BlOK_congr (fun e he => hlog _ (bl_clog_off_lt hL e he)) hB.clogBl
  · rw [hlive]
    apply bl_BlOK_snoc
    · exact bl_BlOK_congr (fun e he => hlog _ (bl_live_off_lt hL e he)) hB.liveBl
    · intro r' hr'
      simp only at hr'
      rw [hnew] at hr'
      cases hr'
      rw [bl_live_length hL]
      exact ⟨hbl, hroot⟩
  · have e : liveAlhs s' = liveAlhs s ++ [a] := by
      unfold liveAlhs
      rw [hlive]
      simp
    rw [e, List.append_nil]
    exact haht

/-! ### the binary-linking tree operations -/

theorem bl_ahtSync_spec (s : St D) :
    ∃ p, ahtSync s = { s with ahtP := p, ahtBuf := 0 } ∧
      ((s.ahtBuf = 0 → AhtExt s.aht s.ahtP) → AhtExt s.aht p) ∧
      (s.aht.groups.length = s.aht.payloads.length →
        s.ahtP.groups.length = s.ahtP.payloads.length → p.groups.length = p.payloads.length) := by
  unfold ahtSync
  split
  · rename_i h
    refine ⟨s.ahtP, ?_, fun hd => hd h, fun _ h2 => h2⟩
    cases s
    simp only at h
    subst h
    rfl
  · exact ⟨overlay s.aht s.ahtP, rfl, fun _ => bl_ahtExt_overlay _ _, bl_overlay_len⟩

theorem bl_ahtAppend_spec {hs : Hs D} {s s' : St D} {a : D} (h : ahtAppend hs s a = some s') :
    ∃ t p b, AHT.append hs.mh s.aht (hs.enc a) = some t ∧
      s' = { s with aht := t, ahtP := p, ahtBuf := b } ∧ (b = 0 → AhtExt t p) ∧
      (t.groups.length = t.payloads.length →
        s.ahtP.groups.length = s.ahtP.payloads.length → p.groups.length = p.payloads.length) := by
  unfold ahtAppend at h
  split at h
  · cases h
  · rename_i t ht
    simp only [Option.some.injEq] at h
    split at h
    · obtain ⟨p, he, hd, hl⟩ := bl_ahtSync_spec { s with aht := t, ahtBuf := s.ahtBuf + 1 }
      rw [he] at h
      exact ⟨t, p, 0, ht, h.symm, fun _ => hd (fun h0 => absurd h0 (Nat.succ_ne_zero _)), hl⟩
    · exact ⟨t, s.ahtP, s.ahtBuf + 1, ht, h.symm, fun h0 => absurd h0 (Nat.succ_ne_zero _),
        fun _ h2 => h2⟩

theorem bl_ahtReset_spec (hs : Hs D) {s s' : St D} {m : Nat} (h : ahtReset s m = some s') :
    ∃ t p b, s' = { s with aht := t, ahtP := p, ahtBuf := b } ∧ m ≤ s.aht.size ∧
      (∀ l, AhtOf hs l s.aht → AhtOf hs (l.take m) t) ∧
      ((s.ahtBuf = 0 → AhtExt s.aht s.ahtP) → b = 0 → AhtExt t p) ∧
      (s.aht.groups.length = s.aht.payloads.length →
        s.ahtP.groups.length = s.ahtP.payloads.length → p.groups.length = p.payloads.length) := by
  unfold ahtReset at h
  split at h
  · cases h
  · split at h
    · cases h
      rename_i h1 h2
      refine ⟨s.aht, s.ahtP, s.ahtBuf, rfl, by omega, ?_, fun h hb => h hb, fun _ h2 => h2⟩
      intro l hl
      rw [List.take_of_length_le (by rw [← bl_ahtOf_size hl]; omega)]
      exact hl
    · cases h
      rename_i h1 h2
      obtain ⟨p, he, hd, hl⟩ := bl_ahtSync_spec s
      refine ⟨⟨s.aht.payloads.take m, s.aht.groups.take m⟩, p, 0, ?_, by omega, ?_,
        fun h _ => bl_ahtExt_take (hd h) m, hl⟩
      · simp only [he]
      · intro l hl
        exact bl_ahtOf_take hl (by rw [← bl_ahtOf_size hl]; omega)

/-! ### `commitUpTo` -/

theorem bl_commitUpTo_invBl {hs : Hs D} {s : St D} (hc : s.committed ≤ s.clog.length)
    (hB : InvBl hs s) : InvBl hs (commitUpTo s).1 := by
  have hlen : (s.clog.take s.committed).length = s.committed := by simp; omega
  have key : ∀ s' : St D, s'.log = s.log → s'.clog <+: s.clog ∨ s'.clog <+: liveEnts s →
      liveEnts s' = liveEnts s → s'.aht = s.aht → s'.ahtP = s.ahtP → s'.ahtBuf = s.ahtBuf →
      s'.closed = s.closed → InvBl hs s' := by
    intro s' h1 h2 h3 h4 h5 h6 h7
    refine bl_invBl_transfer_core hB (fun _ _ => by rw [h1]) h2 (h3 ▸ List.prefix_refl _)
      ?_ ?_ ?_ ?_
    · unfold liveAlhs
      rw [h3, h4]
      exact hB.ahtLive
    · rw [h4, h5, h6]
      exact hB.ahtDur
    · rw [h6, h7]
      exact hB.ahtClosed
    · rw [h5]
      exact hB.ahtPLen
  unfold commitUpTo
  simp only
  split
  · exact hB
  · split
    · refine key _ rfl (Or.inl (List.take_prefix _ _)) ?_ rfl rfl rfl rfl
      simp only [liveEnts]
      rw [List.take_take, Nat.min_self]
    · split
      · refine key _ rfl (Or.inr (List.prefix_refl _)) ?_ rfl rfl rfl rfl
        simp only [liveEnts]
        rw [List.take_left' hlen]
      · have hs2 : InvBl hs { s with clog := (s.clog.take s.committed ++
            s.buf.take (commitAllowedUpTo s - s.committed)) } := by
          refine key _ rfl (Or.inr ?_) ?_ rfl rfl rfl rfl
          · exact (List.prefix_append_right_inj _).mpr (List.take_prefix _ _)
          · simp only [liveEnts]
            rw [List.take_left' hlen]
        split
        · exact hs2
        · split
          · exact hs2
          · refine key _ rfl (Or.inr ?_) ?_ rfl rfl rfl rfl
            · exact (List.prefix_append_right_inj _).mpr (List.take_prefix _ _)
            · simp only [liveEnts]
              rw [List.take_of_length_le (by simp; omega), List.append_assoc,
                List.take_append_drop]

/-! ### `performPrecommit` -/

theorem bl_blRootFor_spec {hs : Hs D} {z : D} {s : St D} {n : Nat} {r : D} {l : List D}
    (hl : AhtOf hs l s.aht) (h : blRootFor z s n = .ok r) :
    n = 0 ∨ l = [] ∨ (n ≤ l.length ∧ r = mth hs.mh (treeLeaves hs (l.take n))) := by
  by_cases h0 : n = 0
  · exact Or.inl h0
  by_cases h1 : l = []
  · exact Or.inr (Or.inl h1)
  have hsz := bl_ahtOf_size hl
  have hlen : l.length ≠ 0 := fun h => h1 (List.length_eq_zero_iff.mp h)
  by_cases h2 : n > l.length
  · simp [blRootFor, AHT.rootAt, h0, hsz, hlen, h2] at h
  · rw [blRootFor, if_neg h0, bl_ahtOf_rootAt hl (by omega) (by omega)] at h
    simp only [Except.ok.injEq] at h
    exact Or.inr (Or.inr ⟨by omega, h.symm⟩)

theorem bl_performPrecommit_invBl {hs : Hs D} {z : D} {s : St D} (hL : InvLog hs s)
    (hB : InvBl hs s) (hclosed : s.closed = false) (tx : TxIn D) (ts bl : Nat) :
    InvBl hs (performPrecommit hs z s tx ts bl).1 := by
  have hlog0 : ∀ (r : Rec D) i, i < s.logEnd →
      (writeRec s.cfg.embedded s.log s.logEnd r)[i]? = s.log[i]? := by
    intro r i hi
    exact writeRec_get_lt _ _ _ hi hL.logEnd_le
  have hncl : ¬ s.closed = true := by simp [hclosed]
  have hfail0 : InvBl hs s := hB
  obtain ⟨extra, hall⟩ := hB.ahtLive
  have hpre := bl_liveAlhs_length hL
  unfold performPrecommit
  simp only
  split
  · exact hB
  · cases hbr : blRootFor z s bl with
    | error e => exact hfail0
    | ok blRoot =>
      simp only
      split
      · exact hfail0
      · split
        · exact hfail0
        · rename_i a ha
          have hroot : 0 < bl →
              blRoot = mth hs.mh (treeLeaves hs ((liveAlhs s).take bl)) := by
            intro h0
            rcases bl_blRootFor_spec (s := s) hall hbr
              with h | h | ⟨h1, h2⟩
            · omega
            · have := congrArg List.length h
              rw [List.length_append, List.length_nil] at this
              omega
            · rw [h2, List.take_append_of_le_length (by omega)]
          split
          · exact bl_invBl_transfer hL hB (hlog0 _) rfl rfl (List.prefix_refl _) hB.ahtLive hB.ahtDur
              hB.ahtClosed hB.ahtPLen
          · rename_i s2 hr
            obtain ⟨t2, p, b, hs2, hm, ht2, hd, hl⟩ := bl_ahtReset_spec hs hr
            have hlive2 : AhtOf hs (liveAlhs s) t2 := by
              have := ht2 _ hall
              rwa [List.take_left' hpre] at this
            have hd2 := hd hB.ahtDur
            have hl2 := hl (bl_ahtOf_len hall) hB.ahtPLen
            subst hs2
            split
            · exact bl_invBl_transfer hL hB (hlog0 _) rfl rfl (List.prefix_refl _)
                ⟨[], by rw [List.append_nil]; exact hlive2⟩ hd2 (fun h => absurd h hncl) hl2
            · rename_i s3 hap
              obtain ⟨t3, p', b', hap3, hs3, hd', hl'⟩ := bl_ahtAppend_spec hap
              obtain ⟨t3', hap3', hlive3⟩ := bl_ahtOf_snoc hlive2 a
              simp only at hap3
              rw [hap3] at hap3'
              cases hap3'
              have hl3 := hl' (bl_ahtOf_len hlive3) hl2
              subst hs3
              simp only
              have hpush : ∀ (s' : St D) (r : Rec D),
                  s'.log = writeRec s.cfg.embedded s.log s.logEnd r →
                  r.hdr.blTxID = bl → r.hdr.blRoot = blRoot → s'.clog = s.clog →
                  s'.committed = s.committed → s'.buf = s.buf ++ [⟨s.preID + 1, a, s.logEnd⟩] →
                  s'.aht = t3 → s'.ahtP = p' → s'.ahtBuf = b' → s'.closed = s.closed →
                  InvBl hs s' := by
                intro s' r h1 h2 h3 h4 h5 h6 h7 h8 h9 h10
                refine bl_invBl_push hL hB (r := r) ?_ ?_ h4 h5 h6 (by omega) ?_ ?_ ?_ ?_ ?_
                · rw [h1]; exact hlog0 _
                · rw [h1]; exact writeRec_get_self _ _ _ hL.logEnd_le
                · rw [h2, h3]; exact hroot
                · rw [h7]; exact hlive3
                · rw [h7, h8, h9]; exact hd'
                · rw [h10]; exact fun h => absurd h hncl
                · rw [h8]; exact hl3
              split
              · exact bl_invBl_transfer hL hB (hlog0 _) rfl rfl (List.prefix_refl _)
                  ⟨[a], hlive3⟩ hd' (fun h => absurd h hncl) hl3
              · split
                · exact hpush _ _ rfl rfl rfl rfl rfl rfl rfl rfl rfl rfl
                · split
                  · rename_i s5 heq
                    have h5 := congrArg Prod.fst heq
                    simp only at h5
                    show InvBl hs s5
                    rw [← h5]
                    exact bl_commitUpTo_invBl hL.com_le
                      (hpush _ _ rfl rfl rfl rfl rfl rfl rfl rfl rfl rfl)
                  · rename_i s5 e heq
                    have h5 := congrArg Prod.fst heq
                    simp only at h5
                    show InvBl hs s5
                    rw [← h5]
                    exact bl_commitUpTo_invBl hL.com_le
                      (hpush _ _ rfl rfl rfl rfl rfl rfl rfl rfl rfl rfl)

/-! ### the critical sections -/

theorem bl_ite_fst {c : Prop} [Decidable c] {P : St D → Prop} {a b : St D × Out D}
    (ha : c → P a.1) (hb : ¬c → P b.1) : P (if c then a else b).1 := by
  split
  · exact ha ‹_›
  · exact hb ‹_›

theorem bl_precommitOwn_invBl {hs : Hs D} {z : D} {s : St D} (hL : InvLog hs s)
    (hB : InvBl hs s) (q : OwnReq D) : InvBl hs (precommitOwn hs z s q).1 := by
  unfold precommitOwn
  repeat (refine bl_ite_fst (P := InvBl hs) (fun _ => hB) fun _ => ?_)
  cases ehOf hs s.cfg.version q.entries with
  | error e => exact hB
  | ok eh =>
    simp only
    repeat (first
      | exact bl_performPrecommit_invBl hL hB (by simpa using ‹¬s.closed = true›) _ _ _
      | refine bl_ite_fst (P := InvBl hs) (fun _ => hB) fun _ => ?_)

theorem bl_precommitRep_invBl [DecidableEq D] {hs : Hs D} {z : D} {s : St D} (hL : InvLog hs s)
    (hB : InvBl hs s) (q : RepReq D) : InvBl hs (precommitRep hs z s q).1 := by
  unfold precommitRep
  repeat (refine bl_ite_fst (P := InvBl hs) (fun _ => hB) fun _ => ?_)
  cases ehOf hs q.hdr.version q.entries with
  | error e => exact hB
  | ok eh =>
    simp only
    repeat (refine bl_ite_fst (P := InvBl hs) (fun _ => hB) fun _ => ?_)
    cases blRootFor z s q.hdr.blTxID with
    | error e => exact hB
    | ok r =>
      simp only
      repeat (first
        | exact bl_performPrecommit_invBl hL hB (by simpa using ‹¬s.closed = true›) _ _ _
        | refine bl_ite_fst (P := InvBl hs) (fun _ => hB) fun _ => ?_)

theorem bl_wrap_fst (r : St D × Option Err) : (wrap r).1 = r.1 := by
  rcases r with ⟨s, _ | e⟩ <;> rfl

theorem bl_syncOp_invBl {hs : Hs D} {s : St D} (hL : InvLog hs s) (hB : InvBl hs s) :
    InvBl hs (syncOp s).1 := by
  unfold syncOp
  repeat' split
  all_goals first | exact hB | (rw [bl_wrap_fst]; exact bl_commitUpTo_invBl hL.com_le hB)

theorem bl_allowUpto_invBl {hs : Hs D} {s : St D} (hL : InvLog hs s) (hB : InvBl hs s)
    (t : Nat) : InvBl hs (allowUpto s t).1 := by
  have h1 : ∀ v, InvBl hs { s with allowed := v } := fun _ =>
    ⟨hB.clogBl, hB.liveBl, hB.ahtLive, hB.ahtDur, hB.ahtClosed, hB.ahtPLen⟩
  unfold allowUpto
  simp only
  repeat' split
  all_goals first | exact hB | exact h1 _ |
    (rw [bl_wrap_fst]; exact bl_commitUpTo_invBl hL.com_le (h1 _))

theorem bl_setExt_invBl {hs : Hs D} {s : St D} (hB : InvBl hs s) (b : Bool) :
    InvBl hs (setExt s b).1 :=
  ⟨hB.clogBl, hB.liveBl, hB.ahtLive, hB.ahtDur, hB.ahtClosed, hB.ahtPLen⟩

theorem bl_closeStore_invBl {hs : Hs D} {s : St D} (hL : InvLog hs s) (hB : InvBl hs s) :
    InvBl hs (closeStore s).1 := by
  unfold closeStore
  split
  · exact hB
  · obtain ⟨p, he, hd, hl⟩ := bl_ahtSync_spec s
    obtain ⟨extra, hall⟩ := hB.ahtLive
    rw [he]
    exact bl_invBl_transfer hL hB (fun _ _ => rfl) rfl rfl (List.prefix_refl _) ⟨extra, hall⟩
      (fun _ => hd hB.ahtDur) (fun _ => rfl) (hl (bl_ahtOf_len hall) hB.ahtPLen)

/-- `Close` leaves a synced tree behind. -/
theorem closeStore_ahtBuf (s : St D) (_h1 : (closeStore s).1.closed = true)
    (h0 : s.closed = false) : (closeStore s).1.ahtBuf = 0 := by
  unfold closeStore
  rw [if_neg (by simp [h0])]
  show (ahtSync s).ahtBuf = 0
  unfold ahtSync
  split
  · assumption
  · rfl

theorem bl_discard_invBl {hs : Hs D} {s : St D} (hL : InvLog hs s) (hB : InvBl hs s)
    (t : Nat) : InvBl hs (discard s t).1 := by
  unfold discard
  simp only
  split
  · exact hB
  rename_i hncl
  split
  · exact hB
  split
  · exact hB
  split
  · exact hB
  split
  · exact hB
  split
  · exact hB
  rename_i s2 hr
  obtain ⟨extra, hall⟩ := hB.ahtLive
  obtain ⟨t2, p, b, hs2, hm, ht2, hd, hl⟩ := bl_ahtReset_spec hs hr
  have ht2' := ht2 _ hall
  have hd2 := hd hB.ahtDur
  have hl2 := hl (bl_ahtOf_len hall) hB.ahtPLen
  subst hs2
  simp only
  have hpre := hL.preID_eq
  have hlen := bl_liveAlhs_length hL
  have hsz := bl_ahtOf_size hall
  rw [List.length_append] at hsz
  split
  · omega
  · have key : ∀ s' : St D, s'.log = s.log → s'.clog = s.clog → s'.committed = s.committed →
        s'.buf = s.buf.take (s.buf.length - (s.preID + 1 - t)) →
        s'.aht = t2 → s'.ahtP = p → s'.ahtBuf = b → s'.closed = s.closed →
        InvBl hs s' := by
      intro s' h1 h2 h3 h4 h5 h6 h7 h8
      refine bl_invBl_transfer hL hB (fun _ _ => by rw [h1]) h2 h3
        (h4 ▸ List.take_prefix _ _) ?_ ?_ ?_ ?_
      · have e : liveAlhs s' = (liveAlhs s).take (s.preID - (s.preID + 1 - t)) := by
          unfold liveAlhs liveEnts
          rw [h2, h3, h4, ← List.map_take, List.take_append, bl_take_com_length hL,
            List.take_of_length_le (i := s.preID - (s.preID + 1 - t))
              (by rw [bl_take_com_length hL]; omega)]
          congr 3
          omega
        refine ⟨((liveAlhs s ++ extra).take (s.aht.size - (s.preID + 1 - t))).drop
          (s.preID - (s.preID + 1 - t)), ?_⟩
        rw [e, h5]
        have e2 : (liveAlhs s).take (s.preID - (s.preID + 1 - t)) =
            ((liveAlhs s ++ extra).take (s.aht.size - (s.preID + 1 - t))).take
              (s.preID - (s.preID + 1 - t)) := by
          rw [List.take_take, Nat.min_eq_left (by omega),
            List.take_append_of_le_length (by omega)]
        rw [e2, List.take_append_drop]
        exact ht2'
      · rw [h5, h6, h7]
        exact hd2
      · rw [h8]
        exact fun h => absurd h hncl
      · rw [h6]
        exact hl2
    repeat' split
    all_goals exact key _ rfl rfl rfl rfl rfl rfl rfl rfl

/-! ### `Open` -/

theorem bl_ahtAppendAll_nil (hs : Hs D) (s : St D) {l : List D} (h : l = []) :
    ahtAppendAll hs s l = s := by
  subst h
  rfl

theorem bl_finishOpen_invBl {hs : Hs D} {s0 : St D} (hc : BlOK hs s0.log s0.clog)
    (hl : BlOK hs s0.log (liveEnts s0)) {t : AHT D} {extra : List D}
    (ht : AhtOf hs (liveAlhs s0 ++ extra) t) (hext : AhtExt t s0.ahtP)
    (hlen : (liveAlhs s0).length = s0.preID)
    (hpl : s0.ahtP.groups.length = s0.ahtP.payloads.length) (hcl : s0.closed = false) :
    InvBl hs (finishOpen hs s0) := by
  have hsz := bl_ahtOf_size ht
  have hg := bl_ahtOf_groups_length ht
  rw [List.length_append] at hsz hg
  unfold AHT.size at hsz
  have hle1 := hext.1.length_le
  have hle2 := hext.2.length_le
  have hncl : ¬ s0.closed = true := by simp [hcl]
  unfold finishOpen
  simp only
  split
  · rename_i hlt
    simp only [AHT.size] at hlt
    have e1 : s0.ahtP.payloads.take s0.preID = t.payloads.take s0.preID :=
      bl_prefix_take_eq hext.1 (by omega)
    have e2 : s0.ahtP.groups.take s0.preID = t.groups.take s0.preID :=
      bl_prefix_take_eq hext.2 (by omega)
    have hlive : AhtOf hs (liveAlhs s0)
        ⟨s0.ahtP.payloads.take s0.preID, s0.ahtP.groups.take s0.preID⟩ := by
      rw [e1, e2]
      have := bl_ahtOf_take (m := s0.preID) ht (by rw [List.length_append]; omega)
      rwa [List.take_left' hlen] at this
    rw [bl_ahtAppendAll_nil]
    · exact ⟨hc, hl, ⟨[], by rw [List.append_nil]; exact hlive⟩,
        fun _ => ⟨List.take_prefix _ _, List.take_prefix _ _⟩, fun h => absurd h hncl, hpl⟩
    · apply List.drop_eq_nil_of_le
      show (liveAlhs s0).length ≤ (s0.ahtP.payloads.take s0.preID).length
      rw [List.length_take]
      omega
  · rename_i hlt
    simp only [AHT.size] at hlt
    have e : t = s0.ahtP := by
      have h1 : t.payloads = s0.ahtP.payloads := hext.1.eq_of_length (by omega)
      have h2 : t.groups = s0.ahtP.groups := hext.2.eq_of_length (by omega)
      cases t
      cases h : s0.ahtP
      rw [h] at h1 h2
      simp only at h1 h2
      rw [h1, h2]
    have hex : extra = [] := List.eq_nil_of_length_eq_zero (by omega)
    rw [bl_ahtAppendAll_nil]
    · refine ⟨hc, hl, ⟨[], ?_⟩, fun _ => bl_ahtExt_refl _, fun h => absurd h hncl, hpl⟩
      show AhtOf hs (liveAlhs s0 ++ []) s0.ahtP
      rw [← e, ← hex]
      exact ht
    · apply List.drop_eq_nil_of_le
      show (liveAlhs s0).length ≤ s0.ahtP.payloads.length
      omega

theorem bl_finishOpen_invBl' {hs : Hs D} {s s0 : St D} (hB : InvBl hs s)
    (hext : AhtExt s.aht s.ahtP) (h1 : s0.log = s.log) (h2 : s0.clog = s.clog)
    (h3 : liveEnts s0 = liveEnts s) (h4 : s0.ahtP = s.ahtP)
    (h5 : s0.preID = (liveEnts s).length) (h6 : s0.closed = false) :
    InvBl hs (finishOpen hs s0) := by
  obtain ⟨extra, hall⟩ := hB.ahtLive
  have e : liveAlhs s0 = liveAlhs s := by unfold liveAlhs; rw [h3]
  apply bl_finishOpen_invBl (t := s.aht) (extra := extra)
  · rw [h1, h2]; exact hB.clogBl
  · rw [h1, h3]; exact hB.liveBl
  · rw [e]; exact hall
  · rw [h4]; exact hext
  · rw [e, h5]; simp [liveAlhs]
  · rw [h4]; exact hB.ahtPLen
  · exact h6

/-! ### the link to C01 histories -/

theorem bl_chain_recs {hs : Hs D} {log : List (Rec D)} {hi : Nat} :
    ∀ {es : List (Ent D)} {i : Nat} {prev : D} {lo : Nat}, Chain hs log hi i prev lo es →
      ∃ rs : List (Rec D), es.map (fun e => log[e.off]?) = rs.map some
  | [], _, _, _, _ => ⟨[], rfl⟩
  | x :: rest, i, prev, lo, h => by
    obtain ⟨⟨r, a1, _⟩, _, _, h4⟩ := h
    obtain ⟨rs, hrs⟩ := bl_chain_recs h4
    exact ⟨r :: rs, by simp [a1, hrs]⟩

theorem bl_hist_of {hs : Hs D} {hdrs : List (TxHeader D)} {alhs : List D}
    (hlen : hdrs.length = alhs.length)
    (H : ∀ i h a, hdrs[i]? = some h → alhs[i]? = some a →
      h.id = i + 1 ∧ alh hs h = some a ∧
      (∀ a', 0 < i → alhs[i - 1]? = some a' → h.prevAlh = a') ∧
      h.blTxID ≤ i ∧
      (0 < h.blTxID → h.blRoot = mth hs.mh (treeLeaves hs (alhs.take h.blTxID)))) :
    Hist hs hdrs alhs := by
  refine ⟨hlen, fun i h => ?_⟩
  obtain ⟨h1, h2, h3, h4, h5⟩ := H i hdrs[i] (alhs[i]'(by rw [← hlen]; exact h))
    (List.getElem?_eq_getElem h) (List.getElem?_eq_getElem _)
  exact ⟨h1, h2, fun h0 => h3 _ h0 (List.getElem?_eq_getElem _), h4, h5⟩

/-! ### exported -/

theorem init_invBl (hs : Hs D) (cfg : Cfg) (e : Bool) : InvBl hs (init hs cfg e) :=
  ⟨bl_BlOK_nil hs _, bl_BlOK_nil hs _, ⟨[], rfl⟩, fun _ => bl_ahtExt_refl _,
    fun h => by simp [init] at h, rfl⟩

/-- every critical section except Open preserves the binary-linking invariant -/
theorem step_invBl [DecidableEq D] (hs : Hs D) (z : D) (s : St D) (op : Op D)
    (hL : InvLog hs s) (hB : InvBl hs s) (hop : ∀ c e, op ≠ Op.open_ c e) :
    InvBl hs (step hs z s op).1 := by
  cases op with
  | own q => exact bl_precommitOwn_invBl (z := z) hL hB q
  | rep q => exact bl_precommitRep_invBl (z := z) hL hB q
  | sync => exact bl_syncOp_invBl hL hB
  | discard t => exact bl_discard_invBl hL hB t
  | allow t => exact bl_allowUpto_invBl hL hB t
  | setExt b => exact bl_setExt_invBl hB b
  | close => exact bl_closeStore_invBl hL hB
  | open_ c e => exact absurd rfl (hop c e)

/-- Open preserves it when nothing is pending (no precommitted tx, no leftover commit-log
entry, no garbage record after the last committed one) -/
theorem open_invBl_quiescent [DecidableEq D] (hs : Hs D) (s : St D) (cfg : Cfg) (e : Bool)
    (hL : InvLog hs s) (hB : InvBl hs s) (hq : Quiescent s) :
    InvBl hs (openStore hs s cfg e).1 := by
  have _ := hL
  obtain ⟨hbuf, hclen, hloglen⟩ := hq
  have hlive : liveEnts s = s.clog := by
    unfold liveEnts
    rw [hbuf, ← hclen]
    simp
  unfold openStore
  simp only
  split
  · exact hB
  · rename_i hcl
    have hext : AhtExt s.aht s.ahtP := hB.ahtDur (hB.ahtClosed (by simpa using hcl))
    split
    · rename_i hlast
      have hnil : s.clog = [] := List.getLast?_eq_none_iff.mp hlast
      have hlognil : s.log = [] := by
        apply List.eq_nil_of_length_eq_zero
        rw [hloglen, hnil]
        rfl
      rw [hlognil]
      simp only [ite_self, scan]
      refine bl_finishOpen_invBl' hB hext hlognil.symm rfl ?_ rfl ?_ rfl
      · rw [hlive]; simp [liveEnts, hnil]
      · rw [hlive, hnil]; rfl
    · rename_i e' hlast
      split
      · exact hB
      · split
        · exact hB
        · have hend : s.log.length = e'.off + 1 := by
            rw [hloglen]; unfold endOff; rw [hlast]
          rw [List.drop_of_length_le (by omega)]
          simp only [ite_self, scan]
          refine bl_finishOpen_invBl' hB hext rfl rfl ?_ rfl ?_ rfl
          · rw [hlive]; simp [liveEnts]
          · rw [hlive]

/-- the live records form a well-formed history in the sense of C01 (`Store/History.lean`) -/
theorem inv_hist (hs : Hs D) (s : St D) (hL : InvLog hs s) (hB : InvBl hs s) :
    Hist hs (liveHdrs s) (liveAlhs s) := by
  have hch := bl_live_chain hL
  obtain ⟨rs, hrs⟩ := bl_chain_recs hch
  have hH : liveHdrs s = rs.map (·.hdr) := by
    unfold liveHdrs liveRecs
    rw [hrs, List.filterMap_map]
    simp [Function.comp_def]
  have hlenrs : rs.length = (liveEnts s).length := by
    have := congrArg List.length hrs
    simpa using this.symm
  apply bl_hist_of
  · rw [hH]; simp [liveAlhs, hlenrs]
  · intro i h a hh ha
    rw [hH, List.getElem?_map] at hh
    unfold liveAlhs at ha
    rw [List.getElem?_map] at ha
    obtain ⟨r, hr, rfl⟩ := Option.map_eq_some_iff.mp hh
    obtain ⟨e, he, rfl⟩ := Option.map_eq_some_iff.mp ha
    have hlog : s.log[e.off]? = some r := by
      have := congrArg (·[i]?) hrs
      simp [he, hr] at this
      exact this
    obtain ⟨r', c1, c2, c3, c4, c5⟩ := bl_chain_get hch i e he
    rw [hlog] at c1
    cases c1
    obtain ⟨d1, d2⟩ := hB.liveBl i e r he hlog
    refine ⟨by omega, c3, ?_, d1, d2⟩
    intro a' h0 ha'
    unfold liveAlhs at ha'
    rw [List.getElem?_map] at ha'
    obtain ⟨e0, he0, rfl⟩ := Option.map_eq_some_iff.mp ha'
    exact c5 e0 h0 he0

end ImmuModel.Store.Commit
