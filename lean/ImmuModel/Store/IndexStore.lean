/-
C03 model, part 5: the three logs of an index (embedded/tbtree) under `flushTree`, their crash images, and `OpenWith`.

  flushTree(sync)   : hLog.SetOffset(committedHLogSize); nLog.SetOffset(committedNLogSize);
                      snapshot.WriteTo(nLog, hLog) (mutated nodes, older versions of updated keys); hLog.Flush; nLog.Flush;
                      [sync: hLog.Sync; nLog.Sync]
                      cLog.SetOffset(committedLogSize); cLog.Append(entry{synced, [initialN,finalN), rootNodeSize, checksum(nodes range),
                      [initialH,finalH), checksum(history range)}); cLog.Flush; [sync: cLog.Sync]
                      committedLogSize += entry; committedNLogSize += wN; committedHLogSize += wH
  OpenWith          : trim a partial commit entry; walk the commit log backwards (IndexRecover.walk) validating both checksums
                      of every entry against the logs; load the root of the selected snapshot;
                      hLog.SetOffset(committedHLogSize) — an error here (offset beyond the file) makes tbtree.Open discard the
                      nodes / commit folders and start a fresh index on the old history log; cLog.SetOffset(committedLogSize).

Abstraction (modelled rather than verified): one cell = one node / one history record / one commit entry; the checksum is
IDEAL (the content of the range itself, so "checksum matches" = "the bytes are there"); a torn data cell reads as garbage (0),
a torn commit entry (`ok = false`) never validates — the code has no checksum over the entry itself, see `splice` and known
finding 5; one chunk file per log (known finding 4 is about chunk rotation); compaction (full snapshots in numbered folders)
and `DiscardUpto` are outside the model.  Ghost fields `nAll` / `hAll` of an entry record what the two logs held below the
ends of its ranges when it was written: the root of a snapshot references data written by the older snapshots, so the
snapshot is usable iff that whole prefix is still on disk (`Consistent`).  Core Lean only.
-/
import ImmuModel.Store.Crash
import ImmuModel.Store.IndexRecover

namespace ImmuModel.Store.IndexStore
open ImmuModel.Store.Crash ImmuModel.Store.IndexRecover

/-- index commit-log entry -/
structure CEntry where
  synced : Bool
  nFrom : Nat
  nTo : Nat
  root : Nat
  nSum : List Nat
  hFrom : Nat
  hTo : Nat
  hSum : List Nat
  /-- false: partially written entry -/
  ok : Bool := true
  /-- ghost: the nodes log below `nTo` / the history log below `hTo` when the entry was written -/
  nAll : List Nat := []
  hAll : List Nat := []
deriving DecidableEq, Repr

def CEntry.torn (e : CEntry) : CEntry := { e with ok := false }

/-- `cLogEntry.isValid()` -/
def CEntry.fieldsOK (e : CEntry) : Bool :=
  decide (e.nFrom ≤ e.nTo) && decide (0 < e.root) && decide (e.root ≤ e.nTo) && decide (e.hFrom ≤ e.hTo)

/-- `appendable.Checksum(log, a, b - a)` succeeds and equals the recorded checksum: an empty range always reads (n = 0),
a non-empty one must lie inside the file -/
def rangeOK (cells : List Nat) (a b : Nat) (sum : List Nat) : Bool :=
  if b ≤ a then sum == [] else decide (b ≤ cells.length) && ((cells.drop a).take (b - a) == sum)

/-- the validation `OpenWith` performs on one entry (`mustDiscard = false`) -/
def entryValid (nl hl : List Nat) (e : CEntry) : Bool :=
  e.ok && e.fieldsOK && rangeOK nl e.nFrom e.nTo e.nSum && rangeOK hl e.hFrom e.hTo e.hSum

/-- where `flushTree` stands -/
inductive IPc where
  | idle
  /-- nodes and history appended and flushed -/
  | written (nodes hist : List Nat) (sync : Bool)
  /-- `hLog.Sync; nLog.Sync` done -/
  | dataSynced (nodes hist : List Nat)
  /-- the synced entry appended and flushed, `cLog.Sync` outstanding -/
  | entryWritten (nodes hist : List Nat)
deriving DecidableEq, Repr

structure ISt where
  nl : Log Nat := {}
  hl : Log Nat := {}
  cl : Log CEntry := {}
  /-- committedNLogSize, committedHLogSize, committedLogSize / cLogEntrySize -/
  cN : Nat := 0
  cH : Nat := 0
  cC : Nat := 0
  pc : IPc := .idle
deriving Repr

inductive IStep where
  /-- SetOffset of both data logs, WriteTo, Flush of both (`nodes` ≠ []: a flush writes at least the root) -/
  | write (nodes hist : List Nat) (sync : Bool)
  | syncData
  /-- cLog.SetOffset, Append, Flush -/
  | entry
  | syncEntry
deriving DecidableEq, Repr

def mkEntry (s : ISt) (nodes hist : List Nat) (sync : Bool) : CEntry :=
  { synced := sync, nFrom := s.cN, nTo := s.cN + nodes.length, root := 1, nSum := nodes,
    hFrom := s.cH, hTo := s.cH + hist.length, hSum := hist,
    nAll := s.nl.content.take (s.cN + nodes.length), hAll := s.hl.content.take (s.cH + hist.length) }

def commitCounters (s : ISt) (nodes hist : List Nat) : ISt :=
  { s with cN := s.cN + nodes.length, cH := s.cH + hist.length, cC := s.cC + 1, pc := .idle }

/-- one micro-step of `flushTree`; `none` = not enabled / the flush returns an error -/
def step (s : ISt) : IStep → Option ISt
  | .write nodes hist sync =>
    match s.pc, nodes with
    | .idle, _ :: _ =>
      match s.hl.setOffset s.cH, s.nl.setOffset s.cN with
      | some h, some n => some { s with hl := h.appendAll hist, nl := n.appendAll nodes, pc := .written nodes hist sync }
      | _, _ => none
    | _, _ => none
  | .syncData =>
    match s.pc with
    | .written nodes hist true => some { s with hl := s.hl.sync, nl := s.nl.sync, pc := .dataSynced nodes hist }
    | _ => none
  | .entry =>
    match s.pc with
    | .written nodes hist false =>
      (s.cl.setOffset s.cC).map fun c => commitCounters { s with cl := c.append (mkEntry s nodes hist false) } nodes hist
    | .dataSynced nodes hist =>
      (s.cl.setOffset s.cC).map fun c => { s with cl := c.append (mkEntry s nodes hist true), pc := .entryWritten nodes hist }
    | _ => none
  | .syncEntry =>
    match s.pc with
    | .entryWritten nodes hist => some (commitCounters { s with cl := s.cl.sync } nodes hist)
    | _ => none

/-! ### crash images and recovery -/

/-- which un-fsynced cells of each log reached the disk -/
structure IChoice where
  kn : Nat := 0
  kh : Nat := 0
  kc : Nat := 0
  tn : Bool := false
  th : Bool := false
  tc : Bool := false
deriving Repr

structure IImage where
  nl : List Nat
  hl : List Nat
  cl : List CEntry
deriving Repr

def crashImage (s : ISt) (c : IChoice) : IImage :=
  { nl := s.nl.image (fun _ => 0) c.kn c.tn,
    hl := s.hl.image (fun _ => 0) c.kh c.th,
    cl := s.cl.image CEntry.torn c.kc c.tc }

/-- `rem := cLogSize % cLogEntrySize; cLog.SetOffset(cLogSize - rem)`: a partial entry at the END of the file is cut -/
def trim (cs : List CEntry) : List CEntry :=
  match cs.getLast? with
  | none => []
  | some e => if e.ok then cs else cs.dropLast

/-- what the walk sees -/
def ents (img : IImage) : List Ent :=
  (trim img.cl).map fun e => { synced := e.synced, valid := entryValid img.nl img.hl e }

inductive Outcome where
  /-- `OpenWith` succeeded keeping `k` snapshots -/
  | loaded (k : Nat) (s : ISt)
  /-- `OpenWith` failed: nodes / commit folders discarded, fresh index on the old history log -/
  | rebuilt (s : ISt)
deriving Repr

def Outcome.st : Outcome → ISt
  | .loaded _ s => s
  | .rebuilt s => s

def fresh (img : IImage) : ISt := { hl := Log.ofDisk img.hl 0 }

/-- `OpenWith` with the walk `w` (the code's: `IndexRecover.walk`) -/
def recoverWith (w : List Ent → Nat) (img : IImage) : Outcome :=
  let cs := trim img.cl
  match w (ents img) with
  | 0 => .loaded 0 { nl := Log.ofDisk img.nl 0, hl := Log.ofDisk img.hl 0, cl := Log.ofDisk img.cl 0 }
  | k + 1 =>
    match cs[k]? with
    | none => .rebuilt (fresh img)
    | some e =>
      -- readNodeAt(finalNLogSize - rootNodeSize), hLog.SetOffset(finalHLogSize)
      if e.nTo ≤ img.nl.length ∧ e.hTo ≤ img.hl.length then
        .loaded (k + 1) { nl := Log.ofDisk img.nl e.nTo, hl := Log.ofDisk img.hl e.hTo, cl := Log.ofDisk img.cl (k + 1),
                          cN := e.nTo, cH := e.hTo, cC := k + 1 }
      else .rebuilt (fresh img)

def recover (img : IImage) : Outcome := recoverWith walk img

/-- crash + reopen -/
def restart (s : ISt) (c : IChoice) : ISt := (recover (crashImage s c)).st

/-- the snapshot of entry `e` can be used on this disk: everything its root may reference is there, unchanged -/
def Consistent (img : IImage) (e : CEntry) : Prop :=
  img.nl.take e.nTo = e.nAll ∧ img.hl.take e.hTo = e.hAll

instance (img : IImage) (e : CEntry) : Decidable (Consistent img e) := by unfold Consistent; infer_instance

/-- the snapshot `OpenWith` hands to the index (none: empty index) -/
def selected (w : List Ent → Nat) (img : IImage) : Option CEntry :=
  match recoverWith w img with
  | .loaded (k + 1) _ => (trim img.cl)[k]?
  | _ => none

/-- states reachable by flushes only (one life of the directory) -/
inductive Reach1 : ISt → Prop where
  | init : Reach1 {}
  | step {s s' : ISt} (st : IStep) : Reach1 s → step s st = some s' → Reach1 s'

/-- states reachable by flushes and crash + reopen cycles -/
inductive Reach : ISt → Prop where
  | init : Reach {}
  | step {s s' : ISt} (st : IStep) : Reach s → step s st = some s' → Reach s'
  | restart {s : ISt} (c : IChoice) : Reach s → Reach (restart s c)

/-- the part of a torn commit entry `e` (new) written over `o` (stale, same slot) when the write stops after the nodes checksum -/
def splice (e o : CEntry) : CEntry :=
  { e with hFrom := e.hFrom, hTo := o.hTo, hSum := o.hSum }

/-- driver / witnesses: flushes (`inl`) and crashes (`inr`) -/
def run (s : ISt) : List (IStep ⊕ IChoice) → Option ISt
  | [] => some s
  | .inl st :: rest => (step s st).bind fun s' => run s' rest
  | .inr c :: rest => run (restart s c) rest

/-- a complete flush as micro-steps -/
def flush (nodes hist : List Nat) (sync : Bool) : List (IStep ⊕ IChoice) :=
  if sync then [.inl (.write nodes hist true), .inl .syncData, .inl .entry, .inl .syncEntry]
  else [.inl (.write nodes hist false), .inl .entry]

end ImmuModel.Store.IndexStore
