/-
C02 — facts about `writeRec`, the in-place write of a tx-log record at `precommittedTxLogSize`
(`txLog.SetOffset` + `txLog.Append`): everything before the write position is untouched, the new
record sits at the position, every record of the result is an old record or the new one, and the
records BEHIND the position survive exactly when the sizes agree (used by Store/CommitLog.lean and
Store/CommitBl.lean; the last two facts are what lets stale records of a discarded branch sit
right behind the live tail — seeded change c02-a).
-/
import ImmuModel.Store.Commit

namespace ImmuModel.Store.Commit
open ImmuModel ImmuModel.Tx ImmuModel.Store

variable {D : Type}

theorem wr_getElem?_take_append {α : Type} (l ex : List α) {n off : Nat} (h : off < n)
    (hn : n ≤ l.length) : (l.take n ++ ex)[off]? = l[off]? := by
  rw [List.getElem?_append_left (by simp [List.length_take]; omega), List.getElem?_take, if_pos h]

theorem wr_getElem?_take_append_self {α : Type} (l : List α) (x : α) {n : Nat} (hn : n ≤ l.length) :
    (l.take n ++ [x])[n]? = some x := by
  have : (l.take n).length = n := by simp [List.length_take]; omega
  rw [List.getElem?_append_right (by omega)]
  simp [this]

/-! ### `writeRec`: the in-place write at `precommittedTxLogSize` -/

theorem writeRec_eq (em : Bool) (log : List (Rec D)) (pos : Nat) (r : Rec D) :
    ∃ tl, writeRec em log pos r = log.take pos ++ [r] ++ tl ∧ ∀ x ∈ tl, x ∈ log := by
  unfold writeRec
  split
  · split
    · exact ⟨_, rfl, fun x hx => List.mem_of_mem_drop hx⟩
    · exact ⟨[], rfl, fun x hx => by cases hx⟩
  · exact ⟨[], rfl, fun x hx => by cases hx⟩

theorem writeRec_get_lt (em : Bool) (log : List (Rec D)) {pos off : Nat} (r : Rec D)
    (h : off < pos) (hn : pos ≤ log.length) : (writeRec em log pos r)[off]? = log[off]? := by
  obtain ⟨tl, e, _⟩ := writeRec_eq em log pos r
  rw [e, List.append_assoc]
  exact wr_getElem?_take_append _ _ h hn

theorem writeRec_get_self (em : Bool) (log : List (Rec D)) {pos : Nat} (r : Rec D)
    (hn : pos ≤ log.length) : (writeRec em log pos r)[pos]? = some r := by
  obtain ⟨tl, e, _⟩ := writeRec_eq em log pos r
  have hl : (log.take pos ++ [r]).length = pos + 1 := by simp [List.length_take]; omega
  rw [e, List.getElem?_append_left (by omega)]
  exact wr_getElem?_take_append_self _ _ hn

theorem writeRec_mem (em : Bool) (log : List (Rec D)) (pos : Nat) (r x : Rec D)
    (hx : x ∈ writeRec em log pos r) : x ∈ log ∨ x = r := by
  obtain ⟨tl, e, htl⟩ := writeRec_eq em log pos r
  rw [e, List.mem_append, List.mem_append] at hx
  rcases hx with (hx | hx) | hx
  · exact Or.inl (List.mem_of_mem_take hx)
  · simp at hx; exact Or.inr hx
  · exact Or.inl (htl x hx)

theorem writeRec_length (em : Bool) (log : List (Rec D)) {pos : Nat} (r : Rec D)
    (hn : pos ≤ log.length) : pos < (writeRec em log pos r).length := by
  obtain ⟨tl, e, _⟩ := writeRec_eq em log pos r
  rw [e]; simp [List.length_take]; omega

/-- an in-place write of a record of the SAME size keeps every record behind it -/
theorem writeRec_get_gt_of_size_eq (em : Bool) (log : List (Rec D)) {pos off : Nat} (r old : Rec D)
    (hold : log[pos]? = some old) (hsz : recSize em old = recSize em r) (h : pos < off) :
    (writeRec em log pos r)[off]? = log[off]? := by
  have hn : pos < log.length := by
    rcases Nat.lt_or_ge pos log.length with h' | h'
    · exact h'
    · rw [List.getElem?_eq_none h'] at hold; cases hold
  unfold writeRec
  rw [hold]; simp only [hsz, if_true]
  have hl : (log.take pos ++ [r]).length = pos + 1 := by simp [List.length_take]; omega
  rw [List.getElem?_append_right (by omega), hl, List.getElem?_drop]
  congr 1; omega

/-- an in-place write of a record of a DIFFERENT size leaves nothing parseable behind it -/
theorem writeRec_length_of_size_ne (em : Bool) (log : List (Rec D)) {pos : Nat} (r old : Rec D)
    (hold : log[pos]? = some old) (hsz : recSize em old ≠ recSize em r) :
    (writeRec em log pos r).length = pos + 1 := by
  have hn : pos < log.length := by
    rcases Nat.lt_or_ge pos log.length with h' | h'
    · exact h'
    · rw [List.getElem?_eq_none h'] at hold; cases hold
  unfold writeRec
  rw [hold]; simp only [hsz, if_false]
  simp [List.length_take]; omega

end ImmuModel.Store.Commit
