/-
C03 model, part 3: the mutual exclusion the write protocol relies on, made explicit by removing it.

`Recover.lean` models `commitStateRWMutex`: `step` enables `txAppend` (performPrecommit) only at `pc = .idle`, i.e. never
between the micro-steps of one `sync()`.  In the code this holds because `sync()` takes the mutex BEFORE it flushes and
fsyncs the value logs.  `stepUnlocked` is the protocol in which the value-log flush+fsync happens in front of the lock
(seeded change `c03-b`: "value logs are guarded by their own per-vLog lock"): a committer may append its values and its tx
record while the round stands between the value-log fsync and the lock (`pc = .vlogSynced`).  Everything else is `step .code`.

The harness feeds the storage-op trace to the driver with `syncbegin` at the position of the first value-log Flush of the
round, so a tx record appended at that stage is answered "disabled" by `step .code` (a correspondence mismatch), and
the witness in `Props/C03.lean` shows what the exclusion is needed for.
-/
import ImmuModel.Store.Recover

namespace ImmuModel.Store.Crash

/-- micro-step of the protocol with the value-log fsync outside the commit lock -/
def stepUnlocked (s : St) : Step → Option St
  | .txAppend body =>
    match s.pc with
    | .vlogSynced => (step .code { s with pc := .idle } (.txAppend body)).map fun s' => { s' with pc := .vlogSynced }
    | _ => step .code s (.txAppend body)
  | st => step .code s st

def runUnlocked (s : St) : List Step → Option St
  | [] => some s
  | st :: rest => (stepUnlocked s st).bind fun s' => runUnlocked s' rest

end ImmuModel.Store.Crash
