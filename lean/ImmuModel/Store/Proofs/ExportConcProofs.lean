/-
C07 — proofs for `Store/ExportConc.lean` (several exporters on one primary).  Core Lean only.
-/
import ImmuModel.Store.ExportConc
import ImmuModel.Tx.Proofs.ExportRT
namespace ImmuModel.ExportConc.ExportConcAux
open ImmuModel ImmuModel.Tx ImmuModel.ExportConc

-- ------------------------------------------------------------------ 1. answers depend on the committed tx only

theorem exportAt_append (P Q : List Parsed) (id : Nat) (a : Except Fault Bytes)
    (h : exportAt P id = some a) : exportAt (P ++ Q) id = some a := by
  unfold exportAt at *
  by_cases h0 : id = 0
  · simp [h0] at h
  · simp only [h0, if_false] at *
    cases hp : P[id - 1]? with
    | none => simp [hp] at h
    | some x =>
      have hlt : id - 1 < P.length := by
        cases hlt : decide (id - 1 < P.length) with
        | true => exact of_decide_eq_true hlt
        | false =>
          have : P[id - 1]? = none := List.getElem?_eq_none (Nat.le_of_not_lt (of_decide_eq_false hlt))
          rw [this] at hp; cases hp
      rw [List.getElem?_append_left hlt, hp]
      rw [hp] at h
      exact h

theorem run_history (evs : List Ev) : ∀ P : List Parsed, ∃ Q, (run P evs).1 = P ++ Q := by
  induction evs with
  | nil => intro P; exact ⟨[], by simp [run]⟩
  | cons e evs ih =>
    intro P
    cases e with
    | commit x =>
      obtain ⟨Q, hQ⟩ := ih (P ++ [x])
      exact ⟨x :: Q, by simp [run, hQ]⟩
    | «export» g id =>
      obtain ⟨Q, hQ⟩ := ih P
      exact ⟨Q, by simp [run, hQ]⟩

theorem answers_match_final (evs : List Ev) : ∀ (P : List Parsed) (g id : Nat) (a : Except Fault Bytes),
    (g, id, some a) ∈ (run P evs).2 → exportAt (run P evs).1 id = some a := by
  induction evs with
  | nil => intro P g id a h; simp [run] at h
  | cons e evs ih =>
    intro P g id a h
    cases e with
    | commit x => simpa [run] using ih (P ++ [x]) g id a (by simpa [run] using h)
    | «export» g' id' =>
      simp only [run, List.mem_cons] at h ⊢
      cases h with
      | inl h =>
        obtain ⟨Q, hQ⟩ := run_history evs P
        rw [hQ]
        have h3 : exportAt P id' = some a := by
          have := congrArg (fun t : Answer => t.2.2) h
          simpa using this.symm
        have h2 : id = id' := by
          have := congrArg (fun t : Answer => t.2.1) h
          simpa using this
        rw [h2]
        exact exportAt_append P Q id' a h3
      | inr h => exact ih P g id a h

-- ------------------------------------------------------------------ 2. the scratch buffer

/-- the values a call still has to deliver, the one in flight included -/
def rem (t : Th) : List Bytes :=
  match t.pc with
  | .idle => t.todo
  | .locked v => v :: t.todo
  | .read v => v :: t.todo
  | .copied _ => t.todo
  | .unlockedEarly v => v :: t.todo

/-- The invariant of the loop as written: whoever is inside the critical section holds the mutex, and between the read
and the copy `valBuf` holds the value that was read. -/
structure Inv (vals : Nat → List Bytes) (s : Sys) : Prop where
  acc : ∀ i, (s.ths i).out ++ rem (s.ths i) = vals i
  own : ∀ i, (s.ths i).pc ≠ .idle → s.owner = some i
  rd : ∀ i v, (s.ths i).pc = .read v → s.valBuf (s.ths i) v = v
  noEarly : ∀ i v, (s.ths i).pc ≠ .unlockedEarly v

theorem inv_init (cap : Nat) (vals : Nat → List Bytes) : Inv vals (Sys.init cap vals) :=
  { acc := fun i => by simp [Sys.init, rem]
    own := fun i h => by simp [Sys.init] at h
    rd := fun i v h => by simp [Sys.init] at h
    noEarly := fun i v h => by simp [Sys.init] at h }

theorem set_same (s : Sys) (i : Nat) (t : Th) : (s.set i t).ths i = t := by simp [Sys.set]
theorem set_other (s : Sys) (i j : Nat) (t : Th) (h : j ≠ i) : (s.set i t).ths j = s.ths j := by simp [Sys.set, h]

-- the step function, one equation per statement of the loop
theorem step_lock (s : Sys) (i : Nat) (v : Bytes) (rest : List Bytes) (hpc : (s.ths i).pc = .idle)
    (htodo : (s.ths i).todo = v :: rest) (hown : s.owner = none) :
    s.step i = { s.set i { s.ths i with todo := rest, pc := .locked v } with owner := some i } := by
  simp [Sys.step, hpc, htodo, hown]

theorem step_done (s : Sys) (i : Nat) (hpc : (s.ths i).pc = .idle) (htodo : (s.ths i).todo = []) : s.step i = s := by
  simp [Sys.step, hpc, htodo]

theorem step_wait (s : Sys) (i o : Nat) (hpc : (s.ths i).pc = .idle) (hown : s.owner = some o) : s.step i = s := by
  unfold Sys.step
  simp only [hpc, hown]
  split <;> first | rfl | (rename_i h; simp at h)

theorem step_read_priv (s : Sys) (i : Nat) (v : Bytes) (hpc : (s.ths i).pc = .locked v) (hc : v.length > s.cap) :
    s.step i = s.set i { s.ths i with priv := v, pc := .read v } := by
  simp [Sys.step, hpc, hc]

theorem step_read_scratch (s : Sys) (i : Nat) (v : Bytes) (hpc : (s.ths i).pc = .locked v) (hc : ¬ v.length > s.cap) :
    s.step i = { s.set i { s.ths i with pc := .read v } with buf := v } := by
  simp [Sys.step, hpc, hc]

theorem step_copy (s : Sys) (i : Nat) (v : Bytes) (hpc : (s.ths i).pc = .read v) :
    s.step i = s.set i { s.ths i with out := (s.ths i).out ++ [s.valBuf (s.ths i) v], pc := .copied v } := by
  simp [Sys.step, hpc]

theorem step_unlock (s : Sys) (i : Nat) (v : Bytes) (hpc : (s.ths i).pc = .copied v) :
    s.step i = { s.set i { s.ths i with pc := .idle } with owner := none } := by
  simp [Sys.step, hpc]

theorem step_early (s : Sys) (i : Nat) (v : Bytes) (hpc : (s.ths i).pc = .unlockedEarly v) : s.step i = s := by
  simp [Sys.step, hpc]

theorem inv_step (vals : Nat → List Bytes) (s : Sys) (i : Nat) (h : Inv vals s) : Inv vals (s.step i) := by
  cases hpc : (s.ths i).pc with
  | idle =>
    cases htodo : (s.ths i).todo with
    | nil => rw [step_done s i hpc htodo]; exact h
    | cons v rest =>
      cases hown : s.owner with
      | some o => rw [step_wait s i o hpc hown]; exact h
      | none =>
        rw [step_lock s i v rest hpc htodo hown]
        refine ⟨fun j => ?_, fun j hj => ?_, fun j w hj => ?_, fun j w hj => ?_⟩
        · by_cases hji : j = i
          · subst hji
            have := h.acc j
            simp only [rem, hpc, htodo] at this
            simpa [Sys.set, rem] using this
          · have := h.acc j
            simpa [Sys.set, hji] using this
        · by_cases hji : j = i
          · subst hji; rfl
          · have hj' : (s.ths j).pc ≠ .idle := by simpa [Sys.set, hji] using hj
            have := h.own j hj'
            rw [hown] at this; cases this
        · by_cases hji : j = i
          · subst hji; simp [Sys.set] at hj
          · have hj' : (s.ths j).pc = .read w := by simpa [Sys.set, hji] using hj
            have := h.own j (by rw [hj']; simp)
            rw [hown] at this; cases this
        · by_cases hji : j = i
          · subst hji; simp [Sys.set] at hj
          · exact h.noEarly j w (by simpa [Sys.set, hji] using hj)
  | locked v =>
    have hoi : s.owner = some i := h.own i (by rw [hpc]; simp)
    by_cases hc : v.length > s.cap
    · rw [step_read_priv s i v hpc hc]
      refine ⟨fun j => ?_, fun j hj => ?_, fun j w hj => ?_, fun j w hj => ?_⟩
      · by_cases hji : j = i
        · subst hji
          have := h.acc j
          simp only [rem, hpc] at this
          simpa [Sys.set, rem] using this
        · have := h.acc j
          simpa [Sys.set, hji] using this
      · by_cases hji : j = i
        · subst hji; exact hoi
        · exact h.own j (by simpa [Sys.set, hji] using hj)
      · by_cases hji : j = i
        · subst hji
          have hw : v = w := by simpa [Sys.set] using hj
          subst hw
          simp [Sys.valBuf, Sys.set, hc]
        · have hj' : (s.ths j).pc = .read w := by simpa [Sys.set, hji] using hj
          have := h.rd j w hj'
          simpa [Sys.valBuf, Sys.set, hji] using this
      · by_cases hji : j = i
        · subst hji; simp [Sys.set] at hj
        · exact h.noEarly j w (by simpa [Sys.set, hji] using hj)
    · rw [step_read_scratch s i v hpc hc]
      refine ⟨fun j => ?_, fun j hj => ?_, fun j w hj => ?_, fun j w hj => ?_⟩
      · by_cases hji : j = i
        · subst hji
          have := h.acc j
          simp only [rem, hpc] at this
          simpa [Sys.set, rem] using this
        · have := h.acc j
          simpa [Sys.set, hji] using this
      · by_cases hji : j = i
        · subst hji; exact hoi
        · exact h.own j (by simpa [Sys.set, hji] using hj)
      · by_cases hji : j = i
        · subst hji
          have hw : v = w := by simpa [Sys.set] using hj
          subst hw
          simp [Sys.valBuf, Sys.set, hc]
        · have hj' : (s.ths j).pc = .read w := by simpa [Sys.set, hji] using hj
          have := h.own j (by rw [hj']; simp)
          rw [hoi] at this
          exact absurd (Option.some.inj this).symm hji
      · by_cases hji : j = i
        · subst hji; simp [Sys.set] at hj
        · exact h.noEarly j w (by simpa [Sys.set, hji] using hj)
  | read v =>
    have hoi : s.owner = some i := h.own i (by rw [hpc]; simp)
    have hv : s.valBuf (s.ths i) v = v := h.rd i v hpc
    rw [step_copy s i v hpc]
    refine ⟨fun j => ?_, fun j hj => ?_, fun j w hj => ?_, fun j w hj => ?_⟩
    · by_cases hji : j = i
      · subst hji
        have := h.acc j
        simp only [rem, hpc] at this
        simp [Sys.set, rem, hv, ← this]
      · have := h.acc j
        simpa [Sys.set, hji] using this
    · by_cases hji : j = i
      · subst hji; exact hoi
      · exact h.own j (by simpa [Sys.set, hji] using hj)
    · by_cases hji : j = i
      · subst hji; simp [Sys.set] at hj
      · have hj' : (s.ths j).pc = .read w := by simpa [Sys.set, hji] using hj
        have := h.rd j w hj'
        simpa [Sys.valBuf, Sys.set, hji] using this
    · by_cases hji : j = i
      · subst hji; simp [Sys.set] at hj
      · exact h.noEarly j w (by simpa [Sys.set, hji] using hj)
  | copied v =>
    have hoi : s.owner = some i := h.own i (by rw [hpc]; simp)
    rw [step_unlock s i v hpc]
    refine ⟨fun j => ?_, fun j hj => ?_, fun j w hj => ?_, fun j w hj => ?_⟩
    · by_cases hji : j = i
      · subst hji
        have := h.acc j
        simp only [rem, hpc] at this
        simpa [Sys.set, rem] using this
      · have := h.acc j
        simpa [Sys.set, hji] using this
    · by_cases hji : j = i
      · subst hji; simp [Sys.set] at hj
      · have := h.own j (by simpa [Sys.set, hji] using hj)
        rw [hoi] at this
        exact absurd (Option.some.inj this).symm hji
    · by_cases hji : j = i
      · subst hji; simp [Sys.set] at hj
      · have hj' : (s.ths j).pc = .read w := by simpa [Sys.set, hji] using hj
        have := h.own j (by rw [hj']; simp)
        rw [hoi] at this
        exact absurd (Option.some.inj this).symm hji
    · by_cases hji : j = i
      · subst hji; simp [Sys.set] at hj
      · exact h.noEarly j w (by simpa [Sys.set, hji] using hj)
  | unlockedEarly v => rw [step_early s i v hpc]; exact h

theorem inv_run (vals : Nat → List Bytes) (sched : List Nat) : ∀ s : Sys, Inv vals s → Inv vals (s.run sched) := by
  induction sched with
  | nil => intro s h; exact h
  | cons i sched ih => intro s h; exact ih _ (inv_step vals s i h)

end ImmuModel.ExportConc.ExportConcAux
