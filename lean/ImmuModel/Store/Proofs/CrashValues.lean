/-
C03: values of acknowledged txs are durable — within ONE epoch (no restart).  Across restarts the statement is false
(`autosync_recovers_tx_without_values`, DESIGN K7): recovery never looks at the value log.
-/
import ImmuModel.Store.Proofs.CrashInv

namespace ImmuModel.Store.Crash

/-- states reachable from the empty store WITHOUT a restart -/
inductive Reach1 (allow : Option Nat) : St → Prop where
  | init (embedded : Bool) : Reach1 allow { allow := allow, embedded := embedded }
  | step {s s' : St} (st : Step) : Reach1 allow s → step .code s st = some s' → Reach1 allow s'

theorem Reach1.toReach {allow : Option Nat} {s : St} (h : Reach1 allow s) : Reach .code allow s := by
  induction h with
  | init e => exact Reach.init e
  | step st _ e ih => exact Reach.step st ih e

theorem reach1_run {allow : Option Nat} {s s' : St} (steps : List Step)
    (hr : Reach1 allow s) (e : run .code s steps = some s') : Reach1 allow s' := by
  induction steps generalizing s with
  | nil => simp [run] at e; subst e; exact hr
  | cons st rest ih =>
    simp only [run] at e
    cases hs : step .code s st with
    | none => simp [hs] at e
    | some s1 =>
      simp only [hs, Option.bind_some] at e
      exact ih (Reach1.step st hr hs) e

structure InvV (s : St) : Prop where
  dur_true : ∀ x ∈ s.vl.durable, x = true
  vpos_lt : ∀ r ∈ s.tx.content, r.vpos < s.vl.len
  pend_lt : ∀ v, s.pendingVal = some v → v < s.vl.len
  vol_true : ∀ x ∈ s.vl.volatile, x = true
  /-- while `sync()` runs (after its value-log sync) the values of ALL precommitted txs are durable -/
  sync_ok : s.pc ≠ .idle → ∀ r ∈ s.tx.content, r.vpos < s.vl.durable.length
  committed_ok : ∀ r ∈ s.tx.content.take s.committed, r.vpos < s.vl.durable.length

theorem invV_step (s s' : St) (st : Step) (hi : Inv s) (h : InvV s) (e : step .code s st = some s') : InvV s' := by
  cases st with
  | valAppend =>
    simp only [step] at e
    split at e
    · simp at e
    · rename_i hp
      simp only [Option.some.injEq] at e; subst e
      refine ⟨h.dur_true, ?_, ?_, ?_, h.sync_ok, h.committed_ok⟩
      · intro r hr; have := h.vpos_lt r hr; simp [Log.append, Log.len] at *; omega
      · intro v hv; simp only [Option.some.injEq] at hv; subst hv; simp [Log.append, Log.len]
      · intro x hx; simp only [Log.append, List.mem_append, List.mem_singleton] at hx
        rcases hx with hx | hx
        · exact h.vol_true x hx
        · exact hx
  | txAppend body =>
    simp only [step] at e
    split at e
    · rename_i v hp hv
      have hso : s.tx.setOffset s.pre = some s.tx := by rw [hi.pre_eq]; exact Log.setOffset_len _
      rw [hso] at e
      simp only [Option.some.injEq] at e; subst e
      have hv' := h.pend_lt v hv
      have hclen : s.committed ≤ s.tx.content.length := by
        have h1 := hi.committed_le; have h2 := hi.cl_le
        rw [Log.content_length]; unfold Log.len at *; omega
      refine ⟨h.dur_true, ?_, by intro v hv; simp at hv, h.vol_true, ?_, ?_⟩
      · intro r hr
        rw [Log.append_content] at hr
        rcases List.mem_append.mp hr with h1 | h1
        · exact h.vpos_lt r h1
        · simp only [List.mem_singleton] at h1; subst h1; exact hv'
      · intro hne; exact absurd hp hne
      · intro r hr
        rw [Log.append_content, List.take_append_of_le_length hclen] at hr
        exact h.committed_ok r hr
    · simp at e
  | syncBegin =>
    simp only [step] at e
    split at e
    · split at e
      · simp at e
      · simp only [Option.some.injEq] at e; subst e
        have hd : s.vl.sync.durable = s.vl.durable ++ s.vl.volatile := rfl
        refine ⟨?_, ?_, ?_, by simp [Log.sync], ?_, ?_⟩
        · intro x hx; rw [hd] at hx
          rcases List.mem_append.mp hx with h1 | h1
          · exact h.dur_true x h1
          · exact h.vol_true x h1
        · intro r hr; have := h.vpos_lt r hr; rw [Log.sync_len]; exact this
        · intro v hv; have := h.pend_lt v hv; rw [Log.sync_len]; exact this
        · intro _ r hr
          have := h.vpos_lt r hr
          rw [hd, List.length_append]; unfold Log.len at this; exact this
        · intro r hr
          have := h.committed_ok r hr
          rw [hd, List.length_append]; omega
    · simp at e
  | syncTx =>
    cases hp : s.pc <;> simp only [step, hp] at e <;> try (cases e; done)
    simp only [Option.some.injEq] at e; subst e
    have hne : s.pc ≠ .idle := by rw [hp]; simp
    refine ⟨h.dur_true, ?_, h.pend_lt, h.vol_true, ?_, ?_⟩
    · intro r hr; rw [Log.sync_content] at hr; exact h.vpos_lt r hr
    · intro _ r hr; rw [Log.sync_content] at hr; exact h.sync_ok hne r hr
    · intro r hr; rw [Log.sync_content] at hr; exact h.committed_ok r hr
  | clSetOffset =>
    cases hp : s.pc <;> simp only [step, hp] at e <;> try (cases e; done)
    rename_i t
    obtain ⟨c, hc, _⟩ := inv_clSetOffset s hi t hp
    rw [hc] at e
    simp only [Option.map_some, Option.some.injEq] at e; subst e
    have hne : s.pc ≠ .idle := by rw [hp]; simp
    exact ⟨h.dur_true, h.vpos_lt, h.pend_lt, h.vol_true, fun _ => h.sync_ok hne, h.committed_ok⟩
  | clAppend =>
    cases hp : s.pc <;> simp only [step, hp] at e <;> try (cases e; done)
    simp only [Option.some.injEq] at e; subst e
    have hne : s.pc ≠ .idle := by rw [hp]; simp
    exact ⟨h.dur_true, h.vpos_lt, h.pend_lt, h.vol_true, fun _ => h.sync_ok hne, h.committed_ok⟩
  | clSync =>
    cases hp : s.pc <;> simp only [step, hp] at e <;> try (cases e; done)
    simp only [Option.some.injEq] at e; subst e
    have hne : s.pc ≠ .idle := by rw [hp]; simp
    exact ⟨h.dur_true, h.vpos_lt, h.pend_lt, h.vol_true, fun _ => h.sync_ok hne, h.committed_ok⟩
  | ack =>
    cases hp : s.pc <;> simp only [step, hp] at e <;> try (cases e; done)
    rename_i t
    simp only [Option.some.injEq] at e; subst e
    have hne : s.pc ≠ .idle := by rw [hp]; simp
    refine ⟨h.dur_true, h.vpos_lt, h.pend_lt, h.vol_true, ?_, ?_⟩
    · intro hx; exact absurd rfl hx
    · intro r hr
      exact h.sync_ok hne r (List.mem_of_mem_take hr)
  | allowUpto n =>
    simp only [step] at e
    split at e
    · split at e
      · simp only [Option.some.injEq] at e; subst e; exact h
      · simp only [Option.some.injEq] at e; subst e
        exact ⟨h.dur_true, h.vpos_lt, h.pend_lt, h.vol_true, h.sync_ok, h.committed_ok⟩
    · simp at e
  | autoSync w =>
    cases w with
    | vl =>
      simp only [step, Option.some.injEq] at e; subst e
      have hd : s.vl.sync.durable = s.vl.durable ++ s.vl.volatile := rfl
      refine ⟨?_, ?_, ?_, by simp [Log.sync], ?_, ?_⟩
      · intro x hx; rw [hd] at hx
        rcases List.mem_append.mp hx with h1 | h1
        · exact h.dur_true x h1
        · exact h.vol_true x h1
      · intro r hr; have := h.vpos_lt r hr; rw [Log.sync_len]; exact this
      · intro v hv; have := h.pend_lt v hv; rw [Log.sync_len]; exact this
      · intro hne r hr
        have := h.sync_ok hne r hr
        rw [hd, List.length_append]; omega
      · intro r hr
        have := h.committed_ok r hr
        rw [hd, List.length_append]; omega
    | tx =>
      simp only [step, Option.some.injEq] at e; subst e
      refine ⟨h.dur_true, ?_, h.pend_lt, h.vol_true, ?_, ?_⟩
      · intro r hr; rw [Log.sync_content] at hr; exact h.vpos_lt r hr
      · intro hne r hr; rw [Log.sync_content] at hr; exact h.sync_ok hne r hr
      · intro r hr; rw [Log.sync_content] at hr; exact h.committed_ok r hr
    | cl =>
      simp only [step, Option.some.injEq] at e; subst e
      exact ⟨h.dur_true, h.vpos_lt, h.pend_lt, h.vol_true, h.sync_ok, h.committed_ok⟩

theorem invV_reach1 {allow : Option Nat} (ha : ∀ a, allow = some a → a = 0) {s : St} (hr : Reach1 allow s) : InvV s := by
  induction hr with
  | init e => exact ⟨by simp, by simp [Log.content], by simp, by simp, by simp, by simp [Log.content]⟩
  | step st hprev e ih => exact invV_step _ _ st (inv_reach ha hprev.toReach) ih e

/-- the value cell of every acknowledged tx is in every crash image -/
theorem acked_values_in_image {allow : Option Nat} (ha : ∀ a, allow = some a → a = 0) {s : St} (hr : Reach1 allow s)
    (c : Choice) : ∀ r ∈ s.ackLog, (crashImage s c).vl[r.vpos]? = some true := by
  have hi := inv_reach ha hr.toReach
  have hv := invV_reach1 ha hr
  intro r hrm
  rw [hi.ackLog_eq] at hrm
  have hacked : s.acked ≤ s.committed := hi.acked_le
  have hcd : s.committed ≤ s.tx.durable.length := by
    have h1 := hi.committed_le; have h2 := hi.cl_le; unfold Log.len at *; omega
  have hmem : r ∈ s.tx.content.take s.committed := by
    unfold Log.content
    rw [List.take_append_of_le_length hcd]
    have : s.tx.durable.take s.acked = (s.tx.durable.take s.committed).take s.acked := by
      rw [List.take_take, Nat.min_eq_left hacked]
    rw [this] at hrm
    exact List.mem_of_mem_take hrm
  have hlt := hv.committed_ok r hmem
  show (s.vl.image (fun _ => false) c.kv c.tv)[r.vpos]? = some true
  unfold Log.image
  rw [List.append_assoc, List.append_assoc, List.getElem?_append_left hlt, List.getElem?_eq_getElem hlt]
  congr 1
  exact hv.dur_true _ (List.getElem_mem hlt)

end ImmuModel.Store.Crash
