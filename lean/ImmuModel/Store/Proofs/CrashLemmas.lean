/-
Helper lemmas for C03: the record scan of recovery, partial-entry trimming, log operations.
-/
import ImmuModel.Store.Recover

namespace ImmuModel.Store.Crash

/-! ### scan -/

theorem scan_prefix (a : Nat) (b : Alh) (l : List Rec) : scan a b l = l.take (scan a b l).length := by
  induction l generalizing a b with
  | nil => simp [scan]
  | cons r rs ih =>
    unfold scan
    split
    · simp only [List.length_cons, List.take_succ_cons]
      congr 1
      exact ih _ _
    · simp

theorem scan_length_le (a : Nat) (b : Alh) (l : List Rec) : (scan a b l).length ≤ l.length := by
  induction l generalizing a b with
  | nil => simp [scan]
  | cons r rs ih =>
    unfold scan
    split
    · simp only [List.length_cons]; have := ih (a + 1) r.alh; omega
    · simp

theorem scan_idem (a : Nat) (b : Alh) (l : List Rec) : scan a b (scan a b l) = scan a b l := by
  induction l generalizing a b with
  | nil => simp [scan]
  | cons r rs ih =>
    by_cases h : r.ok = true ∧ r.id = a + 1 ∧ r.prevAlh = b
    · have e : scan a b (r :: rs) = r :: scan (a + 1) r.alh rs := by simp [scan, h]
      rw [e]
      simp [scan, h, ih]
    · have e : scan a b (r :: rs) = [] := by simp only [scan, h]; simp
      rw [e]; simp [scan]

theorem lastAlh_append (b : Alh) (xs ys : List Rec) : lastAlh b (xs ++ ys) = lastAlh (lastAlh b xs) ys := by
  induction xs generalizing b with
  | nil => simp [lastAlh]
  | cons r rs ih => simp [lastAlh, ih]

theorem scan_append {a : Nat} {b : Alh} {xs : List Rec} (ys : List Rec) (h : scan a b xs = xs) :
    scan a b (xs ++ ys) = xs ++ scan (a + xs.length) (lastAlh b xs) ys := by
  induction xs generalizing a b with
  | nil => simp [lastAlh]
  | cons r rs ih =>
    by_cases c : r.ok = true ∧ r.id = a + 1 ∧ r.prevAlh = b
    · have e : scan a b (r :: rs) = r :: scan (a + 1) r.alh rs := by simp [scan, c]
      rw [e] at h
      have h' : scan (a + 1) r.alh rs = rs := by simpa using h
      have := ih h'
      simp only [List.cons_append, scan, c, and_self, if_true, this, lastAlh, List.length_cons]
      have e2 : a + 1 + rs.length = a + (rs.length + 1) := by omega
      rw [e2]
    · have e : scan a b (r :: rs) = [] := by simp only [scan, c]; simp
      rw [e] at h; simp at h

theorem scan_take {a : Nat} {b : Alh} {l : List Rec} (k : Nat) (h : scan a b l = l) : scan a b (l.take k) = l.take k := by
  induction l generalizing a b k with
  | nil => simp [scan]
  | cons r rs ih =>
    cases k with
    | zero => simp [scan]
    | succ k =>
      by_cases c : r.ok = true ∧ r.id = a + 1 ∧ r.prevAlh = b
      · have e : scan a b (r :: rs) = r :: scan (a + 1) r.alh rs := by simp [scan, c]
        rw [e] at h
        have h' : scan (a + 1) r.alh rs = rs := by simpa using h
        simp [scan, c, ih k h']
      · have e : scan a b (r :: rs) = [] := by simp only [scan, c]; simp
        rw [e] at h; simp at h

theorem scan_all_ok {a : Nat} {b : Alh} {l : List Rec} (h : scan a b l = l) : ∀ r ∈ l, r.ok = true := by
  induction l generalizing a b with
  | nil => simp
  | cons r rs ih =>
    by_cases c : r.ok = true ∧ r.id = a + 1 ∧ r.prevAlh = b
    · have e : scan a b (r :: rs) = r :: scan (a + 1) r.alh rs := by simp [scan, c]
      rw [e] at h
      have h' : scan (a + 1) r.alh rs = rs := by simpa using h
      intro x hx
      rcases List.mem_cons.mp hx with rfl | hx
      · exact c.1
      · exact ih h' x hx
    · have e : scan a b (r :: rs) = [] := by simp only [scan, c]; simp
      rw [e] at h; simp at h

/-- the records accepted by the scan are ok -/
theorem scan_mem_ok (a : Nat) (b : Alh) (l : List Rec) : ∀ r ∈ scan a b l, r.ok = true :=
  scan_all_ok (scan_idem a b l)

theorem scan_mem (a : Nat) (b : Alh) (l : List Rec) : ∀ r ∈ scan a b l, r ∈ l := by
  intro r hr
  rw [scan_prefix] at hr
  exact List.mem_of_mem_take hr

/-- a valid chain: ids are dense and PrevAlh links hold, at every position -/
theorem scan_getElem {a : Nat} {b : Alh} {l : List Rec} (h : scan a b l = l) (i : Nat) (hi : i < l.length) :
    (l[i]).ok = true ∧ (l[i]).id = a + i + 1 ∧ (l[i]).prevAlh = lastAlh b (l.take i) := by
  induction l generalizing a b i with
  | nil => simp at hi
  | cons r rs ih =>
    by_cases c : r.ok = true ∧ r.id = a + 1 ∧ r.prevAlh = b
    · have e : scan a b (r :: rs) = r :: scan (a + 1) r.alh rs := by simp [scan, c]
      rw [e] at h
      have h' : scan (a + 1) r.alh rs = rs := by simpa using h
      cases i with
      | zero => simpa [lastAlh] using c
      | succ i =>
        have := ih h' i (by simpa using hi)
        simp only [List.getElem_cons_succ, List.take_succ_cons, lastAlh]
        refine ⟨this.1, ?_, this.2.2⟩
        rw [this.2.1]; omega
    · have e : scan a b (r :: rs) = [] := by simp only [scan, c]; simp
      rw [e] at h; simp at h

theorem lastAlh_take_succ (b : Alh) (l : List Rec) (i : Nat) (hi : i < l.length) :
    lastAlh b (l.take (i + 1)) = (l[i]).alh := by
  rw [← List.take_append_getElem hi, lastAlh_append]
  simp [lastAlh]

/-! ### reload = scan, or nothing with embedded values -/

theorem reload_prefix (e : Bool) (a : Nat) (b : Alh) (l : List Rec) : reload e a b l = l.take (reload e a b l).length := by
  unfold reload; cases e
  · simpa using scan_prefix a b l
  · simp

theorem reload_valid (e : Bool) (a : Nat) (b : Alh) (l : List Rec) : scan a b (reload e a b l) = reload e a b l := by
  unfold reload; cases e
  · simpa using scan_idem a b l
  · simp [scan]

theorem reload_mem (e : Bool) (a : Nat) (b : Alh) (l : List Rec) : ∀ r ∈ reload e a b l, r ∈ l := by
  unfold reload; cases e
  · simpa using scan_mem a b l
  · simp

/-! ### trimming the partial commit-log entry -/

theorem trimPartial_append (A T : List CEnt) (hA : ∀ e ∈ A, e.ok = true)
    (hT : T = [] ∨ ∃ e, T = [e] ∧ e.ok = false) : trimPartial (A ++ T) = A := by
  rcases hT with rfl | ⟨e, rfl, he⟩
  · simp only [List.append_nil]
    unfold trimPartial
    cases hl : A.getLast? with
    | none =>
      have : A = [] := by simpa [List.getLast?_eq_none_iff] using hl
      simp [this]
    | some x =>
      have : x ∈ A := List.mem_of_getLast? hl
      simp [hA x this]
  · unfold trimPartial
    simp [he]

/-! ### log operations -/

namespace Log
variable {α : Type}

theorem setOffset_len (l : Log α) : l.setOffset l.len = some l := by
  unfold setOffset len
  have h1 : ¬ (l.durable.length + l.volatile.length < l.durable.length + l.volatile.length) := by omega
  have h2 : l.durable.length ≤ l.durable.length + l.volatile.length := by omega
  simp only [h1, h2, if_false, if_true]
  congr
  cases l with
  | mk d v s => simp

theorem sync_content (l : Log α) : l.sync.content = l.content := by simp [sync, content]

theorem sync_len (l : Log α) : l.sync.len = l.len := by simp [sync, len]

theorem append_content (l : Log α) (r : α) : (l.append r).content = l.content ++ [r] := by
  simp [append, content]

theorem content_length (l : Log α) : l.content.length = l.len := by simp [content, len]

end Log

end ImmuModel.Store.Crash
