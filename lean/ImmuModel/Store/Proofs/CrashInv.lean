/-
C03: the invariant of the commit/sync protocol (code order) and what recovery returns on every crash image.
-/
import ImmuModel.Store.Proofs.CrashLemmas

namespace ImmuModel.Store.Crash

/-- facts that depend on where `sync()` stands -/
def PcOk (s : St) : Prop :=
  match s.pc with
  | .idle => s.cl.len = s.committed
  | .vlogSynced => s.cl.len = s.committed
  | .txSynced t => s.cl.len = s.committed ∧ s.committed < t ∧ t ≤ s.tx.durable.length ∧ (∀ a, s.allow = some a → t ≤ a)
  | .clOffset t => s.cl.len = s.committed ∧ s.committed < t ∧ t ≤ s.tx.durable.length ∧ (∀ a, s.allow = some a → t ≤ a)
  | .clAppended t => s.cl.len = t ∧ s.committed ≤ t ∧ t ≤ s.tx.durable.length ∧ (∀ a, s.allow = some a → t ≤ a)
  | .clSynced t => s.cl.len = t ∧ s.cl.volatile = [] ∧ s.committed ≤ t ∧ t ≤ s.tx.durable.length ∧ (∀ a, s.allow = some a → t ≤ a)
  | .acked _ => False

structure Inv (s : St) : Prop where
  /-- the logical tx log is a chain: ids dense from 1, PrevAlh links, every record parses -/
  chain : scan 0 alh0 s.tx.content = s.tx.content
  pre_eq : s.pre = s.tx.len
  preAlh_eq : s.preAlh = lastAlh alh0 s.tx.content
  /-- every commit-log entry (even a volatile one) points to a DURABLE tx record ... -/
  cl_le : s.cl.len ≤ s.tx.durable.length
  /-- ... and carries its Alh -/
  cl_eq : s.cl.content = (s.tx.durable.take s.cl.len).map ent
  cl_stale : s.cl.stale.length ≤ 1 ∧ ∀ e ∈ s.cl.stale, e.ok = false
  committed_le : s.committed ≤ s.cl.durable.length
  acked_le : s.acked ≤ s.committed
  ackLog_eq : s.ackLog = s.tx.durable.take s.acked
  allow_ok : ∀ a, s.allow = some a → s.committed ≤ a ∧ a ≤ s.pre
  ever_ok : ∀ r, r ∈ s.tx.durable ++ s.tx.volatile ++ s.tx.stale → r.ok = true → r ∈ s.ever
  pc_ok : PcOk s

theorem inv_init (allow : Option Nat) (emb : Bool) (h : ∀ a, allow = some a → a = 0) : Inv { allow := allow, embedded := emb } := by
  refine ⟨by simp [Log.content, scan], by simp [Log.len], by simp [Log.content, lastAlh], by simp [Log.len],
    by simp [Log.content, Log.len], by simp, by simp, by simp, by simp, ?_, by simp, by simp [PcOk, Log.len]⟩
  intro a ha
  have := h a ha
  simp [this]

/-! ### crash images -/

theorem tail_cl (l : Log CEnt) (k m : Nat) (t : Bool) (hs : l.stale.length ≤ 1 ∧ ∀ e ∈ l.stale, e.ok = false) :
    let T := Log.tornCell CEnt.torn l k t ++ l.stale.drop (m + (Log.tornCell CEnt.torn l k t).length)
    T = [] ∨ ∃ e, T = [e] ∧ e.ok = false := by
  obtain ⟨h1, h2⟩ := hs
  have stale_drop : ∀ j, l.stale.drop j = [] ∨ ∃ e, l.stale.drop j = [e] ∧ e.ok = false := by
    intro j
    match hst : l.stale with
    | [] => simp
    | [e] =>
      cases j with
      | zero => right; exact ⟨e, by simp, h2 e (by simp [hst])⟩
      | succ j => left; simp
    | _ :: _ :: _ => simp [hst] at h1
  intro T
  show T = [] ∨ _
  simp only [T]
  unfold Log.tornCell
  cases t with
  | false => simpa using stale_drop m
  | true =>
    cases hh : (l.volatile.drop k).head? with
    | none => simpa [hh] using stale_drop m
    | some x =>
      right
      refine ⟨x.torn, ?_, by simp [CEnt.torn]⟩
      have : l.stale.drop (m + 1) = [] := by
        apply List.drop_eq_nil_of_le; omega
      simp [hh, this]

theorem image_cl_trim (s : St) (h : Inv s) (k : Nat) (t : Bool) :
    trimPartial (s.cl.image CEnt.torn k t) = s.cl.durable ++ s.cl.volatile.take k := by
  unfold Log.image
  rw [List.append_assoc (s.cl.durable ++ s.cl.volatile.take k)]
  apply trimPartial_append
  · intro e he
    have : e ∈ s.cl.content := by
      simp only [Log.content]
      rcases List.mem_append.mp he with h1 | h1
      · exact List.mem_append_left _ h1
      · exact List.mem_append_right _ (List.mem_of_mem_take h1)
    rw [h.cl_eq] at this
    obtain ⟨r, _, rfl⟩ := List.mem_map.mp this
    simp [ent]
  · exact tail_cl s.cl k _ t h.cl_stale

theorem image_tx_eq (l : Log Rec) (k : Nat) (t : Bool) :
    ∃ rest, l.image Rec.torn k t = l.durable ++ rest ∧
      ∀ r ∈ rest, r.ok = true → r ∈ l.volatile ∨ r ∈ l.stale := by
  refine ⟨l.volatile.take k ++ Log.tornCell Rec.torn l k t ++
    l.stale.drop ((l.volatile.take k).length + (Log.tornCell Rec.torn l k t).length), by simp [Log.image], ?_⟩
  intro r hr hok
  rcases List.mem_append.mp hr with h1 | h1
  · rcases List.mem_append.mp h1 with h2 | h2
    · exact Or.inl (List.mem_of_mem_take h2)
    · exfalso
      unfold Log.tornCell at h2
      cases t with
      | false => simp at h2
      | true =>
        cases hh : (l.volatile.drop k).head? with
        | none => simp [hh] at h2
        | some x =>
          simp [hh] at h2
          subst h2
          simp [Rec.torn] at hok
  · exact Or.inr (List.mem_of_mem_drop h1)

/-- number of commit-log entries on disk after the crash -/
def nCl (s : St) (c : Choice) : Nat := s.cl.durable.length + min c.kc s.cl.volatile.length

theorem nCl_le (s : St) (c : Choice) : nCl s c ≤ s.cl.len := by
  unfold nCl Log.len; omega

theorem cl_trim_eq (s : St) (h : Inv s) (c : Choice) :
    trimPartial (crashImage s c).cl = (s.tx.durable.take (nCl s c)).map ent ∧
    (trimPartial (crashImage s c).cl).length = nCl s c := by
  have e1 : trimPartial (crashImage s c).cl = s.cl.durable ++ s.cl.volatile.take c.kc := image_cl_trim s h c.kc c.tc
  have e2 : s.cl.durable ++ s.cl.volatile.take c.kc = s.cl.content.take (nCl s c) := by
    unfold Log.content nCl
    rw [List.take_append]
    have : s.cl.durable.length + min c.kc s.cl.volatile.length - s.cl.durable.length = min c.kc s.cl.volatile.length := by omega
    rw [this, List.take_of_length_le (by omega : s.cl.durable.length ≤ s.cl.durable.length + min c.kc s.cl.volatile.length)]
    congr 1
    rw [← List.take_take]
    simp
  have hn := nCl_le s c
  have hl := h.cl_le
  constructor
  · rw [e1, e2, h.cl_eq, ← List.map_take, List.take_take]
    congr 2
    omega
  · rw [e1]
    simp [nCl, List.length_take]

theorem recover_ok (s : St) (h : Inv s) (c : Choice) :
    recover (crashImage s c) =
      .ok (recoverWith (crashImage s c) (nCl s c) (lastAlh alh0 (s.tx.durable.take (nCl s c)))) := by
  obtain ⟨ec, el⟩ := cl_trim_eq s h c
  have hn := nCl_le s c
  have hl := h.cl_le
  obtain ⟨rest, eimg, _⟩ := image_tx_eq s.tx c.kt c.tt
  have etx : (crashImage s c).tx = s.tx.durable ++ rest := eimg
  unfold recover
  rw [el]
  have hck : checkLast (trimPartial (crashImage s c).cl) (crashImage s c).tx =
      .ok (lastAlh alh0 (s.tx.durable.take (nCl s c))) := by
    unfold checkLast
    rw [el, ec, etx]
    by_cases h0 : nCl s c = 0
    · simp [h0, lastAlh]
    · have hi : nCl s c - 1 < s.tx.durable.length := by omega
      have hlast : ((s.tx.durable.take (nCl s c)).map ent).getLast? = some (ent (s.tx.durable[nCl s c - 1])) := by
        rw [List.getLast?_eq_getElem?]
        simp only [List.length_map, List.length_take]
        have : min (nCl s c) s.tx.durable.length - 1 = nCl s c - 1 := by omega
        rw [this]
        rw [List.getElem?_map, List.getElem?_take]
        simp [show nCl s c - 1 < nCl s c by omega, List.getElem?_eq_getElem hi]
      rw [hlast]
      simp only []
      rw [List.getElem?_append_left hi, List.getElem?_eq_getElem hi]
      simp only []
      have hdur : scan 0 alh0 s.tx.durable = s.tx.durable := by
        have := scan_take s.tx.durable.length h.chain
        simpa [Log.content] using this
      have hok : (s.tx.durable[nCl s c - 1]).ok = true := (scan_getElem hdur _ hi).1
      have hal : lastAlh alh0 (s.tx.durable.take (nCl s c)) = (s.tx.durable[nCl s c - 1]).alh := by
        have := lastAlh_take_succ alh0 s.tx.durable (nCl s c - 1) hi
        rwa [show nCl s c - 1 + 1 = nCl s c by omega] at this
      simp [hok, ent, hal]
  rw [hck]

end ImmuModel.Store.Crash

namespace ImmuModel.Store.Crash

/-! ### the invariant is preserved by every micro-step of the code's protocol -/

theorem take_append_drop_take {α : Type} (l : List α) (a b : Nat) (h : a ≤ b) :
    l.take a ++ (l.drop a).take (b - a) = l.take b := by
  have : b = a + (b - a) := by omega
  rw [this, List.take_add]
  simp

theorem inv_valAppend (s : St) (h : Inv s) :
    Inv { s with vl := s.vl.append true, pendingVal := some s.vl.len } := by
  exact { h with pc_ok := by have := h.pc_ok; unfold PcOk at *; exact this }

theorem inv_autoSync_vl (s : St) (h : Inv s) : Inv { s with vl := s.vl.sync } := by
  exact { h with pc_ok := by have := h.pc_ok; unfold PcOk at *; exact this }

theorem inv_syncBegin (s : St) (h : Inv s) (hp : s.pc = .idle) : Inv { s with vl := s.vl.sync, pc := .vlogSynced } := by
  have := h.pc_ok
  unfold PcOk at this
  rw [hp] at this
  exact { h with pc_ok := by unfold PcOk; exact this }

theorem inv_autoSync_tx (s : St) (h : Inv s) : Inv { s with tx := s.tx.sync } := by
  have hd : s.tx.sync.durable = s.tx.durable ++ s.tx.volatile := rfl
  have hlen : s.tx.durable.length ≤ s.tx.sync.durable.length := by simp [hd]
  have htake : ∀ k, k ≤ s.tx.durable.length → s.tx.sync.durable.take k = s.tx.durable.take k := by
    intro k hk; rw [hd, List.take_append_of_le_length hk]
  refine { chain := ?_, pre_eq := ?_, preAlh_eq := ?_, cl_le := ?_, cl_eq := ?_, cl_stale := h.cl_stale,
           committed_le := h.committed_le, acked_le := h.acked_le, ackLog_eq := ?_, allow_ok := h.allow_ok,
           ever_ok := ?_, pc_ok := ?_ }
  · simpa [Log.sync_content] using h.chain
  · simpa [Log.sync_len] using h.pre_eq
  · simpa [Log.sync_content] using h.preAlh_eq
  · exact Nat.le_trans h.cl_le hlen
  · show s.cl.content = _
    rw [htake _ h.cl_le]; exact h.cl_eq
  · show s.ackLog = _
    have : s.acked ≤ s.tx.durable.length := by
      have := h.acked_le; have := h.committed_le; have := h.cl_le
      unfold Log.len at *; omega
    rw [htake _ this]; exact h.ackLog_eq
  · intro r hr hok
    apply h.ever_ok r _ hok
    simp only [Log.sync, List.append_nil, List.mem_append] at hr ⊢
    rcases hr with (h1 | h1) | h1
    · exact Or.inl (Or.inl h1)
    · exact Or.inl (Or.inr h1)
    · exact Or.inr (List.mem_of_mem_drop h1)
  · have := h.pc_ok
    unfold PcOk at *
    cases hpc : s.pc <;> simp only [hpc] at this ⊢
    · exact this
    · exact this
    · exact ⟨this.1, this.2.1, Nat.le_trans this.2.2.1 hlen, this.2.2.2⟩
    · exact ⟨this.1, this.2.1, Nat.le_trans this.2.2.1 hlen, this.2.2.2⟩
    · exact ⟨this.1, this.2.1, Nat.le_trans this.2.2.1 hlen, this.2.2.2⟩
    · exact ⟨this.1, this.2.1, this.2.2.1, Nat.le_trans this.2.2.2.1 hlen, this.2.2.2.2⟩

theorem inv_autoSync_cl (s : St) (h : Inv s) : Inv { s with cl := s.cl.sync } := by
  refine { chain := h.chain, pre_eq := h.pre_eq, preAlh_eq := h.preAlh_eq, cl_le := ?_, cl_eq := ?_, cl_stale := ?_,
           committed_le := ?_, acked_le := h.acked_le, ackLog_eq := h.ackLog_eq, allow_ok := h.allow_ok,
           ever_ok := h.ever_ok, pc_ok := ?_ }
  · simpa [Log.sync_len] using h.cl_le
  · simpa [Log.sync_len, Log.sync_content] using h.cl_eq
  · obtain ⟨h1, h2⟩ := h.cl_stale
    constructor
    · simp only [Log.sync, List.length_drop]; omega
    · intro e he; exact h2 e (List.mem_of_mem_drop he)
  · have := h.committed_le
    simp only [Log.sync, List.length_append]; omega
  · have := h.pc_ok
    unfold PcOk at *
    cases hpc : s.pc <;> simp only [hpc, Log.sync_len] at this ⊢ <;> try exact this
    exact ⟨this.1, rfl, this.2.2⟩

theorem inv_txAppend (s : St) (h : Inv s) (body v : Nat) (hp : s.pc = .idle) :
    Inv { s with tx := s.tx.append { id := s.pre + 1, prevAlh := s.preAlh, body := body, vpos := v },
                 pre := s.pre + 1,
                 preAlh := Rec.alh { id := s.pre + 1, prevAlh := s.preAlh, body := body, vpos := v },
                 pendingVal := none,
                 ever := s.ever ++ [{ id := s.pre + 1, prevAlh := s.preAlh, body := body, vpos := v }] } := by
  let r : Rec := { id := s.pre + 1, prevAlh := s.preAlh, body := body, vpos := v }
  have hc : (s.tx.append r).content = s.tx.content ++ [r] := Log.append_content _ _
  have hpre : s.pre = s.tx.content.length := by rw [Log.content_length]; exact h.pre_eq
  refine { chain := ?_, pre_eq := ?_, preAlh_eq := ?_, cl_le := h.cl_le, cl_eq := h.cl_eq, cl_stale := h.cl_stale,
           committed_le := h.committed_le, acked_le := h.acked_le, ackLog_eq := h.ackLog_eq, allow_ok := ?_,
           ever_ok := ?_, pc_ok := ?_ }
  · show scan 0 alh0 (s.tx.append r).content = (s.tx.append r).content
    rw [hc, scan_append _ h.chain]
    congr 1
    have : r.ok = true ∧ r.id = 0 + s.tx.content.length + 1 ∧ r.prevAlh = lastAlh alh0 s.tx.content := by
      refine ⟨rfl, ?_, h.preAlh_eq⟩
      show s.pre + 1 = _
      omega
    simp [scan, this]
  · show s.pre + 1 = (s.tx.append r).len
    have := h.pre_eq
    simp [Log.append, Log.len] at *; omega
  · show r.alh = lastAlh alh0 (s.tx.append r).content
    rw [hc, lastAlh_append]; simp [lastAlh]
  · intro a ha
    have := h.allow_ok a ha
    exact ⟨this.1, by show a ≤ s.pre + 1; omega⟩
  · intro x hx hok
    simp only [Log.append, List.mem_append, List.mem_singleton] at hx
    simp only [List.mem_append, List.mem_singleton]
    rcases hx with (h1 | h1 | h1) | h1
    · exact Or.inl (h.ever_ok x (by simp [h1]) hok)
    · exact Or.inl (h.ever_ok x (by simp [h1]) hok)
    · exact Or.inr h1
    · exact Or.inl (h.ever_ok x (by simp [h1]) hok)
  · have := h.pc_ok
    unfold PcOk at *
    simp only [hp] at this ⊢
    exact this

end ImmuModel.Store.Crash

namespace ImmuModel.Store.Crash

theorem target_le_pre (s : St) (h : Inv s) : s.committed ≤ s.target ∧ s.target ≤ s.pre ∧ (∀ a, s.allow = some a → s.target ≤ a) := by
  unfold St.target
  cases ha : s.allow with
  | none =>
    have h1 := h.committed_le; have h2 := h.cl_le; have h3 := h.pre_eq
    unfold Log.len at *
    dsimp only
    refine ⟨by omega, Nat.le_refl _, by simp⟩
  | some a =>
    have := h.allow_ok a ha
    exact ⟨this.1, this.2, by intro b hb; cases hb; exact Nat.le_refl _⟩

theorem inv_syncTx (s : St) (h : Inv s) (hp : s.pc = .vlogSynced) :
    Inv { s with tx := s.tx.sync, pc := if s.target - s.committed = 0 then .idle else .txSynced s.target } := by
  have hs := inv_autoSync_tx s h
  have hpc := h.pc_ok
  unfold PcOk at hpc
  rw [hp] at hpc
  obtain ⟨t1, t2, t3⟩ := target_le_pre s h
  refine { hs with pc_ok := ?_ }
  unfold PcOk
  by_cases h0 : s.target - s.committed = 0
  · simp only [h0, if_true]; exact hpc
  · simp only [h0, if_false]
    refine ⟨hpc, by omega, ?_, t3⟩
    show s.target ≤ (s.tx.durable ++ s.tx.volatile).length
    have := h.pre_eq
    unfold Log.len at this
    simp only [List.length_append]; omega

theorem inv_clSetOffset (s : St) (h : Inv s) (t : Nat) (hp : s.pc = .txSynced t) :
    ∃ c, s.cl.setOffset s.committed = some c ∧ Inv { s with cl := c, pc := .clOffset t } := by
  have hpc := h.pc_ok
  unfold PcOk at hpc
  rw [hp] at hpc
  refine ⟨s.cl, ?_, ?_⟩
  · rw [← hpc.1]; exact Log.setOffset_len _
  · exact { h with pc_ok := by unfold PcOk; exact hpc }

theorem newEntries_eq (s : St) (t : Nat) (ht : t ≤ s.tx.durable.length) :
    s.newEntries t = ((s.tx.durable.drop s.committed).take (t - s.committed)).map ent := by
  unfold St.newEntries Log.content
  by_cases hc : s.committed ≤ s.tx.durable.length
  · rw [List.drop_append_of_le_length hc, List.take_append_of_le_length]
    simp only [List.length_drop]; omega
  · have : t - s.committed = 0 := by omega
    simp [this]

theorem inv_clAppend (s : St) (h : Inv s) (t : Nat) (hp : s.pc = .clOffset t) :
    Inv { s with cl := s.cl.appendAll (s.newEntries t), pc := .clAppended t } := by
  have hpc := h.pc_ok
  unfold PcOk at hpc
  rw [hp] at hpc
  obtain ⟨p1, p2, p3, p4⟩ := hpc
  have hne := newEntries_eq s t p3
  have hnl : (s.newEntries t).length = t - s.committed := by
    rw [hne]; simp only [List.length_map, List.length_take, List.length_drop]; omega
  have hlen : (s.cl.appendAll (s.newEntries t)).len = t := by
    unfold Log.appendAll Log.len at *
    simp only [List.length_append, hnl]; omega
  refine { chain := h.chain, pre_eq := h.pre_eq, preAlh_eq := h.preAlh_eq, cl_le := ?_, cl_eq := ?_, cl_stale := h.cl_stale,
           committed_le := h.committed_le, acked_le := h.acked_le, ackLog_eq := h.ackLog_eq, allow_ok := h.allow_ok,
           ever_ok := h.ever_ok, pc_ok := ?_ }
  · show (s.cl.appendAll (s.newEntries t)).len ≤ _
    rw [hlen]; exact p3
  · show (s.cl.appendAll (s.newEntries t)).content = (s.tx.durable.take (s.cl.appendAll (s.newEntries t)).len).map ent
    rw [hlen]
    have : (s.cl.appendAll (s.newEntries t)).content = s.cl.content ++ s.newEntries t := by
      simp [Log.appendAll, Log.content]
    rw [this, h.cl_eq, p1, hne, ← List.map_append, take_append_drop_take _ _ _ (by omega)]
  · unfold PcOk
    show (s.cl.appendAll (s.newEntries t)).len = t ∧ _
    exact ⟨hlen, Nat.le_of_lt p2, p3, p4⟩

theorem inv_clSync (s : St) (h : Inv s) (t : Nat) (hp : s.pc = .clAppended t) :
    Inv { s with cl := s.cl.sync, pc := .clSynced t } := by
  have hs := inv_autoSync_cl s h
  have hpc := h.pc_ok
  unfold PcOk at hpc
  rw [hp] at hpc
  refine { hs with pc_ok := ?_ }
  unfold PcOk
  show s.cl.sync.len = t ∧ s.cl.sync.volatile = [] ∧ _
  rw [Log.sync_len]
  exact ⟨hpc.1, rfl, hpc.2⟩

theorem inv_ack (s : St) (h : Inv s) (t : Nat) (hp : s.pc = .clSynced t) : Inv (doAck s t) := by
  have hpc := h.pc_ok
  unfold PcOk at hpc
  rw [hp] at hpc
  obtain ⟨p1, p2, p3, p4, p5⟩ := hpc
  have hdl : s.cl.durable.length = t := by
    unfold Log.len at p1; rw [p2] at p1; simpa using p1
  have hacked : s.acked ≤ t := Nat.le_trans h.acked_le p3
  have hmax : max s.acked t = t := Nat.max_eq_right hacked
  have hal : s.ackLog.length = s.acked := by
    rw [h.ackLog_eq, List.length_take]; omega
  unfold doAck
  refine { chain := h.chain, pre_eq := h.pre_eq, preAlh_eq := h.preAlh_eq, cl_le := h.cl_le, cl_eq := h.cl_eq, cl_stale := h.cl_stale,
           committed_le := ?_, acked_le := ?_, ackLog_eq := ?_, allow_ok := ?_,
           ever_ok := h.ever_ok, pc_ok := ?_ }
  · show t ≤ s.cl.durable.length; omega
  · show max s.acked t ≤ t; omega
  · show s.ackLog ++ (s.tx.content.drop s.ackLog.length).take (t - s.ackLog.length) = s.tx.durable.take (max s.acked t)
    rw [hmax, hal, h.ackLog_eq]
    unfold Log.content
    rw [List.drop_append_of_le_length (by omega), List.take_append_of_le_length (by simp only [List.length_drop]; omega)]
    exact take_append_drop_take _ _ _ hacked
  · intro a ha
    have := h.allow_ok a ha
    exact ⟨p5 a ha, this.2⟩
  · unfold PcOk
    exact p1

theorem inv_allowUpto (s : St) (h : Inv s) (n a : Nat) (hp : s.pc = .idle) (ha : s.allow = some a) (hn : ¬ n ≤ a) :
    Inv { s with allow := some (min n s.pre) } := by
  have hpc := h.pc_ok
  have hao := h.allow_ok a ha
  refine { h with allow_ok := ?_, pc_ok := ?_ }
  · intro b hb
    have : b = min n s.pre := by cases hb; rfl
    subst this
    show s.committed ≤ min n s.pre ∧ min n s.pre ≤ s.pre
    exact ⟨by omega, by omega⟩
  · unfold PcOk at *
    simp only [hp] at hpc ⊢
    exact hpc

end ImmuModel.Store.Crash

namespace ImmuModel.Store.Crash

theorem inv_step (s s' : St) (st : Step) (h : Inv s) (e : step .code s st = some s') : Inv s' := by
  cases st with
  | valAppend =>
    simp only [step] at e
    split at e
    · simp at e
    · simp only [Option.some.injEq] at e; subst e; exact inv_valAppend s h
  | txAppend body =>
    simp only [step] at e
    split at e
    · rename_i v hp hv
      have hso : s.tx.setOffset s.pre = some s.tx := by rw [h.pre_eq]; exact Log.setOffset_len _
      rw [hso] at e
      simp only [Option.some.injEq] at e; subst e
      exact inv_txAppend s h body v hp
    · simp at e
  | syncBegin =>
    simp only [step] at e
    split at e
    · rename_i hp
      split at e
      · simp at e
      · simp only [Option.some.injEq] at e; subst e; exact inv_syncBegin s h hp
    · simp at e
  | syncTx =>
    cases hp : s.pc <;> simp only [step, hp] at e <;> try (cases e; done)
    simp only [Option.some.injEq] at e; subst e; exact inv_syncTx s h hp
  | clSetOffset =>
    cases hp : s.pc <;> simp only [step, hp] at e <;> try (cases e; done)
    rename_i t
    obtain ⟨c, hc, hi⟩ := inv_clSetOffset s h t hp
    rw [hc] at e
    simp only [Option.map_some, Option.some.injEq] at e; subst e; exact hi
  | clAppend =>
    cases hp : s.pc <;> simp only [step, hp] at e <;> try (cases e; done)
    rename_i t
    simp only [Option.some.injEq] at e; subst e; exact inv_clAppend s h t hp
  | clSync =>
    cases hp : s.pc <;> simp only [step, hp] at e <;> try (cases e; done)
    rename_i t
    simp only [Option.some.injEq] at e; subst e; exact inv_clSync s h t hp
  | ack =>
    cases hp : s.pc <;> simp only [step, hp] at e <;> try (cases e; done)
    rename_i t
    simp only [Option.some.injEq] at e; subst e; exact inv_ack s h t hp
  | allowUpto n =>
    simp only [step] at e
    split at e
    · rename_i a hp ha
      split at e
      · simp only [Option.some.injEq] at e; subst e; exact h
      · rename_i hn
        simp only [Option.some.injEq] at e; subst e; exact inv_allowUpto s h n a hp ha hn
    · simp at e
  | autoSync w =>
    cases w with
    | vl => simp only [step] at e; simp only [Option.some.injEq] at e; subst e; exact inv_autoSync_vl s h
    | tx => simp only [step] at e; simp only [Option.some.injEq] at e; subst e; exact inv_autoSync_tx s h
    | cl => simp only [step] at e; simp only [Option.some.injEq] at e; subst e; exact inv_autoSync_cl s h

end ImmuModel.Store.Crash

namespace ImmuModel.Store.Crash

/-! ### what recovery returns, and the invariant across crash + restart -/

theorem take_append_len {α : Type} (A T : List α) (n : Nat) (h : A.length = n) : (A ++ T).take n = A := by
  subst h; simp

theorem drop_append_len {α : Type} (A T : List α) (n : Nat) (h : A.length = n) : (A ++ T).drop n = T := by
  subst h; simp

/-- the precommitted txs re-loaded by recovery from the image -/
def accepted (s : St) (c : Choice) : List Rec :=
  reload s.embedded (nCl s c) (lastAlh alh0 (s.tx.durable.take (nCl s c))) ((crashImage s c).tx.drop (nCl s c))

theorem nCl_le_durable (s : St) (h : Inv s) (c : Choice) : nCl s c ≤ s.tx.durable.length :=
  Nat.le_trans (nCl_le s c) h.cl_le

theorem durable_valid (s : St) (h : Inv s) : scan 0 alh0 s.tx.durable = s.tx.durable := by
  have := scan_take s.tx.durable.length h.chain
  simpa [Log.content] using this

theorem img_take (s : St) (h : Inv s) (c : Choice) :
    (crashImage s c).tx.take (nCl s c + (accepted s c).length) = s.tx.durable.take (nCl s c) ++ accepted s c := by
  obtain ⟨rest, eimg, _⟩ := image_tx_eq s.tx c.kt c.tt
  have etx : (crashImage s c).tx = s.tx.durable ++ rest := eimg
  rw [List.take_add]
  congr 1
  · rw [etx, List.take_append_of_le_length (nCl_le_durable s h c)]
  · unfold accepted; exact (reload_prefix _ _ _ _).symm

theorem recovered_valid (s : St) (h : Inv s) (c : Choice) :
    scan 0 alh0 (s.tx.durable.take (nCl s c) ++ accepted s c) = s.tx.durable.take (nCl s c) ++ accepted s c := by
  have hv := scan_take (nCl s c) (durable_valid s h)
  rw [scan_append _ hv]
  congr 1
  have : (s.tx.durable.take (nCl s c)).length = nCl s c := by
    rw [List.length_take]; have := nCl_le_durable s h c; omega
  rw [this, Nat.zero_add]
  unfold accepted
  exact reload_valid _ _ _ _

theorem img_cl_take (s : St) (h : Inv s) (c : Choice) :
    (crashImage s c).cl.take (nCl s c) = (s.tx.durable.take (nCl s c)).map ent ∧
    ((crashImage s c).cl.drop (nCl s c)).length ≤ 1 ∧ ∀ e ∈ (crashImage s c).cl.drop (nCl s c), e.ok = false := by
  obtain ⟨ec, el⟩ := cl_trim_eq s h c
  have e1 : trimPartial (crashImage s c).cl = s.cl.durable ++ s.cl.volatile.take c.kc := image_cl_trim s h c.kc c.tc
  have hlen : (s.cl.durable ++ s.cl.volatile.take c.kc).length = nCl s c := by rw [← e1]; exact el
  have himg : (crashImage s c).cl = (s.cl.durable ++ s.cl.volatile.take c.kc) ++
      (Log.tornCell CEnt.torn s.cl c.kc c.tc ++ s.cl.stale.drop ((s.cl.volatile.take c.kc).length + (Log.tornCell CEnt.torn s.cl c.kc c.tc).length)) := by
    simp [crashImage, Log.image]
  have htail := tail_cl s.cl c.kc (s.cl.volatile.take c.kc).length c.tc h.cl_stale
  refine ⟨?_, ?_, ?_⟩
  · rw [himg, take_append_len _ _ _ hlen, ← e1, ec]
  · rw [himg, drop_append_len _ _ _ hlen]
    rcases htail with ht | ⟨e, ht, _⟩
    · have ht' : Log.tornCell CEnt.torn s.cl c.kc c.tc ++ s.cl.stale.drop ((s.cl.volatile.take c.kc).length + (Log.tornCell CEnt.torn s.cl c.kc c.tc).length) = [] := ht
      rw [ht']; simp
    · have ht' : Log.tornCell CEnt.torn s.cl c.kc c.tc ++ s.cl.stale.drop ((s.cl.volatile.take c.kc).length + (Log.tornCell CEnt.torn s.cl c.kc c.tc).length) = [e] := ht
      rw [ht']; simp
  · rw [himg, drop_append_len _ _ _ hlen]
    rcases htail with ht | ⟨e, ht, he⟩
    · have ht' : Log.tornCell CEnt.torn s.cl c.kc c.tc ++ s.cl.stale.drop ((s.cl.volatile.take c.kc).length + (Log.tornCell CEnt.torn s.cl c.kc c.tc).length) = [] := ht
      rw [ht']; simp
    · have ht' : Log.tornCell CEnt.torn s.cl c.kc c.tc ++ s.cl.stale.drop ((s.cl.volatile.take c.kc).length + (Log.tornCell CEnt.torn s.cl c.kc c.tc).length) = [e] := ht
      rw [ht']
      intro x hx; simp at hx; subst hx; exact he

theorem inv_ofRecovered (s : St) (h : Inv s) (c : Choice) :
    Inv (ofRecovered s (recoverWith (crashImage s c) (nCl s c) (lastAlh alh0 (s.tx.durable.take (nCl s c))))) := by
  have hn := nCl_le_durable s h c
  have htake := img_take s h c
  have hacc : reload (crashImage s c).embedded (nCl s c) (lastAlh alh0 (s.tx.durable.take (nCl s c))) ((crashImage s c).tx.drop (nCl s c)) = accepted s c := rfl
  obtain ⟨hc1, hc2, hc3⟩ := img_cl_take s h c
  have hDn : (s.tx.durable.take (nCl s c)).length = nCl s c := by rw [List.length_take]; omega
  have hackn : s.acked ≤ nCl s c := by
    have := h.acked_le; have := h.committed_le; unfold nCl; omega
  unfold ofRecovered recoverWith
  simp only [hacc]
  refine { chain := ?_, pre_eq := ?_, preAlh_eq := ?_, cl_le := ?_, cl_eq := ?_, cl_stale := ?_,
           committed_le := ?_, acked_le := ?_, ackLog_eq := ?_, allow_ok := ?_, ever_ok := ?_, pc_ok := ?_ }
  · show scan 0 alh0 (Log.ofDisk _ _).content = (Log.ofDisk _ _).content
    simp only [Log.ofDisk, Log.content, List.append_nil, htake]
    exact recovered_valid s h c
  · show nCl s c + (accepted s c).length = (Log.ofDisk _ _).len
    simp only [Log.ofDisk, Log.len, htake, List.length_append, hDn, List.length_nil, Nat.add_zero]
  · show lastAlh _ (accepted s c) = lastAlh alh0 (Log.ofDisk _ _).content
    simp only [Log.ofDisk, Log.content, List.append_nil, htake, lastAlh_append]
  · show (Log.ofDisk _ _).len ≤ (Log.ofDisk _ _).durable.length
    simp only [Log.ofDisk, Log.len, htake, hc1, List.length_append, hDn, List.length_nil, List.length_map]
    omega
  · show (Log.ofDisk _ _).content = ((Log.ofDisk _ _).durable.take (Log.ofDisk _ _).len).map ent
    simp only [Log.ofDisk, Log.content, Log.len, htake, hc1, List.append_nil, List.length_map, hDn, List.length_nil, Nat.add_zero]
    rw [take_append_len _ _ _ hDn]
  · exact ⟨hc2, hc3⟩
  · show nCl s c ≤ (Log.ofDisk _ _).durable.length
    simp only [Log.ofDisk, hc1, List.length_map, hDn]; omega
  · exact hackn
  · show s.ackLog = (Log.ofDisk _ _).durable.take s.acked
    simp only [Log.ofDisk, htake]
    rw [List.take_append_of_le_length (by omega), List.take_take, Nat.min_eq_left hackn]
    exact h.ackLog_eq
  · intro a ha
    cases hs : s.allow with
    | none => simp [hs] at ha
    | some b =>
      simp only [hs, Option.map_some, Option.some.injEq] at ha
      subst ha
      exact ⟨Nat.le_refl _, Nat.le_add_right _ _⟩
  · intro r hr hok
    have hmem : r ∈ (crashImage s c).tx := by
      simp only [Log.ofDisk, List.append_nil] at hr
      rw [List.take_append_drop] at hr; exact hr
    obtain ⟨rest, eimg, hrest⟩ := image_tx_eq s.tx c.kt c.tt
    have etx : (crashImage s c).tx = s.tx.durable ++ rest := eimg
    rw [etx] at hmem
    apply h.ever_ok r _ hok
    rcases List.mem_append.mp hmem with h1 | h1
    · simp [h1]
    · rcases hrest r h1 hok with h2 | h2 <;> simp [h2]
  · unfold PcOk
    show (Log.ofDisk _ _).len = nCl s c
    simp only [Log.ofDisk, Log.len, hc1, List.length_map, hDn, List.length_nil, Nat.add_zero]

theorem inv_restart (s s' : St) (c : Choice) (h : Inv s) (e : restart s c = .ok s') : Inv s' := by
  unfold restart at e
  rw [recover_ok s h c] at e
  simp only [Except.map] at e
  cases e
  exact inv_ofRecovered s h c

theorem inv_reach {allow : Option Nat} (ha : ∀ a, allow = some a → a = 0) {s : St} (hr : Reach .code allow s) : Inv s := by
  induction hr with
  | init emb => exact inv_init allow emb ha
  | step st _ e ih => exact inv_step _ _ st ih e
  | restart c _ e ih => exact inv_restart _ _ c ih e

end ImmuModel.Store.Crash

namespace ImmuModel.Store.Crash

/-! ### consequences used by the property theorems -/

theorem scan_stop (a : Nat) (b : Alh) (xs ys : List Rec) (t : Rec) (ht : t.ok = false) :
    scan a b (xs ++ t :: ys) = scan a b xs := by
  induction xs generalizing a b with
  | nil => simp [scan, ht]
  | cons r rs ih =>
    by_cases c : r.ok = true ∧ r.id = a + 1 ∧ r.prevAlh = b
    · simp [scan, c, ih]
    · simp only [List.cons_append, scan, c]; simp

theorem image_ofDisk {α : Type} (mk : α → α) (cells : List α) (n k : Nat) (t : Bool) :
    (Log.ofDisk cells n).image mk k t = cells := by
  unfold Log.image Log.tornCell Log.ofDisk
  cases t <;> simp

/-- recovery only moves logical ends: the disk after a (possibly interrupted) recovery is the image itself -/
theorem crashImage_ofRecovered (s : St) (img : Image) (n : Nat) (a : Alh) (c' : Choice) (he : img.embedded = s.embedded) :
    crashImage (ofRecovered s (recoverWith img n a)) c' = img := by
  unfold crashImage ofRecovered recoverWith
  simp only [image_ofDisk, ← he]

/-- what recovery returns for a state satisfying the invariant -/
theorem recovered_eq (s : St) (h : Inv s) (c : Choice) (r : Recovered) (e : recover (crashImage s c) = .ok r) :
    r = recoverWith (crashImage s c) (nCl s c) (lastAlh alh0 (s.tx.durable.take (nCl s c))) := by
  rw [recover_ok s h c] at e
  cases e; rfl

theorem recovered_durable (s : St) (h : Inv s) (c : Choice) (r : Recovered) (e : recover (crashImage s c) = .ok r) :
    r.committed = nCl s c ∧ r.tx.durable = s.tx.durable.take (nCl s c) ++ accepted s c ∧
    r.pre = nCl s c + (accepted s c).length ∧
    r.committedAlh = lastAlh alh0 (s.tx.durable.take (nCl s c)) ∧
    r.preAlh = lastAlh (lastAlh alh0 (s.tx.durable.take (nCl s c))) (accepted s c) := by
  have := recovered_eq s h c r e
  subst this
  refine ⟨rfl, ?_, rfl, rfl, rfl⟩
  show (Log.ofDisk _ _).durable = _
  simp only [Log.ofDisk]
  exact img_take s h c

theorem accepted_prefix_nostale (s : St) (c : Choice) (hs : s.tx.stale = []) (hn : nCl s c ≤ s.tx.durable.length) :
    ∃ t, s.tx.durable.take (nCl s c) ++ accepted s c ++ t = s.tx.content := by
  -- the image is durable ++ surviving volatile cells ++ (torn cell)?
  let P := s.tx.durable.drop (nCl s c) ++ s.tx.volatile.take c.kt
  have hdrop : ∃ tl, (crashImage s c).tx.drop (nCl s c) = P ++ tl ∧ (tl = [] ∨ ∃ x, tl = [x] ∧ x.ok = false) := by
    refine ⟨Log.tornCell Rec.torn s.tx c.kt c.tt, ?_, ?_⟩
    · simp only [crashImage, Log.image, hs, List.drop_nil, List.append_nil, P]
      rw [List.append_assoc, List.append_assoc, List.drop_append_of_le_length hn]
    · unfold Log.tornCell
      cases c.tt with
      | false => simp
      | true =>
        cases hh : (s.tx.volatile.drop c.kt).head? with
        | none => simp
        | some x => right; exact ⟨x.torn, by simp, by simp [Rec.torn]⟩
  obtain ⟨tl, e1, htl⟩ := hdrop
  have hacc : accepted s c = reload s.embedded (nCl s c) (lastAlh alh0 (s.tx.durable.take (nCl s c))) P := by
    unfold accepted
    rw [e1]
    rcases htl with rfl | ⟨x, rfl, hx⟩
    · simp
    · unfold reload
      cases s.embedded
      · simpa using scan_stop _ _ _ _ _ hx
      · simp
  refine ⟨P.drop (accepted s c).length ++ s.tx.volatile.drop c.kt, ?_⟩
  have hp : accepted s c = P.take (accepted s c).length := by
    conv => lhs; rw [hacc, reload_prefix]
    rw [← hacc]
  calc s.tx.durable.take (nCl s c) ++ accepted s c ++ (P.drop (accepted s c).length ++ s.tx.volatile.drop c.kt)
      = s.tx.durable.take (nCl s c) ++ (P.take (accepted s c).length ++ P.drop (accepted s c).length) ++ s.tx.volatile.drop c.kt := by
        rw [← hp]; simp [List.append_assoc]
    _ = s.tx.durable.take (nCl s c) ++ P ++ s.tx.volatile.drop c.kt := by rw [List.take_append_drop]
    _ = s.tx.content := by
        simp only [P, Log.content]
        rw [← List.append_assoc (s.tx.durable.take (nCl s c)), List.take_append_drop, List.append_assoc, List.take_append_drop]

theorem reach_run {p : Proto} {allow : Option Nat} {s s' : St} (steps : List Step)
    (hr : Reach p allow s) (e : run p s steps = some s') : Reach p allow s' := by
  induction steps generalizing s with
  | nil => simp [run] at e; subst e; exact hr
  | cons st rest ih =>
    simp only [run] at e
    cases hs : step p s st with
    | none => simp [hs] at e
    | some s1 =>
      simp only [hs, Option.bind_some] at e
      exact ih (Reach.step st hr hs) e

end ImmuModel.Store.Crash
