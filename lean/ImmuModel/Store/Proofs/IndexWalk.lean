import ImmuModel.Store.IndexRecover

namespace ImmuModel.Store.IndexRecover.WalkAux
open ImmuModel.Store.IndexRecover

/-- loop invariant of the walk: `m` entries not yet visited, candidate `c` -/
structure Inv (es : List Ent) (m c : Nat) : Prop where
  noAnchor : ∀ j e, m ≤ j → es[j]? = some e → ¬(e.valid = true ∧ e.synced = true)
  reset : c = 0 → ∀ e, es[m]? = some e → e.valid = false
  cand : c ≠ 0 → m < c ∧ c ≤ es.length ∧ (∀ i e, m ≤ i → i < c → es[i]? = some e → e.valid = true) ∧
      (∀ e, es[c]? = some e → e.valid = false)

/-- what the walk guarantees about its result `r` -/
structure Post (es : List Ent) (r : Nat) : Prop where
  le : r ≤ es.length
  anchorKept : ∀ j e, es[j]? = some e → e.valid = true → e.synced = true → j < r
  valid : ∀ i e, i < r → es[i]? = some e →
      (∀ j e', i < j → es[j]? = some e' → ¬(e'.valid = true ∧ e'.synced = true)) → e.valid = true
  maximal : ∀ e, es[r]? = some e → e.valid = false

theorem walkAux_post (rev hi : List Ent) (c : Nat) (h : Inv (rev.reverse ++ hi) rev.length c) :
    Post (rev.reverse ++ hi) (walkAux rev rev.length c) := by
  induction rev generalizing hi c with
  | nil =>
    simp only [walkAux]
    by_cases hc : c = 0
    · subst hc
      refine ⟨Nat.zero_le _, ?_, ?_, ?_⟩
      · intro j e hj hv hs
        exact absurd ⟨hv, hs⟩ (h.noAnchor j e (Nat.zero_le _) hj)
      · intro i e hi; omega
      · intro e he; exact h.reset rfl e he
    · obtain ⟨_, h2, h3, h4⟩ := h.cand hc
      refine ⟨h2, ?_, ?_, h4⟩
      · intro j e hj hv hs
        exact absurd ⟨hv, hs⟩ (h.noAnchor j e (Nat.zero_le _) hj)
      · intro i e hi he _
        exact h3 i e (Nat.zero_le _) hi he
  | cons e rest ih =>
    have hes : (e :: rest).reverse ++ hi = rest.reverse ++ (e :: hi) := by simp
    have hlen : (e :: rest).length = rest.length + 1 := rfl
    have hget : (rest.reverse ++ (e :: hi))[rest.length]? = some e := by
      rw [List.getElem?_append_right (by simp)]; simp
    rw [hes] at h ⊢
    rw [hlen] at h ⊢
    simp only [walkAux]
    by_cases hvs : (e.valid && e.synced) = true
    · -- the walk stops here
      simp only [hvs, if_true]
      have hv : e.valid = true := by
        cases hv : e.valid <;> simp [hv] at hvs ⊢
      have hs : e.synced = true := by
        cases hs : e.synced <;> simp [hs] at hvs ⊢
      simp only [hv, if_true]
      have below : ∀ i e0, i < rest.length → (rest.reverse ++ (e :: hi))[i]? = some e0 →
          (∀ j e', i < j → (rest.reverse ++ (e :: hi))[j]? = some e' → ¬(e'.valid = true ∧ e'.synced = true)) → e0.valid = true := by
        intro i e0 hi' _ hno
        exact absurd ⟨hv, hs⟩ (hno rest.length e hi' hget)
      by_cases hc : c = 0
      · simp only [hc, if_true]
        refine ⟨?_, ?_, ?_, ?_⟩
        · simp
        · intro j e0 hj hv0 hs0
          by_cases hjm : rest.length + 1 ≤ j
          · exact absurd ⟨hv0, hs0⟩ (h.noAnchor j e0 hjm hj)
          · omega
        · intro i e0 hi' he0 hno
          by_cases hlt : i < rest.length
          · exact below i e0 hlt he0 hno
          · have : i = rest.length := by omega
            subst this
            rw [hget] at he0; cases he0; exact hv
        · intro e0 he0; exact h.reset hc e0 he0
      · simp only [hc, if_false]
        obtain ⟨h1, h2, h3, h4⟩ := h.cand hc
        refine ⟨h2, ?_, ?_, h4⟩
        · intro j e0 hj hv0 hs0
          by_cases hjm : rest.length + 1 ≤ j
          · exact absurd ⟨hv0, hs0⟩ (h.noAnchor j e0 hjm hj)
          · omega
        · intro i e0 hi' he0 hno
          by_cases hlt : i < rest.length
          · exact below i e0 hlt he0 hno
          · by_cases heq : i = rest.length
            · subst heq; rw [hget] at he0; cases he0; exact hv
            · exact h3 i e0 (by omega) hi' he0
    · -- the walk goes on
      have hvs' : (e.valid && e.synced) = false := by
        cases hh : (e.valid && e.synced) <;> simp [hh] at hvs ⊢
      simp only [hvs', Bool.false_eq_true, if_false, Nat.add_sub_cancel]
      apply ih
      by_cases hv : e.valid = true
      · simp only [hv, if_true]
        by_cases hc : c = 0
        · simp only [hc, if_true]
          refine ⟨?_, ?_, ?_⟩
          · intro j e0 hj he0
            by_cases hjm : rest.length + 1 ≤ j
            · exact h.noAnchor j e0 hjm he0
            · have : j = rest.length := by omega
              subst this; rw [hget] at he0; cases he0
              intro ⟨a, b⟩; simp [a, b] at hvs'
          · intro h0; omega
          · intro _
            refine ⟨by omega, ?_, ?_, ?_⟩
            · simp
            · intro i e0 h1 h2 he0
              have : i = rest.length := by omega
              subst this; rw [hget] at he0; cases he0; exact hv
            · intro e0 he0; exact h.reset hc e0 he0
        · simp only [hc, if_false]
          obtain ⟨h1, h2, h3, h4⟩ := h.cand hc
          refine ⟨?_, ?_, ?_⟩
          · intro j e0 hj he0
            by_cases hjm : rest.length + 1 ≤ j
            · exact h.noAnchor j e0 hjm he0
            · have : j = rest.length := by omega
              subst this; rw [hget] at he0; cases he0
              intro ⟨a, b⟩; simp [a, b] at hvs'
          · intro h0; exact absurd h0 hc
          · intro _
            refine ⟨by omega, h2, ?_, h4⟩
            intro i e0 hi1 hi2 he0
            by_cases heq : i = rest.length
            · subst heq; rw [hget] at he0; cases he0; exact hv
            · exact h3 i e0 (by omega) hi2 he0
      · have hv' : e.valid = false := by cases hh : e.valid <;> simp [hh] at hv ⊢
        simp only [hv', Bool.false_eq_true, if_false]
        refine ⟨?_, ?_, ?_⟩
        · intro j e0 hj he0
          by_cases hjm : rest.length + 1 ≤ j
          · exact h.noAnchor j e0 hjm he0
          · have : j = rest.length := by omega
            subst this; rw [hget] at he0; cases he0
            intro ⟨a, _⟩; simp [a] at hv'
        · intro _ e0 he0
          rw [hget] at he0; cases he0; exact hv'
        · intro h0; exact absurd rfl h0

theorem walk_post (es : List Ent) : Post es (walk es) := by
  have := walkAux_post es.reverse [] 0 (by
    refine ⟨?_, ?_, ?_⟩
    · intro j e hj he
      simp only [List.reverse_reverse, List.append_nil, List.length_reverse] at hj he
      rw [List.getElem?_eq_none (by omega)] at he; cases he
    · intro _ e he
      simp only [List.reverse_reverse, List.append_nil, List.length_reverse] at he
      rw [List.getElem?_eq_none (by omega)] at he; cases he
    · intro h0; exact absurd rfl h0)
  simpa [walk] using this

end ImmuModel.Store.IndexRecover.WalkAux
