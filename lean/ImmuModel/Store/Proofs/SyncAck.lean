/-
C07 — the acknowledgement protocol (`Store/SyncRepl.lean`): what a replica reports as durably
precommitted (`Repl.durable`, the value sent in a fetch round) never exceeds what it holds
(`Repl.pre`), in every reachable state — in particular after a discard, which lowers `pre` and
has to lower the watermark with it.
-/
import ImmuModel.Store.Proofs.SyncProofs

namespace ImmuModel.SyncRepl.SyncAckAux
open ImmuModel.SyncRepl ImmuModel.SyncRepl.SyncProofsAux

def Held (s : Sys) : Prop := ∀ r ∈ s.repls, r.durable ≤ r.pre

theorem held_setAt {s : Sys} (h : Held s) (i : Nat) (r : Repl) (hr : r.durable ≤ r.pre) (p : Prim)
    (rs : List (String × Nat)) : Held { s with prim := p, reports := rs, repls := setAt s.repls i r } := by
  intro x hx
  rcases mem_setAt hx with hx | hx
  · rw [hx]; exact hr
  · exact h x hx

theorem allow_fields (r : Repl) (txID : Nat) : (r.allow txID).pre = r.pre ∧ (r.allow txID).durable = r.durable := by
  unfold Repl.allow
  split
  · exact ⟨rfl, rfl⟩
  · dsimp only
    split <;> exact ⟨rfl, rfl⟩

theorem allow_if_held (r1 : Repl) (may : Nat) (h : r1.durable ≤ r1.pre) :
    (if may > r1.committed then r1.allow may else r1).durable ≤ (if may > r1.committed then r1.allow may else r1).pre := by
  split
  · rw [(allow_fields _ may).1, (allow_fields _ may).2]; exact h
  · exact h

theorem sync_held (r : Repl) (h : r.durable ≤ r.pre) : r.sync.durable ≤ r.sync.pre := by
  unfold Repl.sync
  split
  · exact h
  · split
    · exact Nat.le_refl _
    · exact Nat.le_refl _

theorem held_step {s : Sys} (h : Held s) (e : Ev) : Held (s.step e) := by
  cases e with
  | pPrecommit => exact h
  | pCommit => exact h
  | rSync i =>
    simp only [Sys.step]
    cases hr : s.repls[i]? with
    | none => exact h
    | some r => exact held_setAt h i _ (sync_held r (h r (List.mem_of_getElem? hr))) s.prim s.reports
  | rDiscard i since =>
    simp only [Sys.step]
    cases hr : s.repls[i]? with
    | none => exact h
    | some r =>
      simp only []
      split
      · exact h
      · have hri := h r (List.mem_of_getElem? hr)
        apply held_setAt h i _ _ s.prim s.reports
        show (if r.durable > since - 1 then since - 1 else r.durable) ≤ since - 1
        split <;> omega
  | fetch i replicate =>
    simp only [Sys.step]
    cases hr : s.repls[i]? with
    | none => exact h
    | some r =>
      simp only []
      cases hm : s.prim.mayCommitFor r.committed r.durable with
      | none => exact h
      | some may =>
        simp only []
        have hri := h r (List.mem_of_getElem? hr)
        rcases hrep : s.prim.report r.uuid r.durable with ⟨p1, ok⟩
        simp only []
        have hbase : Held { s with prim := p1, reports := (r.uuid, r.durable) :: s.reports } := h
        split
        · exact hbase
        · apply held_setAt h i _ _ p1 ((r.uuid, r.durable) :: s.reports)
          have hr1 : (if replicate = true ∧ r.pre < p1.pre then
                (if r.synced = true then { r with pre := r.pre + 1 }
                 else { r with pre := r.pre + 1, durable := r.pre + 1 })
               else r).durable ≤
              (if replicate = true ∧ r.pre < p1.pre then
                (if r.synced = true then { r with pre := r.pre + 1 }
                 else { r with pre := r.pre + 1, durable := r.pre + 1 })
               else r).pre := by
            split
            · split
              · show r.durable ≤ r.pre + 1
                omega
              · exact Nat.le_refl _
            · exact hri
          exact allow_if_held _ may hr1

theorem held_run (evs : List Ev) {s : Sys} (h : Held s) : Held (s.run evs) := by
  induction evs generalizing s with
  | nil => exact h
  | cons e t ih => exact ih (held_step h e)

theorem held_init {s : Sys} {c0 : Nat} (h : s.Init c0) : Held s := by
  intro r hr
  exact (h.2.2.2.2.2 r hr).2.2.2

end ImmuModel.SyncRepl.SyncAckAux
