/-
C07 — ARBITRARY deliveries: whatever bytes a replica is fed, the transactions it holds form a
well-formed chain, and a chain whose accumulated hash at position `n` equals that of another
well-formed chain (the primary's) agrees with it on every header and every entry up to `n`
(or a collision of `H` is exhibited).  This is what makes the Alh comparisons of synchronous
replication (`AllowCommitUpto(txID, alh)`, the state checks of `ExportTxByID`) meaningful.
Helper lemmas live in `ImmuModel.Replica.ReplicaChainAux` (the definition `ChainOK` and the list /
parsing lemmas in `ReplicaChainLemmas.lean`).
-/
import ImmuModel.Store.Proofs.ReplicaChainLemmas

namespace ImmuModel.Replica.ReplicaChainAux
open ImmuModel ImmuModel.Tx ImmuModel.Merkle ImmuModel.GoInt ImmuModel.Replica

variable {D : Type}

/-- One step down the chain: equal accumulated hashes at `i` give equal header content and entries
at `i` and equal accumulated hashes at `i-1` (no collision of `H` assumed). -/
theorem agree_step (hs : Hs D) (L M : List (RRec D)) (hL : ChainOK hs L) (hM : ChainOK hs M)
    (hc : ¬ HColl hs) (i : Nat) (h1 : i < L.length) (h2 : i < M.length) (heq : (L[i]).alh = (M[i]).alh) :
    HdrSame (L[i]).hdr (M[i]).hdr ∧
    (L[i]).entries.map REntry.dcore = (M[i]).entries.map REntry.dcore ∧
    (∀ (_ : 0 < i), (L[i - 1]'(by omega)).alh = (M[i - 1]'(by omega)).alh) := by
  obtain ⟨a1, a2, a3, a4, a5, ⟨eh, a6, a6'⟩, a7, a8, a9⟩ := hL i h1
  obtain ⟨b1, b2, b3, b4, b5, ⟨eh', b6, b6'⟩, b7, b8, b9⟩ := hM i h2
  rw [heq] at a3
  rcases alhH_binds hs _ _ _ a8 b8 a3 b3 with hsame | c
  · refine ⟨hsame, ?_, ?_⟩
    · obtain ⟨s1, s2, s3, s4, s5, s6, s7, s8, s9⟩ := hsame
      have : eh = eh' := hs.enc_inj _ _ (by rw [← a6', ← b6', s7])
      subst this
      rw [← s4] at b6
      have hl : (L[i]).entries.length = (M[i]).entries.length := by omega
      rcases ehOf_binds hs _ _ _ eh hl a9 b9 a6 b6 with e | c
      · exact e
      · exact absurd c hc
    · intro h0
      have s2 := hsame.2.1
      rw [a2, b2] at s2
      have := hs.enc_inj _ _ s2
      obtain ⟨j, rfl⟩ : ∃ j, i = j + 1 := ⟨i - 1, by omega⟩
      rw [lastAlh_take_succ hs L j (by omega), lastAlh_take_succ hs M j (by omega)] at this
      simpa using this
  · exact absurd c hc

theorem hdrFits_of_wf (h : TxHdr) (hw : h.wf = true) : HdrFits h := by
  have hmd : ∀ b, mdBytesOpt h.md = .ok b → b.length < 65536 := fun b hb => mdBytesOpt_len _ b hb
  simp only [TxHdr.wf, Bool.and_eq_true, Bool.or_eq_true, decide_eq_true_eq] at hw
  obtain ⟨⟨⟨⟨⟨⟨⟨⟨⟨w1, w2⟩, w3⟩, w4⟩, w5⟩, w6⟩, w7⟩, w8⟩, w9⟩, w10⟩ := hw
  unfold two64 at w2
  refine ⟨by omega, w6, w3, ?_, by omega, ?_, ?_, w7, by omega, w5, hmd⟩
  · rcases w10 with w | w
    · exact Or.inl w.1.1
    · exact Or.inr w.1
  · intro hv
    rcases w10 with w | w
    · exact w.1.2
    · omega
  · intro hv
    rcases w10 with w | w
    · omega
    · exact w.2

end ImmuModel.Replica.ReplicaChainAux

namespace ImmuModel.Replica
open ImmuModel ImmuModel.Tx ImmuModel.Merkle ImmuModel.GoInt
open ImmuModel.Replica.ReplicaChainAux

variable {D : Type}

/-- **Two well-formed chains with the same accumulated hash at position `n` agree up to `n`**:
same header content, same accumulated hashes, same entries (keys, serialised kv-metadata, value
hashes) — or a collision of `H` is exhibited. -/
theorem chains_agree_upto (hs : Hs D) (L M : List (RRec D)) (hL : ChainOK hs L) (hM : ChainOK hs M)
    (n : Nat) (h0 : 0 < n) (hnL : n ≤ L.length) (hnM : n ≤ M.length)
    (heq : (L[n - 1]'(by omega)).alh = (M[n - 1]'(by omega)).alh) :
    (∀ i (h : i < n), HdrSame (L[i]'(by omega)).hdr (M[i]'(by omega)).hdr ∧
        (L[i]'(by omega)).alh = (M[i]'(by omega)).alh ∧
        (L[i]'(by omega)).entries.map REntry.dcore = (M[i]'(by omega)).entries.map REntry.dcore)
      ∨ HColl hs := by
  by_cases hc : HColl hs
  · exact Or.inr hc
  left
  have key : ∀ d i (h : i < n), n - 1 - i = d → (L[i]'(by omega)).alh = (M[i]'(by omega)).alh := by
    intro d
    induction d with
    | zero =>
      intro i h hd
      have : i = n - 1 := by omega
      subst this
      exact heq
    | succ d ih =>
      intro i h hd
      have e := ih (i + 1) (by omega) (by omega)
      have st := (agree_step hs L M hL hM hc (i + 1) (by omega) (by omega) e).2.2 (by omega)
      simpa using st
  intro i h
  have e := key (n - 1 - i) i h rfl
  obtain ⟨s1, s2, _⟩ := agree_step hs L M hL hM hc i (by omega) (by omega) e
  exact ⟨s1, e, s2⟩

/-- A genuine primary history is a well-formed chain. -/
theorem genuine_chainOK (hs : Hs D) (cfg : RCfg) (P : List (RRec D)) (hP : Genuine hs cfg P) :
    ChainOK hs P := by
  intro i h
  obtain ⟨g1, g2, g3, g4, g5, g6, g7, g8, g9, g10⟩ := hP.recs i h
  refine ⟨g1, g2, g3, g4, fun _ => g5, g6, g7, hdrFits_of_wf _ g8, ?_⟩
  intro e he
  obtain ⟨_, _, k, _, _, hv, _⟩ := g10.2.2 e he
  exact ⟨k, by rw [hv]; exact hs.enc_len _⟩

end ImmuModel.Replica

namespace ImmuModel.Replica.ReplicaChainAux
open ImmuModel ImmuModel.Tx ImmuModel.Merkle ImmuModel.GoInt ImmuModel.Replica
open ImmuModel.Replica.ReplicaPrefixAux

variable {D : Type}

/-- A record accepted on top of a chain `X` extends ANY well-formed chain `Y` of the same length with
the same last accumulated hash (which is the same chain unless `H` collides). -/
theorem recOK_transfer (hs : Hs D) (hc : ¬ HColl hs) (X Y : List (RRec D)) (r : RRec D)
    (hX : ChainOK hs (X ++ [r])) (hY : ChainOK hs Y)
    (hid : r.hdr.id = Y.length + 1) (hprev : r.hdr.prevAlh = hs.enc (lastAlh hs Y)) : RecOK hs Y r := by
  obtain ⟨hX0, a1, a2, a3, a4, a5, a6, a7, a8, a9⟩ := (chainOK_snoc hs X r).1 hX
  have hlen : X.length = Y.length := by omega
  have hla : lastAlh hs X = lastAlh hs Y := hs.enc_inj _ _ (by rw [← a2, hprev])
  have hmap : X.map (·.alh) = Y.map (·.alh) := by
    by_cases h0 : X.length = 0
    · have e1 : X = [] := List.eq_nil_of_length_eq_zero h0
      have e2 : Y = [] := List.eq_nil_of_length_eq_zero (by omega)
      rw [e1, e2]
    · have hlast : (X[X.length - 1]'(by omega)).alh = (Y[X.length - 1]'(by omega)).alh := by
        have e1 := lastAlh_take_succ hs X (X.length - 1) (by omega)
        have e2 := lastAlh_take_succ hs Y (X.length - 1) (by omega)
        rw [List.take_of_length_le (by omega)] at e1 e2
        rw [← e1, ← e2, hla]
      rcases chains_agree_upto hs X Y hX0 hY X.length (by omega) (by omega) (by omega) hlast with h | c
      · apply List.ext_getElem (by simp [hlen])
        intro i h1 h2
        simp only [List.getElem_map]
        exact (h i (by simpa using h1)).2.1
      · exact absurd c hc
  exact ⟨hid, hprev, a3, by omega, fun hb => by rw [← hmap]; exact a5 hb, a6, a7, a8, a9⟩

/-- Re-loading records each of which was accepted on SOME well-formed chain rebuilds a well-formed chain. -/
theorem reload_chain (hs : Hs D) (hc : ¬ HColl hs) : ∀ (l Y : List (RRec D)), ChainOK hs Y →
    (∀ r ∈ l, ∃ X, ChainOK hs (X ++ [r])) →
    ChainOK hs (Y ++ reload hs Y.length (hs.enc (lastAlh hs Y)) l) := by
  intro l
  induction l with
  | nil =>
    intro Y hY _
    simpa [reload] using hY
  | cons r t ih =>
    intro Y hY hl
    simp only [reload]
    split
    · rename_i hcnd
      obtain ⟨X, hX⟩ := hl r (by simp)
      have hr := recOK_transfer hs hc X Y r hX hY hcnd.1 hcnd.2
      have hY' : ChainOK hs (Y ++ [r]) := (chainOK_snoc hs Y r).2 ⟨hY, hr⟩
      have := ih (Y ++ [r]) hY' (fun x hx => hl x (List.mem_cons_of_mem _ hx))
      rw [lastAlh_snoc, List.length_append, List.length_singleton, List.append_assoc] at this
      simpa using this
    · simpa using hY

theorem chainOK_append_take (hs : Hs D) (A B : List (RRec D)) (k : Nat) (H : ChainOK hs (A ++ B)) :
    ChainOK hs (A ++ B.take k) := by
  have := chainOK_take hs (A ++ B) (A.length + k) H
  rw [List.take_append, List.take_of_length_le (by omega), Nat.add_sub_cancel_left] at this
  exact this

/-- A record accepted on top of some well-formed chain has a 32-byte `BlRoot`. -/
theorem ext_blRoot_len (hs : Hs D) (r : RRec D) (h : ∃ X, ChainOK hs (X ++ [r])) :
    r.hdr.blRoot.length = 32 := by
  obtain ⟨X, hX⟩ := h
  obtain ⟨_, _, _, _, _, _, _, _, hf, _⟩ := (chainOK_snoc hs X r).1 hX
  obtain ⟨_, _, _, _, _, _, _, _, _, hR, _⟩ := hf
  exact hR

theorem chainOK_blRoot_len (hs : Hs D) (L : List (RRec D)) (H : ChainOK hs L) (r : RRec D) (hr : r ∈ L) :
    r.hdr.blRoot.length = 32 :=
  ext_blRoot_len hs r (chainOK_mem_ext hs L H r hr)

/-- The invariant: the chain is well-formed, every record physically in the tx log (live or
discarded) and the record of a buffer-full rejection was accepted on top of SOME well-formed chain. -/
structure CInv (hs : Hs D) (cfg : RCfg) (st : RSt D) : Prop where
  cfg : st.cfg = cfg
  chain : ChainOK hs st.chain
  log : ∀ x ∈ st.log, ∃ X, ChainOK hs (X ++ [x.1])
  ghost : ∀ r, st.ghost = some r → ∃ X, ChainOK hs (X ++ [r])

theorem cinv_init (hs : Hs D) (cfg : RCfg) : CInv hs cfg (RSt.init cfg : RSt D) :=
  ⟨rfl, by simpa [RSt.init, RSt.chain, RSt.pre] using chainOK_nil hs, fun r h => by simp [RSt.init] at h,
   fun r h => by simp [RSt.init] at h⟩

theorem cinv_mayCommit {hs : Hs D} {cfg : RCfg} {st st' : RSt D} (hi : CInv hs cfg st)
    (h : mayCommit st = .ok st') : CInv hs cfg st' := by
  have hch := mayCommit_chain st st' h
  rcases mayCommit_ok_inv st st' h with rfl | ⟨cnt, rfl⟩
  · exact hi
  · exact ⟨hi.cfg, by rw [hch]; exact hi.chain, fun x hx => hi.log x ((commitLog_spec cnt st.log).2 x hx),
      hi.ghost⟩

theorem cinv_sync {hs : Hs D} {cfg : RCfg} {st : RSt D} (hi : CInv hs cfg st) : CInv hs cfg (sync st).st := by
  unfold sync
  split
  · exact hi
  · dsimp only
    have hi1 : CInv hs cfg { st with durable := st.lastPre } := ⟨hi.cfg, hi.chain, hi.log, hi.ghost⟩
    split
    · exact hi1
    · rename_i st2 h2; exact cinv_mayCommit hi1 h2

theorem cinv_allow {hs : Hs D} {cfg : RCfg} {st : RSt D} (hi : CInv hs cfg st) (txID : Nat) :
    CInv hs cfg (allowCommitUpto st txID).st := by
  unfold allowCommitUpto
  split
  · exact hi
  split
  · exact hi
  dsimp only
  have hi1 : CInv hs cfg { st with allowed := if st.lastPre < txID then st.lastPre else txID } :=
    ⟨hi.cfg, hi.chain, hi.log, hi.ghost⟩
  split
  · exact hi1
  split
  · exact hi1
  · rename_i st2 h2; exact cinv_mayCommit hi1 h2

theorem cinv_discard {hs : Hs D} {cfg : RCfg} {st : RSt D} (hi : CInv hs cfg st) (txID : Nat) :
    CInv hs cfg (discardSince st txID).st := by
  unfold discardSince
  split
  · exact hi
  split
  · exact hi
  split
  · exact hi
  dsimp only
  obtain ⟨k1, k2⟩ := keepLive_spec (st.pre.length - (st.lastPre + 1 - txID)) st.log
  refine ⟨hi.cfg, ?_, ?_, hi.ghost⟩
  · show ChainOK hs (st.committed ++ live (keepLive _ st.log))
    rw [k1]
    exact chainOK_append_take hs _ _ _ hi.chain
  · intro x hx
    have : x.1 ∈ st.log.map (·.1) := by rw [← k2]; exact List.mem_map_of_mem hx
    obtain ⟨y, hy, e⟩ := List.mem_map.1 this
    rw [← e]; exact hi.log y hy

theorem cinv_restart (hs : Hs D) (hc : ¬ HColl hs) {cfg : RCfg} {st : RSt D} (hi : CInv hs cfg st) :
    CInv hs cfg (restart hs st) := by
  unfold restart
  dsimp only
  obtain ⟨r1, _⟩ := reload_spec hs st.committed.length (hs.enc (st.committedAlh hs))
    (st.log.map (·.1) ++ st.ghost.toList)
  have hall : ∀ r ∈ st.log.map (·.1) ++ st.ghost.toList, ∃ X, ChainOK hs (X ++ [r]) := by
    intro r hr
    rcases List.mem_append.1 hr with h | h
    · obtain ⟨y, hy, e⟩ := List.mem_map.1 h
      rw [← e]; exact hi.log y hy
    · exact hi.ghost r (by simpa using h)
  refine ⟨hi.cfg, ?_, ?_, fun r h => by simp at h⟩
  · show ChainOK hs (st.committed ++ live (List.map (fun r => (r, true)) _))
    rw [live_map_true]
    exact reload_chain hs hc _ st.committed (chainOK_append_left hs st.committed st.pre hi.chain) hall
  · intro x hx
    obtain ⟨r, hr, rfl⟩ := List.mem_map.1 hx
    exact hall r (r1 r hr)

theorem cinv_replicate (hs : Hs D) {cfg : RCfg} (hk : cfg.maxKeyLen < 65536) {st : RSt D}
    (hi : CInv hs cfg st) (b : Bytes) (skip : Bool) : CInv hs cfg (replicate hs st b skip).st := by
  unfold replicate
  cases hp : parseExported b with
  | error x => exact hi
  | ok p =>
    dsimp only
    cases hpc : precommit hs st p skip with
    | error x => exact hi
    | ok r =>
      dsimp only
      have hr : RecOK hs st.chain r := precommit_recOK hs st (by rw [hi.cfg]; exact hk) b p skip r hp hpc
      have hch : ChainOK hs (st.chain ++ [r]) := (chainOK_snoc hs _ r).2 ⟨hi.chain, hr⟩
      by_cases c1 : st.pre.length ≥ st.bufCap
      · rw [if_pos c1]
        exact ⟨hi.cfg, hi.chain, hi.log, fun r' h => by cases h; exact ⟨_, hch⟩⟩
      rw [if_neg c1]
      have hl : ∀ x ∈ st.log ++ [(r, true)], ∃ X, ChainOK hs (X ++ [x.1]) := by
        intro x hx
        rcases List.mem_append.1 hx with h | h
        · exact hi.log x h
        · have : x = (r, true) := by simpa using h
          rw [this]; exact ⟨_, hch⟩
      have hc2 : ChainOK hs (st.committed ++ live (st.log ++ [(r, true)])) := by
        have e : live [(r, true)] = [r] := by simp
        rw [live_append, e, ← List.append_assoc]
        exact hch
      have hi2 : ∀ (d w : Nat), CInv hs cfg { st with log := st.log ++ [(r, true)], ghost := none, waitDone := w, durable := d } :=
        fun d w => ⟨hi.cfg, hc2, hl, fun r' h => (by cases h)⟩
      by_cases c2 : st.cfg.synced = true
      · rw [if_pos c2]
        exact hi2 _ _
      rw [if_neg c2]
      split
      · exact hi2 _ _
      · rename_i st3 h3
        exact cinv_mayCommit (hi2 _ _) h3

theorem cinv_apply (hs : Hs D) (hc : ¬ HColl hs) {cfg : RCfg} (hk : cfg.maxKeyLen < 65536) {st : RSt D}
    (hi : CInv hs cfg st) (op : Op) : CInv hs cfg (st.apply hs op) := by
  cases op with
  | deliver b skip => exact cinv_replicate hs hk hi b skip
  | sync => exact cinv_sync hi
  | discard txID => exact cinv_discard hi txID
  | allow txID => exact cinv_allow hi txID
  | restart => exact cinv_restart hs hc hi

theorem cinv_run (hs : Hs D) (hc : ¬ HColl hs) {cfg : RCfg} (hk : cfg.maxKeyLen < 65536) :
    ∀ (ops : List Op) (st : RSt D), CInv hs cfg st → CInv hs cfg (st.run hs ops) := by
  intro ops
  induction ops with
  | nil => intro st hi; exact hi
  | cons op t ih => intro st hi; exact ih _ (cinv_apply hs hc hk hi op)

end ImmuModel.Replica.ReplicaChainAux

namespace ImmuModel.Replica
open ImmuModel ImmuModel.Tx ImmuModel.Merkle ImmuModel.GoInt
open ImmuModel.Replica.ReplicaChainAux

variable {D : Type}

/-- **Whatever it is fed, a replica holds a well-formed chain**: for ANY operation sequence with
ARBITRARY delivered bytes (any `skipIntegrityCheck`), interleaved with syncs, discards, allowances
and restarts (which re-load discarded records and the record of a buffer-full rejection), the
committed-then-precommitted transactions form a `ChainOK` chain — or a collision of `H` is
exhibited (the collision alternative is only needed for restarts: a re-loaded record was accepted on
top of a chain with the same last accumulated hash, which is the same chain unless `H` collides). -/
theorem replica_chain_ok (hs : Hs D) (cfg : RCfg) (hk : cfg.maxKeyLen < 65536) (ops : List Op) :
    ChainOK hs ((RSt.init cfg : RSt D).run hs ops).chain ∨ HColl hs := by
  by_cases hc : HColl hs
  · exact Or.inr hc
  · exact Or.inl (cinv_run hs hc hk ops _ (cinv_init hs cfg)).chain

/-- **Corollary (the guarantee behind the Alh comparison).** If, after ANY sequence of operations
with arbitrary deliveries, the accumulated hash the replica holds at position `n` equals the one of
the genuine history `P`, then the replica's first `n` transactions are `P`'s: same header content,
same accumulated hashes, same entries — or a collision of `H` is exhibited. -/
theorem replica_agrees_upto_matching_alh_aux (hs : Hs D) (cfg : RCfg) (hk : cfg.maxKeyLen < 65536)
    (P : List (RRec D)) (hP : Genuine hs cfg P) (ops : List Op) (n : Nat) (h0 : 0 < n)
    (hnR : n ≤ ((RSt.init cfg : RSt D).run hs ops).chain.length) (hnP : n ≤ P.length)
    (heq : ((((RSt.init cfg : RSt D).run hs ops).chain)[n - 1]'(by omega)).alh = (P[n - 1]'(by omega)).alh) :
    (∀ i (h : i < n),
        HdrSame ((((RSt.init cfg : RSt D).run hs ops).chain)[i]'(by omega)).hdr (P[i]'(by omega)).hdr ∧
        ((((RSt.init cfg : RSt D).run hs ops).chain)[i]'(by omega)).alh = (P[i]'(by omega)).alh ∧
        ((((RSt.init cfg : RSt D).run hs ops).chain)[i]'(by omega)).entries.map REntry.dcore =
          (P[i]'(by omega)).entries.map REntry.dcore)
      ∨ HColl hs := by
  rcases replica_chain_ok hs cfg hk ops with hR | c
  · exact chains_agree_upto hs _ P hR (genuine_chainOK hs cfg P hP) n h0 hnR hnP heq
  · exact Or.inr c

end ImmuModel.Replica
