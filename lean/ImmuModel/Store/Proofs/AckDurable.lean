/-
C07 — proofs for `Store/ReplicaDisk.lean`: the durable-precommit watermark never covers a record
that has not been fsynced (`AckOnDisk` is an invariant of every operation except close/reopen), what
close/reopen and a power loss do to it.
-/
import ImmuModel.Store.ReplicaDisk
import ImmuModel.Store.Proofs.ReplicaPrefixLemmas

namespace ImmuModel.Replica.AckDurableAux
open ImmuModel ImmuModel.Tx ImmuModel.Merkle ImmuModel.GoInt ImmuModel.Replica
open ImmuModel.Replica.ReplicaPrefixAux

variable {D : Type}

theorem fsyncedLive_eq (d : DSt D) : d.fsyncedLive = live (d.st.log.take d.fs) := rfl

theorem lastPre_def (st : RSt D) : st.lastPre = st.committed.length + (live st.log).length := rfl

theorem live_take_prefix (l : List (RRec D × Bool)) (n : Nat) :
    live l = live (l.take n) ++ live (l.drop n) := by
  rw [← live_append, List.take_append_drop]

theorem live_length_le (l : List (RRec D × Bool)) : (live l).length ≤ l.length := by
  unfold live
  rw [List.length_map]
  exact List.length_filter_le _ _

theorem keepLive_length (k : Nat) (l : List (RRec D × Bool)) : (keepLive k l).length = l.length := by
  have h := congrArg List.length (keepLive_spec k l).2
  simpa using h

theorem live_keepLive_take (l : List (RRec D × Bool)) : ∀ (k n : Nat),
    live ((keepLive k l).take n) = (live (l.take n)).take k := by
  induction l with
  | nil => intro k n; simp [keepLive]
  | cons a t ih =>
    intro k n
    obtain ⟨r, b⟩ := a
    cases n with
    | zero => simp
    | succ n =>
      cases b with
      | false =>
        simp only [keepLive, List.take_succ_cons, live_cons_false]
        exact ih k n
      | true =>
        cases k with
        | zero =>
          simp only [keepLive, List.take_succ_cons, live_cons_false, live_cons_true, List.take_zero]
          have := ih 0 n
          simpa using this
        | succ k =>
          simp only [keepLive, List.take_succ_cons, live_cons_true]
          rw [ih k n]

/-- The four numeric facts; `prefix_eq` follows from them. -/
structure NumInv (d : DSt D) : Prop where
  fs_le : d.fs ≤ d.st.log.length
  committed_le : d.st.committed.length ≤ d.st.durable
  le_pre : d.st.durable ≤ d.st.lastPre
  covered : d.st.durable - d.st.committed.length ≤ (live (d.st.log.take d.fs)).length

theorem ackOnDisk_of_num {d : DSt D} (h : NumInv d) : AckOnDisk d := by
  refine ⟨h.fs_le, h.committed_le, h.le_pre, h.covered, ?_⟩
  rw [fsyncedLive_eq, chain_def, List.take_append, List.take_of_length_le h.committed_le]
  congr 1
  rw [live_take_prefix d.st.log d.fs]
  exact List.take_append_of_le_length h.covered

theorem num_of_ackOnDisk {d : DSt D} (h : AckOnDisk d) : NumInv d :=
  ⟨h.fs_le, h.committed_le, h.le_pre, h.covered⟩

-- ------------------------------------------------------------------ shapes of the operations on a Synced store

theorem mayCommit_cfg (st st' : RSt D) (h : mayCommit st = .ok st') : st'.cfg = st.cfg := by
  rcases mayCommit_ok_inv st st' h with rfl | ⟨cnt, rfl⟩ <;> rfl

theorem mayCommit_durable (st st' : RSt D) (h : mayCommit st = .ok st') : st'.durable = st.durable := by
  rcases mayCommit_ok_inv st st' h with rfl | ⟨cnt, rfl⟩ <;> rfl

/-- `ReplicateTx` on a Synced store: at most one live record is appended; nothing else of the disk
picture moves. -/
theorem replicate_synced (hs : Hs D) (st : RSt D) (hsy : st.cfg.synced = true) (b : Bytes) (skip : Bool) :
    (replicate hs st b skip).st.cfg = st.cfg ∧
    (replicate hs st b skip).st.committed = st.committed ∧
    (replicate hs st b skip).st.durable = st.durable ∧
    ((∃ r, (replicate hs st b skip).out = .ok r ∧ (replicate hs st b skip).st.log = st.log ++ [(r, true)]) ∨
     ((∃ e, (replicate hs st b skip).out = .error e) ∧ (replicate hs st b skip).st.log = st.log)) := by
  unfold replicate
  split
  · exact ⟨rfl, rfl, rfl, Or.inr ⟨⟨_, rfl⟩, rfl⟩⟩
  · split
    · exact ⟨rfl, rfl, rfl, Or.inr ⟨⟨_, rfl⟩, rfl⟩⟩
    · rename_i r _
      split
      · exact ⟨rfl, rfl, rfl, Or.inr ⟨⟨_, rfl⟩, rfl⟩⟩
      · exact ⟨rfl, rfl, rfl, Or.inl ⟨r, rfl, rfl⟩⟩

theorem num_replicate (hs : Hs D) (d : DSt D) (hsy : d.st.cfg.synced = true) (h : NumInv d) (b : Bytes) (skip : Bool) :
    NumInv (d.replicate hs b skip) ∧ (d.replicate hs b skip).st.cfg = d.st.cfg := by
  obtain ⟨h1, h2, h3, h4⟩ := replicate_synced hs d.st hsy b skip
  rcases h4 with ⟨r, ho, hl⟩ | ⟨⟨e, ho⟩, hl⟩
  · have hd : d.replicate hs b skip = ⟨(replicate hs d.st b skip).st, d.fs - (d.st.log.length + 1 - (replicate hs d.st b skip).st.log.length), false⟩ := by
      unfold DSt.replicate; simp only [ho]
    have hfs : d.fs - (d.st.log.length + 1 - (replicate hs d.st b skip).st.log.length) = d.fs := by
      rw [hl]; simp
    rw [hd, hfs]
    refine ⟨⟨?_, ?_, ?_, ?_⟩, h1⟩
    · show d.fs ≤ _
      rw [hl]; have := h.fs_le; simp; omega
    · show _ ≤ (replicate hs d.st b skip).st.durable
      rw [h2, h3]; exact h.committed_le
    · show (replicate hs d.st b skip).st.durable ≤ (replicate hs d.st b skip).st.lastPre
      rw [lastPre_def, h2, h3, hl, live_append]
      have := h.le_pre; rw [lastPre_def] at this
      simp; omega
    · show (replicate hs d.st b skip).st.durable - (replicate hs d.st b skip).st.committed.length ≤
        (live ((replicate hs d.st b skip).st.log.take d.fs)).length
      rw [h2, h3, hl, List.take_append_of_le_length h.fs_le]
      exact h.covered
  · have hsame : NumInv ({ st := (replicate hs d.st b skip).st, fs := d.fs, gfs := d.gfs } : DSt D) ∧
        NumInv ({ st := (replicate hs d.st b skip).st, fs := d.fs, gfs := false } : DSt D) := by
      have hlp : (replicate hs d.st b skip).st.lastPre = d.st.lastPre := by
        rw [lastPre_def, lastPre_def, h2, hl]
      constructor <;>
      · refine ⟨?_, ?_, ?_, ?_⟩
        · show d.fs ≤ (replicate hs d.st b skip).st.log.length
          rw [hl]; exact h.fs_le
        · show (replicate hs d.st b skip).st.committed.length ≤ (replicate hs d.st b skip).st.durable
          rw [h2, h3]; exact h.committed_le
        · show (replicate hs d.st b skip).st.durable ≤ (replicate hs d.st b skip).st.lastPre
          rw [h3, hlp]; exact h.le_pre
        · show (replicate hs d.st b skip).st.durable - (replicate hs d.st b skip).st.committed.length ≤
            (live ((replicate hs d.st b skip).st.log.take d.fs)).length
          rw [h2, h3, hl]; exact h.covered
    unfold DSt.replicate
    simp only [ho]
    split
    · rename_i heq; cases heq
    · exact ⟨hsame.2, h1⟩
    · exact ⟨hsame.1, h1⟩

theorem sync_cfg (st : RSt D) : (sync st).st.cfg = st.cfg := by
  unfold sync
  split
  · rfl
  · dsimp only
    split
    · rfl
    · rename_i st2 h2
      have := mayCommit_cfg _ _ h2
      exact this

/-- After a `sync()` that had something to do the watermark is the in-memory precommitted id. -/
theorem sync_durable (st : RSt D) (hne : ¬ st.lastPre = st.committed.length) :
    (sync st).st.durable = (sync st).st.lastPre := by
  unfold sync
  rw [if_neg hne]
  dsimp only
  split
  · rfl
  · rename_i st2 h2
    have hch := mayCommit_chain _ _ h2
    have hl : st2.lastPre = st.lastPre := by
      rw [lastPre_eq, lastPre_eq, hch]; rfl
    have hd := mayCommit_durable _ _ h2
    show st2.durable = st2.lastPre
    rw [hd, hl]

theorem num_sync (d : DSt D) : NumInv d → NumInv d.sync ∧ d.sync.st.cfg = d.st.cfg := by
  intro h
  unfold DSt.sync
  split
  · exact ⟨h, rfl⟩
  · rename_i hne
    refine ⟨⟨Nat.le_refl _, ?_, ?_, ?_⟩, sync_cfg d.st⟩
    · show (sync d.st).st.committed.length ≤ (sync d.st).st.durable
      rw [sync_durable d.st hne, lastPre_def]; omega
    · show (sync d.st).st.durable ≤ (sync d.st).st.lastPre
      rw [sync_durable d.st hne]; exact Nat.le_refl _
    · show (sync d.st).st.durable - (sync d.st).st.committed.length ≤ (live ((sync d.st).st.log.take (sync d.st).st.log.length)).length
      rw [sync_durable d.st hne, List.take_length, lastPre_def]; omega

theorem num_discard (d : DSt D) (h : NumInv d) (txID : Nat) :
    NumInv (d.discard txID) ∧ (d.discard txID).st.cfg = d.st.cfg := by
  unfold DSt.discard discardSince
  split
  · exact ⟨h, rfl⟩
  split
  · exact ⟨h, rfl⟩
  split
  · exact ⟨h, rfl⟩
  rename_i h1 h2 h3
  dsimp only
  obtain ⟨k1, _⟩ := keepLive_spec (d.st.pre.length - (d.st.lastPre + 1 - txID)) d.st.log
  have hpre : d.st.pre.length = (live d.st.log).length := rfl
  have hlp := lastPre_def d.st
  have hkeep : d.st.pre.length - (d.st.lastPre + 1 - txID) ≤ (live d.st.log).length := by omega
  refine ⟨⟨?_, ?_, ?_, ?_⟩, rfl⟩
  · show d.fs ≤ (keepLive _ d.st.log).length
    rw [keepLive_length]; exact h.fs_le
  · show d.st.committed.length ≤ (if d.st.durable > _ then _ else d.st.durable)
    have := h.committed_le
    split <;> omega
  · show (if d.st.durable > _ then _ else d.st.durable) ≤ d.st.committed.length + (live (keepLive _ d.st.log)).length
    rw [k1, List.length_take, Nat.min_eq_left hkeep]
    split <;> omega
  · show (if d.st.durable > _ then _ else d.st.durable) - d.st.committed.length ≤ (live ((keepLive _ d.st.log).take d.fs)).length
    rw [live_keepLive_take, List.length_take]
    have := h.covered
    have := h.committed_le
    split <;> omega

/-- Nothing of the disk picture moved. -/
theorem num_same (d : DSt D) (st' : RSt D) (fs' : Nat) (g : Bool) (hlog : st'.log = d.st.log)
    (hc : st'.committed = d.st.committed) (hd : st'.durable = d.st.durable) (hfs : fs' = d.fs) (h : NumInv d) :
    NumInv (⟨st', fs', g⟩ : DSt D) := by
  refine ⟨?_, ?_, ?_, ?_⟩
  · show fs' ≤ st'.log.length
    rw [hfs, hlog]; exact h.fs_le
  · show st'.committed.length ≤ st'.durable
    rw [hc, hd]; exact h.committed_le
  · show st'.durable ≤ st'.lastPre
    rw [lastPre_def, hc, hd, hlog, ← lastPre_def]; exact h.le_pre
  · show st'.durable - st'.committed.length ≤ (live (st'.log.take fs')).length
    rw [hc, hd, hlog, hfs]; exact h.covered

theorem allow_synced (st : RSt D) (hsy : st.cfg.synced = true) (txID : Nat) :
    (allowCommitUpto st txID).st.log = st.log ∧ (allowCommitUpto st txID).st.committed = st.committed ∧
    (allowCommitUpto st txID).st.durable = st.durable ∧ (allowCommitUpto st txID).st.cfg = st.cfg := by
  unfold allowCommitUpto
  split
  · exact ⟨rfl, rfl, rfl, rfl⟩
  split
  · exact ⟨rfl, rfl, rfl, rfl⟩
  exact ⟨rfl, rfl, rfl, rfl⟩

theorem num_allow (d : DSt D) (hsy : d.st.cfg.synced = true) (h : NumInv d) (txID : Nat) :
    NumInv (d.allow txID) ∧ (d.allow txID).st.cfg = d.st.cfg := by
  obtain ⟨e1, e2, e3, e4⟩ := allow_synced d.st hsy txID
  unfold DSt.allow
  dsimp only
  exact ⟨num_same d _ _ _ e1 e2 e3 (by rw [e1]; omega) h, e4⟩

theorem restart_cfg (hs : Hs D) (st : RSt D) : (restart hs st).cfg = st.cfg := rfl

/-- After `Open` everything that was re-loaded is live and the watermark covers all of it. -/
theorem restart_fields (hs : Hs D) (st : RSt D) :
    (restart hs st).durable = (restart hs st).committed.length + (restart hs st).log.length ∧
    (live (restart hs st).log).length = (restart hs st).log.length ∧
    (restart hs st).committed = st.committed := by
  unfold restart
  dsimp only
  refine ⟨by simp, ?_, rfl⟩
  rw [live_map_true]; simp

theorem restart_durable_lastPre (hs : Hs D) (st : RSt D) : (restart hs st).durable = (restart hs st).lastPre := by
  obtain ⟨e1, e2, _⟩ := restart_fields hs st
  rw [lastPre_def, e1, e2]

theorem crash_durable_lastPre (hs : Hs D) (d : DSt D) : (d.crash hs).st.durable = (d.crash hs).st.lastPre := by
  unfold DSt.crash
  exact restart_durable_lastPre hs _

theorem num_after_open (hs : Hs D) (st : RSt D) (fs : Nat) (g : Bool) (hfs : fs = (restart hs st).log.length) :
    NumInv ({ st := restart hs st, fs := fs, gfs := g } : DSt D) := by
  obtain ⟨e1, e2, _⟩ := restart_fields hs st
  refine ⟨by rw [hfs]; exact Nat.le_refl _, ?_, ?_, ?_⟩
  · show (restart hs st).committed.length ≤ (restart hs st).durable
    omega
  · show (restart hs st).durable ≤ (restart hs st).lastPre
    rw [lastPre_def]; omega
  · show (restart hs st).durable - (restart hs st).committed.length ≤ (live ((restart hs st).log.take fs)).length
    rw [hfs, List.take_length]; omega

theorem num_crash (hs : Hs D) (d : DSt D) : NumInv (d.crash hs) ∧ (d.crash hs).st.cfg = d.st.cfg := by
  unfold DSt.crash
  exact ⟨num_after_open hs _ _ _ rfl, rfl⟩

theorem reload_length_le (hs : Hs D) : ∀ (l : List (RRec D)) (n : Nat) (palh : Bytes),
    (reload hs n palh l).length ≤ l.length := by
  intro l
  induction l with
  | nil => intro n palh; simp [reload]
  | cons a t ih =>
    intro n palh
    simp only [reload]
    split
    · simp only [List.length_cons]; have := ih (n + 1) (hs.enc a.alh); omega
    · simp

theorem restart_log_length_le (hs : Hs D) (st : RSt D) :
    (restart hs st).log.length ≤ st.log.length + st.ghost.toList.length := by
  unfold restart
  dsimp only
  rw [List.length_map]
  have := reload_length_le hs (st.log.map (·.1) ++ st.ghost.toList) st.committed.length (hs.enc (st.committedAlh hs))
  simpa using this

/-- Close/reopen keeps the invariant when every written record had been fsynced before. -/
theorem num_restart_of_synced (hs : Hs D) (d : DSt D) (hfs : d.fs = d.st.log.length)
    (hg : d.st.ghost = none ∨ d.gfs = true) : NumInv (d.restart hs) := by
  unfold DSt.restart
  dsimp only
  apply num_after_open
  have hle := restart_log_length_le hs d.st
  have hall : d.st.log.length + d.st.ghost.toList.length ≤ d.fsAll := by
    unfold DSt.fsAll
    rcases hg with hg | hg
    · rw [hg]; simp [hfs]
    · cases hgh : d.st.ghost with
      | none => simp [hfs]
      | some r => simp [hfs, hg]
  split
  · omega
  · rfl

-- ------------------------------------------------------------------ the invariant

theorem num_apply (hs : Hs D) (d : DSt D) (hsy : d.st.cfg.synced = true) (h : NumInv d) (op : DOp)
    (hop : op ≠ .restart) : NumInv (d.apply hs op) ∧ (d.apply hs op).st.cfg = d.st.cfg := by
  cases op with
  | deliver b skip => exact num_replicate hs d hsy h b skip
  | sync => exact num_sync d h
  | discard txID => exact num_discard d h txID
  | allow txID => exact num_allow d hsy h txID
  | restart => exact absurd rfl hop
  | crash => exact num_crash hs d

theorem num_run (hs : Hs D) : ∀ (ops : List DOp) (d : DSt D), d.st.cfg.synced = true → NumInv d →
    DOp.restart ∉ ops → NumInv (d.run hs ops) ∧ (d.run hs ops).st.cfg = d.st.cfg := by
  intro ops
  induction ops with
  | nil => intro d _ h _; exact ⟨h, rfl⟩
  | cons op t ih =>
    intro d hsy h hno
    have hop : op ≠ .restart := fun e => hno (by rw [e]; exact List.mem_cons_self)
    obtain ⟨h1, h2⟩ := num_apply hs d hsy h op hop
    obtain ⟨h3, h4⟩ := ih (d.apply hs op) (by rw [h2]; exact hsy) h1 (fun hm => hno (List.mem_cons_of_mem _ hm))
    show NumInv ((d.apply hs op).run hs t) ∧ ((d.apply hs op).run hs t).st.cfg = d.st.cfg
    exact ⟨h3, by rw [h4, h2]⟩

theorem num_init (cfg : RCfg) : NumInv (DSt.init cfg : DSt D) :=
  ⟨Nat.le_refl _, Nat.le_refl _, by simp [DSt.init, RSt.init, RSt.lastPre], by simp [DSt.init, RSt.init]⟩

end ImmuModel.Replica.AckDurableAux
