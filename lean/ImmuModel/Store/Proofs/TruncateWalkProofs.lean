/-
Helper lemmas for `Props.C14.front_walk_covers_every_later_tx` / `short_front_walk_unsafe`. Core Lean only.
-/
import ImmuModel.Store.TruncateWalk
import ImmuModel.Store.Proofs.TruncateProofs

namespace ImmuModel.Store.TruncateWalkAux
open ImmuModel.Store.Truncate ImmuModel.Store.TruncateAux

theorem lower_noop (t : Tomb) (v off : Nat) (h : ∀ p ∈ t, ¬ (p.1 = v ∧ off < p.2)) : t.lower v off = t := by
  unfold Tomb.lower
  conv => rhs; rw [← List.map_id t]
  apply List.map_congr_left
  intro p hp
  simp [h p hp]

/-- A forward walk over txs none of whose first values lies below the tombstone of its vlog changes nothing. -/
theorem frontWalk_noop (s : Store) : ∀ (k j : Nat) (t : Tomb),
    (∀ i, j ≤ i → i < j + k → ∃ e, s.firstEntry i = .ok e ∧ ∀ p ∈ t, ¬ (p.1 = e.vlog ∧ e.off < p.2)) →
    frontWalk s j k t = .ok t := by
  intro k
  induction k with
  | zero => intro j t _; simp [frontWalk]
  | succ k ih =>
    intro j t h
    obtain ⟨e, he, hp⟩ := h j (Nat.le_refl _) (by omega)
    unfold frontWalk
    rw [he]
    simp only
    rw [lower_noop _ _ _ hp]
    exact ih (j + 1) t (fun i h1 h2 => h i (by omega) (by omega))

theorem late_last (c : Nat) : (lateCommitterStore c).last = c + 2 := by
  simp [Store.last, lateCommitterStore, lateCommitterTxs]

theorem late_tx1 (c : Nat) : (lateCommitterStore c).txs[0]? = some [⟨1, 64, 64⟩] := by
  simp [lateCommitterStore, lateCommitterTxs]

theorem late_fill (c k : Nat) (hk : k < c) :
    (lateCommitterStore c).txs[k + 1]? = some [⟨1, 128 + 8 * k, 8⟩] := by
  simp [lateCommitterStore, lateCommitterTxs, List.getElem?_append, hk]

theorem late_txLate (c : Nat) : (lateCommitterStore c).txs[c + 1]? = some [⟨1, 0, 64⟩] := by
  simp [lateCommitterStore, lateCommitterTxs]

theorem late_first1 (c : Nat) : (lateCommitterStore c).firstEntry 1 = .ok ⟨1, 64, 64⟩ := by
  unfold Store.firstEntry
  have h2 : ¬ (lateCommitterStore c).last < 1 := by rw [late_last]; omega
  simp [h2, late_tx1]

theorem late_firstFill (c k : Nat) (hk : k < c) :
    (lateCommitterStore c).firstEntry (k + 2) = .ok ⟨1, 128 + 8 * k, 8⟩ := by
  unfold Store.firstEntry
  have h2 : ¬ (lateCommitterStore c).last < k + 2 := by rw [late_last]; omega
  have h3 : k + 2 - 1 = k + 1 := by omega
  simp [h2, h3, late_fill c k hk]

/-- Walking from 1 to `1 + c` (tx 1 and the `c` txs above it) leaves the tombstone at tx 1's offset. -/
theorem late_tombstones (c : Nat) : tombstonesUpTo (lateCommitterStore c) 1 (1 + c) = .ok [(1, 64)] := by
  unfold tombstonesUpTo
  have hb : backWalk (lateCommitterStore c) 1 [] = .ok [(1, 64)] := by
    unfold backWalk
    have : ¬ (([] : Tomb).length = (lateCommitterStore c).maxIO) := by simp [lateCommitterStore]
    simp only [this, if_false]
    rw [late_first1]
    simp [backWalk, Tomb.addIfAbsent, Tomb.has]
  rw [hb]
  simp only
  have hk : 1 + c + 1 - 1 = c + 1 := by omega
  rw [hk]
  apply frontWalk_noop
  intro i h1 h2
  by_cases hi : i = 1
  · subst hi
    exact ⟨_, late_first1 c, by intro p hp; simp at hp; subst hp; simp⟩
  · obtain ⟨k, rfl⟩ : ∃ k, i = k + 2 := ⟨i - 2, by omega⟩
    refine ⟨_, late_firstFill c k (by omega), ?_⟩
    intro p hp
    simp at hp
    subst hp
    simp
    omega

theorem chunks_late : chunksOf 64 ⟨1, 0, 64⟩ = [0] := by decide

theorem late_readable_before (c : Nat) : (lateCommitterStore c).readable ⟨1, 0, 64⟩ := by
  unfold Store.readable Store.readValue
  have hF : (lateCommitterStore c).F = 64 := rfl
  rw [hF, chunks_late]
  simp [lateCommitterStore]

def lateAfterVLog (c : Nat) : VLog :=
  { (lateCommitterStore c).vlogs 1 with
    present := ((lateCommitterStore c).vlogs 1).present.filter
      (fun ch => !((lateCommitterStore c).vlogs 1).removedBy (lateCommitterStore c).F 64 ch) }

theorem late_trunc_eq (c : Nat) :
    truncateUptoWalkingTo (lateCommitterStore c) 1 (1 + c) =
      ⟨(lateCommitterStore c).setVLog 1 (lateAfterVLog c), .ok⟩ := by
  unfold truncateUptoWalkingTo
  have he : (lateCommitterStore c).embedded = false := rfl
  rw [late_tombstones]
  have hf : (lateCommitterStore c).fetchVLog 1 = some (.ok ()) := by simp [Store.fetchVLog, lateCommitterStore]
  have hd : ((lateCommitterStore c).vlogs 1).discardUpto (lateCommitterStore c).F 64 = .ok (lateAfterVLog c) := by
    unfold VLog.discardUpto
    have : ¬ ((lateCommitterStore c).vlogs 1).offset < 64 := by simp [lateCommitterStore]; omega
    simp [this, lateAfterVLog]
  simp [he, discardAll, hf, hd]

theorem late_unreadable_after (c : Nat) :
    ¬ ((lateCommitterStore c).setVLog 1 (lateAfterVLog c)).readable ⟨1, 0, 64⟩ := by
  unfold Store.readable Store.readValue
  have hF : ((lateCommitterStore c).setVLog 1 (lateAfterVLog c)).F = 64 := rfl
  rw [hF, chunks_late]
  have hcur : 0 < chunkOf 64 (128 + 8 * c) := by unfold chunkOf; omega
  have h64 : 0 < chunkOf 64 64 := by decide
  simp [Store.setVLog, lateAfterVLog, lateCommitterStore, VLog.removedBy, hcur, h64]

theorem late_placed (c : Nat) : ∀ tx' ∈ (lateCommitterStore c).txs, Placed tx' := by
  intro tx' h
  simp [lateCommitterStore, lateCommitterTxs] at h
  rcases h with h | ⟨k, _, h⟩ | h
  · exact ⟨1, 64, [64], by subst h; decide⟩
  · exact ⟨1, 128 + 8 * k, [8], by subst h; simp [appendValues]⟩
  · exact ⟨1, 0, [64], by subst h; decide⟩

end ImmuModel.Store.TruncateWalkAux
