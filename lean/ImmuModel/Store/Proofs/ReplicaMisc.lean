/-
C07 — small facts about the replica model used by `Props/C07.lean`.
-/
import ImmuModel.Store.ReplicaSpec

namespace ImmuModel.Replica
open ImmuModel ImmuModel.Tx

variable {D : Type}

/-- A delivery that passes every check but finds the precommit buffer full is answered with
ErrBufferIsFull; the in-memory state (chain, durable, allowance) is unchanged but the record has
been written at the append position of the tx log. -/
theorem replicate_buffer_full (hs : Hs D) (st : RSt D) (b : Bytes) (skip : Bool) (p : Parsed) (r : RRec D)
    (hp : parseExported b = .ok p) (hok : precommit hs st p skip = .ok r) (hfull : st.pre.length ≥ st.bufCap) :
    (replicate hs st b skip).out = .error .bufferFull ∧
    (replicate hs st b skip).st = { st with ghost := some r } := by
  unfold replicate
  rw [hp]
  simp only [hok]
  rw [if_pos hfull]
  exact ⟨rfl, rfl⟩

/-- … and the next open re-loads it as a precommitted transaction when it chains onto what is there
(shown for a store whose tx log holds nothing else after the last committed transaction). -/
theorem restart_reloads_ghost (hs : Hs D) (st : RSt D) (r : RRec D) (hlog : st.log = [])
    (hg : st.ghost = some r) (hid : r.hdr.id = st.committed.length + 1)
    (hprev : r.hdr.prevAlh = hs.enc (st.committedAlh hs)) :
    (restart hs st).pre = [r] ∧ (restart hs st).lastPre = st.committed.length + 1 := by
  have hre : reload hs st.committed.length (hs.enc (st.committedAlh hs)) (List.map (·.1) st.log ++ st.ghost.toList) = [r] := by
    rw [hlog, hg]
    simp [reload, hid, hprev]
  have h1 : (restart hs st).pre = [r] := by
    unfold restart RSt.pre
    simp only [hre]
    simp
  refine ⟨h1, ?_⟩
  unfold RSt.lastPre
  rw [h1]
  simp [restart]

end ImmuModel.Replica
