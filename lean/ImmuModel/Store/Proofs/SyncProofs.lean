/-
C07 — proofs about the acknowledgement protocol of synchronous replication (`Store/SyncRepl.lean`).
Helper lemmas live in `ImmuModel.SyncRepl.SyncProofsAux`.
-/
import ImmuModel.Store.SyncRepl

namespace ImmuModel.SyncRepl.SyncProofsAux
open ImmuModel.SyncRepl

/-! ### list helpers -/

theorem foldl_min_le_init (l : List (String × Nat)) (i : Nat) :
    l.foldl (fun m x => if x.2 < m then x.2 else m) i ≤ i := by
  induction l generalizing i with
  | nil => simp
  | cons a t ih =>
    simp only [List.foldl_cons]
    apply Nat.le_trans (ih _)
    split <;> omega

theorem foldl_min_le_mem (l : List (String × Nat)) (i : Nat) (x : String × Nat) (hx : x ∈ l) :
    l.foldl (fun m x => if x.2 < m then x.2 else m) i ≤ x.2 := by
  induction l generalizing i with
  | nil => cases hx
  | cons a t ih =>
    simp only [List.foldl_cons]
    rcases List.mem_cons.1 hx with rfl | h
    · apply Nat.le_trans (foldl_min_le_init _ _)
      split <;> omega
    · exact ih _ h

theorem minPre_le (s : List (String × Nat)) (x : String × Nat) (hx : x ∈ s) : minPre s ≤ x.2 := by
  unfold minPre
  split
  · omega
  · exact foldl_min_le_mem _ _ _ hx

theorem mem_upsert {u : String} {v : Nat} {l : List (String × Nat)} {x : String × Nat}
    (h : x ∈ upsert u v l) : x = (u, v) ∨ x ∈ l := by
  induction l with
  | nil => simp [upsert] at h; exact Or.inl h
  | cons a t ih =>
    rcases a with ⟨k, w⟩
    simp only [upsert] at h
    split at h
    · rename_i hk
      rcases List.mem_cons.1 h with h | h
      · left; rw [h, hk]
      · right; exact List.mem_cons_of_mem _ h
    · rcases List.mem_cons.1 h with h | h
      · right; rw [h]; exact List.mem_cons_self
      · rcases ih h with h | h
        · exact Or.inl h
        · right; exact List.mem_cons_of_mem _ h

theorem key_upsert {u : String} {v : Nat} {l : List (String × Nat)} {a : String}
    (h : a ∈ (upsert u v l).map (·.1)) : a = u ∨ a ∈ l.map (·.1) := by
  rcases List.mem_map.1 h with ⟨x, hx, rfl⟩
  rcases mem_upsert hx with h | h
  · left; rw [h]
  · right; exact List.mem_map.2 ⟨x, h, rfl⟩

theorem nodup_upsert (u : String) (v : Nat) (l : List (String × Nat))
    (h : (l.map (·.1)).Nodup) : ((upsert u v l).map (·.1)).Nodup := by
  induction l with
  | nil => simp [upsert]
  | cons a t ih =>
    rcases a with ⟨k, w⟩
    simp only [List.map_cons, List.nodup_cons] at h
    simp only [upsert]
    split
    · simp only [List.map_cons, List.nodup_cons]; exact h
    · rename_i hk
      simp only [List.map_cons, List.nodup_cons]
      refine ⟨?_, ih h.2⟩
      intro hc
      rcases key_upsert hc with hc | hc
      · exact hk hc
      · exact h.1 hc

theorem nodup_filter (l : List (String × Nat)) (p : String × Nat → Bool)
    (h : (l.map (·.1)).Nodup) : ((l.filter p).map (·.1)).Nodup :=
  List.Nodup.sublist (List.Sublist.map _ List.filter_sublist) h

theorem mem_setAt {α : Type} {l : List α} {i : Nat} {a x : α} (h : x ∈ setAt l i a) :
    x = a ∨ x ∈ l := by
  induction l generalizing i with
  | nil => simp [setAt] at h
  | cons b t ih =>
    cases i with
    | zero =>
      simp only [setAt] at h
      rcases List.mem_cons.1 h with h | h
      · exact Or.inl h
      · right; exact List.mem_cons_of_mem _ h
    | succ n =>
      simp only [setAt] at h
      rcases List.mem_cons.1 h with h | h
      · right; rw [h]; exact List.mem_cons_self
      · rcases ih h with h | h
        · exact Or.inl h
        · right; exact List.mem_cons_of_mem _ h

/-! ### `Acked` -/

theorem Acked.mono {rep rep' : List (String × Nat)} {n n' k : Nat} (h : Acked rep n k)
    (hsub : ∀ x ∈ rep, x ∈ rep') (hn : n' ≤ n) : Acked rep' n' k := by
  rcases h with ⟨us, hnd, hlen, hall⟩
  refine ⟨us, hnd, hlen, ?_⟩
  intro u hu
  rcases hall u hu with ⟨m, hm, hmem⟩
  exact ⟨m, Nat.le_trans hn hm, hsub _ hmem⟩

theorem Acked.of_states {rep st : List (String × Nat)} {n k : Nat}
    (hnd : (st.map (·.1)).Nodup) (hlen : k ≤ st.length)
    (hmem : ∀ x ∈ st, x ∈ rep) (hn : ∀ x ∈ st, n ≤ x.2) : Acked rep n k := by
  refine ⟨st.map (·.1), hnd, by simpa using hlen, ?_⟩
  intro u hu
  rcases List.mem_map.1 hu with ⟨x, hx, rfl⟩
  exact ⟨x.2, hn x hx, hmem x hx⟩

/-! ### the primary's invariant -/

/-- Invariant of the primary against the ghost log. -/
structure PInv (c0 : Nat) (p : Prim) (rep : List (String × Nat)) : Prop where
  c0_le : c0 ≤ p.committed
  com_le : p.committed ≤ p.allowed
  all_le : p.allowed ≤ p.pre
  nodup : (p.states.map (·.1)).Nodup
  st_rep : ∀ x ∈ p.states, x ∈ rep
  acked : p.allowed = c0 ∨ Acked rep p.allowed p.syncAcks
  rep_le : ∀ x ∈ rep, x.2 ≤ p.pre

/-- The tail of `report`: a new/raised replica state has been stored and enough replicas are known. -/
theorem PInv.storeAllow_min {c0 : Nat} {p : Prim} {rep : List (String × Nat)} (h : PInv c0 p rep)
    (hlen : p.states.length ≥ p.syncAcks) : PInv c0 (p.storeAllow (minPre p.states)) rep := by
  unfold Prim.storeAllow
  split
  · exact h
  · rename_i hgt
    have hmin : ∀ x ∈ p.states, minPre p.states ≤ x.2 := minPre_le _
    have hnew : p.allowed ≤ (if p.pre < minPre p.states then p.pre else minPre p.states) := by
      have := h.all_le
      split <;> omega
    refine ⟨h.c0_le, Nat.le_trans h.com_le hnew, ?_, h.nodup, h.st_rep, ?_, h.rep_le⟩
    · show (if p.pre < minPre p.states then p.pre else minPre p.states) ≤ p.pre
      split <;> omega
    · right
      show Acked rep (if p.pre < minPre p.states then p.pre else minPre p.states) p.syncAcks
      apply Acked.of_states h.nodup hlen h.st_rep
      intro x hx
      have := hmin x hx
      split <;> omega

theorem report_fields (p : Prim) (u : String) (v : Nat) :
    (p.report u v).1.committed = p.committed ∧ (p.report u v).1.pre = p.pre ∧
    (p.report u v).1.syncAcks = p.syncAcks := by
  unfold Prim.report Prim.storeAllow
  simp only []
  repeat' split
  all_goals simp

theorem report_inv {c0 : Nat} {p : Prim} {rep : List (String × Nat)} (h : PInv c0 p rep)
    (u : String) (v : Nat) (hv : v ≤ p.pre) : PInv c0 (p.report u v).1 ((u, v) :: rep) := by
  -- state after the clean-up, against the extended log
  have h1 : PInv c0 { p with states := p.states.filter (fun x => x.2 > p.committed) } ((u, v) :: rep) := by
    refine ⟨h.c0_le, h.com_le, h.all_le, nodup_filter _ _ h.nodup, ?_, ?_, ?_⟩
    · intro x hx
      exact List.mem_cons_of_mem _ (h.st_rep x (List.mem_filter.1 hx).1)
    · rcases h.acked with ha | ha
      · exact Or.inl ha
      · exact Or.inr (Acked.mono ha (fun x hx => List.mem_cons_of_mem _ hx) (Nat.le_refl _))
    · intro x hx
      rcases List.mem_cons.1 hx with hx | hx
      · rw [hx]; exact hv
      · exact h.rep_le x hx
  -- state after the upsert
  have h2 : PInv c0 { p with states := upsert u v (p.states.filter (fun x => x.2 > p.committed)) }
      ((u, v) :: rep) := by
    refine ⟨h1.c0_le, h1.com_le, h1.all_le, nodup_upsert _ _ _ h1.nodup, ?_, h1.acked, h1.rep_le⟩
    intro x hx
    rcases mem_upsert hx with hx | hx
    · rw [hx]; exact List.mem_cons_self
    · exact h1.st_rep x hx
  unfold Prim.report
  simp only []
  split
  · exact h1
  · split
    · split
      · exact h1
      · split
        · exact h1
        · split
          · rename_i hlen
            exact h2.storeAllow_min hlen
          · exact h2
    · split
      · rename_i hlen
        exact h2.storeAllow_min hlen
      · exact h2

/-! ### the system invariant -/

/-- Invariant of a replica against the primary's committed id `pc`. -/
structure RInv (pc : Nat) (r : Repl) : Prop where
  com_all : r.committed ≤ r.allowed
  all_pc : r.allowed ≤ pc
  com_pre : r.committed ≤ r.pre

theorem RInv.mono {pc pc' : Nat} {r : Repl} (h : RInv pc r) (hp : pc ≤ pc') : RInv pc' r :=
  ⟨h.com_all, Nat.le_trans h.all_pc hp, h.com_pre⟩

structure Inv (c0 : Nat) (s : Sys) : Prop where
  prim : PInv c0 s.prim s.reports
  repls : ∀ r ∈ s.repls, RInv s.prim.committed r

theorem inv_init {c0 : Nat} {s : Sys} (h : s.Init c0) : Inv c0 s := by
  rcases h with ⟨hc, ha, hp, hs, hr, hrs⟩
  refine ⟨⟨by omega, by omega, by omega, by simp [hs], by simp [hs], Or.inl ha, by simp [hr]⟩, ?_⟩
  intro r hr
  rcases hrs r hr with ⟨h1, h2, h3, h4⟩
  exact ⟨by omega, by omega, by omega⟩

theorem RInv.sync {pc : Nat} {r : Repl} (h : RInv pc r) : RInv pc r.sync := by
  rcases h with ⟨h1, h2, h3⟩
  unfold Repl.sync
  split
  · exact ⟨h1, h2, h3⟩
  · split
    · rename_i hc
      exact ⟨Nat.le_refl _, h2, hc.1⟩
    · exact ⟨h1, h2, h3⟩

theorem RInv.allow {pc : Nat} {r : Repl} (h : RInv pc r) (may : Nat) (hm : may ≤ pc) :
    RInv pc (r.allow may) := by
  rcases h with ⟨h1, h2, h3⟩
  unfold Repl.allow
  split
  · exact ⟨h1, h2, h3⟩
  · simp only []
    split
    · refine ⟨?_, ?_, h3⟩
      · show r.committed ≤ (if r.pre < may then r.pre else may)
        split <;> omega
      · show (if r.pre < may then r.pre else may) ≤ pc
        split <;> omega
    · refine ⟨Nat.le_refl _, ?_, ?_⟩
      · show (if r.pre < may then r.pre else may) ≤ pc
        split <;> omega
      · show (if r.pre < may then r.pre else may) ≤ r.pre
        split <;> omega

theorem RInv.allow_if {pc : Nat} {r : Repl} (h : RInv pc r) (may : Nat) (hm : may ≤ pc) :
    RInv pc (if may > r.committed then r.allow may else r) := by
  split
  · exact h.allow may hm
  · exact h

theorem mayCommitFor_some {p : Prim} {rc rp may : Nat} (h : p.mayCommitFor rc rp = some may) :
    rc ≤ p.committed ∧ rp ≤ p.pre ∧ may ≤ p.committed := by
  unfold Prim.mayCommitFor at h
  split at h
  · cases h
  · split at h
    · cases h
    · split at h
      · cases h; omega
      · split at h <;> cases h <;> omega

theorem inv_setAt {c0 : Nat} {s : Sys} (h : Inv c0 s) (i : Nat) (r : Repl)
    (hr : RInv s.prim.committed r) : Inv c0 { s with repls := setAt s.repls i r } := by
  refine ⟨h.prim, ?_⟩
  intro x hx
  rcases mem_setAt hx with hx | hx
  · rw [hx]; exact hr
  · exact h.repls x hx

theorem inv_step {c0 : Nat} {s : Sys} (h : Inv c0 s) (e : Ev) : Inv c0 (s.step e) := by
  cases e with
  | pPrecommit =>
    have hp := h.prim
    refine ⟨⟨hp.c0_le, hp.com_le, Nat.le_succ_of_le hp.all_le, hp.nodup, hp.st_rep, hp.acked, ?_⟩, h.repls⟩
    intro x hx
    exact Nat.le_succ_of_le (hp.rep_le x hx)
  | pCommit =>
    have hp := h.prim
    have hle : s.prim.committed ≤
        (if s.prim.allowed > s.prim.committed then s.prim.allowed else s.prim.committed) := by
      split <;> omega
    refine ⟨⟨Nat.le_trans hp.c0_le hle, ?_, hp.all_le, hp.nodup, hp.st_rep, hp.acked, hp.rep_le⟩, ?_⟩
    · show (if s.prim.allowed > s.prim.committed then s.prim.allowed else s.prim.committed) ≤ s.prim.allowed
      have := hp.com_le
      split <;> omega
    · intro r hr
      exact (h.repls r hr).mono hle
  | rSync i =>
    simp only [Sys.step]
    cases hr : s.repls[i]? with
    | none => exact h
    | some r =>
      exact inv_setAt h i _ (h.repls r (List.mem_of_getElem? hr)).sync
  | rDiscard i since =>
    simp only [Sys.step]
    cases hr : s.repls[i]? with
    | none => exact h
    | some r =>
      simp only []
      split
      · exact h
      · rename_i hc
        have hri := h.repls r (List.mem_of_getElem? hr)
        apply inv_setAt h
        refine ⟨hri.com_all, hri.all_pc, ?_⟩
        show r.committed ≤ since - 1
        omega
  | fetch i replicate =>
    simp only [Sys.step]
    cases hr : s.repls[i]? with
    | none => exact h
    | some r =>
      simp only []
      cases hm : s.prim.mayCommitFor r.committed r.durable with
      | none => exact h
      | some may =>
        simp only []
        have hri := h.repls r (List.mem_of_getElem? hr)
        rcases mayCommitFor_some hm with ⟨hm1, hm2, hm3⟩
        have hpi := report_inv h.prim r.uuid r.durable hm2
        rcases report_fields s.prim r.uuid r.durable with ⟨hf1, hf2, hf3⟩
        rcases hrep : s.prim.report r.uuid r.durable with ⟨p1, ok⟩
        rw [hrep] at hpi hf1 hf2 hf3
        simp only [] at hpi hf1 hf2 hf3 ⊢
        have hbase : Inv c0 { s with prim := p1, reports := (r.uuid, r.durable) :: s.reports } := by
          refine ⟨hpi, ?_⟩
          intro x hx
          show RInv p1.committed x
          rw [hf1]
          exact h.repls x hx
        split
        · exact hbase
        · apply inv_setAt hbase
          show RInv p1.committed _
          rw [hf1]
          -- the replicated transaction
          have hr1 : ∀ r1 : Repl, r1.committed = r.committed → r1.allowed = r.allowed → r.pre ≤ r1.pre →
              RInv s.prim.committed r1 := by
            intro r1 e1 e2 e3
            exact ⟨by rw [e1, e2]; exact hri.com_all, by rw [e2]; exact hri.all_pc,
              by rw [e1]; exact Nat.le_trans hri.com_pre e3⟩
          have hr1' : RInv s.prim.committed
              (if replicate = true ∧ r.pre < p1.pre then
                (if r.synced = true then { r with pre := r.pre + 1 }
                 else { r with pre := r.pre + 1, durable := r.pre + 1 })
               else r) := by
            split
            · split
              · exact hr1 _ rfl rfl (Nat.le_succ _)
              · exact hr1 _ rfl rfl (Nat.le_succ _)
            · exact hri
          exact hr1'.allow_if may hm3

theorem inv_run {c0 : Nat} (evs : List Ev) {s : Sys} (h : Inv c0 s) : Inv c0 (s.run evs) := by
  induction evs generalizing s with
  | nil => exact h
  | cons e t ih => exact ih (inv_step h e)

end ImmuModel.SyncRepl.SyncProofsAux

namespace ImmuModel.SyncRepl
open SyncProofsAux

/-- Whatever the interleaving of client writes, commits, fetch rounds (in any replica order, with
or without replicating), replica syncs and discards: a transaction beyond the initial commit point
is committed on the primary only if at least `syncAcks` distinct replicas have shown the primary a
durably precommitted id at least as large. -/
theorem primary_commit_needs_acks_aux (s0 : Sys) (c0 : Nat) (h0 : s0.Init c0) (evs : List Ev) (n : Nat)
    (h1 : c0 < n) (h2 : n ≤ (s0.run evs).prim.committed) :
    Acked (s0.run evs).reports n (s0.run evs).prim.syncAcks := by
  have hp := (inv_run evs (inv_init h0)).prim
  have hle := hp.com_le
  rcases hp.acked with ha | ha
  · omega
  · exact Acked.mono ha (fun _ hx => hx) (by omega)

/-- Every report in the ghost log was, when it was made, the durably precommitted id of a replica:
reports are only produced by `fetch`, from `r.durable` (by definition of `Sys.step`); the numbers
never exceed what the primary has precommitted. -/
theorem reports_bounded_aux (s0 : Sys) (c0 : Nat) (h0 : s0.Init c0) (evs : List Ev) :
    ∀ x ∈ (s0.run evs).reports, x.2 ≤ (s0.run evs).prim.pre :=
  (inv_run evs (inv_init h0)).prim.rep_le

/-- A replica commits only what it was allowed to, and is only ever allowed what the primary has
already committed. -/
theorem replica_commit_after_primary_aux (s0 : Sys) (c0 : Nat) (h0 : s0.Init c0) (evs : List Ev) :
    ∀ r ∈ (s0.run evs).repls, r.committed ≤ r.allowed ∧ r.allowed ≤ (s0.run evs).prim.committed := by
  intro r hr
  have := (inv_run evs (inv_init h0)).repls r hr
  exact ⟨this.com_all, this.all_pc⟩

/-- The primary never commits beyond its allowance nor beyond what it has precommitted. -/
theorem primary_commit_within_allowance_aux (s0 : Sys) (c0 : Nat) (h0 : s0.Init c0) (evs : List Ev) :
    (s0.run evs).prim.committed ≤ (s0.run evs).prim.allowed ∧ (s0.run evs).prim.allowed ≤ (s0.run evs).prim.pre :=
  ⟨(inv_run evs (inv_init h0)).prim.com_le, (inv_run evs (inv_init h0)).prim.all_le⟩

end ImmuModel.SyncRepl
