/-
C01: soundness of the transaction-proof verifiers (linear proof, dual proof, dual proof V2,
entry inclusion).  All theorems conclude `Good ∨ HColl hs` where `HColl` is an explicit
collision of the single abstract hash `H`.
-/
import ImmuModel.Store.History
import ImmuModel.Merkle.Proofs.InclSound
import ImmuModel.Merkle.Proofs.ConsSound
import ImmuModel.Merkle.Proofs.HTreeProofs

set_option linter.unusedSectionVars false

namespace ImmuModel.Store.C01Aux
open ImmuModel.Tx ImmuModel.Merkle
variable {D : Type}

theorem H_eq (hs : Hs D) (x y : Bytes) (h : hs.H x = hs.H y) : x = y ∨ HColl hs := by
  by_cases e : x = y
  · exact Or.inl e
  · exact Or.inr ⟨x, y, e, h⟩

theorem enc_append_inj (hs : Hs D) (a b : D) (x y : Bytes)
    (h : hs.enc a ++ x = hs.enc b ++ y) : a = b ∧ x = y := by
  have := List.append_inj h (by rw [hs.enc_len, hs.enc_len])
  exact ⟨hs.enc_inj _ _ this.1, this.2⟩

theorem coll_generic (hs : Hs D) (lp np : UInt8) (hne : lp ≠ np) (m : MH D)
    (hl : ∀ b, m.leafH b = hs.H (lp :: b))
    (hn : ∀ l r, m.nodeH l r = hs.H (np :: (hs.enc l ++ hs.enc r))) :
    Coll m → HColl hs := by
  intro hc
  rcases hc with ⟨a, b, c, d, hne', h⟩ | ⟨x, a, b, h⟩ | ⟨x, y, hne', h⟩
  · rw [hn, hn] at h
    refine ⟨_, _, ?_, h⟩
    intro e
    have e' := (List.cons.inj e).2
    obtain ⟨h1, h2⟩ := enc_append_inj hs a c _ _ e'
    have h3 := hs.enc_inj _ _ h2
    exact hne' (by rw [h1, h3])
  · rw [hl, hn] at h
    refine ⟨_, _, ?_, h⟩
    intro e
    exact hne (List.cons.inj e).1
  · rw [hl, hl] at h
    refine ⟨_, _, ?_, h⟩
    intro e
    exact hne' (List.cons.inj e).2

theorem foldLinear_linExt (hs : Hs D) (s : Nat) (a : D) (rest : List D) :
    ∀ (k : Nat) (b c : D), LinExt hs s a k b → foldLinear hs b (k + 1) rest = c →
      LinExt hs s a (k + rest.length) c := by
  induction rest with
  | nil =>
    intro k b c hl hf
    simp only [foldLinear] at hf
    subst hf
    simpa using hl
  | cons x xs ih =>
    intro k b c hl hf
    simp only [foldLinear] at hf
    have := ih (k + 1) _ c (LinExt.step x hl) hf
    rw [List.length_cons]
    have e : k + (xs.length + 1) = k + 1 + xs.length := by omega
    rw [e]; exact this

theorem foldLinear_snoc (hs : Hs D) (xs : List D) (x : D) :
    ∀ (a : D) (k : Nat), foldLinear hs a k (xs ++ [x]) =
      advance hs (foldLinear hs a k xs) (k + xs.length) x := by
  induction xs with
  | nil => intro a k; simp [foldLinear]
  | cons y ys ih =>
    intro a k
    simp only [List.cons_append, foldLinear, List.length_cons]
    rw [ih]
    have e : k + 1 + ys.length = k + (ys.length + 1) := by omega
    rw [e]

theorem linExt_le (hs : Hs D) (s t : Nat) (a c : D) (h : LinExt hs s a t c) : s ≤ t := by
  induction h with
  | refl => exact Nat.le_refl _
  | step _ _ ih => omega

theorem linExt_terms (hs : Hs D) (s t : Nat) (a c : D) (h : LinExt hs s a t c) :
    ∃ rest : List D, s + rest.length = t ∧ foldLinear hs a (s + 1) rest = c := by
  induction h with
  | refl => exact ⟨[], rfl, rfl⟩
  | step inner h' ih =>
    rename_i t0 b0
    obtain ⟨rest, hlen, hf⟩ := ih
    refine ⟨rest ++ [inner], ?_, ?_⟩
    · simp only [List.length_append, List.length_cons, List.length_nil]; omega
    · rw [foldLinear_snoc, hf]
      have e : s + 1 + rest.length = t0 + 1 := by omega
      rw [e]

theorem linExt_self (hs : Hs D) (s t : Nat) (a c : D) (h : LinExt hs s a t c) (e : t = s) : a = c := by
  cases h with
  | refl => rfl
  | step inner h' =>
    have := linExt_le hs _ _ _ _ h'
    omega

theorem get_idx_eq (l : List D) (i j : Nat) (hi : i < l.length) (hj : j < l.length) (e : i = j) :
    l[i]'hi = l[j]'hj := by
  subst e; rfl

theorem hist_step (hs : Hs D) (hdrs : List (TxHeader D)) (alhs : List D) (H : Hist hs hdrs alhs)
    (i : Nat) (h0 : 0 < i) (h : i < alhs.length) :
    ∃ inner, alhs[i] = advance hs (alhs[i-1]'(by omega)) (i+1) inner := by
  have hi : i < hdrs.length := by rw [H.len]; exact h
  obtain ⟨hid, halh, hprev, _, _⟩ := H.wf i hi
  unfold alh at halh
  rw [hid, hprev h0] at halh
  cases hih : innerHash hs hdrs[i] with
  | none => rw [hih] at halh; simp at halh
  | some x =>
    rw [hih] at halh
    simp only [Option.map_some, Option.some.injEq] at halh
    exact ⟨x, halh.symm⟩

theorem dual_facts [DecidableEq D] (hs : Hs D) (p : DualProof D) (sh th : TxHeader D)
    (s t : Nat) (sa ta : D)
    (hsh : p.sourceTxHeader = some sh) (hth : p.targetTxHeader = some th)
    (hv : verifyDualProof hs (some p) s t sa ta = some true) :
    sh.id = s ∧ th.id = t ∧ s ≠ 0 ∧ s ≤ t ∧ alh hs sh = some sa ∧ alh hs th = some ta ∧
    (s < th.blTxID → verifyInclusion hs.mh p.inclusionProof s th.blTxID (hs.leafFor sa) th.blRoot = true) ∧
    (0 < sh.blTxID → verifyConsistency hs.mh p.consistencyProof sh.blTxID th.blTxID sh.blRoot th.blRoot = true) ∧
    (0 < th.blTxID → verifyLastInclusion hs.mh p.lastInclusionProof th.blTxID (hs.leafFor p.targetBlTxAlh) th.blRoot = true) ∧
    (s < th.blTxID → verifyLinearProof hs p.linearProof th.blTxID t p.targetBlTxAlh ta = true) ∧
    (s = th.blTxID → p.targetBlTxAlh = sa) ∧
    (th.blTxID ≤ s → verifyLinearProof hs p.linearProof s t sa ta = true) := by
  unfold verifyDualProof at hv
  simp only [hsh, hth] at hv
  split at hv
  · simp at hv
  · rename_i c1
    split at hv
    · simp at hv
    · rename_i c2
      split at hv
      · simp at hv
      · rename_i cS hcS
        split at hv
        · simp at hv
        · rename_i c3
          split at hv
          · simp at hv
          · rename_i cT hcT
            split at hv
            · simp at hv
            · rename_i c4
              split at hv
              · simp at hv
              · rename_i c5
                split at hv
                · simp at hv
                · rename_i c6
                  split at hv
                  · simp at hv
                  · rename_i c7
                    have e1 : sh.id = s := Decidable.byContradiction fun h => c1 (Or.inl h)
                    have e2 : th.id = t := Decidable.byContradiction fun h => c1 (Or.inr h)
                    have e3 : s ≠ 0 := fun h => c2 (Or.inl (e1.trans h))
                    have e4 : s ≤ t := by
                      have : ¬ sh.id > th.id := fun h => c2 (Or.inr h)
                      omega
                    have e5 : sa = cS := Decidable.byContradiction c3
                    have e6 : ta = cT := Decidable.byContradiction c4
                    refine ⟨e1, e2, e3, e4, by rw [hcS, e5], by rw [hcT, e6], ?_, ?_, ?_, ?_, ?_, ?_⟩
                    · intro h
                      exact Decidable.byContradiction fun v => c5 ⟨h, v⟩
                    · intro h
                      exact Decidable.byContradiction fun v => c6 ⟨h, v⟩
                    · intro h
                      exact Decidable.byContradiction fun v => c7 ⟨h, v⟩
                    · intro h
                      rw [if_pos h] at hv
                      simp only [Option.some.injEq, Bool.and_eq_true] at hv
                      exact hv.1
                    · intro h
                      have hn : ¬ s < th.blTxID := by omega
                      rw [if_neg hn] at hv
                      split at hv
                      · simp at hv
                      · rename_i c8
                        exact Decidable.byContradiction fun v => c8 ⟨h, v⟩
                    · intro h
                      have hn : ¬ s < th.blTxID := by omega
                      rw [if_neg hn] at hv
                      split at hv
                      · simp at hv
                      · simp only [Option.some.injEq, Bool.and_eq_true] at hv
                        exact hv.1

end ImmuModel.Store.C01Aux

namespace ImmuModel.Store
open ImmuModel.Tx ImmuModel.Merkle
open ImmuModel.Store.C01Aux
variable {D : Type} [DecidableEq D]

/-- any collision among the Merkle hash shapes is a collision of the single hash H -/
theorem coll_of_mh (hs : Hs D) : Coll hs.mh → HColl hs :=
  coll_generic hs (UInt8.ofNat Gen.ahtreeLeafPrefix) (UInt8.ofNat Gen.ahtreeNodePrefix)
    (by decide) hs.mh (fun _ => rfl) (fun _ _ => rfl)

theorem coll_of_mhH (hs : Hs D) : Coll hs.mhH → HColl hs :=
  coll_generic hs (UInt8.ofNat Gen.htreeLeafPrefix) (UInt8.ofNat Gen.htreeNodePrefix)
    (by decide) hs.mhH (fun _ => rfl) (fun _ _ => rfl)

theorem advance_inj (hs : Hs D) (p p' : D) (id id' : Nat) (i i' : D)
    (hid : id < 2 ^ 64) (hid' : id' < 2 ^ 64)
    (h : advance hs p id i = advance hs p' id' i') : (p = p' ∧ id = id' ∧ i = i') ∨ HColl hs := by
  unfold advance at h
  rcases H_eq hs _ _ h with e | e
  · left
    rw [List.append_assoc, List.append_assoc] at e
    have h1 := List.append_inj e (by rw [beN_length, beN_length])
    obtain ⟨h2, h3⟩ := enc_append_inj hs _ _ _ _ h1.2
    have h4 := hs.enc_inj _ _ h3
    have h5 : id = id' := by
      apply beN_inj Gen.storeTxIDSize
      · simpa [Gen.storeTxIDSize] using hid
      · simpa [Gen.storeTxIDSize] using hid'
      · exact h1.1
    exact ⟨h2, h5, h4⟩
  · exact Or.inr e

theorem leafFor_inj (hs : Hs D) (a b : D) (h : hs.leafFor a = hs.leafFor b) : a = b ∨ HColl hs := by
  unfold Hs.leafFor Hs.mh at h
  rcases H_eq hs _ _ h with e | e
  · exact Or.inl (hs.enc_inj _ _ (List.cons.inj e).2)
  · exact Or.inr e

/-- T1 -/
theorem verifyLinearProof_sound (hs : Hs D) (p : LinearProof D) (s t : Nat) (sa ta : D)
    (hv : verifyLinearProof hs (some p) s t sa ta = true) : 1 ≤ s ∧ s ≤ t ∧ LinExt hs s sa t ta := by
  unfold verifyLinearProof at hv
  simp only at hv
  split at hv
  · exact absurd hv (by simp)
  · rename_i h1
    have hps : p.sourceTxID = s := by
      by_cases e : p.sourceTxID = s
      · exact e
      · exact absurd (Or.inl e) h1
    have hpt : p.targetTxID = t := by
      by_cases e : p.targetTxID = t
      · exact e
      · exact absurd (Or.inr e) h1
    split at hv
    · exact absurd hv (by simp)
    · rename_i t0 rest hterms
      split at hv
      · exact absurd hv (by simp)
      · rename_i h2
        split at hv
        · exact absurd hv (by simp)
        · rename_i h3
          rw [hps, hpt] at h2
          have hs0 : s ≠ 0 := fun e => h2 (Or.inl e)
          have hst : ¬ s > t := fun e => h2 (Or.inr (Or.inl e))
          have hsa : sa = t0 := by
            by_cases e : sa = t0
            · exact e
            · exact absurd (Or.inr (Or.inr e)) h2
          have hlen : p.terms.length = t - s + 1 := by
            by_cases e : p.terms.length = t - s + 1
            · exact e
            · exact absurd e h3
          rw [hterms, List.length_cons] at hlen
          have hta : ta = foldLinear hs t0 (p.sourceTxID + 1) rest := by simpa using hv
          rw [hps] at hta
          refine ⟨by omega, by omega, ?_⟩
          have := foldLinear_linExt hs s sa rest s t0 ta (by rw [hsa]; exact LinExt.refl) hta.symm
          have e : s + rest.length = t := by omega
          rw [e] at this
          exact this

/-- T1' completeness of the linear verifier for a genuine chain -/
theorem verifyLinearProof_complete (hs : Hs D) (s t : Nat) (sa ta : D) (h1 : 1 ≤ s)
    (hl : LinExt hs s sa t ta) : ∃ p, verifyLinearProof hs (some p) s t sa ta = true := by
  obtain ⟨rest, hlen, hf⟩ := linExt_terms hs s t sa ta hl
  refine ⟨⟨s, t, sa :: rest⟩, ?_⟩
  unfold verifyLinearProof
  simp only [ne_eq, not_true_eq_false, or_self, ↓reduceIte, List.length_cons]
  have hst : s ≤ t := by omega
  have c1 : ¬ (s = 0 ∨ s > t ∨ False) := by
    intro h
    rcases h with h | h | h
    · omega
    · omega
    · exact h
  have c2 : ¬ ¬ rest.length + 1 = t - s + 1 := by
    intro h
    apply h
    omega
  rw [if_neg c1, if_neg c2]
  simp [hf]

/-- T2: the accumulated hash of tx t commits to the accumulated hash of every earlier tx -/
theorem linExt_backward_unique (hs : Hs D) (s t : Nat) (a a' c : D) (ht : t < 2 ^ 64)
    (h1 : LinExt hs s a t c) (h2 : LinExt hs s a' t c) : a = a' ∨ HColl hs := by
  have key : ∀ t c, LinExt hs s a t c → ∀ c', LinExt hs s a' t c' → c = c' → t < 2 ^ 64 →
      a = a' ∨ HColl hs := by
    intro t c h
    induction h with
    | refl =>
      intro c' h2 e _
      have := linExt_self hs _ _ _ _ h2 rfl
      left; rw [e, this]
    | step inner h' ih =>
      intro c' h2 e ht
      rename_i t0 b
      cases h2 with
      | refl =>
        have := linExt_le hs _ _ _ _ h'
        omega
      | step inner' h2' =>
        rcases advance_inj hs _ _ _ _ _ _ ht ht e with ⟨e1, _, _⟩ | hc
        · exact ih _ h2' e1 (by omega)
        · exact Or.inr hc
  exact key t c h1 c h2 rfl ht

/-- T3 -/
theorem hist_linExt (hs : Hs D) (hdrs : List (TxHeader D)) (alhs : List D) (H : Hist hs hdrs alhs)
    (s t : Nat) (h1 : 1 ≤ s) (h2 : s ≤ t) (h3 : t ≤ alhs.length) :
    LinExt hs s (alhs[s-1]'(by omega)) t (alhs[t-1]'(by omega)) := by
  have key : ∀ n, (h : s - 1 + n < alhs.length) →
      LinExt hs s (alhs[s-1]'(by omega)) (s + n) (alhs[s-1+n]'h) := by
    intro n
    induction n with
    | zero => intro h; exact LinExt.refl
    | succ n ih =>
      intro h
      have ih' := ih (by omega)
      obtain ⟨inner, hi⟩ := hist_step hs hdrs alhs H (s - 1 + (n+1)) (by omega) h
      rw [hi]
      have e1 : s - 1 + (n + 1) + 1 = s + n + 1 := by omega
      rw [e1, get_idx_eq alhs (s - 1 + (n + 1) - 1) (s - 1 + n) (by omega) (by omega) (by omega)]
      exact LinExt.step inner ih'
  have := key (t - s) (by omega)
  have e1 : s + (t - s) = t := by omega
  rw [e1, get_idx_eq alhs (s - 1 + (t - s)) (t - 1) (by omega) (by omega) (by omega)] at this
  exact this

/-- alh of a well-formed history commits to the whole prefix -/
theorem hist_prefix_unique (hs : Hs D) (hA hB : List (TxHeader D)) (aA aB : List D)
    (HA : Hist hs hA aA) (HB : Hist hs hB aB) (s : Nat) (h1 : 1 ≤ s) (hsA : s ≤ aA.length) (hsB : s ≤ aB.length)
    (hs64 : s < 2 ^ 64)
    (heq : aA[s-1]'(by omega) = aB[s-1]'(by omega)) : aA.take s = aB.take s ∨ HColl hs := by
  have key : ∀ n, (hnA : n < aA.length) → (hnB : n < aB.length) → n + 1 < 2 ^ 64 →
      aA[n] = aB[n] → aA.take (n + 1) = aB.take (n + 1) ∨ HColl hs := by
    intro n
    induction n with
    | zero =>
      intro hnA hnB _ heq
      left
      rw [List.take_succ_eq_append_getElem hnA, List.take_succ_eq_append_getElem hnB, heq]
      simp
    | succ n ih =>
      intro hnA hnB h64 heq
      rw [List.take_succ_eq_append_getElem hnA, List.take_succ_eq_append_getElem hnB, heq]
      obtain ⟨iA, hA'⟩ := hist_step hs hA aA HA (n + 1) (by omega) hnA
      obtain ⟨iB, hB'⟩ := hist_step hs hB aB HB (n + 1) (by omega) hnB
      rw [hA', hB'] at heq
      rcases advance_inj hs _ _ _ _ _ _ h64 h64 heq with ⟨e, _, _⟩ | hc
      · simp only [Nat.add_sub_cancel] at e
        rcases ih (by omega) (by omega) (by omega) e with e2 | hc
        · left; rw [e2]
        · exact Or.inr hc
      · exact Or.inr hc
  have := key (s - 1) (by omega) (by omega) (by omega) heq
  have e : s - 1 + 1 = s := by omega
  rw [e] at this
  exact this

theorem C01Aux.leaf_opt (hs : Hs D) (o : Option D) (sa : D)
    (h : o.map hs.leafFor = some (hs.leafFor sa)) : o = some sa ∨ HColl hs := by
  cases o with
  | none => simp at h
  | some x =>
    simp only [Option.map_some, Option.some.injEq] at h
    rcases leafFor_inj hs x sa h with e | hc
    · left; rw [e]
    · exact Or.inr hc

theorem C01Aux.linear_some (hs : Hs D) (lp : Option (LinearProof D)) (s t : Nat) (sa ta : D)
    (hv : verifyLinearProof hs lp s t sa ta = true) : LinExt hs s sa t ta := by
  cases lp with
  | none => simp [verifyLinearProof] at hv
  | some p => exact (verifyLinearProof_sound hs p s t sa ta hv).2.2

/-- T5 (chain binding) -/
theorem verifyDualProof_chain (hs : Hs D) (p : DualProof D) (sh th : TxHeader D)
    (s t : Nat) (sa ta : D)
    (hsh : p.sourceTxHeader = some sh) (hth : p.targetTxHeader = some th)
    (hv : verifyDualProof hs (some p) s t sa ta = some true) :
    alh hs sh = some sa ∧ alh hs th = some ta ∧ sh.id = s ∧ th.id = t ∧ 1 ≤ s ∧ s ≤ t ∧
    (th.blTxID ≤ s → LinExt hs s sa t ta) ∧
    (s < th.blTxID → LinExt hs th.blTxID p.targetBlTxAlh t ta) := by
  obtain ⟨e1, e2, e3, e4, e5, e6, f1, f2, f3, f4, f5, f6⟩ :=
    dual_facts hs p sh th s t sa ta hsh hth hv
  refine ⟨e5, e6, e1, e2, by omega, e4, ?_, ?_⟩
  · intro h
    exact linear_some hs _ _ _ _ _ (f6 h)
  · intro h
    exact linear_some hs _ _ _ _ _ (f4 h)

/-- T4 (tree binding; closes the forged-last-leaf attack): whatever tree the accepted target header
commits to, its leaf at the trusted position is the trusted accumulated hash. -/
theorem verifyDualProof_tree_binding (hs : Hs D) (p : DualProof D) (sh th : TxHeader D)
    (s t : Nat) (sa ta : D) (L : List D)
    (hsh : p.sourceTxHeader = some sh) (hth : p.targetTxHeader = some th)
    (hv : verifyDualProof hs (some p) s t sa ta = some true)
    (hL : th.blRoot = mth hs.mh (treeLeaves hs L)) (hLen : L.length = th.blTxID)
    (hs_le : s ≤ th.blTxID) :
    L[s - 1]? = some sa ∨ HColl hs := by
  obtain ⟨e1, e2, e3, e4, e5, e6, f1, f2, f3, f4, f5, f6⟩ :=
    dual_facts hs p sh th s t sa ta hsh hth hv
  have hlen' : (treeLeaves hs L).length = th.blTxID := by
    unfold treeLeaves; rw [List.length_map, hLen]
  rcases Nat.lt_or_ge s th.blTxID with hlt | hge
  · have hi := f1 hlt
    rw [hL] at hi
    rcases verifyInclusion_sound hs.mh _ _ _ _ (treeLeaves hs L) hlen' hi with h | hc
    · unfold treeLeaves at h
      rw [List.getElem?_map] at h
      exact leaf_opt hs _ _ h
    · exact Or.inr (coll_of_mh hs hc)
  · have heq : s = th.blTxID := by omega
    have hta := f5 heq
    have hli := f3 (by omega)
    rw [hL, hta] at hli
    rcases verifyLastInclusion_sound hs.mh _ _ _ (treeLeaves hs L) hlen' hli with h | hc
    · unfold treeLeaves at h
      rw [List.getLast?_map, List.getLast?_eq_getElem?, hLen, ← heq] at h
      exact leaf_opt hs _ _ h
    · exact Or.inr (coll_of_mh hs hc)

theorem C01Aux.verifyConsistency_le (mh : MH D) (p : List D) (i j : Nat) (r1 r2 : D)
    (hv : verifyConsistency mh p i j r1 r2 = true) : i ≤ j := by
  unfold verifyConsistency at hv
  split at hv
  · exact absurd hv (by simp)
  · rename_i c
    have : ¬ i > j := fun h => c (Or.inl h)
    omega

/-- T6 (tree extension): the tree the trusted source committed to is a prefix of the target's tree -/
theorem verifyDualProof_tree_extends (hs : Hs D) (p : DualProof D) (sh th : TxHeader D)
    (s t : Nat) (sa ta : D) (L : List D)
    (hsh : p.sourceTxHeader = some sh) (hth : p.targetTxHeader = some th)
    (hv : verifyDualProof hs (some p) s t sa ta = some true)
    (hL : th.blRoot = mth hs.mh (treeLeaves hs L)) (hLen : L.length = th.blTxID)
    (hpos : 0 < sh.blTxID) :
    sh.blTxID ≤ th.blTxID ∧ (sh.blRoot = mth hs.mh (treeLeaves hs (L.take sh.blTxID)) ∨ HColl hs) := by
  obtain ⟨e1, e2, e3, e4, e5, e6, f1, f2, f3, f4, f5, f6⟩ :=
    dual_facts hs p sh th s t sa ta hsh hth hv
  have hlen' : (treeLeaves hs L).length = th.blTxID := by
    unfold treeLeaves; rw [List.length_map, hLen]
  have hc := f2 hpos
  refine ⟨verifyConsistency_le _ _ _ _ _ _ hc, ?_⟩
  rw [hL] at hc
  rcases verifyConsistency_sound hs.mh _ _ _ _ (treeLeaves hs L) hlen' hc with h | hcoll
  · left
    rw [h]
    unfold treeLeaves
    rw [List.map_take]
  · exact Or.inr (coll_of_mh hs hcoll)

/-- T7 (fork consistency): a client trusting state s of history A never accepts a state t of a
well-formed history B unless A and B agree on everything up to s. Any lag. -/
theorem verifyDualProof_fork_consistent (hs : Hs D) (p : DualProof D)
    (hA hB : List (TxHeader D)) (aA aB : List D) (HA : Hist hs hA aA) (HB : Hist hs hB aB)
    (s t : Nat) (h1 : 1 ≤ s) (hsA : s ≤ aA.length) (htB : t ≤ aB.length) (ht1 : 1 ≤ t) (ht64 : t < 2 ^ 64)
    (hth : p.targetTxHeader = some (hB[t-1]'(by rw [HB.len]; omega)))
    (hsh : p.sourceTxHeader = some (hA[s-1]'(by rw [HA.len]; omega)))
    (hv : verifyDualProof hs (some p) s t (aA[s-1]'(by omega)) (aB[t-1]'(by omega)) = some true) :
    aA.take s = aB.take s ∨ HColl hs := by
  have htlen : t - 1 < hB.length := by rw [HB.len]; omega
  obtain ⟨hid, halh, hprev, hbl, hroot⟩ := HB.wf (t-1) htlen
  obtain ⟨_, _, _, _, _, hst, c1, c2⟩ := verifyDualProof_chain hs p _ _ s t _ _ hsh hth hv
  have h64 : s < 2 ^ 64 := by omega
  rcases Nat.lt_or_ge s (hB[t-1]).blTxID with hlt | hge
  · have hpos : 0 < (hB[t-1]).blTxID := by omega
    have hL := hroot hpos
    have hLen : (aB.take (hB[t-1]).blTxID).length = (hB[t-1]).blTxID := by
      rw [List.length_take]; omega
    rcases verifyDualProof_tree_binding hs p _ _ s t _ _ _ hsh hth hv hL hLen (by omega) with h | hc
    · rw [List.getElem?_take, if_pos (by omega)] at h
      have hsB : s ≤ aB.length := by omega
      rw [List.getElem?_eq_getElem (by omega)] at h
      exact hist_prefix_unique hs hA hB aA aB HA HB s h1 hsA hsB h64 (Option.some.inj h).symm
    · exact Or.inr hc
  · have l1 := c1 hge
    have l2 := hist_linExt hs hB aB HB s t h1 hst htB
    rcases linExt_backward_unique hs s t _ _ _ ht64 l1 l2 with e | hc
    · exact hist_prefix_unique hs hA hB aA aB HA HB s h1 hsA (by omega) h64 e
    · exact Or.inr hc

theorem C01Aux.dual2_facts (hs : Hs D) (p : DualProofV2 D) (sh th : TxHeader D)
    (s t : Nat) (sa ta : D)
    (hsh : p.sourceTxHeader = some sh) (hth : p.targetTxHeader = some th)
    (hv : verifyDualProofV2 hs (some p) s t sa ta = some (.ok ())) :
    s ≤ t ∧ t - 1 = th.blTxID ∧ (s = t → sa = ta) ∧
    (s ≠ t → verifyInclusion hs.mh p.inclusionProof s th.blTxID (hs.leafFor sa) th.blRoot = true) := by
  unfold verifyDualProofV2 at hv
  simp only [hsh, hth] at hv
  split at hv
  · simp at hv
  · rename_i c1
    split at hv
    · simp at hv
    · rename_i c2
      split at hv
      · simp at hv
      · rename_i cS hcS
        split at hv
        · simp at hv
        · rename_i c3
          split at hv
          · simp at hv
          · rename_i cT hcT
            split at hv
            · simp at hv
            · rename_i c4
              split at hv
              · simp at hv
              · rename_i c5
                have e2 : th.id = t := Decidable.byContradiction fun h => c1 (Or.inr (Or.inr h))
                have e3 : th.id - 1 = th.blTxID := Decidable.byContradiction fun h => c5 (Or.inr h)
                refine ⟨by omega, by rw [← e2]; exact e3, ?_, ?_⟩
                · intro h
                  rw [if_pos h] at hv
                  split at hv
                  · simp at hv
                  · rename_i c6
                    exact Decidable.byContradiction c6
                · intro h
                  rw [if_neg h] at hv
                  split at hv
                  · simp at hv
                  · rename_i c6
                    exact Decidable.byContradiction c6

/-- T8 (V2 tree binding) -/
theorem verifyDualProofV2_tree_binding (hs : Hs D) (p : DualProofV2 D) (sh th : TxHeader D)
    (s t : Nat) (sa ta : D) (L : List D)
    (hsh : p.sourceTxHeader = some sh) (hth : p.targetTxHeader = some th)
    (hv : verifyDualProofV2 hs (some p) s t sa ta = some (.ok ()))
    (hL : th.blRoot = mth hs.mh (treeLeaves hs L)) (hLen : L.length = th.blTxID) (hlt : s < t) :
    L[s - 1]? = some sa ∨ HColl hs := by
  obtain ⟨_, _, _, f⟩ := dual2_facts hs p sh th s t sa ta hsh hth hv
  have hlen' : (treeLeaves hs L).length = th.blTxID := by
    unfold treeLeaves; rw [List.length_map, hLen]
  have hi := f (by omega)
  rw [hL] at hi
  rcases verifyInclusion_sound hs.mh _ _ _ _ (treeLeaves hs L) hlen' hi with h | hc
  · unfold treeLeaves at h
    rw [List.getElem?_map] at h
    exact leaf_opt hs _ _ h
  · exact Or.inr (coll_of_mh hs hc)

/-- T8' same id ⇒ same state -/
theorem verifyDualProofV2_same_id (hs : Hs D) (p : DualProofV2 D) (s : Nat) (sa ta : D)
    (hv : verifyDualProofV2 hs (some p) s s sa ta = some (.ok ())) : sa = ta := by
  cases hsh : p.sourceTxHeader with
  | none =>
    unfold verifyDualProofV2 at hv
    simp [hsh] at hv
  | some sh =>
    cases hth : p.targetTxHeader with
    | none =>
      unfold verifyDualProofV2 at hv
      simp [hsh, hth] at hv
    | some th =>
      exact (dual2_facts hs p sh th s s sa ta hsh hth hv).2.2.1 rfl

theorem entryDigestV1_inj (hs : Hs D) (e e' : EntryV1 D) (hf : e.Fits) (hf' : e'.Fits)
    (h : e.digest hs = e'.digest hs) : e = e' ∨ HColl hs := by
  unfold EntryV1.digest entryDigestV1 at h
  rcases H_eq hs _ _ h with eb | hc
  · left
    simp only [List.append_assoc] at eb
    have a1 := List.append_inj eb (by rw [beN_length, beN_length])
    have l1 : e.md.length = e'.md.length :=
      beN_inj Gen.storeSszSize _ _ (by simpa [Gen.storeSszSize] using hf.1)
        (by simpa [Gen.storeSszSize] using hf'.1) a1.1
    have a2 := List.append_inj a1.2 l1
    have a3 := List.append_inj a2.2 (by rw [beN_length, beN_length])
    have l2 : e.key.length = e'.key.length :=
      beN_inj Gen.storeSszSize _ _ (by simpa [Gen.storeSszSize] using hf.2)
        (by simpa [Gen.storeSszSize] using hf'.2) a3.1
    have a4 := List.append_inj a3.2 l2
    have a5 := hs.enc_inj _ _ a4.2
    cases e with
    | mk md key hvalue =>
      cases e' with
      | mk md' key' hvalue' =>
        simp only at a2 a4 a5
        rw [a2.1, a4.1, a5]
  · exact Or.inr hc

/-- T9 (entry soundness): an accepted entry-inclusion proof against the entries digest `Eh` of a tx
whose entries are `es` proves that the (metadata, key, value-hash) triple is one of them. -/
theorem entry_inclusion_sound (hs : Hs D) (pr : HProof D) (e : EntryV1 D) (es : List (EntryV1 D))
    (hne : es ≠ []) (hf : e.Fits) (hfs : ∀ x ∈ es, x.Fits)
    (hv : hVerifyInclusion hs.mhH hs.enc pr (e.digest hs)
            (mth hs.mhH ((es.map (EntryV1.digest hs)).map (fun d => hs.mhH.leafH (hs.enc d)))) = true) :
    e ∈ es ∨ HColl hs := by
  rcases hVerifyInclusion_sound hs.mhH hs.enc (fun a b => hs.enc_inj a b) pr (e.digest hs)
      (es.map (EntryV1.digest hs)) (by simpa using hne) hv with h | hc
  · obtain ⟨e', he', hd⟩ := List.mem_map.1 h
    rcases entryDigestV1_inj hs e' e (hfs e' he') hf hd with r | hc
    · left; rw [← r]; exact he'
    · exact Or.inr hc
  · exact Or.inr (coll_of_mhH hs hc)

end ImmuModel.Store
