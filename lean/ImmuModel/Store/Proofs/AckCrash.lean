/-
C07 — what a power loss (and a close/reopen) does to the acknowledged prefix of a replica
(`Store/ReplicaDisk.lean`): it survives when no DISCARDED record lies in the fsynced part of the tx
log; with a discarded record in front the re-loading of `Open` puts the discarded transaction back
in place of the acknowledged one; close/reopen marks records durable that were never fsynced.
-/
import ImmuModel.Store.Proofs.AckDurable
import ImmuModel.Store.Proofs.ReplicaChainLemmas

namespace ImmuModel.Replica.AckCrashAux
open ImmuModel ImmuModel.Tx ImmuModel.Merkle ImmuModel.GoInt ImmuModel.Replica
open ImmuModel.Replica.ReplicaPrefixAux ImmuModel.Replica.ReplicaChainAux ImmuModel.Replica.AckDurableAux

variable {D : Type}

/-- `Open` re-loads every record of a well-formed continuation. -/
theorem reload_accepts (hs : Hs D) : ∀ (l Y m : List (RRec D)), ChainOK hs (Y ++ l) →
    reload hs Y.length (hs.enc (lastAlh hs Y)) (l ++ m) =
      l ++ reload hs (Y ++ l).length (hs.enc (lastAlh hs (Y ++ l))) m := by
  intro l
  induction l with
  | nil => intro Y m _; simp
  | cons r t ih =>
    intro Y m H
    have hY1 : ChainOK hs ((Y ++ [r]) ++ t) := by
      rw [List.append_assoc]; simpa using H
    have hr : RecOK hs Y r := ((chainOK_snoc hs Y r).1 (chainOK_append_left hs (Y ++ [r]) t hY1)).2
    have hih := ih (Y ++ [r]) m hY1
    rw [lastAlh_snoc, List.length_append, List.length_singleton] at hih
    simp only [List.cons_append, reload]
    rw [if_pos ⟨hr.1, hr.2.1⟩, hih]
    simp [List.append_assoc]

theorem reload_cons (hs : Hs D) (n : Nat) (palh : Bytes) (r : RRec D) (t : List (RRec D))
    (h : r.hdr.id = n + 1 ∧ r.hdr.prevAlh = palh) :
    reload hs n palh (r :: t) = r :: reload hs (n + 1) (hs.enc r.alh) t := by
  simp only [reload]
  rw [if_pos h]

theorem live_of_all_live (l : List (RRec D × Bool)) (h : ∀ x ∈ l, x.2 = true) : live l = l.map (·.1) := by
  induction l with
  | nil => rfl
  | cons a t ih =>
    obtain ⟨r, b⟩ := a
    have hb : b = true := h (r, b) List.mem_cons_self
    subst hb
    simp only [live_cons_true, List.map_cons]
    rw [ih (fun x hx => h x (List.mem_cons_of_mem _ hx))]

theorem restart_chain (hs : Hs D) (st : RSt D) :
    (restart hs st).chain = st.committed ++
      reload hs st.committed.length (hs.enc (st.committedAlh hs)) (st.log.map (·.1) ++ st.ghost.toList) := by
  unfold restart
  dsimp only
  rw [chain_def]
  dsimp only
  rw [live_map_true]

/-- **A power loss keeps the acknowledged prefix** when the fsynced part of the tx log holds no
discarded record. -/
theorem crash_keeps_acked (hs : Hs D) (d : DSt D) (h : AckOnDisk d) (hch : ChainOK hs d.st.chain)
    (hlive : ∀ x ∈ d.st.log.take d.fs, x.2 = true) :
    (d.crash hs).st.chain.take d.st.durable = d.st.chain.take d.st.durable ∧
    d.st.durable ≤ (d.crash hs).st.durable := by
  have hF : live (d.st.log.take d.fs) = (d.st.log.take d.fs).map (·.1) := live_of_all_live _ hlive
  have hchain : d.st.chain = (d.st.committed ++ live (d.st.log.take d.fs)) ++ live (d.st.log.drop d.fs) := by
    rw [chain_def, live_take_prefix d.st.log d.fs, List.append_assoc]
  have hAF : ChainOK hs (d.st.committed ++ live (d.st.log.take d.fs)) := by
    rw [hchain] at hch
    exact chainOK_append_left hs _ _ hch
  have hcr : (d.crash hs).st.chain = d.st.committed ++ (live (d.st.log.take d.fs) ++
      reload hs (d.st.committed ++ live (d.st.log.take d.fs)).length
        (hs.enc (lastAlh hs (d.st.committed ++ live (d.st.log.take d.fs))))
        (if d.gfs ∧ d.fs = d.st.log.length then d.st.ghost else none).toList) := by
    unfold DSt.crash
    dsimp only
    rw [restart_chain]
    dsimp only
    rw [← hF]
    show d.st.committed ++ reload hs d.st.committed.length (hs.enc (lastAlh hs d.st.committed)) _ = _
    rw [reload_accepts hs _ _ _ hAF]
  have hcov := h.covered
  rw [fsyncedLive_eq] at hcov
  have hlen : d.st.durable ≤ (d.st.committed ++ live (d.st.log.take d.fs)).length := by
    rw [List.length_append]; have := h.committed_le; omega
  constructor
  · rw [hcr, hchain, ← List.append_assoc, List.take_append_of_le_length hlen, List.take_append_of_le_length hlen]
  · rw [crash_durable_lastPre, lastPre_eq, hcr, ← List.append_assoc, List.length_append]
    omega

/-- **Close/reopen marks un-fsynced records durable** (witness): one precommitted, never fsynced
record `r` that chains after the committed state; after `Close()` + `Open()` the watermark covers it
although nothing was fsynced. -/
theorem restart_marks_unfsynced_durable (hs : Hs D) (d : DSt D) (r : RRec D)
    (hlog : d.st.log = [(r, true)]) (hg : d.st.ghost = none) (hfs : d.fs = 0)
    (hid : r.hdr.id = d.st.committed.length + 1) (hprev : r.hdr.prevAlh = hs.enc (d.st.committedAlh hs)) :
    (d.restart hs).st.durable = d.st.committed.length + 1 ∧ (d.restart hs).fs = 0 ∧ ¬ AckOnDisk (d.restart hs) := by
  have hst : (d.restart hs).st.log = [(r, true)] ∧ (d.restart hs).st.durable = d.st.committed.length + 1 ∧
      (d.restart hs).st.committed = d.st.committed := by
    unfold DSt.restart restart
    dsimp only
    rw [hlog, hg]
    simp [reload, hid, hprev]
  have hfs' : (d.restart hs).fs = 0 := by
    unfold DSt.restart
    dsimp only
    have : d.fsAll = 0 := by unfold DSt.fsAll; rw [hfs, hg]; simp
    rw [this]
    split
    · rfl
    · rename_i hn
      have : (restart hs d.st).log.length = 1 := by
        have := hst.1
        unfold DSt.restart at this
        dsimp only at this
        rw [this]; rfl
      omega
  refine ⟨hst.2.1, hfs', fun ha => ?_⟩
  have hc := ha.covered
  rw [fsyncedLive_eq, hfs', hst.2.1, hst.2.2] at hc
  simp at hc

/-- **A discarded record shadows the acknowledged one after a power loss** (witness): the tx log
holds, both fsynced, the discarded record `ra` and after it the live record `rb` that replaced it
under the same id; the watermark covers `rb`.  After the power loss `Open` re-loads `ra`: the store
now holds — and reports as durably precommitted — `ra` under the acknowledged id. -/
theorem discarded_record_shadows_acked (hs : Hs D) (d : DSt D) (ra rb : RRec D)
    (hlog : d.st.log = [(ra, false), (rb, true)]) (hfs : d.fs = 2)
    (hdur : d.st.durable = d.st.committed.length + 1)
    (hid : ra.hdr.id = d.st.committed.length + 1) (hprev : ra.hdr.prevAlh = hs.enc (d.st.committedAlh hs)) :
    d.st.chain.take d.st.durable = d.st.committed ++ [rb] ∧
    (d.crash hs).st.chain.take d.st.durable = d.st.committed ++ [ra] ∧
    d.st.durable ≤ (d.crash hs).st.durable := by
  have h1 : d.st.chain.take d.st.durable = d.st.committed ++ [rb] := by
    rw [chain_def, hlog, hdur]
    simp [List.take_append, List.take_of_length_le]
  have hcr : ∃ X, (d.crash hs).st.chain = d.st.committed ++ ra :: X := by
    unfold DSt.crash
    dsimp only
    rw [restart_chain]
    dsimp only
    rw [hlog, hfs]
    simp only [List.take_succ_cons, List.take_zero, List.map_cons, List.map_nil, List.cons_append, List.nil_append]
    refine ⟨_, congrArg _ (reload_cons hs _ _ _ _ ⟨hid, ?_⟩)⟩
    exact hprev
  obtain ⟨X, hX⟩ := hcr
  refine ⟨h1, ?_, ?_⟩
  · rw [hX, hdur]
    simp [List.take_append, List.take_of_length_le]
  · rw [crash_durable_lastPre, lastPre_eq, hX, hdur, List.length_append]
    simp

end ImmuModel.Replica.AckCrashAux
