/-
C07 — a replica fed (in ANY schedule) with exports of a genuine primary history holds a prefix of
that history; the next genuine export is accepted.  The export/parse round trip is taken as the
hypothesis `RoundTrip` here (it is proved in `Tx/Proofs/ExportRT.lean`; `Props/C07.lean` puts the
two together).  Helper lemmas live in `ImmuModel.Replica.ReplicaPrefixAux`.
-/
import ImmuModel.Store.ReplicaSpec
import ImmuModel.Store.Proofs.ReplicaPrefixLemmas

namespace ImmuModel.Replica
open ImmuModel ImmuModel.Tx ImmuModel.Merkle ImmuModel.GoInt

variable {D : Type}

/-- The round-trip fact of `Tx/Proofs/ExportRT.lean`. -/
def RoundTrip : Prop :=
  ∀ x : Parsed, x.wf = true → ∃ b, exportTx x = .ok b ∧ parseExported b = .ok { x with hdr := x.hdr.norm }

namespace ReplicaPrefixAux

/-- A genuine export parses back to what was framed (the header is already normalised). -/
theorem parse_export (rt : RoundTrip) (hs : Hs D) (cfg : RCfg) (P : List (RRec D)) (hP : Genuine hs cfg P)
    (k : Nat) (hk : k < P.length) (tr : Bool) (b : Bytes) (hb : exportOf (P[k]) tr = .ok b) :
    parseExported b = .ok (toParsed (P[k]) tr) := by
  obtain ⟨g1, g2, g3, g4, g5, g6, g7, g8, g9, g10⟩ := hP.recs k hk
  obtain ⟨b', e1, e2⟩ := rt (toParsed (P[k]) tr) (toParsed_wf hs cfg (P[k]) tr g8 g7 g10)
  have hb' : exportTx (toParsed (P[k]) tr) = .ok b := hb
  rw [hb'] at e1
  injection e1 with e1
  subst e1
  rw [e2]
  have : (toParsed (P[k]) tr).hdr.norm = (toParsed (P[k]) tr).hdr := g9
  rw [this]

theorem inv_apply (rt : RoundTrip) {cfg : RCfg} {P : List (RRec D)} (hs : Hs D) (hP : Genuine hs cfg P)
    {st : RSt D} (hi : Inv cfg P st) (op : Op)
    (hop : match op with
      | .deliver b _ => ∃ k tr, ∃ (h : k < P.length), exportOf (P[k]) tr = .ok b
      | _ => True) : Inv cfg P (st.apply hs op) := by
  cases op with
  | deliver b skip =>
    obtain ⟨k, tr, hk, hb⟩ := hop
    exact inv_replicate hs hP hi b skip k hk tr (parse_export rt hs cfg P hP k hk tr b hb)
  | sync => exact inv_sync hi
  | discard txID => exact inv_discard hi txID
  | allow txID => exact inv_allow hi txID
  | restart => exact inv_restart hs hi

theorem inv_run (rt : RoundTrip) {cfg : RCfg} {P : List (RRec D)} (hs : Hs D) (hP : Genuine hs cfg P)
    (ops : List Op) (hops : DeliversOnly P ops) {st : RSt D} (hi : Inv cfg P st) :
    Inv cfg P (st.run hs ops) := by
  induction ops generalizing st with
  | nil => exact hi
  | cons op t ih =>
    exact ih (fun o ho => hops o (List.mem_cons_of_mem _ ho))
      (inv_apply rt hs hP hi op (hops op List.mem_cons_self))

end ReplicaPrefixAux
open ReplicaPrefixAux

/-- **Prefix.** Start from an empty replica with the primary's limits; apply ANY sequence of
operations in which every delivered byte string is an export (with values or by digest) of SOME
record of the genuine history `P` — any order, duplicates, retries, with or without
`skipIntegrityCheck`, interleaved with syncs, discards, allowances and restarts.  Then the
transactions the replica holds (committed followed by precommitted) are, position by position,
the first transactions of `P`: same header, same accumulated hash, same entries (with or without
values). -/
theorem replica_prefix_aux (rt : RoundTrip) (hs : Hs D) (cfg : RCfg) (P : List (RRec D))
    (hP : Genuine hs cfg P) (ops : List Op) (hops : DeliversOnly P ops) :
    ((RSt.init cfg : RSt D).run hs ops).chain.length ≤ P.length ∧
    ∀ i (h : i < ((RSt.init cfg : RSt D).run hs ops).chain.length) (h' : i < P.length),
      SameTx ((((RSt.init cfg : RSt D).run hs ops).chain)[i]) (P[i]) :=
  inv_final (inv_run rt hs hP ops hops (inv_init cfg P))

/-- The replica's chain is the first `n` transactions of `P`. -/
def HoldsPrefix (st : RSt D) (P : List (RRec D)) (n : Nat) : Prop :=
  st.chain.length = n ∧ n ≤ P.length ∧
  ∀ i (h : i < st.chain.length) (h' : i < P.length), SameTx (st.chain[i]) (P[i])


namespace ReplicaPrefixAux

theorem holds_snoc {st st' : RSt D} {P : List (RRec D)} {n : Nat} {r : RRec D} (hn : n < P.length)
    (hpre : HoldsPrefix st P n) (hr : SameTx r (P[n])) (hc : st'.chain = st.chain ++ [r]) :
    HoldsPrefix st' P (n + 1) := by
  obtain ⟨h1, h2, h3⟩ := hpre
  unfold HoldsPrefix
  simp only [hc]
  refine ⟨by simp [h1], by omega, fun i h h' => ?_⟩
  by_cases c : i < st.chain.length
  · rw [List.getElem_append_left c]; exact h3 i c h'
  · have hi : i = n := by simp at h; omega
    subst hi
    rw [List.getElem_append_right (by omega)]
    simpa [h1] using hr

end ReplicaPrefixAux

/-- **The next genuine export is accepted** (completeness of the checks), in either form and with
or without `skipIntegrityCheck`, provided the call does not have to wait, the precommit buffer has
a free slot and (Synced) the active-transactions window is not exhausted; the stored record is
`P`'s.  (`hallow` excludes the state "allowance beyond what is precommitted", reachable only by
discarding after an allowance on a Synced store, in which `mayCommit` fails.) -/
theorem replica_accepts_next_aux (rt : RoundTrip) (hs : Hs D) (cfg : RCfg) (P : List (RRec D))
    (hP : Genuine hs cfg P) (st : RSt D) (n : Nat) (hn : n < P.length) (tr skip : Bool)
    (hcfg : st.cfg.maxKeyLen = cfg.maxKeyLen ∧ st.cfg.maxValueLen = cfg.maxValueLen ∧ st.cfg.maxTxEntries = cfg.maxTxEntries)
    (hpre : HoldsPrefix st P n) (hwait : n ≤ st.waitDone) (hbuf : st.pre.length < st.bufCap)
    (hwin : st.cfg.synced = true → n < st.committed.length + st.cfg.maxActive)
    (hact : 0 < st.cfg.maxActive)
    (hallow : st.cfg.extAllowance = true → st.allowed ≤ n + 1)
    (b : Bytes) (hb : exportOf (P[n]) tr = .ok b) :
    ∃ r, (replicate hs st b skip).out = .ok r ∧ SameTx r (P[n]) ∧
      HoldsPrefix (replicate hs st b skip).st P (n + 1) := by
  obtain ⟨hlen, hnP, hsame⟩ := hpre
  have hparse := parse_export rt hs cfg P hP n hn tr b hb
  obtain ⟨r, hpc⟩ := precommit_genuine_ok hs cfg P hP st hcfg n hn tr skip hlen hsame hwait hwin hact
  obtain ⟨p1, p2, p3⟩ := precommit_genuine_inv hs cfg P hP st hcfg n hn tr skip r hpc
  have hch : st.chain.length = st.committed.length + st.pre.length := by simp [RSt.chain]
  -- the state after the in-memory precommit, whatever `durable`/`waitDone` become
  have hc1 : ∀ (d w : Nat),
      ({ st with log := st.log ++ [(r, true)], ghost := none,
                 waitDone := w, durable := d } : RSt D).chain =
        st.chain ++ [r] := by
    intro d w
    simp only [chain_def, live_append, live_cons_true, live_nil, List.append_assoc]
  -- `mayCommit` cannot fail on it
  have hmc : ∀ (st2 : RSt D) (x : XErr), mayCommit st2 = .error x → st2.cfg = st.cfg →
      st2.committed = st.committed → st2.log = st.log ++ [(r, true)] → st2.allowed = st.allowed → False := by
    intro st2 x he e1 e2 e3 e4
    have hp2 : st2.pre.length = st.pre.length + 1 := by
      rw [pre_eq, e3, live_append, pre_eq]; simp
    obtain ⟨st', h'⟩ := mayCommit_ok_of st2 (by
      unfold RSt.commitAllowedUpTo
      rw [e1, e2, e4]
      split
      · rename_i hx
        have := hallow hx
        omega
      · rw [RSt.lastPre, e2]; omega)
    rw [h'] at he
    cases he
  unfold replicate
  rw [hparse]
  dsimp only
  rw [hpc]
  dsimp only
  rw [if_neg (by omega)]
  by_cases c2 : st.cfg.synced = true
  · rw [if_pos c2]
    exact ⟨r, rfl, p3, holds_snoc hn ⟨hlen, hnP, hsame⟩ p3 (hc1 _ _)⟩
  rw [if_neg c2]
  split
  · rename_i x he
    exact (hmc _ x he rfl rfl rfl rfl).elim
  · rename_i st3 h3
    refine ⟨r, rfl, p3, holds_snoc hn ⟨hlen, hnP, hsame⟩ p3 ?_⟩
    show st3.chain = _
    rw [mayCommit_chain _ _ h3]
    exact hc1 _ _

/-- **Re-replication from genesis** (the run that used to refute the unconditional prefix statement:
before the repair of `performPrecommit` the third delivery stored tx 1 with the `BlRoot` of tx 2, left
in the pooled `Tx`).  Replicate tx 1 and tx 2, discard both, replicate tx 1 again: the
replica holds exactly the primary's tx 1 — header (`BlTxID = 0`, zero `BlRoot`), accumulated hash,
entries. -/
theorem rereplication_from_genesis (rt : RoundTrip) (hs : Hs D) (cfg : RCfg) (P : List (RRec D)) (hP : Genuine hs cfg P)
    (h2 : 2 ≤ P.length)
    (hcfg : cfg.synced = false ∧ cfg.extAllowance = true ∧ 2 ≤ cfg.maxActive)
    (b0 b1 : Bytes) (e0 : exportOf (P[0]'(by omega)) false = .ok b0) (e1 : exportOf (P[1]'(by omega)) false = .ok b1) :
    let st := (RSt.init cfg : RSt D).run hs [.deliver b0 false, .deliver b1 false, .discard 1, .deliver b0 false]
    ∃ r, st.chain = [r] ∧ SameTx r (P[0]'(by omega)) ∧ r.hdr.blTxID = 0 ∧ r.hdr.blRoot = zeros32 := by
  obtain ⟨hsy, hx, hma⟩ := hcfg
  have hk0 : 0 < P.length := by omega
  have hk1 : 1 < P.length := by omega
  have hlim : ∀ st : RSt D, st.cfg = cfg → SameLimits st.cfg cfg := fun st h => by rw [h]; exact ⟨rfl, rfl, rfl⟩
  have hparse0 := parse_export rt hs cfg P hP 0 hk0 false b0 e0
  have hparse1 := parse_export rt hs cfg P hP 1 hk1 false b1 e1
  -- first delivery
  let s0 : RSt D := RSt.init cfg
  obtain ⟨r0, hpc0⟩ := precommit_genuine_ok hs cfg P hP s0 (hlim s0 rfl) 0 hk0 false false rfl
    (fun i h => absurd h (by simp [s0, RSt.init, RSt.chain, RSt.pre]))
    (Nat.le_refl _) (fun c => by simp [s0, RSt.init, hsy] at c) (by show 0 < cfg.maxActive; omega)
  obtain ⟨_, _, q0⟩ := precommit_genuine_inv hs cfg P hP s0 (hlim s0 rfl) 0 hk0 false false r0 hpc0
  obtain ⟨a1, a2, a3, a4, a5, a6⟩ := replicate_ext0 hs s0 b0 false _ r0 hparse0 hpc0
    (by show 0 < cfg.maxActive; omega) hsy hx rfl rfl
  generalize hs1 : (replicate hs s0 b0 false).st = s1 at a1 a2 a3 a4 a5 a6
  have a3' : s1.log = [(r0, true)] := a3
  obtain ⟨c1, c2, c3⟩ := chain_of_fields s1 _ a2 a3'
  simp only [live_cons_true, live_nil, List.length_cons, List.length_nil] at c1 c2 c3
  have hcfg1 : s1.cfg = cfg := a1
  -- second delivery
  obtain ⟨r1, hpc1⟩ := precommit_genuine_ok hs cfg P hP s1 (hlim s1 hcfg1) 1 hk1 false false (by rw [c1]; rfl)
    (fun i h h' => by
      have hi : i = 0 := by rw [c1] at h; simpa using h
      subst hi
      simp only [c1]
      exact q0)
    (by have : s0.lastPre = 0 := rfl
        omega)
    (fun c => by rw [hcfg1, hsy] at c; cases c) (by rw [hcfg1]; omega)
  obtain ⟨d1, d2, d3, d4, d5, d6⟩ := replicate_ext0 hs s1 b1 false _ r1 hparse1 hpc1
    (by rw [c2, a5]; show 1 < cfg.maxActive; omega) (by rw [hcfg1]; exact hsy) (by rw [hcfg1]; exact hx) a4 a2
  generalize hs2 : (replicate hs s1 b1 false).st = s2 at d1 d2 d3 d4 d5 d6
  have d3' : s2.log = [(r0, true), (r1, true)] := by rw [d3, a3']; rfl
  obtain ⟨f1, f2, f3⟩ := chain_of_fields s2 _ d2 d3'
  simp only [live_cons_true, live_nil, List.length_cons, List.length_nil] at f1 f2 f3
  -- the discard
  obtain ⟨g1, g2, g3, g4, g5, g6⟩ := discard_fields s2 1 (by omega) (by rw [d2]; simp) (by rw [f3]; omega)
  generalize hs3 : (discardSince s2 1).st = s3 at g1 g2 g3 g4 g5 g6
  have g3' : s3.log = [(r0, false), (r1, false)] := by
    rw [g3, f2, f3, d3']; rfl
  have g2' : s3.committed = [] := by rw [g2, d2]
  obtain ⟨k1, k2, k3⟩ := chain_of_fields s3 _ g2' g3'
  simp only [live_cons_false, live_nil, List.length_nil] at k1 k2 k3
  have hcfg3 : s3.cfg = cfg := by rw [g1, d1, hcfg1]
  -- third delivery: accepted again, and it is the primary's tx 1
  obtain ⟨r2, hpc2⟩ := precommit_genuine_ok hs cfg P hP s3 (hlim s3 hcfg3) 0 hk0 false false (by rw [k1]; rfl)
    (fun i h => absurd h (by rw [k1]; simp)) (Nat.zero_le _)
    (fun c => by rw [hcfg3, hsy] at c; cases c) (by rw [hcfg3]; omega)
  obtain ⟨_, _, q2⟩ := precommit_genuine_inv hs cfg P hP s3 (hlim s3 hcfg3) 0 hk0 false false r2 hpc2
  obtain ⟨n1, n2, n3, n4, n5, n6⟩ := replicate_ext0 hs s3 b0 false _ r2 hparse0 hpc2
    (by rw [k2, g5, d5, a5]; show 0 < cfg.maxActive; omega) (by rw [hcfg3]; exact hsy) (by rw [hcfg3]; exact hx)
    (by rw [g4, d4]) g2'
  have hb0 : (P[0]).hdr.blTxID = 0 := by have := (hP.recs 0 hk0).2.2.2.1; omega
  have hst : (RSt.init cfg : RSt D).run hs [.deliver b0 false, .deliver b1 false, .discard 1, .deliver b0 false] =
      (replicate hs s3 b0 false).st := by
    rw [← hs3, ← hs2, ← hs1]; rfl
  intro st
  show ∃ r, ((RSt.init cfg : RSt D).run hs [.deliver b0 false, .deliver b1 false, .discard 1, .deliver b0 false]).chain
    = [r] ∧ _
  rw [hst]
  have n3' : (replicate hs s3 b0 false).st.log = [(r0, false), (r1, false), (r2, true)] := by rw [n3, g3']; rfl
  obtain ⟨o1, _, _⟩ := chain_of_fields _ _ n2 n3'
  simp only [live_cons_false, live_cons_true, live_nil] at o1
  have hz : (P[0]).hdr.blRoot = zeros32 := by
    rw [(hP.recs 0 hk0).2.2.2.2.1, blRootOf, if_neg (by omega)]
  exact ⟨r2, o1, q2, by rw [q2.1]; exact hb0, by rw [q2.1]; exact hz⟩

end ImmuModel.Replica
