/-
Helper lemmas for the C14 theorems (Props/C14.lean). Core Lean only.
-/
import ImmuModel.Store.Truncate

namespace ImmuModel.Store.TruncateAux
open ImmuModel.Store.Truncate

/-! ### appendValues -/

theorem appendValues_mem {v : Nat} : ∀ {lens : List Nat} {o : Nat} {e : Ent},
    e ∈ appendValues v o lens → e.vlog = v ∧ (0 < e.len → o ≤ e.off) ∧ (e.len = 0 → e.off = 0) := by
  intro lens
  induction lens with
  | nil => intro o e h; simp [appendValues] at h
  | cons l ls ih =>
    intro o e h
    unfold appendValues at h
    split at h
    · rcases List.mem_cons.mp h with h | h
      · subst h; simp
      · exact ih h
    · rename_i hl
      rcases List.mem_cons.mp h with h | h
      · subst h; simp; omega
      · have := ih h
        refine ⟨this.1, fun h0 => ?_, this.2.2⟩
        have := this.2.1 h0; omega

/-- The first entry of a placed tx bounds every non-empty entry from below, in the same vlog. -/
theorem placed_first {tx : TxEnts} (hp : Placed tx) {f : Ent} {rest : TxEnts} (htx : tx = f :: rest)
    {e : Ent} (he : e ∈ tx) : f.vlog = e.vlog ∧ (0 < e.len → f.off ≤ e.off) := by
  obtain ⟨v, o, lens, h⟩ := hp
  subst h
  cases lens with
  | nil => simp [appendValues] at htx
  | cons l ls =>
    have hev := appendValues_mem he
    unfold appendValues at htx
    split at htx
    · have hf : f = ⟨v, 0, 0⟩ := by
        have := (List.cons.inj htx).1; exact this.symm
      subst hf
      exact ⟨hev.1.symm, fun _ => Nat.zero_le _⟩
    · have hf : f = ⟨v, o, l⟩ := by
        have := (List.cons.inj htx).1; exact this.symm
      subst hf
      exact ⟨hev.1.symm, hev.2.1⟩

/-! ### tombstones: domination -/

/-- every entry of `t'` stems from an entry of `t` with the same vlog and a value not larger -/
def Dom (t' t : Tomb) : Prop := ∀ p' ∈ t', ∃ p ∈ t, p'.1 = p.1 ∧ p'.2 ≤ p.2

theorem Dom.refl (t : Tomb) : Dom t t := fun p hp => ⟨p, hp, rfl, Nat.le_refl _⟩

theorem Dom.trans {a b c : Tomb} (h1 : Dom a b) (h2 : Dom b c) : Dom a c := by
  intro p hp
  obtain ⟨q, hq, e1, l1⟩ := h1 p hp
  obtain ⟨r, hr, e2, l2⟩ := h2 q hq
  exact ⟨r, hr, e1.trans e2, Nat.le_trans l1 l2⟩

theorem lower_dom (t : Tomb) (v off : Nat) : Dom (t.lower v off) t := by
  intro p' hp'
  unfold Tomb.lower at hp'
  obtain ⟨p, hp, rfl⟩ := List.mem_map.mp hp'
  refine ⟨p, hp, ?_⟩
  split
  · rename_i h; exact ⟨rfl, Nat.le_of_lt h.2⟩
  · exact ⟨rfl, Nat.le_refl _⟩

/-- all tombstones of vlog `v` are `≤ o` -/
def Bound (t : Tomb) (v o : Nat) : Prop := ∀ p ∈ t, p.1 = v → p.2 ≤ o

theorem lower_bound (t : Tomb) (v off : Nat) : Bound (t.lower v off) v off := by
  intro p' hp' hv
  unfold Tomb.lower at hp'
  obtain ⟨p, _, rfl⟩ := List.mem_map.mp hp'
  by_cases h : p.1 = v ∧ off < p.2
  · simp [h]
  · simp only [h, if_false] at hv ⊢
    have : ¬ off < p.2 := fun hlt => h ⟨hv, hlt⟩
    omega

theorem Bound.of_dom {t' t : Tomb} {v o : Nat} (hd : Dom t' t) (hb : Bound t v o) : Bound t' v o := by
  intro p' hp' hv
  obtain ⟨p, hp, e, l⟩ := hd p' hp'
  exact Nat.le_trans l (hb p hp (e ▸ hv))

/-- The forward walk lowers only, and afterwards every visited first entry bounds the tombstone of
its vlog. -/
theorem frontWalk_spec (s : Store) : ∀ (k j : Nat) (t t' : Tomb), frontWalk s j k t = .ok t' →
    Dom t' t ∧ ∀ i e, j ≤ i → i < j + k → s.firstEntry i = .ok e → Bound t' e.vlog e.off := by
  intro k
  induction k with
  | zero =>
    intro j t t' h
    simp [frontWalk] at h
    subst h
    exact ⟨Dom.refl _, fun i e h1 h2 => by omega⟩
  | succ k ih =>
    intro j t t' h
    unfold frontWalk at h
    split at h
    · rename_i e he
      obtain ⟨hd, hb⟩ := ih _ _ _ h
      refine ⟨hd.trans (lower_dom _ _ _), fun i e' h1 h2 hfe => ?_⟩
      by_cases hij : i = j
      · subst hij
        rw [he] at hfe
        cases hfe
        exact Bound.of_dom hd (lower_bound _ _ _)
      · exact hb i e' (by omega) (by omega) hfe
    · rename_i he
      obtain ⟨hd, hb⟩ := ih _ _ _ h
      refine ⟨hd, fun i e' h1 h2 hfe => ?_⟩
      by_cases hij : i = j
      · subst hij; rw [he] at hfe; cases hfe
      · exact hb i e' (by omega) (by omega) hfe
    · cases h

/-! ### discardAll: what stays the same, what is removed -/

/-- The parts of a store truncation never touches (tx log = headers, hashes, entries; the
configuration; the geometry of the value logs). -/
structure Same (s s' : Store) : Prop where
  F : s'.F = s.F
  maxIO : s'.maxIO = s.maxIO
  embedded : s'.embedded = s.embedded
  txs : s'.txs = s.txs
  locked : s'.valBsLocked = s.valBsLocked
  cur : ∀ v, (s'.vlogs v).cur = (s.vlogs v).cur
  offset : ∀ v, (s'.vlogs v).offset = (s.vlogs v).offset

theorem Same.refl (s : Store) : Same s s := ⟨rfl, rfl, rfl, rfl, rfl, fun _ => rfl, fun _ => rfl⟩

theorem Same.trans {a b c : Store} (h1 : Same a b) (h2 : Same b c) : Same a c :=
  ⟨h2.F.trans h1.F, h2.maxIO.trans h1.maxIO, h2.embedded.trans h1.embedded, h2.txs.trans h1.txs,
   h2.locked.trans h1.locked, fun v => (h2.cur v).trans (h1.cur v), fun v => (h2.offset v).trans (h1.offset v)⟩

theorem discardUpto_geom {l l' : VLog} {F off : Nat} (h : l.discardUpto F off = .ok l') :
    l'.cur = l.cur ∧ l'.offset = l.offset ∧
    l'.present = l.present.filter (fun c => !l.removedBy F off c) := by
  unfold VLog.discardUpto at h
  split at h
  · cases h
  · cases h; exact ⟨rfl, rfl, rfl⟩

theorem setVLog_same (s : Store) (v : Nat) (l : VLog) (hc : l.cur = (s.vlogs v).cur)
    (ho : l.offset = (s.vlogs v).offset) : Same s (s.setVLog v l) := by
  refine ⟨rfl, rfl, rfl, rfl, rfl, fun w => ?_, fun w => ?_⟩ <;>
  · simp only [Store.setVLog]; split
    · rename_i h; subst h; assumption
    · rfl

/-- Did the tombstone `p` remove chunk `c` of vlog `v`? (guards evaluated on the geometry) -/
def fetchOk (s : Store) (v : Nat) : Bool :=
  match s.fetchVLog v with
  | some (.ok _) => true
  | _ => false

def removes (s : Store) (p : Nat × Nat) (v c : Nat) : Bool :=
  p.1 == v && fetchOk s p.1 && !decide ((s.vlogs v).offset < p.2) &&
    (s.vlogs v).removedBy s.F p.2 c

/-- the tombstones handled before the first panic -/
def okPrefix (s : Store) : Tomb → Tomb
  | [] => []
  | p :: t => if s.fetchVLog p.1 = none then [] else p :: okPrefix s t

theorem fetchVLog_same {s s' : Store} (h : Same s s') (v : Nat) : s'.fetchVLog v = s.fetchVLog v := by
  simp [Store.fetchVLog, h.maxIO]

theorem removes_same {s s' : Store} (h : Same s s') (p : Nat × Nat) (v c : Nat) :
    removes s' p v c = removes s p v c := by
  simp [removes, fetchOk, fetchVLog_same h, h.offset, h.F, VLog.removedBy, h.cur]

theorem okPrefix_same {s s' : Store} (h : Same s s') : ∀ t, okPrefix s' t = okPrefix s t
  | [] => rfl
  | p :: t => by simp [okPrefix, fetchVLog_same h, okPrefix_same h t]

theorem filter_all_cons {α β : Type} (l : List α) (q : β) (qs : List β) (f : β → α → Bool) :
    l.filter (fun c => (q :: qs).all (fun p => f p c)) =
      (l.filter (fun c => f q c)).filter (fun c => qs.all (fun p => f p c)) := by
  rw [List.filter_filter]
  congr 1
  funext c
  simp [Bool.and_comm]

theorem filter_triv {α : Type} (l : List α) (f : α → Bool) (h : ∀ c, f c = true) : l.filter f = l := by
  rw [List.filter_eq_self]; intro c _; exact h c

/-- Characterisation of the store after the discard loop. -/
theorem discardAll_spec : ∀ (t : Tomb) (s : Store) (es : List Err),
    Same s (discardAll s es t).store ∧
    ∀ v, ((discardAll s es t).store.vlogs v).present =
      (s.vlogs v).present.filter (fun c => (okPrefix s t).all (fun p => !removes s p v c)) := by
  intro t
  induction t with
  | nil =>
    intro s es
    refine ⟨by simp [discardAll, Same.refl], fun v => ?_⟩
    simp only [discardAll, okPrefix, List.all_nil]
    exact (filter_triv _ _ (fun _ => rfl)).symm
  | cons p t ih =>
    intro s es
    obtain ⟨v0, off⟩ := p
    unfold discardAll
    split
    · rename_i hf
      refine ⟨Same.refl _, fun v => ?_⟩
      simp only [okPrefix, hf, if_true, List.all_nil]
      exact (filter_triv _ _ (fun _ => rfl)).symm
    · rename_i e hf
      obtain ⟨h1, h2⟩ := ih s (es ++ [e])
      refine ⟨h1, fun v => ?_⟩
      rw [h2 v]
      have hne : s.fetchVLog v0 ≠ none := by rw [hf]; simp
      simp only [okPrefix, hne, if_false]
      rw [filter_all_cons]
      congr 1
      symm
      apply filter_triv
      intro c
      simp [removes, fetchOk, hf]
    · rename_i hf
      have hne : s.fetchVLog v0 ≠ none := by rw [hf]; simp
      split
      · rename_i e hd
        obtain ⟨h1, h2⟩ := ih s (es ++ [e])
        refine ⟨h1, fun v => ?_⟩
        rw [h2 v]
        simp only [okPrefix, hne, if_false]
        rw [filter_all_cons]
        congr 1
        symm
        apply filter_triv
        intro c
        unfold VLog.discardUpto at hd
        split at hd
        · rename_i hlt
          by_cases hv : v0 = v
          · subst hv; simp [removes, hlt]
          · simp [removes, hv]
        · cases hd
      · rename_i l hd
        obtain ⟨hc, ho, hp⟩ := discardUpto_geom hd
        have hs : Same s (s.setVLog v0 l) := setVLog_same s v0 l hc ho
        obtain ⟨h1, h2⟩ := ih (s.setVLog v0 l) es
        refine ⟨hs.trans h1, fun v => ?_⟩
        rw [h2 v]
        have hnl : ¬ (s.vlogs v0).offset < off := by
          unfold VLog.discardUpto at hd
          split at hd
          · cases hd
          · assumption
        simp only [okPrefix, hne, if_false, okPrefix_same hs]
        rw [filter_all_cons]
        have hrs : (fun c => (okPrefix s t).all (fun p => !removes (s.setVLog v0 l) p v c)) =
            (fun c => (okPrefix s t).all (fun p => !removes s p v c)) := by
          funext c; simp [removes_same hs]
        rw [hrs]
        congr 1
        by_cases hv : v = v0
        · subst hv
          simp only [Store.setVLog, if_true, hp]
          congr 1
          funext c
          simp [removes, fetchOk, hf, hnl]
        · have hne2 : v0 ≠ v := fun h => hv h.symm
          simp only [Store.setVLog, hv, if_false]
          symm
          apply filter_triv
          intro c
          simp [removes, hne2]

theorem okPrefix_sub (s : Store) : ∀ (t : Tomb) (p : Nat × Nat), p ∈ okPrefix s t → p ∈ t
  | [], p, h => by simp [okPrefix] at h
  | q :: t, p, h => by
    unfold okPrefix at h
    split at h
    · simp at h
    · rcases List.mem_cons.mp h with h | h
      · subst h; exact List.mem_cons_self
      · exact List.mem_cons_of_mem _ (okPrefix_sub s t p h)


/-! ### the computation of the tombstones looks only at the tx log -/

theorem firstEntry_same {s s' : Store} (h : Same s s') (i : Nat) : s'.firstEntry i = s.firstEntry i := by
  unfold Store.firstEntry Store.last
  rw [h.txs]

theorem backWalk_same {s s' : Store} (h : Same s s') : ∀ (i : Nat) (t : Tomb), backWalk s' i t = backWalk s i t
  | 0, t => by simp [backWalk]
  | i + 1, t => by
    unfold backWalk
    rw [firstEntry_same h, h.maxIO]
    split
    · rfl
    · split
      · exact backWalk_same h _ _
      · exact backWalk_same h _ _
      · rfl

theorem frontWalk_same {s s' : Store} (h : Same s s') : ∀ (k j : Nat) (t : Tomb), frontWalk s' j k t = frontWalk s j k t
  | 0, j, t => by simp [frontWalk]
  | k + 1, j, t => by
    unfold frontWalk
    rw [firstEntry_same h]
    split
    · exact frontWalk_same h _ _ _
    · exact frontWalk_same h _ _ _
    · rfl

theorem tombstones_same {s s' : Store} (h : Same s s') (n : Nat) : tombstones s' n = tombstones s n := by
  unfold tombstones
  rw [backWalk_same h]
  split
  · rfl
  · rw [frontWalk_same h]; simp [Store.last, h.txs]

theorem discardAll_out_same : ∀ (t : Tomb) (s s' : Store) (es : List Err), Same s s' →
    (discardAll s' es t).out = (discardAll s es t).out := by
  intro t
  induction t with
  | nil => intro s s' es _; simp [discardAll]
  | cons p t ih =>
    intro s s' es h
    obtain ⟨v0, off⟩ := p
    unfold discardAll
    rw [fetchVLog_same h]
    split
    · rfl
    · exact ih _ _ _ h
    · simp only [h.F]
      cases hd : (s.vlogs v0).discardUpto s.F off with
      | error e =>
        have : (s'.vlogs v0).discardUpto s.F off = .error e := by
          unfold VLog.discardUpto at hd ⊢
          rw [h.offset]
          split at hd
          · rename_i hlt; simp [hlt] at hd ⊢; exact hd
          · cases hd
        rw [this]
        exact ih _ _ _ h
      | ok l =>
        obtain ⟨hc, ho, _⟩ := discardUpto_geom hd
        have hnl : ¬ (s.vlogs v0).offset < off := by
          unfold VLog.discardUpto at hd
          split at hd
          · cases hd
          · assumption
        have : ∃ l', (s'.vlogs v0).discardUpto s.F off = .ok l' := by
          unfold VLog.discardUpto
          rw [h.offset]
          simp [hnl]
        obtain ⟨l', hd'⟩ := this
        rw [hd']
        obtain ⟨hc', ho', _⟩ := discardUpto_geom hd'
        apply ih
        have a := setVLog_same s v0 l hc ho
        have b := setVLog_same s' v0 l' hc' ho'
        refine ⟨b.F.trans (h.F.trans a.F.symm), b.maxIO.trans (h.maxIO.trans a.maxIO.symm),
          b.embedded.trans (h.embedded.trans a.embedded.symm), b.txs.trans (h.txs.trans a.txs.symm),
          b.locked.trans (h.locked.trans a.locked.symm),
          fun v => (b.cur v).trans ((h.cur v).trans (a.cur v).symm),
          fun v => (b.offset v).trans ((h.offset v).trans (a.offset v).symm)⟩

theorem store_eq_of_same {s s' : Store} (h : Same s s')
    (hp : ∀ v, (s'.vlogs v).present = (s.vlogs v).present) : s' = s := by
  cases s with
  | mk F maxIO emb txs vlogs lk =>
    cases s' with
    | mk F' maxIO' emb' txs' vlogs' lk' =>
      have h1 := h.F; have h2 := h.maxIO; have h3 := h.embedded; have h4 := h.txs; have h5 := h.locked
      simp only at h1 h2 h3 h4 h5
      subst h1 h2 h3 h4 h5
      have : vlogs' = vlogs := by
        funext v
        have a := h.cur v; have b := h.offset v; have c := hp v
        simp only at a b c
        cases hv : vlogs v; cases hv' : vlogs' v
        rw [hv, hv'] at a b c
        simp only at a b c
        subst a b c
        rfl
      subst this
      rfl

theorem discardAll_idem (s : Store) (t : Tomb) (es es' : List Err) :
    (discardAll (discardAll s es t).store es' t).store = (discardAll s es t).store := by
  obtain ⟨h1, p1⟩ := discardAll_spec t s es
  obtain ⟨h2, p2⟩ := discardAll_spec t (discardAll s es t).store es'
  apply store_eq_of_same h2
  intro v
  rw [p2 v, p1 v, okPrefix_same h1, List.filter_filter]
  congr 1
  funext c
  simp [removes_same h1]

/-! ### readability -/

theorem mem_chunksOf {F : Nat} {e : Ent} {c : Nat} (h : c ∈ chunksOf F e) : chunkOf F e.off ≤ c := by
  unfold chunksOf at h
  have := List.mem_range'_1.mp h
  exact this.1

theorem chunkOf_mono {F a b : Nat} (h : a ≤ b) : chunkOf F a ≤ chunkOf F b := Nat.div_le_div_right h

/-- If every processed tombstone of `e`'s vlog is `≤ e.off`, `e` stays readable. -/
theorem readable_discardAll (s : Store) (es : List Err) (t : Tomb) (e : Ent)
    (hb : Bound t e.vlog e.off) (hr : s.readable e) : (discardAll s es t).store.readable e := by
  obtain ⟨hs, hp⟩ := discardAll_spec t s es
  unfold Store.readable Store.readValue at hr ⊢
  rw [hs.F]
  by_cases h0 : e.len = 0
  · simp [h0]
  · simp only [h0, if_false] at hr ⊢
    by_cases hv : e.vlog = 0
    · simp [hv] at hr
    · simp only [hv, if_false] at hr ⊢
      split at hr
      · rename_i hall
        rw [if_pos]
        rw [List.all_eq_true] at hall ⊢
        intro c hc
        have hpres := hall c hc
        rw [hp e.vlog]
        simp only [List.contains_iff_mem, List.mem_filter] at hpres ⊢
        refine ⟨hpres, ?_⟩
        rw [List.all_eq_true]
        intro p hpin
        have hpt : p ∈ t := okPrefix_sub s t p hpin
        by_cases hpv : p.1 = e.vlog
        · have hle := hb p hpt hpv
          have h1 : chunkOf s.F p.2 ≤ c := Nat.le_trans (chunkOf_mono hle) (mem_chunksOf hc)
          have : ¬ c < chunkOf s.F p.2 := by omega
          simp [removes, VLog.removedBy, this]
        · simp [removes, hpv]
      · cases hr

/-! ### ExportTx loop -/

theorem exportLoop_unlocked : ∀ (rs : List (Nat × Rd)) (i : Nat) (tr : Bool), (exportLoop i tr rs).locked = false := by
  intro rs
  induction rs with
  | nil => intro i tr; cases tr <;> simp [exportLoop]
  | cons p rs ih =>
    intro i tr
    obtain ⟨len, r⟩ := p
    cases r with
    | ok =>
      unfold exportLoop
      cases tr with
      | false => simp [ih]
      | true =>
        by_cases h : 0 < len
        · simp [h]
        · simp [h, ih]
    | eof =>
      unfold exportLoop
      by_cases h : (!tr && decide (0 < i)) = true
      · simp [h]
      · simp [h, ih]
    | err => simp [exportLoop]

theorem exportRun_unlocked (rs : List (Nat × Rd)) : (exportRun rs).locked = false := by
  unfold exportRun
  split
  · rfl
  · exact exportLoop_unlocked _ _ _

theorem exportLoop_all_ok : ∀ (rs : List (Nat × Rd)) (i : Nat), (∀ p ∈ rs, p.2 = Rd.ok) →
    exportLoop i false rs = ⟨.values, false⟩ := by
  intro rs
  induction rs with
  | nil => intro i _; simp [exportLoop]
  | cons p rs ih =>
    intro i h
    obtain ⟨len, r⟩ := p
    have hr : r = .ok := h (len, r) List.mem_cons_self
    subst hr
    unfold exportLoop
    simp
    exact ih _ (fun r hr => h r (List.mem_cons_of_mem _ hr))

theorem firstNonEmpty_all_ok : ∀ (rs : List (Nat × Rd)), (∀ p ∈ rs, p.2 = Rd.ok) → firstNonEmpty rs = some false := by
  intro rs
  induction rs with
  | nil => intro _; rfl
  | cons p rs ih =>
    intro h
    obtain ⟨len, r⟩ := p
    have hr : r = .ok := h (len, r) List.mem_cons_self
    subst hr
    unfold firstNonEmpty
    by_cases h0 : len = 0
    · rw [if_pos h0]; exact ih (fun r hr => h r (List.mem_cons_of_mem _ hr))
    · rw [if_neg h0]

theorem exportPre_all_ok (rs : List (Nat × Rd)) (h : ∀ p ∈ rs, p.2 = Rd.ok) : exportPre rs = some false := by
  cases rs with
  | nil => rfl
  | cons p rs =>
    obtain ⟨len, r⟩ := p
    show (if len = 0 then firstNonEmpty ((len, r) :: rs) else some false) = some false
    by_cases h0 : len = 0
    · rw [if_pos h0]; exact firstNonEmpty_all_ok _ h
    · rw [if_neg h0]

/-- Every value readable: exported with all the values, whether or not some are empty. -/
theorem exportRun_all_ok (rs : List (Nat × Rd)) (h : ∀ p ∈ rs, p.2 = Rd.ok) :
    exportRun rs = ⟨.values, false⟩ := by
  unfold exportRun
  rw [exportPre_all_ok rs h]
  exact exportLoop_all_ok rs 0 h

theorem exportLoop_ne_blocked : ∀ (rs : List (Nat × Rd)) (i : Nat) (tr : Bool),
    (exportLoop i tr rs).out ≠ .blocked ∧ (exportLoop i tr rs).out ≠ .errTx := by
  intro rs
  induction rs with
  | nil => intro i tr; cases tr <;> simp [exportLoop]
  | cons p rs ih =>
    intro i tr
    obtain ⟨len, r⟩ := p
    cases r with
    | ok =>
      unfold exportLoop
      cases tr with
      | false => simp [ih]
      | true =>
        by_cases h : 0 < len
        · simp [h]
        · simp [h, ih]
    | eof =>
      unfold exportLoop
      by_cases h : (!tr && decide (0 < i)) = true
      · simp [h]
      · simp [h, ih]
    | err => simp [exportLoop]

theorem readValue_ne_err (s : Store) (e : Ent) : s.readValue e ≠ .err := by
  unfold Store.readValue
  split
  · simp
  · split
    · simp
    · split <;> simp

theorem exportLoop_no_err : ∀ (rs : List (Nat × Rd)) (i : Nat) (tr : Bool), (∀ p ∈ rs, p.2 ≠ Rd.err) →
    (exportLoop i tr rs).out = .values ∨ (exportLoop i tr rs).out = .digests ∨
    (exportLoop i tr rs).out = .errPartial := by
  intro rs
  induction rs with
  | nil => intro i tr _; cases tr <;> simp [exportLoop]
  | cons p rs ih =>
    intro i tr h
    obtain ⟨len, r⟩ := p
    have hrs : ∀ p ∈ rs, p.2 ≠ Rd.err := fun r hr => h r (List.mem_cons_of_mem _ hr)
    cases r with
    | ok =>
      unfold exportLoop
      cases tr with
      | false => simp [ih _ _ hrs]
      | true =>
        by_cases hc : 0 < len
        · simp [hc]
        · simp [hc, ih _ _ hrs]
    | eof =>
      unfold exportLoop
      by_cases hc : (!tr && decide (0 < i)) = true
      · simp [hc]
      · simp [hc, ih _ _ hrs]
    | err => exact absurd rfl (h _ List.mem_cons_self)

theorem firstNonEmpty_no_err : ∀ (rs : List (Nat × Rd)), (∀ p ∈ rs, p.2 ≠ Rd.err) → firstNonEmpty rs ≠ none := by
  intro rs
  induction rs with
  | nil => intro _; simp [firstNonEmpty]
  | cons p rs ih =>
    intro h
    obtain ⟨len, r⟩ := p
    unfold firstNonEmpty
    by_cases h0 : len = 0
    · rw [if_pos h0]; exact ih (fun r hr => h r (List.mem_cons_of_mem _ hr))
    · rw [if_neg h0]
      cases r with
      | ok => simp
      | eof => simp
      | err => exact absurd rfl (h _ List.mem_cons_self)

theorem exportPre_no_err (rs : List (Nat × Rd)) (h : ∀ p ∈ rs, p.2 ≠ Rd.err) : exportPre rs ≠ none := by
  cases rs with
  | nil => simp [exportPre]
  | cons p rs =>
    obtain ⟨len, r⟩ := p
    show (if len = 0 then firstNonEmpty ((len, r) :: rs) else some false) ≠ none
    by_cases h0 : len = 0
    · rw [if_pos h0]; exact firstNonEmpty_no_err _ h
    · rw [if_neg h0]; simp

theorem exportRun_no_err (rs : List (Nat × Rd)) (h : ∀ p ∈ rs, p.2 ≠ Rd.err) :
    (exportRun rs).out = .values ∨ (exportRun rs).out = .digests ∨ (exportRun rs).out = .errPartial := by
  unfold exportRun
  cases hp : exportPre rs with
  | none => exact absurd hp (exportPre_no_err rs h)
  | some t => exact exportLoop_no_err rs 0 t h

theorem exportRun_model_outcomes (s : Store) (tx : TxEnts) :
    (exportRun (tx.map (fun e => (e.len, s.readValue e)))).out = .values ∨
    (exportRun (tx.map (fun e => (e.len, s.readValue e)))).out = .digests ∨
    (exportRun (tx.map (fun e => (e.len, s.readValue e)))).out = .errPartial := by
  apply exportRun_no_err
  intro p hp
  obtain ⟨e, _, rfl⟩ := List.mem_map.mp hp
  exact readValue_ne_err s e

/-! ### ExportTx: wholly / partially truncated transactions (the repaired rule for empty values) -/

/-- A truncated transaction: every non-empty value answers `io.EOF`, every empty one reads fine. -/
def WhollyTruncated (rs : List (Nat × Rd)) : Prop :=
  ∀ p ∈ rs, (0 < p.1 → p.2 = Rd.eof) ∧ (p.1 = 0 → p.2 = Rd.ok)

theorem exportLoop_truncated_digests : ∀ (rs : List (Nat × Rd)) (i : Nat), WhollyTruncated rs →
    exportLoop i true rs = ⟨.digests, false⟩ := by
  intro rs
  induction rs with
  | nil => intro i _; simp [exportLoop]
  | cons p rs ih =>
    intro i h
    obtain ⟨len, r⟩ := p
    have hrs : WhollyTruncated rs := fun p hp => h p (List.mem_cons_of_mem _ hp)
    obtain ⟨h1, h2⟩ := h (len, r) List.mem_cons_self
    by_cases h0 : len = 0
    · have hr : r = .ok := h2 h0
      subst hr
      unfold exportLoop
      simp [h0, ih _ hrs]
    · have hr : r = .eof := h1 (by omega)
      subst hr
      unfold exportLoop
      simp [ih _ hrs]

theorem firstNonEmpty_truncated : ∀ (rs : List (Nat × Rd)), WhollyTruncated rs → (∃ p ∈ rs, 0 < p.1) →
    firstNonEmpty rs = some true := by
  intro rs
  induction rs with
  | nil => intro _ ⟨p, hp, _⟩; cases hp
  | cons p rs ih =>
    intro h ⟨q, hq, hq0⟩
    obtain ⟨len, r⟩ := p
    obtain ⟨h1, h2⟩ := h (len, r) List.mem_cons_self
    unfold firstNonEmpty
    by_cases h0 : len = 0
    · rw [if_pos h0]
      refine ih (fun p hp => h p (List.mem_cons_of_mem _ hp)) ?_
      rcases List.mem_cons.mp hq with e | hq'
      · subst e; simp at hq0; omega
      · exact ⟨q, hq', hq0⟩
    · have hr : r = .eof := h1 (Nat.pos_of_ne_zero h0)
      rw [if_neg h0, hr]

/-- **A wholly truncated transaction is exported by digest**, empty values included (they go out as the
digest stored in the entry, `sha256("")`), wherever the empty values stand. -/
theorem exportRun_wholly_truncated (rs : List (Nat × Rd)) (h : WhollyTruncated rs) (hne : ∃ p ∈ rs, 0 < p.1) :
    exportRun rs = ⟨.digests, false⟩ := by
  unfold exportRun
  cases rs with
  | nil => obtain ⟨p, hp, _⟩ := hne; cases hp
  | cons p rs =>
    obtain ⟨len, r⟩ := p
    obtain ⟨h1, h2⟩ := h (len, r) List.mem_cons_self
    by_cases h0 : len = 0
    · have hp : exportPre ((len, r) :: rs) = some true := by
        show (if len = 0 then firstNonEmpty ((len, r) :: rs) else some false) = some true
        rw [if_pos h0]
        exact firstNonEmpty_truncated _ h hne
      rw [hp]
      exact exportLoop_truncated_digests _ 0 h
    · have hp : exportPre ((len, r) :: rs) = some false := by
        show (if len = 0 then firstNonEmpty ((len, r) :: rs) else some false) = some false
        rw [if_neg h0]
      rw [hp]
      have hr : r = .eof := h1 (by omega)
      subst hr
      unfold exportLoop
      simp
      exact exportLoop_truncated_digests _ 1 (fun p hp => h p (List.mem_cons_of_mem _ hp))

/-- Once the transaction goes out by digest, a readable NON-EMPTY value ends the export. -/
theorem exportLoop_trunc_meets_value : ∀ (rs : List (Nat × Rd)) (i : Nat), (∀ p ∈ rs, p.2 ≠ Rd.err) →
    (∃ p ∈ rs, 0 < p.1 ∧ p.2 = Rd.ok) → exportLoop i true rs = ⟨.errPartial, false⟩ := by
  intro rs
  induction rs with
  | nil => intro i _ ⟨p, hp, _⟩; cases hp
  | cons p rs ih =>
    intro i hne ⟨q, hq, hq0, hqk⟩
    obtain ⟨len, r⟩ := p
    have hrs : ∀ p ∈ rs, p.2 ≠ Rd.err := fun p hp => hne p (List.mem_cons_of_mem _ hp)
    have tail : (len, r) ≠ q → ∃ p ∈ rs, 0 < p.1 ∧ p.2 = Rd.ok := by
      intro hd
      rcases List.mem_cons.mp hq with e | hq'
      · exact absurd e.symm hd
      · exact ⟨q, hq', hq0, hqk⟩
    cases r with
    | err => exact absurd rfl (hne _ List.mem_cons_self)
    | eof =>
      unfold exportLoop
      simp
      exact ih _ hrs (tail (by intro e; rw [← e] at hqk; cases hqk))
    | ok =>
      unfold exportLoop
      by_cases h0 : 0 < len
      · simp [h0]
      · simp [h0]
        exact ih _ hrs (tail (by intro e; rw [← e] at hq0; exact h0 hq0))

/-- Once values were written (`i > 0`, not truncated so far), a value answering `io.EOF` ends the export. -/
theorem exportLoop_values_meet_eof : ∀ (rs : List (Nat × Rd)) (i : Nat), 0 < i → (∀ p ∈ rs, p.2 ≠ Rd.err) →
    (∃ p ∈ rs, p.2 = Rd.eof) → exportLoop i false rs = ⟨.errPartial, false⟩ := by
  intro rs
  induction rs with
  | nil => intro i _ _ ⟨p, hp, _⟩; cases hp
  | cons p rs ih =>
    intro i hi hne ⟨q, hq, hqe⟩
    obtain ⟨len, r⟩ := p
    have hrs : ∀ p ∈ rs, p.2 ≠ Rd.err := fun p hp => hne p (List.mem_cons_of_mem _ hp)
    cases r with
    | err => exact absurd rfl (hne _ List.mem_cons_self)
    | eof => unfold exportLoop; simp [hi]
    | ok =>
      unfold exportLoop
      simp
      refine ih _ (by omega) hrs ?_
      rcases List.mem_cons.mp hq with e | hq'
      · rw [e] at hqe; cases hqe
      · exact ⟨q, hq', hqe⟩

/-- **A genuinely partially truncated transaction is still refused**: some non-empty value is readable
and some non-empty value answers `io.EOF` ⇒ "partially truncated transaction", whatever the order of
the entries and wherever empty values stand. -/
theorem exportRun_partially_truncated (rs : List (Nat × Rd)) (hne : ∀ p ∈ rs, p.2 ≠ Rd.err)
    (hok : ∃ p ∈ rs, 0 < p.1 ∧ p.2 = Rd.ok) (heof : ∃ p ∈ rs, 0 < p.1 ∧ p.2 = Rd.eof) :
    exportRun rs = ⟨.errPartial, false⟩ := by
  unfold exportRun
  cases hp : exportPre rs with
  | none => exact absurd hp (exportPre_no_err rs hne)
  | some t =>
    cases t with
    | true => exact exportLoop_trunc_meets_value rs 0 hne hok
    | false =>
      show exportLoop 0 false rs = _
      cases rs with
      | nil => obtain ⟨p, hp, _⟩ := hok; cases hp
      | cons p rs =>
        obtain ⟨len, r⟩ := p
        have hrs : ∀ p ∈ rs, p.2 ≠ Rd.err := fun p hp => hne p (List.mem_cons_of_mem _ hp)
        obtain ⟨q, hq, hq0, hqk⟩ := hok
        obtain ⟨q', hq', hq0', hqe⟩ := heof
        cases r with
        | err => exact absurd rfl (hne _ List.mem_cons_self)
        | eof =>
          unfold exportLoop
          simp
          refine exportLoop_trunc_meets_value rs 1 hrs ?_
          rcases List.mem_cons.mp hq with e | hq2
          · rw [e] at hqk; cases hqk
          · exact ⟨q, hq2, hq0, hqk⟩
        | ok =>
          unfold exportLoop
          simp
          refine exportLoop_values_meet_eof rs 1 (by omega) hrs ?_
          rcases List.mem_cons.mp hq' with e | hq2
          · rw [e] at hqe; cases hqe
          · exact ⟨q', hq2, hqe⟩

end ImmuModel.Store.TruncateAux
