/-
C07 — helper lemmas for `ReplicaPrefix.lean`: list facts about the tx log (`commitLog`, `keepLive`,
`reload`), the `set` loop on genuine entries, and what `precommit` does with a genuine export.
-/
import ImmuModel.Store.ReplicaSpec
import ImmuModel.Tx.Proofs.HdrRT
import ImmuModel.Tx.Proofs.MdRT

namespace ImmuModel.Replica.ReplicaPrefixAux
open ImmuModel ImmuModel.Tx ImmuModel.Merkle ImmuModel.GoInt ImmuModel.Replica

variable {D : Type}

-- ------------------------------------------------------------------ live records of a log

/-- The live (still precommitted) records of a log. -/
def live (l : List (RRec D × Bool)) : List (RRec D) := (l.filter (·.2)).map (·.1)

theorem pre_eq (st : RSt D) : st.pre = live st.log := rfl

@[simp] theorem live_nil : live ([] : List (RRec D × Bool)) = [] := rfl

@[simp] theorem live_cons_true (r : RRec D) (t : List (RRec D × Bool)) :
    live ((r, true) :: t) = r :: live t := by simp [live]

@[simp] theorem live_cons_false (r : RRec D) (t : List (RRec D × Bool)) :
    live ((r, false) :: t) = live t := by simp [live]

theorem live_append (a b : List (RRec D × Bool)) : live (a ++ b) = live a ++ live b := by
  simp [live]

theorem mem_live {l : List (RRec D × Bool)} {r : RRec D} (h : r ∈ live l) : ∃ x ∈ l, x.1 = r := by
  simp only [live, List.mem_map, List.mem_filter] at h
  obtain ⟨x, ⟨hx, _⟩, e⟩ := h
  exact ⟨x, hx, e⟩

theorem live_map_true (c : List (RRec D)) : live (c.map (fun r => (r, true))) = c := by
  induction c with
  | nil => rfl
  | cons a t ih => simp [ih]

theorem commitLog_spec (k : Nat) (log : List (RRec D × Bool)) :
    (commitLog k log).1 ++ live (commitLog k log).2 = live log ∧
    ∀ x ∈ (commitLog k log).2, x ∈ log := by
  induction log generalizing k with
  | nil => cases k <;> simp [commitLog]
  | cons a t ih =>
    obtain ⟨r, b⟩ := a
    cases k with
    | zero => simp [commitLog]
    | succ k =>
      cases b with
      | false =>
        simp only [commitLog, live_cons_false]
        refine ⟨(ih (k + 1)).1, fun x hx => List.mem_cons_of_mem _ ((ih (k + 1)).2 x hx)⟩
      | true =>
        simp only [commitLog, live_cons_true, List.cons_append]
        refine ⟨by rw [(ih k).1], fun x hx => List.mem_cons_of_mem _ ((ih k).2 x hx)⟩

theorem keepLive_spec (k : Nat) (log : List (RRec D × Bool)) :
    live (keepLive k log) = (live log).take k ∧ (keepLive k log).map (·.1) = log.map (·.1) := by
  induction log generalizing k with
  | nil => simp [keepLive]
  | cons a t ih =>
    obtain ⟨r, b⟩ := a
    cases b with
    | false =>
      simp only [keepLive, live_cons_false, List.map_cons]
      exact ⟨(ih k).1, by rw [(ih k).2]⟩
    | true =>
      cases k with
      | zero =>
        simp only [keepLive, live_cons_false, live_cons_true, List.map_cons, List.take_zero]
        refine ⟨by simpa using (ih 0).1, by rw [(ih 0).2]⟩
      | succ k =>
        simp only [keepLive, live_cons_true, List.map_cons, List.take_succ_cons]
        exact ⟨by rw [(ih k).1], by rw [(ih k).2]⟩

-- ------------------------------------------------------------------ dense ids

/-- The ids of `l` are `n+1, n+2, …`. -/
def Dense (n : Nat) (l : List (RRec D)) : Prop :=
  ∀ i (h : i < l.length), (l[i]).hdr.id = n + i + 1

theorem dense_nil (n : Nat) : Dense n ([] : List (RRec D)) := by
  intro i h; simp at h

theorem dense_cons {n : Nat} {r : RRec D} {t : List (RRec D)} :
    Dense n (r :: t) ↔ r.hdr.id = n + 1 ∧ Dense (n + 1) t := by
  constructor
  · intro h
    refine ⟨by have := h 0 (by simp); simpa using this, fun i hi => ?_⟩
    have := h (i + 1) (by simpa using hi)
    simp only [List.getElem_cons_succ] at this
    omega
  · rintro ⟨h1, h2⟩ i hi
    cases i with
    | zero => simpa using h1
    | succ i =>
      have := h2 i (by simpa using hi)
      simp only [List.getElem_cons_succ]
      omega

theorem dense_append {n : Nat} {a b : List (RRec D)} :
    Dense n (a ++ b) ↔ Dense n a ∧ Dense (n + a.length) b := by
  induction a generalizing n with
  | nil => simp [dense_nil]
  | cons x t ih =>
    simp only [List.cons_append, dense_cons, ih, List.length_cons]
    have : n + 1 + t.length = n + (t.length + 1) := by omega
    rw [this]
    exact and_assoc.symm

theorem dense_take {n : Nat} {l : List (RRec D)} (k : Nat) (h : Dense n l) : Dense n (l.take k) := by
  have := List.take_append_drop k l
  rw [← this] at h
  exact (dense_append.1 h).1

theorem reload_spec (hs : Hs D) (n : Nat) (palh : Bytes) (l : List (RRec D)) :
    (∀ r ∈ reload hs n palh l, r ∈ l) ∧ Dense n (reload hs n palh l) := by
  induction l generalizing n palh with
  | nil => simp [reload, dense_nil]
  | cons a t ih =>
    simp only [reload]
    split
    · rename_i hc
      refine ⟨fun r hr => ?_, dense_cons.2 ⟨hc.1, (ih (n + 1) _).2⟩⟩
      rcases List.mem_cons.1 hr with e | e
      · exact e ▸ List.mem_cons_self
      · exact List.mem_cons_of_mem _ ((ih (n + 1) _).1 r e)
    · exact ⟨fun r hr => by simp at hr, dense_nil n⟩

-- ------------------------------------------------------------------ `precommit`, both directions

/-- What an accepting `precommit` has checked and what it stores. -/
theorem precommit_ok_inv (hs : Hs D) (st : RSt D) (p : Parsed) (skip : Bool) (r : RRec D)
    (h : precommit hs st p skip = .ok r) :
    ∃ es eh, setAll st.cfg [] (p.entries.map (toREntry hs p.truncated)) = .ok es ∧
      (es.length : Int) = p.hdr.nentries ∧ ehOf hs p.hdr.version es = .ok eh ∧
      st.lastPre + 1 = p.hdr.id ∧ hs.enc (st.preAlh hs) = p.hdr.prevAlh ∧
      r.hdr = storedHdr hs st p es.length (if p.hdr.blTxID > 0 then p.hdr.blRoot else zeros32) eh ∧
      r.entries = es ∧ alhH hs r.hdr = .ok r.alh := by
  unfold precommit at h
  cases hes : setAll st.cfg [] (p.entries.map (toREntry hs p.truncated)) with
  | error x => rw [hes] at h; contradiction
  | ok es =>
  rw [hes] at h
  dsimp only at h
  by_cases hn : (es.length : Int) ≠ p.hdr.nentries
  · rw [if_pos hn] at h; contradiction
  rw [if_neg hn] at h
  cases hmd : mdBytesOpt p.hdr.md with
  | error x => rw [hmd] at h; contradiction
  | ok mdb =>
  rw [hmd] at h
  dsimp only at h
  by_cases c1 : es.length = 0 ∧ txmdEmptyOrExtraOnly p.hdr.md = true
  · rw [if_pos c1] at h; contradiction
  rw [if_neg c1] at h
  by_cases c2 : es.length > st.cfg.maxTxEntries
  · rw [if_pos c2] at h; contradiction
  rw [if_neg c2] at h
  cases heh : ehOf hs p.hdr.version es with
  | error x => rw [heh] at h; contradiction
  | ok eh =>
  rw [heh] at h
  dsimp only at h
  by_cases c3 : (!skip) = true ∧ hs.enc eh ≠ p.hdr.eh
  · rw [if_pos c3] at h; contradiction
  rw [if_neg c3] at h
  by_cases c4 : st.lastPre ≥ p.hdr.id
  · rw [if_pos c4] at h; contradiction
  rw [if_neg c4] at h
  by_cases c5 : p.hdr.id > st.lastPre + st.cfg.maxActive
  · rw [if_pos c5] at h; contradiction
  rw [if_neg c5] at h
  by_cases c6 : p.hdr.id - 1 > st.waitDone
  · rw [if_pos c6] at h; contradiction
  rw [if_neg c6] at h
  by_cases c7 : p.hdr.blTxID > 0 ∧ st.lastPre > 0 ∧ p.hdr.blTxID > st.lastPre
  · rw [if_pos c7] at h; contradiction
  rw [if_neg c7] at h
  by_cases c8 : (if p.hdr.blTxID > 0 ∧ st.lastPre > 0 then hs.enc (RSt.rootAt hs st p.hdr.blTxID)
                          else zeros32) ≠ p.hdr.blRoot
  · rw [if_pos c8] at h; contradiction
  rw [if_neg c8] at h
  by_cases c9 : st.lastPre > p.hdr.id - 1
  · rw [if_pos c9] at h; contradiction
  rw [if_neg c9] at h
  by_cases c10 : st.lastPre < p.hdr.id - 1
  · rw [if_pos c10] at h; contradiction
  rw [if_neg c10] at h
  by_cases c11 : hs.enc (RSt.preAlh hs st) ≠ p.hdr.prevAlh
  · rw [if_pos c11] at h; contradiction
  rw [if_neg c11] at h
  by_cases c12 : st.cfg.synced = true ∧ st.committed.length + st.cfg.maxActive ≤ st.lastPre
  · rw [if_pos c12] at h; contradiction
  rw [if_neg c12] at h
  have c8' := Classical.not_not.1 c8
  rw [c8'] at h
  cases ha : alhH hs (storedHdr hs st p es.length (if p.hdr.blTxID > 0 then p.hdr.blRoot else zeros32) eh) with
  | error x => rw [ha] at h; contradiction
  | ok a =>
  rw [ha] at h
  dsimp only at h
  injection h with h
  subst h
  exact ⟨es, eh, rfl, Classical.not_not.1 hn, heh, by omega, Classical.not_not.1 c11, rfl, rfl, ha⟩


/-- Every check of `precommit` passes. -/
theorem precommit_ok_of (hs : Hs D) (st : RSt D) (p : Parsed) (skip : Bool) (es : List REntry) (eh a : D)
    (hes : setAll st.cfg [] (p.entries.map (toREntry hs p.truncated)) = .ok es)
    (hn : (es.length : Int) = p.hdr.nentries) (mdb : Bytes) (hmd : mdBytesOpt p.hdr.md = .ok mdb)
    (hpos : es.length ≠ 0) (hmax : es.length ≤ st.cfg.maxTxEntries)
    (heh : ehOf hs p.hdr.version es = .ok eh) (hehc : hs.enc eh = p.hdr.eh)
    (hid : p.hdr.id = st.lastPre + 1) (hact : 0 < st.cfg.maxActive) (hwait : st.lastPre ≤ st.waitDone)
    (hbl : p.hdr.blTxID ≤ st.lastPre)
    (hroot : (if p.hdr.blTxID > 0 ∧ st.lastPre > 0 then hs.enc (RSt.rootAt hs st p.hdr.blTxID)
                else zeros32) = p.hdr.blRoot)
    (hprev : hs.enc (st.preAlh hs) = p.hdr.prevAlh)
    (hwin : ¬ (st.cfg.synced = true ∧ st.committed.length + st.cfg.maxActive ≤ st.lastPre))
    (ha : alhH hs (storedHdr hs st p es.length (if p.hdr.blTxID > 0 then p.hdr.blRoot else zeros32) eh) = .ok a) :
    precommit hs st p skip = .ok { hdr := (storedHdr hs st p es.length
      (if p.hdr.blTxID > 0 then p.hdr.blRoot else zeros32) eh), entries := es, alh := a } := by
  unfold precommit
  rw [hes]
  dsimp only
  rw [if_neg (by simpa using hn), hmd]
  dsimp only
  rw [if_neg (by intro c; exact hpos c.1), if_neg (by omega), heh]
  dsimp only
  rw [if_neg (by intro c; exact c.2 hehc), if_neg (by omega), if_neg (by omega), if_neg (by omega),
    if_neg (by omega), hroot, if_neg (by simp), if_neg (by omega), if_neg (by omega),
    if_neg (by simpa using hprev), if_neg hwin, ha]

-- ------------------------------------------------------------------ the `set` loop and `Eh` on genuine entries

theorem setAll_distinct (cfg : RCfg) (l acc : List REntry)
    (hlen : acc.length + l.length ≤ cfg.maxTxEntries)
    (hnd : ((acc ++ l).map (·.key)).Nodup)
    (hb : ∀ e ∈ l, 0 < e.key.length ∧ e.key.length ≤ cfg.maxKeyLen ∧ e.value.length ≤ cfg.maxValueLen) :
    setAll cfg acc l = .ok (acc ++ l) := by
  induction l generalizing acc with
  | nil => simp [setAll]
  | cons e t ih =>
    obtain ⟨h1, h2, h3⟩ := hb e List.mem_cons_self
    have hany : acc.any (fun x => x.key == e.key) = false := by
      rw [List.any_eq_false]
      intro x hx hk
      have hk' : x.key = e.key := by simpa using hk
      rw [List.map_append, List.nodup_append] at hnd
      exact hnd.2.2 x.key (List.mem_map_of_mem hx) e.key (by simp) hk'
    have hse : setEntry cfg acc e = .ok (acc ++ [e]) := by
      unfold setEntry
      simp only [List.length_cons] at hlen
      rw [if_neg (by omega), if_neg (by omega), if_neg (by omega), hany]
      simp only [Bool.false_eq_true, if_false]
      rw [if_neg (by omega)]
    simp only [setAll, hse]
    rw [ih]
    · simp
    · simp only [List.length_append, List.length_cons, List.length_nil] at hlen ⊢; omega
    · simpa using hnd
    · exact fun e' he' => hb e' (List.mem_cons_of_mem _ he')

/-- The entries the replica holds after replicating `r` with values / by digest. -/
def genEntries (r : RRec D) (tr : Bool) : List REntry :=
  if tr then r.entries.map REntry.strip else r.entries

theorem map_toREntry (hs : Hs D) (es : List REntry) (tr : Bool)
    (h : ∀ e ∈ es, e.hval = hs.enc (hs.H e.value) ∧ e.truncated = false) :
    (es.map (fun e => ({ key := e.key, md := e.md, payload := if tr then e.hval else e.value } : PEntry))).map
      (toREntry hs tr) = if tr then es.map REntry.strip else es := by
  cases tr with
  | false =>
    simp only [List.map_map, Bool.false_eq_true, if_false]
    conv => rhs; rw [← List.map_id es]
    apply List.map_congr_left
    intro e he
    obtain ⟨h1, h2⟩ := h e he
    cases e
    simp_all [toREntry]
  | true =>
    simp only [List.map_map, if_true]
    apply List.map_congr_left
    intro e he
    obtain ⟨h1, h2⟩ := h e he
    have : copy32 e.hval = e.hval := by
      have := copy32_exact (x := e.hval) (by rw [h1]; exact hs.enc_len _) []
      simpa using this
    simp [toREntry, REntry.strip, this]

theorem entryDigest_strip (hs : Hs D) (v : Int) (e : REntry) :
    entryDigest hs v e.strip = entryDigest hs v e := rfl

theorem entryDigests_strip (hs : Hs D) (v : Int) (es : List REntry) :
    entryDigests hs v (es.map REntry.strip) = entryDigests hs v es := by
  induction es with
  | nil => rfl
  | cons e t ih => simp only [List.map_cons, entryDigests, entryDigest_strip, ih]

theorem ehOf_strip (hs : Hs D) (v : Int) (es : List REntry) :
    ehOf hs v (es.map REntry.strip) = ehOf hs v es := by
  simp only [ehOf, entryDigests_strip]


/-- Same limits. -/
def SameLimits (a b : RCfg) : Prop :=
  a.maxKeyLen = b.maxKeyLen ∧ a.maxValueLen = b.maxValueLen ∧ a.maxTxEntries = b.maxTxEntries

theorem genEntries_length (r : RRec D) (tr : Bool) : (genEntries r tr).length = r.entries.length := by
  cases tr <;> simp [genEntries]

theorem setAll_genuine (hs : Hs D) (cfg scfg : RCfg) (r : RRec D) (tr : Bool) (hcfg : SameLimits scfg cfg)
    (hE : EntriesOK hs cfg r.entries) :
    setAll scfg [] ((toParsed r tr).entries.map (toREntry hs (toParsed r tr).truncated)) =
      .ok (genEntries r tr) := by
  obtain ⟨hk, hv, hm⟩ := hcfg
  obtain ⟨h1, h2, h3⟩ := hE
  show setAll scfg [] ((r.entries.map _).map (toREntry hs tr)) = _
  rw [map_toREntry hs r.entries tr (fun e he => ⟨(h3 e he).2.2.2.2.2.1, (h3 e he).2.2.2.2.2.2.1⟩)]
  have := setAll_distinct scfg (genEntries r tr) [] (by simp [genEntries_length]; omega)
  simp only [List.nil_append] at this
  cases tr with
  | false =>
    simp only [genEntries, Bool.false_eq_true, if_false] at this ⊢
    refine this h2 (fun e he => ?_)
    have := h3 e he
    omega
  | true =>
    simp only [genEntries, if_true] at this ⊢
    refine this ?_ (fun e he => ?_)
    · have : (r.entries.map REntry.strip).map (·.key) = r.entries.map (·.key) := by
        simp [List.map_map, REntry.strip, Function.comp_def]
      rw [this]; exact h2
    · obtain ⟨e', he', rfl⟩ := List.mem_map.1 he
      have := h3 e' he'
      simp only [REntry.strip, List.length_nil]
      omega

theorem ehOf_genEntries (hs : Hs D) (v : Int) (r : RRec D) (tr : Bool) :
    ehOf hs v (genEntries r tr) = ehOf hs v r.entries := by
  cases tr
  · rfl
  · exact ehOf_strip hs v r.entries

theorem toParsed_wf (hs : Hs D) (cfg : RCfg) (r : RRec D) (tr : Bool) (hw : r.hdr.wf = true)
    (hn : r.hdr.nentries = (r.entries.length : Int)) (hE : EntriesOK hs cfg r.entries) :
    (toParsed r tr).wf = true := by
  obtain ⟨h1, h2, h3⟩ := hE
  simp only [Parsed.wf, toParsed, Bool.and_eq_true, decide_eq_true_eq, List.length_map, List.all_eq_true]
  refine ⟨⟨hw, hn⟩, ?_⟩
  intro x hx
  obtain ⟨e, he, rfl⟩ := List.mem_map.1 hx
  obtain ⟨a1, a2, a3, a4, a5, a6, a7, a8⟩ := h3 e he
  simp only [PEntry.wf, Bool.and_eq_true, decide_eq_true_eq]
  refine ⟨⟨a3, ?_⟩, ?_⟩
  · cases tr
    · simpa using a5
    · simp only [if_true]; rw [a6, hs.enc_len]; omega
  · cases hmd : e.md with
    | none => rfl
    | some md =>
      rw [hmd] at a8
      simp only [Bool.and_eq_true, decide_eq_true_eq]
      exact a8

theorem storedHdr_eq (hs : Hs D) (st : RSt D) (p : Parsed) (n : Nat) (blRoot : Bytes) (eh : D)
    (h1 : st.lastPre + 1 = p.hdr.id) (h2 : hs.enc (st.preAlh hs) = p.hdr.prevAlh)
    (h3 : (n : Int) = p.hdr.nentries) (h4 : hs.enc eh = p.hdr.eh) (h5 : blRoot = p.hdr.blRoot) :
    storedHdr hs st p n blRoot eh = p.hdr := by
  unfold storedHdr
  rw [h1, h2, h3, h4, h5]

theorem storedHdr_eq' (hs : Hs D) (st : RSt D) (p : Parsed) (n : Nat) (blRoot : Bytes) (eh : D)
    (h1 : st.lastPre + 1 = p.hdr.id) (h2 : hs.enc (st.preAlh hs) = p.hdr.prevAlh)
    (h3 : (n : Int) = p.hdr.nentries) (h4 : hs.enc eh = p.hdr.eh) :
    storedHdr hs st p n blRoot eh = { p.hdr with blRoot := blRoot } := by
  unfold storedHdr
  rw [h1, h2, h3, h4]

/-- The `BlRoot` that ends up in the stored header of a genuine record: the genuine one for
`BlTxID > 0`, the zero value otherwise. -/
def storedBl (h : TxHdr) : Bytes := if h.blTxID > 0 then h.blRoot else zeros32

/-- For a genuine record that IS its `BlRoot` (`BlTxID = 0` goes with the zero root). -/
theorem storedBl_genuine (hs : Hs D) (cfg : RCfg) (P : List (RRec D)) (hP : Genuine hs cfg P)
    (k : Nat) (hk : k < P.length) :
    storedBl (P[k]).hdr = (P[k]).hdr.blRoot := by
  unfold storedBl
  by_cases hb : (P[k]).hdr.blTxID > 0
  · rw [if_pos hb]
  · rw [if_neg hb, (hP.recs k hk).2.2.2.2.1, blRootOf, if_neg hb]

/-- The success of `Alh()` does not depend on `BlRoot`. -/
theorem alhH_ok_blRoot (hs : Hs D) (h : TxHdr) (a : D) (x : Bytes) (ha : alhH hs h = .ok a) :
    ∃ a', alhH hs { h with blRoot := x } = .ok a' := by
  unfold alhH at ha ⊢
  cases hi : innerBytesH h with
  | error f => rw [hi] at ha; contradiction
  | ok ib =>
    have : ∃ ib', innerBytesH { h with blRoot := x } = .ok ib' := by
      unfold innerBytesH at hi ⊢
      dsimp only at hi ⊢
      by_cases v0 : h.version = 0
      · rw [if_pos v0]; exact ⟨_, rfl⟩
      rw [if_neg v0] at hi ⊢
      by_cases v1 : h.version = 1
      · rw [if_pos v1] at hi ⊢
        cases hm : mdBytesOpt h.md with
        | error f => rw [hm] at hi; contradiction
        | ok mdbs => exact ⟨_, rfl⟩
      · rw [if_neg v1] at hi; contradiction
    obtain ⟨ib', e⟩ := this
    rw [e]
    exact ⟨_, rfl⟩

/-- A record of the genuine history with its id. -/
def IsP (P : List (RRec D)) (r : RRec D) : Prop :=
  ∃ k, ∃ (h : k < P.length), r.hdr.id = k + 1 ∧ SameTx r (P[k])

/-- What an accepted genuine export leaves in the record. -/
theorem precommit_genuine_shape (hs : Hs D) (cfg : RCfg) (P : List (RRec D)) (hP : Genuine hs cfg P)
    (st : RSt D) (hcfg : SameLimits st.cfg cfg) (k : Nat) (hk : k < P.length) (tr skip : Bool) (r : RRec D)
    (h : precommit hs st (toParsed (P[k]) tr) skip = .ok r) :
    st.lastPre = k ∧ r.hdr = { (P[k]).hdr with blRoot := storedBl (P[k]).hdr } ∧
      r.entries = genEntries (P[k]) tr ∧ alhH hs r.hdr = .ok r.alh := by
  obtain ⟨g1, g2, g3, g4, g5, ⟨eh0, g6, g6'⟩, g7, g8, g9, g10⟩ := hP.recs k hk
  obtain ⟨es, eh, i1, i2, i3, i4, i5, i6, i7, i8⟩ := precommit_ok_inv hs st _ skip r h
  rw [setAll_genuine hs cfg st.cfg (P[k]) tr hcfg g10] at i1
  injection i1 with i1
  subst i1
  have hp : (toParsed (P[k]) tr).hdr = (P[k]).hdr := rfl
  rw [hp] at i2 i3 i4 i5
  rw [ehOf_genEntries, g6] at i3
  injection i3 with i3
  subst i3
  refine ⟨by omega, ?_, i7, i8⟩
  rw [i6]
  exact storedHdr_eq' hs st _ _ _ _ i4 i5 i2 g6'.symm

theorem precommit_genuine_inv (hs : Hs D) (cfg : RCfg) (P : List (RRec D)) (hP : Genuine hs cfg P)
    (st : RSt D) (hcfg : SameLimits st.cfg cfg) (k : Nat) (hk : k < P.length) (tr skip : Bool) (r : RRec D)
    (h : precommit hs st (toParsed (P[k]) tr) skip = .ok r) :
    st.lastPre = k ∧ r.hdr.id = k + 1 ∧ SameTx r (P[k]) := by
  obtain ⟨g1, g2, g3, g4, g5, ⟨eh0, g6, g6'⟩, g7, g8, g9, g10⟩ := hP.recs k hk
  obtain ⟨s1, s2, s3, s4⟩ := precommit_genuine_shape hs cfg P hP st hcfg k hk tr skip r h
  have hh : r.hdr = (P[k]).hdr := by
    rw [s2, storedBl_genuine hs cfg P hP k hk]
  have ha : r.alh = (P[k]).alh := by
    rw [hh, g3] at s4
    injection s4 with s4
    exact s4.symm
  refine ⟨s1, by rw [hh, g1], hh, ha, ?_⟩
  rw [s3]
  cases tr
  · exact Or.inl rfl
  · exact Or.inr rfl

-- ------------------------------------------------------------------ the next genuine export passes every check

theorem lastPre_eq (st : RSt D) : st.lastPre = st.chain.length := by
  simp [RSt.lastPre, RSt.chain]

theorem lastAlh_map (hs : Hs D) (l : List (RRec D)) :
    lastAlh hs l = match (l.map (·.alh)).getLast? with | some a => a | none => hs.H [] := by
  unfold lastAlh
  rw [List.getLast?_map]
  cases l.getLast? <;> rfl

theorem lastAlh_congr (hs : Hs D) {l l' : List (RRec D)} (h : l.map (·.alh) = l'.map (·.alh)) :
    lastAlh hs l = lastAlh hs l' := by
  rw [lastAlh_map, lastAlh_map, h]

theorem chain_alhs (P : List (RRec D)) (c : List (RRec D)) (n : Nat) (hn : n ≤ P.length)
    (hlen : c.length = n)
    (hsame : ∀ i (h : i < c.length) (h' : i < P.length), SameTx (c[i]) (P[i])) :
    c.map (·.alh) = (P.take n).map (·.alh) := by
  apply List.ext_getElem
  · simp [hlen]; omega
  · intro i h1 h2
    simp only [List.length_map] at h1
    simp only [List.getElem_map, List.getElem_take]
    exact (hsame i h1 (by omega)).2.1

theorem mdBytesOpt_ok_of_wf (h : TxHdr) (hw : h.wf = true) : ∃ b, mdBytesOpt h.md = .ok b := by
  cases hmd : h.md with
  | none => exact ⟨[], rfl⟩
  | some md =>
    have : md.wf = true := by
      simp only [TxHdr.wf, hmd, Bool.and_eq_true] at hw
      exact hw.1.2
    obtain ⟨bs, hb, _⟩ := txmd_roundtrip_aux md this
    exact ⟨bs, hb⟩

theorem nentries_pos_of_wf (h : TxHdr) (hw : h.wf = true) : 1 ≤ h.nentries := by
  simp only [TxHdr.wf, Bool.and_eq_true, decide_eq_true_eq] at hw
  exact hw.1.1.2

theorem precommit_genuine_ok (hs : Hs D) (cfg : RCfg) (P : List (RRec D)) (hP : Genuine hs cfg P)
    (st : RSt D) (hcfg : SameLimits st.cfg cfg) (n : Nat) (hn : n < P.length) (tr skip : Bool)
    (hlen : st.chain.length = n)
    (hsame : ∀ i (h : i < st.chain.length) (h' : i < P.length), SameTx (st.chain[i]) (P[i]))
    (hwait : n ≤ st.waitDone)
    (hwin : st.cfg.synced = true → n < st.committed.length + st.cfg.maxActive)
    (hact : 0 < st.cfg.maxActive) :
    ∃ r, precommit hs st (toParsed (P[n]) tr) skip = .ok r := by
  obtain ⟨g1, g2, g3, g4, g5, ⟨eh0, g6, g6'⟩, g7, g8, g9, g10⟩ := hP.recs n hn
  have hlp : st.lastPre = n := by rw [lastPre_eq, hlen]
  have halhs := chain_alhs P st.chain n (by omega) hlen hsame
  obtain ⟨mdb, hmd⟩ := mdBytesOpt_ok_of_wf _ g8
  have hpos := nentries_pos_of_wf _ g8
  have hprev : hs.enc (st.preAlh hs) = (P[n]).hdr.prevAlh := by
    rw [g2, RSt.preAlh, lastAlh_congr hs halhs]
  have hroot : (if (P[n]).hdr.blTxID > 0 ∧ st.lastPre > 0 then hs.enc (RSt.rootAt hs st (P[n]).hdr.blTxID)
                else zeros32) = (P[n]).hdr.blRoot := by
    rw [g5, blRootOf]
    by_cases hb : (P[n]).hdr.blTxID > 0
    · have e : ((P.take n).map (·.alh)).take (P[n]).hdr.blTxID = (P.map (·.alh)).take (P[n]).hdr.blTxID := by
        rw [List.map_take, List.take_take, Nat.min_eq_left g4]
      rw [if_pos ⟨hb, by omega⟩, if_pos hb, RSt.rootAt, halhs, e]
    · rw [if_neg (fun c => hb c.1), if_neg hb]
  have hst : storedHdr hs st (toParsed (P[n]) tr) (genEntries (P[n]) tr).length
      (if (toParsed (P[n]) tr).hdr.blTxID > 0 then (toParsed (P[n]) tr).hdr.blRoot else zeros32) eh0 =
        { (P[n]).hdr with blRoot := storedBl (P[n]).hdr } :=
    storedHdr_eq' hs st _ _ _ _ (by rw [hlp]; exact g1.symm) hprev
      (by rw [genEntries_length]; exact g7.symm) g6'.symm
  obtain ⟨a', ha'⟩ := alhH_ok_blRoot hs _ _ (storedBl (P[n]).hdr) g3
  refine ⟨_, precommit_ok_of hs st (toParsed (P[n]) tr) skip (genEntries (P[n]) tr) eh0 a'
    (setAll_genuine hs cfg st.cfg (P[n]) tr hcfg g10) ?_ mdb hmd ?_ ?_ ?_ g6'.symm ?_ hact ?_ ?_ hroot hprev ?_ ?_⟩
  · rw [genEntries_length]; exact g7.symm
  · rw [genEntries_length]
    have : (toParsed (P[n]) tr).hdr = (P[n]).hdr := rfl
    intro h0; rw [g7, h0] at hpos; simp at hpos
  · rw [genEntries_length, hcfg.2.2]; exact g10.1
  · rw [ehOf_genEntries]; exact g6
  · rw [hlp]; exact g1
  · omega
  · rw [hlp]; exact g4
  · intro c; have := hwin c.1; omega
  · rw [hst]; exact ha'

-- ------------------------------------------------------------------ `mayCommit` and the invariant

theorem chain_def (st : RSt D) : st.chain = st.committed ++ live st.log := rfl

/-- The shape of an accepting `mayCommit`. -/
theorem mayCommit_ok_inv (st st' : RSt D) (h : mayCommit st = .ok st') :
    st' = st ∨ ∃ cnt, st' = { st with committed := st.committed ++ (commitLog cnt st.log).fst, log := (commitLog cnt st.log).snd } := by
  unfold mayCommit at h
  dsimp only at h
  by_cases c1 : st.commitAllowedUpTo - st.committed.length = 0
  · rw [if_pos c1] at h
    injection h with h
    exact Or.inl h.symm
  rw [if_neg c1] at h
  by_cases c2 : st.commitAllowedUpTo - st.committed.length > st.pre.length
  · rw [if_pos c2] at h; contradiction
  rw [if_neg c2] at h
  injection h with h
  exact Or.inr ⟨_, h.symm⟩

theorem mayCommit_ok_of (st : RSt D) (h : st.commitAllowedUpTo - st.committed.length ≤ st.pre.length) :
    ∃ st', mayCommit st = .ok st' := by
  unfold mayCommit
  dsimp only
  by_cases c1 : st.commitAllowedUpTo - st.committed.length = 0
  · rw [if_pos c1]; exact ⟨_, rfl⟩
  rw [if_neg c1, if_neg (by omega)]
  exact ⟨_, rfl⟩

theorem mayCommit_chain (st st' : RSt D) (h : mayCommit st = .ok st') : st'.chain = st.chain := by
  rcases mayCommit_ok_inv st st' h with rfl | ⟨cnt, rfl⟩
  · rfl
  · simp only [chain_def, List.append_assoc, (commitLog_spec cnt st.log).1]

/-- The invariant of the prefix theorem. -/
structure Inv (cfg : RCfg) (P : List (RRec D)) (st : RSt D) : Prop where
  cfg : st.cfg = cfg
  com : ∀ r ∈ st.committed, IsP P r
  log : ∀ x ∈ st.log, IsP P x.1
  ghost : ∀ r, st.ghost = some r → IsP P r
  dense : Dense 0 (st.committed ++ live st.log)

theorem inv_init (cfg : RCfg) (P : List (RRec D)) : Inv cfg P (RSt.init cfg : RSt D) :=
  ⟨rfl, fun r h => by simp [RSt.init] at h, fun r h => by simp [RSt.init] at h,
   fun r h => by simp [RSt.init] at h, by simpa [RSt.init] using dense_nil 0⟩

theorem inv_mayCommit {cfg : RCfg} {P : List (RRec D)} {st st' : RSt D} (hi : Inv cfg P st)
    (h : mayCommit st = .ok st') : Inv cfg P st' := by
  rcases mayCommit_ok_inv st st' h with rfl | ⟨cnt, rfl⟩
  · exact hi
  · obtain ⟨s1, s2⟩ := commitLog_spec cnt st.log
    refine ⟨hi.cfg, ?_, fun x hx => hi.log x (s2 x hx), hi.ghost, ?_⟩
    · intro r hr
      rcases List.mem_append.1 hr with hr | hr
      · exact hi.com r hr
      · have : r ∈ live st.log := by rw [← s1]; exact List.mem_append_left _ hr
        obtain ⟨x, hx, rfl⟩ := mem_live this
        exact hi.log x hx
    · show Dense 0 ((st.committed ++ _) ++ live _)
      rw [List.append_assoc, s1]; exact hi.dense

theorem inv_sync {cfg : RCfg} {P : List (RRec D)} {st : RSt D} (hi : Inv cfg P st) :
    Inv cfg P (sync st).st := by
  unfold sync
  split
  · exact hi
  · dsimp only
    have hi1 : Inv cfg P { st with durable := st.lastPre } := ⟨hi.cfg, hi.com, hi.log, hi.ghost, hi.dense⟩
    split
    · exact hi1
    · rename_i st2 h2; exact inv_mayCommit hi1 h2

theorem inv_allow {cfg : RCfg} {P : List (RRec D)} {st : RSt D} (hi : Inv cfg P st) (txID : Nat) :
    Inv cfg P (allowCommitUpto st txID).st := by
  unfold allowCommitUpto
  split
  · exact hi
  split
  · exact hi
  dsimp only
  have hi1 : Inv cfg P { st with allowed := if st.lastPre < txID then st.lastPre else txID } :=
    ⟨hi.cfg, hi.com, hi.log, hi.ghost, hi.dense⟩
  split
  · exact hi1
  split
  · exact hi1
  · rename_i st2 h2; exact inv_mayCommit hi1 h2

theorem inv_discard {cfg : RCfg} {P : List (RRec D)} {st : RSt D} (hi : Inv cfg P st) (txID : Nat) :
    Inv cfg P (discardSince st txID).st := by
  unfold discardSince
  split
  · exact hi
  split
  · exact hi
  split
  · exact hi
  dsimp only
  obtain ⟨k1, k2⟩ := keepLive_spec (st.pre.length - (st.lastPre + 1 - txID)) st.log
  refine ⟨hi.cfg, hi.com, ?_, hi.ghost, ?_⟩
  · intro x hx
    have : x.1 ∈ st.log.map (·.1) := by rw [← k2]; exact List.mem_map_of_mem hx
    obtain ⟨y, hy, e⟩ := List.mem_map.1 this
    rw [← e]; exact hi.log y hy
  · show Dense 0 (st.committed ++ live (keepLive _ st.log))
    rw [k1]
    have := hi.dense
    rw [dense_append] at this ⊢
    exact ⟨this.1, dense_take _ this.2⟩

theorem inv_restart {cfg : RCfg} {P : List (RRec D)} (hs : Hs D) {st : RSt D} (hi : Inv cfg P st) :
    Inv cfg P (restart hs st) := by
  unfold restart
  dsimp only
  obtain ⟨r1, r2⟩ := reload_spec hs st.committed.length (hs.enc (st.committedAlh hs))
    (st.log.map (·.1) ++ st.ghost.toList)
  refine ⟨hi.cfg, hi.com, ?_, fun r h => by simp at h, ?_⟩
  · intro x hx
    obtain ⟨r, hr, rfl⟩ := List.mem_map.1 hx
    rcases List.mem_append.1 (r1 r hr) with h | h
    · obtain ⟨y, hy, e⟩ := List.mem_map.1 h
      rw [← e]; exact hi.log y hy
    · exact hi.ghost r (by simpa using h)
  · show Dense 0 (st.committed ++ live (List.map (fun r => (r, true)) _))
    rw [live_map_true, dense_append]
    refine ⟨(dense_append.1 hi.dense).1, by simpa using r2⟩

theorem inv_replicate {cfg : RCfg} {P : List (RRec D)} (hs : Hs D) (hP : Genuine hs cfg P) {st : RSt D}
    (hi : Inv cfg P st) (b : Bytes) (skip : Bool) (k : Nat) (hk : k < P.length) (tr : Bool)
    (hparse : parseExported b = .ok (toParsed (P[k]) tr)) : Inv cfg P (replicate hs st b skip).st := by
  unfold replicate
  rw [hparse]
  dsimp only
  cases hpc : precommit hs st (toParsed (P[k]) tr) skip with
  | error x => exact hi
  | ok r =>
    dsimp only
    have hlim : SameLimits st.cfg cfg := by rw [hi.cfg]; exact ⟨rfl, rfl, rfl⟩
    obtain ⟨p1, p2, p3⟩ := precommit_genuine_inv hs cfg P hP st hlim k hk tr skip r hpc
    have hr : IsP P r := ⟨k, hk, p2, p3⟩
    by_cases c1 : st.pre.length ≥ st.bufCap
    · rw [if_pos c1]
      exact ⟨hi.cfg, hi.com, hi.log, fun r' h => by cases h; exact hr, hi.dense⟩
    rw [if_neg c1]
    have hd : Dense 0 (st.committed ++ live (st.log ++ [(r, true)])) := by
      rw [live_append, ← List.append_assoc, dense_append]
      refine ⟨hi.dense, ?_⟩
      intro i h
      have hi0 : i = 0 := by simpa using h
      subst hi0
      have : st.lastPre = (st.committed ++ live st.log).length := lastPre_eq st
      simp only [live_cons_true, live_nil, List.getElem_cons_zero]
      omega
    have hl : ∀ x ∈ st.log ++ [(r, true)], IsP P x.1 := by
      intro x hx
      rcases List.mem_append.1 hx with h | h
      · exact hi.log x h
      · have : x = (r, true) := by simpa using h
        rw [this]; exact hr
    have hi2 : ∀ (d w : Nat), Inv cfg P ({ st with log := st.log ++ [(r, true)], ghost := none,
                                                    waitDone := w, durable := d } : RSt D) :=
      fun d w => ⟨hi.cfg, hi.com, hl, fun r' h => (by cases h), hd⟩
    by_cases c2 : st.cfg.synced = true
    · rw [if_pos c2]
      exact hi2 _ _
    rw [if_neg c2]
    split
    · exact hi2 _ _
    · rename_i st3 h3
      exact inv_mayCommit (hi2 _ _) h3

theorem inv_final {cfg : RCfg} {P : List (RRec D)} {st : RSt D} (hi : Inv cfg P st) :
    st.chain.length ≤ P.length ∧
    ∀ i (h : i < st.chain.length) (h' : i < P.length), SameTx (st.chain[i]) (P[i]) := by
  have key : ∀ i (h : i < st.chain.length), ∃ (h' : i < P.length), SameTx (st.chain[i]) (P[i]) := by
    intro i h
    have hid := hi.dense i h
    have hm : st.chain[i] ∈ st.committed ++ live st.log := List.getElem_mem h
    have hp : IsP P (st.chain[i]) := by
      rcases List.mem_append.1 hm with hm | hm
      · exact hi.com _ hm
      · obtain ⟨x, hx, e⟩ := mem_live hm
        rw [← e]; exact hi.log x hx
    obtain ⟨k, hk, e1, e2⟩ := hp
    have : k = i := by
      have : (st.chain[i]).hdr.id = 0 + i + 1 := hid
      omega
    subst this
    exact ⟨hk, e2⟩
  refine ⟨?_, fun i h h' => (key i h).2⟩
  cases hl : st.chain.length with
  | zero => omega
  | succ m =>
    obtain ⟨h', _⟩ := key m (by omega)
    omega

-- ------------------------------------------------------------------ explicit steps (for the re-replication-from-genesis run)

theorem mayCommit_zero (st : RSt D) (h : st.commitAllowedUpTo - st.committed.length = 0) :
    mayCommit st = .ok st := by
  unfold mayCommit
  dsimp only
  rw [if_pos h]

/-- An accepted delivery on a non-Synced store with external commit allowance 0: nothing is committed. -/
theorem replicate_ext0 (hs : Hs D) (st : RSt D) (b : Bytes) (skip : Bool) (p : Parsed) (r : RRec D)
    (hparse : parseExported b = .ok p) (hpc : precommit hs st p skip = .ok r)
    (hbuf : st.pre.length < st.bufCap) (hsy : st.cfg.synced = false) (hx : st.cfg.extAllowance = true)
    (ha : st.allowed = 0) (hc : st.committed = []) :
    (replicate hs st b skip).st.cfg = st.cfg ∧ (replicate hs st b skip).st.committed = [] ∧
    (replicate hs st b skip).st.log = st.log ++ [(r, true)] ∧ (replicate hs st b skip).st.allowed = 0 ∧
    (replicate hs st b skip).st.bufCap = st.bufCap ∧ st.lastPre + 1 ≤ (replicate hs st b skip).st.waitDone := by
  unfold replicate
  rw [hparse]
  dsimp only
  rw [hpc]
  dsimp only
  rw [if_neg (by omega), if_neg (by simp [hsy])]
  rw [mayCommit_zero _ (by simp [RSt.commitAllowedUpTo, hx, ha])]
  dsimp only
  refine ⟨rfl, hc, rfl, ha, rfl, ?_⟩
  split <;> omega

theorem discard_fields (st : RSt D) (txID : Nat) (h1 : txID ≠ 0) (h2 : ¬ txID ≤ st.committed.length)
    (h3 : ¬ txID > st.lastPre) :
    (discardSince st txID).st.cfg = st.cfg ∧ (discardSince st txID).st.committed = st.committed ∧
    (discardSince st txID).st.log = keepLive (st.pre.length - (st.lastPre + 1 - txID)) st.log ∧
    (discardSince st txID).st.allowed = st.allowed ∧ (discardSince st txID).st.bufCap = st.bufCap ∧
    (discardSince st txID).st.waitDone = st.waitDone := by
  unfold discardSince
  rw [if_neg h1, if_neg h2, if_neg h3]
  exact ⟨rfl, rfl, rfl, rfl, rfl, rfl⟩

theorem chain_of_fields (st : RSt D) (L : List (RRec D × Bool)) (hc : st.committed = []) (hl : st.log = L) :
    st.chain = live L ∧ st.pre = live L ∧ st.lastPre = (live L).length := by
  refine ⟨by rw [chain_def, hc, hl]; rfl, by rw [pre_eq, hl], ?_⟩
  rw [lastPre_eq, chain_def, hc, hl]; rfl

end ImmuModel.Replica.ReplicaPrefixAux

