/-
C07 — the accumulated hash binds the header; which supplied header fields `precommit` does not
check (K3); rejection of non-extending deliveries; the database-level Alh comparison.
Helper lemmas live in `ImmuModel.Replica.ReplicaHdrAux`.
-/
import ImmuModel.Store.ReplicaSpec

namespace ImmuModel.Replica.ReplicaHdrAux
open ImmuModel ImmuModel.Tx ImmuModel.Merkle ImmuModel.GoInt

variable {D : Type}

theorem H_eq (hs : Hs D) (x y : Bytes) (h : hs.H x = hs.H y) : x = y ∨ HColl hs := by
  by_cases e : x = y
  · exact Or.inl e
  · exact Or.inr ⟨x, y, e, h⟩

theorem lowBits_small {w : Nat} {x : Int} (h0 : 0 ≤ x) (h1 : x < ((256 ^ w : Nat) : Int)) :
    lowBits w x = x.toNat := by
  unfold lowBits
  rw [Int.emod_eq_of_lt h0 h1]

theorem u64_inj {a b : Int} (ha : InI64 a) (hb : InI64 b) (h : u64 a = u64 b) : a = b := by
  rw [← i64_u64 ha, ← i64_u64 hb, h]

theorem inner_v0 (h : TxHdr) (hv : h.version = 0) :
    innerBytesH h = .ok (beN 8 (u64 h.ts) ++ (beN 2 0 ++ (beN 2 (lowBits 2 h.nentries) ++
      (h.eh ++ (beN 8 h.blTxID ++ h.blRoot))))) := by
  have hlb : lowBits 2 0 = 0 := by decide
  simp [innerBytesH, hv, hlb, Gen.storeTsSize, Gen.storeSszSize, Gen.storeTxIDSize]

theorem inner_v1 (h : TxHdr) (hv : h.version = 1) (mdbs : Bytes) (hm : mdBytesOpt h.md = .ok mdbs) :
    innerBytesH h = .ok (beN 8 (u64 h.ts) ++ (beN 2 1 ++ (beN 2 mdbs.length ++ (mdbs ++
      (beN 4 (lowBits 4 h.nentries) ++ (h.eh ++ (beN 8 h.blTxID ++ h.blRoot))))))) := by
  have hlb : lowBits 2 1 = 1 := by decide
  simp [innerBytesH, hv, hm, hlb, Gen.storeTsSize, Gen.storeSszSize, Gen.storeTxIDSize, Gen.storeLszSize]

theorem inner_v1_err (h : TxHdr) (hv : h.version = 1) (f : Fault) (hm : mdBytesOpt h.md = .error f) :
    innerBytesH h = .error f := by
  simp [innerBytesH, hv, hm]

theorem be8_inj {a b : Nat} (ha : a < 2 ^ 64) (hb : b < 2 ^ 64) (h : beN 8 a = beN 8 b) : a = b :=
  beN_inj 8 a b (by omega) (by omega) h

theorem be2_inj {a b : Nat} (ha : a < 65536) (hb : b < 65536) (h : beN 2 a = beN 2 b) : a = b :=
  beN_inj 2 a b (by omega) (by omega) h

theorem be4_inj {a b : Nat} (ha : a < 4294967296) (hb : b < 4294967296) (h : beN 4 a = beN 4 b) : a = b :=
  beN_inj 4 a b (by omega) (by omega) h

theorem u64_be_inj {a b : Int} (ha : InI64 a) (hb : InI64 b) (h : beN 8 (u64 a) = beN 8 (u64 b)) : a = b := by
  apply u64_inj ha hb
  have h1 := u64_lt a
  have h2 := u64_lt b
  unfold two64 at h1 h2
  exact be8_inj (by omega) (by omega) h

theorem lb2_inj {a b : Int} (ha0 : 0 ≤ a) (ha : a < 65536) (hb0 : 0 ≤ b) (hb : b < 65536)
    (h : beN 2 (lowBits 2 a) = beN 2 (lowBits 2 b)) : a = b := by
  rw [lowBits_small ha0 (by simpa using ha), lowBits_small hb0 (by simpa using hb)] at h
  have := be2_inj (by omega) (by omega) h
  omega

theorem lb4_inj {a b : Int} (ha0 : 0 ≤ a) (ha : a < 4294967296) (hb0 : 0 ≤ b) (hb : b < 4294967296)
    (h : beN 4 (lowBits 4 a) = beN 4 (lowBits 4 b)) : a = b := by
  rw [lowBits_small ha0 (by simpa using ha), lowBits_small hb0 (by simpa using hb)] at h
  have := be4_inj (by omega) (by omega) h
  omega

theorem inner_inj (h h' : TxHdr) (ib : Bytes)
    (hf : InI64 h.ts ∧ (h.version = 0 ∨ h.version = 1) ∧
      0 ≤ h.nentries ∧ (h.version = 0 → h.nentries < 65536) ∧ (h.version = 1 → h.nentries < 4294967296) ∧
      h.eh.length = 32 ∧ h.blTxID < 2 ^ 64 ∧ h.blRoot.length = 32 ∧
      (∀ b, mdBytesOpt h.md = .ok b → b.length < 65536))
    (hf' : InI64 h'.ts ∧ (h'.version = 0 ∨ h'.version = 1) ∧
      0 ≤ h'.nentries ∧ (h'.version = 0 → h'.nentries < 65536) ∧ (h'.version = 1 → h'.nentries < 4294967296) ∧
      h'.eh.length = 32 ∧ h'.blTxID < 2 ^ 64 ∧ h'.blRoot.length = 32 ∧
      (∀ b, mdBytesOpt h'.md = .ok b → b.length < 65536))
    (e1 : innerBytesH h = .ok ib) (e2 : innerBytesH h' = .ok ib) :
    h.ts = h'.ts ∧ h.version = h'.version ∧ (h.version = 1 → mdBytesOpt h.md = mdBytesOpt h'.md) ∧
    h.nentries = h'.nentries ∧ h.eh = h'.eh ∧ h.blTxID = h'.blTxID ∧ h.blRoot = h'.blRoot := by
  obtain ⟨hts, hv, hn0, hnv0, hnv1, hE, hbl, hR, hmd⟩ := hf
  obtain ⟨hts', hv', hn0', hnv0', hnv1', hE', hbl', hR', hmd'⟩ := hf'
  have b01 : beN 2 0 ≠ beN 2 1 := fun e => by
    have := be2_inj (by omega) (by omega) e
    omega
  rcases hv with hv | hv <;> rcases hv' with hv' | hv'
  · rw [inner_v0 h hv] at e1
    rw [inner_v0 h' hv'] at e2
    have e := (Except.ok.inj e1).trans (Except.ok.inj e2).symm
    obtain ⟨a1, e⟩ := List.append_inj e (by simp)
    obtain ⟨_, e⟩ := List.append_inj e (by simp)
    obtain ⟨a2, e⟩ := List.append_inj e (by simp)
    obtain ⟨a3, e⟩ := List.append_inj e (by rw [hE, hE'])
    obtain ⟨a4, a5⟩ := List.append_inj e (by simp)
    refine ⟨u64_be_inj hts hts' a1, by rw [hv, hv'], fun c => by rw [hv] at c; omega,
      lb2_inj hn0 (hnv0 hv) hn0' (hnv0' hv') a2, a3, be8_inj hbl hbl' a4, a5⟩
  · exfalso
    cases hm' : mdBytesOpt h'.md with
    | error f => rw [inner_v1_err h' hv' f hm'] at e2; cases e2
    | ok mdbs' =>
      rw [inner_v0 h hv] at e1
      rw [inner_v1 h' hv' mdbs' hm'] at e2
      have e := (Except.ok.inj e1).trans (Except.ok.inj e2).symm
      obtain ⟨_, e⟩ := List.append_inj e (by simp)
      obtain ⟨a, _⟩ := List.append_inj e (by simp)
      exact b01 a
  · exfalso
    cases hm : mdBytesOpt h.md with
    | error f => rw [inner_v1_err h hv f hm] at e1; cases e1
    | ok mdbs =>
      rw [inner_v1 h hv mdbs hm] at e1
      rw [inner_v0 h' hv'] at e2
      have e := (Except.ok.inj e1).trans (Except.ok.inj e2).symm
      obtain ⟨_, e⟩ := List.append_inj e (by simp)
      obtain ⟨a, _⟩ := List.append_inj e (by simp)
      exact b01 a.symm
  · cases hm : mdBytesOpt h.md with
    | error f => rw [inner_v1_err h hv f hm] at e1; cases e1
    | ok mdbs =>
      cases hm' : mdBytesOpt h'.md with
      | error f => rw [inner_v1_err h' hv' f hm'] at e2; cases e2
      | ok mdbs' =>
        rw [inner_v1 h hv mdbs hm] at e1
        rw [inner_v1 h' hv' mdbs' hm'] at e2
        have e := (Except.ok.inj e1).trans (Except.ok.inj e2).symm
        obtain ⟨a1, e⟩ := List.append_inj e (by simp)
        obtain ⟨_, e⟩ := List.append_inj e (by simp)
        obtain ⟨al, e⟩ := List.append_inj e (by simp)
        have hl : mdbs.length = mdbs'.length := be2_inj (hmd _ hm) (hmd' _ hm') al
        obtain ⟨am, e⟩ := List.append_inj e hl
        obtain ⟨a2, e⟩ := List.append_inj e (by simp)
        obtain ⟨a3, e⟩ := List.append_inj e (by rw [hE, hE'])
        obtain ⟨a4, a5⟩ := List.append_inj e (by simp)
        refine ⟨u64_be_inj hts hts' a1, by rw [hv, hv'], fun _ => by rw [am],
          lb4_inj hn0 (hnv1 hv) hn0' (hnv1' hv') a2, a3, be8_inj hbl hbl' a4, a5⟩

theorem mayCommit_err (st : RSt D) (x : XErr) (h : mayCommit st = .error x) : x = .bufferConsumed := by
  unfold mayCommit at h
  simp only at h
  split at h
  · cases h
  · split at h
    · simp only [Except.error.injEq] at h
      exact h.symm
    · cases h

/-- Everything an accepted `precommit` has checked, and what it returns. -/
def PreOK (hs : Hs D) (st : RSt D) (p : Parsed) (skip : Bool) (es : List REntry) (eh : D) (blr : Bytes) : Prop :=
  setAll st.cfg [] (p.entries.map (toREntry hs p.truncated)) = .ok es ∧
  ¬ ((es.length : Int) ≠ p.hdr.nentries) ∧
  (∃ b, mdBytesOpt p.hdr.md = .ok b) ∧
  ¬ (es.length = 0 ∧ txmdEmptyOrExtraOnly p.hdr.md) ∧
  ¬ (es.length > st.cfg.maxTxEntries) ∧
  ehOf hs p.hdr.version es = .ok eh ∧
  ¬ (!skip ∧ hs.enc eh ≠ p.hdr.eh) ∧
  ¬ (st.lastPre ≥ p.hdr.id) ∧
  ¬ (p.hdr.id > st.lastPre + st.cfg.maxActive) ∧
  ¬ (p.hdr.id - 1 > st.waitDone) ∧
  ¬ (p.hdr.blTxID > 0 ∧ st.lastPre > 0 ∧ p.hdr.blTxID > st.lastPre) ∧
  (if p.hdr.blTxID > 0 ∧ st.lastPre > 0 then hs.enc (st.rootAt hs p.hdr.blTxID) else zeros32) = blr ∧
  ¬ (blr ≠ p.hdr.blRoot) ∧
  ¬ (st.lastPre > p.hdr.id - 1) ∧
  ¬ (st.lastPre < p.hdr.id - 1) ∧
  ¬ (hs.enc (st.preAlh hs) ≠ p.hdr.prevAlh) ∧
  ¬ (st.cfg.synced ∧ st.committed.length + st.cfg.maxActive ≤ st.lastPre)

theorem precommit_inv (hs : Hs D) (st : RSt D) (p : Parsed) (skip : Bool) (r : RRec D)
    (hok : precommit hs st p skip = .ok r) :
    ∃ es eh blr a, PreOK hs st p skip es eh blr ∧
      alhH hs (storedHdr hs st p es.length (if p.hdr.blTxID > 0 then blr else zeros32) eh) = .ok a ∧
      r = { hdr := storedHdr hs st p es.length (if p.hdr.blTxID > 0 then blr else zeros32) eh,
            entries := es, alh := a } := by
  simp only [precommit] at hok
  generalize hblr : (if p.hdr.blTxID > 0 ∧ st.lastPre > 0 then hs.enc (st.rootAt hs p.hdr.blTxID) else zeros32) = blr at hok
  cases hes : setAll st.cfg [] (p.entries.map (toREntry hs p.truncated)) with
  | error x => rw [hes] at hok; cases hok
  | ok es =>
  rw [hes] at hok
  dsimp only at hok
  by_cases c1 : (es.length : Int) ≠ p.hdr.nentries
  · rw [if_pos c1] at hok; cases hok
  rw [if_neg c1] at hok
  cases hb : mdBytesOpt p.hdr.md with
  | error x => rw [hb] at hok; cases hok
  | ok b =>
  rw [hb] at hok
  dsimp only at hok
  by_cases c2 : es.length = 0 ∧ txmdEmptyOrExtraOnly p.hdr.md
  · rw [if_pos c2] at hok; cases hok
  rw [if_neg c2] at hok
  by_cases c3 : es.length > st.cfg.maxTxEntries
  · rw [if_pos c3] at hok; cases hok
  rw [if_neg c3] at hok
  cases heh : ehOf hs p.hdr.version es with
  | error x => rw [heh] at hok; cases hok
  | ok eh =>
  rw [heh] at hok
  dsimp only at hok
  by_cases c4 : !skip ∧ hs.enc eh ≠ p.hdr.eh
  · rw [if_pos c4] at hok; cases hok
  rw [if_neg c4] at hok
  by_cases c5 : st.lastPre ≥ p.hdr.id
  · rw [if_pos c5] at hok; cases hok
  rw [if_neg c5] at hok
  by_cases c6 : p.hdr.id > st.lastPre + st.cfg.maxActive
  · rw [if_pos c6] at hok; cases hok
  rw [if_neg c6] at hok
  by_cases c7 : p.hdr.id - 1 > st.waitDone
  · rw [if_pos c7] at hok; cases hok
  rw [if_neg c7] at hok
  by_cases c8 : p.hdr.blTxID > 0 ∧ st.lastPre > 0 ∧ p.hdr.blTxID > st.lastPre
  · rw [if_pos c8] at hok; cases hok
  rw [if_neg c8] at hok
  by_cases c9 : blr ≠ p.hdr.blRoot
  · rw [if_pos c9] at hok; cases hok
  rw [if_neg c9] at hok
  by_cases c10 : st.lastPre > p.hdr.id - 1
  · rw [if_pos c10] at hok; cases hok
  rw [if_neg c10] at hok
  by_cases c11 : st.lastPre < p.hdr.id - 1
  · rw [if_pos c11] at hok; cases hok
  rw [if_neg c11] at hok
  by_cases c12 : hs.enc (st.preAlh hs) ≠ p.hdr.prevAlh
  · rw [if_pos c12] at hok; cases hok
  rw [if_neg c12] at hok
  by_cases c13 : st.cfg.synced ∧ st.committed.length + st.cfg.maxActive ≤ st.lastPre
  · rw [if_pos c13] at hok; cases hok
  rw [if_neg c13] at hok
  cases ha : alhH hs (storedHdr hs st p es.length (if p.hdr.blTxID > 0 then blr else zeros32) eh) with
  | error x => rw [ha] at hok; cases hok
  | ok a =>
  rw [ha] at hok
  dsimp only at hok
  exact ⟨es, eh, blr, a, ⟨hes, c1, ⟨b, hb⟩, c2, c3, heh, c4, c5, c6, c7, c8, hblr, c9, c10, c11, c12, c13⟩, ha,
    (Except.ok.inj hok).symm⟩

theorem precommit_intro (hs : Hs D) (st : RSt D) (p : Parsed) (skip : Bool) (es : List REntry) (eh : D)
    (blr : Bytes) (a : D) (h : PreOK hs st p skip es eh blr)
    (ha : alhH hs (storedHdr hs st p es.length (if p.hdr.blTxID > 0 then blr else zeros32) eh) = .ok a) :
    precommit hs st p skip = .ok { hdr := storedHdr hs st p es.length (if p.hdr.blTxID > 0 then blr else zeros32) eh,
                                   entries := es, alh := a } := by
  obtain ⟨hes, c1, ⟨b, hb⟩, c2, c3, heh, c4, c5, c6, c7, c8, hblr, c9, c10, c11, c12, c13⟩ := h
  simp only [precommit]
  rw [hblr, hes]
  simp only [if_neg c1, hb, if_neg c2, if_neg c3, heh, if_neg c4, if_neg c5, if_neg c6, if_neg c7, if_neg c8,
    if_neg c9, if_neg c10, if_neg c11, if_neg c12, if_neg c13, ha]

theorem precommit_ext (hs : Hs D) (st : RSt D) (p : Parsed) (skip : Bool) (r : RRec D)
    (hok : precommit hs st p skip = .ok r) :
    p.hdr.id = st.lastPre + 1 ∧ p.hdr.prevAlh = hs.enc (st.preAlh hs) ∧
    p.hdr.blRoot = (if p.hdr.blTxID > 0 ∧ st.lastPre > 0 then hs.enc (st.rootAt hs p.hdr.blTxID) else zeros32) := by
  obtain ⟨es, eh, blr, a, ⟨hes, c1, hb, c2, c3, heh, c4, c5, c6, c7, c8, hblr, c9, c10, c11, c12, c13⟩, ha, hr⟩ :=
    precommit_inv hs st p skip r hok
  refine ⟨by omega, (Classical.not_not.mp c12).symm, ?_⟩
  rw [hblr]
  exact (Classical.not_not.mp c9).symm

/-- Whether `Alh()` succeeds depends on the version and on the metadata being serialisable only. -/
theorem alhH_ok_swap (hs : Hs D) (h : TxHdr) (a : D) (ts' : Int) (md' : Option TxMd)
    (hmd : (∃ b', mdBytesOpt md' = .ok b') ∨ md' = h.md) (e : alhH hs h = .ok a) :
    ∃ a', alhH hs { h with ts := ts', md := md' } = .ok a' := by
  simp only [alhH, innerBytesH] at e ⊢
  by_cases hv0 : h.version = 0
  · simp [hv0]
  · by_cases hv1 : h.version = 1
    · cases hm : mdBytesOpt md' with
      | ok b' => simp [hv1]
      | error f =>
        rcases hmd with ⟨b', hb'⟩ | hmd
        · rw [hm] at hb'; cases hb'
        · rw [hmd] at hm
          simp [hv1, hm] at e
    · simp [hv0, hv1] at e

end ImmuModel.Replica.ReplicaHdrAux

namespace ImmuModel.Replica
open ImmuModel ImmuModel.Tx ImmuModel.Merkle ImmuModel.GoInt

variable {D : Type}

/-- Field ranges of a header as Go holds it (uint64 ids, int64 timestamp, `[32]byte` digests,
version 0/1 with the `NEntries` width of that version, metadata within the uint16 length field). -/
def HdrFits (h : TxHdr) : Prop :=
  h.id < 2 ^ 64 ∧ h.prevAlh.length = 32 ∧ InI64 h.ts ∧ (h.version = 0 ∨ h.version = 1) ∧
  0 ≤ h.nentries ∧ (h.version = 0 → h.nentries < 65536) ∧ (h.version = 1 → h.nentries < 4294967296) ∧
  h.eh.length = 32 ∧ h.blTxID < 2 ^ 64 ∧ h.blRoot.length = 32 ∧
  (∀ b, mdBytesOpt h.md = .ok b → b.length < 65536)

/-- The header content the accumulated hash commits to (metadata as serialised; a version-0 header
does not hash metadata). -/
def HdrSame (h h' : TxHdr) : Prop :=
  h.id = h'.id ∧ h.prevAlh = h'.prevAlh ∧ h.ts = h'.ts ∧ h.version = h'.version ∧
  (h.version = 1 → mdBytesOpt h.md = mdBytesOpt h'.md) ∧ h.nentries = h'.nentries ∧ h.eh = h'.eh ∧
  h.blTxID = h'.blTxID ∧ h.blRoot = h'.blRoot

/-- **The accumulated hash binds the header** (or exhibits a collision of `H`). -/
theorem alhH_binds (hs : Hs D) (h h' : TxHdr) (a : D) (hf : HdrFits h) (hf' : HdrFits h')
    (e1 : alhH hs h = .ok a) (e2 : alhH hs h' = .ok a) : HdrSame h h' ∨ HColl hs := by
  obtain ⟨hid, hP, hrest⟩ := hf
  obtain ⟨hid', hP', hrest'⟩ := hf'
  cases hi : innerBytesH h with
  | error f => simp only [alhH, hi] at e1; cases e1
  | ok ib =>
    cases hi' : innerBytesH h' with
    | error f => simp only [alhH, hi'] at e2; cases e2
    | ok ib' =>
      simp only [alhH, hi, Except.ok.injEq] at e1
      simp only [alhH, hi', Except.ok.injEq] at e2
      rcases ReplicaHdrAux.H_eq hs _ _ (e1.trans e2.symm) with e | c
      · simp only [Gen.storeTxIDSize, List.append_assoc] at e
        obtain ⟨a1, e⟩ := List.append_inj e (by simp)
        obtain ⟨a2, e⟩ := List.append_inj e (by rw [hP, hP'])
        rcases ReplicaHdrAux.H_eq hs _ _ (hs.enc_inj _ _ e) with e | c
        · subst e
          obtain ⟨b1, b2, b3, b4, b5, b6, b7⟩ := ReplicaHdrAux.inner_inj h h' ib hrest hrest' hi hi'
          exact Or.inl ⟨ReplicaHdrAux.be8_inj hid hid' a1, a2, b1, b2, b3, b4, b5, b6, b7⟩
        · exact Or.inr c
      · exact Or.inr c

/-- Changing only the timestamp changes the accumulated hash (or exhibits a collision). -/
theorem alhH_ts_changes (hs : Hs D) (h : TxHdr) (ts' : Int) (a a' : D) (hf : HdrFits h) (hts' : InI64 ts')
    (hne : ts' ≠ h.ts) (e1 : alhH hs h = .ok a) (e2 : alhH hs { h with ts := ts' } = .ok a') :
    a ≠ a' ∨ HColl hs := by
  by_cases hc : a = a'
  · subst hc
    have hf' : HdrFits { h with ts := ts' } := by
      obtain ⟨c1, c2, _, c4⟩ := hf
      exact ⟨c1, c2, hts', c4⟩
    rcases alhH_binds hs h _ a hf hf' e1 e2 with hsame | c
    · exact absurd hsame.2.2.1.symm hne
    · exact Or.inr c
  · exact Or.inl hc

/-- **K3 witness, timestamp.** No check of `precommit` looks at the supplied `Ts`: whenever a
delivery is accepted, the same delivery with ANY other timestamp is accepted too, and the stored
header carries the altered timestamp. -/
theorem precommit_ts_irrelevant (hs : Hs D) (st : RSt D) (p : Parsed) (skip : Bool) (ts' : Int) (r : RRec D)
    (hok : precommit hs st p skip = .ok r) :
    ∃ r', precommit hs st { p with hdr := { p.hdr with ts := ts' } } skip = .ok r' ∧
      r'.hdr = { r.hdr with ts := ts' } ∧ r'.entries = r.entries := by
  obtain ⟨es, eh, blr, a, hpre, ha, hr⟩ := ReplicaHdrAux.precommit_inv hs st p skip r hok
  obtain ⟨a', ha'⟩ := ReplicaHdrAux.alhH_ok_swap hs (storedHdr hs st p es.length (if p.hdr.blTxID > 0 then blr else zeros32) eh) a ts' p.hdr.md (Or.inr rfl) ha
  subst hr
  exact ⟨_, ReplicaHdrAux.precommit_intro hs st { p with hdr := { p.hdr with ts := ts' } } skip es eh blr a' hpre ha',
    rfl, rfl⟩

/-- **K3 witness, transaction metadata.** `txSpec.metadata` is taken from the supplied header, so
the "metadata differs" check compares it with itself: any serialisable metadata is accepted. -/
theorem precommit_txmd_irrelevant (hs : Hs D) (st : RSt D) (p : Parsed) (skip : Bool) (md' : Option TxMd)
    (b' : Bytes) (r : RRec D) (hn : p.hdr.nentries ≠ 0) (hmd : mdBytesOpt md' = .ok b')
    (hok : precommit hs st p skip = .ok r) :
    ∃ r', precommit hs st { p with hdr := { p.hdr with md := md' } } skip = .ok r' ∧
      r'.hdr = { r.hdr with md := md' } ∧ r'.entries = r.entries := by
  obtain ⟨es, eh, blr, a, hpre, ha, hr⟩ := ReplicaHdrAux.precommit_inv hs st p skip r hok
  obtain ⟨a', ha'⟩ := ReplicaHdrAux.alhH_ok_swap hs (storedHdr hs st p es.length (if p.hdr.blTxID > 0 then blr else zeros32) eh) a p.hdr.ts md'
    (Or.inl ⟨b', hmd⟩) ha
  obtain ⟨hes, c1, hb, c2, c3, heh, c4, c5, c6, c7, c8, hblr, c9, c10, c11, c12, c13⟩ := hpre
  have c2' : ¬ (es.length = 0 ∧ txmdEmptyOrExtraOnly md') := by
    intro ⟨h0, _⟩
    apply hn
    have := Classical.not_not.mp c1
    rw [h0] at this
    exact this.symm
  have hpre' : ReplicaHdrAux.PreOK hs st { p with hdr := { p.hdr with md := md' } } skip es eh blr :=
    ⟨hes, c1, ⟨b', hmd⟩, c2', c3, heh, c4, c5, c6, c7, c8, hblr, c9, c10, c11, c12, c13⟩
  subst hr
  exact ⟨_, ReplicaHdrAux.precommit_intro hs st { p with hdr := { p.hdr with md := md' } } skip es eh blr a' hpre' ha',
    rfl, rfl⟩

/-- The binary-linking root the replica expects for `BlTxID = bl`. -/
def expectedBlRoot (hs : Hs D) (st : RSt D) (bl : Nat) : Bytes :=
  if bl > 0 ∧ st.lastPre > 0 then hs.enc (st.rootAt hs bl) else zeros32

/-- What "the delivery does not extend the replica's chain" means. -/
def NonExtending (hs : Hs D) (st : RSt D) (p : Parsed) : Prop :=
  p.hdr.id ≠ st.lastPre + 1 ∨ p.hdr.prevAlh ≠ hs.enc (st.preAlh hs) ∨
  p.hdr.blRoot ≠ expectedBlRoot hs st p.hdr.blTxID

theorem precommit_rejects_nonextending (hs : Hs D) (st : RSt D) (p : Parsed) (skip : Bool)
    (h : NonExtending hs st p) : ∃ e, precommit hs st p skip = .error e := by
  cases hc : precommit hs st p skip with
  | error e => exact ⟨e, rfl⟩
  | ok r =>
    exfalso
    obtain ⟨h1, h2, h3⟩ := ReplicaHdrAux.precommit_ext hs st p skip r hc
    rcases h with h | h | h
    · exact h h1
    · exact h h2
    · exact h h3

/-- A delivery that does not extend the chain is answered with an error and changes NOTHING
(not even the tx log). -/
theorem replicate_rejects_nonextending (hs : Hs D) (st : RSt D) (b : Bytes) (skip : Bool) (p : Parsed)
    (hp : parseExported b = .ok p) (h : NonExtending hs st p) :
    (∃ e, (replicate hs st b skip).out = .error e) ∧ (replicate hs st b skip).st = st := by
  obtain ⟨e, he⟩ := precommit_rejects_nonextending hs st p skip h
  simp [replicate, hp, he]

/-- Bytes that do not parse change nothing either. -/
theorem replicate_rejects_unparsable (hs : Hs D) (st : RSt D) (b : Bytes) (skip : Bool) (e : XErr)
    (hp : parseExported b = .error e) :
    (replicate hs st b skip).out = .error e ∧ (replicate hs st b skip).st = st := by
  simp [replicate, hp]

/-- Whatever the error (except the two raised AFTER the record was written: `bufferFull`,
`bufferConsumed`), a rejected delivery leaves the state untouched. -/
theorem replicate_error_keeps_state (hs : Hs D) (st : RSt D) (b : Bytes) (skip : Bool) (e : XErr)
    (he : (replicate hs st b skip).out = .error e) (h1 : e ≠ .bufferFull) (h2 : e ≠ .bufferConsumed) :
    (replicate hs st b skip).st = st := by
  cases hp : parseExported b with
  | error x => simp [replicate, hp]
  | ok p =>
    cases hc : precommit hs st p skip with
    | error x => simp [replicate, hp, hc]
    | ok r =>
      simp only [replicate, hp, hc] at he ⊢
      split at he
      · simp only [Except.error.injEq] at he
        exact absurd he.symm h1
      · split at he
        · cases he
        · split at he
          · rename_i x hm
            simp only [Except.error.injEq] at he
            subst he
            exact absurd (ReplicaHdrAux.mayCommit_err _ _ hm) h2
          · cases he

/-- `db.AllowCommitUpto(txID, alh)` refuses (ErrIllegalState, nothing changes) when the replica's
precommitted transaction `txID` has another accumulated hash than the announced one. -/
theorem dbAllow_refuses_other_alh (hs : Hs D) (st : RSt D) (txID : Nat) (alh : Bytes) (r : RRec D)
    (h0 : st.committed.length < txID) (hr : st.chain[txID - 1]? = some r) (hne : hs.enc r.alh ≠ alh) :
    (dbAllowCommitUpto hs st txID alh).out = .error .illegalState ∧ (dbAllowCommitUpto hs st txID alh).st = st := by
  have c1 : ¬ st.committed.length = txID := by omega
  have c2 : ¬ txID = 0 := by omega
  simp [dbAllowCommitUpto, c1, c2, hr, hne]

/-- The accumulated hash of an accepted record is the hash of the header that is stored. -/
theorem precommit_alh (hs : Hs D) (st : RSt D) (p : Parsed) (skip : Bool) (r : RRec D)
    (hok : precommit hs st p skip = .ok r) : alhH hs r.hdr = .ok r.alh := by
  obtain ⟨es, eh, blr, a, hpre, ha, hr⟩ := ReplicaHdrAux.precommit_inv hs st p skip r hok
  subst hr
  exact ha

/-- The stored header against the supplied one: every field but `Eh` is (checked to be) the supplied value. -/
theorem precommit_stored_fields (hs : Hs D) (st : RSt D) (p : Parsed) (skip : Bool) (r : RRec D)
    (hok : precommit hs st p skip = .ok r) :
    r.hdr.id = st.lastPre + 1 ∧ r.hdr.id = p.hdr.id ∧ r.hdr.ts = p.hdr.ts ∧ r.hdr.blTxID = p.hdr.blTxID ∧
    (p.hdr.blTxID > 0 → r.hdr.blRoot = p.hdr.blRoot) ∧ (p.hdr.blTxID = 0 → r.hdr.blRoot = zeros32) ∧
    r.hdr.prevAlh = p.hdr.prevAlh ∧ r.hdr.prevAlh = hs.enc (st.preAlh hs) ∧
    r.hdr.version = p.hdr.version ∧ r.hdr.md = p.hdr.md ∧ r.hdr.nentries = p.hdr.nentries := by
  obtain ⟨es, eh, blr, a, ⟨hes, c1, hb, c2, c3, heh, c4, c5, c6, c7, c8, hblr, c9, c10, c11, c12, c13⟩, ha, hr⟩ :=
    ReplicaHdrAux.precommit_inv hs st p skip r hok
  subst hr
  have hbl : blr = p.hdr.blRoot := Classical.not_not.mp c9
  refine ⟨rfl, ?_, rfl, rfl, ?_, ?_, Classical.not_not.mp c12, rfl, rfl, rfl, Classical.not_not.mp c1⟩
  · show st.lastPre + 1 = p.hdr.id
    omega
  · intro hpos
    show (if p.hdr.blTxID > 0 then blr else zeros32) = p.hdr.blRoot
    rw [if_pos hpos]
    exact hbl
  · intro hz
    show (if p.hdr.blTxID > 0 then blr else zeros32) = zeros32
    rw [if_neg (by omega)]

end ImmuModel.Replica
