/-
Helper lemmas for C03, index part: the invariant of one life of an index directory (no restart) and the agreement of a
crash image with the logical logs below the end of the snapshot recovery selects.
-/
import ImmuModel.Store.IndexStore
import ImmuModel.Store.Proofs.IndexWalk
import ImmuModel.Store.Proofs.CrashLemmas

namespace ImmuModel.Store.IndexStore.InvAux
open ImmuModel.Store.Crash ImmuModel.Store.IndexRecover ImmuModel.Store.IndexStore

def slice (l : List Nat) (a b : Nat) : List Nat := (l.drop a).take (b - a)

theorem take_split (l : List Nat) (a b : Nat) (h : a ≤ b) : l.take b = l.take a ++ slice l a b := by
  have e : b = a + (b - a) := by omega
  conv => lhs; rw [e]
  rw [List.take_add]
  rfl

theorem slice_append (l x : List Nat) (a b : Nat) (h : b ≤ l.length) : slice (l ++ x) a b = slice l a b := by
  unfold slice
  by_cases hab : a ≤ b
  · rw [List.drop_append_of_le_length (by omega), List.take_append_of_le_length (by simp; omega)]
  · have : b - a = 0 := by omega
    simp [this]

theorem take_append_le (l x : List Nat) (b : Nat) (h : b ≤ l.length) : (l ++ x).take b = l.take b :=
  List.take_append_of_le_length h

/-- the commit entries `es` are chained from `(a, b)`, lie inside the logical contents, record exactly their ranges, and
the data of an entry with the synced flag is durable -/
def Chain (nlc hlc : List Nat) (dn dh : Nat) : Nat → Nat → List CEntry → Prop
  | _, _, [] => True
  | a, b, e :: es =>
    e.ok = true ∧ e.nFrom = a ∧ a < e.nTo ∧ e.root = 1 ∧ e.hFrom = b ∧ b ≤ e.hTo ∧
    e.nTo ≤ nlc.length ∧ e.hTo ≤ hlc.length ∧
    e.nSum = slice nlc a e.nTo ∧ e.hSum = slice hlc b e.hTo ∧
    e.nAll = nlc.take e.nTo ∧ e.hAll = hlc.take e.hTo ∧
    (e.synced = true → e.nTo ≤ dn ∧ e.hTo ≤ dh) ∧
    Chain nlc hlc dn dh e.nTo e.hTo es

def endN (a : Nat) : List CEntry → Nat
  | [] => a
  | e :: es => endN e.nTo es

def endH (b : Nat) : List CEntry → Nat
  | [] => b
  | e :: es => endH e.hTo es

theorem endN_append (a : Nat) (es : List CEntry) (e : CEntry) : endN a (es ++ [e]) = e.nTo := by
  induction es generalizing a with
  | nil => rfl
  | cons x xs ih => simp [endN, ih]

theorem endH_append (b : Nat) (es : List CEntry) (e : CEntry) : endH b (es ++ [e]) = e.hTo := by
  induction es generalizing b with
  | nil => rfl
  | cons x xs ih => simp [endH, ih]

theorem chain_mono {nlc hlc : List Nat} {dn dh a b : Nat} {es : List CEntry} (x y : List Nat) {dn' dh' : Nat}
    (hn : dn ≤ dn') (hh : dh ≤ dh') (h : Chain nlc hlc dn dh a b es) :
    Chain (nlc ++ x) (hlc ++ y) dn' dh' a b es := by
  induction es generalizing a b with
  | nil => trivial
  | cons e es ih =>
    obtain ⟨h1, h2, h3, h4, h5, h6, h7, h8, h9, h10, h11, h12, h13, h14⟩ := h
    refine ⟨h1, h2, h3, h4, h5, h6, by simp; omega, by simp; omega, ?_, ?_, ?_, ?_, ?_, ih h14⟩
    · rw [slice_append _ _ _ _ h7]; exact h9
    · rw [slice_append _ _ _ _ h8]; exact h10
    · rw [take_append_le _ _ _ h7]; exact h11
    · rw [take_append_le _ _ _ h8]; exact h12
    · intro hs; have := h13 hs; omega

theorem chain_append {nlc hlc : List Nat} {dn dh a b : Nat} {es : List CEntry} (e : CEntry)
    (h : Chain nlc hlc dn dh a b es)
    (he : Chain nlc hlc dn dh (endN a es) (endH b es) [e]) :
    Chain nlc hlc dn dh a b (es ++ [e]) := by
  induction es generalizing a b with
  | nil => exact he
  | cons x xs ih =>
    obtain ⟨h1, h2, h3, h4, h5, h6, h7, h8, h9, h10, h11, h12, h13, h14⟩ := h
    exact ⟨h1, h2, h3, h4, h5, h6, h7, h8, h9, h10, h11, h12, h13, ih h14 he⟩

theorem chain_take {nlc hlc : List Nat} {dn dh a b : Nat} {es : List CEntry} (p : Nat)
    (h : Chain nlc hlc dn dh a b es) : Chain nlc hlc dn dh a b (es.take p) := by
  induction es generalizing a b p with
  | nil => simpa using h
  | cons x xs ih =>
    cases p with
    | zero => trivial
    | succ p =>
      obtain ⟨h1, h2, h3, h4, h5, h6, h7, h8, h9, h10, h11, h12, h13, h14⟩ := h
      exact ⟨h1, h2, h3, h4, h5, h6, h7, h8, h9, h10, h11, h12, h13, ih p h14⟩

theorem chain_ok {nlc hlc : List Nat} {dn dh a b : Nat} {es : List CEntry}
    (h : Chain nlc hlc dn dh a b es) : ∀ e ∈ es, e.ok = true := by
  induction es generalizing a b with
  | nil => simp
  | cons x xs ih =>
    intro e he
    rcases List.mem_cons.mp he with rfl | he
    · exact h.1
    · exact ih h.2.2.2.2.2.2.2.2.2.2.2.2.2 e he

/-- facts about the entry at position `i` of a chain -/
theorem chain_get {nlc hlc : List Nat} {dn dh a b : Nat} {es : List CEntry} (h : Chain nlc hlc dn dh a b es)
    (i : Nat) (e : CEntry) (hi : es[i]? = some e) :
    e.ok = true ∧ e.nFrom = endN a (es.take i) ∧ e.nFrom < e.nTo ∧ e.root = 1 ∧
    e.hFrom = endH b (es.take i) ∧ e.hFrom ≤ e.hTo ∧
    e.nSum = slice nlc e.nFrom e.nTo ∧ e.hSum = slice hlc e.hFrom e.hTo ∧
    e.nAll = nlc.take e.nTo ∧ e.hAll = hlc.take e.hTo ∧
    (e.synced = true → e.nTo ≤ dn ∧ e.hTo ≤ dh) ∧
    endN a (es.take (i + 1)) = e.nTo ∧ endH b (es.take (i + 1)) = e.hTo := by
  induction es generalizing a b i with
  | nil => simp at hi
  | cons x xs ih =>
    obtain ⟨h1, h2, h3, h4, h5, h6, h7, h8, h9, h10, h11, h12, h13, h14⟩ := h
    cases i with
    | zero =>
      simp at hi; subst hi
      refine ⟨h1, by simpa [endN] using h2, by omega, h4, by simpa [endH] using h5, by omega, ?_, ?_, h11, h12, h13, ?_, ?_⟩
      · rw [h2]; exact h9
      · rw [h5]; exact h10
      · simp [endN]
      · simp [endH]
    | succ i =>
      have := ih h14 i (by simpa using hi)
      simpa [endN, endH] using this

/-- the ends of the prefixes of a chain grow -/
theorem endN_mono {nlc hlc : List Nat} {dn dh a b : Nat} {es : List CEntry} (h : Chain nlc hlc dn dh a b es)
    (i j : Nat) (hij : i ≤ j) : endN a (es.take i) ≤ endN a (es.take j) ∧ endH b (es.take i) ≤ endH b (es.take j) := by
  induction es generalizing a b i j with
  | nil => simp [endN, endH]
  | cons x xs ih =>
    obtain ⟨_, h2, h3, _, h5, h6, _, _, _, _, _, _, _, h14⟩ := h
    cases i with
    | zero =>
      cases j with
      | zero => simp [endN, endH]
      | succ j =>
        have := ih h14 0 j (Nat.zero_le _)
        simp only [List.take_zero, endN, endH, List.take_succ_cons] at this ⊢
        omega
    | succ i =>
      cases j with
      | zero => omega
      | succ j =>
        have := ih h14 i j (by omega)
        simpa [endN, endH] using this

/-! ### a crash image agrees with the logical logs below the end of every kept snapshot -/

theorem rangeOK_nonempty {cells sum : List Nat} {a b : Nat} (hab : a < b) (h : rangeOK cells a b sum = true) :
    b ≤ cells.length ∧ slice cells a b = sum := by
  unfold rangeOK at h
  have : ¬ b ≤ a := by omega
  simp only [this, if_false, Bool.and_eq_true, decide_eq_true_eq, beq_iff_eq] at h
  exact ⟨h.1, h.2⟩

theorem entryValid_parts {nl hl : List Nat} {e : CEntry} (h : entryValid nl hl e = true) :
    rangeOK nl e.nFrom e.nTo e.nSum = true ∧ rangeOK hl e.hFrom e.hTo e.hSum = true := by
  unfold entryValid at h
  simp only [Bool.and_eq_true] at h
  exact ⟨h.1.2, h.2⟩

/-- what the walk sees of the commit entries `P` on the image `(inl, ihl)` -/
def entsOf (inl ihl : List Nat) (P : List CEntry) : List Ent :=
  P.map fun e => { synced := e.synced, valid := entryValid inl ihl e }

theorem entsOf_get (inl ihl : List Nat) (P : List CEntry) (i : Nat) :
    (entsOf inl ihl P)[i]? = (P[i]?).map fun e => { synced := e.synced, valid := entryValid inl ihl e } := by
  simp [entsOf]

/-- Main lemma.  `P`: commit entries on the image, a chain over the logical contents `nlc` / `hlc`; the image agrees with
the logical contents below the durable lengths; `k` = what the walk keeps.  Then the image agrees with the logical contents
below the end of every kept snapshot. -/
theorem image_agrees {nlc hlc inl ihl : List Nat} {dn dh : Nat} {P : List CEntry}
    (hc : Chain nlc hlc dn dh 0 0 P)
    (hdn : ∀ m, m ≤ dn → inl.take m = nlc.take m) (hdh : ∀ m, m ≤ dh → ihl.take m = hlc.take m)
    (i : Nat) (hi : i ≤ walk (entsOf inl ihl P)) :
    inl.take (endN 0 (P.take i)) = nlc.take (endN 0 (P.take i)) ∧
    ihl.take (endH 0 (P.take i)) = hlc.take (endH 0 (P.take i)) := by
  have post := WalkAux.walk_post (entsOf inl ihl P)
  induction i with
  | zero => simp [endN, endH]
  | succ i ih =>
    have ih := ih (by omega)
    have hlt : i < (entsOf inl ihl P).length := by have := post.le; omega
    have hltP : i < P.length := by simpa [entsOf] using hlt
    have hPi : P[i]? = some P[i] := List.getElem?_eq_getElem hltP
    obtain ⟨_, g2, g3, _, g5, g6, g7, g8, _, _, g11, g12, g13⟩ := chain_get hc i P[i] hPi
    rw [g12, g13]
    by_cases hex : ∃ j e', i < j ∧ P[j]? = some e' ∧ entryValid inl ihl e' = true ∧ e'.synced = true
    · -- a valid fsynced entry above: everything below its ends is durable
      obtain ⟨j, e', hij, hj, _, hs⟩ := hex
      obtain ⟨_, _, _, _, _, _, _, _, _, _, d11, d12, d13⟩ := chain_get hc j e' hj
      have m := endN_mono hc (i + 1) (j + 1) (by omega)
      rw [g12, g13, d12, d13] at m
      have := d11 hs
      exact ⟨hdn _ (by omega), hdh _ (by omega)⟩
    · -- no valid fsynced entry above: the walk validated this entry on the image
      have hv : entryValid inl ihl P[i] = true := by
        have := post.valid i { synced := P[i].synced, valid := entryValid inl ihl P[i] } (by omega)
          (by rw [entsOf_get, hPi]; rfl)
          (by
            intro j e' hij hj hvs
            rw [entsOf_get] at hj
            cases hPj : P[j]? with
            | none => rw [hPj] at hj; cases hj
            | some x =>
              rw [hPj] at hj; cases hj
              exact hex ⟨j, x, hij, hPj, hvs.1, hvs.2⟩)
        exact this
      obtain ⟨rn, rh⟩ := entryValid_parts hv
      obtain ⟨_, sn⟩ := rangeOK_nonempty g3 rn
      refine ⟨?_, ?_⟩
      · rw [take_split inl _ _ (Nat.le_of_lt g3), take_split nlc _ _ (Nat.le_of_lt g3), sn, ← g7, g2]
        rw [ih.1]
      · by_cases hh : P[i].hFrom < P[i].hTo
        · obtain ⟨_, sh⟩ := rangeOK_nonempty hh rh
          rw [take_split ihl _ _ g6, take_split hlc _ _ g6, sh, ← g8, g5]
          rw [ih.2]
        · have : P[i].hTo = P[i].hFrom := by omega
          rw [this, g5]; exact ih.2

/-! ### the invariant of one life -/

def PcOK (s : ISt) : Prop :=
  match s.pc with
  | .idle => s.nl.len = s.cN ∧ s.hl.len = s.cH ∧ s.cl.len = s.cC ∧
      endN 0 s.cl.content = s.cN ∧ endH 0 s.cl.content = s.cH
  | .written nodes hist _ => nodes ≠ [] ∧ s.cN ≤ s.nl.content.length ∧ s.nl.content.drop s.cN = nodes ∧
      s.cH ≤ s.hl.content.length ∧ s.hl.content.drop s.cH = hist ∧ s.cl.len = s.cC ∧
      endN 0 s.cl.content = s.cN ∧ endH 0 s.cl.content = s.cH
  | .dataSynced nodes hist => nodes ≠ [] ∧ s.cN ≤ s.nl.content.length ∧ s.nl.content.drop s.cN = nodes ∧
      s.cH ≤ s.hl.content.length ∧ s.hl.content.drop s.cH = hist ∧ s.cl.len = s.cC ∧
      endN 0 s.cl.content = s.cN ∧ endH 0 s.cl.content = s.cH ∧ s.nl.volatile = [] ∧ s.hl.volatile = []
  | .entryWritten nodes hist => s.nl.len = s.cN + nodes.length ∧ s.hl.len = s.cH + hist.length ∧ s.cl.len = s.cC + 1 ∧
      endN 0 s.cl.content = s.cN + nodes.length ∧ endH 0 s.cl.content = s.cH + hist.length

structure Inv1 (s : ISt) : Prop where
  nstale : s.nl.stale = []
  hstale : s.hl.stale = []
  cstale : s.cl.stale = []
  chain : Chain s.nl.content s.hl.content s.nl.durable.length s.hl.durable.length 0 0 s.cl.content
  pc : PcOK s

theorem appendAll_content {α : Type} (l : Log α) (rs : List α) : (l.appendAll rs).content = l.content ++ rs := by
  simp [Log.appendAll, Log.content]

theorem drop_len_append (l x : List Nat) (n : Nat) (h : l.length = n) : (l ++ x).drop n = x := by
  subst h; simp

theorem inv1_init : Inv1 {} := by
  refine ⟨rfl, rfl, rfl, ?_, ?_⟩
  · simp [Log.content, Chain]
  · simp [PcOK, Log.len, Log.content, endN, endH]

theorem inv1_step {s s' : ISt} (st : IStep) (h : Inv1 s) (e : step s st = some s') : Inv1 s' := by
  obtain ⟨hn, hh, hcs, hch, hpc⟩ := h
  cases st with
  | write nodes hist sync =>
    unfold step at e
    cases hp : s.pc with
    | idle =>
      cases nodes with
      | nil => simp [hp] at e
      | cons x xs =>
        simp only [hp] at e
        unfold PcOK at hpc
        rw [hp] at hpc
        obtain ⟨p1, p2, p3, p4, p5⟩ := hpc
        have o1 : s.hl.setOffset s.cH = some s.hl := by rw [← p2]; exact Log.setOffset_len _
        have o2 : s.nl.setOffset s.cN = some s.nl := by rw [← p1]; exact Log.setOffset_len _
        rw [o1, o2] at e
        simp only [Option.some.injEq] at e
        subst e
        refine ⟨by simpa [Log.appendAll] using hn, by simpa [Log.appendAll] using hh, hcs, ?_, ?_⟩
        · simp only [appendAll_content]
          exact chain_mono _ _ (Nat.le_refl _) (Nat.le_refl _) (by simpa [Log.appendAll] using hch)
        · show PcOK _
          unfold PcOK
          simp only [appendAll_content]
          have l1 : s.nl.content.length = s.cN := by rw [Log.content_length]; exact p1
          have l2 : s.hl.content.length = s.cH := by rw [Log.content_length]; exact p2
          refine ⟨by simp, by simp; omega, drop_len_append _ _ _ l1, by simp; omega, drop_len_append _ _ _ l2, p3, p4, p5⟩
    | written _ _ _ => simp [hp] at e
    | dataSynced _ _ => simp [hp] at e
    | entryWritten _ _ => simp [hp] at e
  | syncData =>
    unfold step at e
    cases hp : s.pc with
    | idle => simp [hp] at e
    | written nodes hist sync =>
      cases sync with
      | false => simp [hp] at e
      | true =>
        simp only [hp, Option.some.injEq] at e
        subst e
        unfold PcOK at hpc
        rw [hp] at hpc
        obtain ⟨p0, p1, p2, p3, p4, p5, p6, p7⟩ := hpc
        refine ⟨by simp [Log.sync, hn], by simp [Log.sync, hh], hcs, ?_, ?_⟩
        · simp only [Log.sync_content]
          have := chain_mono (dn' := s.nl.sync.durable.length) (dh' := s.hl.sync.durable.length) [] []
            (by simp [Log.sync]) (by simp [Log.sync]) hch
          simpa using this
        · show PcOK _
          unfold PcOK
          simp only [Log.sync_content]
          exact ⟨p0, p1, p2, p3, p4, p5, p6, p7, by simp [Log.sync], by simp [Log.sync]⟩
    | dataSynced _ _ => simp [hp] at e
    | entryWritten _ _ => simp [hp] at e
  | entry =>
    unfold step at e
    cases hp : s.pc with
    | idle => simp [hp] at e
    | written nodes hist sync =>
      cases sync with
      | true => simp [hp] at e
      | false =>
        simp only [hp] at e
        unfold PcOK at hpc
        rw [hp] at hpc
        obtain ⟨p0, p1, p2, p3, p4, p5, p6, p7⟩ := hpc
        have o : s.cl.setOffset s.cC = some s.cl := by rw [← p5]; exact Log.setOffset_len _
        rw [o] at e
        simp only [Option.map_some, Option.some.injEq] at e
        subst e
        have ln : s.nl.content.length = s.cN + nodes.length := by
          have := congrArg List.length p2; simp at this; omega
        have lh : s.hl.content.length = s.cH + hist.length := by
          have := congrArg List.length p4; simp at this; omega
        have npos : 0 < nodes.length := List.length_pos_iff.mpr p0
        refine ⟨hn, hh, by simpa [commitCounters, Log.append] using hcs, ?_, ?_⟩
        · show Chain _ _ _ _ 0 0 (s.cl.append (mkEntry s nodes hist false)).content
          rw [Log.append_content]
          apply chain_append _ hch
          rw [p6, p7]
          refine ⟨rfl, rfl, by simp [mkEntry]; omega, rfl, rfl, by simp [mkEntry], by simp [mkEntry]; omega,
            by simp [mkEntry]; omega, ?_, ?_, rfl, rfl, by simp [mkEntry], trivial⟩
          · simp [mkEntry, slice, p2]
          · simp [mkEntry, slice, p4]
        · show PcOK _
          unfold PcOK
          simp only [commitCounters, Log.append_content, endN_append, endH_append]
          refine ⟨?_, ?_, ?_, by simp [mkEntry], by simp [mkEntry]⟩
          · rw [← Log.content_length]; exact ln
          · rw [← Log.content_length]; exact lh
          · simp [Log.append, Log.len] at p5 ⊢; omega
    | dataSynced nodes hist =>
      simp only [hp] at e
      unfold PcOK at hpc
      rw [hp] at hpc
      obtain ⟨p0, p1, p2, p3, p4, p5, p6, p7, p8, p9⟩ := hpc
      have o : s.cl.setOffset s.cC = some s.cl := by rw [← p5]; exact Log.setOffset_len _
      rw [o] at e
      simp only [Option.map_some, Option.some.injEq] at e
      subst e
      have ln : s.nl.content.length = s.cN + nodes.length := by
        have := congrArg List.length p2; simp at this; omega
      have lh : s.hl.content.length = s.cH + hist.length := by
        have := congrArg List.length p4; simp at this; omega
      have npos : 0 < nodes.length := List.length_pos_iff.mpr p0
      have dn : s.nl.durable.length = s.cN + nodes.length := by
        simp [Log.content, p8] at ln; exact ln
      have dh : s.hl.durable.length = s.cH + hist.length := by
        simp [Log.content, p9] at lh; exact lh
      refine ⟨hn, hh, by simpa [Log.append] using hcs, ?_, ?_⟩
      · show Chain _ _ _ _ 0 0 (s.cl.append (mkEntry s nodes hist true)).content
        rw [Log.append_content]
        apply chain_append _ hch
        rw [p6, p7]
        refine ⟨rfl, rfl, by simp [mkEntry]; omega, rfl, rfl, by simp [mkEntry], by simp [mkEntry]; omega,
          by simp [mkEntry]; omega, ?_, ?_, rfl, rfl, ?_, trivial⟩
        · simp [mkEntry, slice, p2]
        · simp [mkEntry, slice, p4]
        · intro _; simp [mkEntry]; omega
      · show PcOK _
        unfold PcOK
        simp only [Log.append_content, endN_append, endH_append]
        refine ⟨?_, ?_, ?_, by simp [mkEntry], by simp [mkEntry]⟩
        · rw [← Log.content_length]; exact ln
        · rw [← Log.content_length]; exact lh
        · simp [Log.append, Log.len] at p5 ⊢; omega
    | entryWritten _ _ => simp [hp] at e
  | syncEntry =>
    unfold step at e
    cases hp : s.pc with
    | idle => simp [hp] at e
    | written _ _ _ => simp [hp] at e
    | dataSynced _ _ => simp [hp] at e
    | entryWritten nodes hist =>
      simp only [hp, Option.some.injEq] at e
      subst e
      unfold PcOK at hpc
      rw [hp] at hpc
      obtain ⟨p1, p2, p3, p4, p5⟩ := hpc
      refine ⟨hn, hh, by simp [commitCounters, Log.sync, hcs], ?_, ?_⟩
      · show Chain _ _ _ _ 0 0 s.cl.sync.content
        rw [Log.sync_content]; exact hch
      · show PcOK _
        unfold PcOK
        simp only [commitCounters, Log.sync_content, Log.sync_len]
        exact ⟨p1, p2, p3, p4, p5⟩

/-! ### crash images of a life without stale cells -/

theorem image_nostale {α : Type} (mk : α → α) (l : Log α) (k : Nat) (t : Bool) (h : l.stale = []) :
    l.image mk k t = l.durable ++ (l.volatile.take k ++ Log.tornCell mk l k t) := by
  simp [Log.image, h]

/-- below the durable length the image is the logical content -/
theorem image_take_durable {α : Type} (mk : α → α) (l : Log α) (k : Nat) (t : Bool) (m : Nat)
    (hm : m ≤ l.durable.length) : (l.image mk k t).take m = l.content.take m := by
  unfold Log.image Log.content
  rw [List.append_assoc, List.append_assoc, List.take_append_of_le_length hm, List.take_append_of_le_length hm]

theorem trim_all_ok (cs : List CEntry) (h : ∀ e ∈ cs, e.ok = true) : trim cs = cs := by
  unfold trim
  cases hl : cs.getLast? with
  | none => simp [List.getLast?_eq_none_iff.mp hl]
  | some e =>
    have : e ∈ cs := List.mem_of_getLast? hl
    simp [h e this]

theorem trim_torn (cs : List CEntry) (e : CEntry) : trim (cs ++ [e.torn]) = cs := by
  unfold trim
  simp [CEntry.torn]

/-- without stale cells the trimmed commit log of a crash image is a prefix of the logical commit log -/
theorem trim_image_prefix (l : Log CEntry) (k : Nat) (t : Bool) (hs : l.stale = [])
    (hok : ∀ e ∈ l.content, e.ok = true) : ∃ p, trim (l.image CEntry.torn k t) = l.content.take p := by
  rw [image_nostale _ _ _ _ hs]
  have hpre : l.durable ++ l.volatile.take k = l.content.take (l.durable.length + k) := by
    unfold Log.content
    rw [List.take_append]
    simp [List.take_of_length_le]
  unfold Log.tornCell
  cases t with
  | false =>
    simp only [Bool.false_eq_true, if_false, List.append_nil]
    refine ⟨l.durable.length + k, ?_⟩
    rw [hpre]
    apply trim_all_ok
    intro e he
    exact hok e (List.mem_of_mem_take he)
  | true =>
    simp only [if_true]
    cases hh : (l.volatile.drop k).head? with
    | none =>
      simp only [Option.map_none, Option.toList_none, List.append_nil]
      refine ⟨l.durable.length + k, ?_⟩
      rw [hpre]
      apply trim_all_ok
      intro e he
      exact hok e (List.mem_of_mem_take he)
    | some x =>
      simp only [Option.map_some, Option.toList_some]
      refine ⟨l.durable.length + k, ?_⟩
      rw [← List.append_assoc, hpre]
      exact trim_torn _ _

theorem inv1_reach {s : ISt} (h : Reach1 s) : Inv1 s := by
  induction h with
  | init => exact inv1_init
  | step st _ e ih => exact inv1_step st ih e

theorem reach_run {s s' : ISt} (tr : List (IStep ⊕ IChoice)) (h : Reach s) (e : run s tr = some s') : Reach s' := by
  induction tr generalizing s with
  | nil => simp [run] at e; subst e; exact h
  | cons x xs ih =>
    cases x with
    | inl st =>
      simp only [run] at e
      cases hs : step s st with
      | none => simp [hs] at e
      | some s1 =>
        simp only [hs, Option.bind_some] at e
        exact ih (Reach.step st h hs) e
    | inr c =>
      simp only [run] at e
      exact ih (Reach.restart c h) e

theorem reach1_run {s s' : ISt} (tr : List IStep) (h : Reach1 s)
    (e : run s (tr.map Sum.inl) = some s') : Reach1 s' := by
  induction tr generalizing s with
  | nil => simp [run] at e; subst e; exact h
  | cons st xs ih =>
    simp only [List.map_cons, run] at e
    cases hs : step s st with
    | none => simp [hs] at e
    | some s1 =>
      simp only [hs, Option.bind_some] at e
      exact ih (Reach1.step st h hs) e

/-- what `selected` returns, unfolded -/
theorem selected_some {w : List Ent → Nat} {img : IImage} {e : CEntry} (h : selected w img = some e) :
    ∃ k, w (ents img) = k + 1 ∧ (trim img.cl)[k]? = some e := by
  unfold selected recoverWith at h
  cases hw : w (ents img) with
  | zero => simp [hw] at h
  | succ k =>
    simp only [hw] at h
    refine ⟨k, rfl, ?_⟩
    cases hc : (trim img.cl)[k]? with
    | none => simp [hc] at h
    | some x =>
      simp only [hc] at h
      by_cases hb : x.nTo ≤ img.nl.length ∧ x.hTo ≤ img.hl.length
      · simp only [hb, and_self, if_true] at h
        rw [hc] at h; exact h
      · simp only [hb, if_false] at h
        cases h

/-- **One life**: the snapshot recovery selects on any crash image of a state reached without a restart is a snapshot of
the flush history, the commit log kept is a prefix of the logical one, and both data logs hold, below the ends of the
snapshot, exactly what they held when it was written. -/
theorem first_life {s : ISt} (h : Inv1 s) (c : IChoice) (e : CEntry)
    (hs : selected walk (crashImage s c) = some e) :
    Consistent (crashImage s c) e ∧
    ∃ k, s.cl.content[k]? = some e ∧ (trim (crashImage s c).cl).take (k + 1) = s.cl.content.take (k + 1) := by
  obtain ⟨k, hw, hk⟩ := selected_some hs
  obtain ⟨p, hp⟩ := trim_image_prefix s.cl c.kc c.tc h.cstale (chain_ok h.chain)
  have hcl : trim (crashImage s c).cl = s.cl.content.take p := hp
  have hch := chain_take p h.chain
  have hents : ents (crashImage s c) = entsOf (crashImage s c).nl (crashImage s c).hl (s.cl.content.take p) := by
    unfold ents entsOf; rw [hcl]
  rw [hcl] at hk
  have hkp : k < p := by
    by_cases hlt : k < p
    · exact hlt
    · rw [List.getElem?_take] at hk
      simp [hlt] at hk
  have agree := image_agrees (inl := (crashImage s c).nl) (ihl := (crashImage s c).hl) hch
    (fun m hm => image_take_durable _ s.nl c.kn c.tn m hm)
    (fun m hm => image_take_durable _ s.hl c.kh c.th m hm)
    (k + 1) (by rw [← hents, hw]; exact Nat.le_refl _)
  obtain ⟨_, _, _, _, _, _, _, _, g9, g10, _, g12, g13⟩ := chain_get hch k e hk
  rw [g12, g13] at agree
  refine ⟨⟨?_, ?_⟩, k, ?_, ?_⟩
  · rw [g9]; exact agree.1
  · rw [g10]; exact agree.2
  · rw [List.getElem?_take] at hk
    simp only [hkp, if_true] at hk
    exact hk
  · rw [hcl, List.take_take]
    congr 1
    omega

end ImmuModel.Store.IndexStore.InvAux
