/-
C07 — the entries hash binds the entries; a delivery accepted WITH the integrity check stores
exactly the entries the supplied `Eh` commits to; the values-stripped form is accepted with the
same accumulated hash.  Helper lemmas live in `ImmuModel.Replica.ReplicaEntriesAux`.
-/
import ImmuModel.Store.ReplicaSpec
import ImmuModel.Merkle.Proofs.HTreeProofs
import ImmuModel.Store.Proofs.C01Proofs

namespace ImmuModel.Replica
open ImmuModel ImmuModel.Tx ImmuModel.Merkle ImmuModel.GoInt

variable {D : Type}

/-- The reference Merkle root is injective on lists of the same length (or exhibits a collision). -/
theorem mth_inj_same_length (mh : MH D) (xs ys : List D) (hl : xs.length = ys.length)
    (h : mth mh xs = mth mh ys) : xs = ys ∨ Coll mh := by
  induction hn : xs.length using Nat.strongRecOn generalizing xs ys with
  | _ n ih =>
    by_cases h2 : 2 ≤ n
    · rw [mth_split mh xs (by omega), mth_split mh ys (by omega)] at h
      rcases nodeH_inj_or_coll mh h with ⟨h1, h3⟩ | hc
      · have hp := pow2lt_lt n h2
        have hp0 := pow2lt_pos n
        rw [← hl, hn] at h1 h3
        rcases ih (pow2lt n) hp (xs.take (pow2lt n)) (ys.take (pow2lt n))
            (by simp [List.length_take]; omega) h1 (by simp [List.length_take]; omega) with e1 | hc
        · rcases ih (n - pow2lt n) (by omega) (xs.drop (pow2lt n)) (ys.drop (pow2lt n))
              (by simp [List.length_drop]; omega) h3 (by simp [List.length_drop]; omega) with e2 | hc
          · left
            rw [← List.take_append_drop (pow2lt n) xs, ← List.take_append_drop (pow2lt n) ys, e1, e2]
          · exact Or.inr hc
        · exact Or.inr hc
      · exact Or.inr hc
    · match xs, ys, hl with
      | [], [], _ => exact Or.inl rfl
      | [x], [y], _ =>
        rw [mth_singleton, mth_singleton] at h
        exact Or.inl (by rw [h])
      | _ :: _ :: _, _, _ => simp at hn; omega
      | [], _ :: _, hl => simp at hl
      | [_], [], hl => simp at hl
      | [_], _ :: _ :: _, hl => simp at hl

/-- Lengths representable in the uint16 fields of the entry digest; 32-byte value hash. -/
def REntry.Fits (e : REntry) : Prop := e.key.length < 65536 ∧ e.hval.length = 32

/-- What the entries hash commits to: key, metadata AS SERIALISED, value hash. -/
def REntry.dcore (e : REntry) : Bytes × Bytes × Bytes := (e.key, kvmdBytesOpt e.md, e.hval)

/-! ### helper lemmas for `ehOf_binds` -/

namespace ReplicaEntriesAux

theorem build_root_eq (mh : MH D) (enc : D → Bytes) (ds : List D) :
    (HTree.build mh enc ds).root = mth mh (ds.map (fun d => mh.leafH (enc d))) := by
  cases ds with
  | nil => simp [HTree.build, mth]
  | cons d r => exact build_root mh enc (d :: r) (by simp)

theorem kvmdBytes_length_le (md : KVMd) : (kvmdBytes md).length ≤ 11 := by
  cases md with
  | mk d ex n => cases d <;> cases ex <;> cases n <;> simp [kvmdBytes, Gen.storeTsSize]

theorem kvmdBytesOpt_length_lt (md : Option KVMd) : (kvmdBytesOpt md).length < 65536 := by
  cases md with
  | none => simp [kvmdBytesOpt]
  | some m => have := kvmdBytes_length_le m; simp only [kvmdBytesOpt]; omega

theorem entryDigest_inj (hs : Hs D) (v : Int) (e e' : REntry) (d : D) (hf : e.Fits) (hf' : e'.Fits)
    (h1 : entryDigest hs v e = .ok d) (h2 : entryDigest hs v e' = .ok d) :
    e.dcore = e'.dcore ∨ HColl hs := by
  unfold entryDigest at h1 h2
  simp only at h1 h2
  by_cases hv0 : v = 0
  · rw [if_pos hv0] at h1 h2
    split at h1
    · cases h1
    · split at h2
      · cases h2
      · rename_i hm hm'
        have e1 := Except.ok.inj h1
        have e2 := Except.ok.inj h2
        rcases ImmuModel.Store.C01Aux.H_eq hs _ _ (e1.trans e2.symm) with eb | hc
        · left
          have a := List.append_inj' eb (by rw [hf.2, hf'.2])
          have m1 : kvmdBytesOpt e.md = [] := List.eq_nil_of_length_eq_zero (by omega)
          have m2 : kvmdBytesOpt e'.md = [] := List.eq_nil_of_length_eq_zero (by omega)
          unfold REntry.dcore
          rw [a.1, a.2, m1, m2]
        · exact Or.inr hc
  · rw [if_neg hv0] at h1 h2
    by_cases hv1 : v = 1
    · rw [if_pos hv1] at h1 h2
      have e1 := Except.ok.inj h1
      have e2 := Except.ok.inj h2
      rcases ImmuModel.Store.C01Aux.H_eq hs _ _ (e1.trans e2.symm) with eb | hc
      · left
        simp only [List.append_assoc] at eb
        have a1 := List.append_inj eb (by rw [beN_length, beN_length])
        have l1 : (kvmdBytesOpt e.md).length = (kvmdBytesOpt e'.md).length :=
          beN_inj Gen.storeSszSize _ _ (by simpa [Gen.storeSszSize] using kvmdBytesOpt_length_lt e.md)
            (by simpa [Gen.storeSszSize] using kvmdBytesOpt_length_lt e'.md) a1.1
        have a2 := List.append_inj a1.2 l1
        have a3 := List.append_inj a2.2 (by rw [beN_length, beN_length])
        have l2 : e.key.length = e'.key.length :=
          beN_inj Gen.storeSszSize _ _ (by simpa [Gen.storeSszSize] using hf.1)
            (by simpa [Gen.storeSszSize] using hf'.1) a3.1
        have a4 := List.append_inj a3.2 l2
        unfold REntry.dcore
        rw [a2.1, a4.1, a4.2]
      · exact Or.inr hc
    · rw [if_neg hv1] at h1
      cases h1

theorem entryDigests_length (hs : Hs D) (v : Int) : ∀ (es : List REntry) (ds : List D),
    entryDigests hs v es = .ok ds → ds.length = es.length := by
  intro es
  induction es with
  | nil => intro ds h; simp [entryDigests] at h; simp [← h]
  | cons e t ih =>
    intro ds h
    unfold entryDigests at h
    split at h
    · cases h
    · split at h
      · cases h
      · rename_i ds' hds
        cases h
        simp [ih _ hds]

theorem entryDigests_inj (hs : Hs D) (v : Int) : ∀ (es es' : List REntry) (ds : List D),
    (∀ e ∈ es, e.Fits) → (∀ e ∈ es', e.Fits) →
    entryDigests hs v es = .ok ds → entryDigests hs v es' = .ok ds →
    es.map REntry.dcore = es'.map REntry.dcore ∨ HColl hs := by
  intro es
  induction es with
  | nil =>
    intro es' ds _ _ h1 h2
    have l1 := entryDigests_length hs v _ _ h1
    have l2 := entryDigests_length hs v _ _ h2
    cases es' with
    | nil => exact Or.inl rfl
    | cons _ _ => rw [l1] at l2; simp at l2
  | cons e t ih =>
    intro es' ds hf hf' h1 h2
    cases es' with
    | nil =>
      have l1 := entryDigests_length hs v _ _ h1
      have l2 := entryDigests_length hs v _ _ h2
      rw [l1] at l2; simp at l2
    | cons e' t' =>
      unfold entryDigests at h1 h2
      split at h1
      · cases h1
      · rename_i d hd
        split at h1
        · cases h1
        · rename_i dt hdt
          split at h2
          · cases h2
          · rename_i d' hd'
            split at h2
            · cases h2
            · rename_i dt' hdt'
              cases h1
              have := Except.ok.inj h2
              injection this with q1 q2
              subst q1; subst q2
              rcases entryDigest_inj hs v e e' _ (hf e (by simp)) (hf' e' (by simp)) hd hd' with c | hc
              · rcases ih t' _ (fun x hx => hf x (by simp [hx])) (fun x hx => hf' x (by simp [hx])) hdt hdt' with c2 | hc
                · left; simp [c, c2]
                · exact Or.inr hc
              · exact Or.inr hc

theorem leaves_inj (hs : Hs D) : ∀ (ds ds' : List D),
    ds.map (fun d => hs.mhH.leafH (hs.enc d)) = ds'.map (fun d => hs.mhH.leafH (hs.enc d)) →
    ds = ds' ∨ HColl hs := by
  intro ds
  induction ds with
  | nil => intro ds' h; cases ds' with
    | nil => exact Or.inl rfl
    | cons _ _ => simp at h
  | cons d t ih =>
    intro ds' h
    cases ds' with
    | nil => simp at h
    | cons d' t' =>
      simp only [List.map_cons, List.cons.injEq] at h
      rcases ImmuModel.Store.C01Aux.H_eq hs _ _ h.1 with e | hc
      · rcases ih t' h.2 with e2 | hc
        · left; rw [hs.enc_inj _ _ (List.cons.inj e).2, e2]
        · exact Or.inr hc
      · exact Or.inr hc

end ReplicaEntriesAux
open ReplicaEntriesAux

/-- **`Eh` binds the entries** (same header version, same count). -/
theorem ehOf_binds (hs : Hs D) (v : Int) (es es' : List REntry) (eh : D) (hl : es.length = es'.length)
    (hf : ∀ e ∈ es, e.Fits) (hf' : ∀ e ∈ es', e.Fits)
    (h1 : ehOf hs v es = .ok eh) (h2 : ehOf hs v es' = .ok eh) :
    es.map REntry.dcore = es'.map REntry.dcore ∨ HColl hs := by
  unfold ehOf at h1 h2
  split at h1
  · cases h1
  · rename_i ds hds
    split at h2
    · cases h2
    · rename_i ds' hds'
      have e1 := Except.ok.inj h1
      have e2 := Except.ok.inj h2
      rw [build_root_eq] at e1 e2
      have l1 := entryDigests_length hs v _ _ hds
      have l2 := entryDigests_length hs v _ _ hds'
      haveI : DecidableEq D := fun a b => Classical.propDecidable (a = b)
      rcases mth_inj_same_length hs.mhH _ _ (by simp; omega) (e1.trans e2.symm) with e | hc
      · rcases leaves_inj hs _ _ e with e' | hc
        · subst e'
          exact entryDigests_inj hs v es es' ds hf hf' hds hds'
        · exact Or.inr hc
      · exact Or.inr (ImmuModel.Store.coll_of_mhH hs hc)

/-- The value hash binds the value. -/
theorem hval_binds_value (hs : Hs D) (v v' : Bytes) (h : hs.enc (hs.H v) = hs.enc (hs.H v')) :
    v = v' ∨ HColl hs := by
  exact ImmuModel.Store.C01Aux.H_eq hs _ _ (hs.enc_inj _ _ h)

/-! ### helper lemmas for the `precommit` theorems -/

namespace ReplicaEntriesAux

theorem copy32_length (x : Bytes) : (copy32 x).length = 32 := by
  unfold copy32 hashSize
  simp only [List.length_append, List.length_replicate, List.length_take]
  omega

theorem copy32_of_length {x : Bytes} (h : x.length = 32) : copy32 x = x := by
  unfold copy32 hashSize
  rw [List.take_of_length_le (by omega), h]
  simp

theorem setEntry_mem (cfg : RCfg) (acc : List REntry) (e : REntry) (es : List REntry)
    (h : setEntry cfg acc e = .ok es) :
    ∀ x ∈ es, x ∈ acc ∨ (x = e ∧ e.key.length ≤ cfg.maxKeyLen) := by
  unfold setEntry at h
  split at h
  · cases h
  · split at h
    · cases h
    · rename_i hk
      split at h
      · cases h
      · split at h
        · cases h
          intro x hx
          rcases List.mem_map.1 hx with ⟨y, hy, rfl⟩
          split
          · exact Or.inr ⟨rfl, by omega⟩
          · exact Or.inl hy
        · split at h
          · cases h
          · cases h
            intro x hx
            rcases List.mem_append.1 hx with hx | hx
            · exact Or.inl hx
            · exact Or.inr ⟨by simpa using hx, by omega⟩

theorem setAll_mem (cfg : RCfg) : ∀ (l acc es : List REntry), setAll cfg acc l = .ok es →
    ∀ x ∈ es, x ∈ acc ∨ (x ∈ l ∧ x.key.length ≤ cfg.maxKeyLen) := by
  intro l
  induction l with
  | nil =>
    intro acc es h x hx
    simp only [setAll] at h
    cases h
    exact Or.inl hx
  | cons e t ih =>
    intro acc es h x hx
    simp only [setAll] at h
    split at h
    · cases h
    · rename_i acc' hacc
      rcases ih acc' es h x hx with h1 | h1
      · rcases setEntry_mem cfg acc e acc' hacc x h1 with h2 | h2
        · exact Or.inl h2
        · exact Or.inr ⟨by simp [h2.1], by rw [h2.1]; exact h2.2⟩
      · exact Or.inr ⟨by simp [h1.1], h1.2⟩

theorem toREntry_hval_length (hs : Hs D) (t : Bool) (e : PEntry) : (toREntry hs t e).hval.length = 32 := by
  unfold toREntry
  split
  · exact copy32_length _
  · exact hs.enc_len _

theorem ite_err {α : Type} {c : Prop} [Decidable c] {e : XErr} {X : Except XErr α} {r : α}
    (h : (if c then .error e else X) = .ok r) : ¬ c ∧ X = .ok r := by
  by_cases hc : c
  · rw [if_pos hc] at h; cases h
  · rw [if_neg hc] at h; exact ⟨hc, h⟩



theorem precommit_congr (hs : Hs D) (st : RSt D) (p : Parsed) (ents' : List PEntry) (tr' : Bool) (skip : Bool)
    (r : RRec D) (es es' : List REntry)
    (hes : setAll st.cfg [] (p.entries.map (toREntry hs p.truncated)) = .ok es)
    (hes' : setAll st.cfg [] (ents'.map (toREntry hs tr')) = .ok es')
    (hlen : es'.length = es.length)
    (heh : ehOf hs p.hdr.version es' = ehOf hs p.hdr.version es)
    (hok : precommit hs st p skip = .ok r) :
    precommit hs st { hdr := p.hdr, entries := ents', truncated := tr' } skip = .ok { r with entries := es' } := by
  unfold precommit storedHdr at hok ⊢
  rw [hes] at hok
  dsimp only at hok ⊢
  rw [hes']
  dsimp only
  rw [hlen, heh]
  replace ⟨hc, hok⟩ := ite_err hok
  rw [if_neg hc]
  split at hok
  · cases hok
  · rename_i hmd
    replace ⟨hc, hok⟩ := ite_err hok
    rw [if_neg hc]
    replace ⟨hc, hok⟩ := ite_err hok
    rw [if_neg hc]
    split at hok
    · cases hok
    · rename_i eh hehe
      replace ⟨hc, hok⟩ := ite_err hok
      rw [if_neg hc]
      replace ⟨hc, hok⟩ := ite_err hok
      rw [if_neg hc]
      replace ⟨hc, hok⟩ := ite_err hok
      rw [if_neg hc]
      replace ⟨hc, hok⟩ := ite_err hok
      rw [if_neg hc]
      replace ⟨hc, hok⟩ := ite_err hok
      rw [if_neg hc]
      replace ⟨hc, hok⟩ := ite_err hok
      rw [if_neg hc]
      replace ⟨hc, hok⟩ := ite_err hok
      rw [if_neg hc]
      replace ⟨hc, hok⟩ := ite_err hok
      rw [if_neg hc]
      replace ⟨hc, hok⟩ := ite_err hok
      rw [if_neg hc]
      replace ⟨hc, hok⟩ := ite_err hok
      rw [if_neg hc]
      split at hok
      · cases hok
      · rename_i a ha
        rw [ha]
        cases hok
        rfl


theorem precommit_ok_inv (hs : Hs D) (st : RSt D) (p : Parsed) (skip : Bool) (r : RRec D)
    (hok : precommit hs st p skip = .ok r) :
    ∃ es eh, setAll st.cfg [] (p.entries.map (toREntry hs p.truncated)) = .ok es ∧
      (es.length : Int) = p.hdr.nentries ∧ ehOf hs p.hdr.version es = .ok eh ∧
      (skip = false → hs.enc eh = p.hdr.eh) ∧ r.entries = es := by
  unfold precommit at hok
  split at hok
  · cases hok
  · rename_i es hes
    replace ⟨hlen, hok⟩ := ite_err hok
    split at hok
    · cases hok
    · replace ⟨_, hok⟩ := ite_err hok
      replace ⟨_, hok⟩ := ite_err hok
      split at hok
      · cases hok
      · rename_i eh heh
        replace ⟨hchk, hok⟩ := ite_err hok
        replace ⟨_, hok⟩ := ite_err hok
        replace ⟨_, hok⟩ := ite_err hok
        replace ⟨_, hok⟩ := ite_err hok
        replace ⟨_, hok⟩ := ite_err hok
        dsimp only at hok
        replace ⟨_, hok⟩ := ite_err hok
        replace ⟨_, hok⟩ := ite_err hok
        replace ⟨_, hok⟩ := ite_err hok
        replace ⟨_, hok⟩ := ite_err hok
        replace ⟨_, hok⟩ := ite_err hok
        split at hok
        · cases hok
        · cases hok
          refine ⟨es, eh, hes, ?_, heh, ?_, rfl⟩
          · exact Decidable.of_not_not hlen
          · intro hs'
            subst hs'
            simpa using hchk

theorem strip_toREntry (hs : Hs D) (e : PEntry) :
    toREntry hs true { e with payload := hs.enc (hs.H e.payload) } = (toREntry hs false e).strip := by
  simp [toREntry, REntry.strip, copy32_of_length (hs.enc_len _)]

theorem setEntry_strip (cfg : RCfg) (acc : List REntry) (e : REntry) (acc' : List REntry)
    (h : setEntry cfg acc e = .ok acc') :
    setEntry cfg (acc.map REntry.strip) e.strip = .ok (acc'.map REntry.strip) := by
  unfold setEntry at h ⊢
  have hk : e.strip.key = e.key := rfl
  have hv : e.strip.value.length = 0 := rfl
  rw [hk, hv]
  split at h
  · cases h
  · rename_i h1
    rw [if_neg h1]
    split at h
    · cases h
    · rename_i h2
      rw [if_neg h2]
      split at h
      · cases h
      · rw [if_neg (by omega)]
        have hany : (acc.map REntry.strip).any (fun x => x.key == e.key) = acc.any (fun x => x.key == e.key) := by
          rw [List.any_map]; rfl
        rw [hany]
        split at h
        · rename_i h4
          rw [if_pos h4]
          cases h
          simp only [List.map_map]
          congr 1
          apply List.map_congr_left
          intro x _
          simp only [Function.comp]
          have : x.strip.key = x.key := rfl
          rw [this]
          split <;> rfl
        · rename_i h4
          rw [if_neg h4]
          rw [List.length_map]
          split at h
          · cases h
          · rename_i h5
            rw [if_neg h5]
            cases h
            simp

theorem setAll_strip (cfg : RCfg) : ∀ (l acc es : List REntry), setAll cfg acc l = .ok es →
    setAll cfg (acc.map REntry.strip) (l.map REntry.strip) = .ok (es.map REntry.strip) := by
  intro l
  induction l with
  | nil =>
    intro acc es h
    simp only [setAll] at h
    cases h
    simp [setAll]
  | cons e t ih =>
    intro acc es h
    simp only [setAll] at h
    split at h
    · cases h
    · rename_i acc' hacc
      simp only [List.map_cons, setAll]
      rw [setEntry_strip cfg acc e acc' hacc]
      exact ih acc' es h

theorem entryDigest_strip (hs : Hs D) (v : Int) (e : REntry) :
    entryDigest hs v e.strip = entryDigest hs v e := rfl

theorem entryDigests_strip (hs : Hs D) (v : Int) (es : List REntry) :
    entryDigests hs v (es.map REntry.strip) = entryDigests hs v es := by
  induction es with
  | nil => rfl
  | cons e t ih => simp only [List.map_cons, entryDigests, entryDigest_strip, ih]

theorem ehOf_strip (hs : Hs D) (v : Int) (es : List REntry) :
    ehOf hs v (es.map REntry.strip) = ehOf hs v es := by
  unfold ehOf
  rw [entryDigests_strip]

end ReplicaEntriesAux

/-- **Altered entries are rejected** (integrity check on): if the supplied header's `Eh` is the
entries hash of `es0` (what the primary committed) and the delivery is ACCEPTED, then the stored
entries have exactly the keys, serialised kv-metadata and value hashes of `es0`, in order — or a
collision of `H` is exhibited.  Hence a delivery with an altered/added/removed/reordered key,
kv-metadata or value (values via `hval_binds_value`), or another `NEntries`, is rejected. -/
theorem precommit_binds_entries (hs : Hs D) (st : RSt D) (p : Parsed) (r : RRec D) (es0 : List REntry) (eh0 : D)
    (h0 : ehOf hs p.hdr.version es0 = .ok eh0) (hEh : p.hdr.eh = hs.enc eh0)
    (hn : p.hdr.nentries = (es0.length : Int)) (hf0 : ∀ e ∈ es0, e.Fits)
    (hkey : st.cfg.maxKeyLen < 65536)
    (hok : precommit hs st p false = .ok r) :
    r.entries.map REntry.dcore = es0.map REntry.dcore ∨ HColl hs := by
  obtain ⟨es, eh, hes, hlen, heh, hchk, hent⟩ := precommit_ok_inv hs st p false r hok
  rw [hent]
  have hehe : eh = eh0 := by
    apply hs.enc_inj
    rw [← hEh]
    exact hchk rfl
  subst hehe
  have hl : es.length = es0.length := by omega
  refine ehOf_binds hs p.hdr.version es es0 eh hl ?_ hf0 heh h0
  intro x hx
  rcases setAll_mem st.cfg _ _ _ hes x hx with h | ⟨h1, h2⟩
  · simp at h
  · rcases List.mem_map.1 h1 with ⟨pe, _, rfl⟩
    exact ⟨by omega, toREntry_hval_length hs _ pe⟩

/-- The export of the same transaction with every value replaced by its digest and the truncation
flag set (what a primary sends after `TruncateUptoTx`). -/
def stripValues (hs : Hs D) (p : Parsed) : Parsed :=
  { p with truncated := true, entries := p.entries.map (fun e => { e with payload := hs.enc (hs.H e.payload) }) }

/-- **Witness: values can be stripped in transit.** Whenever a with-values delivery is accepted, the
values-stripped form of the same transaction is accepted as well, with the SAME header and the
SAME accumulated hash: no later Alh comparison can tell that the replica holds the transaction
without its values. -/
theorem precommit_stripped_same (hs : Hs D) (st : RSt D) (p : Parsed) (skip : Bool) (r : RRec D)
    (ht : p.truncated = false) (hok : precommit hs st p skip = .ok r) :
    ∃ r', precommit hs st (stripValues hs p) skip = .ok r' ∧ r'.hdr = r.hdr ∧ r'.alh = r.alh ∧
      r'.entries = r.entries.map REntry.strip := by
  obtain ⟨es, eh, hes, _, _, _, hent⟩ := precommit_ok_inv hs st p skip r hok
  have hes' : setAll st.cfg [] ((p.entries.map (fun e => { e with payload := hs.enc (hs.H e.payload) })).map
      (toREntry hs true)) = .ok (es.map REntry.strip) := by
    have := setAll_strip st.cfg _ _ _ hes
    rw [ht] at this
    simp only [List.map_map, List.map_nil] at this ⊢
    rw [← this]
    congr 1
    apply List.map_congr_left
    intro e _
    simp only [Function.comp]
    exact strip_toREntry hs e
  refine ⟨{ r with entries := es.map REntry.strip }, ?_, rfl, rfl, by rw [hent]⟩
  exact precommit_congr hs st p _ true skip r es _ hes hes' (by simp) (ehOf_strip hs _ es) hok

/-- **Witness: `skipIntegrityCheck` disables the entries check.** With the flag set the supplied `Eh`
plays no role in acceptance. -/
theorem precommit_skip_ignores_eh (hs : Hs D) (st : RSt D) (p : Parsed) (eh' : Bytes) (r : RRec D)
    (hok : precommit hs st p true = .ok r) :
    precommit hs st { p with hdr := { p.hdr with eh := eh' } } true = .ok r := by
  unfold precommit storedHdr at hok ⊢
  simpa using hok

end ImmuModel.Replica
