/-
C02 (maintenance) — proofs about `Store/TruncateRun.lean`.  Helper lemmas only; the property theorems are in
Props/C02.lean.
-/
import ImmuModel.Store.TruncateRun
import ImmuModel.Store.Proofs.TruncateProofs

namespace ImmuModel.Store.TruncateRunAux
open ImmuModel.Store.Truncate ImmuModel.Store.TruncateAux ImmuModel.Store.TruncateRun

/-- One `TruncateUptoTx(n)` keeps every readable value of a committed tx `id ≥ n` readable (the single-step fact of
C14, re-derived here from the same lemmas so that C02 does not depend on C14's property file). -/
theorem truncate_keeps_readable (s : Store) (n id : Nat) (tx : TxEnts) (e : Ent)
    (h1 : 1 ≤ id) (hn : n ≤ id) (htx : s.txs[id - 1]? = some tx)
    (hpl : Placed tx) (he : e ∈ tx) (hr : s.readable e) :
    (truncateUpto s n).store.readable e := by
  have hid : id ≤ s.last := by
    have := (List.getElem?_eq_some_iff.mp htx).1
    unfold Store.last; omega
  unfold truncateUpto
  split
  · exact hr
  · split
    · exact hr
    · rename_i t ht
      by_cases h0 : e.len = 0
      · unfold Store.readable Store.readValue; simp [h0]
      · apply readable_discardAll _ _ _ _ _ hr
        unfold tombstones at ht
        split at ht
        · cases ht
        · rename_i t0 _
          obtain ⟨_, hb⟩ := frontWalk_spec s _ _ _ _ ht
          cases tx with
          | nil => cases he
          | cons f rest =>
            have hfe : s.firstEntry id = .ok f := by
              unfold Store.firstEntry
              have : ¬ id = 0 := by omega
              have h2 : ¬ s.last < id := by omega
              simp [this, h2, htx]
            have hbf := hb id f hn (by omega) hfe
            obtain ⟨hv, ho⟩ := placed_first hpl rfl he
            intro p hp hpv
            exact Nat.le_trans (hbf p hp (hpv.trans hv.symm)) (ho (by omega))

/-- Truncation leaves the tx log alone. -/
theorem truncate_txs (s : Store) (n : Nat) : (truncateUpto s n).store.txs = s.txs := by
  unfold truncateUpto
  split
  · rfl
  · split
    · rfl
    · rename_i t _
      exact (discardAll_spec t s []).1.txs

/-- Readability only depends on the chunk size and on which chunk files of the value's log exist. -/
theorem readable_of_superset (s s' : Store) (e : Ent) (hF : s'.F = s.F)
    (hsub : ∀ c ∈ (s.vlogs e.vlog).present, c ∈ (s'.vlogs e.vlog).present) (hr : s.readable e) :
    s'.readable e := by
  unfold Store.readable Store.readValue at hr ⊢
  rw [hF]
  by_cases h0 : e.len = 0
  · simp [h0]
  · simp only [h0, if_false] at hr ⊢
    by_cases hv : e.vlog = 0
    · simp [hv] at hr
    · simp only [hv, if_false] at hr ⊢
      split at hr
      · rename_i hall
        rw [if_pos]
        rw [List.all_eq_true] at hall ⊢
        intro c hc
        have := hall c hc
        simp only [List.contains_iff_mem] at this ⊢
        exact hsub c this
      · cases hr

theorem appendInto_txs (s : Store) (v : Nat) (lens : List Nat) : (s.appendInto v lens).1.txs = s.txs := rfl

theorem appendInto_F (s : Store) (v : Nat) (lens : List Nat) : (s.appendInto v lens).1.F = s.F := rfl

theorem appendInto_present (s : Store) (v : Nat) (lens : List Nat) (w c : Nat)
    (h : c ∈ (s.vlogs w).present) : c ∈ ((s.appendInto v lens).1.vlogs w).present := by
  unfold Store.appendInto Store.setVLog
  simp only
  by_cases hw : w = v
  · subst hw
    simp only [if_true]
    exact List.mem_append_left _ h
  · simp only [hw, if_false]
    exact h

theorem appendInto_placed (s : Store) (v : Nat) (lens : List Nat) : Placed (s.appendInto v lens).2 :=
  ⟨v, (s.vlogs v).offset, lens, rfl⟩

/-- What a step keeps, for a committed tx `id` with a readable value, when the step is not a truncation above `id`. -/
theorem step_keeps (s : St) (op : Op) (id : Nat) (tx : TxEnts) (e : Ent)
    (h1 : 1 ≤ id) (htx : s.store.txs[id - 1]? = some tx) (hpl : Placed tx) (he : e ∈ tx)
    (hr : s.store.readable e) (hc : ∀ n ∈ cuts [op], n ≤ id) :
    (step s op).store.txs[id - 1]? = some tx ∧ (step s op).store.readable e := by
  cases op with
  | stage v lens =>
    refine ⟨by simpa [step, appendInto_txs] using htx, ?_⟩
    exact readable_of_superset s.store _ e (appendInto_F _ _ _) (fun c hc => appendInto_present _ _ _ _ _ hc) hr
  | commit k =>
    simp only [step]
    split
    · rename_i tx' _
      refine ⟨?_, ?_⟩
      · have hlt := (List.getElem?_eq_some_iff.mp htx).1
        simp only [Store.commitTx]
        rw [List.getElem?_append_left hlt]
        exact htx
      · exact readable_of_superset s.store _ e rfl (fun c hc => hc) hr
    · exact ⟨htx, hr⟩
  | truncate n =>
    have hn : n ≤ id := hc n (by simp [cuts])
    refine ⟨by simpa [step, truncate_txs] using htx, ?_⟩
    exact truncate_keeps_readable s.store n id tx e h1 hn htx hpl he hr
  | indexMaint => exact ⟨htx, hr⟩
  | reopen => exact ⟨htx, hr⟩

theorem cuts_cons (op : Op) (ops : List Op) : cuts (op :: ops) = cuts [op] ++ cuts ops := by
  cases op <;> simp [cuts]

theorem cuts_append (a b : List Op) : cuts (a ++ b) = cuts a ++ cuts b := by
  induction a with
  | nil => simp [cuts]
  | cons op a ih => rw [List.cons_append, cuts_cons, ih, cuts_cons op a, List.append_assoc]

theorem run_keeps (ops : List Op) : ∀ (s : St) (id : Nat) (tx : TxEnts) (e : Ent),
    1 ≤ id → s.store.txs[id - 1]? = some tx → Placed tx → e ∈ tx → s.store.readable e →
    (∀ n ∈ cuts ops, n ≤ id) →
    (run s ops).store.txs[id - 1]? = some tx ∧ (run s ops).store.readable e := by
  induction ops with
  | nil => intro s id tx e _ htx _ _ hr _; exact ⟨htx, hr⟩
  | cons op ops ih =>
    intro s id tx e h1 htx hpl he hr hc
    rw [cuts_cons] at hc
    obtain ⟨a, b⟩ := step_keeps s op id tx e h1 htx hpl he hr (fun n hn => hc n (List.mem_append_left _ hn))
    exact ih (step s op) id tx e h1 a hpl he b (fun n hn => hc n (List.mem_append_right _ hn))

theorem run_append (s : St) (a b : List Op) : run s (a ++ b) = run (run s a) b := by
  unfold run; rw [List.foldl_append]

/-- No op removes or alters an entry of the tx log. -/
theorem step_txs_prefix (s : St) (op : Op) : s.store.txs <+: (step s op).store.txs := by
  cases op with
  | stage v lens => simp [step, appendInto_txs]
  | commit k =>
    simp only [step]
    split
    · simp [Store.commitTx]
    · exact List.prefix_refl _
  | truncate n => simp [step, truncate_txs]
  | indexMaint => exact List.prefix_refl _
  | reopen => exact List.prefix_refl _

theorem run_txs_prefix (ops : List Op) : ∀ (s : St), s.store.txs <+: (run s ops).store.txs := by
  induction ops with
  | nil => intro s; exact List.prefix_refl _
  | cons op ops ih => intro s; exact List.IsPrefix.trans (step_txs_prefix s op) (ih _)

/-- Everything committed or staged was placed by one `appendValuesIntoAnyVLog` call. -/
def AllPlaced (s : St) : Prop := (∀ tx ∈ s.store.txs, Placed tx) ∧ (∀ tx ∈ s.staged, Placed tx)

theorem step_allPlaced (s : St) (op : Op) (h : AllPlaced s) : AllPlaced (step s op) := by
  obtain ⟨hc, hs⟩ := h
  cases op with
  | stage v lens =>
    refine ⟨fun tx htx => hc tx (by simpa [step, appendInto_txs] using htx), fun tx htx => ?_⟩
    simp only [step, List.mem_append, List.mem_singleton] at htx
    rcases htx with htx | htx
    · exact hs tx htx
    · rw [htx]; exact appendInto_placed _ _ _
  | commit k =>
    simp only [step]
    split
    · rename_i tx' hk
      refine ⟨fun tx htx => ?_, fun tx htx => hs tx (List.mem_of_mem_eraseIdx htx)⟩
      simp only [Store.commitTx, List.mem_append, List.mem_singleton] at htx
      rcases htx with htx | htx
      · exact hc tx htx
      · rw [htx]; exact hs tx' (List.mem_of_getElem? hk)
    · exact ⟨hc, hs⟩
  | truncate n =>
    exact ⟨fun tx htx => hc tx (by simpa [step, truncate_txs] using htx), hs⟩
  | indexMaint => exact ⟨hc, hs⟩
  | reopen => exact ⟨hc, fun tx htx => by simp [step] at htx⟩

theorem run_allPlaced (ops : List Op) : ∀ (s : St), AllPlaced s → AllPlaced (run s ops) := by
  induction ops with
  | nil => intro s h; exact h
  | cons op ops ih => intro s h; exact ih _ (step_allPlaced s op h)

theorem init_allPlaced (F io : Nat) : AllPlaced (init F io) :=
  ⟨fun tx htx => by simp [init] at htx, fun tx htx => by simp [init] at htx⟩

end ImmuModel.Store.TruncateRunAux
