/-
C07 — helper lemmas for `ReplicaChain.lean`: the definition of a well-formed chain (`ChainOK`), its
record-by-record form (`RecOK`), closure under prefixes and extension, what a PARSED header
satisfies, and what an accepted `precommit` stores.
-/
import ImmuModel.Store.Proofs.ReplicaHdr
import ImmuModel.Store.Proofs.ReplicaEntries
import ImmuModel.Store.Proofs.ReplicaPrefixLemmas

namespace ImmuModel.Replica
open ImmuModel ImmuModel.Tx ImmuModel.Merkle ImmuModel.GoInt

variable {D : Type}

/-- A well-formed chain of transaction records: ids dense from 1, `PrevAlh` chained from
`sha256("")`, `Alh` the header hash, `BlTxID < ID` with — WHEN `BlTxID > 0` — the reference Merkle root over the
chain's own accumulated hashes (for `BlTxID = 0` the stored `BlRoot` is whatever the pooled `Tx`
object held: only its length is known), `Eh` the hash of the stored entries, field ranges as Go
holds them. -/
def ChainOK (hs : Hs D) (L : List (RRec D)) : Prop :=
  ∀ i (h : i < L.length),
    (L[i]).hdr.id = i + 1 ∧
    (L[i]).hdr.prevAlh = hs.enc (lastAlh hs (L.take i)) ∧
    alhH hs (L[i]).hdr = .ok (L[i]).alh ∧
    (L[i]).hdr.blTxID ≤ i ∧
    ((L[i]).hdr.blTxID > 0 → (L[i]).hdr.blRoot = blRootOf hs (L.map (·.alh)) (L[i]).hdr.blTxID) ∧
    (∃ eh, ehOf hs (L[i]).hdr.version (L[i]).entries = .ok eh ∧ (L[i]).hdr.eh = hs.enc eh) ∧
    (L[i]).hdr.nentries = ((L[i]).entries.length : Int) ∧
    HdrFits (L[i]).hdr ∧ (∀ e ∈ (L[i]).entries, e.Fits)

namespace ReplicaChainAux

/-- Record `r` is a well-formed extension of the chain `Y`. -/
def RecOK (hs : Hs D) (Y : List (RRec D)) (r : RRec D) : Prop :=
  r.hdr.id = Y.length + 1 ∧
  r.hdr.prevAlh = hs.enc (lastAlh hs Y) ∧
  alhH hs r.hdr = .ok r.alh ∧
  r.hdr.blTxID ≤ Y.length ∧
  (r.hdr.blTxID > 0 → r.hdr.blRoot = blRootOf hs (Y.map (·.alh)) r.hdr.blTxID) ∧
  (∃ eh, ehOf hs r.hdr.version r.entries = .ok eh ∧ r.hdr.eh = hs.enc eh) ∧
  r.hdr.nentries = (r.entries.length : Int) ∧
  HdrFits r.hdr ∧ (∀ e ∈ r.entries, e.Fits)

theorem blRootOf_take (hs : Hs D) (alhs : List D) (i bl : Nat) (h : bl ≤ i) :
    blRootOf hs (alhs.take i) bl = blRootOf hs alhs bl := by
  unfold blRootOf
  rw [List.take_take, Nat.min_eq_left h]

theorem chainOK_iff (hs : Hs D) (L : List (RRec D)) :
    ChainOK hs L ↔ ∀ i (h : i < L.length), RecOK hs (L.take i) (L[i]) := by
  constructor
  · intro H i h
    obtain ⟨a1, a2, a3, a4, a5, a6, a7, a8, a9⟩ := H i h
    have hl : (L.take i).length = i := by rw [List.length_take]; omega
    refine ⟨by rw [hl]; exact a1, a2, a3, by rw [hl]; exact a4, ?_, a6, a7, a8, a9⟩
    intro hb
    rw [List.map_take, blRootOf_take hs _ _ _ a4]
    exact a5 hb
  · intro H i h
    obtain ⟨a1, a2, a3, a4, a5, a6, a7, a8, a9⟩ := H i h
    have hl : (L.take i).length = i := by rw [List.length_take]; omega
    rw [hl] at a1 a4
    refine ⟨a1, a2, a3, a4, ?_, a6, a7, a8, a9⟩
    intro hb
    have a5 := a5 hb
    rw [List.map_take, blRootOf_take hs _ _ _ a4] at a5
    exact a5

theorem chainOK_nil (hs : Hs D) : ChainOK hs ([] : List (RRec D)) := by
  intro i h; simp at h

/-- `ChainOK` is closed under prefixes. -/
theorem chainOK_take (hs : Hs D) (L : List (RRec D)) (k : Nat) (H : ChainOK hs L) :
    ChainOK hs (L.take k) := by
  rw [chainOK_iff] at H ⊢
  intro i h
  have hl : i < k ∧ i < L.length := by
    rw [List.length_take] at h; omega
  have := H i hl.2
  rw [List.take_take, Nat.min_eq_left (by omega), List.getElem_take]
  exact this

theorem chainOK_append_left (hs : Hs D) (A B : List (RRec D)) (H : ChainOK hs (A ++ B)) :
    ChainOK hs A := by
  have := chainOK_take hs (A ++ B) A.length H
  rwa [List.take_left] at this

theorem chainOK_snoc (hs : Hs D) (L : List (RRec D)) (r : RRec D) :
    ChainOK hs (L ++ [r]) ↔ ChainOK hs L ∧ RecOK hs L r := by
  constructor
  · intro H
    refine ⟨chainOK_append_left hs L [r] H, ?_⟩
    rw [chainOK_iff] at H
    have := H L.length (by simp)
    rw [List.take_left] at this
    simpa using this
  · rintro ⟨H1, H2⟩
    rw [chainOK_iff] at H1 ⊢
    intro i h
    by_cases hi : i < L.length
    · rw [List.take_append_of_le_length (by omega), List.getElem_append_left hi]
      exact H1 i hi
    · have : i = L.length := by simp at h; omega
      subst this
      rw [List.take_left]
      simpa using H2

theorem chainOK_mem_ext (hs : Hs D) (L : List (RRec D)) (H : ChainOK hs L) (r : RRec D) (hr : r ∈ L) :
    ∃ X, ChainOK hs (X ++ [r]) := by
  obtain ⟨i, hi, rfl⟩ := List.getElem_of_mem hr
  refine ⟨L.take i, ?_⟩
  rw [List.take_append_getElem]
  exact chainOK_take hs L (i + 1) H

/-- The accumulated hash after the first `i+1` records. -/
theorem lastAlh_snoc (hs : Hs D) (L : List (RRec D)) (r : RRec D) : lastAlh hs (L ++ [r]) = r.alh := by
  unfold lastAlh
  simp

theorem lastAlh_take_succ (hs : Hs D) (L : List (RRec D)) (i : Nat) (h : i < L.length) :
    lastAlh hs (L.take (i + 1)) = (L[i]).alh := by
  rw [← List.take_append_getElem h]
  exact lastAlh_snoc hs _ _

-- ------------------------------------------------------------------ what a PARSED header satisfies

theorem beVal_lt (l : Bytes) : beVal l < 256 ^ l.length := by
  induction l with
  | nil => simp [beVal]
  | cons b bs ih =>
    simp only [beVal, List.length_cons, Nat.pow_succ]
    have hb : b.toNat < 256 := UInt8.toNat_lt b
    have h1 : b.toNat * 256 ^ bs.length ≤ 255 * 256 ^ bs.length := Nat.mul_le_mul_right _ (by omega)
    generalize b.toNat * 256 ^ bs.length = X at *
    omega

theorem beVal_take_lt (k : Nat) (l : Bytes) : beVal (l.take k) < 256 ^ k := by
  have h1 := beVal_lt (l.take k)
  have h2 : 256 ^ (l.take k).length ≤ 256 ^ k := Nat.pow_le_pow_right (by omega) (List.length_take_le k l)
  omega

theorem readMid_ok (b : Bytes) (v : Nat) (md : Option TxMd) (n i : Nat) (h : readMid b v = .ok (md, n, i)) :
    (v = 0 ∧ n < 65536) ∨ (v = 1 ∧ n < 4294967296) := by
  unfold readMid at h
  simp only at h
  by_cases h0 : v = 0
  · rw [if_pos h0] at h
    injection h with h
    simp only [Prod.mk.injEq] at h
    obtain ⟨_, h2, _⟩ := h
    subst h2
    exact Or.inl ⟨h0, beVal_take_lt 2 _⟩
  · rw [if_neg h0] at h
    by_cases h1 : v = 1
    · rw [if_pos h1] at h
      right
      refine ⟨h1, ?_⟩
      split at h
      · cases h
      · split at h
        · split at h
          · cases h
          · injection h with h
            simp only [Prod.mk.injEq] at h
            obtain ⟨_, h2, _⟩ := h
            subst h2
            exact beVal_take_lt 4 _
        · injection h with h
          simp only [Prod.mk.injEq] at h
          obtain ⟨_, h2, _⟩ := h
          subst h2
          exact beVal_take_lt 4 _
    · rw [if_neg h1] at h
      cases h

theorem readTail_ok (b : Bytes) (i id : Nat) (eh : Bytes) (bl : Nat) (blr : Bytes)
    (h : readTail b i id = .ok (eh, bl, blr)) : bl < id := by
  unfold readTail at h
  split at h
  · cases h            -- `len(b) < i+sha256.Size+txIDSize+sha256.Size`: ErrCorruptedData
  · split at h
    · cases h
    · split at h
      · cases h
      · split at h
        · cases h
        · split at h
          · cases h
          · rename_i hlt
            split at h
            · cases h
            · injection h with h
              simp only [Prod.mk.injEq] at h
              obtain ⟨_, h2, _⟩ := h
              subst h2
              omega

/-- What `TxHeader.ReadFrom` guarantees about the header it returns. -/
theorem hdrReadFrom_ok (b : Bytes) (hd : TxHdr) (h : hdrReadFrom b = .ok hd) :
    hd.id < 2 ^ 64 ∧ hd.blTxID < hd.id ∧ InI64 hd.ts ∧
    ((hd.version = 0 ∧ 0 ≤ hd.nentries ∧ hd.nentries < 65536) ∨
     (hd.version = 1 ∧ 0 ≤ hd.nentries ∧ hd.nentries < 4294967296)) := by
  unfold hdrReadFrom at h
  simp only at h
  split at h
  · cases h
  · split at h
    · cases h
    · split at h
      · cases h
      · rename_i md n i hmid
        split at h
        · cases h
        · split at h
          · cases h
          · rename_i eh bl blr htail
            injection h with h
            subst h
            simp only
            refine ⟨?_, readTail_ok _ _ _ _ _ _ htail, i64_in _, ?_⟩
            · have := beVal_take_lt 8 b
              omega
            · rcases readMid_ok _ _ _ _ _ hmid with ⟨e, hn⟩ | ⟨e, hn⟩
              · left; rw [e]; refine ⟨rfl, by omega, by omega⟩
              · right; rw [e]; refine ⟨rfl, by omega, by omega⟩

theorem parseExported_hdr (b : Bytes) (p : Parsed) (h : parseExported b = .ok p) :
    ∃ hb, hdrReadFrom hb = .ok p.hdr := by
  unfold parseExported at h
  simp only at h
  split at h
  · cases h
  · split at h
    · cases h
    · split at h
      · cases h
      · split at h
        · cases h
        · rename_i hd hhd
          split at h
          · cases h
          · split at h
            · cases h
            · injection h with h
              subst h
              exact ⟨_, hhd⟩

/-- A serialisable transaction metadata value has at most 1+8+1+2+256 bytes. -/
theorem mdBytesOpt_len (md : Option TxMd) (b : Bytes) (h : mdBytesOpt md = .ok b) : b.length < 65536 := by
  have hm : Gen.storeMaxExtraLen = 256 := rfl
  cases md with
  | none =>
    simp only [mdBytesOpt] at h
    injection h with h
    subst h
    simp
  | some m =>
    obtain ⟨t, e⟩ := m
    simp only [mdBytesOpt, txmdBytes] at h
    cases e with
    | none =>
      simp only at h
      injection h with h
      subst h
      cases t <;> simp [Gen.storeTxIDSize]
    | some e =>
      simp only [extraSerialize] at h
      by_cases c : e.length > Gen.storeMaxExtraLen
      · rw [if_pos c] at h
        cases h
      · rw [if_neg c] at h
        simp only at h
        injection h with h
        subst h
        cases t <;> simp [Gen.storeTxIDSize, Gen.storeSszSize] <;> omega

-- ------------------------------------------------------------------ what an accepted `precommit` stores

/-- The record an accepted delivery of PARSED bytes stores is a well-formed extension of the chain. -/
theorem precommit_recOK (hs : Hs D) (st : RSt D) (hk : st.cfg.maxKeyLen < 65536)
    (b : Bytes) (p : Parsed)
    (skip : Bool) (r : RRec D) (hp : parseExported b = .ok p) (hok : precommit hs st p skip = .ok r) :
    RecOK hs st.chain r := by
  obtain ⟨hb, hhd⟩ := parseExported_hdr b p hp
  obtain ⟨f1, f2, f3, f4⟩ := hdrReadFrom_ok hb p.hdr hhd
  obtain ⟨es, eh, blr, a, ⟨hes, c1, hbm, c2, c3, heh, c4, c5, c6, c7, c8, hblr, c9, c10, c11, c12, c13⟩, ha, hr⟩ :=
    ReplicaHdrAux.precommit_inv hs st p skip r hok
  subst hr
  have hlp := ReplicaPrefixAux.lastPre_eq st
  have hn : (es.length : Int) = p.hdr.nentries := Classical.not_not.mp c1
  have hid : p.hdr.id = st.lastPre + 1 := by omega
  have hblr32 : blr.length = 32 := by
    rw [← hblr]
    split
    · exact hs.enc_len _
    · simp [zeros32]
  refine ⟨?_, rfl, ha, ?_, ?_, ⟨eh, heh, rfl⟩, rfl, ?_, ?_⟩
  · show st.lastPre + 1 = st.chain.length + 1
    rw [hlp]
  · show p.hdr.blTxID ≤ st.chain.length
    omega
  · show p.hdr.blTxID > 0 →
      (if p.hdr.blTxID > 0 then blr else zeros32) = blRootOf hs (st.chain.map (·.alh)) p.hdr.blTxID
    intro hb0
    rw [if_pos hb0, ← hblr]
    unfold blRootOf RSt.rootAt
    rw [if_pos ⟨hb0, by omega⟩, if_pos hb0]
  · refine ⟨?_, hs.enc_len _, f3, ?_, ?_, ?_, ?_, hs.enc_len _, ?_, ?_, fun b hb => mdBytesOpt_len _ b hb⟩
    · show st.lastPre + 1 < 2 ^ 64
      omega
    · show p.hdr.version = 0 ∨ p.hdr.version = 1
      rcases f4 with f4 | f4
      · exact Or.inl f4.1
      · exact Or.inr f4.1
    · show (0 : Int) ≤ (es.length : Int)
      omega
    · show p.hdr.version = 0 → (es.length : Int) < 65536
      intro hv
      rcases f4 with f4 | f4
      · omega
      · omega
    · show p.hdr.version = 1 → (es.length : Int) < 4294967296
      intro hv
      rcases f4 with f4 | f4
      · omega
      · omega
    · show p.hdr.blTxID < 2 ^ 64
      omega
    · show (if p.hdr.blTxID > 0 then blr else zeros32).length = 32
      split
      · exact hblr32
      · simp [zeros32]
  · intro x hx
    rcases ReplicaEntriesAux.setAll_mem st.cfg _ _ _ hes x hx with h | ⟨h1, h2⟩
    · simp at h
    · rcases List.mem_map.1 h1 with ⟨pe, _, rfl⟩
      exact ⟨by omega, ReplicaEntriesAux.toREntry_hval_length hs _ pe⟩

end ReplicaChainAux
end ImmuModel.Replica
