/-
C14: monotonicity of truncation in the cut point (helper file).
-/
import ImmuModel.Store.Truncate
import ImmuModel.Store.Proofs.TruncateProofs
import Batteries.Data.List.Perm

namespace ImmuModel.Store.TruncateMonoAux
open ImmuModel.Store.Truncate ImmuModel.Store.TruncateAux

/-! ### pigeonhole -/

theorem pigeon (l : List Nat) (M : Nat) (hnd : l.Nodup) (hr : ∀ x ∈ l, 1 ≤ x ∧ x ≤ M)
    (hlen : l.length = M) (v : Nat) (h1 : 1 ≤ v) (h2 : v ≤ M) : v ∈ l := by
  have hsub : l ⊆ List.range' 1 M := by
    intro x hx
    have := hr x hx
    rw [List.mem_range'_1]; omega
  have hp := (List.subperm_of_subset hnd hsub).perm_of_length_le (by simp [hlen])
  rw [hp.mem_iff, List.mem_range'_1]; omega

/-! ### firstEntry inside the committed range -/

theorem firstEntry_cases (s : Store) (i : Nat) (h1 : 1 ≤ i) (h2 : i ≤ s.last) :
    (∃ f, s.firstEntry i = .ok f) ∨ s.firstEntry i = .error .indexOutOfRange := by
  unfold Store.firstEntry
  have h0 : ¬ i = 0 := by omega
  have h3 : ¬ s.last < i := by omega
  simp only [h0, h3, if_false]
  have hlt : i - 1 < s.txs.length := by unfold Store.last at h2; omega
  rw [List.getElem?_eq_getElem hlt]
  generalize s.txs[i - 1] = tx
  cases tx with
  | nil => right; rfl
  | cons e _ => left; exact ⟨e, rfl⟩

/-! ### Tomb.has / addIfAbsent / lower -/

theorem has_iff (t : Tomb) (v : Nat) : t.has v = true ↔ ∃ p ∈ t, p.1 = v := by
  unfold Tomb.has
  rw [List.any_eq_true]
  constructor
  · rintro ⟨p, hp, h⟩; exact ⟨p, hp, by simpa using h⟩
  · rintro ⟨p, hp, h⟩; exact ⟨p, hp, by simpa using h⟩

theorem mem_addIfAbsent {t : Tomb} {v o : Nat} {p : Nat × Nat} (h : p ∈ t.addIfAbsent v o) :
    p ∈ t ∨ (p = (v, o) ∧ ¬ ∃ q ∈ t, q.1 = v) := by
  unfold Tomb.addIfAbsent at h
  split at h
  · exact Or.inl h
  · rename_i hh
    rcases List.mem_append.mp h with h | h
    · exact Or.inl h
    · right
      refine ⟨by simpa using h, ?_⟩
      intro hex
      exact hh ((has_iff t v).mpr hex)

theorem mem_addIfAbsent_of_mem {t : Tomb} {v o : Nat} {p : Nat × Nat} (h : p ∈ t) :
    p ∈ t.addIfAbsent v o := by
  unfold Tomb.addIfAbsent
  split
  · exact h
  · exact List.mem_append_left _ h

theorem addIfAbsent_has (t : Tomb) (v o : Nat) : ∃ q ∈ t.addIfAbsent v o, q.1 = v := by
  unfold Tomb.addIfAbsent
  split
  · rename_i hh; exact (has_iff t v).mp hh
  · exact ⟨(v, o), List.mem_append_right _ (List.mem_singleton.mpr rfl), rfl⟩

theorem addIfAbsent_nodup {t : Tomb} (v o : Nat) (h : (t.map Prod.fst).Nodup) :
    ((t.addIfAbsent v o).map Prod.fst).Nodup := by
  unfold Tomb.addIfAbsent
  split
  · exact h
  · rename_i hh
    rw [List.map_append, List.nodup_append]
    refine ⟨h, by simp, ?_⟩
    intro a ha b hb hab
    have hbv : b = v := by simpa using hb
    obtain ⟨p, hp, hpa⟩ := List.mem_map.mp ha
    exact hh ((has_iff t v).mpr ⟨p, hp, by rw [hpa, hab, hbv]⟩)

theorem lower_keys {t : Tomb} (v o : Nat) {q : Nat × Nat} (h : q ∈ t) :
    ∃ q' ∈ t.lower v o, q'.1 = q.1 := by
  unfold Tomb.lower
  refine ⟨_, List.mem_map.mpr ⟨q, h, rfl⟩, ?_⟩
  split <;> rfl

theorem mem_lower {t : Tomb} {v o : Nat} {p : Nat × Nat} (h : p ∈ t.lower v o) :
    p ∈ t ∨ p = (v, o) := by
  unfold Tomb.lower at h
  obtain ⟨q, hq, rfl⟩ := List.mem_map.mp h
  split
  · rename_i hh; right; rw [hh.1]
  · exact Or.inl hq

/-! ### the backward walk -/

theorem backWalk_succ {s : Store} {i : Nat} {t t' : Tomb} (h : backWalk s (i + 1) t = .ok t') :
    (t.length = s.maxIO ∧ t' = t) ∨
    (t.length ≠ s.maxIO ∧ ∃ e, s.firstEntry (i + 1) = .ok e ∧
      backWalk s i (t.addIfAbsent e.vlog e.off) = .ok t') ∨
    (t.length ≠ s.maxIO ∧ s.firstEntry (i + 1) = .error .indexOutOfRange ∧
      backWalk s i t = .ok t') := by
  unfold backWalk at h
  split at h
  · rename_i hl; left; cases h; exact ⟨hl, rfl⟩
  · rename_i hl
    right
    split at h
    · rename_i e he; left; exact ⟨hl, e, he, h⟩
    · rename_i he; right; exact ⟨hl, he, h⟩
    · cases h

theorem backWalk_ok (s : Store) : ∀ (i : Nat) (t : Tomb), i ≤ s.last → ∃ t', backWalk s i t = .ok t'
  | 0, t, _ => ⟨t, by simp [backWalk]⟩
  | i + 1, t, h => by
    unfold backWalk
    split
    · exact ⟨t, rfl⟩
    · rcases firstEntry_cases s (i + 1) (by omega) h with ⟨f, hf⟩ | hf
      · simp only [hf]; exact backWalk_ok s i _ (by omega)
      · simp only [hf]; exact backWalk_ok s i _ (by omega)

theorem backWalk_mono (s : Store) : ∀ (i : Nat) (t t' : Tomb), backWalk s i t = .ok t' →
    ∀ p ∈ t, p ∈ t'
  | 0, t, t', h, p, hp => by simp [backWalk] at h; subst h; exact hp
  | i + 1, t, t', h, p, hp => by
    rcases backWalk_succ h with ⟨_, rfl⟩ | ⟨_, e, _, h'⟩ | ⟨_, _, h'⟩
    · exact hp
    · exact backWalk_mono s i _ _ h' p (mem_addIfAbsent_of_mem hp)
    · exact backWalk_mono s i _ _ h' p hp

/-- soundness: every new tombstone of the backward walk is the first-entry offset of the HIGHEST
visited tx of that vlog. -/
theorem backWalk_sound (s : Store) : ∀ (i : Nat) (t t' : Tomb), backWalk s i t = .ok t' →
    ∀ p ∈ t', p ∈ t ∨ ∃ j f, 1 ≤ j ∧ j ≤ i ∧ s.firstEntry j = .ok f ∧ p = (f.vlog, f.off) ∧
      (¬ ∃ q ∈ t, q.1 = f.vlog) ∧
      ∀ j' f', j < j' → j' ≤ i → s.firstEntry j' = .ok f' → f'.vlog ≠ f.vlog
  | 0, t, t', h, p, hp => by simp [backWalk] at h; subst h; exact Or.inl hp
  | i + 1, t, t', h, p, hp => by
    rcases backWalk_succ h with ⟨_, rfl⟩ | ⟨_, e, he, h'⟩ | ⟨_, he, h'⟩
    · exact Or.inl hp
    · rcases backWalk_sound s i _ _ h' p hp with h1 | ⟨j, f, hj1, hj2, hf, hpe, hno, hhi⟩
      · rcases mem_addIfAbsent h1 with h2 | ⟨h2, h3⟩
        · exact Or.inl h2
        · right
          refine ⟨i + 1, e, by omega, Nat.le_refl _, he, h2, h3, ?_⟩
          intro j' f' a b; omega
      · right
        refine ⟨j, f, hj1, by omega, hf, hpe, ?_, ?_⟩
        · rintro ⟨q, hq, hqv⟩; exact hno ⟨q, mem_addIfAbsent_of_mem hq, hqv⟩
        · intro j' f' a b hf'
          by_cases hj' : j' = i + 1
          · subst hj'
            have hee : e = f' := Except.ok.inj (he.symm.trans hf')
            subst hee
            intro heq
            obtain ⟨q, hq, hqv⟩ := addIfAbsent_has t e.vlog e.off
            exact hno ⟨q, hq, hqv.trans heq⟩
          · exact hhi j' f' a (by omega) hf'
    · rcases backWalk_sound s i _ _ h' p hp with h1 | ⟨j, f, hj1, hj2, hf, hpe, hno, hhi⟩
      · exact Or.inl h1
      · right
        refine ⟨j, f, hj1, by omega, hf, hpe, hno, ?_⟩
        intro j' f' a b hf'
        by_cases hj' : j' = i + 1
        · subst hj'; rw [he] at hf'; cases hf'
        · exact hhi j' f' a (by omega) hf'

/-- completeness: every visited tx's vlog has a tombstone (pigeonhole for the early exit). -/
theorem backWalk_complete (s : Store)
    (hwf : ∀ i f, s.firstEntry i = .ok f → 1 ≤ f.vlog ∧ f.vlog ≤ s.maxIO) :
    ∀ (i : Nat) (t t' : Tomb), backWalk s i t = .ok t' → (t.map Prod.fst).Nodup →
      (∀ p ∈ t, 1 ≤ p.1 ∧ p.1 ≤ s.maxIO) →
      ∀ j f, 1 ≤ j → j ≤ i → s.firstEntry j = .ok f → ∃ p ∈ t', p.1 = f.vlog
  | 0, t, t', h, _, _, j, f, h1, h2, _ => by omega
  | i + 1, t, t', h, hnd, hr, j, f, h1, h2, hf => by
    rcases backWalk_succ h with ⟨hl, rfl⟩ | ⟨_, e, he, h'⟩ | ⟨_, he, h'⟩
    · have hv := hwf j f hf
      have hmem : f.vlog ∈ t'.map Prod.fst :=
        pigeon _ s.maxIO hnd
          (by intro x hx; obtain ⟨p, hp, rfl⟩ := List.mem_map.mp hx; exact hr p hp)
          (by simpa using hl) _ hv.1 hv.2
      obtain ⟨p, hp, hpv⟩ := List.mem_map.mp hmem
      exact ⟨p, hp, hpv⟩
    · by_cases hj : j = i + 1
      · subst hj
        have hee : e = f := Except.ok.inj (he.symm.trans hf)
        subst hee
        obtain ⟨q, hq, hqv⟩ := addIfAbsent_has t e.vlog e.off
        exact ⟨q, backWalk_mono s i _ _ h' q hq, hqv⟩
      · refine backWalk_complete s hwf i _ _ h' (addIfAbsent_nodup _ _ hnd) ?_ j f h1 (by omega) hf
        intro p hp
        rcases mem_addIfAbsent hp with hp | ⟨hp, _⟩
        · exact hr p hp
        · rw [hp]; exact hwf _ e he
    · by_cases hj : j = i + 1
      · subst hj; rw [he] at hf; cases hf
      · exact backWalk_complete s hwf i _ _ h' hnd hr j f h1 (by omega) hf

/-! ### the forward walk -/

theorem frontWalk_succ {s : Store} {j k : Nat} {t t' : Tomb} (h : frontWalk s j (k + 1) t = .ok t') :
    (∃ e, s.firstEntry j = .ok e ∧ frontWalk s (j + 1) k (t.lower e.vlog e.off) = .ok t') ∨
    (s.firstEntry j = .error .indexOutOfRange ∧ frontWalk s (j + 1) k t = .ok t') := by
  unfold frontWalk at h
  split at h
  · rename_i e he; exact Or.inl ⟨e, he, h⟩
  · rename_i he; exact Or.inr ⟨he, h⟩
  · cases h

theorem frontWalk_ok (s : Store) : ∀ (k j : Nat) (t : Tomb), 1 ≤ j → j + k ≤ s.last + 1 →
    ∃ t', frontWalk s j k t = .ok t'
  | 0, j, t, _, _ => ⟨t, by simp [frontWalk]⟩
  | k + 1, j, t, h1, h2 => by
    unfold frontWalk
    rcases firstEntry_cases s j h1 (by omega) with ⟨f, hf⟩ | hf
    · simp only [hf]; exact frontWalk_ok s k _ _ (by omega) (by omega)
    · simp only [hf]; exact frontWalk_ok s k _ _ (by omega) (by omega)

theorem frontWalk_keys (s : Store) : ∀ (k j : Nat) (t t' : Tomb), frontWalk s j k t = .ok t' →
    ∀ q ∈ t, ∃ q' ∈ t', q'.1 = q.1
  | 0, j, t, t', h, q, hq => by simp [frontWalk] at h; subst h; exact ⟨q, hq, rfl⟩
  | k + 1, j, t, t', h, q, hq => by
    rcases frontWalk_succ h with ⟨e, _, h'⟩ | ⟨_, h'⟩
    · obtain ⟨q1, hq1, hk1⟩ := lower_keys e.vlog e.off hq
      obtain ⟨q2, hq2, hk2⟩ := frontWalk_keys s k _ _ _ h' q1 hq1
      exact ⟨q2, hq2, hk2.trans hk1⟩
    · exact frontWalk_keys s k _ _ _ h' q hq

theorem frontWalk_witness (s : Store) : ∀ (k j : Nat) (t t' : Tomb), frontWalk s j k t = .ok t' →
    ∀ p ∈ t', p ∈ t ∨ ∃ i f, j ≤ i ∧ i < j + k ∧ s.firstEntry i = .ok f ∧ p = (f.vlog, f.off)
  | 0, j, t, t', h, p, hp => by simp [frontWalk] at h; subst h; exact Or.inl hp
  | k + 1, j, t, t', h, p, hp => by
    rcases frontWalk_succ h with ⟨e, he, h'⟩ | ⟨_, h'⟩
    · rcases frontWalk_witness s k _ _ _ h' p hp with h1 | ⟨i, f, a, b, hf, hpe⟩
      · rcases mem_lower h1 with h2 | h2
        · exact Or.inl h2
        · exact Or.inr ⟨j, e, Nat.le_refl _, by omega, he, h2⟩
      · exact Or.inr ⟨i, f, by omega, by omega, hf, hpe⟩
    · rcases frontWalk_witness s k _ _ _ h' p hp with h1 | ⟨i, f, a, b, hf, hpe⟩
      · exact Or.inl h1
      · exact Or.inr ⟨i, f, by omega, by omega, hf, hpe⟩

/-! ### tombstones -/

theorem tombstones_split {s : Store} {N : Nat} {t : Tomb} (h : tombstones s N = .ok t) :
    ∃ B, backWalk s N [] = .ok B ∧ frontWalk s N (s.last + 1 - N) B = .ok t := by
  unfold tombstones at h
  split at h
  · cases h
  · rename_i B hB; exact ⟨B, hB, h⟩

theorem tombstones_ok (s : Store) (m : Nat) (h1 : 1 ≤ m) (hm : m ≤ s.last) :
    ∃ t, tombstones s m = .ok t := by
  obtain ⟨B, hB⟩ := backWalk_ok s m [] hm
  obtain ⟨t, ht⟩ := frontWalk_ok s (s.last + 1 - m) m B h1 (by omega)
  refine ⟨t, ?_⟩
  unfold tombstones
  simp only [hB]
  exact ht

theorem tombstones_src {s : Store} {N : Nat} {t : Tomb} (h : tombstones s N = .ok t) :
    ∀ p ∈ t, ∃ j f, s.firstEntry j = .ok f ∧ p = (f.vlog, f.off) := by
  intro p hp
  obtain ⟨B, hB, hF⟩ := tombstones_split h
  rcases frontWalk_witness s _ _ _ _ hF p hp with h1 | ⟨i, f, _, _, hf, hpe⟩
  · rcases backWalk_sound s N [] B hB p h1 with h0 | ⟨j, f, _, _, hf, hpe, _, _⟩
    · simp at h0
    · exact ⟨j, f, hf, hpe⟩
  · exact ⟨i, f, hf, hpe⟩

/-- Every tombstone of the smaller cut point is dominated by a (valid) tombstone of the larger. -/
theorem tomb_rel (s : Store) (n m : Nat) (hnm : n ≤ m) (hm : m ≤ s.last)
    (hwf : ∀ i f, s.firstEntry i = .ok f →
      1 ≤ f.vlog ∧ f.vlog ≤ s.maxIO ∧ f.off ≤ (s.vlogs f.vlog).offset)
    (tn tm : Tomb) (htn : tombstones s n = .ok tn) (htm : tombstones s m = .ok tm) :
    ∀ p ∈ tn, ∃ q ∈ tm, q.1 = p.1 ∧ p.2 ≤ q.2 ∧ q.2 ≤ (s.vlogs q.1).offset := by
  intro p hp
  obtain ⟨Bn, hBn, hFn⟩ := tombstones_split htn
  obtain ⟨Bm, hBm, hFm⟩ := tombstones_split htm
  obtain ⟨hdn, hbn⟩ := frontWalk_spec s _ _ _ _ hFn
  obtain ⟨pb, hpb, hpbk, hpbv⟩ := hdn p hp
  rcases backWalk_sound s n [] Bn hBn pb hpb with h0 | ⟨jn, fn, hjn1, hjn2, hfn, hpbe, _, hhin⟩
  · simp at h0
  have hwf' : ∀ i f, s.firstEntry i = .ok f → 1 ≤ f.vlog ∧ f.vlog ≤ s.maxIO :=
    fun i f h => ⟨(hwf i f h).1, (hwf i f h).2.1⟩
  obtain ⟨qb, hqb, hqbk⟩ :=
    backWalk_complete s hwf' m [] Bm hBm (by simp) (by simp) jn fn hjn1 (by omega) hfn
  obtain ⟨q, hq, hqk⟩ := frontWalk_keys s _ _ _ _ hFm qb hqb
  have hqv : q.1 = fn.vlog := hqk.trans hqbk
  have hpb1 : pb.1 = fn.vlog := congrArg Prod.fst hpbe
  have hpb2 : pb.2 = fn.off := congrArg Prod.snd hpbe
  have hpv : p.1 = fn.vlog := hpbk.trans hpb1
  refine ⟨q, hq, hqv.trans hpv.symm, ?_⟩
  rcases frontWalk_witness s _ _ _ _ hFm q hq with hqB | ⟨i, f, hi1, hi2, hf, hqe⟩
  · rcases backWalk_sound s m [] Bm hBm q hqB with h0 | ⟨jm, fm, hjm1, hjm2, hfm, hqe, _, hhim⟩
    · simp at h0
    · have hq1 : q.1 = fm.vlog := congrArg Prod.fst hqe
      have hq2 : q.2 = fm.off := congrArg Prod.snd hqe
      have hfmv : fm.vlog = fn.vlog := hq1.symm.trans hqv
      have hoff : q.2 ≤ (s.vlogs q.1).offset := by rw [hq1, hq2]; exact (hwf jm fm hfm).2.2
      refine ⟨?_, hoff⟩
      by_cases hlt : jm < n
      · have h1 : ¬ jn < jm := fun h => hhin jm fm h (by omega) hfm hfmv
        have h2 : ¬ jm < jn := fun h => hhim jn fn h (by omega) hfn hfmv.symm
        have hjj : jm = jn := by omega
        subst hjj
        have hff : fm = fn := Except.ok.inj (hfm.symm.trans hfn)
        subst hff
        rw [hq2, ← hpb2]; exact hpbv
      · have hb := hbn jm fm (by omega) (by omega) hfm p hp (hpv.trans hfmv.symm)
        rw [hq2]; exact hb
  · have hq1 : q.1 = f.vlog := congrArg Prod.fst hqe
    have hq2 : q.2 = f.off := congrArg Prod.snd hqe
    have hfv : f.vlog = fn.vlog := hq1.symm.trans hqv
    have hoff : q.2 ≤ (s.vlogs q.1).offset := by rw [hq1, hq2]; exact (hwf i f hf).2.2
    refine ⟨?_, hoff⟩
    have hb := hbn i f (by omega) (by omega) hf p hp (hpv.trans hfv.symm)
    rw [hq2]; exact hb

/-! ### the discard loop -/

theorem fetchVLog_valid (s : Store) (v : Nat) (h1 : 1 ≤ v) (h2 : v ≤ s.maxIO) :
    s.fetchVLog v ≠ none := by
  unfold Store.fetchVLog
  split
  · split <;> simp
  · rw [if_pos ⟨h1, h2⟩]; simp

theorem okPrefix_eq (s : Store) : ∀ t : Tomb, (∀ p ∈ t, s.fetchVLog p.1 ≠ none) → okPrefix s t = t
  | [], _ => rfl
  | p :: t, h => by
    unfold okPrefix
    rw [if_neg (h p List.mem_cons_self),
      okPrefix_eq s t (fun q hq => h q (List.mem_cons_of_mem _ hq))]

theorem present_sub (s : Store) (n m : Nat) (hnm : n ≤ m) (hm : m ≤ s.last)
    (hwf : ∀ i f, s.firstEntry i = .ok f →
      1 ≤ f.vlog ∧ f.vlog ≤ s.maxIO ∧ f.off ≤ (s.vlogs f.vlog).offset)
    (tn tm : Tomb) (htn : tombstones s n = .ok tn) (htm : tombstones s m = .ok tm) (v c : Nat)
    (h : c ∈ ((discardAll s [] tm).store.vlogs v).present) :
    c ∈ ((discardAll s [] tn).store.vlogs v).present := by
  obtain ⟨_, pm⟩ := discardAll_spec tm s []
  obtain ⟨_, pn⟩ := discardAll_spec tn s []
  rw [pm v] at h
  rw [pn v]
  rw [List.mem_filter] at h ⊢
  refine ⟨h.1, ?_⟩
  have hall := h.2
  have hokm : okPrefix s tm = tm := by
    apply okPrefix_eq
    intro q hq
    obtain ⟨j, f, hf, hqe⟩ := tombstones_src htm q hq
    have hq1 : q.1 = f.vlog := congrArg Prod.fst hqe
    rw [hq1]
    exact fetchVLog_valid s _ (hwf j f hf).1 (hwf j f hf).2.1
  rw [hokm] at hall
  rw [List.all_eq_true] at hall ⊢
  intro p hp
  have hpt := okPrefix_sub s tn p hp
  obtain ⟨q, hq, hqk, hle, hoff⟩ := tomb_rel s n m hnm hm hwf tn tm htn htm p hpt
  have hq' := hall q hq
  cases hrem : removes s p v c with
  | false => rfl
  | true =>
    exfalso
    have hch := chunkOf_mono (F := s.F) hle
    have : removes s q v c = true := by
      simp only [removes, VLog.removedBy, Bool.and_eq_true, beq_iff_eq, Bool.not_eq_true',
        decide_eq_false_iff_not, decide_eq_true_eq] at hrem ⊢
      obtain ⟨⟨⟨a1, a2⟩, a3⟩, a4, a5⟩ := hrem
      have hqv : q.1 = v := hqk.trans a1
      refine ⟨⟨⟨hqv, ?_⟩, ?_⟩, ?_, a5⟩
      · rw [hqk]; exact a2
      · rw [hqv] at hoff; omega
      · omega
    rw [this] at hq'
    simp at hq'

/-! ### readability -/

theorem readable_mono (s1 s2 : Store) (e : Ent) (hF : s2.F = s1.F)
    (hsub : ∀ c, c ∈ (s1.vlogs e.vlog).present → c ∈ (s2.vlogs e.vlog).present)
    (hr : s1.readable e) : s2.readable e := by
  unfold Store.readable Store.readValue at hr ⊢
  rw [hF]
  by_cases h0 : e.len = 0
  · simp [h0]
  · simp only [h0, if_false] at hr ⊢
    by_cases hv : e.vlog = 0
    · simp [hv] at hr
    · simp only [hv, if_false] at hr ⊢
      split at hr
      · rename_i hall
        rw [if_pos]
        rw [List.all_eq_true] at hall ⊢
        intro c hc
        have hpres := hall c hc
        simp only [List.contains_iff_mem] at hpres ⊢
        exact hsub c hpres
      · cases hr

theorem readable_of_discardAll (s : Store) (es : List Err) (t : Tomb) (e : Ent)
    (hr : (discardAll s es t).store.readable e) : s.readable e := by
  obtain ⟨hs, hp⟩ := discardAll_spec t s es
  refine readable_mono _ _ e hs.F.symm ?_ hr
  intro c hc
  rw [hp] at hc
  exact (List.mem_filter.mp hc).1

theorem truncateUpto_cases (s : Store) (n : Nat) :
    (truncateUpto s n).store = s ∨
    (s.embedded = false ∧ ∃ t, tombstones s n = .ok t ∧
      (truncateUpto s n).store = (discardAll s [] t).store) := by
  unfold truncateUpto
  split
  · exact Or.inl rfl
  · rename_i hemb
    split
    · exact Or.inl rfl
    · rename_i t ht
      exact Or.inr ⟨by simpa using hemb, t, ht, rfl⟩

theorem truncate_monotone_aux (s : Store) (n m : Nat) (e : Ent) (hnm : n ≤ m) (hm : m ≤ s.last)
    (hwf : ∀ i f, s.firstEntry i = .ok f → 1 ≤ f.vlog ∧ f.vlog ≤ s.maxIO ∧ f.off ≤ (s.vlogs f.vlog).offset)
    (hr : (truncateUpto s m).store.readable e) : (truncateUpto s n).store.readable e := by
  have hs : s.readable e := by
    rcases truncateUpto_cases s m with h | ⟨_, t, _, h⟩
    · rw [h] at hr; exact hr
    · rw [h] at hr; exact readable_of_discardAll s [] t e hr
  rcases truncateUpto_cases s n with h | ⟨hemb, tn, htn, h⟩
  · rw [h]; exact hs
  · by_cases hm0 : m = 0
    · have : n = m := by omega
      subst this; exact hr
    · obtain ⟨tm, htm⟩ := tombstones_ok s m (by omega) hm
      have h' : (truncateUpto s m).store = (discardAll s [] tm).store := by
        unfold truncateUpto
        simp [hemb, htm]
      rw [h]; rw [h'] at hr
      obtain ⟨sm, _⟩ := discardAll_spec tm s []
      obtain ⟨sn, _⟩ := discardAll_spec tn s []
      exact readable_mono _ _ e (sn.F.trans sm.F.symm)
        (fun c hc => present_sub s n m hnm hm hwf tn tm htn htm e.vlog c hc) hr
end ImmuModel.Store.TruncateMonoAux
