/-
C14, database level — helper lemmas for the theorems about `Store/TruncateDb.lean` (Props/C14.lean).
-/
import ImmuModel.Store.TruncateDb
import ImmuModel.Store.Proofs.TruncateProofs
import ImmuModel.Store.Proofs.TruncateRunProofs

namespace ImmuModel.Store.TruncateDbAux
open ImmuModel.Store.Truncate ImmuModel.Store.TruncateAux ImmuModel.Store.TruncateRunAux
open ImmuModel.Store.TruncateDb

/-! ### where freshly appended values lie -/

theorem foldl_add (l : List Nat) : ∀ acc, l.foldl (· + ·) acc = acc + l.foldl (· + ·) 0 := by
  induction l with
  | nil => intro acc; simp
  | cons x xs ih =>
    intro acc
    simp only [List.foldl_cons]
    rw [ih (acc + x), ih (0 + x)]
    omega

theorem appendValues_upper {v : Nat} : ∀ {lens : List Nat} {o : Nat} {e : Ent},
    e ∈ appendValues v o lens → 0 < e.len → e.off + e.len ≤ o + lens.foldl (· + ·) 0 := by
  intro lens
  induction lens with
  | nil => intro o e h; simp [appendValues] at h
  | cons l ls ih =>
    intro o e h hl
    simp only [List.foldl_cons]
    rw [foldl_add ls (0 + l)]
    unfold appendValues at h
    split at h
    · rename_i hz
      rcases List.mem_cons.mp h with h | h
      · subst h; simp at hl
      · have := ih h hl; omega
    · rcases List.mem_cons.mp h with h | h
      · subst h; simp <;> omega
      · have := ih h hl; omega

theorem natmax_eq (a b : Nat) : Nat.max a b = max a b := rfl

theorem mem_chunksOf_upper {F : Nat} {e : Ent} {c : Nat} (h : c ∈ chunksOf F e) (hl : 0 < e.len) :
    c ≤ chunkOf F (e.off + e.len - 1) := by
  unfold chunksOf at h
  have h2 := (List.mem_range'_1.mp h).2
  have hm : chunkOf F e.off ≤ chunkOf F (e.off + e.len - 1) := chunkOf_mono (by omega)
  omega

/-- The values a transaction has just appended to a well-formed value log can be read. -/
theorem appendInto_fresh (s : Store) (v : Nat) (lens : List Nat) (hv : v ≠ 0)
    (hwf : VLogWF s.F (s.vlogs v)) (e : Ent) (he : e ∈ (s.appendInto v lens).2) :
    (s.appendInto v lens).1.readable e := by
  have hm := appendValues_mem (v := v) (lens := lens) (o := (s.vlogs v).offset) (e := e) he
  obtain ⟨hev, hlo, _⟩ := hm
  unfold Store.readable Store.readValue
  by_cases h0 : e.len = 0
  · simp [h0]
  · have hpos : 0 < e.len := Nat.pos_of_ne_zero h0
    have hup := appendValues_upper (v := v) (lens := lens) (o := (s.vlogs v).offset) (e := e) he hpos
    have hlo' := hlo hpos
    have hv0 : ¬ e.vlog = 0 := by rw [hev]; exact hv
    simp only [h0, hv0, if_false]
    rw [if_pos]
    rw [List.all_eq_true]
    intro c hc
    have hF : (s.appendInto v lens).1.F = s.F := rfl
    rw [hF] at hc
    have hc1 := mem_chunksOf hc
    have hc2 := mem_chunksOf_upper hc hpos
    obtain ⟨hcur, hle⟩ := hwf
    have hA : (s.vlogs v).cur ≤ c :=
      Nat.le_trans hle (Nat.le_trans (chunkOf_mono hlo') hc1)
    have hB : c ≤ chunkOf s.F ((s.vlogs v).offset + lens.foldl (· + ·) 0 - 1) :=
      Nat.le_trans hc2 (chunkOf_mono (by omega))
    have htot : ¬ lens.foldl (· + ·) 0 = 0 := by omega
    simp only [List.contains_iff_mem]
    rw [hev]
    simp only [Store.appendInto, Store.setVLog, htot, if_false, if_true, natmax_eq]
    rw [List.mem_append]
    by_cases hcc : c = (s.vlogs v).cur
    · left; rw [hcc]; exact hcur
    · right
      rw [List.mem_range'_1]
      omega

theorem appendInto_wf (s : Store) (v : Nat) (lens : List Nat) (h : StoreWF s) :
    StoreWF (s.appendInto v lens).1 := by
  intro w
  have hF : (s.appendInto v lens).1.F = s.F := rfl
  rw [hF]
  by_cases hw : w = v
  · subst hw
    obtain ⟨hcur, hle⟩ := h w
    unfold VLogWF
    simp only [Store.appendInto, Store.setVLog, if_true, natmax_eq]
    by_cases htot : lens.foldl (· + ·) 0 = 0
    · simp only [htot, if_true, Nat.add_zero]
      exact ⟨List.mem_append_left _ hcur, hle⟩
    · simp only [htot, if_false]
      have h1 : chunkOf s.F (s.vlogs w).offset ≤ chunkOf s.F ((s.vlogs w).offset + lens.foldl (· + ·) 0) :=
        chunkOf_mono (by omega)
      have h2 : chunkOf s.F ((s.vlogs w).offset + lens.foldl (· + ·) 0 - 1) ≤
          chunkOf s.F ((s.vlogs w).offset + lens.foldl (· + ·) 0) := chunkOf_mono (by omega)
      refine ⟨?_, by omega⟩
      rw [List.mem_append, List.mem_range'_1]
      by_cases heq : max (s.vlogs w).cur (chunkOf s.F ((s.vlogs w).offset + lens.foldl (· + ·) 0 - 1)) = (s.vlogs w).cur
      · left; rw [heq]; exact hcur
      · right; omega
  · have : (s.appendInto v lens).1.vlogs w = s.vlogs w := by
      simp [Store.appendInto, Store.setVLog, hw]
    rw [this]; exact h w

theorem commitTx_wf (s : Store) (tx : TxEnts) (h : StoreWF s) : StoreWF (s.commitTx tx) := h

theorem commitTx_readable (s : Store) (tx : TxEnts) (e : Ent) (h : s.readable e) : (s.commitTx tx).readable e := h

/-- The store truncation keeps the geometry invariant: `cur`, `offset`, `F` are untouched and the active chunk stays. -/
theorem truncate_wf (s : Store) (n : Nat) (h : StoreWF s) : StoreWF (truncateUpto s n).store := by
  unfold truncateUpto
  split
  · exact h
  · split
    · exact h
    · rename_i t _
      obtain ⟨hs, hp⟩ := discardAll_spec t s []
      intro v
      obtain ⟨hcur, hle⟩ := h v
      unfold VLogWF
      rw [hs.F, hs.cur v, hs.offset v, hp v]
      refine ⟨List.mem_filter.mpr ⟨hcur, ?_⟩, hle⟩
      rw [List.all_eq_true]
      intro p _
      simp [removes, VLog.removedBy]

theorem pickVLog_ne_zero (s : Store) (k : Nat) : pickVLog s k ≠ 0 := by unfold pickVLog; omega

theorem tombstones_beyond (s : Store) (n : Nat) (h : s.last < n) :
    tombstones s n = .ok [] ∨ ∃ e, tombstones s n = .error e := by
  unfold tombstones
  cases n with
  | zero => omega
  | succ i =>
    unfold backWalk
    by_cases hm : ([] : Tomb).length = s.maxIO
    · left
      have h0 : s.last + 1 - (i + 1) = 0 := by omega
      simp only [hm, if_true, h0]
      rfl
    · right
      have hfe : s.firstEntry (i + 1) = .error .txNotFound := by
        unfold Store.firstEntry
        simp [h]
      simp only [hm, if_false, hfe]
      exact ⟨_, rfl⟩

/-- A truncation beyond the last committed tx touches nothing. -/
theorem truncate_beyond (s : Store) (n : Nat) (h : s.last < n) : (truncateUpto s n).store = s := by
  unfold truncateUpto
  split
  · rfl
  · rcases tombstones_beyond s n h with ht | ⟨e, ht⟩
    · rw [ht]; rfl
    · rw [ht]

/-! ### commitValues -/

theorem commitValues_wf (s : Store) (k : Nat) (lens : List Nat) (h : StoreWF s) :
    StoreWF (commitValues s k lens).1 := by
  unfold commitValues
  exact commitTx_wf _ _ (appendInto_wf s _ lens h)

theorem commitValues_keeps (s : Store) (k : Nat) (lens : List Nat) (e : Ent) (h : s.readable e) :
    (commitValues s k lens).1.readable e := by
  unfold commitValues
  exact commitTx_readable _ _ _
    (readable_of_superset s _ e (appendInto_F _ _ _) (fun c hc => appendInto_present _ _ _ _ _ hc) h)

theorem commitValues_fresh (s : Store) (k : Nat) (lens : List Nat) (h : StoreWF s) (e : Ent)
    (he : e ∈ (commitValues s k lens).2) : (commitValues s k lens).1.readable e := by
  unfold commitValues at he ⊢
  exact commitTx_readable _ _ _ (appendInto_fresh s _ lens (pickVLog_ne_zero s k) (h _) e he)

theorem commitValues_last (s : Store) (k : Nat) (lens : List Nat) :
    (commitValues s k lens).1.last = s.last + 1 ∧
    (commitValues s k lens).1.txs[s.last]? = some (commitValues s k lens).2 := by
  unfold commitValues Store.last Store.commitTx
  simp [appendInto_txs]

theorem commitValues_placed (s : Store) (k : Nat) (lens : List Nat) : Placed (commitValues s k lens).2 := by
  unfold commitValues
  exact appendInto_placed _ _ _

/-! ### one database-level truncation -/

/-- The invariant of the database-level runs. -/
def Inv (d : Db) : Prop := StoreWF d.store ∧ CatalogReadable d

/-- Readability of one entry through a store truncation that comes right after the copy committed as tx `last+1`:
either the cut addresses a committed tx (then `truncate_safe`'s argument, tx `last+1 ≥ n`) or it lies beyond the log. -/
theorem truncate_after_commit (s : Store) (k : Nat) (lens : List Nat) (n : Nat) (hwf : StoreWF s) (e : Ent)
    (he : e ∈ (commitValues s k lens).2) :
    (truncateUpto (commitValues s k lens).1 n).store.readable e := by
  obtain ⟨hlast, htx⟩ := commitValues_last s k lens
  have hfresh := commitValues_fresh s k lens hwf e he
  by_cases hn : n ≤ s.last + 1
  · exact truncate_keeps_readable (commitValues s k lens).1 n (s.last + 1) (commitValues s k lens).2 e
      (by omega) hn (by simpa using htx) (commitValues_placed s k lens) he hfresh
  · rw [truncate_beyond _ n (by omega)]
    exact hfresh

theorem dbTruncate_inv (d : Db) (c : Copy) (n : Nat) (h : Inv d) : Inv (dbTruncate d c n).1 := by
  obtain ⟨hwf, hcat⟩ := h
  cases c with
  | fail => exact ⟨hwf, hcat⟩
  | failStaged k =>
    refine ⟨appendInto_wf _ _ _ hwf, fun e he => ?_⟩
    exact readable_of_superset d.store _ e (appendInto_F _ _ _)
      (fun c hc => appendInto_present _ _ _ _ _ hc) (hcat e he)
  | ok k =>
    refine ⟨?_, fun e he => ?_⟩
    · exact truncate_wf _ n (commitValues_wf _ _ _ hwf)
    · exact truncate_after_commit d.store k _ n hwf e he

theorem step_inv (d : Db) (op : Op) (h : Inv d) : Inv (step d op) := by
  cases op with
  | write k lens =>
    exact ⟨commitValues_wf _ _ _ h.1, fun e he => commitValues_keeps _ _ _ e (h.2 e he)⟩
  | ddl k lens keep =>
    refine ⟨commitValues_wf _ _ _ h.1, fun e he => ?_⟩
    simp only [step, List.mem_append] at he
    rcases he with he | he
    · exact commitValues_keeps _ _ _ e (h.2 e (List.mem_filter.mp he).1)
    · exact commitValues_fresh _ _ _ h.1 e he
  | truncate c n => exact dbTruncate_inv d c n h
  | reopen => exact h

theorem run_inv (ops : List Op) : ∀ (d : Db), Inv d → Inv (run d ops) := by
  induction ops with
  | nil => intro d h; exact h
  | cons op ops ih => intro d h; exact ih (step d op) (step_inv d op h)

end ImmuModel.Store.TruncateDbAux
