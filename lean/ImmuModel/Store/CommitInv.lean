/-
C02 — the invariants of the commit state machine (definitions only; proofs in
Store/CommitLog.lean and Store/CommitBl.lean, property theorems in Props/C02.lean).
-/
import ImmuModel.Store.Commit

namespace ImmuModel.Store.Commit
open ImmuModel ImmuModel.Tx ImmuModel.Merkle ImmuModel.Store

variable {D : Type}

/-- The entry `e` (commit log / cLogBuf) locates, in the tx log `log`, the record of the tx with
index `i` (id `i+1`) whose predecessor has accumulated hash `prev`; the entry's copy of the
accumulated hash is the one computed from the stored header. -/
def RecAt (hs : Hs D) (log : List (Rec D)) (i : Nat) (prev : D) (e : Ent D) : Prop :=
  ∃ r, log[e.off]? = some r ∧ r.hdr.id = i + 1 ∧ e.txID = i + 1 ∧ r.hdr.prevAlh = prev ∧
    alh hs r.hdr = some e.alh ∧ r.alh = e.alh

/-- `Chain hs log hi i prev lo es`: the entries `es` locate the txs `i+1, i+2, …` chained by
`PrevAlh` starting from `prev`, at strictly increasing tx-log offsets within `[lo, hi)`. -/
def Chain (hs : Hs D) (log : List (Rec D)) (hi : Nat) : Nat → D → Nat → List (Ent D) → Prop
  | _, _, _, [] => True
  | i, prev, lo, e :: rest =>
    RecAt hs log i prev e ∧ lo ≤ e.off ∧ e.off < hi ∧ Chain hs log hi (i + 1) e.alh (e.off + 1) rest

def lastAlh (d : D) (es : List (Ent D)) : D :=
  match es.getLast? with
  | some e => e.alh
  | none => d

def endOff (lo : Nat) (es : List (Ent D)) : Nat :=
  match es.getLast? with
  | some e => e.off + 1
  | none => lo

/-- The part of the invariant that makes the committed history append-only and immutable:
extents, ids, the `PrevAlh` chain, the reported state. -/
structure InvLog (hs : Hs D) (s : St D) : Prop where
  /-- `precommittedTxLogSize` never exceeds what is physically in the tx log -/
  logEnd_le : s.logEnd ≤ s.log.length
  /-- `committedTxID` never exceeds the number of physical commit-log entries -/
  com_le : s.committed ≤ s.clog.length
  /-- every physical record carries the hash computed from its header -/
  wf : ∀ r ∈ s.log, alh hs r.hdr = some r.alh
  /-- the whole physical commit log (incl. entries left behind by a failed commit) is a chain
  of records lying below `precommittedTxLogSize` -/
  clogChain : Chain hs s.log s.logEnd 0 (hs.H []) 0 s.clog
  /-- cLogBuf continues the committed part, again below `precommittedTxLogSize` -/
  bufChain : Chain hs s.log s.logEnd s.committed s.comAlh (endOff 0 (s.clog.take s.committed)) s.buf
  /-- the reported state is the accumulated hash of the last committed tx -/
  comAlh_eq : s.comAlh = lastAlh (hs.H []) (s.clog.take s.committed)
  preID_eq : s.preID = s.committed + s.buf.length
  preAlh_eq : s.preAlh = lastAlh s.comAlh s.buf
  allowed_ge : s.useExt = true → s.committed ≤ s.allowed

/-- Binary linking of the records located by a chain of entries `es`: `BlTxID` is below the
tx's own index and `BlRoot` is the reference Merkle root over the first `BlTxID` accumulated
hashes OF THAT CHAIN. -/
def BlOK (hs : Hs D) (log : List (Rec D)) (es : List (Ent D)) : Prop :=
  ∀ (i : Nat) (e : Ent D) (r : Rec D), es[i]? = some e → log[e.off]? = some r →
    r.hdr.blTxID ≤ i ∧
    (0 < r.hdr.blTxID → r.hdr.blRoot = mth hs.mh (treeLeaves hs ((es.map (·.alh)).take r.hdr.blTxID)))

/-- `t` is the tree obtained by appending exactly these accumulated hashes to the empty tree
(so, by C08's `aht_rootAt_eq_mth`, every `RootAt n` is the reference root over the first `n`). -/
def AhtOf (hs : Hs D) (alhs : List D) (t : AHT D) : Prop :=
  AHT.appendAll hs.mh AHT.empty (alhs.map hs.enc) = some t

/-- The physical tree files extend the in-memory tree. -/
def AhtExt (cur phys : AHT D) : Prop :=
  cur.payloads <+: phys.payloads ∧ cur.groups <+: phys.groups

/-- The binary-linking part of the invariant. -/
structure InvBl (hs : Hs D) (s : St D) : Prop where
  clogBl : BlOK hs s.log s.clog
  liveBl : BlOK hs s.log (liveEnts s)
  /-- the tree holds the accumulated hashes of the live txs (plus, after a failed
  `cLogBuf.put`, one leaf more) -/
  ahtLive : ∃ extra, AhtOf hs (liveAlhs s ++ extra) s.aht
  /-- with nothing buffered the tree files extend the in-memory tree (`ResetSize` syncs
  before it shrinks the in-memory sizes only) -/
  ahtDur : s.ahtBuf = 0 → AhtExt s.aht s.ahtP
  /-- `Close` ends with a tree sync -/
  ahtClosed : s.closed = true → s.ahtBuf = 0
  /-- the tree files hold one digest group per payload -/
  ahtPLen : s.ahtP.groups.length = s.ahtP.payloads.length

def Inv (hs : Hs D) (s : St D) : Prop := InvLog hs s ∧ InvBl hs s

/-- Headers of the live records. -/
def liveHdrs (s : St D) : List (TxHeader D) :=
  (liveRecs s).filterMap (fun o => o.map (·.hdr))

/-- "Nothing pending": every physical record and every physical commit-log entry is committed. -/
def Quiescent (s : St D) : Prop :=
  s.buf = [] ∧ s.clog.length = s.committed ∧ s.log.length = endOff 0 s.clog

end ImmuModel.Store.Commit
