/-
C02 — what `performPrecommit` stores for `BlTxID = 0` (after the repair that added its `else`
branch): the zero `BlRoot`, whatever the pooled tx holder held before.  Before the repair the field
was left as found and the stored `BlRoot` was an INPUT of the model ops (`OwnReq.stale`/`RepReq.stale`).
-/
import ImmuModel.Store.CommitLog

namespace ImmuModel.Store.Commit
open ImmuModel ImmuModel.Tx ImmuModel.Merkle

variable {D : Type}

namespace CommitBlZeroAux

theorem commitUpTo_log (s : St D) : (commitUpTo s).1.log = s.log := by
  unfold commitUpTo
  simp only []
  repeat' split
  all_goals rfl

end CommitBlZeroAux

theorem blRootFor_zero (z : D) (s : St D) : blRootFor z s 0 = .ok z := by
  simp [blRootFor]

/-- `performPrecommit` with `blTxID = 0`: the record written at `precommittedTxLogSize` carries the
zero `BlRoot` (the `else` branch added by the repair), whatever the pooled holder held before. -/
theorem performPrecommit_blTxID_zero {hs : Hs D} (z : D) {s : St D} (tx : TxIn D) (ts id : Nat) (a : D)
    (h : InvLog hs s) (hok : (performPrecommit hs z s tx ts 0).2 = Out.okTx id a) :
    ∃ r, (performPrecommit hs z s tx ts 0).1.log[s.logEnd]? = some r ∧
      r.hdr.id = id ∧ r.alh = a ∧ r.hdr.blTxID = 0 ∧ r.hdr.blRoot = z := by
  revert hok
  unfold performPrecommit
  simp only [blRootFor_zero]
  split
  · intro hok; cases hok
  split
  · intro hok; cases hok
  split
  · intro hok; cases hok
  rename_i a' ha
  split
  · intro hok; cases hok
  rename_i sR hR
  split
  · intro hok; cases hok
  rename_i s2 hR2
  have F := (ahtReset_frame hR).trans (ahtAppend_frame hR2)
  have hrec : ∃ r, s2.log[s.logEnd]? = some r ∧ r.hdr.id = s.preID + 1 ∧ r.alh = a' ∧
      r.hdr.blTxID = 0 ∧ r.hdr.blRoot = z :=
    ⟨_, by rw [F.log]; exact writeRec_get_self _ _ _ h.logEnd_le, rfl, rfl, rfl, rfl⟩
  obtain ⟨r, hr, hid, halh, hbl, hroot⟩ := hrec
  split
  · intro hok; cases hok
  split
  · intro hok
    injection hok with e1 e2
    exact ⟨r, hr, hid.trans e1, halh.trans e2, hbl, hroot⟩
  split
  · rename_i heq
    intro hok
    injection hok with e1 e2
    have hl := congrArg (fun p => p.1.log) heq
    simp only [CommitBlZeroAux.commitUpTo_log] at hl
    refine ⟨r, ?_, hid.trans e1, halh.trans e2, hbl, hroot⟩
    rw [← hl]; exact hr
  · intro hok; cases hok


/-- An own commit into a store whose binary-linking tree is empty (tx 1, or the first tx after the
whole pre-committed history was discarded): `BlTxID = 0` and the zero `BlRoot` are stored. -/
theorem precommitOwn_blTxID_zero {hs : Hs D} (z : D) {s : St D} (q : OwnReq D) (id : Nat) (a : D)
    (h : InvLog hs s) (h0 : s.aht.size = 0) (hok : (precommitOwn hs z s q).2 = Out.okTx id a) :
    ∃ r, (precommitOwn hs z s q).1.log[s.logEnd]? = some r ∧
      r.hdr.id = id ∧ r.alh = a ∧ r.hdr.blTxID = 0 ∧ r.hdr.blRoot = z := by
  revert hok
  unfold precommitOwn
  rw [h0]
  repeat' first
    | exact fun hok => performPrecommit_blTxID_zero z _ _ id a h hok
    | (intro hok; cases hok; done)
    | split

namespace CommitBlZeroAux

/-- An accepted replicated precommit went through every check and ended in `performPrecommit`. -/
theorem precommitRep_ok [DecidableEq D] {hs : Hs D} (z : D) {s : St D} (q : RepReq D) (id : Nat) (a : D)
    (hok : (precommitRep hs z s q).2 = Out.okTx id a) :
    ∃ eh, blRootFor z s q.hdr.blTxID = .ok q.hdr.blRoot ∧
      precommitRep hs z s q =
        performPrecommit hs z s ⟨q.hdr.version, q.hdr.md, q.entries, eh⟩ q.hdr.ts q.hdr.blTxID := by
  generalize hres : precommitRep hs z s q = res at hok ⊢
  unfold precommitRep at hres
  by_cases c1 : q.hdr.id < 1
  · rw [if_pos c1] at hres; subst hres; cases hok
  rw [if_neg c1] at hres
  by_cases c2 : q.hdr.version ≠ 0 ∧ q.hdr.version ≠ 1
  · rw [if_pos c2] at hres; subst hres; cases hok
  rw [if_neg c2] at hres
  by_cases c3 : q.hdr.nentries < 1
  · rw [if_pos c3] at hres; subst hres; cases hok
  rw [if_neg c3] at hres
  by_cases c4 : q.hdr.id ≤ q.hdr.blTxID
  · rw [if_pos c4] at hres; subst hres; cases hok
  rw [if_neg c4] at hres
  by_cases c5 : q.entries.length ≠ q.hdr.nentries
  · rw [if_pos c5] at hres; subst hres; cases hok
  rw [if_neg c5] at hres
  by_cases c6 : q.entries.isEmpty = true ∧ q.hdr.md = []
  · rw [if_pos c6] at hres; subst hres; cases hok
  rw [if_neg c6] at hres
  by_cases c7 : s.cfg.maxTxEntries < q.entries.length
  · rw [if_pos c7] at hres; subst hres; cases hok
  rw [if_neg c7] at hres
  cases he : ehOf hs q.hdr.version q.entries with
  | error e => rw [he] at hres; subst hres; cases hok
  | ok eh =>
  rw [he] at hres
  dsimp only at hres
  by_cases c8 : q.skip = false ∧ eh ≠ q.hdr.eh
  · rw [if_pos c8] at hres; subst hres; cases hok
  rw [if_neg c8] at hres
  by_cases c9 : q.hdr.id ≤ s.preID
  · rw [if_pos c9] at hres; subst hres; cases hok
  rw [if_neg c9] at hres
  by_cases c10 : s.preID + s.cfg.maxActive < q.hdr.id
  · rw [if_pos c10] at hres; subst hres; cases hok
  rw [if_neg c10] at hres
  by_cases c11 : s.closed = true
  · rw [if_pos c11] at hres; subst hres; cases hok
  rw [if_neg c11] at hres
  by_cases c12 : s.hubPre < q.hdr.id - 1
  · rw [if_pos c12] at hres; subst hres; cases hok
  rw [if_neg c12] at hres
  cases hr : blRootFor z s q.hdr.blTxID with
  | error e => rw [hr] at hres; subst hres; cases hok
  | ok r =>
  rw [hr] at hres
  dsimp only at hres
  by_cases c13 : r ≠ q.hdr.blRoot
  · rw [if_pos c13] at hres; subst hres; cases hok
  rw [if_neg c13] at hres
  by_cases c14 : q.hdr.id - 1 < s.preID
  · rw [if_pos c14] at hres; subst hres; cases hok
  rw [if_neg c14] at hres
  by_cases c15 : s.preID < q.hdr.id - 1
  · rw [if_pos c15] at hres; subst hres; cases hok
  rw [if_neg c15] at hres
  by_cases c16 : s.preAlh ≠ q.hdr.prevAlh
  · rw [if_pos c16] at hres; subst hres; cases hok
  rw [if_neg c16] at hres
  have e : r = q.hdr.blRoot := Classical.not_not.mp c13
  exact ⟨eh, by rw [e], hres.symm⟩

end CommitBlZeroAux

/-- A replicated header with `BlTxID = 0` that is accepted is stored with the zero `BlRoot` — the
one the header was checked against. -/
theorem precommitRep_blTxID_zero [DecidableEq D] {hs : Hs D} (z : D) {s : St D} (q : RepReq D) (id : Nat) (a : D)
    (h : InvLog hs s) (h0 : q.hdr.blTxID = 0) (hok : (precommitRep hs z s q).2 = Out.okTx id a) :
    ∃ r, (precommitRep hs z s q).1.log[s.logEnd]? = some r ∧
      r.hdr.id = id ∧ r.alh = a ∧ r.hdr.blTxID = 0 ∧ r.hdr.blRoot = z ∧ r.hdr.blRoot = q.hdr.blRoot := by
  obtain ⟨eh, hbl, he⟩ := CommitBlZeroAux.precommitRep_ok z q id a hok
  rw [h0, blRootFor_zero] at hbl
  rw [he, h0] at hok ⊢
  obtain ⟨r, h1, h2, h3, h4, h5⟩ := performPrecommit_blTxID_zero z _ _ id a h hok
  injection hbl with hbl
  exact ⟨r, h1, h2, h3, h4, h5, h5.trans hbl⟩

end ImmuModel.Store.Commit
