/-
C07 — the replica store together with its DISK: which records of the tx log have been fsynced, what a
power loss leaves, and the watermark wait.

`Store/Replica.lean` keeps the watermark `durable` (`durablePrecommitWHub.doneUpto`: the value behind
`PrecommittedAlh()` — what a replica reports to its primary —, behind the return of `ReplicateTx` and
behind `WaitForTx(id, allowPrecommitted)`), raises it in `sync` and recedes it in `discardSince`.
It does not say what is on the disk.  `DSt` adds that, as ghost state next to the unchanged `RSt`:

  `fs`   the number of leading records of `st.log` (the physical tx-log records after the last
         committed one, live AND discarded) that have been fsynced.  The tx log is fsynced only by
         `sync()` (`txLog.Flush(); txLog.Sync()`, after the value logs) — a store with the default
         write-buffer / file sizes never fsyncs implicitly —, so the fsynced records are always a
         prefix; `Close()` flushes and does NOT fsync (`appendable.Close`).
  `gfs`  whether the record left behind by a precommit that failed in `cLogBuf.put` (`st.ghost`) has
         been fsynced.

`crash` = power loss + `Open`: only fsynced records are still in the tx log; committed transactions
stay (a Synced store appends to the commit log only after the tx-log fsync, and fsyncs it before
`committedTxID` moves).  The model is that of a `Synced` store; for `synced = false` nothing is ever
fsynced here, which is what that option means.  Core Lean only.
-/
import ImmuModel.Store.ReplicaSpec

namespace ImmuModel.Replica
open ImmuModel ImmuModel.Tx ImmuModel.Merkle ImmuModel.GoInt

variable {D : Type}

/-- `durablePrecommitWHub.WaitFor(ctx, id)` — the wait inside `ReplicateTx` and `WaitForTx(id,
allowPrecommitted = true)` — returns at once iff the watermark has reached `id`. -/
def RSt.durableReached (st : RSt D) (id : Nat) : Bool := decide (id ≤ st.durable)

structure DSt (D : Type) where
  st : RSt D
  fs : Nat := 0
  gfs : Bool := false

/-- Number of leading records of `log ++ ghost` that are fsynced. -/
def DSt.fsAll (d : DSt D) : Nat :=
  d.fs + (if d.gfs ∧ d.fs = d.st.log.length ∧ d.st.ghost.isSome then 1 else 0)

/-- The fsynced LIVE records (precommitted and not discarded), in log order. -/
def DSt.fsyncedLive (d : DSt D) : List (RRec D) := ((d.st.log.take d.fs).filter (·.2)).map (·.1)

def DSt.init (cfg : RCfg) : DSt D := { st := RSt.init cfg }

/-- `ReplicateTx`: the record goes into the write buffer of the tx log; nothing is fsynced.  (For a
store that is not Synced `replicate` also commits: records leave the front of `log`.) -/
def DSt.replicate (hs : Hs D) (d : DSt D) (b : Bytes) (skip : Bool) : DSt D :=
  let s := Replica.replicate hs d.st b skip
  match s.out with
  | .ok _ => { st := s.st, fs := d.fs - (d.st.log.length + 1 - s.st.log.length), gfs := false }
  | .error .bufferFull => { st := s.st, fs := d.fs, gfs := false }
  | .error _ => { d with st := s.st }

/-- `sync()`: returns at once when nothing is precommitted beyond the committed state ("everything
already synced" — discarded records and a ghost record are then NOT flushed); otherwise value logs
and tx log are flushed and fsynced — every record written so far —, the watermark is raised, the
allowed transactions are committed. -/
def DSt.sync (d : DSt D) : DSt D :=
  if d.st.lastPre = d.st.committed.length then d
  else
    let s := Replica.sync d.st
    { st := s.st, fs := s.st.log.length, gfs := true }

def DSt.discard (d : DSt D) (txID : Nat) : DSt D := { d with st := (discardSince d.st txID).st }

def DSt.allow (d : DSt D) (txID : Nat) : DSt D :=
  let s := allowCommitUpto d.st txID
  { d with st := s.st, fs := d.fs - (d.st.log.length - s.st.log.length) }

/-- `Close()` + `Open()`: everything written is flushed to the OS (no fsync) and read back; `Open`
marks every record it re-loads as durable (`durablePrecommitWHub.DoneUpto(precommittedTxID)`). -/
def DSt.restart (hs : Hs D) (d : DSt D) : DSt D :=
  let st' := Replica.restart hs d.st
  { st := st', fs := if d.fsAll < st'.log.length then d.fsAll else st'.log.length, gfs := false }

/-- Power loss + `Open()`: the tx log holds the fsynced records only. -/
def DSt.crash (hs : Hs D) (d : DSt D) : DSt D :=
  let s0 : RSt D := d.st
  let g : Option (RRec D) := if d.gfs ∧ d.fs = d.st.log.length then d.st.ghost else none
  let st' := Replica.restart hs { s0 with log := s0.log.take d.fs, ghost := g }
  { st := st', fs := st'.log.length, gfs := false }

inductive DOp
  | deliver (b : Bytes) (skip : Bool)
  | sync
  | discard (txID : Nat)
  | allow (txID : Nat)
  | restart
  | crash
  deriving DecidableEq

def DSt.apply (hs : Hs D) (d : DSt D) : DOp → DSt D
  | .deliver b skip => d.replicate hs b skip
  | .sync => d.sync
  | .discard txID => d.discard txID
  | .allow txID => d.allow txID
  | .restart => d.restart hs
  | .crash => d.crash hs

def DSt.run (hs : Hs D) (d : DSt D) : List DOp → DSt D
  | [] => d
  | op :: ops => (d.apply hs op).run hs ops

/-- **What the watermark may cover.** The acknowledged prefix of the chain — its first `durable`
records: what `PrecommittedAlh()` reports, what `ReplicateTx` has returned for, what `WaitForTx`
lets pass — lies between the committed and the in-memory precommitted state and consists of
committed records and FSYNCED live records of the tx log, in order. -/
structure AckOnDisk (d : DSt D) : Prop where
  fs_le : d.fs ≤ d.st.log.length
  committed_le : d.st.committed.length ≤ d.st.durable
  le_pre : d.st.durable ≤ d.st.lastPre
  covered : d.st.durable - d.st.committed.length ≤ d.fsyncedLive.length
  prefix_eq : d.st.chain.take d.st.durable = d.st.committed ++ d.fsyncedLive.take (d.st.durable - d.st.committed.length)

end ImmuModel.Replica
