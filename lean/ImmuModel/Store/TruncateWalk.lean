/-
C14 — the forward walk of `TruncateUptoTx` with an explicit upper end.

`Truncate.tombstones` transcribes the code: `maxTxID := s.LastCommittedTxID(); for j := minTxID; j <= maxTxID; j++`.
Here the same walk is written with the last visited id `hi` as a parameter, so that
* "the walk of the code visits EVERY committed tx `n … last`" is a statement (`tombstones = tombstonesUpTo … last`,
  `Props.C14.front_walk_covers_every_later_tx`), and
* what happens when the walk is cut short (`hi = n + c` for ANY constant `c`, e.g. MaxConcurrency: "values can only
  overlap within the max concurrency range") can be stated and refuted (`Props.C14.short_front_walk_unsafe`).
`truncateUptoWalkingTo` is NOT the code (the code is `truncateUpto`); it exists only for that counterfactual.
Core Lean only.
-/
import ImmuModel.Store.Truncate

namespace ImmuModel.Store.Truncate

/-- Tombstones with the forward walk `for j := n; j <= hi; j++`. -/
def tombstonesUpTo (s : Store) (n hi : Nat) : Except Err Tomb :=
  match backWalk s n [] with
  | .error e => .error e
  | .ok t => frontWalk s n (hi + 1 - n) t

/-- `TruncateUptoTx(n)` with a forward walk that stops at `hi`. -/
def truncateUptoWalkingTo (s : Store) (n hi : Nat) : TruncRes :=
  if s.embedded then ⟨s, .ok⟩
  else match tombstonesUpTo s n hi with
    | .error e => ⟨s, .err [e]⟩
    | .ok t => discardAll s [] t

/-- A late committer overtaken by `c` others: tx 1 (64 bytes at offset 64, chunk 1), then `c` txs of 8 bytes each
further up (128, 136, …), and tx `c + 2` whose 64 bytes are at offset 0 (chunk 0) — it put its values into the value
log first and got its id last.  Chunk size 64, one value log, every chunk file present. -/
def lateCommitterTxs (c : Nat) : List TxEnts :=
  [⟨1, 64, 64⟩] :: ((List.range c).map (fun k => [⟨1, 128 + 8 * k, 8⟩]) ++ [[⟨1, 0, 64⟩]])

def lateCommitterStore (c : Nat) : Store :=
  { F := 64, maxIO := 1, txs := lateCommitterTxs c,
    vlogs := fun _ => { cur := chunkOf 64 (128 + 8 * c), offset := 128 + 8 * c + 1,
                        present := List.range (chunkOf 64 (128 + 8 * c) + 1) } }

end ImmuModel.Store.Truncate
