/-
C02 — a concrete execution of the commit state machine in which `Open` breaks the
binary-linking invariant (finding "reopen revives a discarded tx, the tree keeps its
replacement").  The hash is a small computable toy function so that the whole run is
evaluated by the kernel (`decide`); the statement is the negation of "InvBl is preserved by
every step for every hash".  The same schedule is executed against the real store by the
harness (`runRevival`), where `VerifyDualProof` then rejects honest proofs.
-/
import ImmuModel.Store.CommitInv
import ImmuModel.Tx.Concrete
import ImmuModel.Merkle.MthLemmas

namespace ImmuModel.Store.Commit.Witness
open ImmuModel ImmuModel.Tx ImmuModel.Merkle ImmuModel.Store ImmuModel.Store.Commit

/-- polynomial checksum; only used to make the run computable -/
def toyH (b : Bytes) : Nat := b.foldl (fun acc x => (acc * 257 + x.toNat + 1) % 4294967291) 7

def toyHs : Hs Digest where
  H b := Digest.ofBytes (beN 4 (toyH b))
  enc d := d.val
  enc_len d := d.property
  enc_inj _ _ h := Subtype.ext h

def zeroD : Digest := Digest.ofBytes []

/-- unsynced store with external commit allowance, values not embedded, header version 1 -/
def cfgW : Cfg := { embedded := false, synced := false, maxActive := 5, version := 1, maxTxEntries := 10, ahtSyncThld := 1 }

def ent : Entry Digest := ⟨[1], [], 1, zeroD⟩

/-- tx 1 committed; tx 2 = X precommitted, discarded, replaced by Y (other timestamp);
close/open; tx 2 allowed (it is X again); tx 3 committed. -/
def opsW : List (Op Digest) :=
  [.own ⟨1, [], [ent], false, true⟩, .allow 1,
   .own ⟨2, [], [ent], false, true⟩, .discard 2, .own ⟨3, [], [ent], false, true⟩,
   .close, .open_ cfgW true, .allow 2, .own ⟨4, [], [ent], false, true⟩, .allow 3]

def sF : St Digest := run toyHs zeroD (init toyHs cfgW true) opsW

theorem getD_of_isSome {α : Type} (o : Option α) (d : α) (h : o.isSome = true) : o = some (o.getD d) := by
  cases o with
  | none => simp at h
  | some x => rfl

def dE : Ent Digest := ⟨0, zeroD, 0⟩
def dR : Rec Digest := ⟨⟨0, 0, 0, zeroD, zeroD, 0, [], 0, zeroD⟩, [], zeroD⟩
def e3 : Ent Digest := (sF.clog[2]?).getD dE
def r3 : Rec Digest := (sF.log[e3.off]?).getD dR
def a1 : Digest := ((sF.clog.map (·.alh))[0]?).getD zeroD
def aX : Digest := ((sF.clog.map (·.alh))[1]?).getD zeroD

set_option maxRecDepth 100000 in
/-- three txs are committed … -/
theorem sF_committed : sF.committed = 3 ∧ sF.clog.length = 3 := by decide

set_option maxRecDepth 100000 in
/-- … and the third one's `BlRoot` is NOT the reference root over the accumulated hashes of the
committed txs 1 and 2. -/
theorem sF_not_invBl : ¬ InvBl toyHs sF := by
  intro h
  have h1 : sF.clog[2]? = some e3 := getD_of_isSome _ _ (by decide)
  have h2 : sF.log[e3.off]? = some r3 := getD_of_isSome _ _ (by decide)
  have hb := (h.clogBl 2 e3 r3 h1 h2).2 (by decide)
  have ht : (sF.clog.map (·.alh)).take r3.hdr.blTxID = [a1, aX] := by decide
  rw [ht] at hb
  have hm : mth toyHs.mh (treeLeaves toyHs [a1, aX]) = toyHs.mh.nodeH (toyHs.leafFor a1) (toyHs.leafFor aX) := by
    simp [treeLeaves, mth_pair]
  rw [hm] at hb
  have hne : r3.hdr.blRoot ≠ toyHs.mh.nodeH (toyHs.leafFor a1) (toyHs.leafFor aX) := by decide
  exact hne hb

end ImmuModel.Store.Commit.Witness
