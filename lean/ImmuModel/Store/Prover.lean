/-
Prover side of embedded/store/immustore.go: LinearProof, LinearAdvanceProof, DualProof,
DualProofV2 over a history (headers + accumulated hashes + the binary-linking tree).
-/
import ImmuModel.Store.History
import ImmuModel.Merkle.AHTree

namespace ImmuModel.Store
open ImmuModel.Tx ImmuModel.Merkle
variable {D : Type}

/-- The store's view needed by the provers. `aht` holds `enc alh_k` as payload of leaf k. -/
structure ProverState (D : Type) where
  hdrs : List (TxHeader D)
  alhs : List D
  aht : AHT D

/-- The tree a store with accumulated hashes `alhs` has built. -/
def buildAht (hs : Hs D) (alhs : List D) : Option (AHT D) :=
  AHT.appendAll hs.mh AHT.empty (alhs.map hs.enc)

def okOpt {ε α : Type} : Except ε α → Option α
  | .ok a => some a
  | .error _ => none

/-- `LinearProof(sourceTxID, targetTxID)`: [alh_s, inner_{s+1}, …, inner_t]. -/
def linearProof (hs : Hs D) (st : ProverState D) (s t : Nat) : Option (LinearProof D) :=
  if s = 0 ∨ s > t then none
  else
    match st.alhs[s - 1]? with
    | none => none
    | some a =>
      match (List.range (t - s)).mapM (fun k => (st.hdrs[s + k]?).bind (innerHash hs)) with
      | none => none
      | some inners => some ⟨s, t, a :: inners⟩

/-- `LinearAdvanceProof(sourceTxID, targetTxID, targetBlTxID)`; outer `none` = error,
`some none` = "not needed" (nil). -/
def linearAdvanceProof (hs : Hs D) (st : ProverState D) (s t bl : Nat) :
    Option (Option (LinearAdvanceProof D)) :=
  if t < s then none
  else if t ≤ s + 1 then some none
  else
    match st.alhs[s]? with          -- alh of tx s+1
    | none => none
    | some a1 =>
      let ids := (List.range (t - s - 1)).map (fun k => s + 1 + k)   -- s+1 … t-1
      match ids.mapM (fun txID => okOpt (AHT.inclusionProofAPI st.aht txID bl)),
            ids.mapM (fun txID => (st.hdrs[txID]?).bind (innerHash hs)) with  -- header of tx txID+1
      | some ips, some inners => some (some ⟨a1 :: inners, ips⟩)
      | _, _ => none

/-- `DualProof(sourceTxHdr, targetTxHdr)` for the headers of tx `s` and tx `t` of the history. -/
def dualProof [Inhabited D] (hs : Hs D) (st : ProverState D) (s t : Nat) : Option (DualProof D) :=
  match st.hdrs[s - 1]?, st.hdrs[t - 1]? with
  | some sh, some th =>
    if s = 0 ∨ t = 0 ∨ sh.id > th.id then none
    else
      let ip := if sh.id < th.blTxID then okOpt (AHT.inclusionProofAPI st.aht sh.id th.blTxID) else some []
      if sh.blTxID > th.blTxID then none
      else
        let cp := if sh.blTxID > 0 then okOpt (AHT.consistencyProofAPI st.aht sh.blTxID th.blTxID) else some []
        let tb : Option (D × List D) :=
          if th.blTxID > 0 then
            match st.alhs[th.blTxID - 1]?, okOpt (AHT.inclusionProofAPI st.aht th.blTxID th.blTxID) with
            | some a, some lip => some (a, lip)
            | _, _ => none
          else some (default, [])
        match ip, cp, tb, linearProof hs st (max sh.id th.blTxID) th.id,
              linearAdvanceProof hs st sh.blTxID (min sh.id th.blTxID) th.blTxID with
        | some ip, some cp, some (tba, lip), some lp, some lap =>
          some ⟨some sh, some th, ip, cp, tba, lip, some lp, lap⟩
        | _, _, _, _, _ => none
  | _, _ => none

end ImmuModel.Store
