/-
C07 — the replica side of replication as a state machine (`embedded/store/immustore.go`):
`ReplicateTx` = parse (Tx/Export.lean) → `OngoingTx.set` loop → `precommit` with the supplied header
(every check in the code's order) → `performPrecommit`; `DiscardPrecommittedTxsSince`,
`AllowCommitUpto`, `sync`/`mayCommit`, and close/reopen (precommitted transactions are re-loaded
from the tx log, INCLUDING discarded ones that are still physically there).

The hash is abstract (`hs : Hs D`); the executable driver instantiates it with SHA-256.
Digests inside headers are byte strings (as in Go `[32]byte`), accumulated hashes are `D`.

Atomicity: one `replicate` call is one step (the store's `mutex` serialises `precommit`'s critical
section; a call that has to wait for tx `ID-1` is the outcome `blocked` and is re-issued later).
`aht.RootAt(n)` is replaced by its specification `mth` over the first `n` accumulated hashes
(C08: `aht_root`).  Core Lean only.
-/
import ImmuModel.Tx.Export
import ImmuModel.Tx.Hs
import ImmuModel.Merkle.HTree

namespace ImmuModel.Replica
open ImmuModel ImmuModel.Tx ImmuModel.Merkle ImmuModel.GoInt

variable {D : Type}

def zeros32 : Bytes := List.replicate 32 0

-- ------------------------------------------------------------------ header hashing on `TxHdr`

/-- The bytes hashed by `TxHeader.innerHash()`; `Fault.panic` = "missing tx hash calculation
method for version" or a panicking `Metadata.Bytes()`. -/
def innerBytesH (h : TxHdr) : Except Fault Bytes :=
  let pre := beN Gen.storeTsSize (u64 h.ts) ++ beN Gen.storeSszSize (lowBits 2 h.version)
  let post := h.eh ++ beN Gen.storeTxIDSize h.blTxID ++ h.blRoot
  if h.version = 0 then .ok (pre ++ beN Gen.storeSszSize (lowBits 2 h.nentries) ++ post)
  else if h.version = 1 then
    match mdBytesOpt h.md with
    | .error f => .error f
    | .ok mdbs => .ok (pre ++ beN Gen.storeSszSize mdbs.length ++ mdbs ++ beN Gen.storeLszSize (lowBits 4 h.nentries) ++ post)
  else .error .panic

/-- `TxHeader.Alh()` = H(ID ‖ PrevAlh ‖ H(inner)). -/
def alhH (hs : Hs D) (h : TxHdr) : Except Fault D :=
  match innerBytesH h with
  | .error f => .error f
  | .ok ib => .ok (hs.H (beN Gen.storeTxIDSize h.id ++ h.prevAlh ++ hs.enc (hs.H ib)))

-- ------------------------------------------------------------------ configuration and state

/-- The store options the replication path depends on. -/
structure RCfg where
  maxActive : Nat := 1000       -- MaxActiveTransactions
  maxKeyLen : Nat := 1024
  maxValueLen : Nat := 4096
  maxTxEntries : Nat := 1024
  synced : Bool := false        -- Synced: durability and commit happen in `sync()`
  extAllowance : Bool := false  -- useExternalCommitAllowance
  deriving DecidableEq, Repr

/-- An entry as held by the store: key, metadata, value (`nil` for a truncated value),
value hash. `vLen = value.length`. -/
structure REntry where
  key : Bytes
  md : Option KVMd
  value : Bytes
  hval : Bytes
  truncated : Bool
  deriving DecidableEq, Repr

/-- A transaction record of the tx log with its accumulated hash. -/
structure RRec (D : Type) where
  hdr : TxHdr
  entries : List REntry
  alh : D

/-- `committed`: the committed chain.  `log`: the tx-log records physically AFTER the last committed
one, in write order; the flag says whether the record is still in the precommit buffer (`cLogBuf`),
i.e. precommitted and not discarded.  `durable` = `durablePrecommitWHub`, `allowed` =
`commitAllowedUpToTxID`. -/
structure RSt (D : Type) where
  cfg : RCfg
  committed : List (RRec D) := []
  log : List (RRec D × Bool) := []
  durable : Nat := 0
  allowed : Nat := 0
  bufCap : Nat := cfg.maxActive   -- slots of `cLogBuf` (grown at open when more precommitted txs are on disk)
  ghost : Option (RRec D) := none -- record written at the append position by a precommit that then failed in `cLogBuf.put`
  waitDone : Nat := 0             -- `inmemPrecommitWHub.doneUpto`: highest id precommitted since open (NOT receded by a discard)

/-- The in-memory precommitted records (content of `cLogBuf`). -/
def RSt.pre (st : RSt D) : List (RRec D) := (st.log.filter (·.2)).map (·.1)

def RSt.chain (st : RSt D) : List (RRec D) := st.committed ++ st.pre

/-- `inmemPrecommittedTxID`. -/
def RSt.lastPre (st : RSt D) : Nat := st.committed.length + st.pre.length

/-- The accumulated hash after the last record of `l` (`sha256.Sum256(nil)` for the empty store). -/
def lastAlh (hs : Hs D) (l : List (RRec D)) : D :=
  match l.getLast? with
  | some r => r.alh
  | none => hs.H []

/-- `inmemPrecommittedAlh`. -/
def RSt.preAlh (hs : Hs D) (st : RSt D) : D := lastAlh hs st.chain

def RSt.committedAlh (hs : Hs D) (st : RSt D) : D := lastAlh hs st.committed

/-- `aht.RootAt(n)` for `1 ≤ n ≤ size`, by its specification (C08). -/
def RSt.rootAt (hs : Hs D) (st : RSt D) (n : Nat) : D :=
  mth hs.mh (((st.chain.map (·.alh)).take n).map hs.leafFor)

/-- `PrecommittedAlh()`: id and accumulated hash of the last DURABLY precommitted tx. -/
def RSt.durableAlh (hs : Hs D) (st : RSt D) : Nat × D :=
  (st.durable, lastAlh hs (st.chain.take st.durable))

-- ------------------------------------------------------------------ OngoingTx.set / entries hash

/-- The `EntrySpec` built by `ReplicateTx` from a framed entry: in the truncated form
`set(key, md, nil, digest(payload), true)` (`digest` copies into a zeroed `[32]byte`), otherwise
the value itself (its hash is taken in `precommit`). -/
def toREntry (hs : Hs D) (truncated : Bool) (e : PEntry) : REntry :=
  if truncated then { key := e.key, md := e.md, value := [], hval := copy32 e.payload, truncated := true }
  else { key := e.key, md := e.md, value := e.payload, hval := hs.enc (hs.H e.payload), truncated := false }

/-- One `txSpec.set(...)`: a key already present is overwritten in place (`entriesByKey`). -/
def setEntry (cfg : RCfg) (es : List REntry) (e : REntry) : Except XErr (List REntry) :=
  if e.key.length = 0 then .error .nullKey
  else if e.key.length > cfg.maxKeyLen then .error .maxKeyLen
  else if e.value.length > cfg.maxValueLen then .error .maxValueLen
  else if es.any (fun x => x.key == e.key) then .ok (es.map (fun x => if x.key == e.key then e else x))
  else if es.length > cfg.maxTxEntries then .error .maxTxEntries
  else .ok (es ++ [e])

def setAll (cfg : RCfg) : List REntry → List REntry → Except XErr (List REntry)
  | acc, [] => .ok acc
  | acc, e :: t =>
    match setEntry cfg acc e with
    | .error x => .error x
    | .ok acc' => setAll cfg acc' t

/-- `TxEntryDigest_v1_1` (header version 0) / `TxEntryDigest_v1_2` (version 1). -/
def entryDigest (hs : Hs D) (version : Int) (e : REntry) : Except XErr D :=
  let mdbs := kvmdBytesOpt e.md
  if version = 0 then
    if mdbs.length > 0 then .error .mdUnsupported else .ok (hs.H (e.key ++ e.hval))
  else if version = 1 then
    .ok (hs.H (beN Gen.storeSszSize mdbs.length ++ mdbs ++ beN Gen.storeSszSize e.key.length ++ e.key ++ e.hval))
  else .error .corrupted

def entryDigests (hs : Hs D) (version : Int) : List REntry → Except XErr (List D)
  | [] => .ok []
  | e :: t =>
    match entryDigest hs version e with
    | .error x => .error x
    | .ok d =>
      match entryDigests hs version t with
      | .error x => .error x
      | .ok ds => .ok (d :: ds)

/-- `Tx.BuildHashTree()`: `Eh` = root of the entry-digest tree. -/
def ehOf (hs : Hs D) (version : Int) (es : List REntry) : Except XErr D :=
  match entryDigests hs version es with
  | .error x => .error x
  | .ok ds => .ok (HTree.build hs.mhH hs.enc ds).root

-- ------------------------------------------------------------------ precommit with a supplied header

/-- `otx.metadata.IsEmpty() || otx.metadata.HasExtraOnly()`. -/
def txmdEmptyOrExtraOnly : Option TxMd → Bool
  | none => true
  | some md => md.trunc.isNone

/-- The header `performPrecommit` writes: ID/PrevAlh/BlRoot/Eh/NEntries are the store's own values
(checked against the supplied ones before), Ts/BlTxID/Version/Metadata are TAKEN from the supplied
header.  `blRoot` is what ends up in `tx.header.BlRoot`: the tree's root `if blTxID > 0`, the zero
value otherwise (the `else` branch of `performPrecommit`; before that repair the pooled `Tx` kept the
`BlRoot` of its previous use there). -/
def storedHdr (hs : Hs D) (st : RSt D) (p : Parsed) (n : Nat) (blRoot : Bytes) (eh : D) : TxHdr :=
  { id := st.lastPre + 1, ts := p.hdr.ts, blTxID := p.hdr.blTxID, blRoot := blRoot,
    prevAlh := hs.enc (st.preAlh hs), version := p.hdr.version, md := p.hdr.md,
    nentries := (n : Int), eh := hs.enc eh }

/-- `precommit(ctx, otx, hdr, skipIntegrityCheck)` with `hdr ≠ nil`, preceded by the `set` loop of
`ReplicateTx`. Returns the new record; the state is changed only by the caller on success. -/
def precommit (hs : Hs D) (st : RSt D) (p : Parsed) (skip : Bool) : Except XErr (RRec D) :=
  match setAll st.cfg [] (p.entries.map (toREntry hs p.truncated)) with
  | .error x => .error x
  | .ok es =>
    -- otx.validateAgainst(hdr): NEntries, metadata (txSpec.metadata IS hdr.Metadata: `Equal` only evaluates `Bytes()`)
    if (es.length : Int) ≠ p.hdr.nentries then .error .illegal
    else
      match mdBytesOpt p.hdr.md with
      | .error _ => .error .panic
      | .ok _ =>
        -- "extra metadata … only allowed when entries is non empty"
        if es.length = 0 ∧ txmdEmptyOrExtraOnly p.hdr.md then .error .noEntries
        -- validateEntries
        else if es.length > st.cfg.maxTxEntries then .error .maxTxEntries
        else
          match ehOf hs p.hdr.version es with
          | .error x => .error x
          | .ok eh =>
            if !skip ∧ hs.enc eh ≠ p.hdr.eh then .error .illegal
            else if st.lastPre ≥ p.hdr.id then .error .alreadyCommitted
            else if p.hdr.id > st.lastPre + st.cfg.maxActive then .error .maxActive
            else if p.hdr.id - 1 > st.waitDone then .error .blocked      -- inmemPrecommitWHub.WaitFor(ID-1)
            -- `aht.RootAt(BlTxID)`: ErrEmptyTree is ignored (zero root), a size beyond the tree is an error
            else if p.hdr.blTxID > 0 ∧ st.lastPre > 0 ∧ p.hdr.blTxID > st.lastPre then .error .ahtRange
            else
              let blRoot : Bytes := if p.hdr.blTxID > 0 ∧ st.lastPre > 0 then hs.enc (st.rootAt hs p.hdr.blTxID) else zeros32
              if blRoot ≠ p.hdr.blRoot then .error .illegal
              -- under `s.mutex`
              else if st.lastPre > p.hdr.id - 1 then .error .alreadyCommitted
              else if st.lastPre < p.hdr.id - 1 then .error .wrongOrder
              else if hs.enc (st.preAlh hs) ≠ p.hdr.prevAlh then .error .illegal
              -- performPrecommit
              else if st.cfg.synced ∧ st.committed.length + st.cfg.maxActive ≤ st.lastPre then .error .maxActive
              else
                -- performPrecommit: `if blTxID > 0 { tx.header.BlRoot = aht.RootAt(blTxID) } else { tx.header.BlRoot = [32]byte{} }`
                let blStored : Bytes := if p.hdr.blTxID > 0 then blRoot else zeros32
                let h := storedHdr hs st p es.length blStored eh
                match alhH hs h with
                | .error _ => .error .panic
                | .ok a => .ok { hdr := h, entries := es, alh := a }

-- ------------------------------------------------------------------ commit machinery

/-- Take the first `k` live records out of the log: they become committed; everything physically
before the last of them is no longer "after the last committed record". -/
def commitLog : Nat → List (RRec D × Bool) → List (RRec D) × List (RRec D × Bool)
  | 0, l => ([], l)
  | _ + 1, [] => ([], [])
  | k + 1, (_, false) :: t => commitLog (k + 1) t
  | k + 1, (r, true) :: t => let (c, l) := commitLog k t; (r :: c, l)

/-- `commitAllowedUpTo()`. -/
def RSt.commitAllowedUpTo (st : RSt D) : Nat :=
  if st.cfg.extAllowance then st.allowed else st.lastPre

/-- `mayCommit()` (also the tail of `sync()`): append the allowed precommitted transactions to the
commit log. Reading the precommit buffer past its content is an error that changes nothing. -/
def mayCommit (st : RSt D) : Except XErr (RSt D) :=
  let cnt := st.commitAllowedUpTo - st.committed.length
  if cnt = 0 then .ok st
  else if cnt > st.pre.length then .error .bufferConsumed
  else
    let (c, l) := commitLog cnt st.log
    .ok { st with committed := st.committed ++ c, log := l }

/-- Result of one API call: the answer and the next state. -/
structure Step (D : Type) (α : Type) where
  out : Except XErr α
  st : RSt D

/-- `ReplicateTx(exportedTx, skipIntegrityCheck)` up to the in-memory precommit; for a store
that is not `Synced` `performPrecommit` also marks the tx durable and runs `mayCommit`. -/
def replicate (hs : Hs D) (st : RSt D) (b : Bytes) (skip : Bool) : Step D (RRec D) :=
  match parseExported b with
  | .error x => ⟨.error x, st⟩
  | .ok p =>
    match precommit hs st p skip with
    | .error x => ⟨.error x, st⟩
    | .ok r =>
      -- `cLogBuf.put` fails AFTER the record was appended to the tx log at the append position:
      -- nothing in memory changes, but the bytes are there until the next append overwrites them
      if st.pre.length ≥ st.bufCap then ⟨.error .bufferFull, { st with ghost := some r }⟩
      else
      let st1 : RSt D := { st with log := st.log ++ [(r, true)], ghost := none,
                                   waitDone := if st.waitDone < st.lastPre + 1 then st.lastPre + 1 else st.waitDone }
      if st.cfg.synced then ⟨.ok r, st1⟩
      else
        let st2 : RSt D := { st1 with durable := st1.lastPre }
        match mayCommit st2 with
        | .error x => ⟨.error x, st2⟩
        | .ok st3 => ⟨.ok r, st3⟩

/-- `sync()` (the syncer goroutine or `Sync()`): everything precommitted becomes durable, then the
allowed part is committed. -/
def sync (st : RSt D) : Step D Unit :=
  if st.lastPre = st.committed.length then ⟨.ok (), st⟩
  else
    let st1 : RSt D := { st with durable := st.lastPre }
    match mayCommit st1 with
    | .error x => ⟨.error x, st1⟩
    | .ok st2 => ⟨.ok (), st2⟩

/-- Keep the first `k` live records live, mark the later ones discarded (`cLogBuf.recedeWriter`);
nothing is removed from the tx log. -/
def keepLive : Nat → List (RRec D × Bool) → List (RRec D × Bool)
  | _, [] => []
  | k, (r, false) :: t => (r, false) :: keepLive k t
  | 0, (r, true) :: t => (r, false) :: keepLive 0 t
  | k + 1, (r, true) :: t => (r, true) :: keepLive k t

/-- `DiscardPrecommittedTxsSince(txID)`; the answer is the number of discarded transactions. -/
def discardSince (st : RSt D) (txID : Nat) : Step D Nat :=
  if txID = 0 then ⟨.error .illegal, st⟩
  else if txID ≤ st.committed.length then ⟨.error .illegal, st⟩
  else if txID > st.lastPre then ⟨.ok 0, st⟩
  else
    let n := st.lastPre + 1 - txID
    let keep := st.pre.length - n
    let newPre := st.committed.length + keep
    ⟨.ok n, { st with log := keepLive keep st.log,
                      durable := if st.durable > newPre then newPre else st.durable }⟩

/-- `ImmuStore.AllowCommitUpto(txID)`. -/
def allowCommitUpto (st : RSt D) (txID : Nat) : Step D Unit :=
  if !st.cfg.extAllowance then ⟨.error .illegalState, st⟩
  else if txID ≤ st.allowed then ⟨.ok (), st⟩
  else
    let st1 : RSt D := { st with allowed := if st.lastPre < txID then st.lastPre else txID }
    if st.cfg.synced then ⟨.ok (), st1⟩
    else
      match mayCommit st1 with
      | .error x => ⟨.error x, st1⟩
      | .ok st2 => ⟨.ok (), st2⟩

/-- `db.AllowCommitUpto(txID, alh)` of `pkg/database` on a replica: the accumulated hash the replica
holds for `txID` (committed or precommitted) must be the one the primary announced. -/
def dbAllowCommitUpto (hs : Hs D) (st : RSt D) (txID : Nat) (alh : Bytes) : Step D Unit :=
  if st.committed.length = txID then
    if hs.enc (st.committedAlh hs) ≠ alh then ⟨.error .illegalState, st⟩ else ⟨.ok (), st⟩
  else if txID = 0 then ⟨.error .illegal, st⟩                      -- ReadTxHeader(0, …)
  else
    match st.chain[txID - 1]? with
    | none => ⟨.error .notFound, st⟩                              -- ErrTxNotFound
    | some r =>
      if hs.enc r.alh ≠ alh then ⟨.error .illegalState, st⟩
      else allowCommitUpto st txID

/-- `SetExternalCommitAllowance(enabled)`. -/
def setExtAllowance (st : RSt D) (enabled : Bool) : RSt D :=
  { st with cfg := { st.cfg with extAllowance := enabled },
            allowed := if enabled then st.committed.length else st.allowed }

/-- The precommitted transactions `OpenWith` re-loads: tx-log records after the last committed
one, as long as `ID` and `PrevAlh` chain. -/
def reload (hs : Hs D) : Nat → Bytes → List (RRec D) → List (RRec D)
  | _, _, [] => []
  | id, palh, r :: t =>
    if r.hdr.id = id + 1 ∧ r.hdr.prevAlh = palh then r :: reload hs (id + 1) (hs.enc r.alh) t else []

/-- `cLogBuf.grow(2 * len)` each time `put` finds the buffer full while re-loading. -/
def growCap : Nat → Nat → Nat → Nat
  | 0, c, _ => c
  | f + 1, c, n => if n ≤ c ∨ c = 0 then c else growCap f (2 * c) n

/-- Close and reopen (same options): previously discarded records that are still in the tx log
and chain — and the record left behind by a precommit that failed with ErrBufferIsFull — are precommitted again; records after the first non-chaining one are given up (they get
overwritten by the next append). -/
def restart (hs : Hs D) (st : RSt D) : RSt D :=
  let recs := st.log.map (·.1) ++ st.ghost.toList
  let chain := reload hs st.committed.length (hs.enc (st.committedAlh hs)) recs
  { st with log := chain.map (fun r => (r, true)),
            ghost := none,
            waitDone := st.committed.length + chain.length,
            durable := st.committed.length + chain.length,
            allowed := st.committed.length,
            bufCap := growCap chain.length st.cfg.maxActive chain.length }

-- ------------------------------------------------------------------ reading back / re-export

/-- `ExportTx(id, allowPrecommitted = true, skipIntegrityCheck)` on this store: values are read with
`readValueAt` (length `vLen`); without `skipIntegrityCheck` the value hash is compared — for a
transaction that was replicated in truncated form `vLen = 0` and the stored hash is not the hash of
the empty value, so the export fails with ErrCorruptedData (the code as it is). -/
def exportEntry (hs : Hs D) (skip : Bool) (e : REntry) : Except XErr PEntry :=
  if !skip ∧ hs.enc (hs.H e.value) ≠ e.hval then .error .corrupted
  else .ok { key := e.key, md := e.md, payload := e.value }

def exportEntries (hs : Hs D) (skip : Bool) : List REntry → Except XErr (List PEntry)
  | [] => .ok []
  | e :: t =>
    match exportEntry hs skip e with
    | .error x => .error x
    | .ok pe =>
      match exportEntries hs skip t with
      | .error x => .error x
      | .ok pes => .ok (pe :: pes)

def exportRec (hs : Hs D) (skip : Bool) (r : RRec D) : Except XErr Bytes :=
  match exportEntries hs skip r.entries with
  | .error x => .error x
  | .ok pes =>
    match exportTx { hdr := r.hdr, entries := pes, truncated := false } with
    | .error f => .error (XErr.ofFault f)
    | .ok b => .ok b

end ImmuModel.Replica
