/-
C17 — helper lemmas for the fault paths (failing fsync, failing write) of the singleapp / multiapp mirrors.
Property theorems are in Props/C17.lean.
-/
import ImmuModel.Log.Faults
import ImmuModel.Log.SingleAppLemmas
import ImmuModel.Log.MultiBase
import ImmuModel.Log.MultiWriteLemmas

namespace ImmuModel.Log
namespace SingleApp

/-! ### failing write (`n = 0`) -/

theorem seek_spec {s : SingleApp} (h : Inv s) :
    Inv (seek s) ∧ abs (seek s) = abs s ∧ SameCfg s (seek s) ∧ (seek s).file = s.file ∧
    (seek s).offset = s.offset ∧ (NoStaleTail s → NoStaleTail (seek s)) := by
  obtain ⟨hfl, hfo, hpos, hnr, hroc, pre, htail⟩ := h
  refine ⟨⟨hfl, hfo, ?_, hnr, hroc, pre, htail⟩, rfl, SameCfg.refl s, rfl, rfl, fun h => h⟩
  intro _
  show (if s.seekRequired = true then s.fileOffset else s.pos) = s.fileOffset
  by_cases hs : s.seekRequired = true
  · simp [hs]
  · have : s.seekRequired = false := by simpa using hs
    simp [this, hpos this]

theorem flushW0_spec {s : SingleApp} (h : Inv s) :
    Inv (flushW0 s).1 ∧ abs (flushW0 s).1 = abs s ∧ SameCfg s (flushW0 s).1 ∧ (flushW0 s).1.file = s.file ∧
    (flushW0 s).1.offset = s.offset ∧ (NoStaleTail s → NoStaleTail (flushW0 s).1) ∧
    ((flushW0 s).2 = true ↔ s.buf.length - s.flushed ≠ 0) := by
  unfold flushW0
  by_cases h0 : s.buf.length - s.flushed = 0
  · rw [if_pos h0]
    exact ⟨h, rfl, SameCfg.refl s, rfl, rfl, fun h => h, by simp [h0]⟩
  · rw [if_neg h0]
    obtain ⟨a, b, c, d, e, f⟩ := seek_spec h
    exact ⟨a, b, c, d, e, f, by simp [h0]⟩

theorem syncW0_spec {s : SingleApp} (h : Inv s) (ok : Bool) :
    Inv (syncW0 s ok).1 ∧ abs (syncW0 s ok).1 = abs s ∧ SameCfg s (syncW0 s ok).1 ∧
    s.file.length ≤ (syncW0 s ok).1.file.length ∧ (syncW0 s ok).1.file.length ≤ max s.file.length s.offset := by
  obtain ⟨fi, fa, fc, ff, _, _, _⟩ := flushW0_spec h
  unfold syncW0
  match hw : flushW0 s with
  | (s1, true) =>
    rw [hw] at fi fa fc ff
    simp only at fi fa fc ff ⊢
    refine ⟨fi, fa, fc, ?_, ?_⟩ <;> rw [ff] <;> omega
  | (s1, false) =>
    obtain ⟨si, sa, sc, _⟩ := sync_spec h ok
    obtain ⟨l1, l2⟩ := sync_file_len h ok
    exact ⟨si, sa, sc, l1, l2⟩

theorem apiFlushW0_spec {s : SingleApp} (h : Inv s) :
    Inv (apiFlushW0 s).1 ∧ abs (apiFlushW0 s).1 = abs s ∧ SameCfg s (apiFlushW0 s).1 ∧
    (apiFlushW0 s).1.file = s.file ∧ (apiFlushW0 s).1.offset = s.offset := by
  obtain ⟨fi, fa, fc, ff, fo, _, _⟩ := flushW0_spec h
  unfold apiFlushW0
  cases s.closed
  · cases s.readOnly
    · simp only [Bool.false_eq_true, ↓reduceIte]
      match hw : flushW0 s with
      | (s1, true) => rw [hw] at fi fa fc ff fo; exact ⟨fi, fa, fc, ff, fo⟩
      | (s1, false) => rw [hw] at fi fa fc ff fo; exact ⟨fi, fa, fc, ff, fo⟩
    · exact ⟨h, rfl, SameCfg.refl s, rfl, rfl⟩
  · exact ⟨h, rfl, SameCfg.refl s, rfl, rfl⟩

theorem apiSyncW0_spec {s : SingleApp} (h : Inv s) (ok : Bool) :
    Inv (apiSyncW0 s ok).1 ∧ abs (apiSyncW0 s ok).1 = abs s ∧ SameCfg s (apiSyncW0 s ok).1 ∧
    (apiSyncW0 s ok).1.file.length ≤ max s.file.length s.offset := by
  unfold apiSyncW0
  cases s.closed
  · cases s.readOnly
    · obtain ⟨a, b, c, _, e⟩ := syncW0_spec h ok
      exact ⟨a, b, c, e⟩
    · exact ⟨h, rfl, SameCfg.refl s, by simp only [Bool.false_eq_true, ↓reduceIte]; omega⟩
  · exact ⟨h, rfl, SameCfg.refl s, by simp only [↓reduceIte]; omega⟩

/-! ### failing fsync: the `else` branch of `sync()`, field by field -/

theorem flushed_le_fileOffset {s : SingleApp} (h : Inv s) : s.flushed ≤ s.fileOffset := by
  obtain ⟨hfl, hfo, _, _, _, pre, htail⟩ := h
  have := congrArg List.length htail
  simp [List.length_take] at this
  omega

/-- Retryable sync, fsync fails: `fileOffset` goes back by the number of buffered bytes that are in the file
(ALL of them after the flush inside `sync`), i.e. to the offset of `buf[0]`; nothing in the buffer counts as
flushed any more; a seek is requested; the buffer and the file are those left by the flush. -/
theorem sync_fail_retry {s : SingleApp} (h : Inv s) (hr : s.retryableSync = true) :
    (sync s false).2 = some .syncFailed ∧
    (sync s false).1 = { (flush s) with fileOffset := (flush s).fileOffset - (flush s).flushed,
                                        seekRequired := true, flushed := 0 } ∧
    (sync s false).1.buf = s.buf ∧ (sync s false).1.flushed = 0 ∧ (sync s false).1.seekRequired = true ∧
    (sync s false).1.fileOffset = s.fileOffset - s.flushed ∧
    (sync s false).1.fileOffset + (sync s false).1.buf.length = s.offset ∧
    (sync s false).1.file = (flush s).file ∧ (sync s false).1.offset = s.offset := by
  have hle := flushed_le_fileOffset h
  have hfl := h.fl_le
  obtain ⟨_, _, _, _, fbuf, _, _, _⟩ := flush_spec h
  have hb := fbuf hr
  have hr' : (flush s).retryableSync = true := by rw [(flush_sameCfg s).2.1, hr]
  have hfo : (flush s).fileOffset - (flush s).flushed = s.fileOffset - s.flushed := by
    rw [flush_eq]
    by_cases h0 : s.buf.length - s.flushed = 0
    · simp only [h0, ↓reduceIte]
    · simp only [h0, ↓reduceIte, hr]; omega
  have hfst : (sync s false).1 = ({ (flush s) with fileOffset := (flush s).fileOffset - (flush s).flushed, seekRequired := true, flushed := 0 } : SingleApp) := by
    simp [sync, hr']
  refine ⟨by simp [sync, hr'], hfst, ?_, ?_, ?_, ?_, ?_, ?_, ?_⟩
  · rw [hfst]; exact hb
  · rw [hfst]
  · rw [hfst]
  · rw [hfst]; exact hfo
  · rw [hfst]; show (flush s).fileOffset - (flush s).flushed + (flush s).buf.length = s.offset
    rw [hfo, hb]; unfold offset; omega
  · rw [hfst]
  · rw [hfst]; show (flush s).fileOffset - (flush s).flushed + ((flush s).buf.length - 0) = s.offset
    rw [hfo, hb]; unfold offset; omega

/-- Non-retryable sync: the buffer was freed by the flush; the fsync error is only reported. -/
theorem sync_fail_nonretry (s : SingleApp) (hr : s.retryableSync = false) :
    sync s false = (flush s, some .syncFailed) := by
  have hr' : (flush s).retryableSync = false := by rw [(flush_sameCfg s).2.1, hr]
  simp [sync, hr']

/-- The retry: a successful sync after a failed one leaves no rolled-back bytes behind the logical end (the buffer is
rewritten at the place it was written to before), so Close + Open finds exactly the content. -/
theorem sync_retry_noStale {s : SingleApp} (h : Inv s) (hr : s.retryableSync = true) (hn : NoStaleTail s) :
    (sync (sync s false).1 true).2 = none ∧ abs (sync (sync s false).1 true).1 = abs s ∧
    Inv (sync (sync s false).1 true).1 ∧ (sync (sync s false).1 true).1.buf = [] ∧
    NoStaleTail (sync (sync s false).1 true).1 := by
  obtain ⟨ti, ta, tc, _, _, _, _, _⟩ := sync_spec h false
  obtain ⟨_, _, _, _, _, _, _, tfile, toff⟩ := sync_fail_retry h hr
  obtain ⟨ui, ua, uc, _, uok, ubuf, _, _⟩ := sync_spec ti true
  have hrt : (sync s false).1.retryableSync = true := by rw [tc.2.1, hr]
  have hnone := uok rfl
  refine ⟨hnone, by rw [ua, ta], ui, (ubuf hrt hnone).1, ?_⟩
  -- sizes
  obtain ⟨fi, fa, fflen, _, _, fns, _, _⟩ := flush_spec h
  have hs1 : (flush s).file.length = s.offset := by
    have h1 : (flush s).file.length = (flush s).fileOffset := fns hn
    have h2 : (flush s).offset = s.offset := by rw [← abs_size fi, fa, abs_size h]
    unfold offset at h2 ⊢
    omega
  have hlen := sync_file_len ti true
  rw [tfile, hs1, toff] at hlen
  have hoff : (sync (sync s false).1 true).1.offset = s.offset := by
    rw [← abs_size ui, ua, ta, abs_size h]
  have hb := (ubuf hrt hnone)
  have hU : (sync (sync s false).1 true).1.offset = (sync (sync s false).1 true).1.fileOffset := by
    unfold offset; rw [hb.1, hb.2]; simp
  unfold NoStaleTail
  rw [← hU, hoff]
  have := Nat.max_self s.offset
  omega

end SingleApp

namespace MultiApp

theorem flushW0_spec {m : MultiApp} (h : MInv m) :
    MInv m.flushW0.1 ∧ abs m.flushW0.1 = abs m ∧ (∀ lo, Present m lo → Present m.flushW0.1 lo) := by
  unfold flushW0
  cases hc : m.closed
  · cases hro : m.readOnly
    · simp only [Bool.false_eq_true, ↓reduceIte]
      obtain ⟨fi, fa, fc, ff, _⟩ := SingleApp.apiFlushW0_spec h.cur_inv
      exact withCur_same h fi fa fc (by rw [ff]; omega)
    · exact ⟨h, rfl, fun _ hp => hp⟩
  · exact ⟨h, rfl, fun _ hp => hp⟩

theorem syncW0_spec {m : MultiApp} (h : MInv m) (ok : Bool) :
    MInv (m.syncW0 ok).1 ∧ abs (m.syncW0 ok).1 = abs m ∧ (∀ lo, Present m lo → Present (m.syncW0 ok).1 lo) := by
  unfold syncW0
  cases hc : m.closed
  · cases hro : m.readOnly
    · simp only [Bool.false_eq_true, ↓reduceIte]
      obtain ⟨fi, fa, fc, fl⟩ := SingleApp.apiSyncW0_spec h.cur_inv ok
      exact withCur_same h fi fa fc fl
    · exact ⟨h, rfl, fun _ hp => hp⟩
  · exact ⟨h, rfl, fun _ hp => hp⟩

/-- an open, writable multiapp reports the fsync error of its current chunk -/
theorem sync_fail_err {m : MultiApp} (h : MInv m) (hc : m.closed = false) (hro : m.readOnly = false) :
    (m.sync false).2 = some .syncFailed := by
  obtain ⟨cc, cro, _⟩ := h.cfg
  have hro' : m.cur.readOnly = false := by rw [cro, hro]
  simp only [sync, hc, hro, Bool.false_eq_true, ↓reduceIte, SingleApp.apiSync, cc, hro']
  cases hr : (SingleApp.flush m.cur).retryableSync <;> simp [SingleApp.sync, hr]

end MultiApp
end ImmuModel.Log
