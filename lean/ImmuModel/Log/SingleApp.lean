/-
C17 — MIRROR of `embedded/appendable/singleapp/single_app.go` (`AppendableFile`), uncompressed format.

State (Go field → model field)
  f (the OS file, after the metadata header)      → `file`  : physical bytes; NEVER truncated by the code,
                                                     so it may be LONGER than the logical end
  OS file position (relative to fileBaseOffset)   → `pos`
  seekRequired                                    → `seekRequired`
  fileOffset                                      → `fileOffset`
  writeBuffer[0:wbufUnwrittenOffset]              → `buf`   (so wbufUnwrittenOffset = buf.length)
  wbufFlushedOffset                               → `flushed`
  len(writeBuffer)                                → `cap`   (0 after SwitchToReadOnlyMode: writeBuffer=nil)
  retryableSync, autoSync, readOnly, closed       → same names
  metadata (wrapped)                              → `mdata`

What is NOT modelled: I/O errors of `write`/`seek`/`close` (assumed to succeed); the only injected
failure is `fsync` (`syncOk = false`), because the retryable-sync bookkeeping depends on it.
Compressed formats are not modelled (each Append is then one opaque entry `len ‖ z(bs)`).
Integer subtractions that Go performs on `int`/`int64` are `Nat` subtractions here; they coincide
under the invariant `SingleApp.Inv` (Log/SingleAppLemmas.lean), which every reachable state satisfies.
Core Lean only.
-/
import ImmuModel.Base.Bytes

namespace ImmuModel.Log

/-- Error classes (Go sentinel errors, compared with `errors.Is` in the harness). -/
inductive Err
  | alreadyClosed      -- singleapp/multiapp.ErrAlreadyClosed
  | readOnly           -- ErrReadOnly
  | illegalArguments   -- ErrIllegalArguments
  | negativeOffset     -- singleapp.ErrNegativeOffset
  | bufferFull         -- singleapp.ErrBufferFull
  | eof                -- io.EOF
  | syncFailed         -- error returned by fsync/fdatasync (injected)
  | hang               -- Go would loop forever (`write` with an empty write buffer; excluded by Options.Validate)
deriving DecidableEq, Repr

/-- `(*os.File).Write` at position `pos`: overwrites / extends; a hole is zero-filled (POSIX). -/
def writeAt (f : Bytes) (pos : Nat) (d : Bytes) : Bytes :=
  f.take pos ++ List.replicate (pos - f.length) 0 ++ d ++ f.drop (pos + d.length)

/-- `(*os.File).ReadAt(bs, off)` with `len(bs) = n`: the available bytes, `io.EOF` iff fewer than `n`. -/
def pread (f : Bytes) (off n : Nat) : Bytes × Bool :=
  let d := (f.drop off).take n
  (d, decide (d.length < n))

structure SOpts where
  cap : Nat
  retryableSync : Bool
  autoSync : Bool
  readOnly : Bool
deriving DecidableEq, Repr

structure SingleApp where
  file : Bytes
  pos : Nat
  seekRequired : Bool
  fileOffset : Nat
  buf : Bytes
  flushed : Nat
  cap : Nat
  retryableSync : Bool
  autoSync : Bool
  readOnly : Bool
  closed : Bool
  mdata : Bytes
deriving DecidableEq, Repr

namespace SingleApp

/-- `Open` on an existing file whose content after the header is `file`:
`fileOffset` is the PHYSICAL length (`f.Seek(0, io.SeekEnd) - fileBaseOffset`). -/
def openFile (file : Bytes) (o : SOpts) (mdata : Bytes) : SingleApp :=
  { file := file, pos := file.length, seekRequired := false, fileOffset := file.length,
    buf := [], flushed := 0, cap := o.cap, retryableSync := o.retryableSync, autoSync := o.autoSync,
    readOnly := o.readOnly, closed := false, mdata := mdata }

/-- `Open` creating the file: header, then `preallocSize` zero bytes (which count as content). -/
def create (o : SOpts) (prealloc : Nat) (mdata : Bytes) : SingleApp :=
  openFile (List.replicate prealloc 0) o mdata

/-- Re-`Open` after `Close`: everything is recomputed from the physical file. -/
def reopen (s : SingleApp) (o : SOpts) : SingleApp := openFile s.file o s.mdata

/-- `offset()` -/
def offset (s : SingleApp) : Nat := s.fileOffset + (s.buf.length - s.flushed)

/-- `flush()` -/
def flush (s : SingleApp) : SingleApp :=
  if s.buf.length - s.flushed = 0 then s
  else
    -- seekIfRequired
    let pos := if s.seekRequired then s.fileOffset else s.pos
    let data := s.buf.drop s.flushed
    let s1 := { s with file := writeAt s.file pos data, pos := pos + data.length, seekRequired := false,
                       fileOffset := s.fileOffset + data.length, flushed := s.flushed + data.length }
    if !s1.retryableSync then { s1 with flushed := 0, buf := [] } else s1

/-- `sync()`; `ok` is the outcome of `f.Sync()` / `Fdatasync`. -/
def sync (s : SingleApp) (ok : Bool) : SingleApp × Option Err :=
  let s1 := flush s
  if !s1.retryableSync then (s1, if ok then none else some .syncFailed)
  else if ok then ({ s1 with flushed := 0, buf := [] }, none)
  else ({ s1 with fileOffset := s1.fileOffset - s1.flushed, seekRequired := true, flushed := 0 }, some .syncFailed)

/-- `write(bs)`: the `for n < len(bs)` loop. `fuel` bounds the iterations (each one consumes at
least one byte when `cap > 0`; with `cap = 0` Go does not terminate → `hang`). -/
def writeLoop (syncOk : Bool) : Nat → SingleApp → Bytes → Nat → SingleApp × Nat × Option Err
  | 0, s, _, n => (s, n, some .hang)
  | fuel+1, s, rest, n =>
    if rest.isEmpty then (s, n, none)
    else
      let cont (s : SingleApp) (available : Nat) :=
        let k := min rest.length available
        writeLoop syncOk fuel { s with buf := s.buf ++ rest.take k } (rest.drop k) (n + k)
      let available := s.cap - s.buf.length
      if available = 0 then
        if s.retryableSync then
          if !s.autoSync then (s, n, some .bufferFull)
          else
            match sync s syncOk with
            | (s', some e) => (s', n, some e)
            | (s', none) => cont s' s'.cap
        else cont (flush s) s.cap
      else cont s available

def write (s : SingleApp) (bs : Bytes) (syncOk : Bool) : SingleApp × Nat × Option Err :=
  writeLoop syncOk (bs.length + 1) s bs 0

/-- `Append(bs)` (NoCompression): state, offset, n, error. -/
def append (s : SingleApp) (bs : Bytes) (syncOk : Bool := true) : SingleApp × Nat × Nat × Option Err :=
  if s.closed then (s, 0, 0, some .alreadyClosed)
  else if s.readOnly then (s, 0, 0, some .readOnly)
  else if bs.isEmpty then (s, 0, 0, some .illegalArguments)
  else
    let off := s.offset
    let (s', n, e) := write s bs syncOk
    (s', off, n, e)

/-- `readAt(bs, off)` with `len(bs) = n`: the bytes `bs[:n']` that were filled in and the error. -/
def readAtCore (s : SingleApp) (n : Nat) (off : Int) : Bytes × Option Err :=
  if off < 0 then ([], some .negativeOffset)
  else
    let off := off.toNat
    if off > s.offset then ([], some .eof)
    else
      -- `if off < aof.fileOffset { n, err = aof.f.ReadAt(bs, base+off) } else { boff = off - fileOffset }`
      -- NOTE: the file read is NOT bounded by fileOffset: bytes beyond the logical end of the file part are returned.
      let (d, ferr, boff) :=
        if off < s.fileOffset then
          let r := pread s.file off n
          (r.1, r.2, 0)
        else ([], false, off - s.fileOffset)
      let pending := n - d.length
      if pending > 0 then
        let available := (s.buf.length - s.flushed) - boff
        let k := min pending available
        (d ++ (s.buf.drop (s.flushed + boff)).take k, if k = pending then none else some .eof)
      else (d, if ferr then some .eof else none)

/-- `ReadAt(bs, off)`; `n = none` is `bs == nil`. -/
def readAt (s : SingleApp) (n : Option Nat) (off : Int) : Bytes × Option Err :=
  if s.closed then ([], some .alreadyClosed)
  else match n with
    | none => ([], some .illegalArguments)
    | some n => readAtCore s n off

/-- `SetOffset(newOffset)`: in-memory rewind when the target is still in the buffer, else the file
offset is moved back and a seek is requested.  The file is never truncated. -/
def setOffset (s : SingleApp) (newOffset : Int) : SingleApp × Option Err :=
  if s.closed then (s, some .alreadyClosed)
  else if s.readOnly then (s, some .readOnly)
  else if newOffset < 0 then (s, some .negativeOffset)
  else
    let no := newOffset.toNat
    let curr := s.offset
    if no > curr then (s, some .illegalArguments)
    else if no = curr then (s, none)
    else if no ≥ s.fileOffset then
      ({ s with buf := s.buf.take (s.buf.length - (curr - no)) }, none)
    else
      ({ s with fileOffset := no, seekRequired := true, flushed := 0, buf := [] }, none)

/-- `DiscardUpto(off)`: a bounds check only. -/
def discardUpto (s : SingleApp) (off : Int) : SingleApp × Option Err :=
  if s.closed then (s, some .alreadyClosed)
  else if (s.offset : Int) < off then (s, some .illegalArguments)
  else (s, none)

/-- `SwitchToReadOnlyMode()` -/
def switchRO (s : SingleApp) (syncOk : Bool := true) : SingleApp × Option Err :=
  if s.closed then (s, some .alreadyClosed)
  else if s.readOnly then (s, some .readOnly)
  else
    let s1 := flush s
    if s1.retryableSync then
      match sync s1 syncOk with
      | (s2, some e) => (s2, some e)
      | (s2, none) => ({ s2 with cap := 0, readOnly := true }, none)
    else ({ s1 with cap := 0, readOnly := true }, none)

/-- `Flush()` -/
def apiFlush (s : SingleApp) : SingleApp × Option Err :=
  if s.closed then (s, some .alreadyClosed)
  else if s.readOnly then (s, some .readOnly)
  else (flush s, none)

/-- `Sync()` -/
def apiSync (s : SingleApp) (syncOk : Bool := true) : SingleApp × Option Err :=
  if s.closed then (s, some .alreadyClosed)
  else if s.readOnly then (s, some .readOnly)
  else sync s syncOk

/-- `Size()` -/
def size (s : SingleApp) : Except Err Nat :=
  if s.closed then .error .alreadyClosed else .ok s.offset

/-- `Close()` -/
def close (s : SingleApp) : SingleApp × Option Err :=
  if s.closed then (s, some .alreadyClosed)
  else
    let s1 := if !s.readOnly then flush s else s
    ({ s1 with closed := true }, none)

/-- `Copy(dst)`: flush, then the WHOLE physical file (header + `file`) is copied; the result is the
content (after the header) of the copy. -/
def copy (s : SingleApp) : SingleApp × Except Err Bytes :=
  if s.closed then (s, .error .alreadyClosed)
  else
    let s1 := flush s
    ({ s1 with seekRequired := true, pos := s1.file.length }, .ok s1.file)

end SingleApp
end ImmuModel.Log
