import ImmuModel.Log.SingleAppLemmas
import ImmuModel.Log.SingleTrace
namespace ImmuModel.Log
namespace SingleApp

/-! ### operation sequences -/

/-- invariant + usable configuration (`Options.Validate`) -/
def WF (s : SingleApp) : Prop := Inv s ∧ (s.readOnly = false → 0 < s.cap)

theorem WF.of_sameCfg {s s' : SingleApp} (h : WF s) (hi : Inv s') (hc : SameCfg s s') : WF s' := by
  refine ⟨hi, ?_⟩
  rw [hc.1, hc.2.2.2.1]; exact h.2

theorem append_rejected (s : SingleApp) (bs : Bytes) (ok : Bool)
    (h : s.closed = true ∨ s.readOnly = true ∨ bs = []) :
    (append s bs ok).1 = s ∧ (append s bs ok).2.2.1 = 0 := by
  unfold append
  cases hc : s.closed
  · cases hro : s.readOnly
    · have : bs = [] := by simpa [hc, hro] using h
      subst this; simp
    · simp
  · simp

theorem setOffset_unchanged (s : SingleApp) (off : Int)
    (h : s.closed = true ∨ s.readOnly = true ∨ off < 0 ∨ off.toNat > s.offset) : (setOffset s off).1 = s := by
  unfold setOffset
  cases hc : s.closed
  · cases hro : s.readOnly
    · by_cases hneg : off < 0
      · simp [hneg]
      · have : off.toNat > s.offset := by simpa [hc, hro, hneg] using h
        simp [hneg, this]
    · simp
  · simp

theorem sync_spec_cfg (s : SingleApp) (ok : Bool) : SameCfg s (sync s ok).1 := by
  have fc := flush_sameCfg s
  unfold SameCfg at *
  simp only [sync]
  cases hr : (flush s).retryableSync <;> cases ok <;> simp <;> simp [hr] at fc <;> simp [fc, hr]

theorem copy_sameCfg (s : SingleApp) : SameCfg s (copy s).1 := by
  unfold copy
  cases s.closed
  · have := flush_sameCfg s
    exact this
  · exact SameCfg.refl s

theorem switchRO_cfg (s : SingleApp) (ok : Bool) :
    SameCfg s (switchRO s ok).1 ∨ (switchRO s ok).1.readOnly = true := by
  unfold switchRO
  cases s.closed
  · cases s.readOnly
    · simp only [Bool.false_eq_true, ↓reduceIte]
      have fc := flush_sameCfg s
      cases hr : (flush s).retryableSync
      · simp
      · simp only [↓reduceIte]
        have hi := (sync_spec_cfg (flush s) ok)
        match hsy : sync (flush s) ok with
        | (s2, some e) => rw [hsy] at hi; exact Or.inl (SameCfg.trans fc hi)
        | (s2, none) => exact Or.inr rfl
    · exact Or.inl (SameCfg.refl s)
  · exact Or.inl (SameCfg.refl s)

theorem step_wf {s : SingleApp} (h : WF s) (op : SOp) (hv : ValidOps [op]) : WF (step s op) := by
  obtain ⟨hi, hcap⟩ := h
  cases op with
  | append bs ok =>
    by_cases hr : s.closed = true ∨ s.readOnly = true ∨ bs = []
    · show WF (append s bs ok).1
      rw [(append_rejected s bs ok hr).1]; exact ⟨hi, hcap⟩
    · have hc : s.closed = false := by
        cases h : s.closed
        · rfl
        · exact absurd (Or.inl h) hr
      have hro : s.readOnly = false := by
        cases h : s.readOnly
        · rfl
        · exact absurd (Or.inr (Or.inl h)) hr
      have hne : bs ≠ [] := fun h => hr (Or.inr (Or.inr h))
      obtain ⟨ai, ac, _⟩ := append_spec hi (hcap hro) hc hro bs hne ok
      exact WF.of_sameCfg ⟨hi, hcap⟩ ai ac
  | setOffset off =>
    show WF (setOffset s off).1
    by_cases hr : s.closed = true ∨ s.readOnly = true ∨ off < 0 ∨ off.toNat > s.offset
    · rw [setOffset_unchanged s off hr]; exact ⟨hi, hcap⟩
    · have hc : s.closed = false := by
        cases h : s.closed
        · rfl
        · exact absurd (Or.inl h) hr
      have hro : s.readOnly = false := by
        cases h : s.readOnly
        · rfl
        · exact absurd (Or.inr (Or.inl h)) hr
      have hnn : 0 ≤ off := by
        by_cases h : off < 0
        · exact absurd (Or.inr (Or.inr (Or.inl h))) hr
        · omega
      have hle : off.toNat ≤ (abs s).size := by
        rw [abs_size hi]
        by_cases h : off.toNat > s.offset
        · exact absurd (Or.inr (Or.inr (Or.inr h))) hr
        · omega
      have hcast : ((off.toNat : Nat) : Int) = off := Int.toNat_of_nonneg hnn
      obtain ⟨_, si, sc, _⟩ := setOffset_spec hi hc hro off.toNat hle
      rw [hcast] at si sc
      exact WF.of_sameCfg ⟨hi, hcap⟩ si sc
  | flush =>
    obtain ⟨fi, _, fc, _⟩ := apiFlush_spec hi
    exact WF.of_sameCfg ⟨hi, hcap⟩ fi fc
  | sync ok =>
    obtain ⟨fi, _, fc, _⟩ := apiSync_spec hi ok
    exact WF.of_sameCfg ⟨hi, hcap⟩ fi fc
  | discardUpto off =>
    show WF (discardUpto s off).1
    rw [discardUpto_spec]; exact ⟨hi, hcap⟩
  | switchRO ok =>
    obtain ⟨ri, _, _, _⟩ := switchRO_spec hi ok
    refine ⟨ri, ?_⟩
    show (switchRO s ok).1.readOnly = false → 0 < (switchRO s ok).1.cap
    -- either nothing changed in the configuration, or the handle is read-only now
    intro hro
    have hcfg := switchRO_cfg s ok
    rcases hcfg with hcfg | hcfg
    · rw [hcfg.1]; apply hcap; rw [← hcfg.2.2.2.1]; exact hro
    · rw [hcfg] at hro; exact absurd hro (by simp)
  | copy =>
    obtain ⟨ci, _, _⟩ := copy_spec hi
    refine ⟨ci, ?_⟩
    show (copy s).1.readOnly = false → 0 < (copy s).1.cap
    have hcfg := copy_sameCfg s
    rw [hcfg.1, hcfg.2.2.2.1]; exact hcap
  | read n off => exact ⟨hi, hcap⟩
  | closeReopen o =>
    refine ⟨openFile_inv _ _ _, ?_⟩
    exact hv.1

theorem step_abs {s : SingleApp} (h : WF s) (op : SOp) (hop : ∀ o, op ≠ .closeReopen o) :
    abs (step s op) = specStep s (abs s) op := by
  obtain ⟨hi, hcap⟩ := h
  cases op with
  | append bs ok =>
    show abs (append s bs ok).1 = ⟨(abs s).bytes ++ bs.take (append s bs ok).2.2.1⟩
    by_cases hr : s.closed = true ∨ s.readOnly = true ∨ bs = []
    · obtain ⟨h1, h2⟩ := append_rejected s bs ok hr
      rw [h1, h2]; simp
    · have hc : s.closed = false := by
        cases h : s.closed
        · rfl
        · exact absurd (Or.inl h) hr
      have hro : s.readOnly = false := by
        cases h : s.readOnly
        · rfl
        · exact absurd (Or.inr (Or.inl h)) hr
      have hne : bs ≠ [] := fun h => hr (Or.inr (Or.inr h))
      obtain ⟨_, _, _, _, ab, _⟩ := append_spec hi (hcap hro) hc hro bs hne ok
      cases hx : abs (append s bs ok).1
      rw [hx] at ab
      simp only at ab
      rw [ab]
  | setOffset off =>
    show abs (setOffset s off).1 = _
    by_cases hr : s.closed = true ∨ s.readOnly = true ∨ off < 0 ∨ off.toNat > s.offset
    · rw [setOffset_unchanged s off hr]
      have : ¬ (s.closed = false ∧ s.readOnly = false ∧ 0 ≤ off ∧ off.toNat ≤ (abs s).size) := by
        rw [abs_size hi]
        rintro ⟨a, b, c, d⟩
        rcases hr with hr | hr | hr | hr
        · rw [a] at hr; exact absurd hr (by simp)
        · rw [b] at hr; exact absurd hr (by simp)
        · omega
        · omega
      simp only [specStep, this, ↓reduceIte]
    · have hc : s.closed = false := by
        cases h : s.closed
        · rfl
        · exact absurd (Or.inl h) hr
      have hro : s.readOnly = false := by
        cases h : s.readOnly
        · rfl
        · exact absurd (Or.inr (Or.inl h)) hr
      have hnn : 0 ≤ off := by
        by_cases h : off < 0
        · exact absurd (Or.inr (Or.inr (Or.inl h))) hr
        · omega
      have hle : off.toNat ≤ (abs s).size := by
        rw [abs_size hi]
        by_cases h : off.toNat > s.offset
        · exact absurd (Or.inr (Or.inr (Or.inr h))) hr
        · omega
      have hcast : ((off.toNat : Nat) : Int) = off := Int.toNat_of_nonneg hnn
      obtain ⟨_, _, _, sa, _⟩ := setOffset_spec hi hc hro off.toNat hle
      rw [hcast] at sa
      have : (s.closed = false ∧ s.readOnly = false ∧ 0 ≤ off ∧ off.toNat ≤ (abs s).size) := ⟨hc, hro, hnn, hle⟩
      simp only [specStep, this, and_self, ↓reduceIte]
      exact sa
  | flush => exact (apiFlush_spec hi).2.1
  | sync ok => exact (apiSync_spec hi ok).2.1
  | discardUpto off => show abs (discardUpto s off).1 = _; rw [discardUpto_spec]; rfl
  | switchRO ok => exact (switchRO_spec hi ok).2.1
  | copy => exact (copy_spec hi).2.1
  | read n off => rfl
  | closeReopen o => exact absurd rfl (hop o)

theorem step_noStale {s : SingleApp} (h : WF s) (hn : NoStaleTail s) (op : SOp) (hr : rewinds s op = false) :
    NoStaleTail (step s op) := by
  obtain ⟨hi, hcap⟩ := h
  cases op with
  | append bs ok =>
    have hok : ok = true := by simpa [rewinds] using hr
    show NoStaleTail (append s bs ok).1
    by_cases hr : s.closed = true ∨ s.readOnly = true ∨ bs = []
    · rw [(append_rejected s bs ok hr).1]; exact hn
    · have hc : s.closed = false := by
        cases h : s.closed
        · rfl
        · exact absurd (Or.inl h) hr
      have hro : s.readOnly = false := by
        cases h : s.readOnly
        · rfl
        · exact absurd (Or.inr (Or.inl h)) hr
      have hne : bs ≠ [] := fun h => hr (Or.inr (Or.inr h))
      exact (append_spec hi (hcap hro) hc hro bs hne ok).2.2.2.2.2.2.2.2 hok hn
  | setOffset off =>
    have hge : ¬ (off < (s.fileOffset : Int)) := by simpa [rewinds] using hr
    show NoStaleTail (setOffset s off).1
    by_cases hr : s.closed = true ∨ s.readOnly = true ∨ off < 0 ∨ off.toNat > s.offset
    · rw [setOffset_unchanged s off hr]; exact hn
    · have hc : s.closed = false := by
        cases h : s.closed
        · rfl
        · exact absurd (Or.inl h) hr
      have hro : s.readOnly = false := by
        cases h : s.readOnly
        · rfl
        · exact absurd (Or.inr (Or.inl h)) hr
      have hnn : 0 ≤ off := by omega
      have hle : off.toNat ≤ (abs s).size := by
        rw [abs_size hi]
        by_cases h : off.toNat > s.offset
        · exact absurd (Or.inr (Or.inr (Or.inr h))) hr
        · omega
      have hcast : ((off.toNat : Nat) : Int) = off := Int.toNat_of_nonneg hnn
      obtain ⟨_, _, _, _, sn⟩ := setOffset_spec hi hc hro off.toNat hle
      rw [hcast] at sn
      exact sn (by omega) hn
  | flush => exact (apiFlush_spec hi).2.2.2 hn
  | sync ok =>
    have hok : ok = true := by simpa [rewinds] using hr
    exact (apiSync_spec hi ok).2.2.2 hok hn
  | discardUpto off => show NoStaleTail (discardUpto s off).1; rw [discardUpto_spec]; exact hn
  | switchRO ok =>
    have hok : ok = true := by simpa [rewinds] using hr
    exact (switchRO_spec hi ok).2.2.1 hok hn
  | copy => exact (copy_spec hi).2.2 hn
  | read n off => exact hn
  | closeReopen o => exact openFile_noStale _ _ _

/-- Close + reopen keeps the content when no rolled-back bytes lie behind the logical end of the file. -/
theorem closeReopen_abs {s : SingleApp} (h : WF s) (hc : s.closed = false) (hn : NoStaleTail s) (o : SOpts) :
    abs (step s (.closeReopen o)) = abs s := by
  obtain ⟨ci, ca, cn, cb⟩ := close_spec h.1
  show abs ((close s).1.reopen o) = abs s
  rw [reopen_abs_of_clean _ o (cn hn) (cb hc).2, ca]

theorem run_wf : ∀ (ops : List SOp) (s : SingleApp), WF s → ValidOps ops → WF (run s ops) := by
  intro ops
  induction ops with
  | nil => intro s h _; exact h
  | cons op ops ih =>
    intro s h hv
    have hv1 : ValidOps [op] ∧ ValidOps ops := by
      cases op <;> simp [ValidOps] at hv ⊢ <;> first | exact hv | exact ⟨hv.1, hv.2⟩
    exact ih (step s op) (step_wf h op hv1.1) hv1.2

theorem switchRO_closed (s : SingleApp) (ok : Bool) : (switchRO s ok).1.closed = s.closed := by
  unfold switchRO
  cases hc : s.closed
  · cases s.readOnly
    · simp only [Bool.false_eq_true, ↓reduceIte]
      have fc := flush_sameCfg s
      have sc := sync_spec_cfg (flush s) ok
      cases hr : (flush s).retryableSync
      · simp only [Bool.false_eq_true, ↓reduceIte]; rw [← hc]; exact fc.2.2.2.2.1
      · simp only [↓reduceIte]
        match hsy : sync (flush s) ok with
        | (s2, some e) => rw [hsy] at sc; simp only; rw [sc.2.2.2.2.1, fc.2.2.2.2.1, hc]
        | (s2, none) => rw [hsy] at sc; simp only; rw [sc.2.2.2.2.1, fc.2.2.2.2.1, hc]
    · simp [hc]
  · simp [hc]

theorem step_open {s : SingleApp} (h : WF s) (hc : s.closed = false) (op : SOp) : (step s op).closed = false := by
  obtain ⟨hi, hcap⟩ := h
  cases op with
  | append bs ok =>
    show (append s bs ok).1.closed = false
    by_cases hr : s.closed = true ∨ s.readOnly = true ∨ bs = []
    · rw [(append_rejected s bs ok hr).1]; exact hc
    · have hro : s.readOnly = false := by
        cases h : s.readOnly
        · rfl
        · exact absurd (Or.inr (Or.inl h)) hr
      have hne : bs ≠ [] := fun h => hr (Or.inr (Or.inr h))
      obtain ⟨_, ac, _⟩ := append_spec hi (hcap hro) hc hro bs hne ok
      rw [ac.2.2.2.2.1]; exact hc
  | setOffset off =>
    show (setOffset s off).1.closed = false
    by_cases hr : s.closed = true ∨ s.readOnly = true ∨ off < 0 ∨ off.toNat > s.offset
    · rw [setOffset_unchanged s off hr]; exact hc
    · have hro : s.readOnly = false := by
        cases h : s.readOnly
        · rfl
        · exact absurd (Or.inr (Or.inl h)) hr
      have hnn : 0 ≤ off := by
        by_cases h : off < 0
        · exact absurd (Or.inr (Or.inr (Or.inl h))) hr
        · omega
      have hle : off.toNat ≤ (abs s).size := by
        rw [abs_size hi]
        by_cases h : off.toNat > s.offset
        · exact absurd (Or.inr (Or.inr (Or.inr h))) hr
        · omega
      have hcast : ((off.toNat : Nat) : Int) = off := Int.toNat_of_nonneg hnn
      obtain ⟨_, _, sc, _⟩ := setOffset_spec hi hc hro off.toNat hle
      rw [hcast] at sc
      rw [sc.2.2.2.2.1]; exact hc
  | flush => rw [show step s .flush = (apiFlush s).1 from rfl, (apiFlush_spec hi).2.2.1.2.2.2.2.1]; exact hc
  | sync ok => rw [show step s (.sync ok) = (apiSync s ok).1 from rfl, (apiSync_spec hi ok).2.2.1.2.2.2.2.1]; exact hc
  | discardUpto off => show (discardUpto s off).1.closed = false; rw [discardUpto_spec]; exact hc
  | switchRO ok => show (switchRO s ok).1.closed = false; rw [switchRO_closed]; exact hc
  | copy => rw [show step s .copy = (copy s).1 from rfl, (copy_sameCfg s).2.2.2.2.1]; exact hc
  | read n off => exact hc
  | closeReopen o => rfl

/-- **Refinement over whole histories** without a file rewind: the content equals the byte-log run and
no rolled-back bytes lie behind the logical end of the file. -/
theorem run_refines : ∀ (ops : List SOp) (s : SingleApp), WF s → s.closed = false → ValidOps ops →
    NoStaleTail s → RewindFree s ops →
    abs (run s ops) = specRun s (abs s) ops ∧ NoStaleTail (run s ops) ∧ WF (run s ops) ∧ (run s ops).closed = false := by
  intro ops
  induction ops with
  | nil => intro s h hc _ hn _; exact ⟨rfl, hn, h, hc⟩
  | cons op ops ih =>
    intro s h hc hv hn hr
    have hv1 : ValidOps [op] ∧ ValidOps ops := by
      cases op <;> simp [ValidOps] at hv ⊢ <;> first | exact hv | exact ⟨hv.1, hv.2⟩
    obtain ⟨hr1, hr2⟩ := hr
    have hstep : abs (step s op) = specStep s (abs s) op := by
      by_cases hop : ∀ o, op ≠ .closeReopen o
      · exact step_abs h op hop
      · have : ∃ o, op = .closeReopen o := by
          cases op <;> simp at hop ⊢
        obtain ⟨o, rfl⟩ := this
        rw [closeReopen_abs h hc hn o]; rfl
    have := ih (step s op) (step_wf h op hv1.1) (step_open h hc op) hv1.2 (step_noStale h hn op hr1) hr2
    show abs (run (step s op) ops) = specRun (step s op) (specStep s (abs s) op) ops ∧ _
    rw [← hstep]; exact this

/-- Refinement over histories with arbitrary rewinds, as long as the file is not reopened. -/
theorem run_abs_noReopen : ∀ (ops : List SOp) (s : SingleApp), WF s →
    (∀ op ∈ ops, ∀ o, op ≠ .closeReopen o) →
    abs (run s ops) = specRun s (abs s) ops ∧ WF (run s ops) := by
  intro ops
  induction ops with
  | nil => intro s h _; exact ⟨rfl, h⟩
  | cons op ops ih =>
    intro s h hno
    have hop : ∀ o, op ≠ .closeReopen o := hno op (by simp)
    have hv : ValidOps [op] := by
      cases op <;> simp [ValidOps]
      exact absurd rfl (hop _)
    have := ih (step s op) (step_wf h op hv) (fun op' hm => hno op' (by simp [hm]))
    show abs (run (step s op) ops) = specRun (step s op) (specStep s (abs s) op) ops ∧ _
    rw [← step_abs h op hop]; exact this

end SingleApp
end ImmuModel.Log
