/-
C17 — multiapp mirror model, WRITE side: `Append` (with chunk rotation), `Flush`, `Sync`,
`SwitchToReadOnlyMode`, `Close` refine the byte-log spec (`MultiApp.abs`) and preserve `MultiApp.MInv`.
Main statements: `append_spec`, `append_spec_general`, `append_rejected`, `flush_spec`, `sync_spec`,
`switchRO_spec`, `close_spec`.  Core Lean only.
-/
import ImmuModel.Log.MultiBase
import ImmuModel.Log.SingleTraceLemmas

namespace ImmuModel.Log

namespace SingleApp

/-- complete description of `SwitchToReadOnlyMode` on a writable open handle -/
theorem switchRO_full {s : SingleApp} (h : Inv s) (hc : s.closed = false) (hro : s.readOnly = false) (ok : Bool) :
    Inv (switchRO s ok).1 ∧ abs (switchRO s ok).1 = abs s ∧
    s.file.length ≤ (switchRO s ok).1.file.length ∧
    (switchRO s ok).1.file.length ≤ max s.file.length s.offset ∧
    ((switchRO s ok).2 = none → (switchRO s ok).1.readOnly = true ∧ (switchRO s ok).1.cap = 0) ∧
    ((switchRO s ok).2 ≠ none → SameCfg s (switchRO s ok).1) ∧
    (switchRO s ok).1.closed = false ∧ (switchRO s ok).1.retryableSync = s.retryableSync ∧
    (switchRO s ok).1.autoSync = s.autoSync ∧ (switchRO s ok).1.mdata = s.mdata ∧
    (ok = true → (switchRO s ok).2 = none) := by
  obtain ⟨ri, ra, _, _⟩ := switchRO_spec h ok
  refine ⟨ri, ra, ?_⟩
  obtain ⟨fi, fa, _⟩ := flush_spec h
  have fc := flush_sameCfg s
  have hfl := flush_file_len h
  have hfo : (flush s).offset = s.offset := by rw [← abs_size fi, ← abs_size h, fa]
  simp only [switchRO, hc, hro, Bool.false_eq_true, ↓reduceIte]
  cases hr : (flush s).retryableSync
  · simp only [Bool.false_eq_true, ↓reduceIte]
    refine ⟨hfl.1, hfl.2, by simp, by simp, ?_, ?_, ?_, ?_, by simp⟩
    · show (flush s).closed = false; rw [fc.2.2.2.2.1, hc]
    · rw [← fc.2.1, hr]
    · show (flush s).autoSync = s.autoSync; exact fc.2.2.1
    · show (flush s).mdata = s.mdata; exact fc.2.2.2.2.2
  · simp only [↓reduceIte]
    have sc := sync_spec_cfg (flush s) ok
    have sl := sync_file_len fi ok
    have sok := (sync_spec fi ok).2.2.2.2.1
    rcases hsy : sync (flush s) ok with ⟨s2, e⟩
    rw [hsy] at sc sl sok
    simp only at sc sl sok
    have hcfg := SameCfg.trans fc sc
    cases e with
    | some e =>
      simp only
      refine ⟨by omega, by omega, fun hh => by simp at hh, fun _ => hcfg, ?_, hcfg.2.1, hcfg.2.2.1, hcfg.2.2.2.2.2, ?_⟩
      · rw [hcfg.2.2.2.2.1, hc]
      · intro hk; have := sok hk; simp at this
    | none =>
      simp only
      refine ⟨by omega, by omega, by simp, by simp, ?_, hcfg.2.1, hcfg.2.2.1, hcfg.2.2.2.2.2, by simp⟩
      show s2.closed = false
      rw [hcfg.2.2.2.2.1, hc]

theorem apiFlush_file_len {s : SingleApp} (h : Inv s) :
    s.file.length ≤ (apiFlush s).1.file.length ∧ (apiFlush s).1.file.length ≤ max s.file.length s.offset := by
  unfold apiFlush
  cases s.closed
  · cases s.readOnly
    · exact flush_file_len h
    · simp only [↓reduceIte, Bool.false_eq_true]; omega
  · simp only [↓reduceIte]; omega

theorem apiSync_file_len {s : SingleApp} (h : Inv s) (ok : Bool) :
    s.file.length ≤ (apiSync s ok).1.file.length ∧ (apiSync s ok).1.file.length ≤ max s.file.length s.offset := by
  unfold apiSync
  cases s.closed
  · cases s.readOnly
    · exact sync_file_len h ok
    · simp only [↓reduceIte, Bool.false_eq_true]; omega
  · simp only [↓reduceIte]; omega

theorem switchRO_err {s : SingleApp} (h : Inv s) (hc : s.closed = false) (hro : s.readOnly = false) (ok : Bool) :
    (switchRO s ok).2 = none ∨ (switchRO s ok).2 = some .syncFailed := by
  simp only [switchRO, hc, hro, Bool.false_eq_true, ↓reduceIte]
  cases hr : (flush s).retryableSync
  · simp
  · simp only [↓reduceIte]
    have := (sync_spec (flush_spec h).1 ok).2.2.2.1
    rcases hsy : sync (flush s) ok with ⟨s2, e⟩
    rw [hsy] at this
    cases e with
    | none => simp
    | some e => simpa using this

end SingleApp

namespace MultiApp

theorem prefixBytes_congr {m m' : MultiApp} (hfs : m'.fileSize = m.fileSize) :
    ∀ k, (∀ i, i < k → m'.disk i = m.disk i) → prefixBytes m' k = prefixBytes m k := by
  intro k
  induction k with
  | zero => intro _; rfl
  | succ k ih =>
    intro hd
    simp only [prefixBytes]
    rw [ih (fun i hi => hd i (by omega))]
    congr 1
    simp only [chunkOr, hd k (by omega), hfs]

/-- replacing the current handle by one with the same configuration whose file still fits the chunk -/
theorem withCur_minv {m : MultiApp} (h : MInv m) {c : SingleApp} (hi : SingleApp.Inv c)
    (hlen : c.file.length ≤ m.fileSize) (hoff : c.offset ≤ m.fileSize) (hcfg : SingleApp.SameCfg m.cur c) :
    MInv (m.withCur c) := by
  obtain ⟨c1, c2, c3, c4, c5, c6⟩ := hcfg
  obtain ⟨g1, g2, g3, g4, g5, g6⟩ := h.cfg
  refine ⟨h.fs_pos, hi, ?_, hlen, hoff, ?_, ?_, h.cache_ok, ⟨h.top_ok.1, ?_⟩, ?_⟩
  · simp [withCur, upd]
  · intro i f hlt hd
    have : i ≠ m.curId := by show i ≠ m.curId; exact Nat.ne_of_lt hlt
    simp only [withCur, upd, this, ↓reduceIte] at hd
    exact h.below_full i f hlt hd
  · intro i f hd
    simp only [withCur, upd] at hd
    by_cases hic : i = m.curId
    · simp only [hic, ↓reduceIte, Option.some.injEq] at hd
      rw [← hd]; exact hlen
    · simp only [hic, ↓reduceIte] at hd
      exact h.all_le i f hd
  · intro i hle
    have hle' : m.top ≤ i := hle
    have : i ≠ m.curId := by have := h.top_ok.1; omega
    simp only [withCur, upd, this, ↓reduceIte]
    exact h.top_ok.2 i hle
  · show c.closed = false ∧ c.readOnly = m.readOnly ∧ c.retryableSync = m.retryableSync ∧
        c.autoSync = m.autoSync ∧ c.mdata = m.mdata ∧ (m.readOnly = false → c.cap = m.cap ∧ 0 < m.cap)
    rw [c1, c2, c3, c4, c5, c6]
    exact ⟨g1, g2, g3, g4, g5, g6⟩

theorem withCur_abs (m : MultiApp) (c : SingleApp) :
    (abs (m.withCur c)).bytes = prefixBytes m m.curId ++ (SingleApp.abs c).bytes := by
  show prefixBytes (m.withCur c) m.curId ++ (SingleApp.abs c).bytes = _
  rw [prefixBytes_congr (m := m) (m' := m.withCur c) rfl]
  intro i hi
  have : i ≠ m.curId := Nat.ne_of_lt hi
  simp [withCur, upd, this]

theorem withCur_present (m : MultiApp) (c : SingleApp) (lo : Nat) (hp : Present m lo) : Present (m.withCur c) lo := by
  intro i h1 h2
  have : i ≠ m.curId := Nat.ne_of_lt h2
  simp only [withCur, upd, this, ↓reduceIte]
  exact hp i h1 h2

/-- same logical content, same configuration -/
theorem withCur_same {m : MultiApp} (h : MInv m) {c : SingleApp} (hi : SingleApp.Inv c)
    (ha : SingleApp.abs c = SingleApp.abs m.cur) (hcfg : SingleApp.SameCfg m.cur c)
    (hlen : c.file.length ≤ max m.cur.file.length m.cur.offset) :
    MInv (m.withCur c) ∧ abs (m.withCur c) = abs m ∧ (∀ lo, Present m lo → Present (m.withCur c) lo) := by
  have ho : c.offset = m.cur.offset := by rw [← SingleApp.abs_size hi, ← SingleApp.abs_size h.cur_inv, ha]
  have := h.cur_len; have := h.cur_off
  refine ⟨withCur_minv h hi (by omega) (by omega) hcfg, ?_, fun lo hp => withCur_present m c lo hp⟩
  have := withCur_abs m c
  rw [ha] at this
  cases hx : abs (m.withCur c)
  rw [hx] at this
  simp only at this
  rw [this]; rfl

/-- the loop body of `Append` after the (possible) chunk rotation -/
def appendBody (syncOk : Bool) (fuel : Nat) (rest : Bytes) (n off : Nat) (m : MultiApp) (available : Nat) :
    MultiApp × Nat × Nat × Option Err :=
  match m.cur.append (rest.take (min available rest.length)) syncOk with
  | (c, _, _, some e) => (m.withCur c, off, n, some e)
  | (c, offn, _, none) =>
    appendLoop syncOk fuel (m.withCur c) (rest.drop (min available rest.length)) (n + min available rest.length)
      (if n = 0 then offn + m.curId * m.fileSize else off)

/-- the state after a successful rotation, before `SetOffset(0)` on the new chunk -/
def rotated (m : MultiApp) (c : SingleApp) : MultiApp :=
  let m1 := m.withCur c
  let c2 := match m1.disk (m1.curId + 1) with
    | some f => SingleApp.openFile f m1.sopts m1.mdata
    | none => SingleApp.create m1.sopts (if m1.prealloc then m1.fileSize else 0) m1.mdata
  { m1 with cache := (m1.cache.put m1.curId c.fileOffset).1, curId := m1.curId + 1, cur := c2,
            disk := upd m1.disk (m1.curId + 1) (some c2.file), top := max m1.top (m1.curId + 1 + 1) }

theorem appendLoop_succ (syncOk : Bool) (fuel : Nat) (m : MultiApp) (rest : Bytes) (n off : Nat) :
    appendLoop syncOk (fuel + 1) m rest n off =
      if rest.isEmpty then (m, off, n, none)
      else if m.fileSize ≤ m.cur.offset then
        match m.cur.switchRO syncOk with
        | (c, some e) => (m.withCur c, off, n, some e)
        | (c, none) =>
          match (rotated m c).cur.setOffset 0 with
          | (c3, some e) => ((rotated m c).withCur c3, off, n, some e)
          | (c3, none) => appendBody syncOk fuel rest n off ((rotated m c).withCur c3) (rotated m c).fileSize
      else appendBody syncOk fuel rest n off m (m.fileSize - m.cur.offset) := by
  rfl

/-- configuration of the multi-file appendable that `Append`/`Flush`/`Sync` never change -/
def SameM (m m' : MultiApp) : Prop :=
  m'.closed = m.closed ∧ m'.readOnly = m.readOnly ∧ m'.fileSize = m.fileSize ∧ m'.autoSync = m.autoSync ∧
  m'.retryableSync = m.retryableSync ∧ m'.cap = m.cap ∧ m'.mdata = m.mdata ∧ m'.prealloc = m.prealloc

theorem SameM.refl (m : MultiApp) : SameM m m := ⟨rfl, rfl, rfl, rfl, rfl, rfl, rfl, rfl⟩

theorem SameM.trans {a b c : MultiApp} (h1 : SameM a b) (h2 : SameM b c) : SameM a c := by
  obtain ⟨a1, a2, a3, a4, a5, a6, a7, a8⟩ := h1
  obtain ⟨b1, b2, b3, b4, b5, b6, b7, b8⟩ := h2
  exact ⟨b1.trans a1, b2.trans a2, b3.trans a3, b4.trans a4, b5.trans a5, b6.trans a6, b7.trans a7, b8.trans a8⟩

theorem withCur_sameM (m : MultiApp) (c : SingleApp) : SameM m (m.withCur c) := ⟨rfl, rfl, rfl, rfl, rfl, rfl, rfl, rfl⟩

/-- explicit form of `rotated`: the new chunk is a freshly opened handle on some file `g` -/
def rot (m : MultiApp) (c : SingleApp) (g : Bytes) : MultiApp :=
  { m with cur := SingleApp.openFile g m.sopts m.mdata, curId := m.curId + 1,
           cache := (m.cache.put m.curId c.fileOffset).1,
           disk := upd (upd m.disk m.curId (some c.file)) (m.curId + 1) (some g),
           top := max m.top (m.curId + 1 + 1) }

theorem rotated_cur (m : MultiApp) (h : MInv m) (c : SingleApp) :
    ∃ g, g.length ≤ m.fileSize ∧
      rotated m c = rot m c g := by
  cases hd : m.disk (m.curId + 1) with
  | some f =>
    refine ⟨f, h.all_le _ _ hd, ?_⟩
    simp [rotated, rot, withCur, upd, hd, sopts, SingleApp.openFile]
  | none =>
    refine ⟨List.replicate (if m.prealloc then m.fileSize else 0) 0, ?_, ?_⟩
    · simp only [List.length_replicate]; split <;> omega
    · simp [rotated, rot, withCur, upd, hd, sopts, SingleApp.openFile, SingleApp.create]
      exact ⟨rfl, rfl⟩

theorem rotate_spec {m : MultiApp} (h : MInv m) (hro : m.readOnly = false) (hfull : m.fileSize ≤ m.cur.offset)
    (ok : Bool) (c : SingleApp) (hsw : m.cur.switchRO ok = (c, none)) :
    ((rotated m c).cur.setOffset 0).2 = none ∧
    MInv ((rotated m c).withCur ((rotated m c).cur.setOffset 0).1) ∧
    abs ((rotated m c).withCur ((rotated m c).cur.setOffset 0).1) = abs m ∧
    ((rotated m c).withCur ((rotated m c).cur.setOffset 0).1).cur.offset = 0 ∧
    ((rotated m c).withCur ((rotated m c).cur.setOffset 0).1).curId = m.curId + 1 ∧
    SameM m ((rotated m c).withCur ((rotated m c).cur.setOffset 0).1) ∧
    (∀ lo, Present m lo → Present ((rotated m c).withCur ((rotated m c).cur.setOffset 0).1) lo) := by
  obtain ⟨g1, g2, g3, g4, g5, g6⟩ := h.cfg
  obtain ⟨ci, ca, cl1, cl2, cro, _, ccl, crs, cas, cmd, _⟩ :=
    SingleApp.switchRO_full h.cur_inv g1 (by rw [g2, hro]) ok
  rw [hsw] at ci ca cl1 cl2 cro ccl crs cas cmd
  simp only at ci ca cl1 cl2 cro ccl crs cas cmd
  obtain ⟨cro, ccap⟩ := cro trivial
  have hbuf : c.buf = [] := ci.ro_clean cro
  have hoff : c.offset = m.cur.offset := by
    rw [← SingleApp.abs_size ci, ← SingleApp.abs_size h.cur_inv, ca]
  have hcoff : m.cur.offset = m.fileSize := by have := h.cur_off; omega
  have hcfo : c.fileOffset = m.fileSize := by
    rw [← hcoff, ← hoff]; simp [SingleApp.offset, hbuf]
  have hclen : c.file.length = m.fileSize := by
    have := ci.fo_le; have := h.cur_len; omega
  have hcfile : (SingleApp.abs m.cur).bytes = c.file := by
    rw [← ca]
    simp only [SingleApp.abs, hbuf, List.drop_nil, List.append_nil]
    exact List.take_of_length_le (by omega)
  obtain ⟨g, hg, hrot⟩ := rotated_cur m h c
  rw [hrot]
  have hcur : (rot m c g).cur = SingleApp.openFile g m.sopts m.mdata := rfl
  rw [hcur]
  have oi := SingleApp.openFile_inv g m.sopts m.mdata
  have oa := SingleApp.openFile_abs g m.sopts m.mdata
  obtain ⟨se, si, sc, sa, _⟩ := SingleApp.setOffset_spec oi (by simp [SingleApp.openFile])
    (by simp [SingleApp.openFile, sopts, hro]) 0 (Nat.zero_le _)
  have sf := SingleApp.setOffset_file (SingleApp.openFile g m.sopts m.mdata) ((0 : Nat) : Int)
  generalize hc3 : SingleApp.setOffset (SingleApp.openFile g m.sopts m.mdata) ((0 : Nat) : Int) = r at se si sc sa sf
  have sa' : (SingleApp.abs r.1).bytes = [] := by rw [sa]; simp
  have so : r.1.offset = 0 := by
    rw [← SingleApp.abs_size si]; simp [ByteLog.size, sa']
  have sfile : r.1.file = g := by rw [sf]; rfl
  obtain ⟨s1, s2, s3, s4, s5, s6⟩ := sc
  have hdisk : ∀ i, ((rot m c g).withCur r.1).disk i =
      if i = m.curId + 1 then some g else if i = m.curId then some c.file else m.disk i := by
    intro i
    by_cases h1 : i = m.curId + 1
    · simp [withCur, rot, upd, h1, sfile]
    · simp [withCur, rot, upd, h1]
  refine ⟨se, ⟨h.fs_pos, si, ?_, ?_, ?_, ?_, ?_, ?_, ⟨?_, ?_⟩, ?_⟩, ?_, so, rfl, ⟨rfl, rfl, rfl, rfl, rfl, rfl, rfl, rfl⟩, ?_⟩
  · simp [withCur, upd]
  · show r.1.file.length ≤ m.fileSize
    rw [sfile]; exact hg
  · show r.1.offset ≤ m.fileSize
    rw [so]; exact Nat.zero_le _
  · intro i f hlt hd
    have hlt' : i < m.curId + 1 := hlt
    have hne : i ≠ m.curId + 1 := by omega
    rw [hdisk] at hd
    show f.length = m.fileSize
    simp only [hne, ↓reduceIte] at hd
    by_cases hic : i = m.curId
    · simp only [hic, ↓reduceIte, Option.some.injEq] at hd
      rw [← hd]; exact hclen
    · simp only [hic, ↓reduceIte] at hd
      exact h.below_full i f (by omega) hd
  · intro i f hd
    rw [hdisk] at hd
    show f.length ≤ m.fileSize
    by_cases hi1 : i = m.curId + 1
    · simp only [hi1, ↓reduceIte, Option.some.injEq] at hd
      rw [← hd]; exact hg
    · simp only [hi1, ↓reduceIte] at hd
      by_cases hic : i = m.curId
      · simp only [hic, ↓reduceIte, Option.some.injEq] at hd
        rw [← hd, hclen]; exact Nat.le_refl _
      · simp only [hic, ↓reduceIte] at hd
        exact h.all_le i f hd
  · intro p hp hlt
    have hp' : p ∈ (m.cache.put m.curId c.fileOffset).1.pairs := hp
    have hlt' : p.1 < m.curId + 1 := hlt
    show p.2 = m.fileSize
    rcases Cache.put_pairs hp' with hp' | ⟨hp', hne⟩
    · rw [hp']; exact hcfo
    · exact h.cache_ok p hp' (by omega)
  · show m.curId + 1 < max m.top (m.curId + 1 + 1)
    omega
  · intro i hle
    have hle' : max m.top (m.curId + 1 + 1) ≤ i := hle
    have := h.top_ok.1
    have h1 : i ≠ m.curId + 1 := by omega
    have h2 : i ≠ m.curId := by omega
    rw [hdisk]
    simp only [h1, h2, ↓reduceIte]
    exact h.top_ok.2 i (by omega)
  · show r.1.closed = false ∧ r.1.readOnly = m.readOnly ∧ r.1.retryableSync = m.retryableSync ∧
      r.1.autoSync = m.autoSync ∧ r.1.mdata = m.mdata ∧ (m.readOnly = false → r.1.cap = m.cap ∧ 0 < m.cap)
    rw [s1, s2, s3, s4, s5, s6]
    exact ⟨rfl, rfl, rfl, rfl, rfl, fun hh => ⟨rfl, (g6 hh).2⟩⟩
  · -- abs
    have hb : (abs ((rot m c g).withCur r.1)).bytes = (abs m).bytes := by
      show prefixBytes ((rot m c g).withCur r.1) (m.curId + 1) ++ (SingleApp.abs r.1).bytes
        = prefixBytes m m.curId ++ (SingleApp.abs m.cur).bytes
      simp only [sa', List.append_nil, prefixBytes]
      rw [hcfile]
      congr 1
      · apply prefixBytes_congr (m := m) (m' := (rot m c g).withCur r.1) rfl
        intro i hi
        have h1 : i ≠ m.curId + 1 := by omega
        have h2 : i ≠ m.curId := by omega
        show ((rot m c g).withCur r.1).disk i = m.disk i
        rw [hdisk]; simp [h1, h2]
      · have : ((rot m c g).withCur r.1).disk m.curId = some c.file := by rw [hdisk]; simp
        show chunkOr ((rot m c g).withCur r.1) m.curId = c.file
        simp [chunkOr, this]
    cases hx : abs ((rot m c g).withCur r.1)
    rw [hx] at hb
    simp only at hb
    rw [hb]
  · intro lo hp i h1 h2
    have h2' : i < m.curId + 1 := h2
    have hne : i ≠ m.curId + 1 := by omega
    rw [hdisk]
    simp only [hne, ↓reduceIte]
    by_cases hic : i = m.curId
    · simp [hic]
    · simp only [hic, ↓reduceIte]
      exact hp i h1 (by omega)

/-- outcome of the `Append` loop started in `m` with `rest` still to write -/
def LoopOk (syncOk : Bool) (m : MultiApp) (rest : Bytes) (n off : Nat) (r : MultiApp × Nat × Nat × Option Err) : Prop :=
  MInv r.1 ∧ SameM m r.1 ∧ (∀ lo, Present m lo → Present r.1 lo) ∧
  (∃ k, k ≤ rest.length ∧ (abs r.1).bytes = (abs m).bytes ++ rest.take k ∧ (r.2.2.2 = none → k = rest.length)) ∧
  (r.2.2.2 = none → r.2.2.1 = n + rest.length ∧ (0 < n → r.2.1 = off) ∧ (n = 0 → rest ≠ [] → r.2.1 = (abs m).size)) ∧
  (r.2.2.2 = none ∨ r.2.2.2 = some .bufferFull ∨ r.2.2.2 = some .syncFailed) ∧
  (syncOk = true → (m.autoSync = true ∨ m.retryableSync = false) → r.2.2.2 = none)

theorem LoopOk.transport {syncOk : Bool} {m m' : MultiApp} {rest : Bytes} {n off : Nat}
    {r : MultiApp × Nat × Nat × Option Err} (ha : abs m' = abs m) (hs : SameM m m')
    (hp : ∀ lo, Present m lo → Present m' lo) (h : LoopOk syncOk m' rest n off r) : LoopOk syncOk m rest n off r := by
  obtain ⟨l1, l2, l3, l4, l5, l6, l7⟩ := h
  rw [ha] at l4 l5
  refine ⟨l1, SameM.trans hs l2, fun lo h => l3 lo (hp lo h), l4, l5, l6, ?_⟩
  intro hk hm
  apply l7 hk
  rw [hs.2.2.2.1, hs.2.2.2.2.1]; exact hm

theorem appendBody_spec (syncOk : Bool) (fuel : Nat) (rest : Bytes) (n off : Nat) (m : MultiApp) (avail : Nat)
    (ih : ∀ (m' : MultiApp) (rest' : Bytes) (n' off' : Nat), MInv m' → m'.readOnly = false → rest'.length < fuel →
      LoopOk syncOk m' rest' n' off' (appendLoop syncOk fuel m' rest' n' off'))
    (h : MInv m) (hro : m.readOnly = false) (hne : rest ≠ []) (hfuel : rest.length < fuel + 1)
    (hav : 0 < avail) (hfit : m.cur.offset + avail ≤ m.fileSize) :
    LoopOk syncOk m rest n off (appendBody syncOk fuel rest n off m avail) := by
  obtain ⟨g1, g2, g3, g4, g5, g6⟩ := h.cfg
  have hrl : 0 < rest.length := List.length_pos_iff.mpr hne
  have hd0 : 0 < min avail rest.length := by omega
  have hxl : (rest.take (min avail rest.length)).length = min avail rest.length := by
    simp only [List.length_take]; omega
  have hxne : rest.take (min avail rest.length) ≠ [] := by
    intro hh; rw [hh] at hxl; simp at hxl; omega
  have hcro : m.cur.readOnly = false := by rw [g2, hro]
  obtain ⟨ai, ac, aoff, an, aa, anone, acls, aok, _⟩ :=
    SingleApp.append_spec h.cur_inv (by rw [(g6 hro).1]; exact (g6 hro).2) g1 hcro _ hxne syncOk
  have afl := SingleApp.append_file_len h.cur_inv (rest.take (min avail rest.length)) syncOk m.fileSize h.cur_len
    (by rw [hxl]; omega)
  unfold appendBody
  rcases hap : m.cur.append (rest.take (min avail rest.length)) syncOk with ⟨c, offn, nn, e⟩
  rw [hap] at ai ac aoff an aa anone acls aok afl
  simp only at ai ac aoff an aa anone acls aok afl
  rw [hxl] at an anone
  have hcs : (SingleApp.abs c).size = m.cur.offset + nn := by
    rw [← SingleApp.abs_size h.cur_inv]
    simp only [ByteLog.size, aa, List.length_append, List.length_take]
    omega
  have hco : c.offset ≤ m.fileSize := by rw [← SingleApp.abs_size ai, hcs]; omega
  have hminv : MInv (m.withCur c) := withCur_minv h ai afl.1 hco ac
  have habs : (abs (m.withCur c)).bytes = (abs m).bytes ++ rest.take (min nn (min avail rest.length)) := by
    rw [withCur_abs, aa, List.take_take, ← List.append_assoc]; rfl
  cases e with
  | some e =>
    simp only
    refine ⟨hminv, withCur_sameM m c, fun lo hp => withCur_present m c lo hp,
      ⟨min nn (min avail rest.length), by omega, habs, by simp⟩, by simp, ?_, ?_⟩
    · rcases acls with h | h | h
      · simp at h
      · right; left; exact h
      · right; right; exact h
    · intro hk hm
      apply aok hk
      rw [g4, g3]; exact hm
  | none =>
    simp only
    have hnn : nn = min avail rest.length := anone rfl
    have hmin : min nn (min avail rest.length) = min avail rest.length := by omega
    rw [hmin] at habs
    have hl' : (rest.drop (min avail rest.length)).length < fuel := by
      simp only [List.length_drop]; omega
    obtain ⟨l1, l2, l3, ⟨k, lk, la, lnone⟩, l5, l6, l7⟩ := ih (m.withCur c) (rest.drop (min avail rest.length))
      (n + min avail rest.length) (if n = 0 then offn + m.curId * m.fileSize else off) hminv hro hl'
    simp only [List.length_drop] at lk lnone l5
    refine ⟨l1, SameM.trans (withCur_sameM m c) l2, fun lo hp => l3 lo (withCur_present m c lo hp),
      ⟨min avail rest.length + k, by omega, ?_, fun hh => by have := lnone hh; omega⟩, ?_, l6, ?_⟩
    · rw [la, habs, List.append_assoc, ← List.take_add]
    · intro hh
      obtain ⟨e1, e2, _⟩ := l5 hh
      refine ⟨by omega, ?_, ?_⟩
      · intro hn
        have : ¬ (n = 0) := by omega
        rw [e2 (by omega)]; simp [this]
      · intro hn _
        rw [e2 (by omega)]
        simp only [hn, ↓reduceIte]
        rw [abs_size h, aoff, SingleApp.abs_size h.cur_inv, offset]; omega
    · intro hk hm
      exact l7 hk hm

theorem appendLoop_spec (syncOk : Bool) : ∀ (fuel : Nat) (m : MultiApp) (rest : Bytes) (n off : Nat),
    MInv m → m.readOnly = false → rest.length < fuel →
    LoopOk syncOk m rest n off (appendLoop syncOk fuel m rest n off) := by
  intro fuel
  induction fuel with
  | zero => intro m rest n off _ _ hl; omega
  | succ fuel ih =>
    intro m rest n off h hro hfuel
    rw [appendLoop_succ]
    by_cases hne : rest = []
    · subst hne
      simp only [List.isEmpty_nil, ↓reduceIte]
      exact ⟨h, SameM.refl m, fun _ hp => hp, ⟨0, by simp, by simp, by simp⟩, by simp, by simp, by simp⟩
    · have hie : rest.isEmpty = false := by simpa using hne
      simp only [hie, Bool.false_eq_true, ↓reduceIte]
      obtain ⟨g1, g2, g3, g4, g5, g6⟩ := h.cfg
      by_cases hfull : m.fileSize ≤ m.cur.offset
      · simp only [hfull, ↓reduceIte]
        have hcro : m.cur.readOnly = false := by rw [g2, hro]
        obtain ⟨ci, ca, cl1, cl2, _, csame, _, _, _, _, cok⟩ := SingleApp.switchRO_full h.cur_inv g1 hcro syncOk
        have cerr := SingleApp.switchRO_err h.cur_inv g1 hcro syncOk
        rcases hsw : m.cur.switchRO syncOk with ⟨c, e⟩
        rw [hsw] at ci ca cl1 cl2 csame cok cerr
        simp only at ci ca cl1 cl2 csame cok cerr
        cases e with
        | some e =>
          simp only
          obtain ⟨w1, w2, w3⟩ := withCur_same h ci ca (csame (by simp)) cl2
          refine ⟨w1, withCur_sameM m c, w3, ⟨0, by simp, by simp [w2], by simp⟩, by simp, ?_, ?_⟩
          · rcases cerr with h | h
            · simp at h
            · right; right; exact h
          · intro hk _; exact cok hk
        | none =>
          simp only
          obtain ⟨r1, r2, r3, r4, r5, r6, r7⟩ := rotate_spec h hro hfull syncOk c hsw
          rcases hso : (rotated m c).cur.setOffset 0 with ⟨c3, e3⟩
          rw [hso] at r1 r2 r3 r4 r5 r6 r7
          simp only at r1 r2 r3 r4 r5 r6 r7
          subst r1
          simp only
          apply LoopOk.transport r3 r6 r7
          apply appendBody_spec syncOk fuel rest n off _ _ ih r2 (by rw [← r6.2.1] at hro; exact hro) hne hfuel
          · show 0 < m.fileSize; exact h.fs_pos
          · rw [r4]; show 0 + m.fileSize ≤ m.fileSize; omega
      · simp only [hfull, ↓reduceIte]
        exact appendBody_spec syncOk fuel rest n off m _ ih h hro hne hfuel (by omega) (by omega)

theorem append_eq_loop {m : MultiApp} (hc : m.closed = false) (hro : m.readOnly = false) (bs : Bytes) (hne : bs ≠ [])
    (syncOk : Bool) : m.append bs syncOk = appendLoop syncOk (bs.length + 1) m bs 0 0 := by
  have hie : bs.isEmpty = false := by simpa using hne
  simp [append, hc, hro, hie]

/-- `Append`, any fsync outcome, any sync mode: the invariant is kept and the content grows by a prefix of `bs`
(all of it when no error is returned; then `n = len(bs)` and the offset is the previous size). -/
theorem append_spec_general {m : MultiApp} (h : MInv m) (hc : m.closed = false) (hro : m.readOnly = false)
    (bs : Bytes) (hne : bs ≠ []) (syncOk : Bool) :
    MInv (m.append bs syncOk).1 ∧ SameM m (m.append bs syncOk).1 ∧
    (∀ lo, Present m lo → Present (m.append bs syncOk).1 lo) ∧
    (∃ k, k ≤ bs.length ∧ (abs (m.append bs syncOk).1).bytes = (abs m).bytes ++ bs.take k ∧
      ((m.append bs syncOk).2.2.2 = none → k = bs.length)) ∧
    ((m.append bs syncOk).2.2.2 = none →
      (m.append bs syncOk).2.2.1 = bs.length ∧ (m.append bs syncOk).2.1 = (abs m).size) ∧
    ((m.append bs syncOk).2.2.2 = none ∨ (m.append bs syncOk).2.2.2 = some .bufferFull ∨
      (m.append bs syncOk).2.2.2 = some .syncFailed) ∧
    (syncOk = true → (m.autoSync = true ∨ m.retryableSync = false) → (m.append bs syncOk).2.2.2 = none) := by
  rw [append_eq_loop hc hro bs hne]
  obtain ⟨l1, l2, l3, l4, l5, l6, l7⟩ := appendLoop_spec syncOk (bs.length + 1) m bs 0 0 h hro (by omega)
  refine ⟨l1, l2, l3, l4, ?_, l6, l7⟩
  intro hh
  obtain ⟨e1, _, e3⟩ := l5 hh
  exact ⟨by omega, e3 rfl hne⟩

/-- **Append refines the byte log across chunk boundaries**: with a working fsync and a sync mode that cannot
return ErrBufferFull, `Append(bs)` succeeds, returns the previous size as offset, `n = len(bs)`, and the
logical content grows by exactly `bs` (over any number of chunk rotations). -/
theorem append_spec {m : MultiApp} (h : MInv m) (hc : m.closed = false) (hro : m.readOnly = false)
    (bs : Bytes) (hne : bs ≠ []) (hmode : m.autoSync = true ∨ m.retryableSync = false) :
    (m.append bs true).2.2.2 = none ∧
    (m.append bs true).2.1 = (abs m).size ∧
    (m.append bs true).2.2.1 = bs.length ∧
    (abs (m.append bs true).1).bytes = (abs m).bytes ++ bs ∧
    MInv (m.append bs true).1 ∧
    (m.append bs true).1.closed = false ∧ (m.append bs true).1.readOnly = false ∧
    (m.append bs true).1.fileSize = m.fileSize ∧ (m.append bs true).1.autoSync = m.autoSync ∧
    (m.append bs true).1.retryableSync = m.retryableSync ∧
    (∀ lo, Present m lo → Present (m.append bs true).1 lo) := by
  obtain ⟨a1, ⟨s1, s2, s3, s4, s5, _⟩, a3, ⟨k, hk, ha, hkn⟩, a5, _, a7⟩ := append_spec_general h hc hro bs hne true
  have hnone := a7 rfl hmode
  obtain ⟨e1, e2⟩ := a5 hnone
  have := hkn hnone
  subst this
  rw [List.take_length] at ha
  exact ⟨hnone, e2, e1, ha, a1, by rw [s1, hc], by rw [s2, hro], s3, s4, s5, a3⟩

/-- the remaining configuration fields are untouched as well -/
theorem append_sameM {m : MultiApp} (h : MInv m) (hc : m.closed = false) (hro : m.readOnly = false)
    (bs : Bytes) (hne : bs ≠ []) (syncOk : Bool) : SameM m (m.append bs syncOk).1 :=
  (append_spec_general h hc hro bs hne syncOk).2.1

theorem append_rejected (m : MultiApp) (bs : Bytes) (syncOk : Bool)
    (h : m.closed = true ∨ m.readOnly = true ∨ bs = []) :
    (m.append bs syncOk).1 = m ∧ (m.append bs syncOk).2.2.2 ≠ none ∧
    (m.append bs syncOk).2.1 = 0 ∧ (m.append bs syncOk).2.2.1 = 0 := by
  unfold append
  cases hc : m.closed
  · cases hro : m.readOnly
    · have : bs = [] := by simpa [hc, hro] using h
      subst this; simp
    · simp
  · simp

/-! ### Flush / Sync / SwitchToReadOnlyMode / Close -/

theorem flush_spec {m : MultiApp} (h : MInv m) :
    MInv m.flush.1 ∧ abs m.flush.1 = abs m ∧ (∀ lo, Present m lo → Present m.flush.1 lo) := by
  unfold flush
  cases hc : m.closed
  · cases hro : m.readOnly
    · simp only [Bool.false_eq_true, ↓reduceIte]
      obtain ⟨fi, fa, fc, _⟩ := SingleApp.apiFlush_spec h.cur_inv
      exact withCur_same h fi fa fc (SingleApp.apiFlush_file_len h.cur_inv).2
    · exact ⟨h, rfl, fun _ hp => hp⟩
  · exact ⟨h, rfl, fun _ hp => hp⟩

theorem flush_sameM (m : MultiApp) : SameM m m.flush.1 := by
  unfold flush
  cases m.closed
  · cases m.readOnly
    · exact withCur_sameM m _
    · exact SameM.refl m
  · exact SameM.refl m

theorem sync_spec {m : MultiApp} (h : MInv m) (ok : Bool) :
    MInv (m.sync ok).1 ∧ abs (m.sync ok).1 = abs m ∧ (∀ lo, Present m lo → Present (m.sync ok).1 lo) := by
  unfold sync
  cases hc : m.closed
  · cases hro : m.readOnly
    · simp only [Bool.false_eq_true, ↓reduceIte]
      obtain ⟨fi, fa, fc, _⟩ := SingleApp.apiSync_spec h.cur_inv ok
      exact withCur_same h fi fa fc (SingleApp.apiSync_file_len h.cur_inv ok).2
    · exact ⟨h, rfl, fun _ hp => hp⟩
  · exact ⟨h, rfl, fun _ hp => hp⟩

theorem sync_sameM (m : MultiApp) (ok : Bool) : SameM m (m.sync ok).1 := by
  unfold sync
  cases m.closed
  · cases m.readOnly
    · exact withCur_sameM m _
    · exact SameM.refl m
  · exact SameM.refl m

/-- a state that differs from `m` only in the current handle (written through to the directory image)
and in configuration flags -/
theorem minv_upd {m m' : MultiApp} (h : MInv m) (hfs : m'.fileSize = m.fileSize) (hid : m'.curId = m.curId)
    (htop : m'.top = m.top) (hcache : m'.cache = m.cache) (hdisk : m'.disk = upd m.disk m.curId (some m'.cur.file))
    (hi : SingleApp.Inv m'.cur) (hlen : m'.cur.file.length ≤ m.fileSize) (hoff : m'.cur.offset ≤ m.fileSize)
    (hcfg : m'.cur.closed = false ∧ m'.cur.readOnly = m'.readOnly ∧ m'.cur.retryableSync = m'.retryableSync ∧
        m'.cur.autoSync = m'.autoSync ∧ m'.cur.mdata = m'.mdata ∧ (m'.readOnly = false → m'.cur.cap = m'.cap ∧ 0 < m'.cap)) :
    MInv m' := by
  refine ⟨by rw [hfs]; exact h.fs_pos, hi, ?_, by rw [hfs]; exact hlen, by rw [hfs]; exact hoff, ?_, ?_, ?_, ⟨?_, ?_⟩, hcfg⟩
  · rw [hdisk, hid]; simp [upd]
  · intro i f hlt hd
    rw [hid] at hlt
    have : i ≠ m.curId := Nat.ne_of_lt hlt
    rw [hdisk] at hd
    simp only [upd, this, ↓reduceIte] at hd
    rw [hfs]; exact h.below_full i f hlt hd
  · intro i f hd
    rw [hdisk] at hd
    simp only [upd] at hd
    rw [hfs]
    by_cases hic : i = m.curId
    · simp only [hic, ↓reduceIte, Option.some.injEq] at hd
      rw [← hd]; exact hlen
    · simp only [hic, ↓reduceIte] at hd
      exact h.all_le i f hd
  · intro p hp hlt
    rw [hcache] at hp; rw [hid] at hlt; rw [hfs]
    exact h.cache_ok p hp hlt
  · rw [hid, htop]; exact h.top_ok.1
  · intro i hle
    rw [htop] at hle
    have : i ≠ m.curId := by have := h.top_ok.1; omega
    rw [hdisk]
    simp only [upd, this, ↓reduceIte]
    exact h.top_ok.2 i hle

theorem abs_upd {m m' : MultiApp} (hfs : m'.fileSize = m.fileSize) (hid : m'.curId = m.curId)
    (hdisk : m'.disk = upd m.disk m.curId (some m'.cur.file)) (ha : SingleApp.abs m'.cur = SingleApp.abs m.cur) :
    abs m' = abs m := by
  unfold abs
  rw [ha, hid, prefixBytes_congr (m := m) (m' := m') hfs]
  intro i hi
  have : i ≠ m.curId := Nat.ne_of_lt hi
  rw [hdisk]; simp [upd, this]

theorem present_upd {m m' : MultiApp} (hfs : m'.fileSize = m.fileSize) (hid : m'.curId = m.curId)
    (hdisk : m'.disk = upd m.disk m.curId (some m'.cur.file)) (lo : Nat) (hp : Present m lo) : Present m' lo := by
  intro i h1 h2
  rw [hfs] at h1; rw [hid] at h2
  have : i ≠ m.curId := Nat.ne_of_lt h2
  rw [hdisk]
  simp only [upd, this, ↓reduceIte]
  exact hp i h1 h2

/-- `SwitchToReadOnlyMode`, all outcomes -/
theorem switchRO_spec {m : MultiApp} (h : MInv m) (ok : Bool) :
    MInv (m.switchRO ok).1 ∧ abs (m.switchRO ok).1 = abs m ∧
    (∀ lo, Present m lo → Present (m.switchRO ok).1 lo) ∧
    ((m.switchRO ok).2 = none → (m.switchRO ok).1.readOnly = true ∧ (m.switchRO ok).1.cap = 0) ∧
    ((m.switchRO ok).2 ≠ none → SameM m (m.switchRO ok).1) ∧
    (m.switchRO ok).1.closed = m.closed ∧ (m.switchRO ok).1.fileSize = m.fileSize ∧
    (m.switchRO ok).1.curId = m.curId ∧
    (m.closed = false → m.readOnly = false → ok = true → (m.switchRO ok).2 = none) := by
  unfold switchRO
  cases hc : m.closed
  · cases hro : m.readOnly
    · simp only [Bool.false_eq_true, ↓reduceIte]
      obtain ⟨g1, g2, g3, g4, g5, g6⟩ := h.cfg
      have hcro : m.cur.readOnly = false := by rw [g2, hro]
      obtain ⟨ci, ca, cl1, cl2, cnone, csame, ccl, crs, cas, cmd, cok⟩ :=
        SingleApp.switchRO_full h.cur_inv g1 hcro ok
      rcases hsw : m.cur.switchRO ok with ⟨c, e⟩
      rw [hsw] at ci ca cl1 cl2 cnone csame ccl crs cas cmd cok
      simp only at ci ca cl1 cl2 cnone csame ccl crs cas cmd cok
      have ho : c.offset = m.cur.offset := by
        rw [← SingleApp.abs_size ci, ← SingleApp.abs_size h.cur_inv, ca]
      have hl := h.cur_len; have hof := h.cur_off
      cases e with
      | some e =>
        simp only
        obtain ⟨w1, w2, w3⟩ := withCur_same h ci ca (csame (by simp)) cl2
        exact ⟨w1, w2, w3, by simp, fun _ => withCur_sameM m c, hc, rfl, rfl, fun _ _ hk => cok hk⟩
      | none =>
        simp only
        obtain ⟨cro, ccap⟩ := cnone rfl
        refine ⟨?_, ?_, ?_, by simp, by simp, hc, rfl, rfl, by simp⟩
        · have hlen : c.file.length ≤ m.fileSize := by omega
          have hoffc : c.offset ≤ m.fileSize := by omega
          have hcfg' : c.closed = false ∧ c.readOnly = true ∧ c.retryableSync = m.retryableSync ∧
              c.autoSync = m.autoSync ∧ c.mdata = m.mdata ∧ (true = false → c.cap = 0 ∧ 0 < 0) :=
            ⟨ccl, cro, by rw [crs, g3], by rw [cas, g4], by rw [cmd, g5], fun hh => by simp at hh⟩
          exact minv_upd (m' := { m.withCur c with cap := 0, readOnly := true }) h rfl rfl rfl rfl rfl ci
            hlen hoffc hcfg'
        · exact abs_upd (m := m) (m' := { m.withCur c with cap := 0, readOnly := true }) rfl rfl rfl ca
        · intro lo hp
          exact present_upd (m := m) (m' := { m.withCur c with cap := 0, readOnly := true }) rfl rfl rfl lo hp
    · exact ⟨h, rfl, fun _ hp => hp, by simp, fun _ => SameM.refl m, hc, rfl, rfl, by simp⟩
  · exact ⟨h, rfl, fun _ hp => hp, by simp, fun _ => SameM.refl m, hc, rfl, rfl, by simp⟩

/-- `Close()` of an open appendable: no error; the current chunk is flushed and written through; everything a
later `reopen` reads (`disk`, `top`, `mdata`) is described.  `MInv` itself cannot hold afterwards
(`cur.closed = true`), so the directory-level facts are listed explicitly. -/
theorem close_spec {m : MultiApp} (h : MInv m) (hc : m.closed = false) :
    m.close.2 = none ∧ abs m.close.1 = abs m ∧ m.close.1.closed = true ∧
    -- untouched fields
    m.close.1.curId = m.curId ∧ m.close.1.top = m.top ∧ m.close.1.cache = m.cache ∧
    m.close.1.fileSize = m.fileSize ∧ m.close.1.cap = m.cap ∧ m.close.1.retryableSync = m.retryableSync ∧
    m.close.1.autoSync = m.autoSync ∧ m.close.1.readOnly = m.readOnly ∧ m.close.1.prealloc = m.prealloc ∧
    m.close.1.mdata = m.mdata ∧
    -- the directory image
    (∀ i, i ≠ m.curId → m.close.1.disk i = m.disk i) ∧
    m.close.1.disk m.curId = some m.close.1.cur.file ∧
    m.close.1.cur.file.length ≤ m.fileSize ∧
    m.close.1.cur.file.take (SingleApp.abs m.cur).size = (SingleApp.abs m.cur).bytes ∧
    (SingleApp.NoStaleTail m.cur → m.close.1.cur.file = (SingleApp.abs m.cur).bytes) ∧
    -- the closed handle
    SingleApp.Inv m.close.1.cur ∧ m.close.1.cur.closed = true ∧ SingleApp.abs m.close.1.cur = SingleApp.abs m.cur ∧
    -- what is left of the invariant
    (∀ i f, i < m.curId → m.close.1.disk i = some f → f.length = m.fileSize) ∧
    (∀ i f, m.close.1.disk i = some f → f.length ≤ m.fileSize) ∧
    (m.curId < m.close.1.top ∧ ∀ i, m.close.1.top ≤ i → m.close.1.disk i = none) ∧
    (NoStale m → ∀ i, m.curId < i → m.close.1.disk i = none) ∧
    (∀ lo, Present m lo → Present m.close.1 lo) := by
  obtain ⟨g1, g2, g3, g4, g5, g6⟩ := h.cfg
  obtain ⟨ci, ca, cns, cb⟩ := SingleApp.close_spec h.cur_inv
  obtain ⟨ce, cbuf⟩ := cb g1
  have hcl : (SingleApp.close m.cur).1.closed = true := by
    simp only [SingleApp.close, g1, Bool.false_eq_true, ↓reduceIte]
  have hfl : (SingleApp.close m.cur).1.file.length ≤ max m.cur.file.length m.cur.offset := by
    simp only [SingleApp.close, g1, Bool.false_eq_true, ↓reduceIte]
    cases m.cur.readOnly
    · exact (SingleApp.flush_file_len h.cur_inv).2
    · simp only [Bool.not_true, Bool.false_eq_true, ↓reduceIte]; omega
  have hm : m.close = ({ m.withCur (SingleApp.close m.cur).1 with closed := true }, (SingleApp.close m.cur).2) := by
    simp only [close, hc, Bool.false_eq_true, ↓reduceIte]
  rw [hm]
  generalize SingleApp.close m.cur = r at ci ca cns ce cbuf hcl hfl
  obtain ⟨c, e⟩ := r
  simp only at ci ca cns ce cbuf hcl hfl
  subst ce
  have hlen : c.file.length ≤ m.fileSize := by have := h.cur_len; have := h.cur_off; omega
  have hsz : (SingleApp.abs m.cur).size = c.fileOffset := by
    rw [← ca]
    have := ci.fo_le
    simp only [SingleApp.abs, ByteLog.size, cbuf, List.append_nil, List.length_take]; omega
  have hpre : c.file.take (SingleApp.abs m.cur).size = (SingleApp.abs m.cur).bytes := by
    rw [hsz, ← ca]; simp only [SingleApp.abs, cbuf, List.append_nil]
  refine ⟨rfl, ?_, rfl, rfl, rfl, rfl, rfl, rfl, rfl, rfl, rfl, rfl, rfl, ?_, ?_, hlen, hpre, ?_, ci, hcl, ca, ?_, ?_, ⟨h.top_ok.1, ?_⟩, ?_, ?_⟩
  · exact abs_upd (m := m) (m' := { m.withCur c with closed := true }) rfl rfl rfl ca
  · intro i hi
    show upd m.disk m.curId (some c.file) i = m.disk i
    simp only [upd, hi, ↓reduceIte]
  · show upd m.disk m.curId (some c.file) m.curId = some c.file
    simp only [upd, ↓reduceIte]
  · intro hn
    have hn' := cns hn
    unfold SingleApp.NoStaleTail at hn'
    show c.file = _
    rw [← hpre, hsz]
    exact (List.take_of_length_le (by omega)).symm
  · intro i f hlt hd
    have hd' : upd m.disk m.curId (some c.file) i = some f := hd
    have : i ≠ m.curId := Nat.ne_of_lt hlt
    simp only [upd, this, ↓reduceIte] at hd'
    exact h.below_full i f hlt hd'
  · intro i f hd
    have hd' : upd m.disk m.curId (some c.file) i = some f := hd
    simp only [upd] at hd'
    by_cases hic : i = m.curId
    · simp only [hic, ↓reduceIte, Option.some.injEq] at hd'
      rw [← hd']; exact hlen
    · simp only [hic, ↓reduceIte] at hd'
      exact h.all_le i f hd'
  · intro i hle
    have hle' : m.top ≤ i := hle
    have : i ≠ m.curId := by have := h.top_ok.1; omega
    show upd m.disk m.curId (some c.file) i = none
    simp only [upd, this, ↓reduceIte]
    exact h.top_ok.2 i hle'
  · intro hns i hi
    have : i ≠ m.curId := by omega
    show upd m.disk m.curId (some c.file) i = none
    simp only [upd, this, ↓reduceIte]
    exact hns.2 i hi
  · intro lo hp; exact present_upd (m := m) (m' := { m.withCur c with closed := true }) rfl rfl rfl lo hp

theorem close_rejected (m : MultiApp) (hc : m.closed = true) : m.close = (m, some .alreadyClosed) := by
  simp [close, hc]

end MultiApp
end ImmuModel.Log
