/-
C17 — operation sequences over the singleapp mirror model (`List SOp`), used to state the
refinement "for all histories".  Core Lean only.
-/
import ImmuModel.Log.ByteLog
import ImmuModel.Log.SingleApp

namespace ImmuModel.Log

/-- One call on the `Appendable` interface of an `AppendableFile` (`ok` = outcome of fsync in that call). -/
inductive SOp
  | append (bs : Bytes) (ok : Bool)
  | setOffset (off : Int)
  | flush
  | sync (ok : Bool)
  | discardUpto (off : Int)
  | switchRO (ok : Bool)
  | copy
  | read (n : Option Nat) (off : Int)
  | closeReopen (o : SOpts)
deriving Repr

namespace SingleApp

def step (s : SingleApp) : SOp → SingleApp
  | .append bs ok => (s.append bs ok).1
  | .setOffset off => (s.setOffset off).1
  | .flush => s.apiFlush.1
  | .sync ok => (s.apiSync ok).1
  | .discardUpto off => (s.discardUpto off).1
  | .switchRO ok => (s.switchRO ok).1
  | .copy => s.copy.1
  | .read _ _ => s
  | .closeReopen o => s.close.1.reopen o

def run (s : SingleApp) (ops : List SOp) : SingleApp := ops.foldl step s

/-- What the byte-log spec does for the same call (the number of bytes an `Append` took is the `n`
it returned: `n < len(bs)` only together with ErrBufferFull / a failed fsync). -/
def specStep (s : SingleApp) (l : ByteLog) : SOp → ByteLog
  | .append bs ok => ⟨l.bytes ++ bs.take (s.append bs ok).2.2.1⟩
  | .setOffset off =>
    if s.closed = false ∧ s.readOnly = false ∧ 0 ≤ off ∧ off.toNat ≤ l.size then ⟨l.bytes.take off.toNat⟩ else l
  | _ => l

def specRun : SingleApp → ByteLog → List SOp → ByteLog
  | _, l, [] => l
  | s, l, op :: ops => specRun (step s op) (specStep s l op) ops

/-- `Options.Validate`: a writable handle needs a non-empty write buffer. -/
def SOpts.Valid (o : SOpts) : Prop := o.readOnly = false → 0 < o.cap

/-- Calls after which the physical file can be longer than its logical content: a `SetOffset` below the
flushed part (the file is never truncated) and a failed fsync with retryable sync (`fileOffset` moves back). -/
def rewinds (s : SingleApp) : SOp → Bool
  | .setOffset off => decide (off < (s.fileOffset : Int))
  | .append _ ok => !ok
  | .sync ok => !ok
  | .switchRO ok => !ok
  | _ => false

def RewindFree : SingleApp → List SOp → Prop
  | _, [] => True
  | s, op :: ops => rewinds s op = false ∧ RewindFree (step s op) ops

def ValidOps : List SOp → Prop
  | [] => True
  | .closeReopen o :: ops => SOpts.Valid o ∧ ValidOps ops
  | _ :: ops => ValidOps ops

end SingleApp
end ImmuModel.Log
