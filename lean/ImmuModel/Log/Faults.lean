/-
C17 — MIRROR of the error paths of `singleapp.flush()` / `sync()` that the harness reaches by FAULT INJECTION on
the real code (seeded change c17-b):

* a failing `fsync` / `fdatasync` is already a parameter of the mirror (`SingleApp.sync s ok`, `apiSync`, `switchRO`,
  `MultiApp.sync m ok`, …: Log/SingleApp.lean, Log/MultiApp.lean).  The harness makes it fail by putting /dev/null
  over the descriptor of the file that takes the writes (after an un-faulted `Flush`, so that no `write` is diverted);
* a failing `write` is added HERE, in the one shape that needs no knowledge of the file position: `f.Write` returns
  `(0, err)` — nothing is written (ENOSPC at once; the harness lowers RLIMIT_FSIZE to the header length, every
  content write then fails with EFBIG and `n = 0`, seeks still work).  Go:

      err := aof.seekIfRequired()                      -- `seek`
      n, err := aof.f.Write(writeBuffer[flushed:unwritten])
      aof.fileOffset += int64(n); aof.wbufFlushedOffset += n        -- n = 0
      if err != nil { return err }                     -- before the buffer is freed

Partial writes (`0 < n < len`) are injected by the harness too (RLIMIT_FSIZE inside the pending range) but only
compared with the byte-array oracle, not modelled: in non-retryable mode they leave `wbufFlushedOffset > 0`, which is
outside the invariant `SingleApp.Inv` all C17 theorems are stated under.
Core Lean only.
-/
import ImmuModel.Log.SingleApp
import ImmuModel.Log.MultiApp

namespace ImmuModel.Log

/-- Result of a call made while `write` fails: the write error, or what the call returns without reaching a write. -/
inductive WOut
  | writeFailed               -- *os.PathError{Op: "write"} (EFBIG / ENOSPC)
  | ret (e : Option Err)
deriving DecidableEq, Repr

namespace SingleApp

/-- `seekIfRequired()` (the seek itself succeeds). -/
def seek (s : SingleApp) : SingleApp :=
  { s with pos := if s.seekRequired then s.fileOffset else s.pos, seekRequired := false }

/-- `flush()` while `f.Write` fails with `n = 0`; `true` = the write error is returned. -/
def flushW0 (s : SingleApp) : SingleApp × Bool :=
  if s.buf.length - s.flushed = 0 then (s, false)     -- nothing to write: `return nil`
  else (seek s, true)

/-- `sync()` under the same fault: `flush()`'s error is returned before fsync is reached; with nothing to write
`flush()` is a no-op and fsync runs (outcome `ok`). -/
def syncW0 (s : SingleApp) (ok : Bool) : SingleApp × WOut :=
  match flushW0 s with
  | (s1, true) => (s1, .writeFailed)
  | (_, false) => let r := sync s ok; (r.1, .ret r.2)

/-- `Flush()` under the write fault -/
def apiFlushW0 (s : SingleApp) : SingleApp × WOut :=
  if s.closed then (s, .ret (some .alreadyClosed))
  else if s.readOnly then (s, .ret (some .readOnly))
  else match flushW0 s with
    | (s1, true) => (s1, .writeFailed)
    | (s1, false) => (s1, .ret none)

/-- `Sync()` under the write fault -/
def apiSyncW0 (s : SingleApp) (ok : Bool := true) : SingleApp × WOut :=
  if s.closed then (s, .ret (some .alreadyClosed))
  else if s.readOnly then (s, .ret (some .readOnly))
  else syncW0 s ok

end SingleApp

namespace MultiApp

/-- `Flush()` under the write fault: delegated to the current chunk -/
def flushW0 (m : MultiApp) : MultiApp × WOut :=
  if m.closed then (m, .ret (some .alreadyClosed))
  else if m.readOnly then (m, .ret (some .readOnly))
  else match m.cur.apiFlushW0 with
    | (c, e) => (m.withCur c, e)

/-- `Sync()` under the write fault -/
def syncW0 (m : MultiApp) (ok : Bool := true) : MultiApp × WOut :=
  if m.closed then (m, .ret (some .alreadyClosed))
  else if m.readOnly then (m, .ret (some .readOnly))
  else match m.cur.apiSyncW0 ok with
    | (c, e) => (m.withCur c, e)

end MultiApp
end ImmuModel.Log
