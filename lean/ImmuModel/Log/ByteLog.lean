/-
C17 — SPEC.  An appendable is one growable byte array.

This is what the `appendable.Appendable` interface promises to its callers
(`embedded/appendable/appendable.go`; callers: `appendable.Reader`, `store`, `ahtree`, `tbtree`):
  * `Append(bs)` returns the previous size as the offset of `bs`;
  * `ReadAt(bs, off)` is an `io.ReaderAt`: it returns the bytes that are available in
    `[off, off+len(bs))`; `n < len(bs)` comes with `io.EOF` (callers such as `Reader.Read` and
    `multiapp.ReadAt` use exactly the pair `(n, err == io.EOF)`), an offset beyond the end is `(0, EOF)`;
  * `SetOffset(off)` with `off ≤ size` forgets everything at or after `off`;
  * `Size()` is the length.
Core Lean only.
-/
import ImmuModel.Base.Bytes

namespace ImmuModel.Log

structure ByteLog where
  bytes : Bytes
deriving DecidableEq, Repr

namespace ByteLog

def empty : ByteLog := ⟨[]⟩

def size (l : ByteLog) : Nat := l.bytes.length

/-- `Append`: the new log and the offset at which `bs` was placed (the previous size). -/
def append (l : ByteLog) (bs : Bytes) : ByteLog × Nat := (⟨l.bytes ++ bs⟩, l.size)

/-- `ReadAt` of `n` bytes at `off`: the available bytes and the EOF flag
(`true` iff fewer than `n` bytes were available or `off` lies beyond the end). -/
def readAt (l : ByteLog) (off n : Nat) : Bytes × Bool :=
  if off > l.size then ([], true)
  else
    let d := (l.bytes.drop off).take n
    (d, decide (d.length < n))

/-- `SetOffset`: only offsets up to the current size are legal. -/
def setOffset (l : ByteLog) (off : Nat) : Option ByteLog :=
  if off ≤ l.size then some ⟨l.bytes.take off⟩ else none

/-- Bytes at or after `off` (what `DiscardUpto off` must leave untouched). -/
def suffixFrom (l : ByteLog) (off : Nat) : Bytes := l.bytes.drop off

end ByteLog
end ImmuModel.Log
