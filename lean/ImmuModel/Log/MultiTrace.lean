/-
C17 — operation sequences over the multiapp mirror model (`List MOp`).  Core Lean only.
-/
import ImmuModel.Log.ByteLog
import ImmuModel.Log.MultiApp

namespace ImmuModel.Log

/-- One call on the `Appendable` interface of a `MultiFileAppendable` (fsync works unless `sync false`). -/
inductive MOp
  | append (bs : Bytes)
  | setOffset (off : Nat)
  | flush
  | sync (ok : Bool)
  | switchRO
  | discardUpto (off : Nat)
  | read (n off : Nat)
deriving Repr

namespace MultiApp

def step (m : MultiApp) : MOp → MultiApp
  | .append bs => (m.append bs true).1
  | .setOffset off => (m.setOffset off).1
  | .flush => m.flush.1
  | .sync ok => (m.sync ok).1
  | .switchRO => (m.switchRO true).1
  | .discardUpto off => (m.discardUpto off).1
  | .read n off => (m.readAt n off).1

def run (m : MultiApp) (ops : List MOp) : MultiApp := ops.foldl step m

/-- the byte-log spec of the same call -/
def specStep (m : MultiApp) (l : ByteLog) : MOp → ByteLog
  | .append bs => if m.closed = false ∧ m.readOnly = false ∧ bs ≠ [] then ⟨l.bytes ++ bs⟩ else l
  | .setOffset off => if m.closed = false ∧ m.readOnly = false ∧ off ≤ l.size then ⟨l.bytes.take off⟩ else l
  | _ => l

def specRun : MultiApp → ByteLog → List MOp → ByteLog
  | _, l, [] => l
  | m, l, op :: ops => specRun (step m op) (specStep m l op) ops

/-- Per-call side conditions of a history:
* an `Append` that passes the guards succeeds (excludes ErrBufferFull = retryable sync without auto-sync);
* a rewinding `SetOffset` does not target a chunk that `DiscardUpto` has removed (the code then returns io.EOF
  and leaves the current chunk closed — outside the contract). -/
def legal (m : MultiApp) : MOp → Prop
  | .append bs => m.closed = false → m.readOnly = false → bs ≠ [] → (m.append bs true).2.2.2 = none
  | .setOffset off => off / m.fileSize < m.curId → m.disk (off / m.fileSize) ≠ none
  | _ => True

def Legal : MultiApp → List MOp → Prop
  | _, [] => True
  | m, op :: ops => legal m op ∧ Legal (step m op) ops

def isDiscard : MOp → Bool
  | .discardUpto _ => true
  | _ => false

end MultiApp
end ImmuModel.Log
