/-
C17 — helper lemmas for the singleapp mirror model: abstraction function, invariant, one-step
refinement lemmas.  (Property theorems are in Props/C17.lean.)
-/
import ImmuModel.Log.ByteLog
import ImmuModel.Log.SingleApp

namespace ImmuModel.Log

/-! ### files -/

theorem writeAt_eq_of_le (f d : Bytes) (p : Nat) (hp : p ≤ f.length) :
    writeAt f p d = f.take p ++ d ++ f.drop (p + d.length) := by
  unfold writeAt
  have : p - f.length = 0 := by omega
  simp [this]

theorem writeAt_take (f d : Bytes) (p : Nat) (hp : p ≤ f.length) :
    (writeAt f p d).take (p + d.length) = f.take p ++ d := by
  rw [writeAt_eq_of_le f d p hp]
  have hl : (f.take p ++ d).length = p + d.length := by simp [List.length_take]; omega
  exact List.take_left' hl

theorem writeAt_length (f d : Bytes) (p : Nat) (hp : p ≤ f.length) :
    (writeAt f p d).length = max f.length (p + d.length) := by
  rw [writeAt_eq_of_le f d p hp]
  simp [List.length_take, List.length_drop]
  omega

theorem writeAt_nil (f : Bytes) (p : Nat) (hp : p ≤ f.length) : writeAt f p [] = f := by
  rw [writeAt_eq_of_le f [] p hp]; simp

theorem take_min_length {α : Type} (l : List α) (n : Nat) : l.take (min n l.length) = l.take n := by
  rw [List.take_eq_take_iff]; omega

namespace SingleApp

/-- The logical content: the file up to `fileOffset`, then the not yet flushed part of the buffer. -/
def abs (s : SingleApp) : ByteLog := ⟨s.file.take s.fileOffset ++ s.buf.drop s.flushed⟩

/-- Invariant of every reachable state. -/
structure Inv (s : SingleApp) : Prop where
  fl_le : s.flushed ≤ s.buf.length
  fo_le : s.fileOffset ≤ s.file.length
  pos_ok : s.seekRequired = false → s.pos = s.fileOffset
  nonretry : s.retryableSync = false → s.flushed = 0
  /-- a read-only handle holds no buffered data -/
  ro_clean : s.readOnly = true → s.buf = []
  /-- retryable sync: the flushed part of the buffer is the tail of the file's logical part -/
  tail : ∃ pre, s.file.take s.fileOffset = pre ++ s.buf.take s.flushed

/-- The physical file ends at the logical end of its flushed part (no rolled-back bytes behind it). -/
def NoStaleTail (s : SingleApp) : Prop := s.file.length = s.fileOffset

/-- configuration fields that operations other than open / switchRO never change -/
def SameCfg (s s' : SingleApp) : Prop :=
  s'.cap = s.cap ∧ s'.retryableSync = s.retryableSync ∧ s'.autoSync = s.autoSync ∧
  s'.readOnly = s.readOnly ∧ s'.closed = s.closed ∧ s'.mdata = s.mdata

theorem SameCfg.refl (s : SingleApp) : SameCfg s s := ⟨rfl, rfl, rfl, rfl, rfl, rfl⟩

theorem SameCfg.trans {a b c : SingleApp} (h1 : SameCfg a b) (h2 : SameCfg b c) : SameCfg a c := by
  obtain ⟨a1, a2, a3, a4, a5, a6⟩ := h1
  obtain ⟨b1, b2, b3, b4, b5, b6⟩ := h2
  exact ⟨b1.trans a1, b2.trans a2, b3.trans a3, b4.trans a4, b5.trans a5, b6.trans a6⟩

theorem abs_size {s : SingleApp} (h : Inv s) : (abs s).size = s.offset := by
  have := h.fl_le; have := h.fo_le
  simp [abs, ByteLog.size, offset, List.length_take, List.length_drop]
  omega

theorem openFile_inv (f : Bytes) (o : SOpts) (md : Bytes) : Inv (openFile f o md) := by
  refine ⟨by simp [openFile], by simp [openFile], by simp [openFile], by simp [openFile], by simp [openFile], ⟨f, by simp [openFile]⟩⟩

theorem openFile_abs (f : Bytes) (o : SOpts) (md : Bytes) : abs (openFile f o md) = ⟨f⟩ := by
  simp [abs, openFile]

theorem openFile_noStale (f : Bytes) (o : SOpts) (md : Bytes) : NoStaleTail (openFile f o md) := by
  simp [NoStaleTail, openFile]

/-! ### flush -/

theorem flush_eq (s : SingleApp) : flush s =
    if s.buf.length - s.flushed = 0 then s else
      { s with file := writeAt s.file (if s.seekRequired then s.fileOffset else s.pos) (s.buf.drop s.flushed),
               pos := (if s.seekRequired then s.fileOffset else s.pos) + (s.buf.length - s.flushed),
               seekRequired := false,
               fileOffset := s.fileOffset + (s.buf.length - s.flushed),
               flushed := if s.retryableSync then s.buf.length else 0,
               buf := if s.retryableSync then s.buf else [] } := by
  unfold flush
  split
  · rfl
  · cases hr : s.retryableSync <;> simp
    omega

theorem flush_sameCfg (s : SingleApp) : SameCfg s (flush s) := by
  rw [flush_eq]; unfold SameCfg
  split <;> simp

theorem flush_spec {s : SingleApp} (h : Inv s) :
    Inv (flush s) ∧ abs (flush s) = abs s ∧ (flush s).flushed = (flush s).buf.length ∧
    (s.retryableSync = false → (flush s).buf = []) ∧
    (s.retryableSync = true → (flush s).buf = s.buf) ∧
    (NoStaleTail s → NoStaleTail (flush s)) ∧
    (flush s).file.take s.fileOffset = s.file.take s.fileOffset ∧ s.fileOffset ≤ (flush s).fileOffset := by
  obtain ⟨hfl, hfo, hpos, hnr, hroc, pre, htail⟩ := h
  rw [flush_eq]
  by_cases h0 : s.buf.length - s.flushed = 0
  · simp only [h0, ↓reduceIte]
    refine ⟨⟨hfl, hfo, hpos, hnr, hroc, pre, htail⟩, by trivial, by omega, ?_, by simp, by simp, by trivial, by simp⟩
    intro hr
    have := hnr hr
    have : s.buf.length = 0 := by omega
    exact List.eq_nil_of_length_eq_zero this
  · simp only [h0, ↓reduceIte]
    -- the write goes to fileOffset
    have hp : (if s.seekRequired = true then s.fileOffset else s.pos) = s.fileOffset := by
      by_cases hs : s.seekRequired = true
      · simp [hs]
      · have : s.seekRequired = false := by simpa using hs
        simp [this, hpos this]
    rw [hp]
    have hdl : (s.buf.drop s.flushed).length = s.buf.length - s.flushed := by simp
    have htk := writeAt_take s.file (s.buf.drop s.flushed) s.fileOffset hfo
    have hlen := writeAt_length s.file (s.buf.drop s.flushed) s.fileOffset hfo
    rw [hdl] at htk hlen
    have hpre : (writeAt s.file s.fileOffset (s.buf.drop s.flushed)).take s.fileOffset = s.file.take s.fileOffset := by
      have h1 : (List.take (s.fileOffset + (s.buf.length - s.flushed)) (writeAt s.file s.fileOffset (s.buf.drop s.flushed))).take s.fileOffset
          = (writeAt s.file s.fileOffset (s.buf.drop s.flushed)).take s.fileOffset := by
        rw [List.take_take]; congr 1; omega
      rw [← h1, htk, List.take_append_of_le_length (by simp [List.length_take]; omega)]
      simp [List.take_take]
    have hroc' : s.readOnly = true → False := by
      intro hh; have := hroc hh; simp [this] at h0
    cases hr : s.retryableSync
    · simp only [Bool.false_eq_true, ↓reduceIte]
      refine ⟨⟨?_, ?_, ?_, ?_, ?_, ?_⟩, ?_, ?_, by simp, ?_, ?_, hpre, by simp⟩
      · simp
      · simp only [hlen]; omega
      · simp
      · simp
      · simp
      · exact ⟨s.file.take s.fileOffset ++ s.buf.drop s.flushed, by simp [htk]⟩
      · simp only [abs, htk]
        simp
      · simp
      · intro hh; simp at hh
      · intro hn
        simp only [NoStaleTail] at hn ⊢
        simp only [hlen]; omega
    · simp only [↓reduceIte]
      refine ⟨⟨?_, ?_, ?_, ?_, ?_, ?_⟩, ?_, ?_, ?_, by simp, ?_, hpre, by simp⟩
      · simp
      · simp only [hlen]; omega
      · simp
      · simp
      · intro hh; exact (hroc' hh).elim
      · refine ⟨pre, ?_⟩
        simp only [htk, htail]
        rw [List.take_length, List.append_assoc, List.take_append_drop]
      · simp only [abs, htk]
        simp
      · simp
      · intro hh; simp at hh
      · intro hn
        simp only [NoStaleTail] at hn ⊢
        simp only [hlen]; omega

/-! ### sync -/

theorem sync_spec {s : SingleApp} (h : Inv s) (ok : Bool) :
    Inv (sync s ok).1 ∧ abs (sync s ok).1 = abs s ∧ SameCfg s (sync s ok).1 ∧
    ((sync s ok).2 = none ∨ (sync s ok).2 = some .syncFailed) ∧ (ok = true → (sync s ok).2 = none) ∧
    (s.retryableSync = true → (sync s ok).2 = none → (sync s ok).1.buf = [] ∧ (sync s ok).1.flushed = 0) ∧
    (s.retryableSync = false → (sync s ok).1.buf = []) ∧
    (ok = true → NoStaleTail s → NoStaleTail (sync s ok).1) := by
  obtain ⟨hfi, hfa, hffl, hfnr, hfr, hfns, _, _⟩ := flush_spec h
  have hcfg := flush_sameCfg s
  obtain ⟨c1, c2, c3, c4, c5, c6⟩ := hcfg
  obtain ⟨hfl, hfo, hpos, hnr, hroc, pre, htail⟩ := hfi
  unfold sync
  cases hr : s.retryableSync
  · have hr' : (flush s).retryableSync = false := by rw [c2, hr]
    simp only [hr', Bool.not_false, ↓reduceIte]
    refine ⟨⟨hfl, hfo, hpos, hnr, hroc, pre, htail⟩, hfa, ⟨c1, c2, c3, c4, c5, c6⟩, ?_, ?_, ?_, ?_, ?_⟩
    · cases ok <;> simp
    · intro h; simp [h]
    · intro h; simp at h
    · intro _; exact hfnr hr
    · intro _ hn; exact hfns hn
  · have hr' : (flush s).retryableSync = true := by rw [c2, hr]
    simp only [hr', Bool.not_true, Bool.false_eq_true, ↓reduceIte]
    cases ok
    · simp only [Bool.false_eq_true, ↓reduceIte]
      refine ⟨⟨?_, ?_, ?_, ?_, hroc, ?_⟩, ?_, ⟨c1, by simp [hr], c3, c4, c5, c6⟩, by simp, by simp, by simp, by simp, by simp⟩
      · simp
      · simp only; omega
      · simp
      · simp
      · exact ⟨(flush s).file.take ((flush s).fileOffset - (flush s).flushed), by simp⟩
      · rw [← hfa]
        simp only [abs, List.drop_zero]
        have hl : ((flush s).file.take (flush s).fileOffset).length = (flush s).fileOffset := by
          simp [List.length_take]; omega
        have hl2 : pre.length + (flush s).flushed = (flush s).fileOffset := by
          rw [htail] at hl
          simp [List.length_take] at hl
          omega
        have h1 : (flush s).file.take ((flush s).fileOffset - (flush s).flushed)
            = ((flush s).file.take (flush s).fileOffset).take ((flush s).fileOffset - (flush s).flushed) := by
          rw [List.take_take]; congr 1; omega
        rw [h1, htail, List.take_left' (by omega), List.append_assoc, List.take_append_drop]
    · simp only [↓reduceIte]
      refine ⟨⟨?_, hfo, hpos, ?_, ?_, ?_⟩, ?_, ⟨c1, by simp [hr], c3, c4, c5, c6⟩, by simp, by simp, by simp, by simp, ?_⟩
      · simp
      · simp
      · simp
      · exact ⟨(flush s).file.take (flush s).fileOffset, by simp⟩
      · rw [← hfa]
        simp only [abs, hffl]
        simp
      · intro _ hn; exact hfns hn

/-! ### write / Append -/

theorem push_spec {s : SingleApp} (h : Inv s) (hro : s.readOnly = false) (x : Bytes) :
    Inv { s with buf := s.buf ++ x } ∧ (abs { s with buf := s.buf ++ x }).bytes = (abs s).bytes ++ x ∧
    (NoStaleTail s → NoStaleTail { s with buf := s.buf ++ x }) := by
  obtain ⟨hfl, hfo, hpos, hnr, _, pre, htail⟩ := h
  refine ⟨⟨by simp; omega, hfo, hpos, hnr, by simp [hro], pre, ?_⟩, ?_, fun h => h⟩
  · simp only [htail]
    rw [List.take_append_of_le_length hfl]
  · simp only [abs]
    rw [List.drop_append_of_le_length hfl, List.append_assoc]

/-- outcome of the `write` loop -/
def WriteOk (syncOk : Bool) (s : SingleApp) (rest : Bytes) (n : Nat) (r : SingleApp × Nat × Option Err) : Prop :=
  Inv r.1 ∧ SameCfg s r.1 ∧
  ∃ k, r.2.1 = n + k ∧ k ≤ rest.length ∧ (abs r.1).bytes = (abs s).bytes ++ rest.take k ∧
    (r.2.2 = none → k = rest.length) ∧
    (r.2.2 = none ∨ r.2.2 = some .bufferFull ∨ r.2.2 = some .syncFailed) ∧
    (syncOk = true → (s.autoSync = true ∨ s.retryableSync = false) → r.2.2 = none) ∧
    (syncOk = true → NoStaleTail s → NoStaleTail r.1)

theorem writeLoop_spec (syncOk : Bool) : ∀ (fuel : Nat) (s : SingleApp) (rest : Bytes) (n : Nat),
    Inv s → 0 < s.cap → s.readOnly = false → rest.length < fuel →
    WriteOk syncOk s rest n (writeLoop syncOk fuel s rest n) := by
  intro fuel
  induction fuel with
  | zero => intro s rest n _ _ _ h; omega
  | succ fuel ih =>
    intro s rest n hinv hcap hro hlen
    -- the common continuation
    have cont : ∀ (s' : SingleApp) (avail : Nat), Inv s' → SameCfg s s' → abs s' = abs s → 0 < avail →
        (syncOk = true → NoStaleTail s → NoStaleTail s') → rest ≠ [] →
        WriteOk syncOk s rest n
          (writeLoop syncOk fuel { s' with buf := s'.buf ++ rest.take (min rest.length avail) }
            (rest.drop (min rest.length avail)) (n + min rest.length avail)) := by
      intro s' avail hi' hc' ha' hav hns' hne
      have hrl : 0 < rest.length := List.length_pos_iff.mpr hne
      have hro' : s'.readOnly = false := by rw [hc'.2.2.2.1]; exact hro
      obtain ⟨pi, pa, pn⟩ := push_spec hi' hro' (rest.take (min rest.length avail))
      have hcap' : 0 < ({ s' with buf := s'.buf ++ rest.take (min rest.length avail) } : SingleApp).cap := by
        show 0 < s'.cap; rw [hc'.1]; exact hcap
      have hl' : (rest.drop (min rest.length avail)).length < fuel := by
        simp [List.length_drop]; omega
      obtain ⟨ri, rc, k, rk, rkl, ra, rnone, rcls, rok, rns⟩ := ih _ _ (n + min rest.length avail) pi hcap' hro' hl'
      refine ⟨ri, SameCfg.trans hc' rc, min rest.length avail + k, by omega, ?_, ?_, ?_, rcls, ?_, ?_⟩
      · simp [List.length_drop] at rkl; omega
      · rw [ra, pa, ha', List.append_assoc, ← List.take_add]
      · intro hn; have := rnone hn; simp [List.length_drop] at this; omega
      · intro hs ha
        apply rok hs
        show s'.autoSync = true ∨ s'.retryableSync = false
        rw [hc'.2.2.1, hc'.2.1]; exact ha
      · intro hs hn; exact rns hs (pn (hns' hs hn))
    unfold writeLoop
    by_cases hne : rest = []
    · subst hne
      simp only [List.isEmpty_nil, ↓reduceIte]
      exact ⟨hinv, SameCfg.refl s, 0, by simp, by simp, by simp, by simp, by simp, by simp, fun _ h => h⟩
    · have hie : rest.isEmpty = false := by simpa using hne
      simp only [hie, Bool.false_eq_true, ↓reduceIte]
      by_cases hav : s.cap - s.buf.length = 0
      · simp only [hav, ↓reduceIte]
        cases hr : s.retryableSync
        · -- flush frees the buffer
          simp only [Bool.false_eq_true, ↓reduceIte]
          obtain ⟨fi, fa, _, fnr, _, fns, _, _⟩ := flush_spec hinv
          exact cont (flush s) s.cap fi (flush_sameCfg s) fa hcap (fun _ hn => fns hn) hne
        · simp only [↓reduceIte]
          cases ha : s.autoSync
          · simp only [Bool.not_false, ↓reduceIte]
            refine ⟨hinv, SameCfg.refl s, 0, by simp, by simp, by simp, by simp, by simp, ?_, fun _ h => h⟩
            intro _ h; simp [ha, hr] at h
          · simp only [Bool.not_true, Bool.false_eq_true, ↓reduceIte]
            obtain ⟨si, sa, sc, scls, sok, sbuf, _, sns⟩ := sync_spec hinv syncOk
            match hsy : sync s syncOk with
            | (s', some e) =>
              rw [hsy] at si sa sc scls sok sns
              simp only
              refine ⟨si, sc, 0, by simp, by simp, by simp [sa], by simp, ?_, ?_, ?_⟩
              · rcases scls with h | h
                · simp at h
                · simp at h; simp [h]
              · intro hs _; have := sok hs; simp at this
              · intro hs hn; exact sns hs hn
            | (s', none) =>
              rw [hsy] at si sa sc scls sok sns
              simp only
              exact cont s' s'.cap si sc sa (by rw [sc.1]; exact hcap) (fun hs hn => sns hs hn) hne
      · simp only [hav, ↓reduceIte]
        exact cont s (s.cap - s.buf.length) hinv (SameCfg.refl s) rfl (by omega) (fun _ h => h) hne

theorem append_spec {s : SingleApp} (h : Inv s) (hcap : 0 < s.cap) (hc : s.closed = false)
    (hro : s.readOnly = false) (bs : Bytes) (hne : bs ≠ []) (syncOk : Bool) :
    Inv (append s bs syncOk).1 ∧ SameCfg s (append s bs syncOk).1 ∧
    (append s bs syncOk).2.1 = (abs s).size ∧
    (append s bs syncOk).2.2.1 ≤ bs.length ∧
    (abs (append s bs syncOk).1).bytes = (abs s).bytes ++ bs.take (append s bs syncOk).2.2.1 ∧
    ((append s bs syncOk).2.2.2 = none → (append s bs syncOk).2.2.1 = bs.length) ∧
    ((append s bs syncOk).2.2.2 = none ∨ (append s bs syncOk).2.2.2 = some .bufferFull ∨
      (append s bs syncOk).2.2.2 = some .syncFailed) ∧
    (syncOk = true → (s.autoSync = true ∨ s.retryableSync = false) → (append s bs syncOk).2.2.2 = none) ∧
    (syncOk = true → NoStaleTail s → NoStaleTail (append s bs syncOk).1) := by
  have hie : bs.isEmpty = false := by simpa using hne
  obtain ⟨wi, wc, k, wk, wkl, wa, wnone, wcls, wok, wns⟩ :=
    writeLoop_spec syncOk (bs.length + 1) s bs 0 h hcap hro (by omega)
  have hw : append s bs syncOk = ((writeLoop syncOk (bs.length + 1) s bs 0).1, s.offset,
      (writeLoop syncOk (bs.length + 1) s bs 0).2.1, (writeLoop syncOk (bs.length + 1) s bs 0).2.2) := by
    simp [append, hc, hro, hie, write]
  rw [hw]
  simp only [Nat.zero_add] at wk
  simp only [wk]
  exact ⟨wi, wc, (abs_size h).symm, wkl, wa, wnone, wcls, wok, wns⟩

theorem append_rejects (s : SingleApp) (bs : Bytes) (syncOk : Bool)
    (h : s.closed = true ∨ s.readOnly = true ∨ bs = []) :
    (append s bs syncOk).1 = s ∧ (append s bs syncOk).2.2.2 ≠ none := by
  unfold append
  cases hc : s.closed
  · cases hro : s.readOnly
    · have : bs = [] := by simpa [hc, hro] using h
      subst this; simp
    · simp
  · simp

/-! ### SetOffset -/

theorem setOffset_spec {s : SingleApp} (h : Inv s) (hc : s.closed = false) (hro : s.readOnly = false)
    (off : Nat) (hle : off ≤ (abs s).size) :
    (setOffset s (off : Int)).2 = none ∧ Inv (setOffset s (off : Int)).1 ∧ SameCfg s (setOffset s (off : Int)).1 ∧
    abs (setOffset s (off : Int)).1 = ⟨(abs s).bytes.take off⟩ ∧
    (s.fileOffset ≤ off → NoStaleTail s → NoStaleTail (setOffset s (off : Int)).1) := by
  rw [abs_size h] at hle
  obtain ⟨hfl, hfo, hpos, hnr, hroc, pre, htail⟩ := h
  have hneg : ¬ ((off : Int) < 0) := by omega
  simp only [setOffset, hc, hro, hneg, Bool.false_eq_true, ↓reduceIte, Int.toNat_natCast]
  have hgt : ¬ (off > s.offset) := by omega
  simp only [hgt, ↓reduceIte]
  unfold offset at hle
  by_cases heq : off = s.offset
  · simp only [heq, ↓reduceIte]
    refine ⟨trivial, ⟨hfl, hfo, hpos, hnr, hroc, pre, htail⟩, SameCfg.refl s, ?_, fun _ h => h⟩
    simp only [abs, ByteLog.mk.injEq]
    rw [List.take_of_length_le (l := s.file.take s.fileOffset ++ s.buf.drop s.flushed)]
    simp only [List.length_append, List.length_take, List.length_drop]
    unfold offset; omega
  · simp only [heq, ↓reduceIte]
    have hlf : (s.file.take s.fileOffset).length = s.fileOffset := by
      simp only [List.length_take]; omega
    by_cases hmem : off ≥ s.fileOffset
    · simp only [hmem, ↓reduceIte]
      have hm : s.buf.length - (s.offset - off) = off - s.fileOffset + s.flushed := by
        unfold offset; omega
      rw [hm]
      refine ⟨trivial, ⟨?_, hfo, hpos, hnr, ?_, pre, ?_⟩, by simp [SameCfg, hc, hro], ?_, fun _ h => h⟩
      · simp only [List.length_take]; omega
      · intro hh; simp at hh
      · show s.file.take s.fileOffset = pre ++ (s.buf.take (off - s.fileOffset + s.flushed)).take s.flushed
        rw [List.take_take]
        have : min s.flushed (off - s.fileOffset + s.flushed) = s.flushed := by omega
        rw [this]; exact htail
      · show (⟨s.file.take s.fileOffset ++ (s.buf.take (off - s.fileOffset + s.flushed)).drop s.flushed⟩ : ByteLog)
            = ⟨(s.file.take s.fileOffset ++ s.buf.drop s.flushed).take off⟩
        rw [List.take_append, List.take_of_length_le (l := s.file.take s.fileOffset) (by omega), hlf, List.drop_take]
        have : off - s.fileOffset + s.flushed - s.flushed = off - s.fileOffset := by omega
        rw [this]
    · simp only [hmem, ↓reduceIte]
      refine ⟨trivial, ⟨by simp, by simp only; omega, by simp, by simp, by simp, ⟨s.file.take off, by simp⟩⟩,
        by simp [SameCfg, hc, hro], ?_, ?_⟩
      · show (⟨s.file.take off ++ ([] : Bytes).drop 0⟩ : ByteLog)
            = ⟨(s.file.take s.fileOffset ++ s.buf.drop s.flushed).take off⟩
        rw [List.take_append_of_le_length (l₁ := s.file.take s.fileOffset) (by omega), List.take_take]
        have : min off s.fileOffset = off := by omega
        rw [this]; simp
      · intro hh; exact hh.elim

theorem setOffset_rejects_beyond {s : SingleApp} (h : Inv s) (off : Nat) (hgt : (abs s).size < off) :
    (setOffset s (off : Int)).1 = s ∧ (setOffset s (off : Int)).2 ≠ none := by
  rw [abs_size h] at hgt
  unfold setOffset
  have hneg : ¬ ((off : Int) < 0) := by omega
  have hgt' : off > s.offset := hgt
  cases s.closed <;> cases s.readOnly <;> simp [hneg, hgt']

/-! ### ReadAt -/

/-- A read of `[off, off+n)` does not touch rolled-back file bytes: it ends inside the flushed part,
or starts in the buffer, or there is nothing behind the flushed part. -/
def ReadSafe (s : SingleApp) (off n : Nat) : Prop :=
  off + n ≤ s.fileOffset ∨ s.fileOffset ≤ off ∨ NoStaleTail s

/-- the spec's answer in the shape of the implementation's `(bytes, err)` -/
def specRead (l : ByteLog) (off n : Nat) : Bytes × Option Err :=
  ((l.readAt off n).1, if (l.readAt off n).2 then some .eof else none)

theorem readAtCore_spec {s : SingleApp} (h : Inv s) (off n : Nat) (hs : ReadSafe s off n) :
    readAtCore s n (off : Int) = specRead (abs s) off n := by
  have hsz := abs_size h
  obtain ⟨hfl, hfo, hpos, hnr, hroc, pre, htail⟩ := h
  have hneg : ¬ ((off : Int) < 0) := by omega
  have hlf : (s.file.take s.fileOffset).length = s.fileOffset := by
    simp only [List.length_take]; omega
  simp only [readAtCore, hneg, ↓reduceIte, Int.toNat_natCast, specRead, ByteLog.readAt, hsz]
  by_cases hgt : off > s.offset
  · simp [hgt]
  · simp only [hgt, ↓reduceIte]
    have hoff : s.offset = s.fileOffset + (s.buf.length - s.flushed) := rfl
    by_cases hlt : off < s.fileOffset
    · simp only [hlt, ↓reduceIte, pread, abs]
      rcases hs with hs | hs | hs
      · -- entirely inside the flushed part
        have hd : ((s.file.drop off).take n).length = n := by
          simp only [List.length_take, List.length_drop]; omega
        have hA : ((s.file.take s.fileOffset ++ s.buf.drop s.flushed).drop off).take n = (s.file.drop off).take n := by
          rw [List.drop_append_of_le_length (by omega), List.take_append_of_le_length (by simp only [List.length_drop]; omega),
            List.drop_take, List.take_take]
          congr 1; omega
        simp only [hA, hd, Nat.sub_self, Nat.lt_irrefl, ↓reduceIte, decide_false, Bool.false_eq_true]
      · omega
      · -- no stale tail: the file read stops at the logical end of the file part, the rest comes from the buffer
        have hF : s.file.take s.fileOffset = s.file := by
          rw [List.take_of_length_le]; unfold NoStaleTail at hs; omega
        have hfl' : s.file.length = s.fileOffset := hs
        have hd : ((s.file.drop off).take n).length = min n (s.fileOffset - off) := by
          simp only [List.length_take, List.length_drop, hfl']
        have hA : ((s.file ++ s.buf.drop s.flushed).drop off).take n
            = (s.file.drop off).take n ++ (s.buf.drop s.flushed).take (n - (s.fileOffset - off)) := by
          rw [List.drop_append_of_le_length (by omega), List.take_append]
          simp only [List.length_drop, hfl']
        simp only [hF, hA]
        by_cases hp : n - ((s.file.drop off).take n).length > 0
        · simp only [hp, ↓reduceIte, Nat.add_zero, Nat.sub_zero]
          rw [hd] at hp ⊢
          have hpe : n - min n (s.fileOffset - off) = n - (s.fileOffset - off) := by omega
          rw [hpe]
          have hk : (s.buf.drop s.flushed).take (min (n - (s.fileOffset - off)) (s.buf.length - s.flushed))
              = (s.buf.drop s.flushed).take (n - (s.fileOffset - off)) := by
            have := take_min_length (s.buf.drop s.flushed) (n - (s.fileOffset - off))
            simpa only [List.length_drop] using this
          rw [hk]
          congr 1
          simp only [List.length_append, List.length_take, List.length_drop, hfl']
          by_cases hq : min (n - (s.fileOffset - off)) (s.buf.length - s.flushed) = n - (s.fileOffset - off)
          · simp only [hq, ↓reduceIte]
            simp
            try omega
          · simp only [hq, ↓reduceIte]
            simp
            try omega
        · simp only [hp, ↓reduceIte]
          rw [hd] at hp
          have hz : n - (s.fileOffset - off) = 0 := by omega
          have hnl : ¬ (((s.file.drop off).take n).length < n) := by rw [hd]; omega
          simp [hz]
          try omega
    · -- the read starts in the buffer
      simp only [hlt, ↓reduceIte, List.length_nil, Nat.sub_zero, List.nil_append, abs]
      have hA : ((s.file.take s.fileOffset ++ s.buf.drop s.flushed).drop off).take n
          = (s.buf.drop (s.flushed + (off - s.fileOffset))).take n := by
        rw [List.drop_append, List.drop_of_length_le (by omega), hlf, List.drop_drop, List.nil_append]
      simp only [hA]
      by_cases hp : n > 0
      · simp only [hp, ↓reduceIte]
        have hk : (s.buf.drop (s.flushed + (off - s.fileOffset))).take (min n (s.buf.length - s.flushed - (off - s.fileOffset)))
            = (s.buf.drop (s.flushed + (off - s.fileOffset))).take n := by
          have := take_min_length (s.buf.drop (s.flushed + (off - s.fileOffset))) n
          simp only [List.length_drop] at this
          rw [← this]; congr 1; omega
        rw [hk]
        congr 1
        simp only [List.length_take, List.length_drop]
        by_cases hq : min n (s.buf.length - s.flushed - (off - s.fileOffset)) = n
        · simp only [hq, ↓reduceIte]
          simp
          try omega
        · simp only [hq, ↓reduceIte]
          simp
          try omega
      · have : n = 0 := by omega
        subst this
        simp

/-! ### remaining API operations -/

theorem apiFlush_spec {s : SingleApp} (h : Inv s) :
    Inv (apiFlush s).1 ∧ abs (apiFlush s).1 = abs s ∧ SameCfg s (apiFlush s).1 ∧
    (NoStaleTail s → NoStaleTail (apiFlush s).1) := by
  unfold apiFlush
  cases s.closed
  · cases s.readOnly
    · obtain ⟨fi, fa, _, _, _, fns, _, _⟩ := flush_spec h
      exact ⟨fi, fa, flush_sameCfg s, fns⟩
    · exact ⟨h, rfl, SameCfg.refl s, fun h => h⟩
  · exact ⟨h, rfl, SameCfg.refl s, fun h => h⟩

theorem apiSync_spec {s : SingleApp} (h : Inv s) (ok : Bool) :
    Inv (apiSync s ok).1 ∧ abs (apiSync s ok).1 = abs s ∧ SameCfg s (apiSync s ok).1 ∧
    (ok = true → NoStaleTail s → NoStaleTail (apiSync s ok).1) := by
  unfold apiSync
  cases s.closed
  · cases s.readOnly
    · obtain ⟨si, sa, sc, _, _, _, _, sns⟩ := sync_spec h ok
      exact ⟨si, sa, sc, sns⟩
    · exact ⟨h, rfl, SameCfg.refl s, fun _ h => h⟩
  · exact ⟨h, rfl, SameCfg.refl s, fun _ h => h⟩

theorem discardUpto_spec (s : SingleApp) (off : Int) : (discardUpto s off).1 = s := by
  unfold discardUpto
  cases s.closed <;> simp
  split <;> rfl

theorem switchRO_spec {s : SingleApp} (h : Inv s) (ok : Bool) :
    Inv (switchRO s ok).1 ∧ abs (switchRO s ok).1 = abs s ∧
    (ok = true → NoStaleTail s → NoStaleTail (switchRO s ok).1) ∧
    ((switchRO s ok).2 = none → (switchRO s ok).1.readOnly = true) := by
  unfold switchRO
  cases hc : s.closed
  · cases hro : s.readOnly
    · simp only [Bool.false_eq_true, ↓reduceIte]
      obtain ⟨fi, fa, _, fnr, _, fns, _, _⟩ := flush_spec h
      have fc := flush_sameCfg s
      cases hr : s.retryableSync
      · have : (flush s).retryableSync = false := by rw [fc.2.1, hr]
        simp only [this, Bool.false_eq_true, ↓reduceIte]
        obtain ⟨a1, a2, a3, a4, a5, pre, a6⟩ := fi
        refine ⟨⟨a1, a2, a3, fun _ => a4 this, ?_, pre, a6⟩, ?_, fun _ hn => fns hn, by simp⟩
        · intro _; exact fnr hr
        · rw [← fa]; rfl
      · have hfr : (flush s).retryableSync = true := by rw [fc.2.1, hr]
        simp only [hfr, ↓reduceIte]
        obtain ⟨si, sa, sc, scls, sok, sbuf, _, sns⟩ := sync_spec fi ok
        match hsy : sync (flush s) ok with
        | (s2, some e) =>
          rw [hsy] at si sa sns
          simp only
          refine ⟨si, by rw [sa, fa], fun hk hn => sns hk (fns hn), by simp⟩
        | (s2, none) =>
          rw [hsy] at si sa sns sbuf
          simp only
          obtain ⟨a1, a2, a3, a4, a5, pre, a6⟩ := si
          have hb := (sbuf hfr rfl).1
          refine ⟨⟨a1, a2, a3, a4, fun _ => hb, pre, a6⟩, ?_, fun hk hn => sns hk (fns hn), by simp⟩
          rw [← fa, ← sa]; rfl
    · simp only [↓reduceIte]
      exact ⟨h, by trivial, fun _ h => h, by simp⟩
  · simp only [↓reduceIte]
    exact ⟨h, by trivial, fun _ h => h, by simp⟩

theorem close_spec {s : SingleApp} (h : Inv s) :
    Inv (close s).1 ∧ abs (close s).1 = abs s ∧ (NoStaleTail s → NoStaleTail (close s).1) ∧
    (s.closed = false → (close s).2 = none ∧ (close s).1.buf.drop (close s).1.flushed = []) := by
  unfold close
  cases hc : s.closed
  · simp only [Bool.false_eq_true, ↓reduceIte]
    cases hro : s.readOnly
    · simp only [Bool.not_false, ↓reduceIte]
      obtain ⟨⟨a1, a2, a3, a4, a5, pre, a6⟩, fa, ffl, _, _, fns, _, _⟩ := flush_spec h
      refine ⟨⟨a1, a2, a3, a4, a5, pre, a6⟩, ?_, fun hn => fns hn, fun _ => ⟨by trivial, ?_⟩⟩
      · rw [← fa]; rfl
      · show (flush s).buf.drop (flush s).flushed = []
        rw [ffl]; simp
    · simp only [Bool.not_true, Bool.false_eq_true, ↓reduceIte]
      obtain ⟨a1, a2, a3, a4, a5, pre, a6⟩ := h
      refine ⟨⟨a1, a2, a3, a4, a5, pre, a6⟩, by trivial, fun hn => hn, fun _ => ⟨by trivial, ?_⟩⟩
      show s.buf.drop s.flushed = []
      rw [a5 hro]; simp
  · simp only [↓reduceIte]
    exact ⟨h, by trivial, fun h => h, by simp⟩

/-- Reopening reads the PHYSICAL file: the content is the logical one iff nothing lies behind the
logical end of the file (all data flushed, no rolled-back tail). -/
theorem reopen_abs_of_clean (s : SingleApp) (o : SOpts) 
    (hns : NoStaleTail s) (hb : s.buf.drop s.flushed = []) :
    abs (reopen s o) = abs s := by
  unfold reopen
  rw [openFile_abs]
  unfold NoStaleTail at hns
  simp only [abs, hb, List.append_nil]
  rw [List.take_of_length_le (by omega)]

theorem copy_spec {s : SingleApp} (h : Inv s) :
    Inv (copy s).1 ∧ abs (copy s).1 = abs s ∧ (NoStaleTail s → NoStaleTail (copy s).1) := by
  unfold copy
  cases hc : s.closed
  · simp only [Bool.false_eq_true, ↓reduceIte]
    obtain ⟨⟨a1, a2, a3, a4, a5, pre, a6⟩, fa, _, _, _, fns, _, _⟩ := flush_spec h
    refine ⟨⟨a1, a2, by simp, a4, a5, pre, a6⟩, ?_, fun hn => fns hn⟩
    rw [← fa]; rfl
  · simp only [↓reduceIte]
    exact ⟨h, by trivial, fun h => h⟩

/-! ### physical file length (used by the multiapp proofs: chunks never exceed `fileSize`) -/

theorem flush_file_len {s : SingleApp} (h : Inv s) :
    s.file.length ≤ (flush s).file.length ∧ (flush s).file.length ≤ max s.file.length s.offset := by
  obtain ⟨hfl, hfo, hpos, hnr, hroc, pre, htail⟩ := h
  rw [flush_eq]
  by_cases h0 : s.buf.length - s.flushed = 0
  · simp only [h0, ↓reduceIte]; omega
  · simp only [h0, ↓reduceIte]
    have hp : (if s.seekRequired = true then s.fileOffset else s.pos) = s.fileOffset := by
      by_cases hs : s.seekRequired = true
      · simp [hs]
      · have : s.seekRequired = false := by simpa using hs
        simp [this, hpos this]
    rw [hp, writeAt_length _ _ _ hfo]
    simp only [List.length_drop, offset]
    omega

theorem sync_file_len {s : SingleApp} (h : Inv s) (ok : Bool) :
    s.file.length ≤ (sync s ok).1.file.length ∧ (sync s ok).1.file.length ≤ max s.file.length s.offset := by
  have hf := flush_file_len h
  have : (sync s ok).1.file = (flush s).file := by
    simp only [sync]
    cases (flush s).retryableSync <;> cases ok <;> simp
  rw [this]; exact hf

theorem setOffset_file (s : SingleApp) (off : Int) : (setOffset s off).1.file = s.file := by
  unfold setOffset
  cases s.closed <;> cases s.readOnly <;> simp
  split
  · rfl
  · split
    · rfl
    · split
      · rfl
      · split <;> rfl

theorem writeLoop_file_len (syncOk : Bool) : ∀ (fuel : Nat) (s : SingleApp) (rest : Bytes) (n B : Nat),
    Inv s → s.readOnly = false → s.file.length ≤ B → s.offset + rest.length ≤ B →
    (writeLoop syncOk fuel s rest n).1.file.length ≤ B ∧ s.file.length ≤ (writeLoop syncOk fuel s rest n).1.file.length := by
  intro fuel
  induction fuel with
  | zero => intro s rest n B _ _ h _; simp [writeLoop]; exact h
  | succ fuel ih =>
    intro s rest n B hinv hro hlen hoff
    have cont : ∀ (s' : SingleApp) (avail : Nat), Inv s' → s'.readOnly = false → s'.file.length ≤ B →
        s.file.length ≤ s'.file.length → s'.offset = s.offset →
        (writeLoop syncOk fuel { s' with buf := s'.buf ++ rest.take (min rest.length avail) }
            (rest.drop (min rest.length avail)) (n + min rest.length avail)).1.file.length ≤ B ∧
        s.file.length ≤ (writeLoop syncOk fuel { s' with buf := s'.buf ++ rest.take (min rest.length avail) }
            (rest.drop (min rest.length avail)) (n + min rest.length avail)).1.file.length := by
      intro s' avail hi' hro' hl' hge ho'
      obtain ⟨pi, _, _⟩ := push_spec hi' hro' (rest.take (min rest.length avail))
      have hoff' : ({ s' with buf := s'.buf ++ rest.take (min rest.length avail) } : SingleApp).offset
            + (rest.drop (min rest.length avail)).length ≤ B := by
        have hfl := hi'.fl_le
        simp only [offset, List.length_append, List.length_take, List.length_drop] at ho' ⊢
        unfold offset at hoff
        omega
      have := ih _ _ (n + min rest.length avail) B pi hro' hl' hoff'
      exact ⟨this.1, Nat.le_trans hge this.2⟩
    unfold writeLoop
    by_cases hne : rest = []
    · subst hne
      simp only [List.isEmpty_nil, ↓reduceIte]
      exact ⟨hlen, Nat.le_refl _⟩
    · have hie : rest.isEmpty = false := by simpa using hne
      simp only [hie, Bool.false_eq_true, ↓reduceIte]
      by_cases hav : s.cap - s.buf.length = 0
      · simp only [hav, ↓reduceIte]
        cases hr : s.retryableSync
        · simp only [Bool.false_eq_true, ↓reduceIte]
          obtain ⟨fi, fa, _⟩ := flush_spec hinv
          have hfl := flush_file_len hinv
          have ho : (flush s).offset = s.offset := by rw [← abs_size fi, ← abs_size hinv, fa]
          exact cont (flush s) s.cap fi (by rw [(flush_sameCfg s).2.2.2.1]; exact hro)
            (by have : s.offset ≤ B := by omega
                omega) hfl.1 ho
        · simp only [↓reduceIte]
          cases ha : s.autoSync
          · simp only [Bool.not_false, ↓reduceIte]
            exact ⟨hlen, Nat.le_refl _⟩
          · simp only [Bool.not_true, Bool.false_eq_true, ↓reduceIte]
            obtain ⟨si, sa, sc, _⟩ := sync_spec hinv syncOk
            have hsl := sync_file_len hinv syncOk
            have ho : (sync s syncOk).1.offset = s.offset := by rw [← abs_size si, ← abs_size hinv, sa]
            match hsy : sync s syncOk with
            | (s', some e) =>
              rw [hsy] at hsl
              simp only
              exact ⟨by have : s.offset ≤ B := by omega
                        simp only at hsl; omega, hsl.1⟩
            | (s', none) =>
              rw [hsy] at hsl si sc ho
              simp only
              exact cont s' s'.cap si (by rw [sc.2.2.2.1]; exact hro)
                (by have : s.offset ≤ B := by omega
                    simp only at hsl; omega) hsl.1 ho
      · simp only [hav, ↓reduceIte]
        exact cont s (s.cap - s.buf.length) hinv hro hlen (Nat.le_refl _) rfl

theorem append_file_len {s : SingleApp} (h : Inv s) (bs : Bytes) (ok : Bool) (B : Nat)
    (hl : s.file.length ≤ B) (ho : s.offset + bs.length ≤ B) :
    (append s bs ok).1.file.length ≤ B ∧ s.file.length ≤ (append s bs ok).1.file.length := by
  unfold append
  cases hc : s.closed
  · cases hro : s.readOnly
    · cases hb : bs.isEmpty
      · simp only [Bool.false_eq_true, ↓reduceIte, write]
        exact writeLoop_file_len ok _ s bs 0 B h hro hl ho
      · simp only [↓reduceIte, Bool.false_eq_true]; exact ⟨hl, Nat.le_refl _⟩
    · simp only [↓reduceIte, Bool.false_eq_true]; exact ⟨hl, Nat.le_refl _⟩
  · simp only [↓reduceIte]; exact ⟨hl, Nat.le_refl _⟩

end SingleApp
end ImmuModel.Log
