/-
C17 — MIRROR of `embedded/appendable/multiapp/multi_app.go` (`MultiFileAppendable`) with the default
hooks (local files), uncompressed format, and of the handle cache it uses
(`multiapp/appendable_cache.go` over `embedded/cache/cache.go`, SIEVE replacement).

State
  directory content                → `disk : Nat → Option Bytes` (chunk id ↦ physical content after the header);
                                      `top` bounds the ids ever created.  The entry of the CURRENT chunk is kept
                                      equal to `cur.file` (write-through), because several handles may share a file.
  currApp / currAppID              → `cur : SingleApp`, `curId`
  appendables (cache of handles)   → `cache`: per cached chunk only the handle's `fileOffset` snapshot taken when
                                      the handle was opened (`fo`) matters: cached handles never hold buffered data
  fileSize, len(writeBuffer), retryableSync, autoSync, readOnly, closed, prealloc, metadata → same names

Not modelled: I/O errors other than an injected fsync failure; compressed formats; the prefetch goroutines
(`prefetchAheadDepth = 0` for local files); negative offsets (`Nat` offsets); concurrency (one mutex).
Core Lean only.
-/
import ImmuModel.Log.SingleApp

namespace ImmuModel.Log

/-! ### SIEVE cache of chunk handles (`embedded/cache/cache.go`, all weights 1) -/

structure CEntry where
  key : Nat
  visited : Bool
  fo : Nat          -- value: the cached handle, reduced to its `fileOffset`
deriving DecidableEq, Repr

structure Cache where
  entries : List CEntry      -- container/list order, front first
  hand : Option Nat          -- key of the element `hand` points to (nil = none)
  max : Nat                  -- maxWeight = maxOpenedFiles
deriving DecidableEq, Repr

namespace Cache

def new (max : Nat) : Cache := { entries := [], hand := none, max := max }

/-- `Element.Prev()`: the key of the element in front of `k` (none at the front). -/
def prevKey : List CEntry → Nat → Option Nat
  | [], _ => none
  | [_], _ => none
  | a :: b :: rest, k => if b.key = k then some a.key else prevKey (b :: rest) k

def find (c : Cache) (k : Nat) : Option CEntry := c.entries.find? (fun e => e.key = k)

/-- `Get`: marks the entry visited. -/
def get (c : Cache) (k : Nat) : Option (Cache × Nat) :=
  match c.find k with
  | none => none
  | some e => some ({ c with entries := c.entries.map fun x => if x.key = k then { x with visited := true } else x }, e.fo)

/-- `pop` -/
def pop (c : Cache) (k : Nat) : Cache :=
  match c.find k with
  | none => c
  | some _ =>
    let hand := if c.hand = some k then prevKey c.entries k else c.hand
    { c with entries := c.entries.filter (fun e => e.key ≠ k), hand := hand }

/-- `evict`: the SIEVE hand walks from the back to the front clearing `visited` bits;
`none` is `ErrCannotEvictItem` / empty cache. Result: evicted key, remaining entries, new hand. -/
def evictLoop : Nat → List CEntry → Option Nat → Option (Nat × List CEntry × Option Nat)
  | 0, _, _ => none
  | fuel+1, es, curr =>
    let curr := match curr with
      | some k => some k
      | none => es.getLast?.map CEntry.key
    match curr with
    | none => none
    | some k =>
      match es.find? (fun (e : CEntry) => e.key = k) with
      | none => none
      | some e =>
        if !e.visited then some (k, es.filter (fun (x : CEntry) => x.key ≠ k), prevKey es k)
        else evictLoop fuel (es.map fun (x : CEntry) => if x.key = k then { x with visited := false } else x) (prevKey es k)

/-- `Put` (weight 1): existing key → value replaced and marked visited; otherwise evict while full,
push front with `visited = 0`. Returns the evicted key (its handle gets closed). -/
def put (c : Cache) (k fo : Nat) : Cache × Option Nat :=
  match c.find k with
  | some _ =>
    ({ c with entries := c.entries.map fun x => if x.key = k then { x with visited := true, fo := fo } else x }, none)
  | none =>
    if c.entries.length + 1 > c.max then
      match evictLoop (2 * c.entries.length) c.entries c.hand with
      | none => (c, none)   -- ErrCannotEvictItem: unreachable (after one sweep every bit is clear)
      | some (ek, es, hand) =>
        ({ c with entries := { key := k, visited := false, fo := fo } :: es, hand := hand }, some ek)
    else ({ c with entries := { key := k, visited := false, fo := fo } :: c.entries }, none)

end Cache

/-! ### MultiFileAppendable -/

structure MOpts where
  fileSize : Nat
  cap : Nat               -- writeBufferSize
  maxOpenedFiles : Nat
  retryableSync : Bool
  autoSync : Bool
  readOnly : Bool
  prealloc : Bool
deriving DecidableEq, Repr

structure MultiApp where
  disk : Nat → Option Bytes
  top : Nat
  cur : SingleApp
  curId : Nat
  cache : Cache
  fileSize : Nat
  cap : Nat
  retryableSync : Bool
  autoSync : Bool
  readOnly : Bool
  closed : Bool
  prealloc : Bool
  mdata : Bytes

def upd (d : Nat → Option Bytes) (i : Nat) (v : Option Bytes) : Nat → Option Bytes :=
  fun j => if j = i then v else d j

/-- Highest chunk id `< top` present in the directory (`entries[len(entries)-1]` of `os.ReadDir`). -/
def highest (d : Nat → Option Bytes) : Nat → Option Nat
  | 0 => none
  | n+1 => match d n with
    | some _ => some n
    | none => highest d n

namespace MultiApp

def sopts (m : MultiApp) : SOpts :=
  { cap := m.cap, retryableSync := m.retryableSync, autoSync := m.autoSync, readOnly := m.readOnly }

/-- replace the current chunk's handle, writing its file through to the directory image -/
def withCur (m : MultiApp) (c : SingleApp) : MultiApp :=
  { m with cur := c, disk := upd m.disk m.curId (some c.file) }

/-- `Open`: the last directory entry becomes the current chunk; an empty directory gets chunk 0. -/
def openDir (disk : Nat → Option Bytes) (top : Nat) (o : MOpts) (mdata : Bytes) : MultiApp :=
  let so : SOpts := { cap := o.cap, retryableSync := o.retryableSync, autoSync := o.autoSync, readOnly := o.readOnly }
  let (id, cur) := match highest disk top with
    | some id => (id, match disk id with
        | some f => SingleApp.openFile f so mdata
        | none => SingleApp.openFile [] so mdata)   -- unreachable: `highest` returns present ids
    | none => (0, SingleApp.create so (if o.prealloc then o.fileSize else 0) mdata)
  { disk := upd disk id (some cur.file), top := max top (id + 1), cur := cur, curId := id,
    cache := Cache.new o.maxOpenedFiles, fileSize := o.fileSize, cap := o.cap,
    retryableSync := o.retryableSync, autoSync := o.autoSync, readOnly := o.readOnly, closed := false,
    prealloc := o.prealloc, mdata := mdata }

def create (o : MOpts) (mdata : Bytes) : MultiApp := openDir (fun _ => none) 0 o mdata

/-- `offset()` -/
def offset (m : MultiApp) : Nat := m.curId * m.fileSize + m.cur.offset

/-- `Size()` -/
def size (m : MultiApp) : Except Err Nat :=
  if m.closed then .error .alreadyClosed
  else match m.cur.size with
    | .error e => .error e
    | .ok s => .ok (m.curId * m.fileSize + s)

/-- `Append`: the `for n < len(bs)` loop with chunk rotation. Result: state, off, n, err. -/
def appendLoop (syncOk : Bool) : Nat → MultiApp → Bytes → Nat → Nat → MultiApp × Nat × Nat × Option Err
  | 0, m, _, n, off => (m, off, n, some .hang)
  | fuel+1, m, rest, n, off =>
    if rest.isEmpty then (m, off, n, none)
    else
      let body (m : MultiApp) (available : Nat) :=
        let d := min available rest.length
        match m.cur.append (rest.take d) syncOk with
        | (c, _, _, some e) => (m.withCur c, off, n, some e)
        | (c, offn, _, none) =>
          let off := if n = 0 then offn + m.curId * m.fileSize else off
          appendLoop syncOk fuel (m.withCur c) (rest.drop d) (n + d) off
      if m.fileSize ≤ m.cur.offset then
        -- available <= 0: rotate
        match m.cur.switchRO syncOk with
        | (c, some e) => (m.withCur c, off, n, some e)
        | (c, none) =>
          let m1 := m.withCur c
          let cache := (m1.cache.put m1.curId c.fileOffset).1     -- the evicted handle is closed (no effect)
          let id := m1.curId + 1
          -- openAppendable(name(id), createIfNotExists, activeChunk); an existing (stale) file is reused
          let c2 := match m1.disk id with
            | some f => SingleApp.openFile f m1.sopts m1.mdata
            | none => SingleApp.create m1.sopts (if m1.prealloc then m1.fileSize else 0) m1.mdata
          let m2 : MultiApp := { m1 with cache := cache, curId := id, cur := c2,
                                          disk := upd m1.disk id (some c2.file), top := max m1.top (id + 1) }
          match c2.setOffset 0 with
          | (c3, some e) => (m2.withCur c3, off, n, some e)
          | (c3, none) => body (m2.withCur c3) m2.fileSize
      else body m (m.fileSize - m.cur.offset)

def append (m : MultiApp) (bs : Bytes) (syncOk : Bool := true) : MultiApp × Nat × Nat × Option Err :=
  if m.closed then (m, 0, 0, some .alreadyClosed)
  else if m.readOnly then (m, 0, 0, some .readOnly)
  else if bs.isEmpty then (m, 0, 0, some .illegalArguments)
  else appendLoop syncOk (bs.length + 1) m bs 0 0

/-- `SetOffset(off)`; later chunk files are left on disk. -/
def setOffset (m : MultiApp) (off : Nat) : MultiApp × Option Err :=
  if m.closed then (m, some .alreadyClosed)
  else if m.readOnly then (m, some .readOnly)
  else
    let curr := m.offset
    if off > curr then (m, some .illegalArguments)
    else if off = curr then (m, none)
    else
      let appID := off / m.fileSize
      let loc : Int := ((off % m.fileSize : Nat) : Int)
      if m.curId ≠ appID then
        let cache := (List.range' appID (m.curId - appID)).foldl (fun c i => c.pop i) m.cache
        match m.cur.close with
        | (c, some e) => ({ m.withCur c with cache := cache }, some e)
        | (c, none) =>
          let m1 : MultiApp := { m.withCur c with cache := cache }
          match m1.disk appID with
          | none => (m1, some .eof)          -- os.IsNotExist → io.EOF; the current chunk stays closed
          | some f =>
            let c2 := SingleApp.openFile f m1.sopts m1.mdata
            let m2 : MultiApp := { m1 with curId := appID, cur := c2 }
            match c2.setOffset loc with
            | (c3, e) => (m2.withCur c3, e)
      else
        match m.cur.setOffset loc with
        | (c, e) => (m.withCur c, e)

/-- `DiscardUpto(off)`: removes the chunk files strictly below the chunk of `off`, never the current one. -/
def discardUpto (m : MultiApp) (off : Nat) : MultiApp × Option Err :=
  if m.closed then (m, some .alreadyClosed)
  else if m.offset < off then (m, some .illegalArguments)
  else
    let appID := off / m.fileSize
    let ids := List.range (min appID m.curId)
    ({ m with cache := ids.foldl (fun c i => c.pop i) m.cache,
              disk := ids.foldl (fun d i => upd d i none) m.disk }, none)

/-- a handle on a non-current chunk: opened on the physical file `f`, `fileOffset` snapshot `fo` -/
def handle (m : MultiApp) (f : Bytes) (fo : Nat) : SingleApp :=
  { SingleApp.openFile f m.sopts m.mdata with fileOffset := fo, pos := fo }

/-- `appendableFor(off)`: current chunk, cached handle, or a freshly opened (and cached) handle;
`none` = the chunk file does not exist. -/
def appendableFor (m : MultiApp) (off : Nat) : MultiApp × Option SingleApp :=
  let appID := off / m.fileSize
  if appID = m.curId then (m, some m.cur)
  else
    match m.cache.get appID with
    | some (cache, fo) =>
      match m.disk appID with
      | some f => ({ m with cache := cache }, some (m.handle f fo))
      | none => ({ m with cache := cache }, none)      -- unreachable: discarding pops the handle first
    | none =>
      match m.disk appID with
      | none => (m, none)
      | some f =>
        let cache := (m.cache.put appID f.length).1
        let cache := match cache.get appID with
          | some (c, _) => c
          | none => cache
        ({ m with cache := cache }, some (m.handle f f.length))

/-- `ReadAt(bs, off)` with `len(bs) = n`: routing over chunks. -/
def readLoop : Nat → MultiApp → Nat → Nat → Bytes → MultiApp × Bytes × Option Err
  | 0, m, _, _, acc => (m, acc, some .hang)
  | fuel+1, m, n, off, acc =>
    if acc.length ≥ n then (m, acc, none)
    else if m.closed then (m, acc, some .alreadyClosed)
    else
      let offr := off + acc.length
      match m.appendableFor offr with
      | (m1, none) => (m1, acc, some .eof)
      | (m1, some app) =>
        let (d, e) := app.readAt (some (n - acc.length)) ((offr % m.fileSize : Nat) : Int)
        let acc := acc ++ d
        match e with
        | some .eof => if d.length > 0 then readLoop fuel m1 n off acc else (m1, acc, some .eof)
        | some e => (m1, acc, some e)
        | none => readLoop fuel m1 n off acc

def readAt (m : MultiApp) (n : Nat) (off : Nat) : MultiApp × Bytes × Option Err :=
  if n = 0 then (m, [], some .illegalArguments)
  else readLoop (n + 1) m n off []

/-- `SwitchToReadOnlyMode()` -/
def switchRO (m : MultiApp) (syncOk : Bool := true) : MultiApp × Option Err :=
  if m.closed then (m, some .alreadyClosed)
  else if m.readOnly then (m, some .readOnly)
  else match m.cur.switchRO syncOk with
    | (c, some e) => (m.withCur c, some e)
    | (c, none) => ({ m.withCur c with cap := 0, readOnly := true }, none)

/-- `Flush()` -/
def flush (m : MultiApp) : MultiApp × Option Err :=
  if m.closed then (m, some .alreadyClosed)
  else if m.readOnly then (m, some .readOnly)
  else match m.cur.apiFlush with
    | (c, e) => (m.withCur c, e)

/-- `Sync()` -/
def sync (m : MultiApp) (syncOk : Bool := true) : MultiApp × Option Err :=
  if m.closed then (m, some .alreadyClosed)
  else if m.readOnly then (m, some .readOnly)
  else match m.cur.apiSync syncOk with
    | (c, e) => (m.withCur c, e)

/-- `Close()`: cached handles are closed (no buffered data), then the current chunk. -/
def close (m : MultiApp) : MultiApp × Option Err :=
  if m.closed then (m, some .alreadyClosed)
  else match m.cur.close with
    | (c, e) => ({ m.withCur c with closed := true }, e)

/-- re-`Open` of the directory after `Close` -/
def reopen (m : MultiApp) (o : MOpts) : MultiApp := openDir m.disk m.top o m.mdata

/-- `Copy(dst)`: sync (unless read-only), then every file of the directory is copied. -/
def copy (m : MultiApp) (syncOk : Bool := true) : MultiApp × Except Err ((Nat → Option Bytes) × Nat) :=
  if m.closed then (m, .error .alreadyClosed)
  else if m.readOnly then (m, .ok (m.disk, m.top))
  else match m.cur.apiSync syncOk with
    | (c, some e) => (m.withCur c, .error e)
    | (c, none) => let m1 := m.withCur c; (m1, .ok (m1.disk, m1.top))

end MultiApp
end ImmuModel.Log
