/-
C17 — multiapp mirror model: abstraction function, invariant, and lemmas about the handle cache.
(Helper file; property theorems are in Props/C17.lean.)
-/
import ImmuModel.Log.ByteLog
import ImmuModel.Log.MultiApp
import ImmuModel.Log.SingleAppLemmas

namespace ImmuModel.Log

/-! ### handle cache: which (chunk id, fileOffset snapshot) pairs it can hold -/
namespace Cache

def pairs (c : Cache) : List (Nat × Nat) := c.entries.map fun e => (e.key, e.fo)

theorem find_some_mem {c : Cache} {k : Nat} {e : CEntry} (h : c.find k = some e) :
    e ∈ c.entries ∧ e.key = k := by
  unfold find at h
  have := List.find?_some h
  exact ⟨List.mem_of_find?_eq_some h, by simpa using this⟩

theorem find_none_ne {c : Cache} {k : Nat} (h : c.find k = none) : ∀ e ∈ c.entries, e.key ≠ k := by
  unfold find at h
  intro e he
  have := List.find?_eq_none.mp h e he
  simpa using this

theorem get_pairs {c c' : Cache} {k fo : Nat} (h : c.get k = some (c', fo)) :
    c'.pairs = c.pairs ∧ (k, fo) ∈ c.pairs := by
  unfold get at h
  cases hf : c.find k with
  | none => simp [hf] at h
  | some e =>
    simp only [hf, Option.some.injEq, Prod.mk.injEq] at h
    obtain ⟨h1, h2⟩ := h
    obtain ⟨hm, hk⟩ := find_some_mem hf
    constructor
    · subst h1
      simp only [pairs, List.map_map]
      apply List.map_congr_left
      intro x _
      by_cases hx : x.key = k <;> simp [hx]
    · subst h2
      simp only [pairs, List.mem_map]
      exact ⟨e, hm, by rw [hk]⟩

theorem pop_pairs {c : Cache} {k : Nat} {p : Nat × Nat} (h : p ∈ (c.pop k).pairs) : p ∈ c.pairs ∧ p.1 ≠ k := by
  unfold pop at h
  cases hf : c.find k with
  | none =>
    simp only [hf] at h
    refine ⟨h, ?_⟩
    simp only [pairs, List.mem_map] at h
    obtain ⟨e, he, rfl⟩ := h
    exact find_none_ne hf e he
  | some e =>
    simp only [hf, pairs, List.mem_map, List.mem_filter] at h
    obtain ⟨x, ⟨hx, hne⟩, rfl⟩ := h
    refine ⟨?_, by simpa using hne⟩
    simp only [pairs, List.mem_map]
    exact ⟨x, hx, rfl⟩

theorem evictLoop_pairs : ∀ (fuel : Nat) (es : List CEntry) (curr : Option Nat) (k : Nat) (es' : List CEntry)
    (hand : Option Nat), evictLoop fuel es curr = some (k, es', hand) →
    ∀ p ∈ es'.map (fun e => (e.key, e.fo)), p ∈ es.map (fun e => (e.key, e.fo)) := by
  intro fuel
  induction fuel with
  | zero => intro es curr k es' hand h; simp [evictLoop] at h
  | succ fuel ih =>
    intro es curr k es' hand h p hp
    unfold evictLoop at h
    simp only at h
    split at h
    · simp at h
    · rename_i kk _
      split at h
      · simp at h
      · rename_i e _
        by_cases hv : e.visited = true
        · simp only [hv, Bool.not_true, Bool.false_eq_true, ↓reduceIte] at h
          have := ih _ _ _ _ _ h p hp
          simp only [List.map_map] at this
          have heq : (List.map ((fun e => (e.key, e.fo)) ∘ fun (x : CEntry) => if x.key = kk then { x with visited := false } else x) es)
              = List.map (fun e => (e.key, e.fo)) es := by
            apply List.map_congr_left
            intro x _
            by_cases hx : x.key = kk <;> simp [hx]
          rw [heq] at this
          exact this
        · have hv' : e.visited = false := by simpa using hv
          simp only [hv', Bool.not_false, ↓reduceIte, Option.some.injEq, Prod.mk.injEq] at h
          obtain ⟨_, h2, _⟩ := h
          subst h2
          simp only [List.mem_map, List.mem_filter] at hp ⊢
          obtain ⟨x, ⟨hx, _⟩, rfl⟩ := hp
          exact ⟨x, hx, rfl⟩

theorem put_pairs {c : Cache} {k v : Nat} {p : Nat × Nat} (h : p ∈ (c.put k v).1.pairs) :
    p = (k, v) ∨ (p ∈ c.pairs ∧ p.1 ≠ k) := by
  unfold put at h
  cases hf : c.find k with
  | some e =>
    simp only [hf, pairs, List.map_map, List.mem_map, Function.comp] at h
    obtain ⟨x, hx, rfl⟩ := h
    by_cases hk : x.key = k
    · left; simp [hk]
    · right
      simp only [hk, ↓reduceIte]
      exact ⟨by simp only [pairs, List.mem_map]; exact ⟨x, hx, rfl⟩, hk⟩
  | none =>
    have hne := find_none_ne hf
    simp only [hf] at h
    split at h
    · split at h
      · right
        simp only [pairs, List.mem_map] at h ⊢
        obtain ⟨x, hx, rfl⟩ := h
        exact ⟨⟨x, hx, rfl⟩, hne x hx⟩
      · rename_i ek es hand hev
        simp only [pairs, List.map_cons, List.mem_cons] at h
        rcases h with h | h
        · left; exact h
        · right
          have := evictLoop_pairs _ _ _ _ _ _ hev p h
          simp only [pairs]
          refine ⟨this, ?_⟩
          simp only [List.mem_map] at this
          obtain ⟨x, hx, rfl⟩ := this
          exact hne x hx
    · simp only [pairs, List.map_cons, List.mem_cons] at h
      rcases h with h | h
      · left; exact h
      · right
        refine ⟨h, ?_⟩
        simp only [List.mem_map] at h
        obtain ⟨x, hx, rfl⟩ := h
        exact hne x hx

end Cache

/-! ### abstraction and invariant -/
namespace MultiApp

/-- content of chunk `i`; a discarded chunk is represented by `fileSize` placeholder bytes
(nothing is claimed about reads below the discarded prefix) -/
def chunkOr (m : MultiApp) (i : Nat) : Bytes :=
  match m.disk i with
  | some f => f
  | none => List.replicate m.fileSize 0

/-- concatenation of the chunks `0 … k-1` -/
def prefixBytes (m : MultiApp) : Nat → Bytes
  | 0 => []
  | k+1 => prefixBytes m k ++ chunkOr m k

/-- The logical content: all chunks below the current one, then the current chunk's logical content. -/
def abs (m : MultiApp) : ByteLog := ⟨prefixBytes m m.curId ++ (SingleApp.abs m.cur).bytes⟩

/-- Invariant of every state reachable without error-path corruption (uncompressed format). -/
structure MInv (m : MultiApp) : Prop where
  fs_pos : 0 < m.fileSize
  cur_inv : SingleApp.Inv m.cur
  cur_disk : m.disk m.curId = some m.cur.file
  cur_len : m.cur.file.length ≤ m.fileSize
  cur_off : m.cur.offset ≤ m.fileSize
  below_full : ∀ i f, i < m.curId → m.disk i = some f → f.length = m.fileSize
  all_le : ∀ i f, m.disk i = some f → f.length ≤ m.fileSize
  cache_ok : ∀ p ∈ m.cache.pairs, p.1 < m.curId → p.2 = m.fileSize
  top_ok : m.curId < m.top ∧ ∀ i, m.top ≤ i → m.disk i = none
  cfg : m.cur.closed = false ∧ m.cur.readOnly = m.readOnly ∧ m.cur.retryableSync = m.retryableSync ∧
        m.cur.autoSync = m.autoSync ∧ m.cur.mdata = m.mdata ∧ (m.readOnly = false → m.cur.cap = m.cap ∧ 0 < m.cap)

/-- all chunk files from the chunk of `lo` up to the current chunk exist (nothing discarded there) -/
def Present (m : MultiApp) (lo : Nat) : Prop := ∀ i, lo / m.fileSize ≤ i → i < m.curId → m.disk i ≠ none

/-- nothing rolled back is left on disk: no stale tail in the current chunk, no later chunk files -/
def NoStale (m : MultiApp) : Prop := SingleApp.NoStaleTail m.cur ∧ ∀ i, m.curId < i → m.disk i = none

theorem chunkOr_length {m : MultiApp} (h : MInv m) {i : Nat} (hi : i < m.curId) : (chunkOr m i).length = m.fileSize := by
  unfold chunkOr
  cases hd : m.disk i with
  | none => simp
  | some f => exact h.below_full i f hi hd

theorem prefixBytes_length {m : MultiApp} (h : MInv m) : ∀ k, k ≤ m.curId → (prefixBytes m k).length = k * m.fileSize := by
  intro k
  induction k with
  | zero => intro _; simp [prefixBytes]
  | succ k ih =>
    intro hk
    simp only [prefixBytes, List.length_append, ih (by omega), chunkOr_length h (by omega : k < m.curId)]
    rw [Nat.succ_mul]

theorem abs_size {m : MultiApp} (h : MInv m) : (abs m).size = m.offset := by
  simp only [abs, ByteLog.size, List.length_append, prefixBytes_length h m.curId (Nat.le_refl _), offset]
  have := SingleApp.abs_size h.cur_inv
  simp only [ByteLog.size] at this
  rw [this]

end MultiApp
end ImmuModel.Log
